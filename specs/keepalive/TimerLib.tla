------------------------------ MODULE TimerLib ------------------------------
(* X04: the rule of pox.lib.recoco.recoco.Timer, shared by Timers.tla (the   *)
(* Timer class itself) and Keepalive.tla (the one recurring Timer that       *)
(* pox.openflow.keepalive runs).                                             *)
(*                                                                           *)
(*   class Timer (Task):                                                     *)
(*     __init__: _next = timeToWake; _interval = timeToWake if recurring     *)
(*               else 0; if started: start()                                 *)
(*     start():  assert not _started; if not absolute: _next += time.time()  *)
(*     cancel(): _cancelled = True                                           *)
(*     run():    while not _cancelled:                                       *)
(*                 yield Sleep(_next, absoluteTime=True)      <- wake-up     *)
(*                 if _cancelled: break                                      *)
(*                 _next = time.time() + _interval            <- re-arm      *)
(*                 rv = _callback(args.., kw..)               <- fire        *)
(*                 if _self_stoppable and rv is False: break                 *)
(*                 if not _recurring: break                                  *)
(*                                                                           *)
(* A timer is a record [st, next, cancelled, d, rec, ss, abs]:               *)
(*   st    "none" (no object) | "new" (constructed with started=False)       *)
(*         | "armed" (started: sleeping until `next`) | "done" (its task left *)
(*         the loop or was de-scheduled)                                     *)
(*   next  absolute due time (for st = "new" and a relative timer: still the *)
(*         relative delay; start() adds the clock)                           *)
EXTENDS Naturals

NoTimer == [st |-> "none", next |-> 0, cancelled |-> FALSE, d |-> 0, rec |-> FALSE, ss |-> TRUE, abs |-> FALSE]

\* start() at time now
Started(t, now) == [t EXCEPT !.st = "armed", !.next = IF t.abs THEN t.d ELSE now + t.d]

\* the wake-up leads to a call of the callback: started, not cancelled, its time has come.
\* (A wake-up never comes before `next`: Sleep(absolute) / SelectHub, specs/recoco/Sched.tla NeverEarly.)
IsDue(t, now) == t.st = "armed" /\ ~t.cancelled /\ t.next <= now

\* What the callback may hand back.  Only the value False stops a self-stoppable timer; other falsy values
\* ("zero": 0, "none": None) do not.  "raise": the callback raises - the scheduler de-schedules the task
\* ("Task ... caused an exception and was de-scheduled"), so a recurring timer never fires again.
RvAll == {"none", "false", "zero", "raise"}

\* state of the timer when its slice ends; t.cancelled already reflects what the callback itself did
AfterFire(t, rv, now) ==
  IF rv = "raise" THEN [t EXCEPT !.st = "done"]
  ELSE IF (t.ss /\ rv = "false") \/ ~t.rec \/ t.cancelled THEN [t EXCEPT !.st = "done"]
  ELSE [t EXCEPT !.next = now + t.d]          \* _next = time.time() + _interval: from the ACTUAL firing time
=============================================================================
