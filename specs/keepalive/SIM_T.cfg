CONSTANTS NTm = 3
  Cfgs <- CfgsA
  Rvs <- RvsAll
  MaxNow = 14
  D = 40
INIT Init
NEXT Next
INVARIANT Export
CHECK_DEADLOCK FALSE
