CONSTANTS Conns <- C3
  Dpid <- DpidDup
  I = 2
  TO = 1
  Late = 1
  MaxNow = 16
  Strict = FALSE
  D = 45
INIT Init
NEXT Next
INVARIANT Export
CHECK_DEADLOCK FALSE
