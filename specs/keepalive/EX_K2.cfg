CONSTANTS Conns <- C2
  Dpid <- DpidId
  I = 2
  TO = 1
  Late = 1
  MaxNow = 5
  Strict = FALSE
  D = 0
INIT Init
NEXT Next
VIEW viewE
ACTION_CONSTRAINT ExportT
CHECK_DEADLOCK FALSE
