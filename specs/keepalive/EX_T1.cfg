CONSTANTS NTm = 1
  Cfgs <- CfgsA
  Rvs <- RvsAll
  MaxNow = 5
  D = 0
INIT Init
NEXT Next
VIEW viewE
ACTION_CONSTRAINT ExportT
CHECK_DEADLOCK FALSE
