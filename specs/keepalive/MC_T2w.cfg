CONSTANTS NTm = 2
  Cfgs <- CfgsA
  Rvs <- RvsAll
  MaxNow = 4
  D = 0
INIT Init
NEXT Next
VIEW view
INVARIANT TypeOK
INVARIANT OneShotOnce
INVARIANT NothingLost
INVARIANT NewIsSilent
PROPERTY FireOnlyWhenDue
PROPERTY NeverAfterCancel
PROPERTY OncePerExpiry
PROPERTY Spaced
PROPERTY RunServesDue
PROPERTY DoneIsFinal
CHECK_DEADLOCK FALSE
