CONSTANTS Conns <- C2
  Dpid <- DpidId
  I = 2
  TO = 1
  Late = 1
  MaxNow = 6
  Strict = FALSE
  D = 0
INIT Init
NEXT Next
VIEW viewE
INVARIANT TypeOK
INVARIANT RegistryOK
INVARIANT DetectionBound
INVARIANT DownOnce
PROPERTY OnlySilentDisconnected
PROPERTY SilentDisconnected
PROPERTY ResponsiveNeverDisconnected
PROPERTY EchoOnlyIfUp
PROPERTY TicksSpaced
PROPERTY OrphanNeverProbed
CHECK_DEADLOCK FALSE
