CONSTANTS Conns <- C4
  Dpid <- DpidDup
  I = 2
  TO = 1
  Late = 3
  MaxNow = 100
  Strict = FALSE
  D = 0
INIT TrInit
NEXT TrNext
CONSTRAINT Progress
POSTCONDITION Accepted
INVARIANT TypeOK
INVARIANT RegistryOK
INVARIANT DetectionBound
INVARIANT DownOnce
CHECK_DEADLOCK FALSE
