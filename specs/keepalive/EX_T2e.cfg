CONSTANTS NTm = 2
  Cfgs <- CfgsE
  Rvs <- RvsB
  MaxNow = 2
  D = 0
INIT Init
NEXT Next
VIEW viewE
ACTION_CONSTRAINT ExportT
CHECK_DEADLOCK FALSE
