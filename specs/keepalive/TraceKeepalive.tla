---- MODULE TraceKeepalive ----
(* Code -> spec: traces recorded from the real keepalive / of_01 / SoftwareSwitch assembly (random driver,   *)
(* props/X04.py) must be behaviours of Keepalive.tla; every invariant is evaluated at each matched step.     *)
EXTENDS MCKeepalive, IOUtils, TLCExt, SequencesExt

Traces == JsonDeserialize(IOEnv.TRACE_FILE)
NTr == Len(Traces)
VARIABLES tid, l
tvars == <<vars, tid, l>>

TrInit == Init /\ tid \in 1..NTr /\ l = 1 /\ TLCSet(tid, 0)
Ev == Traces[tid][l]
IsEvent(e) == l <= Len(Traces[tid]) /\ Ev.a = e /\ l' = l + 1 /\ UNCHANGED tid
\* a logged list that must be a set (no element twice)
AsSet(s) == ToSet(s)
NoDup(s) == Cardinality(ToSet(s)) = Len(s)

TrLaunch    == IsEvent("Launch") /\ Ev.wf /\ Launch /\ last'.exp.timers = Ev.obs.timers
TrAccept    == IsEvent("Accept") /\ Ev.wf /\ Accept(Ev.args.c) /\ last'.exp.wrote = Ev.obs.wrote
TrHandshake == IsEvent("Handshake") /\ Ev.wf /\ Handshake(Ev.args.c)
               /\ last'.exp.up = Ev.obs.up /\ last'.exp.idle = Ev.obs.idle
               /\ NoDup(Ev.obs.reg) /\ last'.exp.reg = AsSet(Ev.obs.reg)
TrTick      == IsEvent("Tick") /\ Ev.wf /\ Tick /\ last'.exp.now = Ev.obs.now
TrRun       == IsEvent("Run") /\ Ev.wf /\ Run
               /\ NoDup(Ev.obs.echo) /\ NoDup(Ev.obs.down) /\ NoDup(Ev.obs.shut) /\ NoDup(Ev.obs.reg)
               /\ last'.exp = [fired |-> Ev.obs.fired, echo |-> AsSet(Ev.obs.echo), down |-> AsSet(Ev.obs.down),
                               shut |-> AsSet(Ev.obs.shut), raised |-> Ev.obs.raised, reg |-> AsSet(Ev.obs.reg)]
TrAnswer    == IsEvent("Answer") /\ Ev.wf /\ Answer(Ev.args.c)
               /\ last'.exp = [replies |-> Ev.obs.replies, idle |-> Ev.obs.idle]
TrChatter   == IsEvent("Chatter") /\ Ev.wf /\ Chatter(Ev.args.c)
               /\ last'.exp = [pktin |-> Ev.obs.pktin, idle |-> Ev.obs.idle]
TrSockBreak == IsEvent("SockBreak") /\ Ev.wf /\ SockBreak(Ev.args.c)
TrPeerClose == IsEvent("PeerClose") /\ Ev.wf /\ PeerClose(Ev.args.c)
               /\ last'.exp.down = Ev.obs.down /\ NoDup(Ev.obs.reg) /\ last'.exp.reg = AsSet(Ev.obs.reg)
TrReap      == IsEvent("Reap") /\ Ev.wf /\ Reap(Ev.args.c)
               /\ last'.exp.down = Ev.obs.down /\ NoDup(Ev.obs.reg) /\ last'.exp.reg = AsSet(Ev.obs.reg)

TrNext == TrLaunch \/ TrAccept \/ TrHandshake \/ TrTick \/ TrRun \/ TrAnswer \/ TrChatter \/ TrSockBreak
          \/ TrPeerClose \/ TrReap
TrSpec == TrInit /\ [][TrNext]_tvars

Progress == TLCSet(tid, IF TLCGet(tid) < l - 1 THEN l - 1 ELSE TLCGet(tid))
Ok(t) == TLCGet(t) = Len(Traces[t]) \/ (PrintT(<<"REJECT", t, TLCGet(t)>>) /\ FALSE)
Accepted == /\ PrintT(<<"TRACES-CHECKED", NTr>>)
            /\ Cardinality({t \in 1..NTr : ~Ok(t)}) = 0
====
