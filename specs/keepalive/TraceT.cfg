CONSTANTS NTm = 3
  Cfgs <- CfgsA
  Rvs <- RvsAll
  MaxNow = 100
  D = 0
INIT TrInit
NEXT TrNext
CONSTRAINT Progress
POSTCONDITION Accepted
INVARIANT TypeOK
INVARIANT OneShotOnce
INVARIANT NothingLost
INVARIANT NewIsSilent
CHECK_DEADLOCK FALSE
