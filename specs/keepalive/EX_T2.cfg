CONSTANTS NTm = 2
  Cfgs <- CfgsB
  Rvs <- RvsB
  MaxNow = 3
  D = 0
INIT Init
NEXT Next
VIEW viewE
ACTION_CONSTRAINT ExportT
CHECK_DEADLOCK FALSE
