---- MODULE MCTimers ----
EXTENDS Timers
C(d, rec, abs, started, ss) == [d |-> d, rec |-> rec, abs |-> abs, started |-> started, ss |-> ss]
\* one-shot 1 / recurring 1 and 2 / absolute (time 0 = already past at any now > 0; time 2) / not started /
\* not self-stoppable / the refused combination
CfgsA == { C(1, FALSE, FALSE, TRUE, TRUE), C(2, TRUE, FALSE, TRUE, TRUE), C(1, TRUE, FALSE, TRUE, FALSE),
           C(2, FALSE, TRUE, TRUE, TRUE), C(0, FALSE, TRUE, TRUE, TRUE),
           C(1, TRUE, FALSE, FALSE, TRUE), C(2, FALSE, TRUE, FALSE, TRUE), C(1, TRUE, TRUE, TRUE, TRUE) }
\* reduced: for the two-timer edge cover
CfgsB == { C(1, FALSE, FALSE, TRUE, TRUE), C(1, TRUE, FALSE, TRUE, TRUE), C(2, TRUE, FALSE, TRUE, FALSE),
           C(2, FALSE, TRUE, TRUE, TRUE), C(1, TRUE, FALSE, FALSE, TRUE) }
CfgsC == { C(1, FALSE, FALSE, TRUE, TRUE), C(2, TRUE, FALSE, TRUE, TRUE), C(1, TRUE, FALSE, TRUE, TRUE),
           C(3, FALSE, TRUE, TRUE, TRUE) }
CfgsD == { C(1, FALSE, FALSE, TRUE, TRUE), C(1, TRUE, FALSE, TRUE, TRUE), C(2, TRUE, FALSE, FALSE, FALSE) }
CfgsE == { C(1, FALSE, FALSE, TRUE, TRUE), C(1, TRUE, FALSE, TRUE, TRUE), C(2, TRUE, FALSE, TRUE, FALSE) }
RvsAll == RvAll
RvsB == {"none", "false"}
RvsN == {"false"}
====
