------------------------------ MODULE Keepalive ------------------------------
(* X04 (second half): pox/openflow/keepalive.py on top of the recoco Timer.   *)
(*                                                                            *)
(*   launch(interval, timeout): once "openflow" is there, start ONE recurring *)
(*     Timer(interval, _handle_timer, args=(core.openflow,)); a second launch *)
(*     ("Keepalive already running") starts nothing                           *)
(*   _handle_timer(nexus):  t = time.time()                                   *)
(*     for dpid, con in nexus.connections.items():     (registration order)   *)
(*       if t - con.idle_time > interval + timeout: dead.append(con)          *)
(*       else: con.send(echo request)                                         *)
(*     for con in dead: con.disconnect("timed out")                           *)
(*   con.idle_time is written by the of_01 loop whenever it reads ANYTHING    *)
(*   from the connection's socket (echo reply or not), and by the constructor.*)
(*                                                                            *)
(* The world around it, one action per step of the real code / environment:   *)
(*   Accept(c)     the loop accepts a socket: Connection() sends HELLO        *)
(*   Handshake(c)  the switch (a real SoftwareSwitch) and the controller talk *)
(*                 until ConnectionUp: c is registered in the nexus           *)
(*   Tick          the virtual clock moves by one unit; the keepalive timer   *)
(*                 may be served up to Late units late, not later             *)
(*   Run           the scheduler runs at this instant: if the timer is due,   *)
(*                 _handle_timer runs once (KeepaliveTick, or the deviation   *)
(*                 TickAbortedBySendFailure, see below); otherwise nothing    *)
(*   Answer(c)     the switch reads what is on the wire, answers every echo   *)
(*                 request; the loop reads the replies                        *)
(*   Chatter(c)    a frame reaches the switch, its PACKET_IN reaches the loop *)
(*   SockBreak(c)  the TCP connection breaks: the next send() fails           *)
(*   PeerClose(c)  the peer closes; the loop reads EOF and closes c           *)
(*   Reap(c)       the loop finds the socket that disconnect() shut down      *)
(*                 readable (EOF), closes c and forgets it                    *)
(*                                                                            *)
(* Connection states: "none" -> "hs" -> "up" -> "shut" (disconnected by       *)
(* keepalive: ConnectionDown raised, socket shut down, still in the loop's    *)
(* list) or "half" (a send failed: disconnect(defer_event=True) - out of the  *)
(* registry, socket shut down, ConnectionDown still owed) -> "closed".        *)
(* "orphan": an up connection whose place in the registry (a dict keyed by    *)
(* datapath id) was taken by a newer connection of a switch with the same     *)
(* datapath id - nexus._connect() just overwrites the entry.  The old         *)
(* connection stays open and in the loop's select list, but keepalive, which  *)
(* walks the registry, never looks at it again (OrphanNeverProbed below; see  *)
(* notes/X04.md).                                                             *)
(*                                                                            *)
(* DEVIATION (defect, see notes/X04.md): con.send() on a broken socket ends   *)
(* in con.disconnect(), which removes con from nexus.connections WHILE        *)
(* _handle_timer iterates over that dict: RuntimeError("dictionary changed    *)
(* size during iteration"), the callback raises, the scheduler de-schedules   *)
(* the Timer task - keepalive is off for good, the connections later in the   *)
(* dict got no echo request and the ones found dead are not disconnected.     *)
(* Strict = TRUE turns the deviation off (the tick carries on).               *)
EXTENDS Naturals, Sequences, FiniteSets, TLC, Json, TimerLib

CONSTANTS Conns,    \* connection ids
          Dpid,     \* [Conns -> datapath id of the switch behind the connection]
          I,        \* --interval
          TO,       \* --timeout
          Late,     \* how late the scheduler may serve the timer
          MaxNow,
          Strict,   \* TRUE: documented intent only (no deviation)
          D

VARIABLES now,
          kt,       \* the keepalive Timer (TimerLib record)
          nticks,   \* completed or aborted runs of _handle_timer
          reg,      \* nexus.connections as a sequence: dict order = order of registration
          cst,      \* [Conns -> connection state]
          idle,     \* [Conns -> con.idle_time]
          pend,     \* [Conns -> echo requests on the wire, not yet read by the switch]
          lastEcho, \* [Conns -> 0: no echo request sent yet | 1 + time the last one was sent]
          sockbad,  \* [Conns -> send() will fail]
          ndown,    \* [Conns -> ConnectionDown events raised]
          last, hist
svars == <<now, kt, nticks, reg, cst, idle, pend, lastEcho, sockbad, ndown>>
vars == <<svars, last, hist>>
view == <<svars, last.a, last.exp>>
viewE == svars

Range(s) == {s[k] : k \in DOMAIN s}
Without(s, S) == SelectSeq(s, LAMBDA x : x \notin S)
Registered == Range(reg)

Init == /\ now = 0 /\ kt = NoTimer /\ nticks = 0 /\ reg = <<>>
        /\ cst = [c \in Conns |-> "none"] /\ idle = [c \in Conns |-> 0] /\ pend = [c \in Conns |-> 0]
        /\ lastEcho = [c \in Conns |-> 0]
        /\ sockbad = [c \in Conns |-> FALSE] /\ ndown = [c \in Conns |-> 0]
        /\ last = [a |-> "Init", args |-> [x |-> 0], exp |-> [x |-> 0]] /\ hist = <<>>

Log(a, args, exp) ==
  LET e == [a |-> a, args |-> args, exp |-> exp] IN
  /\ last' = e /\ hist' = Append(hist, e)

----------------------------------------------------------------------------
Launch ==
  /\ IF kt.st = "none"
     THEN kt' = Started([NoTimer EXCEPT !.st = "new", !.d = I, !.rec = TRUE, !.ss = TRUE], now)
     ELSE UNCHANGED kt                                   \* "Keepalive already running"
  /\ UNCHANGED <<now, nticks, reg, cst, idle, pend, lastEcho, sockbad, ndown>>
  /\ Log("Launch", [x |-> 0], [timers |-> IF kt.st = "none" THEN 1 ELSE 0])

Accept(c) ==
  /\ cst[c] = "none"
  /\ cst' = [cst EXCEPT ![c] = "hs"] /\ idle' = [idle EXCEPT ![c] = now]
  /\ UNCHANGED <<now, kt, nticks, reg, pend, lastEcho, sockbad, ndown>>
  /\ Log("Accept", [c |-> c], [wrote |-> <<"HELLO">>])

\* nexus._connect(con): _connections[con.dpid] = con - a new key goes to the end of the dict, an existing key
\* keeps its place and silently loses its old connection
Handshake(c) ==
  /\ cst[c] = "hs"
  /\ LET old == {x \in Registered : Dpid[x] = Dpid[c]} IN
     /\ cst' = [x \in Conns |-> IF x = c THEN "up" ELSE IF x \in old THEN "orphan" ELSE cst[x]]
     /\ idle' = [x \in Conns |-> IF x = c THEN now ELSE IF x \in old THEN 0 ELSE idle[x]]
     /\ pend' = [x \in Conns |-> IF x \in old THEN 0 ELSE pend[x]]        \* (bookkeeping of an orphan: reset)
     /\ lastEcho' = [x \in Conns |-> IF x \in old THEN 0 ELSE lastEcho[x]]
     /\ sockbad' = [x \in Conns |-> IF x \in old THEN FALSE ELSE sockbad[x]]
     /\ reg' = IF old = {} THEN Append(reg, c) ELSE [k \in DOMAIN reg |-> IF reg[k] \in old THEN c ELSE reg[k]]
     /\ UNCHANGED <<now, kt, nticks, ndown>>
     /\ Log("Handshake", [c |-> c], [up |-> 1, idle |-> now, reg |-> (Registered \ old) \cup {c}])

TimerWaits == kt.st = "armed" /\ ~kt.cancelled
Tick ==
  /\ now < MaxNow
  /\ ~(TimerWaits /\ now >= kt.next + Late)
  /\ now' = now + 1
  /\ UNCHANGED <<kt, nticks, reg, cst, idle, pend, lastEcho, sockbad, ndown>>
  /\ Log("Tick", [x |-> 0], [now |-> now + 1])

Answer(c) ==
  /\ cst[c] = "up" /\ pend[c] > 0
  /\ idle' = [idle EXCEPT ![c] = now] /\ pend' = [pend EXCEPT ![c] = 0]
  /\ UNCHANGED <<now, kt, nticks, reg, cst, lastEcho, sockbad, ndown>>
  /\ Log("Answer", [c |-> c], [replies |-> pend[c], idle |-> now])

Chatter(c) ==
  /\ cst[c] = "up"
  /\ idle' = [idle EXCEPT ![c] = now]
  /\ UNCHANGED <<now, kt, nticks, reg, cst, pend, lastEcho, sockbad, ndown>>
  /\ Log("Chatter", [c |-> c], [pktin |-> 1, idle |-> now])

SockBreak(c) ==
  /\ cst[c] = "up" /\ ~sockbad[c]
  /\ sockbad' = [sockbad EXCEPT ![c] = TRUE]
  /\ UNCHANGED <<now, kt, nticks, reg, cst, idle, pend, lastEcho, ndown>>
  /\ Log("SockBreak", [c |-> c], [x |-> 0])

PeerClose(c) ==
  /\ cst[c] \in {"hs", "up", "orphan"}
  /\ cst' = [cst EXCEPT ![c] = "closed"]
  /\ reg' = Without(reg, {c})                                    \* (an orphan is not in it: nothing is removed)
  /\ ndown' = [ndown EXCEPT ![c] = IF cst[c] \in {"up", "orphan"} THEN @ + 1 ELSE @]
  /\ idle' = [idle EXCEPT ![c] = 0] /\ pend' = [pend EXCEPT ![c] = 0] /\ lastEcho' = [lastEcho EXCEPT ![c] = 0]
  /\ sockbad' = [sockbad EXCEPT ![c] = FALSE]                     \* (bookkeeping of a closed connection: reset)
  /\ UNCHANGED <<now, kt, nticks>>
  /\ Log("PeerClose", [c |-> c], [down |-> IF cst[c] \in {"up", "orphan"} THEN 1 ELSE 0, reg |-> Registered \ {c}])

Reap(c) ==
  /\ cst[c] \in {"shut", "half"}
  /\ cst' = [cst EXCEPT ![c] = "closed"]
  /\ ndown' = [ndown EXCEPT ![c] = IF cst[c] = "half" THEN @ + 1 ELSE @]      \* the ConnectionDown that was owed
  /\ UNCHANGED <<now, kt, nticks, reg, idle, pend, lastEcho, sockbad>>
  /\ Log("Reap", [c |-> c], [down |-> IF cst[c] = "half" THEN 1 ELSE 0, reg |-> Registered])

----------------------------------------------------------------------------
(* _handle_timer.  Silent(c): nothing was read from c for more than interval + timeout.                      *)
Silent(c) == now - idle[c] > I + TO

\* the first loop, over the registry in dict order; aborting: a failed send ends the iteration
Acc0 == [dead |-> <<>>, echo |-> {}, half |-> {}, abort |-> FALSE]
RECURSIVE Walk(_, _, _)
Walk(k, acc, aborting) ==
  IF k > Len(reg) \/ acc.abort THEN acc
  ELSE LET c == reg[k] IN
       IF Silent(c) THEN Walk(k + 1, [acc EXCEPT !.dead = Append(@, c)], aborting)
       ELSE IF sockbad[c] THEN Walk(k + 1, [acc EXCEPT !.half = @ \cup {c}, !.abort = aborting], aborting)
       ELSE Walk(k + 1, [acc EXCEPT !.echo = @ \cup {c}], aborting)

\* S got an echo request; G are gone (their bookkeeping no longer matters and is reset)
Echoed(S, G) ==
  /\ pend' = [c \in Conns |-> IF c \in G THEN 0 ELSE IF c \in S THEN pend[c] + 1 ELSE pend[c]]
  /\ lastEcho' = [c \in Conns |-> IF c \in G THEN 0 ELSE IF c \in S THEN now + 1 ELSE lastEcho[c]]
  /\ idle' = [c \in Conns |-> IF c \in G THEN 0 ELSE idle[c]]
  /\ sockbad' = [c \in Conns |-> IF c \in G THEN FALSE ELSE sockbad[c]]

RunExp(fired, echo, down, shut, raised) ==
  [fired |-> fired, echo |-> echo, down |-> down, shut |-> shut, raised |-> raised, reg |-> Range(reg')]

RunIdle ==
  /\ ~IsDue(kt, now)
  /\ UNCHANGED svars
  /\ Log("Run", [x |-> 0], RunExp(0, {}, {}, {}, "-"))

\* the documented tick: every registered connection is either pinged or, if silent, disconnected - only those
KeepaliveTick ==
  /\ IsDue(kt, now)
  /\ LET w == Walk(1, Acc0, FALSE) IN
     /\ (Strict \/ w.half = {})                 \* (a failed send: see the deviation unless Strict)
     /\ kt' = AfterFire(kt, "none", now) /\ nticks' = nticks + 1
     /\ Echoed(w.echo, w.half \cup Range(w.dead))
     /\ cst' = [c \in Conns |-> IF c \in w.half THEN "half" ELSE IF c \in Range(w.dead) THEN "shut" ELSE cst[c]]
     /\ reg' = Without(reg, w.half \cup Range(w.dead))
     /\ ndown' = [c \in Conns |-> IF c \in Range(w.dead) THEN ndown[c] + 1 ELSE ndown[c]]
     /\ UNCHANGED now
     /\ Log("Run", [x |-> 0], RunExp(1, w.echo, Range(w.dead), Range(w.dead) \cup w.half, "-"))

\* DEVIATION: what the code does when a send fails inside the iteration
TickAbortedBySendFailure ==
  /\ ~Strict
  /\ IsDue(kt, now)
  /\ LET w == Walk(1, Acc0, TRUE) IN
     /\ w.abort
     /\ kt' = AfterFire(kt, "raise", now) /\ nticks' = nticks + 1      \* the Timer task is de-scheduled
     /\ Echoed(w.echo, w.half)                                        \* only those before the failure
     /\ cst' = [c \in Conns |-> IF c \in w.half THEN "half" ELSE cst[c]]
     /\ reg' = Without(reg, w.half)                                   \* the dead ones stay registered
     /\ UNCHANGED <<now, ndown>>
     /\ Log("Run", [x |-> 0], RunExp(1, w.echo, {}, w.half, "RuntimeError"))

Run == RunIdle \/ KeepaliveTick \/ TickAbortedBySendFailure

AcceptAny == \E c \in Conns : Accept(c)
HandshakeAny == \E c \in Conns : Handshake(c)
AnswerAny == \E c \in Conns : Answer(c)
ChatterAny == \E c \in Conns : Chatter(c)
SockBreakAny == \E c \in Conns : SockBreak(c)
PeerCloseAny == \E c \in Conns : PeerClose(c)
ReapAny == \E c \in Conns : Reap(c)

Next == Launch \/ AcceptAny \/ HandshakeAny \/ Tick \/ AnswerAny \/ ChatterAny \/ SockBreakAny \/ PeerCloseAny
        \/ ReapAny \/ Run
Spec == Init /\ [][Next]_vars

----------------------------------------------------------------------------
(* A later starting point for the export with more connections: keepalive launched and every connection    *)
(* accepted and up at time 0, registered in any order p - i.e. the state after the prefix kept in hist      *)
(* (Launch, Accept(p[1..n]), Handshake(p[1..n])); from there only the steps that matter to a tick.          *)
NC == Cardinality(Conns)
Perms == {p \in [1..NC -> Conns] : \A i, j \in 1..NC : i # j => p[i] # p[j]}
SetupHist(p) ==
  <<[a |-> "Launch", args |-> [x |-> 0], exp |-> [timers |-> 1]]>>
  \o [i \in 1..NC |-> [a |-> "Accept", args |-> [c |-> p[i]], exp |-> [wrote |-> <<"HELLO">>]]]
  \o [i \in 1..NC |-> [a |-> "Handshake", args |-> [c |-> p[i]],
                       exp |-> [up |-> 1, idle |-> 0, reg |-> {p[j] : j \in 1..i}]]]
InitUp ==
  \E p \in Perms :
    /\ \A a, b \in Conns : a # b => Dpid[a] # Dpid[b]           \* (all up at once: distinct switches)
    /\ now = 0 /\ nticks = 0 /\ reg = p
    /\ kt = Started([NoTimer EXCEPT !.st = "new", !.d = I, !.rec = TRUE, !.ss = TRUE], 0)
    /\ cst = [c \in Conns |-> "up"] /\ idle = [c \in Conns |-> 0] /\ pend = [c \in Conns |-> 0]
    /\ lastEcho = [c \in Conns |-> 0] /\ sockbad = [c \in Conns |-> FALSE] /\ ndown = [c \in Conns |-> 0]
    /\ hist = SetupHist(p) /\ last = hist[Len(hist)]
NextUp == Tick \/ AnswerAny \/ SockBreakAny \/ ReapAny \/ Run

----------------------------------------------------------------------------
(* The properties, over the real variables.                                  *)
States == {"none", "hs", "up", "orphan", "shut", "half", "closed"}
TypeOK ==
  /\ now \in 0..MaxNow /\ cst \in [Conns -> States] /\ nticks \in Nat
  /\ \A c \in Conns : idle[c] \in 0..MaxNow /\ pend[c] \in Nat /\ ndown[c] \in 0..1
  /\ kt.st \in {"none", "armed", "done"}

\* the registry holds exactly the connections that are up, each once
RegistryOK == /\ Registered = {c \in Conns : cst[c] = "up"}
              /\ Cardinality(Registered) = Len(reg)

TimedOut(c) == cst[c] = "up" /\ cst'[c] = "shut"
GotEcho(c) == lastEcho'[c] # 0 /\ lastEcho'[c] # lastEcho[c]

\* only a silent connection is disconnected by keepalive ("and only that one")
OnlySilentDisconnected == [][\A c \in Conns : TimedOut(c) => Silent(c)]_vars
\* a tick leaves no silent connection registered
SilentDisconnected == [][(nticks' # nticks /\ kt'.st = "armed") => \A c \in Conns : (cst'[c] = "up" => ~Silent(c))]_vars
\* a connection that answers echo requests is never disconnected: once keepalive has been running for a
\* tick, a connection is timed out only while an echo request to it is unanswered (needs Late <= TO)
ResponsiveNeverDisconnected == [][\A c \in Conns : (TimedOut(c) /\ nticks >= 1) => pend[c] > 0]_vars
\* a silent connection does not outlive  2*interval + timeout (+ lateness) while keepalive runs: it survives
\* at most one tick after it was last heard of, plus one interval to the next tick
DetectionBound ==
  (kt.st = "armed" /\ nticks >= 1) => \A c \in Registered : /\ kt.next - idle[c] <= 2 * I + TO
                                                            /\ now - idle[c] <= 2 * I + TO + Late
\* no echo request on a connection that is not up, or that goes down in the same tick; one per tick;
\* echo requests to one connection are at least an interval apart
EchoOnlyIfUp == [][\A c \in Conns : GotEcho(c) => /\ cst[c] = "up" /\ cst'[c] = "up"
                                                  /\ pend'[c] = pend[c] + 1 /\ lastEcho'[c] = now + 1
                                                  /\ ~Silent(c)
                                                  /\ (lastEcho[c] > 0 => now - (lastEcho[c] - 1) >= I)]_vars
\* ConnectionDown exactly once for a connection that was up and is gone (owed while "half")
DownOnce == \A c \in Conns : /\ (cst[c] = "shut" => ndown[c] = 1)
                             /\ (cst[c] \in {"none", "hs", "up", "orphan", "half"} => ndown[c] = 0)
                             /\ ndown[c] <= 1
\* what keepalive does NOT cover: a connection that lost its registry entry to a newer one is never probed and
\* never timed out, however silent - only its peer closing ends it
OrphanNeverProbed == [][\A c \in Conns : cst[c] = "orphan" => (cst'[c] \in {"orphan", "closed"} /\ ~GotEcho(c))]_vars
\* the timer rule: ticks are an interval apart (never early)
TicksSpaced == [][nticks' # nticks => (IsDue(kt, now) /\ (kt'.st = "armed" => kt'.next = now + I))]_vars
\* holds only with Strict = TRUE: keepalive keeps running
KeepaliveStaysOn == [][kt.st = "armed" => kt'.st = "armed"]_vars

\* ---- export for the replay harness
Bound   == Len(hist) <= D
Export  == (Len(hist) = D) => PrintT(<<"H", ToJson(hist)>>)
ExportT == PrintT(<<"T", ToJson(hist')>>)
=============================================================================
