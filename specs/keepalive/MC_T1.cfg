CONSTANTS NTm = 1
  Cfgs <- CfgsA
  Rvs <- RvsAll
  MaxNow = 6
  D = 0
INIT Init
NEXT Next
VIEW view
INVARIANT TypeOK
INVARIANT OneShotOnce
INVARIANT NothingLost
INVARIANT NewIsSilent
PROPERTY FireOnlyWhenDue
PROPERTY NeverAfterCancel
PROPERTY OncePerExpiry
PROPERTY Spaced
PROPERTY RunServesDue
PROPERTY DoneIsFinal
CHECK_DEADLOCK FALSE
