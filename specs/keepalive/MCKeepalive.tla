---- MODULE MCKeepalive ----
EXTENDS Keepalive
C1 == {1}
C2 == {1, 2}
C3 == {1, 2, 3}
C4 == {1, 2, 3, 4}
====
