---- MODULE MCKeepalive ----
EXTENDS Keepalive
C1 == {1}
C2 == {1, 2}
C3 == {1, 2, 3}
C13 == {1, 3}
C4 == {1, 2, 3, 4}
\* datapath ids: all different / connection 3 comes from the switch behind connection 1 (a reconnect)
DpidId == [c \in 1..4 |-> c]
DpidDup == [c \in 1..4 |-> IF c = 3 THEN 1 ELSE c]
====
