CONSTANTS Conns <- C3
  Dpid <- DpidDup
  I = 1
  TO = 2
  Late = 2
  MaxNow = 16
  Strict = FALSE
  D = 45
INIT Init
NEXT Next
INVARIANT Export
CHECK_DEADLOCK FALSE
