CONSTANTS Conns <- C3
  Dpid <- DpidId
  I = 1
  TO = 1
  Late = 0
  MaxNow = 3
  Strict = FALSE
  D = 0
INIT InitUp
NEXT NextUp
VIEW viewE
ACTION_CONSTRAINT ExportT
CHECK_DEADLOCK FALSE
