---- MODULE TraceTimers ----
(* Code -> spec: traces recorded from real recoco Timers (random driver, props/X04.py) must be behaviours of   *)
(* Timers.tla; every invariant is evaluated at each matched step.                                            *)
EXTENDS MCTimers, IOUtils, TLCExt, SequencesExt

Traces == JsonDeserialize(IOEnv.TRACE_FILE)
NTr == Len(Traces)
VARIABLES tid, l
tvars == <<vars, tid, l>>

TrInit == Init /\ tid \in 1..NTr /\ l = 1 /\ TLCSet(tid, 0)
Ev == Traces[tid][l]
IsEvent(e) == l <= Len(Traces[tid]) /\ Ev.a = e /\ l' = l + 1 /\ UNCHANGED tid

TrNew    == IsEvent("New") /\ Ev.wf /\ New(Ev.args.i, Ev.args.c) /\ last'.exp.err = Ev.obs.err
TrStart  == IsEvent("Start") /\ Ev.wf /\ Start(Ev.args.i) /\ last'.exp.err = Ev.obs.err
TrCancel == IsEvent("Cancel") /\ Ev.wf /\ Cancel(Ev.args.i)
TrTick   == IsEvent("Tick") /\ Ev.wf /\ Tick /\ last'.exp.now = Ev.obs.now
TrRun    == IsEvent("Run") /\ Ev.wf /\ Run(Ev.args.rv, Ev.args.e)
            /\ last'.exp = [fired |-> Ev.obs.fired, at |-> Ev.obs.at, n |-> Ev.obs.n]

TrNext == TrNew \/ TrStart \/ TrCancel \/ TrTick \/ TrRun
TrSpec == TrInit /\ [][TrNext]_tvars

Progress == TLCSet(tid, IF TLCGet(tid) < l - 1 THEN l - 1 ELSE TLCGet(tid))
Ok(t) == TLCGet(t) = Len(Traces[t]) \/ (PrintT(<<"REJECT", t, TLCGet(t)>>) /\ FALSE)
Accepted == /\ PrintT(<<"TRACES-CHECKED", NTr>>)
            /\ Cardinality({t \in 1..NTr : ~Ok(t)}) = 0
====
