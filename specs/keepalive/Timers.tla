------------------------------- MODULE Timers -------------------------------
(* X04 (first half): pox.lib.recoco.recoco.Timer under the harness's virtual  *)
(* clock - several timers side by side, one-shot / recurring, relative /      *)
(* absolute time, started=False + start(), cancel() (from outside and from a  *)
(* callback, of itself or of another timer), selfStoppable and the value the  *)
(* callback returns.                                                          *)
(*                                                                            *)
(* Granularity.  specs/recoco/Sched.tla (C06) already models ONE timer at the *)
(* level of Scheduler.cycle() / SelectHub._select().  Here the scheduler is   *)
(* the substrate: one action per operation of the Timer API and per callback. *)
(*   New(i, c)   Timer(...) is constructed (and started unless started=False) *)
(*   Start(i)    .start() of a timer made with started=False                  *)
(*   Cancel(i)   .cancel()                                                    *)
(*   Tick        the virtual clock moves on by one unit.  NOT urgent: time    *)
(*               may pass while a timer is due (a busy scheduler), the timer  *)
(*               then fires late and is re-armed from the actual firing time  *)
(*   Run(rv, e)  the scheduler runs at the current instant until ONE callback *)
(*               has been called (or nothing is left to do).  Which of the    *)
(*               due timers is served first is not fixed (DESIGN 2.8, C06).   *)
(*               The callback returns rv and, as its effect e, cancels timer  *)
(*               e (0: nothing; e may be the firing timer itself).            *)
EXTENDS Naturals, Sequences, FiniteSets, TLC, Json, TimerLib

CONSTANTS NTm,      \* number of timer slots
          Cfgs,     \* configurations [d, rec, abs, started, ss] New may use
          Rvs,      \* callback return values (subset of RvAll)
          MaxNow,   \* bound of the clock
          D         \* export depth

Tm == 1..NTm

VARIABLES now,     \* virtual clock
          tm,      \* [Tm -> timer record]
          nf,      \* [Tm -> number of times the callback was called]
          lastf,   \* [Tm -> time of the last call (0 if none)]
          last, hist
svars == <<now, tm, nf, lastf>>
vars == <<svars, last, hist>>
view == <<svars, last.a, last.exp>>
viewE == svars

Init == /\ now = 0 /\ tm = [i \in Tm |-> NoTimer]
        /\ nf = [i \in Tm |-> 0] /\ lastf = [i \in Tm |-> 0]
        /\ last = [a |-> "Init", args |-> [x |-> 0], alts |-> {}, exp |-> [x |-> 0]] /\ hist = <<>>

LogA(a, args, exp, alts) ==
  LET e == [a |-> a, args |-> args, alts |-> alts, exp |-> exp] IN
  /\ last' = e /\ hist' = Append(hist, e)
Log(a, args, exp) == LogA(a, args, exp, {})

----------------------------------------------------------------------------
\* Timer(d, cb, absoluteTime=abs, recurring=rec, started=started, selfStoppable=ss)
New(i, c) ==
  /\ tm[i].st = "none"
  /\ IF c.abs /\ c.rec
     THEN /\ UNCHANGED svars           \* "Can't have a recurring timer for an absolute time!"
          /\ Log("New", [i |-> i, c |-> c], [err |-> "RuntimeError"])
     ELSE LET t0 == [st |-> "new", next |-> c.d, cancelled |-> FALSE, d |-> c.d, rec |-> c.rec,
                     ss |-> c.ss, abs |-> c.abs] IN
          /\ tm' = [tm EXCEPT ![i] = IF c.started THEN Started(t0, now) ELSE t0]
          /\ UNCHANGED <<now, nf, lastf>>
          /\ Log("New", [i |-> i, c |-> c], [err |-> "-"])

\* .start(): only once
Start(i) ==
  /\ tm[i].st # "none"
  /\ IF tm[i].st = "new"
     THEN /\ tm' = [tm EXCEPT ![i] = Started(tm[i], now)]
          /\ UNCHANGED <<now, nf, lastf>>
          /\ Log("Start", [i |-> i], [err |-> "-"])
     ELSE /\ UNCHANGED svars           \* assert not self._started
          /\ Log("Start", [i |-> i], [err |-> "AssertionError"])

Cancel(i) ==
  /\ tm[i].st # "none"
  /\ tm' = [tm EXCEPT ![i].cancelled = TRUE]
  /\ UNCHANGED <<now, nf, lastf>>
  /\ Log("Cancel", [i |-> i], [x |-> 0])

Tick ==
  /\ now < MaxNow
  /\ now' = now + 1 /\ UNCHANGED <<tm, nf, lastf>>
  /\ Log("Tick", [x |-> 0], [now |-> now + 1])

Due == {i \in Tm : IsDue(tm[i], now)}

\* timers after timer i's callback (effect: cancel e, return rv)
FireTm(i, rv, e) ==
  LET c1 == IF e \in Tm /\ tm[e].st # "none" THEN [tm EXCEPT ![e].cancelled = TRUE] ELSE tm IN
  [c1 EXCEPT ![i] = AfterFire(c1[i], rv, now)]
FireExp(i) == [fired |-> i, at |-> now, n |-> nf[i] + 1]

Run(rv, e) ==
  /\ UNCHANGED now
  /\ IF Due = {}
     THEN /\ UNCHANGED <<tm, nf, lastf>>
          /\ Log("Run", [rv |-> rv, e |-> e], [fired |-> 0, at |-> now, n |-> 0])
     ELSE \E i \in Due :
            /\ tm' = FireTm(i, rv, e)
            /\ nf' = [nf EXCEPT ![i] = @ + 1]
            /\ lastf' = [lastf EXCEPT ![i] = now]
            /\ LogA("Run", [rv |-> rv, e |-> e], FireExp(i), {FireExp(j) : j \in Due})

NewAny == \E i \in Tm, c \in Cfgs : New(i, c)
StartAny == \E i \in Tm : Start(i)
CancelAny == \E i \in Tm : Cancel(i)
RunAny == \E rv \in Rvs, e \in 0..NTm : Run(rv, e)

Next == NewAny \/ StartAny \/ CancelAny \/ Tick \/ RunAny
Spec == Init /\ [][Next]_vars

----------------------------------------------------------------------------
(* The properties, over the real variables.                                  *)
TypeOK ==
  /\ now \in 0..MaxNow
  /\ \A i \in Tm : /\ tm[i].st \in {"none", "new", "armed", "done"}
                   /\ nf[i] \in Nat /\ lastf[i] \in 0..MaxNow

Fired(i) == nf'[i] # nf[i]

\* the callback is called once per wake-up, for a timer that is started, not cancelled, and due
FireOnlyWhenDue == [][\A i \in Tm : Fired(i) => /\ nf'[i] = nf[i] + 1
                                                /\ IsDue(tm[i], now)
                                                /\ lastf'[i] = now]_vars
\* never after cancel(): once cancelled, never called again (cancel is permanent)
NeverAfterCancel == [][\A i \in Tm : tm[i].cancelled => (~Fired(i) /\ tm'[i].cancelled)]_vars
\* never twice for one expiry: the call consumes the expiry - afterwards the timer is finished or its next
\* expiry lies a full interval after this call
OncePerExpiry == [][\A i \in Tm : Fired(i) => \/ tm'[i].st = "done"
                                              \/ (tm'[i].st = "armed" /\ tm'[i].next = now + tm[i].d
                                                  /\ tm[i].rec /\ tm[i].d >= 1)]_vars
\* a recurring timer fires once per interval: consecutive calls are at least the interval apart
Spaced == [][\A i \in Tm : (Fired(i) /\ nf[i] >= 1) => now - lastf[i] >= tm[i].d]_vars
\* a one-shot timer fires at most once, and is finished by that call
OneShotOnce == \A i \in Tm : (tm[i].st # "none" /\ ~tm[i].rec) => (nf[i] <= 1 /\ (nf[i] = 1 => tm[i].st = "done"))
\* nothing is lost: when the scheduler has run and reports nothing to do, no timer is due
\* (so a one-shot that is due fires in the first Run after its time, exactly once by OneShotOnce)
NothingLost == (last.a = "Run" /\ last.exp.fired = 0) => Due = {}
RunServesDue == [][(last'.a = "Run" /\ Due # {}) => \E i \in Due : Fired(i)]_vars
\* a finished timer stays finished and silent
DoneIsFinal == [][\A i \in Tm : tm[i].st = "done" => (tm'[i].st = "done" /\ ~Fired(i))]_vars
\* not started -> not fired
NewIsSilent == \A i \in Tm : tm[i].st \in {"none", "new"} => nf[i] = 0

\* ---- export for the replay harness
Bound   == Len(hist) <= D
Export  == (Len(hist) = D) => PrintT(<<"H", ToJson(hist)>>)
ExportT == PrintT(<<"T", ToJson(hist')>>)
=============================================================================
