CONSTANTS Conns <- C13
  Dpid <- DpidDup
  I = 1
  TO = 1
  Late = 0
  MaxNow = 3
  Strict = FALSE
  D = 0
INIT Init
NEXT Next
VIEW viewE
ACTION_CONSTRAINT ExportT
CHECK_DEADLOCK FALSE
