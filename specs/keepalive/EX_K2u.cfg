CONSTANTS Conns <- C2
  Dpid <- DpidId
  I = 1
  TO = 1
  Late = 1
  MaxNow = 4
  Strict = FALSE
  D = 0
INIT InitUp
NEXT NextUp
VIEW viewE
ACTION_CONSTRAINT ExportT
CHECK_DEADLOCK FALSE
