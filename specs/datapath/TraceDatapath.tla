--------------------------- MODULE TraceDatapath ---------------------------
(* Code -> spec: operation histories recorded on the real switch (seeded    *)
(* random driver: frames in, action lists of length <= 6 over the whole     *)
(* alphabet, port-mods, set-config, buffer releases) must be behaviours of  *)
(* Datapath.tla.  The recorded observation of every step - the BYTES of     *)
(* every frame emitted per port, in order, every packet-in, all counters,   *)
(* the configuration read back - must be what the spec yields; the bytes    *)
(* are compared with Frames!Enc of the expected frame record by TLC itself. *)
EXTENDS MCDatapath, TLCExt, SequencesExt

Traces == JsonDeserialize(IOEnv.TRACE_FILE)
NT == Len(Traces)
VARIABLES tid, l
tvars == <<vars, tid, l>>

TrInit == Init /\ tid \in 1..NT /\ l = 1 /\ TLCSet(tid, 0)
Ev == Traces[tid][l]
IsEvent(e) == l <= Len(Traces[tid]) /\ Ev.a = e /\ Ev.wf /\ l' = l + 1 /\ UNCHANGED tid

\* frames of one output action may appear on its ports in any order; the
\* groups themselves are in action order
RECURSIVE Before(_, _)
Before(em, i) == IF i = 1 THEN 0 ELSE Before(em, i - 1) + Cardinality(em[i - 1].ports)
EmOK(em, flat) ==
  /\ Len(flat) = Before(em, Len(em) + 1)
  /\ \A i \in DOMAIN em :
       LET bs == EncAlts(em[i].f)         \* the byte string(s) the property accepts for this frame
           lo == Before(em, i)
           n  == Cardinality(em[i].ports) IN
       /\ {flat[lo + j].port : j \in 1..n} = em[i].ports
       /\ \A j \in 1..n : flat[lo + j].b \in bs
PinMatch(e, o) == /\ o.inport = e.inport /\ o.reason = e.reason /\ o.total = e.total
                  /\ \E b \in EncAlts(e.f) : o.data = SubSeq(b, 1, e.dlen)
PinsAre(pins, obs) == Len(pins) = Len(obs) /\ \A j \in DOMAIN pins : PinMatch(pins[j], obs[j])
PinsOK(pins, obs) == IF PinsAre(pins, obs) THEN TRUE
                     ELSE PinsAre(SelectSeq(pins, LAMBDA e : ~e.opt), obs)
StatsOK(st, obs) == Len(obs) = NP /\ \A q \in Ports : obs[q] = st[q]
ObsOK(exp, obs) == EmOK(exp.em, obs.em) /\ PinsOK(exp.pins, obs.pins) /\ StatsOK(exp.stats, obs.stats)
ConfigOK(exp, obs) == Len(obs.config) = NP /\ \A q \in Ports : ToSet(obs.config[q]) = exp.config[q]
Op(g) == [mask |-> ToSet(g.mask), conf |-> ToSet(g.conf)]

TrRx == /\ IsEvent("Rx")
        /\ \E c \in BOOLEAN : Rx(Ev.args.p, Ev.args.f, c)
        /\ ObsOK(last'.exp, Ev.obs)
TrPacketOut == /\ IsEvent("PacketOut")
               /\ \E k \in BOOLEAN : PacketOut(Ev.args.ip, Ev.args.f, Ev.args.acts, k)
               /\ ObsOK(last'.exp, Ev.obs)
TrPacketOutBuf == /\ IsEvent("PacketOutBuf")
                  /\ \E kp \in BOOLEAN : PacketOutBuf(Ev.args.k, Ev.args.acts, kp)
                  /\ ObsOK(last'.exp, Ev.obs)
TrFlowMod == IsEvent("FlowMod") /\ FlowMod(Ev.args.acts) /\ Ev.obs.quiet
TrFlowDel == IsEvent("FlowDel") /\ FlowDel /\ Ev.obs.quiet
TrPortMod == /\ IsEvent("PortMod") /\ PortMod(Ev.args.p, Op(Ev.args))
             /\ ConfigOK(last'.exp, Ev.obs)
TrPortModBad == /\ IsEvent("PortModBad") /\ PortModBad(Ev.args.kind, Ev.args.p, Op(Ev.args))
                /\ ConfigOK(last'.exp, Ev.obs)
TrSetFrag == IsEvent("SetFrag") /\ SetFrag(Ev.args.drop) /\ Ev.obs.quiet

TrNext == \/ TrRx \/ TrPacketOut \/ TrPacketOutBuf \/ TrFlowMod \/ TrFlowDel
          \/ TrPortMod \/ TrPortModBad \/ TrSetFrag
TrSpec == TrInit /\ [][TrNext]_tvars

Progress == TLCSet(tid, IF TLCGet(tid) < l - 1 THEN l - 1 ELSE TLCGet(tid))
Ok(t) == TLCGet(t) = Len(Traces[t]) \/ (PrintT(<<"REJECT", t, TLCGet(t)>>) /\ FALSE)
Accepted == /\ PrintT(<<"TRACES-CHECKED", NT>>)
            /\ Cardinality({t \in 1..NT : ~Ok(t)}) = 0
=============================================================================
