CONSTANTS
  NP = 3
  Shape <- MCShape
  RxShapes <- F_Shapes
  RxPorts = {1}
  OutShapes = {}
  InPorts = {}
  FlowLists <- F_FlowLists
  OutLists = {}
  BufLists = {}
  ModPorts = {1}
  ModOps <- F_ModOps
  BadMods = {}
  FragModes <- Both
  DropCount = {FALSE}
  MissLen = 128
  MaxHeld = 0
  D = 0
INIT Init
NEXT Next
VIEW viewE
ACTION_CONSTRAINT ExportT
CHECK_DEADLOCK FALSE
