------------------------------ MODULE EncTable ------------------------------
(* The byte oracle, evaluated by TLC.                                        *)
(* The check collects every frame record that occurs in the behaviours TLC   *)
(* exported from Datapath.tla (frames received, emitted, sent to the         *)
(* controller) and hands them to this module as JSON.  TLC walks the list,   *)
(* checks the oracle's own properties on each record (canonical record,      *)
(* length = FrameLen, IPv4 / TCP / UDP / ICMP checksums verify, length       *)
(* fields agree) and prints Frames!Enc of it: those are the bytes the real   *)
(* switch must put on the port.                                              *)
EXTENDS Frames, TLC, Json, IOUtils

Recs == JsonDeserialize(IOEnv.C12_RECS)
VARIABLE i
Init == i = 0
Next == i < Len(Recs) /\ i' = i + 1
Canonical == i > 0 => FrameOK(Recs[i])
OracleOK  == i > 0 => EncOK(Recs[i])
\* alt: the other byte string the property accepts for this record (Frames!EncAlts), <<>> if there is none
Emit      == i > 0 => PrintT(<<"E", ToJson([i |-> i, b |-> Enc(Recs[i]),
                                            alt |-> IF HasAlt(Recs[i]) THEN Enc(AltOf(Recs[i])) ELSE <<>>])>>)
AltsOK    == i > 0 => /\ Enc(Recs[i]) \in EncAlts(Recs[i])
                      /\ (HasAlt(Recs[i]) => FrameOK(AltOf(Recs[i])) /\ EncOK(AltOf(Recs[i]))
                                              /\ Len(Enc(AltOf(Recs[i]))) = Len(Enc(Recs[i])))
=============================================================================
