CONSTANTS
  NP = 3
  Shape <- MCShape
  RxShapes <- AT_RxShapes
  RxPorts = {1, 2}
  OutShapes = {}
  InPorts = {}
  FlowLists <- AT_FlowLists
  OutLists = {}
  BufLists = {}
  ModPorts = {}
  ModOps <- NoOps
  BadMods = {}
  FragModes = {}
  DropCount <- Both
  MissLen = 128
  MaxHeld = 0
  D = 0
INIT Init
NEXT Next
VIEW viewE
ACTION_CONSTRAINT ExportT
INVARIANT TypeOK
PROPERTY NoEmitBlocked
PROPERTY IngressExcluded
PROPERTY NoRecvRespected
PROPERTY FloodRule
PROPERTY AllRule
PROPERTY InOrder
PROPERTY MissRule
PROPERTY CountersExact
PROPERTY PortModExact
PROPERTY BufferedAsSent
CHECK_DEADLOCK FALSE
