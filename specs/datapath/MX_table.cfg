CONSTANTS
  NP = 3
  Shape <- MCShape
  RxShapes <- T_Shapes
  RxPorts = {1}
  OutShapes <- T_Shapes
  InPorts = {1, 65535}
  FlowLists <- T_FlowLists
  OutLists <- T_OutLists
  BufLists = {}
  ModPorts = {1}
  ModOps <- F_ModOps
  BadMods = {}
  BadOps = {}
  FragModes = {}
  DropCount <- Both
  MissLen = 128
  MaxHeld = 0
  D = 0
INIT Init
NEXT Next
VIEW viewE
INVARIANT TypeOK
PROPERTY NoEmitBlocked
PROPERTY IngressExcluded
PROPERTY NoRecvRespected
PROPERTY FloodRule
PROPERTY AllRule
PROPERTY InOrder
PROPERTY TableInOrder
PROPERTY MissRule
PROPERTY CountersExact
PROPERTY PortModExact
PROPERTY BufferedAsSent
ACTION_CONSTRAINT ExportT
CHECK_DEADLOCK FALSE
