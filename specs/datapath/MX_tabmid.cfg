CONSTANTS
  NP = 3
  Shape <- MCShape
  RxShapes = {}
  RxPorts = {}
  OutShapes <- TM_Shapes
  InPorts = {1, 65535}
  FlowLists <- TM_FlowLists
  OutLists <- TM_OutLists
  BufLists = {}
  ModPorts = {}
  ModOps <- NoOps
  BadMods = {}
  BadOps = {}
  FragModes = {}
  DropCount <- Both
  MissLen = 128
  MaxHeld = 0
  D = 0
INIT Init
NEXT Next
VIEW viewE
INVARIANT TypeOK
PROPERTY NoEmitBlocked
PROPERTY IngressExcluded
PROPERTY NoRecvRespected
PROPERTY FloodRule
PROPERTY AllRule
PROPERTY InOrder
PROPERTY TableInOrder
PROPERTY MissRule
PROPERTY CountersExact
PROPERTY PortModExact
PROPERTY BufferedAsSent
ACTION_CONSTRAINT ExportT
CHECK_DEADLOCK FALSE
