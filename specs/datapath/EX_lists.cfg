CONSTANTS
  NP = 3
  Shape <- MCShape
  RxShapes <- AT_RxShapes
  RxPorts = {1, 2}
  OutShapes = {}
  InPorts = {}
  FlowLists <- AT_FlowLists
  OutLists = {}
  BufLists = {}
  ModPorts = {}
  ModOps <- NoOps
  BadMods = {}
  FragModes = {}
  DropCount = {FALSE}
  MissLen = 128
  MaxHeld = 0
  D = 0
INIT Init
NEXT Next
VIEW viewE
ACTION_CONSTRAINT ExportT
CHECK_DEADLOCK FALSE
