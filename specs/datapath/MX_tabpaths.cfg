CONSTANTS
  NP = 3
  Shape <- MCShape
  RxShapes = {}
  RxPorts = {}
  OutShapes <- TM_Shapes
  InPorts = {1}
  FlowLists <- TB_FlowLists
  OutLists <- TB_OutLists
  BufLists <- TB_BufLists
  ModPorts = {}
  ModOps <- NoOps
  BadMods = {}
  BadOps = {}
  FragModes = {}
  DropCount = {FALSE}
  MissLen = 128
  MaxHeld = 2
  D = 3
INIT Init
NEXT NextB
VIEW viewP
INVARIANT TypeOK
INVARIANT Export
PROPERTY NoEmitBlocked
PROPERTY IngressExcluded
PROPERTY NoRecvRespected
PROPERTY FloodRule
PROPERTY AllRule
PROPERTY InOrder
PROPERTY TableInOrder
PROPERTY MissRule
PROPERTY CountersExact
PROPERTY PortModExact
PROPERTY BufferedAsSent
CHECK_DEADLOCK FALSE
