CONSTANTS
  NP = 3
  Shape <- MCShape
  RxShapes <- F_Shapes
  RxPorts = {1}
  OutShapes = {}
  InPorts = {}
  FlowLists <- F_FlowLists
  OutLists = {}
  BufLists = {}
  ModPorts = {1}
  ModOps <- F_ModOps
  BadMods = {}
  BadOps = {}
  FragModes <- Both
  DropCount <- Both
  MissLen = 128
  MaxHeld = 0
  D = 0
INIT Init
NEXT Next
VIEW viewE
INVARIANT TypeOK
PROPERTY NoEmitBlocked
PROPERTY IngressExcluded
PROPERTY NoRecvRespected
PROPERTY FloodRule
PROPERTY AllRule
PROPERTY InOrder
PROPERTY TableInOrder
PROPERTY MissRule
PROPERTY CountersExact
PROPERTY PortModExact
PROPERTY BufferedAsSent
ACTION_CONSTRAINT ExportT
CHECK_DEADLOCK FALSE
