----------------------------- MODULE Datapath -----------------------------
(* C12: the OpenFlow 1.0 software datapath - action lists and port rules.   *)
(*                                                                          *)
(* Abstract state: per-port configuration bits, per-port counters, the one  *)
(* (match-everything) flow entry's action list, the fragment handling mode, *)
(* the frames handed to the controller that are still buffered.             *)
(* One action per way a frame enters the datapath or the port rules change: *)
(*   Rx            a frame arrives on a physical port (flow entry or miss)  *)
(*   PacketOut     the controller injects a frame with an action list       *)
(*   PacketOutBuf  the controller releases a buffered frame with a list     *)
(*   FlowMod/FlowDel   install / remove the flow entry                      *)
(*   PortMod, PortModBad, SetFrag   port-mod (valid / refused), set-config  *)
(* Every action logs what an observer on the ports and on the OpenFlow      *)
(* channel must see: the frames emitted (per output action: the set of      *)
(* ports and the frame RECORD - Frames!Enc gives its bytes), the packet-ins *)
(* (in_port, reason, frame, data length, total length), all port counters,  *)
(* the port configuration read back.                                        *)
(*                                                                          *)
(* Latitude the property leaves, explicit here (DESIGN 2.8):                *)
(*  * frames emitted on different ports by ONE output action (FLOOD / ALL)  *)
(*    are a set; the order BETWEEN output actions is fixed;                 *)
(*  * a frame refused at ingress (NO_RECV, NO_RECV_STP, fragment dropped)   *)
(*    may or may not be counted in rx_packets/rx_bytes (parameter c of Rx); *)
(*  * OFPPC_NO_PACKET_IN on the ingress port: a table miss sends nothing;   *)
(*    whether an explicit output:CONTROLLER still sends is open (opt=TRUE). *)
EXTENDS Frames, TLC, Json

CONSTANTS NP,         \* physical ports 1..NP
          Shape,      \* [shape id -> frame record]
          RxShapes,   \* shape ids that arrive on ports
          RxPorts,    \* ports frames arrive on
          OutShapes,  \* shape ids the controller injects
          InPorts,    \* in_port values of PACKET_OUT (a port or NONE)
          FlowLists,  \* action lists FLOW_MOD may install
          OutLists,   \* action lists of PACKET_OUT
          BufLists,   \* action lists of PACKET_OUT naming a buffer
          ModPorts,   \* ports PORT_MOD addresses
          ModOps,     \* [port -> {[mask |-> set of bits, conf |-> set of bits]}]
          BadMods,    \* subset of {"badport", "badhw"}
          BadOps,     \* what the refused PORT_MODs try to change
          FragModes,  \* values SET_CONFIG may give "drop fragments"
          DropCount,  \* subset of BOOLEAN: is a frame refused at ingress counted as received
          MissLen,    \* miss_send_len
          MaxHeld,    \* how many buffered frames are tracked (0: buffers not modelled)
          D           \* export depth

Ports == 1..NP
Bits == {"PORT_DOWN", "NO_RECV", "NO_RECV_STP", "NO_FLOOD", "NO_FWD", "NO_PACKET_IN"}

\* OpenFlow 1.0 port numbers
MAXP == 65280
IN_PORT == 65528
TABLE == 65529
NORMAL == 65530
FLOOD == 65531
ALL == 65532
CONTROLLER == 65533
LOCALPORT == 65534
NONE == 65535

VARIABLES cfg,       \* [Ports -> SUBSET Bits]
          stats,     \* [Ports -> [rxp, rxb, txp, txb]]
          hasFlow,   \* is the flow entry installed
          flow,      \* its action list
          fragDrop,  \* OFPC_FRAG_DROP configured
          held,      \* buffered frames, oldest first: <<[f |-> frame, p |-> in_port]>>
          last,      \* observation of the last action
          hist       \* all observations (export only; hidden by VIEW)
vars == <<cfg, stats, hasFlow, flow, fragDrop, held, last, hist>>
\* Counters only accumulate and guard nothing: they are left out of the views
\* (every transition is still generated and checked against the properties).
lastV == IF last.a \in {"Rx", "PacketOut", "PacketOutBuf"}
         THEN <<last.a, last.args, last.exp.em, last.exp.pins, last.exp.drop>>
         ELSE <<last.a, last.args>>
view == <<cfg, hasFlow, flow, fragDrop, held, lastV>>         \* model checking
viewE == <<cfg, hasFlow, flow, fragDrop, held>>               \* edge export
\* all paths to depth D: the history is part of the state (the code may carry
\* history - caches, stale copies - that the abstract state does not distinguish)
viewP == <<cfg, hasFlow, flow, fragDrop, held, hist>>

Min(a, b) == IF a < b THEN a ELSE b
IsOut(a) == a.t \in OutputTypes

\* ---- what one output action emits ------------------------------------------
Fwd(q) == "PORT_DOWN" \notin cfg[q] /\ "NO_FWD" \notin cfg[q]

OutSet(port, ip) ==
  IF port < MAXP
  THEN IF port \in Ports THEN (IF port # ip /\ Fwd(port) THEN {port} ELSE {}) ELSE {}
  ELSE IF port = IN_PORT
  THEN IF ip \in Ports THEN (IF Fwd(ip) THEN {ip} ELSE {}) ELSE {}
  ELSE IF port = FLOOD
  THEN {q \in Ports : q # ip /\ Fwd(q) /\ "NO_FLOOD" \notin cfg[q]}
  ELSE IF port = ALL
  THEN {q \in Ports : q # ip /\ Fwd(q)}
  ELSE {}                                       \* NORMAL, LOCALPORT, NONE, unknown: nothing

NoPktIn(ip) == IF ip \in Ports THEN "NO_PACKET_IN" \in cfg[ip] ELSE FALSE

NoRes == [em |-> <<>>, pins |-> <<>>]
Cat(r1, r2) == [em |-> r1.em \o r2.em, pins |-> r1.pins \o r2.pins]
Pin(ip, reason, f, ml, opt) ==
  [inport |-> ip, reason |-> reason, f |-> f, total |-> FrameLen(f),
   dlen |-> Min(ml, FrameLen(f)), opt |-> opt]

\* table miss: packet-in with miss_send_len bytes unless the port says NO_PACKET_IN
MissRes(f, ip) == IF NoPktIn(ip) THEN NoRes
                  ELSE [em |-> <<>>, pins |-> <<Pin(ip, "miss", f, MissLen, FALSE)>>]

\* one output (or enqueue = output on that port) other than TABLE
OutOne(a, f, ip) ==
  IF a.t = "output" /\ a.n = CONTROLLER
  THEN [em |-> <<>>, pins |-> <<Pin(ip, "action", f, a.m, NoPktIn(ip))>>]
  ELSE LET s == OutSet(a.n, ip) IN
       IF s = {} THEN NoRes ELSE [em |-> <<[ports |-> s, f |-> f]>>, pins |-> <<>>]

\* the action list of a flow entry, from position i, on frame f that came in on ip:
\* rewrites change the frame for everything that follows, outputs emit it as it is now
RECURSIVE RunL(_, _, _, _)
RunL(A, i, f, ip) ==
  IF i > Len(A) THEN NoRes
  ELSE IF IsOut(A[i])
  THEN Cat(IF A[i].n = TABLE THEN NoRes ELSE OutOne(A[i], f, ip), RunL(A, i + 1, f, ip))
  ELSE RunL(A, i + 1, Apply(A[i], f), ip)

TableRes(f, ip) == IF hasFlow THEN RunL(flow, 1, f, ip) ELSE MissRes(f, ip)

\* the action list of a PACKET_OUT: output:TABLE submits the frame as modified
\* so far to the flow table (it is not "received": no ingress rule, no rx counter).
\* What the REST of the list works on after output:TABLE is left open by the
\* statement between two consistent readings (parameter k, DESIGN 2.8):
\*   k = FALSE  the table worked on a copy: the list goes on with its own frame;
\*   k = TRUE   resubmit: the list goes on with the frame as the matching entry
\*              left it (ALL rewrites of the entry applied, whichever header).
\* Anything in between (some headers shared, others not) is neither.  In both
\* readings the frames the table emitted / handed to the controller are final:
\* later actions of the list never reach them (BufferedAsSent, TableInOrder).
KeepModes == BOOLEAN
RECURSIVE AllRew(_, _, _)
AllRew(B, i, f) == IF i > Len(B) THEN f
                   ELSE AllRew(B, i + 1, IF IsOut(B[i]) THEN f ELSE Apply(B[i], f))
AfterTable(f, k) == IF k /\ hasFlow THEN AllRew(flow, 1, f) ELSE f
IsTab(a) == a.t = "output" /\ a.n = TABLE
RECURSIVE RunP(_, _, _, _, _)
RunP(A, i, f, ip, k) ==
  IF i > Len(A) THEN NoRes
  ELSE IF IsOut(A[i])
  THEN IF IsTab(A[i]) THEN Cat(TableRes(f, ip), RunP(A, i + 1, AfterTable(f, k), ip, k))
       ELSE Cat(OutOne(A[i], f, ip), RunP(A, i + 1, f, ip, k))
  ELSE RunP(A, i + 1, Apply(A[i], f), ip, k)

\* ---- counters ----------------------------------------------------------------
RECURSIVE TxP(_, _, _), TxB(_, _, _)
TxP(em, i, q) == IF i > Len(em) THEN 0
                 ELSE (IF q \in em[i].ports THEN 1 ELSE 0) + TxP(em, i + 1, q)
TxB(em, i, q) == IF i > Len(em) THEN 0
                 ELSE (IF q \in em[i].ports THEN FrameLen(em[i].f) ELSE 0) + TxB(em, i + 1, q)
AfterTx(st, em) == [q \in Ports |-> [st[q] EXCEPT !.txp = @ + TxP(em, 1, q),
                                                 !.txb = @ + TxB(em, 1, q)]]
AfterRx(st, p, f) == [st EXCEPT ![p].rxp = @ + 1, ![p].rxb = @ + FrameLen(f)]
StatsObs(st) == [q \in Ports |-> <<st[q].rxp, st[q].rxb, st[q].txp, st[q].txb>>]

\* ---- buffers -----------------------------------------------------------------
RECURSIVE HeldOf(_, _)
HeldOf(pins, i) == IF i > Len(pins) THEN <<>>
                   ELSE <<[f |-> pins[i].f, p |-> pins[i].inport]>> \o HeldOf(pins, i + 1)
HasOpt(pins) == \E i \in DOMAIN pins : pins[i].opt
\* with buffers modelled, steps that would overflow the tracked pool or whose
\* packet-in is optional are outside the model
HeldOK(h, r) == IF MaxHeld = 0 THEN TRUE ELSE (Len(h) + Len(r.pins) <= MaxHeld /\ ~HasOpt(r.pins))
HeldAfter(h, r) == IF MaxHeld = 0 THEN h ELSE h \o HeldOf(r.pins, 1)
Without(s, k) == SubSeq(s, 1, k - 1) \o SubSeq(s, k + 1, Len(s))

\* ---- the machine -----------------------------------------------------------------
NoObs == [a |-> "Init", args |-> [x |-> 0], exp |-> [x |-> 0]]
Init == /\ cfg = [q \in Ports |-> {}]
        /\ stats = [q \in Ports |-> [rxp |-> 0, rxb |-> 0, txp |-> 0, txb |-> 0]]
        /\ hasFlow = FALSE /\ flow = <<>>
        /\ fragDrop = FALSE
        /\ held = <<>>
        /\ last = NoObs
        /\ hist = <<>>

Log(a, args, exp) ==
  /\ last' = [a |-> a, args |-> args, exp |-> exp]
  /\ hist' = Append(hist, [a |-> a, args |-> args, exp |-> exp])

TrafficObs(r, drop, st) == [em |-> r.em, pins |-> r.pins, drop |-> drop, stats |-> StatsObs(st)]

IsStp(f) == f.dst = "stp"
IngressDrop(p, f) == \/ ("NO_RECV" \in cfg[p] /\ ~IsStp(f))
                     \/ ("NO_RECV_STP" \in cfg[p] /\ IsStp(f))
                     \/ (fragDrop /\ f.et = "ip" /\ f.frag # 0)

\* Outside the model: rewriting the IPv4 addresses of a FIRST fragment (the
\* transport checksum it carries would have to be patched incrementally) and
\* rewriting its transport ports (OpenFlow 1.0 gives fragments no ports for
\* matching; whether the actions reach into the first fragment is left open).
NwRewrite(A) == \E i \in DOMAIN A : A[i].t \in {"set_nw_src", "set_nw_dst", "set_tp_src", "set_tp_dst"}
InModel(f, A) == ~(f.et = "ip" /\ f.frag = 1 /\ NwRewrite(A))
UsesTableP(A) == \E i \in DOMAIN A : A[i].t = "output" /\ A[i].n = TABLE

\* A frame of shape s arrives on port p.  (Frames arriving on a port that is
\* administratively down are outside the model.)
Rx(p, s, c) ==
  LET f == Shape[s] IN
  /\ "PORT_DOWN" \notin cfg[p]
  /\ InModel(f, flow)
  /\ UNCHANGED <<cfg, hasFlow, flow, fragDrop>>
  /\ IF IngressDrop(p, f)
     THEN /\ c \in DropCount
          /\ stats' = IF c THEN AfterRx(stats, p, f) ELSE stats
          /\ UNCHANGED held
          /\ Log("Rx", [p |-> p, f |-> s], TrafficObs(NoRes, TRUE, stats'))
     ELSE LET r == TableRes(f, p) IN
          /\ c = FALSE
          /\ HeldOK(held, r)
          /\ stats' = AfterTx(AfterRx(stats, p, f), r.em)
          /\ held' = HeldAfter(held, r)
          /\ Log("Rx", [p |-> p, f |-> s], TrafficObs(r, FALSE, stats'))

PacketOut(ip, s, A, k) ==
  LET r == RunP(A, 1, Shape[s], ip, k) IN
  /\ k \in KeepModes
  /\ (k => r # RunP(A, 1, Shape[s], ip, FALSE))      \* the second reading only where it shows
  /\ InModel(Shape[s], A)
  /\ (UsesTableP(A) => InModel(Shape[s], flow))
  /\ HeldOK(held, r)
  /\ UNCHANGED <<cfg, hasFlow, flow, fragDrop>>
  /\ stats' = AfterTx(stats, r.em)
  /\ held' = HeldAfter(held, r)
  /\ Log("PacketOut", [ip |-> ip, f |-> s, acts |-> A], TrafficObs(r, FALSE, stats'))

\* the k-th oldest buffered frame leaves through A, relative to ITS ingress port,
\* exactly as it was when it was handed to the controller
PacketOutBuf(k, A, kp) ==
  /\ k \in 1..Len(held)
  /\ InModel(held[k].f, A)
  /\ (UsesTableP(A) => InModel(held[k].f, flow))
  /\ kp \in KeepModes
  /\ LET r == RunP(A, 1, held[k].f, held[k].p, kp)
         h == Without(held, k) IN
     /\ (kp => r # RunP(A, 1, held[k].f, held[k].p, FALSE))
     /\ HeldOK(h, r)
     /\ UNCHANGED <<cfg, hasFlow, flow, fragDrop>>
     /\ stats' = AfterTx(stats, r.em)
     /\ held' = HeldAfter(h, r)
     /\ Log("PacketOutBuf", [k |-> k, acts |-> A], TrafficObs(r, FALSE, stats'))

CfgObs(c) == [config |-> [q \in Ports |-> c[q]]]

FlowMod(A) ==
  /\ ~hasFlow
  /\ hasFlow' = TRUE /\ flow' = A
  /\ UNCHANGED <<cfg, stats, fragDrop, held>>
  /\ Log("FlowMod", [acts |-> A], [x |-> 0])
FlowDel ==
  /\ hasFlow
  /\ hasFlow' = FALSE /\ flow' = <<>>
  /\ UNCHANGED <<cfg, stats, fragDrop, held>>
  /\ Log("FlowDel", [x |-> 0], [x |-> 0])

\* PORT_MOD: the bits named by the mask take the value they have in conf
PortMod(p, op) ==
  /\ cfg' = [cfg EXCEPT ![p] = (@ \ op.mask) \cup (op.conf \cap op.mask)]
  /\ UNCHANGED <<stats, hasFlow, flow, fragDrop, held>>
  /\ Log("PortMod", [p |-> p, mask |-> op.mask, conf |-> op.conf], CfgObs(cfg'))
\* PORT_MOD for a port that does not exist / with the wrong hardware address: refused whole
PortModBad(kind, p, op) ==
  /\ UNCHANGED <<cfg, stats, hasFlow, flow, fragDrop, held>>
  /\ Log("PortModBad", [kind |-> kind, p |-> p, mask |-> op.mask, conf |-> op.conf], CfgObs(cfg))
SetFrag(b) ==
  /\ fragDrop' = b
  /\ UNCHANGED <<cfg, stats, hasFlow, flow, held>>
  /\ Log("SetFrag", [drop |-> b], [x |-> 0])

NextRx == \E p \in RxPorts, s \in RxShapes, c \in BOOLEAN : Rx(p, s, c)
NextPacketOut == \E ip \in InPorts, s \in OutShapes, A \in OutLists, k \in BOOLEAN : PacketOut(ip, s, A, k)
NextPacketOutBuf == \E k \in 1..MaxHeld, A \in BufLists, kp \in BOOLEAN : PacketOutBuf(k, A, kp)
NextFlowMod == \E A \in FlowLists : FlowMod(A)
NextPortMod == \E p \in ModPorts : \E op \in ModOps[p] : PortMod(p, op)
NextPortModBad == \E kind \in BadMods, p \in ModPorts, op \in BadOps : PortModBad(kind, p, op)
NextSetFrag == \E b \in FragModes : SetFrag(b)

Next == \/ NextRx \/ NextPacketOut \/ NextPacketOutBuf \/ NextFlowMod \/ FlowDel
        \/ NextPortMod \/ NextPortModBad \/ NextSetFrag

NextB == Len(hist) < D /\ Next                  \* all-paths export: stop at depth D
Spec == Init /\ [][Next]_vars

----------------------------------------------------------------------------
(* The property, over the real variables and the observation of the step.   *)

Traffic == {"Rx", "PacketOut", "PacketOutBuf"}
EmPorts(em) == UNION {em[i].ports : i \in DOMAIN em}

TypeOK ==
  /\ cfg \in [Ports -> SUBSET Bits]
  /\ \A q \in Ports : \A k \in {"rxp", "rxb", "txp", "txb"} : stats[q][k] \in Nat
  /\ hasFlow \in BOOLEAN /\ fragDrop \in BOOLEAN
  /\ (~hasFlow => flow = <<>>)
  /\ Len(held) <= MaxHeld
  /\ \A i \in DOMAIN held : FrameOK(held[i].f)
  /\ (last.a \in Traffic =>
        /\ \A i \in DOMAIN last.exp.em : FrameOK(last.exp.em[i].f) /\ last.exp.em[i].ports # {}
        /\ \A i \in DOMAIN last.exp.pins : FrameOK(last.exp.pins[i].f))

\* who came in where, and which action lists ran, in the step just taken
IngressOf(l) == CASE l.a = "Rx" -> l.args.p [] l.a = "PacketOut" -> l.args.ip
                  [] OTHER -> held[l.args.k].p
FrameOf(l) == CASE l.a = "PacketOutBuf" -> held[l.args.k].f [] OTHER -> Shape[l.args.f]
UsesInPort(A) == \E i \in DOMAIN A : IsOut(A[i]) /\ A[i].n = IN_PORT
UsesTable(A) == \E i \in DOMAIN A : A[i].t = "output" /\ A[i].n = TABLE
ListsOf(l) == IF l.a = "Rx" THEN (IF hasFlow THEN {flow} ELSE {})
              ELSE {l.args.acts} \cup (IF UsesTable(l.args.acts) /\ hasFlow THEN {flow} ELSE {})

\* nothing is ever emitted on a port that does not exist, is down or has forwarding disabled
NoEmitBlocked ==
  [][last'.a \in Traffic =>
       \A q \in EmPorts(last'.exp.em) : q \in Ports /\ "PORT_DOWN" \notin cfg[q] /\ "NO_FWD" \notin cfg[q]]_vars

\* the ingress port gets the frame back only through an explicit output:IN_PORT
IngressExcluded ==
  [][(last'.a \in Traffic /\ \A A \in ListsOf(last') : ~UsesInPort(A)) =>
       IngressOf(last') \notin EmPorts(last'.exp.em)]_vars

\* nothing is accepted from a receive-disabled port (802.1D frames obey NO_RECV_STP instead)
NoRecvRespected ==
  [][(last'.a = "Rx" /\ LET p == last'.args.p
                           f == Shape[last'.args.f] IN
                       \/ ("NO_RECV" \in cfg[p] /\ f.dst # "stp")
                       \/ ("NO_RECV_STP" \in cfg[p] /\ f.dst = "stp")) =>
       (last'.exp.em = <<>> /\ last'.exp.pins = <<>> /\ last'.exp.drop)]_vars

\* FLOOD reaches exactly the other ports that are up, forwarding and flood-enabled; ALL ignores NO_FLOOD
FloodRule ==
  [][(last'.a \in Traffic /\ ~last'.exp.drop /\ ListsOf(last') = {<<Act("output", FLOOD, 65535, "-")>>}) =>
       /\ Len(last'.exp.em) <= 1
       /\ EmPorts(last'.exp.em) = {q \in Ports \ {IngressOf(last')} :
                                     cfg[q] \cap {"PORT_DOWN", "NO_FWD", "NO_FLOOD"} = {}}]_vars
AllRule ==
  [][(last'.a \in Traffic /\ ~last'.exp.drop /\ ListsOf(last') = {<<Act("output", ALL, 65535, "-")>>}) =>
       /\ Len(last'.exp.em) <= 1
       /\ EmPorts(last'.exp.em) = {q \in Ports \ {IngressOf(last')} :
                                     cfg[q] \cap {"PORT_DOWN", "NO_FWD"} = {}}]_vars

\* "applying the actions in order to the frame as modified so far", stated
\* without the recursion used by the machine: the frame that output number i of
\* a list emits is the original frame with all rewrites of positions < i applied.
RECURSIVE Upto(_, _, _)
Upto(A, i, f) == IF i = 1 THEN f ELSE Apply(A[i - 1], Upto(A, i - 1, f))
PhysOuts(A, ip) == SelectSeq([i \in 1..Len(A) |-> i],
                             LAMBDA i : IsOut(A[i]) /\ OutSet(A[i].n, ip) # {})
CtlOuts(A) == SelectSeq([i \in 1..Len(A) |-> i],
                        LAMBDA i : A[i].t = "output" /\ A[i].n = CONTROLLER)
InOrder ==
  [][(last'.a \in Traffic /\ ~last'.exp.drop /\ Cardinality(ListsOf(last')) = 1
       /\ \A B \in ListsOf(last') : ~UsesTable(B)) =>
       LET A  == CHOOSE B \in ListsOf(last') : TRUE
           ip == IngressOf(last')
           f  == FrameOf(last')
           po == PhysOuts(A, ip)
           co == CtlOuts(A) IN
       /\ last'.exp.em = [j \in 1..Len(po) |-> [ports |-> OutSet(A[po[j]].n, ip), f |-> Upto(A, po[j], f)]]
       /\ Len(last'.exp.pins) = Len(co)
       /\ \A j \in 1..Len(co) : /\ last'.exp.pins[j].f = Upto(A, co[j], f)
                                /\ last'.exp.pins[j].reason = "action"
                                /\ last'.exp.pins[j].inport = ip
                                /\ last'.exp.pins[j].dlen <= A[co[j]].m
                                /\ last'.exp.pins[j].dlen <= last'.exp.pins[j].total]_vars

\* The same for a list that contains output:TABLE (packet-outs only), stated per
\* position: what position i works on is the original frame with the rewrites of
\* THIS list before i applied (and, in the resubmit reading, all rewrites of the
\* entry at each earlier TABLE); an output emits exactly that; output:TABLE yields
\* what the entry's own list yields on exactly that (or the miss packet-in).  So
\* rewrites of the entry never reach the list's own outputs piecemeal, and later
\* rewrites of the list never reach what the table emitted or handed over.
RECURSIVE UptoT(_, _, _, _)
UptoT(A, i, f, k) ==
  IF i = 1 THEN f
  ELSE LET g == UptoT(A, i - 1, f, k) IN
       IF IsTab(A[i - 1]) THEN (IF k /\ hasFlow THEN Upto(flow, Len(flow) + 1, g) ELSE g)
       ELSE Apply(A[i - 1], g)
ListEm(B, g, ip) == LET po == PhysOuts(B, ip) IN
  [j \in 1..Len(po) |-> [ports |-> OutSet(B[po[j]].n, ip), f |-> Upto(B, po[j], g)]]
ListPins(B, g, ip) == LET co == CtlOuts(B) IN
  [j \in 1..Len(co) |-> Pin(ip, "action", Upto(B, co[j], g), B[co[j]].m, NoPktIn(ip))]
SegEm(A, i, f, ip, k) ==
  LET g == UptoT(A, i, f, k) IN
  IF IsTab(A[i]) THEN (IF hasFlow THEN ListEm(flow, g, ip) ELSE <<>>)
  ELSE IF IsOut(A[i]) /\ OutSet(A[i].n, ip) # {} THEN <<[ports |-> OutSet(A[i].n, ip), f |-> g]>>
  ELSE <<>>
SegPins(A, i, f, ip, k) ==
  LET g == UptoT(A, i, f, k) IN
  IF IsTab(A[i]) THEN (IF hasFlow THEN ListPins(flow, g, ip)
                       ELSE IF NoPktIn(ip) THEN <<>> ELSE <<Pin(ip, "miss", g, MissLen, FALSE)>>)
  ELSE IF A[i].t = "output" /\ A[i].n = CONTROLLER THEN <<Pin(ip, "action", g, A[i].m, NoPktIn(ip))>>
  ELSE <<>>
RECURSIVE FlatEm(_, _, _, _, _), FlatPins(_, _, _, _, _)
FlatEm(A, n, f, ip, k) == IF n = 0 THEN <<>> ELSE FlatEm(A, n - 1, f, ip, k) \o SegEm(A, n, f, ip, k)
FlatPins(A, n, f, ip, k) == IF n = 0 THEN <<>> ELSE FlatPins(A, n - 1, f, ip, k) \o SegPins(A, n, f, ip, k)
TableInOrder ==
  [][(last'.a \in {"PacketOut", "PacketOutBuf"} /\ UsesTable(last'.args.acts)) =>
       LET A  == last'.args.acts
           ip == IngressOf(last')
           f  == FrameOf(last') IN
       \E k \in BOOLEAN : /\ last'.exp.em = FlatEm(A, Len(A), f, ip, k)
                          /\ last'.exp.pins = FlatPins(A, Len(A), f, ip, k)]_vars

\* a table miss goes to the controller untouched, unless the port forbids it
MissRule ==
  [][(last'.a = "Rx" /\ ~last'.exp.drop /\ ~hasFlow) =>
       /\ last'.exp.em = <<>>
       /\ IF "NO_PACKET_IN" \in cfg[last'.args.p] THEN last'.exp.pins = <<>>
          ELSE /\ Len(last'.exp.pins) = 1
               /\ last'.exp.pins[1].f = Shape[last'.args.f]
               /\ last'.exp.pins[1].reason = "miss"
               /\ last'.exp.pins[1].total = FrameLen(Shape[last'.args.f])]_vars

\* counters move by exactly the frames and bytes received and transmitted in the step
RECURSIVE SumLen(_, _)
SumLen(em, S) == IF S = {} THEN 0
                 ELSE LET i == CHOOSE x \in S : TRUE IN FrameLen(em[i].f) + SumLen(em, S \ {i})
CountersExact ==
  [][\A q \in Ports :
       LET em == IF last'.a \in Traffic THEN last'.exp.em ELSE <<>>
           ix == {i \in DOMAIN em : q \in em[i].ports}
           got == last'.a = "Rx" /\ last'.args.p = q
           cnt == got /\ (~last'.exp.drop \/ stats'[q].rxp # stats[q].rxp) IN
       /\ stats'[q].txp = stats[q].txp + Cardinality(ix)
       /\ stats'[q].txb = stats[q].txb + SumLen(em, ix)
       /\ stats'[q].rxp = stats[q].rxp + (IF cnt THEN 1 ELSE 0)
       /\ stats'[q].rxb = stats[q].rxb + (IF cnt THEN FrameLen(Shape[last'.args.f]) ELSE 0)
       /\ (got /\ ~last'.exp.drop => stats'[q].rxp = stats[q].rxp + 1)]_vars

\* port-mod changes exactly the masked bits of exactly that port; a refused one changes nothing
PortModExact ==
  [][/\ (last'.a = "PortMod" =>
           /\ \A q \in Ports \ {last'.args.p} : cfg'[q] = cfg[q]
           /\ cfg'[last'.args.p] \ last'.args.mask = cfg[last'.args.p] \ last'.args.mask
           /\ cfg'[last'.args.p] \cap last'.args.mask = last'.args.conf \cap last'.args.mask)
     /\ (last'.a # "PortMod" => cfg' = cfg)]_vars

\* a buffered frame is the frame that was handed to the controller
BufferedAsSent ==
  [][(last'.a \in Traffic /\ MaxHeld > 0) =>
       LET n == Len(last'.exp.pins) IN
       /\ Len(held') >= n
       /\ \A j \in 1..n : held'[Len(held') - n + j] =
                            [f |-> last'.exp.pins[j].f, p |-> last'.exp.pins[j].inport]]_vars

\* ---- export for the replay harness
Bound   == Len(hist) <= D
Export  == (Len(hist) = D) => PrintT(<<"H", ToJson(hist)>>)
ExportT == PrintT(<<"T", ToJson(hist')>>)
=============================================================================
