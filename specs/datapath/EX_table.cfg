CONSTANTS
  NP = 3
  Shape <- MCShape
  RxShapes <- T_Shapes
  RxPorts = {1}
  OutShapes <- T_Shapes
  InPorts = {1, 65535}
  FlowLists <- T_FlowLists
  OutLists <- T_OutLists
  BufLists = {}
  ModPorts = {1}
  ModOps <- F_ModOps
  BadMods = {}
  FragModes = {}
  DropCount = {FALSE}
  MissLen = 128
  MaxHeld = 0
  D = 0
INIT Init
NEXT Next
VIEW viewE
ACTION_CONSTRAINT ExportT
CHECK_DEADLOCK FALSE
