INIT Init
NEXT Next
INVARIANT Canonical
INVARIANT OracleOK
INVARIANT AltsOK
INVARIANT Emit
CHECK_DEADLOCK FALSE
