INIT Init
NEXT Next
INVARIANT Canonical
INVARIANT OracleOK
INVARIANT Emit
CHECK_DEADLOCK FALSE
