CONSTANTS
  NP = 3
  Shape <- MCShape
  RxShapes = {"u_udp"}
  RxPorts = {1, 2}
  OutShapes = {"u_udp"}
  InPorts = {2, 65535}
  FlowLists <- P_FlowLists
  OutLists <- P_OutLists
  BufLists = {}
  ModPorts = {1}
  ModOps <- P_ModOps
  BadMods = {}
  BadOps = {}
  FragModes = {}
  DropCount = {FALSE}
  MissLen = 128
  MaxHeld = 0
  D = 4
INIT Init
NEXT NextB
VIEW viewP
INVARIANT TypeOK
INVARIANT Export
PROPERTY NoEmitBlocked
PROPERTY IngressExcluded
PROPERTY NoRecvRespected
PROPERTY FloodRule
PROPERTY AllRule
PROPERTY InOrder
PROPERTY TableInOrder
PROPERTY MissRule
PROPERTY CountersExact
PROPERTY PortModExact
PROPERTY BufferedAsSent
CHECK_DEADLOCK FALSE
