CONSTANTS
  NP = 3
  Shape <- MCShape
  RxShapes = {}
  RxPorts = {}
  OutShapes = {}
  InPorts = {}
  FlowLists = {}
  OutLists = {}
  BufLists = {}
  ModPorts = {}
  ModOps <- NoOps
  BadMods = {}
  BadOps = {}
  FragModes = {}
  DropCount <- Both
  MissLen = 128
  MaxHeld = 3
  D = 0
INIT TrInit
NEXT TrNext
CONSTRAINT Progress
POSTCONDITION Accepted
INVARIANT TypeOK
CHECK_DEADLOCK FALSE
