------------------------------ MODULE Frames ------------------------------
(* C12: Ethernet frames as the OpenFlow 1.0 datapath sees them.             *)
(*                                                                          *)
(* A frame is a RECORD of the header fields the twelve OpenFlow 1.0         *)
(* actions can touch plus the fields that decide which of them apply        *)
(* (802.1Q tag, ethertype class, IPv4 protocol, fragment class) and a       *)
(* payload symbol.  This module defines                                     *)
(*   Apply(a, f)  - what one header-rewrite action does to a frame,         *)
(*   FrameLen(f)  - the length of the frame on the wire (for byte counters),*)
(*   Enc(f)       - the exact bytes of the frame on the wire, every length  *)
(*                  field and checksum (IPv4 header, TCP/UDP with pseudo    *)
(*                  header, ICMP; RFC 1071) computed here, in TLA+.         *)
(* Frames may carry IPv4 header options (IHL 6..15) and TCP options (data     *)
(* offset 6..10): the rewrites leave them alone, every length and checksum   *)
(* is computed with them present.                                            *)
(* Round 5: the IPv4 identification (ipid) and the ICMP echo identifier (eid) *)
(* are fields, so that a frame can be chosen whose ones-complement sums land  *)
(* on the special values of the Internet checksum (computed checksum 0: UDP   *)
(* transmits 0xffff, TCP / ICMP / the IPv4 header transmit 0x0000; a sum that *)
(* needs a second fold); nocs marks a UDP datagram whose sender generated no  *)
(* checksum (field 0, RFC 768).  The blocks the checksums are computed over   *)
(* are named (UdpBlock, TcpBlock, IcmpBlock, IpBlock) so that MCDatapath can  *)
(* solve for such frames with the very operators Enc uses.                   *)
(* Enc is the byte oracle of the check: TLC evaluates it for every frame    *)
(* record that occurs in an exported behaviour (EncTable.tla) and for every *)
(* frame observed in a recorded trace (TraceDatapath.tla).                  *)
EXTENDS Naturals, Sequences, FiniteSets

\* ---- symbols -> bytes ---------------------------------------------------
MacB == [ma  |-> <<0, 0, 0, 0, 0, 10>>,
         mb  |-> <<0, 0, 0, 0, 0, 11>>,
         mc  |-> <<2, 255, 254, 128, 127, 1>>,
         md  |-> <<0, 34, 51, 68, 85, 102>>,
         stp |-> <<1, 128, 194, 0, 0, 0>>,          \* 802.1D bridge group address
         bc  |-> <<255, 255, 255, 255, 255, 255>>]
IpB  == [ia |-> <<10, 0, 0, 1>>,
         ib |-> <<192, 168, 0, 2>>,
         ic |-> <<255, 254, 128, 127>>,
         id |-> <<1, 2, 3, 4>>]
Pay  == [p0   |-> <<>>,
         p1   |-> <<255>>,
         p7   |-> <<97, 98, 99, 100, 101, 102, 103>>,
         p8   |-> <<97, 98, 99, 100, 101, 102, 103, 104>>,
         p9   |-> <<255, 254, 0, 1, 128, 127, 255, 255, 255>>,
         p200 |-> [i \in 1..200 |-> (i * 7 + 3) % 256],
         \* what a FIRST fragment carries after the IPv4 header: the transport header of the
         \* whole datagram (its length / checksum cover octets that are in later fragments)
         pu1  |-> <<3, 232, 7, 208, 11, 192, 190, 239>> \o [i \in 1..16 |-> 47 + i],  \* UDP 1000>2000 len 3008
         pt1  |-> <<3, 232, 7, 208, 1, 2, 3, 4, 5, 6, 7, 8, 80, 16, 3, 232, 171, 205, 0, 0>>
                  \o [i \in 1..12 |-> 64 + i]]                                          \* TCP 1000>2000

\* IPv4 header options (a multiple of 4 octets; IHL = 5 + Len \div 4)
IpOpt == [ra  |-> <<148, 4, 0, 0>>,                                       \* Router Alert (RFC 2113): IHL 6
          nop |-> <<1, 1, 1, 1, 148, 4, 0, 0>>,                           \* NOP padding + Router Alert: IHL 7
          ts  |-> <<68, 12, 13, 0, 1, 2, 3, 4, 5, 6, 7, 8>>,              \* Timestamp, two slots used: IHL 8
          rr  |-> <<7, 39, 4>> \o [i \in 1..36 |-> 200 + (i % 50)] \o <<0>>] \* Record Route, full: IHL 15
\* TCP header options (a multiple of 4 octets; data offset = 5 + Len \div 4)
TcpOpt == [mss |-> <<2, 4, 5, 180>>,                                                    \* MSS 1460: offset 6
           eol |-> <<2, 4, 5, 180, 1, 0, 0, 0>>,                                        \* MSS, NOP, EOL, padding: 7
           big |-> <<2, 4, 5, 180, 4, 2, 8, 10, 0, 1, 2, 3, 255, 254, 253, 252, 1, 3, 3, 7>>] \* MSS SACKOK TS NOP WS: 10
OptLen(tab, o) == IF o = "-" THEN 0 ELSE Len(tab[o])
OptBytes(tab, o) == IF o = "-" THEN <<>> ELSE tab[o]

MacSyms == DOMAIN MacB
IpSyms  == DOMAIN IpB
PaySyms == DOMAIN Pay

\* ---- frame records --------------------------------------------------------
\* et    : "ip" (0x0800) | "arp" (0x0806) | "oth" (0x88b5, opaque payload) |
\*         "bpdu" (802.3 length + LLC 42-42-03 + 35 octets)
\* proto : "tcp" | "udp" | "icmp" | "x" (protocol 253, opaque) | "-" (not IPv4)
\* frag  : 0 = not a fragment (DF), 1 = first fragment (MF, offset 0), 2 = later
\*         fragment (offset 185).  What follows the IPv4 header of a fragment is
\*         opaque (the payload symbol): OpenFlow 1.0 gives fragments no transport
\*         ports (section 3.4), and the transport length / checksum of a first
\*         fragment describe the whole datagram, not this frame.
\* iopt  : IPv4 header options (symbol of IpOpt, "-" = none: IHL 5)
\* topt  : TCP header options (symbol of TcpOpt, "-" = none: data offset 5)
\* ipid  : IPv4 identification (default 0x1234)
\* eid   : identifier of the ICMP echo request (default 7; sequence number 9)
\* nocs  : UDP datagram sent WITHOUT a checksum (checksum field 0, RFC 768)
\* Fields that do not exist in a frame have fixed values (canonical records):
\* untagged => vid = pcp = cfi = 0; not IPv4 => tos = 0, nsrc = ndst = proto = iopt = "-",
\* frag = 0, ipid = 0; no TCP/UDP header => tsrc = tdst = 0; no (parsed) TCP header => topt = "-";
\* no (parsed) ICMP header => eid = 0; no (parsed) UDP header => nocs = FALSE.
Mk(dst, src, tag, vid, pcp, cfi, et, tos, nsrc, ndst, proto, frag, tsrc, tdst, pl) ==
  [dst |-> dst, src |-> src, tag |-> tag, vid |-> vid, pcp |-> pcp, cfi |-> cfi,
   et |-> et, tos |-> tos, nsrc |-> nsrc, ndst |-> ndst, proto |-> proto,
   frag |-> frag, tsrc |-> tsrc, tdst |-> tdst, pl |-> pl, iopt |-> "-", topt |-> "-",
   ipid |-> IF et = "ip" THEN 4660 ELSE 0,
   eid |-> IF et = "ip" /\ proto = "icmp" /\ frag = 0 THEN 7 ELSE 0,
   nocs |-> FALSE]
WithOpts(f, io, to) == [f EXCEPT !.iopt = io, !.topt = to]

HasL4Ports(f) == f.et = "ip" /\ f.proto \in {"tcp", "udp"} /\ f.frag = 0

FrameOK(f) ==
  /\ f.dst \in MacSyms /\ f.src \in MacSyms /\ f.tag \in BOOLEAN
  /\ f.vid \in 0..4095 /\ f.pcp \in 0..7 /\ f.cfi \in 0..1
  /\ (~f.tag => f.vid = 0 /\ f.pcp = 0 /\ f.cfi = 0)
  /\ f.et \in {"ip", "arp", "oth", "bpdu"}
  /\ f.pl \in PaySyms
  /\ IF f.et = "ip"
     THEN /\ f.tos \in 0..255 /\ f.nsrc \in IpSyms /\ f.ndst \in IpSyms
          /\ f.proto \in {"tcp", "udp", "icmp", "x"} /\ f.frag \in 0..2
          /\ f.iopt \in DOMAIN IpOpt \cup {"-"} /\ f.ipid \in 0..65535
     ELSE f.tos = 0 /\ f.nsrc = "-" /\ f.ndst = "-" /\ f.proto = "-" /\ f.frag = 0 /\ f.iopt = "-" /\ f.ipid = 0
  /\ IF f.et = "ip" /\ f.proto = "tcp" /\ f.frag = 0 THEN f.topt \in DOMAIN TcpOpt \cup {"-"} ELSE f.topt = "-"
  /\ f.tsrc \in 0..65535 /\ f.tdst \in 0..65535
  /\ (~HasL4Ports(f) => f.tsrc = 0 /\ f.tdst = 0)
  /\ f.eid \in 0..65535 /\ (~(f.et = "ip" /\ f.proto = "icmp" /\ f.frag = 0) => f.eid = 0)
  /\ f.nocs \in BOOLEAN /\ (f.nocs => f.et = "ip" /\ f.proto = "udp" /\ f.frag = 0)

\* ---- the twelve standard actions -------------------------------------------
\* An action is [t |-> type, n |-> number (port / vid / pcp / tos / tp port),
\*               m |-> max_len (output) or queue id (enqueue), s |-> address symbol].
Act(t, n, m, s) == [t |-> t, n |-> n, m |-> m, s |-> s]
OutputTypes  == {"output", "enqueue"}
RewriteTypes == {"set_vlan_vid", "set_vlan_pcp", "strip_vlan", "set_dl_src", "set_dl_dst",
                 "set_nw_src", "set_nw_dst", "set_nw_tos", "set_tp_src", "set_tp_dst"}

\* OpenFlow 1.0 section 3.3 / ofp_action_*: a VLAN id or priority set on an
\* untagged frame pushes a tag whose other field is zero; strip removes the
\* tag; nw_* apply to IPv4 only; nw_tos replaces the six DSCP bits and leaves
\* the two low (ECN) bits; tp_* apply to TCP and UDP headers of unfragmented
\* packets only.  Outputs do not change the frame.
\* (Rewriting nw_src/nw_dst of a FIRST fragment would also have to patch the
\* transport checksum it carries, and whether tp_* reach into a first fragment
\* is not settled by the standard: Datapath!InModel keeps both cases out.)
Apply(a, f) ==
  CASE a.t = "set_vlan_vid" -> [f EXCEPT !.tag = TRUE, !.vid = a.n]
    [] a.t = "set_vlan_pcp" -> [f EXCEPT !.tag = TRUE, !.pcp = a.n]
    [] a.t = "strip_vlan"   -> [f EXCEPT !.tag = FALSE, !.vid = 0, !.pcp = 0, !.cfi = 0]
    [] a.t = "set_dl_src"   -> [f EXCEPT !.src = a.s]
    [] a.t = "set_dl_dst"   -> [f EXCEPT !.dst = a.s]
    [] a.t = "set_nw_src"   -> IF f.et = "ip" THEN [f EXCEPT !.nsrc = a.s] ELSE f
    [] a.t = "set_nw_dst"   -> IF f.et = "ip" THEN [f EXCEPT !.ndst = a.s] ELSE f
    [] a.t = "set_nw_tos"   -> IF f.et = "ip"
                               THEN [f EXCEPT !.tos = (a.n \div 4) * 4 + (f.tos % 4)] ELSE f
    [] a.t = "set_tp_src"   -> IF HasL4Ports(f) THEN [f EXCEPT !.tsrc = a.n] ELSE f
    [] a.t = "set_tp_dst"   -> IF HasL4Ports(f) THEN [f EXCEPT !.tdst = a.n] ELSE f
    [] OTHER -> f

\* ---- lengths ---------------------------------------------------------------
PLen(f) == Len(Pay[f.pl])
L4Len(f) == IF f.frag # 0 THEN PLen(f)
            ELSE CASE f.proto = "tcp"  -> 20 + OptLen(TcpOpt, f.topt) + PLen(f)
                   [] f.proto = "udp"  -> 8 + PLen(f)
                   [] f.proto = "icmp" -> 8 + PLen(f)
                   [] OTHER            -> PLen(f)
IpHdrLen(f) == 20 + OptLen(IpOpt, f.iopt)
L3Len(f) == CASE f.et = "ip"   -> IpHdrLen(f) + L4Len(f)
              [] f.et = "arp"  -> 28
              [] f.et = "bpdu" -> 38
              [] OTHER         -> PLen(f)
FrameLen(f) == 14 + (IF f.tag THEN 4 ELSE 0) + L3Len(f)

\* ---- bytes -----------------------------------------------------------------
U16(n) == <<n \div 256, n % 256>>

\* RFC 1071: ones-complement sum of the big-endian 16-bit words of s (an odd
\* trailing octet is padded with zero on the right), folded to 16 bits.
\* (Summed by halving, so that TLC's evaluation depth stays logarithmic.)
Word(s, k) == s[2 * k - 1] * 256 + (IF 2 * k <= Len(s) THEN s[2 * k] ELSE 0)
RECURSIVE SumW(_, _, _)
SumW(s, lo, hi) == IF lo > hi THEN 0
                   ELSE IF lo = hi THEN Word(s, lo)
                   ELSE LET mid == (lo + hi) \div 2 IN SumW(s, lo, mid) + SumW(s, mid + 1, hi)
Sum16(s) == SumW(s, 1, (Len(s) + 1) \div 2)
Fold16(x) == LET a == (x % 65536) + (x \div 65536) IN (a % 65536) + (a \div 65536)
Csum(s) == 65535 - Fold16(Sum16(s))
\* a block that contains its own checksum sums to 0xffff
Verifies(s) == Fold16(Sum16(s)) = 65535

ProtoNum(f) == CASE f.proto = "tcp" -> 6 [] f.proto = "udp" -> 17
                 [] f.proto = "icmp" -> 1 [] OTHER -> 253
Pseudo(f, l4len) == IpB[f.nsrc] \o IpB[f.ndst] \o <<0, ProtoNum(f)>> \o U16(l4len)

\* The blocks the transport checksums are computed over (checksum field zero).
TcpHead(f) == U16(f.tsrc) \o U16(f.tdst)
              \o <<1, 2, 3, 4, 5, 6, 7, 8, (5 + OptLen(TcpOpt, f.topt) \div 4) * 16, 24>> \o U16(1000)
TcpBlock(f) == Pseudo(f, 20 + OptLen(TcpOpt, f.topt) + PLen(f)) \o TcpHead(f) \o <<0, 0, 0, 0>>
               \o OptBytes(TcpOpt, f.topt) \o Pay[f.pl]
UdpHead(f) == U16(f.tsrc) \o U16(f.tdst) \o U16(8 + PLen(f))
UdpBlock(f) == Pseudo(f, 8 + PLen(f)) \o UdpHead(f) \o <<0, 0>> \o Pay[f.pl]
IcmpBlock(f) == <<8, 0, 0, 0>> \o U16(f.eid) \o <<0, 9>> \o Pay[f.pl]   \* echo request, sequence number 9

\* RFC 793: the checksum is the complement of the sum - also when that is 0x0000.
TcpBytes(f) == TcpHead(f) \o U16(Csum(TcpBlock(f))) \o <<0, 0>> \o OptBytes(TcpOpt, f.topt) \o Pay[f.pl]
\* RFC 768: "If the computed checksum is zero, it is transmitted as all ones"; an
\* all-zero field means that the sender generated no checksum (nocs).
UdpCsum(f) == LET c0 == Csum(UdpBlock(f)) IN IF c0 = 0 THEN 65535 ELSE c0
UdpBytes(f) == UdpHead(f) \o U16(IF f.nocs THEN 0 ELSE UdpCsum(f)) \o Pay[f.pl]
\* RFC 792: plain complement of the sum, 0x0000 included.
IcmpBytes(f) == <<8, 0>> \o U16(Csum(IcmpBlock(f))) \o U16(f.eid) \o <<0, 9>> \o Pay[f.pl]
L4Bytes(f) == IF f.frag # 0 THEN Pay[f.pl]
              ELSE CASE f.proto = "tcp"  -> TcpBytes(f)
                     [] f.proto = "udp"  -> UdpBytes(f)
                     [] f.proto = "icmp" -> IcmpBytes(f)
                     [] OTHER            -> Pay[f.pl]
FragWord(f) == CASE f.frag = 0 -> <<64, 0>> [] f.frag = 1 -> <<32, 0>> [] OTHER -> <<0, 185>>
\* version 4, IHL counts the options; total length covers header, options and payload;
\* the header checksum covers the options (RFC 791: plain complement of the sum, 0x0000 included)
IpHead(f) == <<64 + IpHdrLen(f) \div 4, f.tos>> \o U16(IpHdrLen(f) + L4Len(f)) \o U16(f.ipid) \o FragWord(f)
             \o <<64, ProtoNum(f)>>
IpTail(f) == IpB[f.nsrc] \o IpB[f.ndst] \o OptBytes(IpOpt, f.iopt)
IpBlock(f) == IpHead(f) \o <<0, 0>> \o IpTail(f)
IpHdr(f) == IpHead(f) \o U16(Csum(IpBlock(f))) \o IpTail(f)
ArpBytes == <<0, 1, 8, 0, 6, 4, 0, 1>> \o MacB.mb \o IpB.ia \o <<0, 0, 0, 0, 0, 0>> \o IpB.ib
BpduBytes == <<66, 66, 3>> \o [i \in 1..35 |-> i - 1]
L3Bytes(f) == CASE f.et = "ip"   -> <<8, 0>> \o IpHdr(f) \o L4Bytes(f)
                [] f.et = "arp"  -> <<8, 6>> \o ArpBytes
                [] f.et = "bpdu" -> U16(38) \o BpduBytes
                [] OTHER         -> <<136, 181>> \o Pay[f.pl]
TagBytes(f) == IF f.tag THEN <<129, 0>> \o U16(f.pcp * 8192 + f.cfi * 4096 + f.vid) ELSE <<>>
Enc(f) == MacB[f.dst] \o MacB[f.src] \o TagBytes(f) \o L3Bytes(f)

\* Latitude (DESIGN 2.8): a datagram that arrived WITHOUT a UDP checksum leaves with the
\* field still zero, or with the checksum of the datagram as it leaves filled in - both
\* are "valid"; the property does not say which.  Every other octet is fixed.
HasAlt(f) == f.nocs
AltOf(f) == [f EXCEPT !.nocs = FALSE]
EncAlts(f) == {Enc(f)} \cup (IF HasAlt(f) THEN {Enc(AltOf(f))} ELSE {})

\* ---- properties of the oracle itself (checked by EncTable.tla) --------------
EncOK(f) ==
  LET b  == Enc(f)
      o  == 14 + (IF f.tag THEN 4 ELSE 0)            \* offset of the L3 header
      l3 == SubSeq(b, o + 1, Len(b))
  IN /\ Len(b) = FrameLen(f)
     /\ \A i \in DOMAIN b : b[i] \in 0..255
     /\ (f.et = "ip" =>
           LET hl == (l3[1] % 16) * 4                                   \* header length from the IHL field
               l4 == SubSeq(l3, hl + 1, Len(l3)) IN
           /\ l3[1] \div 16 = 4 /\ hl = IpHdrLen(f) /\ hl \in 20..60
           /\ Verifies(SubSeq(l3, 1, hl))                               \* IPv4 header checksum (incl. options)
           /\ l3[11] * 256 + l3[12] # 65535                             \* the complement of a sum is 0xffff for an
                                                                        \* all-zero block only: "negative zero" never appears
           /\ l3[3] * 256 + l3[4] = Len(l3)                             \* total length
           /\ (f.frag = 0 /\ f.proto = "tcp" => Verifies(Pseudo(f, Len(l4)) \o l4) /\ l4[17] * 256 + l4[18] # 65535)
           /\ (f.frag = 0 /\ f.proto = "udp" =>                         \* zero iff no checksum was generated
                 LET c == l4[7] * 256 + l4[8] IN
                 IF f.nocs THEN c = 0 ELSE c # 0 /\ Verifies(Pseudo(f, Len(l4)) \o l4))
           /\ (f.frag = 0 /\ f.proto = "udp" => l4[5] * 256 + l4[6] = Len(l4))
           /\ l3[5] * 256 + l3[6] = f.ipid
           /\ (f.frag = 0 /\ f.proto = "tcp" =>                         \* data offset covers the options
                 (l4[13] \div 16) * 4 = 20 + OptLen(TcpOpt, f.topt) /\ (l4[13] \div 16) * 4 <= Len(l4))
           /\ (f.frag = 0 /\ f.proto = "icmp" => Verifies(l4) /\ l4[3] * 256 + l4[4] # 65535 /\ l4[5] * 256 + l4[6] = f.eid))
=============================================================================
