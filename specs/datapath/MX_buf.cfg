CONSTANTS
  NP = 3
  Shape <- MCShape
  RxShapes <- D_Shapes
  RxPorts = {1, 2}
  OutShapes = {}
  InPorts = {}
  FlowLists <- D_FlowLists
  OutLists = {}
  BufLists <- D_BufLists
  ModPorts = {}
  ModOps <- NoOps
  BadMods = {}
  BadOps = {}
  FragModes = {}
  DropCount <- Both
  MissLen = 128
  MaxHeld = 2
  D = 0
INIT Init
NEXT Next
VIEW viewE
INVARIANT TypeOK
PROPERTY NoEmitBlocked
PROPERTY IngressExcluded
PROPERTY NoRecvRespected
PROPERTY FloodRule
PROPERTY AllRule
PROPERTY InOrder
PROPERTY TableInOrder
PROPERTY MissRule
PROPERTY CountersExact
PROPERTY PortModExact
PROPERTY BufferedAsSent
ACTION_CONSTRAINT ExportT
CHECK_DEADLOCK FALSE
