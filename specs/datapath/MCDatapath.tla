---------------------------- MODULE MCDatapath ----------------------------
(* Constants of the model-checking / export configurations of Datapath.tla. *)
(* cfg files cannot hold records: every set is named here and substituted.  *)
EXTENDS Datapath, IOUtils

\* ---- frame shapes ------------------------------------------------------------
Ip(dst, src, tag, vid, pcp, cfi, tos, proto, frag, ts, td, pl) ==
  Mk(dst, src, tag, vid, pcp, cfi, "ip", tos, "ia", "ib", proto, frag, ts, td, pl)
NonIp(dst, src, tag, vid, pcp, et, pl) ==
  Mk(dst, src, tag, vid, pcp, 0, et, 0, "-", "-", "-", 0, 0, 0, pl)

BaseShape ==
  [u_tcp      |-> Ip("ma", "mb", FALSE, 0, 0, 0, 0, "tcp", 0, 1000, 2000, "p8"),
   t_tcp      |-> Ip("ma", "mb", TRUE, 4095, 7, 0, 0, "tcp", 0, 1000, 2000, "p8"),
   u_udp      |-> Ip("ma", "mb", FALSE, 0, 0, 0, 0, "udp", 0, 1000, 2000, "p8"),
   t_udp      |-> Ip("ma", "mb", TRUE, 100, 5, 0, 40, "udp", 0, 1000, 2000, "p8"),
   u_udp_ecn  |-> Ip("ma", "mb", FALSE, 0, 0, 0, 43, "udp", 0, 1000, 2000, "p8"),
   u_udp0     |-> Ip("ma", "mb", FALSE, 0, 0, 0, 0, "udp", 0, 65535, 1, "p0"),
   u_big      |-> Ip("ma", "mb", FALSE, 0, 0, 0, 0, "udp", 0, 1000, 2000, "p200"),
   u_icmp     |-> Ip("ma", "mb", FALSE, 0, 0, 0, 0, "icmp", 0, 0, 0, "p8"),
   t_icmp     |-> Ip("ma", "mb", TRUE, 1, 0, 0, 0, "icmp", 0, 0, 0, "p8"),
   u_ipx      |-> Ip("ma", "mb", FALSE, 0, 0, 0, 0, "x", 0, 0, 0, "p8"),
   u_tcp_odd  |-> Ip("ma", "mb", FALSE, 0, 0, 0, 0, "tcp", 0, 1000, 2000, "p7"),
   u_udp_odd  |-> Ip("ma", "mb", FALSE, 0, 0, 0, 0, "udp", 0, 1000, 2000, "p9"),
   u_icmp_odd |-> Ip("ma", "mb", FALSE, 0, 0, 0, 0, "icmp", 0, 0, 0, "p1"),
   t_cfi      |-> Ip("ma", "mb", TRUE, 100, 5, 1, 0, "udp", 0, 1000, 2000, "p8"),
   u_frag1    |-> Ip("ma", "mb", FALSE, 0, 0, 0, 0, "udp", 1, 0, 0, "pu1"),
   t_frag1t   |-> Ip("ma", "mb", TRUE, 100, 5, 0, 0, "tcp", 1, 0, 0, "pt1"),
   u_frag2    |-> Ip("ma", "mb", FALSE, 0, 0, 0, 0, "udp", 2, 0, 0, "p8"),
   \* IPv4 header options and TCP options
   u_udp_ipopt    |-> WithOpts(Ip("ma", "mb", FALSE, 0, 0, 0, 0, "udp", 0, 1000, 2000, "p8"), "ra", "-"),
   t_tcp_opts     |-> WithOpts(Ip("ma", "mb", TRUE, 100, 5, 0, 40, "tcp", 0, 1000, 2000, "p8"), "ts", "big"),
   u_tcp_tcpopt   |-> WithOpts(Ip("ma", "mb", FALSE, 0, 0, 0, 0, "tcp", 0, 1000, 2000, "p8"), "-", "mss"),
   u_tcp_eolopt   |-> WithOpts(Ip("ma", "mb", FALSE, 0, 0, 0, 0, "tcp", 0, 1000, 2000, "p0"), "ra", "eol"),
   u_tcp_opts_odd |-> WithOpts(Ip("ma", "mb", FALSE, 0, 0, 0, 3, "tcp", 0, 1000, 2000, "p7"), "nop", "mss"),
   u_icmp_ipopt   |-> WithOpts(Ip("ma", "mb", FALSE, 0, 0, 0, 0, "icmp", 0, 0, 0, "p9"), "rr", "-"),
   t_ipx_ipopt    |-> WithOpts(Ip("ma", "mb", TRUE, 1, 0, 0, 0, "x", 0, 0, 0, "p8"), "nop", "-"),
   u_frag2_ipopt  |-> WithOpts(Ip("ma", "mb", FALSE, 0, 0, 0, 0, "udp", 2, 0, 0, "p8"), "ra", "-"),
   u_frag1_ipopt  |-> WithOpts(Ip("ma", "mb", FALSE, 0, 0, 0, 0, "udp", 1, 0, 0, "pu1"), "ts", "-"),
   u_arp      |-> NonIp("bc", "mb", FALSE, 0, 0, "arp", "p0"),
   t_arp      |-> NonIp("bc", "mb", TRUE, 100, 5, "arp", "p0"),
   u_oth      |-> NonIp("ma", "mb", FALSE, 0, 0, "oth", "p7"),
   bpdu       |-> NonIp("stp", "mb", FALSE, 0, 0, "bpdu", "p0")]

\* ---- the action alphabet -----------------------------------------------------
Out(p)  == Act("output", p, 65535, "-")
OutC(m) == Act("output", CONTROLLER, m, "-")
O1 == Out(1)  O2 == Out(2)  O3 == Out(3)  O9 == Out(9)
OIN == Out(IN_PORT)  OFL == Out(FLOOD)  OALL == Out(ALL)  OTAB == Out(TABLE)
ONORM == Out(NORMAL)  OLOC == Out(LOCALPORT)  ONONE == Out(NONE)
OC == OutC(65535)  OC0 == OutC(0)  OC64 == OutC(64)
E2 == Act("enqueue", 2, 1, "-")
EIN == Act("enqueue", IN_PORT, 0, "-")
VID7 == Act("set_vlan_vid", 7, 0, "-")
VID0 == Act("set_vlan_vid", 0, 0, "-")
VIDM == Act("set_vlan_vid", 4095, 0, "-")
PCP5 == Act("set_vlan_pcp", 5, 0, "-")
PCP0 == Act("set_vlan_pcp", 0, 0, "-")
STRIP == Act("strip_vlan", 0, 0, "-")
SRC == Act("set_dl_src", 0, 0, "mc")
DST == Act("set_dl_dst", 0, 0, "md")
NSRC == Act("set_nw_src", 0, 0, "ic")
NDST == Act("set_nw_dst", 0, 0, "id")
TOS == Act("set_nw_tos", 184, 0, "-")
TOS0 == Act("set_nw_tos", 0, 0, "-")
TPS == Act("set_tp_src", 65535, 0, "-")
TPD == Act("set_tp_dst", 80, 0, "-")

\* ---- frames on the special values of the Internet checksum (round 5) ----------
\* The property demands valid checksums on EVERY frame.  The values on which
\* implementations of the ones-complement sum differ are hit by about one frame
\* in 65536, so they are SOLVED for here, with the operators Frames!Enc itself
\* uses: one 16-bit word of the frame (a transport port, the ICMP echo identifier,
\* the IPv4 identification) is chosen such that AFTER the rewrites rw the block
\* the checksum covers
\*   "zero"    sums to 0xffff: the computed checksum is 0 - UDP must transmit 0xffff
\*             (RFC 768), TCP, ICMP and the IPv4 header transmit 0x0000;
\*   "carry"   has a big-endian word sum that is exactly 0x10000 after ONE fold
\*             (a second end-around carry is needed);
\*   "carryle" the same for the sum taken over little-endian words (what an
\*             implementation summing in host order on a little-endian machine folds).
RECURSIVE ApplyAll(_, _)
ApplyAll(R, f) == IF R = <<>> THEN f ELSE ApplyAll(Tail(R), Apply(Head(R), f))
Fold1(x) == (x % 65536) + (x \div 65536)
Swap(w) == (w % 256) * 256 + (w \div 256)
SwapBytes(b) == LET e == IF Len(b) % 2 = 1 THEN b \o <<0>> ELSE b IN
                [i \in 1..Len(e) |-> IF i % 2 = 1 THEN e[i + 1] ELSE e[i - 1]]
\* the value of one word (zero in a block whose words sum to s0) that brings the block to ...
ToZero(s0) == 65535 - Fold16(s0)                                  \* ... a folded sum of 0xffff
\* (no LET name may be that of a VARIABLE of TraceDatapath - tid, l: TLC then takes every definition using
\*  it for state-dependent and re-evaluates MCShape at each reference)
ToCarry(s0) == LET hi16 == s0 \div 65536                           \* ... a once-folded sum of 0x10000
                   lo16 == s0 % 65536 IN
               IF hi16 + lo16 <= 65536 THEN 65536 - hi16 - lo16 ELSE 131071 - hi16 - lo16
Block(site, f) == CASE site = "udp" -> UdpBlock(f) [] site = "tcp" -> TcpBlock(f)
                    [] site = "icmp" -> IcmpBlock(f) [] OTHER -> IpBlock(f)
\* the word that is solved for (one the rewrites do not overwrite)
Steer(site, R) == CASE site = "ip" -> "ipid" [] site = "icmp" -> "eid"
                    [] OTHER -> IF \E i \in DOMAIN R : R[i].t = "set_tp_src" THEN "tdst" ELSE "tsrc"
Z(base, site, cls, rw) == [base |-> base, site |-> site, cls |-> cls, rw |-> rw]
Solve(z) == LET fld == Steer(z.site, z.rw)
                b   == Block(z.site, ApplyAll(z.rw, [z.base EXCEPT ![fld] = 0]))
                v   == CASE z.cls = "zero"  -> ToZero(Sum16(b))
                         [] z.cls = "carry" -> ToCarry(Sum16(b))
                         [] OTHER           -> Swap(ToCarry(Sum16(SwapBytes(b)))) IN
            [z.base EXCEPT ![fld] = v]
\* the checksum field of that site in the BYTES of the frame
CsumField(site, g) == LET b == Enc(g)
                          o == 14 + (IF g.tag THEN 4 ELSE 0)
                          k == CASE site = "ip" -> o + 11 [] site = "udp" -> o + IpHdrLen(g) + 7
                                 [] site = "tcp" -> o + IpHdrLen(g) + 17 [] OTHER -> o + IpHdrLen(g) + 3 IN
                      b[k] * 256 + b[k + 1]
\* does frame f, after the rewrites of z, sit on the value z names (checked by TLC, below)
Hits(z, f) == LET g == ApplyAll(z.rw, f)
                  b == Block(z.site, g) IN
              /\ FrameOK(g) /\ (z.site # "ip" => g.proto = z.site /\ g.frag = 0) /\ ~g.nocs
              /\ CASE z.cls = "zero"  -> /\ Csum(b) = 0
                                         /\ CsumField(z.site, g) = (IF z.site = "udp" THEN 65535 ELSE 0)
                   [] z.cls = "carry" -> Fold1(Sum16(b)) = 65536
                   [] OTHER           -> Fold1(Sum16(SwapBytes(b))) = 65536

ZSpec ==
  [\* UDP: computed checksum 0 -> 0xffff on the wire; as received / after each rewrite the checksum covers
   zu      |-> Z(Ip("ma", "mb", FALSE, 0, 0, 0, 0, "udp", 0, 1000, 2000, "p8"), "udp", "zero", <<>>),
   zu_tps  |-> Z(Ip("ma", "mb", TRUE, 100, 5, 0, 40, "udp", 0, 1000, 2000, "p8"), "udp", "zero", <<TPS>>),
   zu_tpd  |-> Z(Ip("ma", "mb", FALSE, 0, 0, 0, 0, "udp", 0, 1000, 2000, "p9"), "udp", "zero", <<TPD>>),
   zu_nsrc |-> Z(Ip("ma", "mb", FALSE, 0, 0, 0, 0, "udp", 0, 53, 2000, "p0"), "udp", "zero", <<NSRC>>),
   zu_ndst |-> Z(WithOpts(Ip("ma", "mb", FALSE, 0, 0, 0, 0, "udp", 0, 1000, 2000, "p8"), "ra", "-"),
                 "udp", "zero", <<NDST>>),
   zu_2    |-> Z(Ip("ma", "mb", TRUE, 5, 3, 0, 0, "udp", 0, 3000, 4000, "p7"), "udp", "zero", <<TPS, NDST>>),
   \* TCP: computed checksum 0 -> 0x0000 on the wire
   zt      |-> Z(Ip("ma", "mb", FALSE, 0, 0, 0, 0, "tcp", 0, 1000, 2000, "p8"), "tcp", "zero", <<>>),
   zt_tps  |-> Z(WithOpts(Ip("ma", "mb", FALSE, 0, 0, 0, 0, "tcp", 0, 1000, 2000, "p8"), "-", "mss"),
                 "tcp", "zero", <<TPS>>),
   zt_tpd  |-> Z(Ip("ma", "mb", TRUE, 4095, 7, 0, 0, "tcp", 0, 1000, 2000, "p8"), "tcp", "zero", <<TPD>>),
   zt_nsrc |-> Z(Ip("ma", "mb", FALSE, 0, 0, 0, 0, "tcp", 0, 1000, 2000, "p7"), "tcp", "zero", <<NSRC>>),
   zt_ndst |-> Z(Ip("ma", "mb", FALSE, 0, 0, 0, 0, "tcp", 0, 1000, 2000, "p0"), "tcp", "zero", <<NDST>>),
   zt_2    |-> Z(Ip("ma", "mb", FALSE, 0, 0, 0, 0, "tcp", 0, 3000, 4000, "p9"), "tcp", "zero", <<NSRC, TPD>>),
   \* ICMP (no rewrite reaches its checksum)
   zi      |-> Z(Ip("ma", "mb", FALSE, 0, 0, 0, 0, "icmp", 0, 0, 0, "p8"), "icmp", "zero", <<>>),
   zi_t    |-> Z(Ip("ma", "mb", TRUE, 1, 0, 0, 0, "icmp", 0, 0, 0, "p1"), "icmp", "zero", <<>>),
   \* IPv4 header checksum: as received / after each rewrite it covers
   zh      |-> Z(Ip("ma", "mb", FALSE, 0, 0, 0, 0, "x", 0, 0, 0, "p8"), "ip", "zero", <<>>),
   zh_nsrc |-> Z(Ip("ma", "mb", FALSE, 0, 0, 0, 0, "udp", 0, 1000, 2000, "p8"), "ip", "zero", <<NSRC>>),
   zh_ndst |-> Z(Ip("ma", "mb", TRUE, 100, 5, 0, 0, "tcp", 0, 1000, 2000, "p8"), "ip", "zero", <<NDST>>),
   zh_tos  |-> Z(Ip("ma", "mb", FALSE, 0, 0, 0, 3, "icmp", 0, 0, 0, "p8"), "ip", "zero", <<TOS>>),
   zh_frag |-> Z(WithOpts(Ip("ma", "mb", FALSE, 0, 0, 0, 40, "udp", 2, 0, 0, "p8"), "ra", "-"), "ip", "zero", <<TOS0>>),
   \* sums that need the second end-around carry
   fu_be   |-> Z(Ip("ma", "mb", FALSE, 0, 0, 0, 0, "udp", 0, 1000, 2000, "p200"), "udp", "carry", <<>>),
   fu_le   |-> Z(Ip("ma", "mb", FALSE, 0, 0, 0, 0, "udp", 0, 1000, 2000, "p200"), "udp", "carryle", <<>>),
   fu_le_n |-> Z(Ip("ma", "mb", FALSE, 0, 0, 0, 0, "udp", 0, 1000, 2000, "p9"), "udp", "carryle", <<NSRC>>),
   ft_be   |-> Z(Ip("ma", "mb", FALSE, 0, 0, 0, 0, "tcp", 0, 1000, 2000, "p8"), "tcp", "carry", <<>>),
   ft_le   |-> Z(Ip("ma", "mb", TRUE, 7, 0, 0, 0, "tcp", 0, 1000, 2000, "p7"), "tcp", "carryle", <<>>),
   fi_le   |-> Z(Ip("ma", "mb", FALSE, 0, 0, 0, 0, "icmp", 0, 0, 0, "p9"), "icmp", "carryle", <<>>),
   fh_be   |-> Z(Ip("ma", "mb", FALSE, 0, 0, 0, 0, "udp", 0, 1000, 2000, "p8"), "ip", "carry", <<>>),
   fh_le   |-> Z([Ip("ma", "mb", FALSE, 0, 0, 0, 0, "tcp", 0, 1000, 2000, "p8") EXCEPT !.nsrc = "ic"], "ip", "carryle", <<>>),
   fh_le_d |-> Z([Ip("ma", "mb", FALSE, 0, 0, 0, 0, "udp", 0, 1000, 2000, "p8") EXCEPT !.nsrc = "ic"], "ip", "carryle", <<NDST>>)]
ZShape == [s \in DOMAIN ZSpec |-> Solve(ZSpec[s])]
\* UDP datagrams sent without a checksum (field 0): see Frames!EncAlts for the latitude
NShape ==
  [nc_udp   |-> [Ip("ma", "mb", FALSE, 0, 0, 0, 0, "udp", 0, 1000, 2000, "p8") EXCEPT !.nocs = TRUE],
   nc_udp_t |-> [WithOpts(Ip("ma", "mb", TRUE, 100, 5, 0, 40, "udp", 0, 1000, 2000, "p9"), "ra", "-") EXCEPT !.nocs = TRUE]]

MCShape == BaseShape @@ ZShape @@ NShape
ASSUME \A s \in DOMAIN MCShape : FrameOK(MCShape[s])
ASSUME \A s \in DOMAIN ZSpec : Hits(ZSpec[s], ZShape[s]) \/ (PrintT(<<"MISS", s, ZShape[s]>>) /\ FALSE)
ASSUME PrintT(<<"S", ToJson(MCShape)>>)
ASSUME PrintT(<<"Z", ToJson([s \in DOMAIN ZSpec |-> [site |-> ZSpec[s].site, cls |-> ZSpec[s].cls,
                                                     rw |-> [i \in DOMAIN ZSpec[s].rw |-> ZSpec[s].rw[i].t]]])>>)

RewT == {VID7, VID0, VIDM, PCP5, PCP0, STRIP, SRC, DST, NSRC, NDST, TOS, TOS0, TPS, TPD}
RewQ == {VID7, PCP5, STRIP, SRC, DST, NSRC, NDST, TOS, TPS, TPD}
OutT == {O1, O2, O3, O9, OIN, OFL, OALL, OC, OC0, ONORM, OLOC, ONONE, E2, EIN}
OutQ == {O1, O2, OIN, OFL, OALL, OC, OC0, E2}

UpTo2(S) == {<<>>} \cup {<<a>> : a \in S} \cup {<<a, b>> : a \in S, b \in S}
Sandwich(O, R) == {<<a, r, b>> : a \in O, r \in R, b \in O}       \* output, rewrite, output
Seen2(R) == {<<r, s, O2>> : r \in R, s \in R}                     \* two rewrites, observed
\* packet-out lists: output:TABLE only as the last action (DESIGN: what the
\* rest of a list sees after TABLE differs between switches)
TableLast(L) == {A \in L : \A i \in 1..(Len(A) - 1) : A[i] # OTAB}
NoTable(L) == \A A \in L : \A i \in DOMAIN A : ~(A[i].t = "output" /\ A[i].n = TABLE)

BitOps(B) == {[mask |-> {b}, conf |-> {b}] : b \in B} \cup {[mask |-> {b}, conf |-> {}] : b \in B}
WideOps == {[mask |-> Bits, conf |-> {}],
            [mask |-> Bits, conf |-> {"NO_FLOOD", "NO_RECV"}],
            [mask |-> {"NO_FWD", "PORT_DOWN"}, conf |-> {"NO_FWD", "NO_FLOOD"}]}

Both == BOOLEAN
NoOps == [p \in {} |-> {}]
AllBitOps == [p \in 1..3 |-> BitOps(Bits)]

\* ---- A: every action list of length <= 2 (+ sandwiches, rewrite pairs) in a flow entry
AQ_FlowLists == UpTo2(RewQ \cup OutQ) \cup Sandwich({O2, O3}, RewQ) \cup Seen2(RewQ)
AQ_RxShapes == {"u_tcp", "t_udp", "u_icmp", "u_arp", "u_udp_ecn", "u_tcp_odd", "t_cfi",
                "u_udp_ipopt", "t_tcp_opts"}
AT_FlowLists == UpTo2(RewT \cup OutT) \cup Sandwich({O2, O3, OC}, RewT) \cup Seen2(RewT)
AT_RxShapes == DOMAIN BaseShape \ {"u_big"}

\* ---- B: every action list of length <= 2 in a PACKET_OUT (no flow entry: TABLE misses)
BQ_OutLists == TableLast(UpTo2(RewQ \cup OutQ \cup {OTAB}))
BQ_OutShapes == {"u_udp", "t_tcp", "u_arp", "u_tcp_opts_odd"}
BT_OutLists == TableLast(UpTo2(RewT \cup OutT \cup {OTAB}))
BT_OutShapes == {"u_udp", "t_tcp", "u_arp", "t_udp", "u_icmp", "u_oth", "u_udp_odd", "bpdu",
                 "u_udp_ipopt", "t_tcp_opts", "u_tcp_opts_odd", "u_icmp_ipopt"}

\* ---- T: output:TABLE against a table that holds an entry
T_FlowLists == {<<O3>>, <<DST, OFL>>, <<OC>>, <<VID7, OIN>>, <<>>}
T_OutLists == {<<OTAB>>, <<O2, OTAB>>, <<OC, OTAB>>} \cup {<<r, OTAB>> : r \in RewQ}
T_Shapes == {"u_udp", "t_tcp_opts"}

\* ---- TM: output:TABLE ANYWHERE in a packet-out list (round 7): the entry it meets rewrites the Ethernet header
\* AND headers below it (so that "some of the entry's rewrites reach the rest of the list" is neither of the two
\* readings Datapath!RunP leaves open), tagged and untagged frames, rewrites before / after TABLE, TABLE twice
TM_FlowLists == {<<DST, NDST, O2>>, <<SRC, VID7, TPD, O2>>, <<NSRC, TPS, TOS, STRIP, O2>>, <<PCP5, O2, NDST, O1>>,
                 <<DST, NDST, OC>>, <<O2>>}
TM_OutLists == {<<OTAB, O3>>, <<OTAB, OTAB>>, <<OTAB, OC>>, <<O1, OTAB, TOS, O3>>, <<OTAB, NDST, OTAB, O3>>,
                <<OTAB, SRC, NSRC, OFL>>}
               \cup {<<OTAB, r, O3>> : r \in RewQ} \cup {<<r, OTAB, O3>> : r \in {VID7, NDST, TPS}}
TM_Shapes == {"u_udp", "t_tcp_opts"}
\* ---- TB: ... and the frame a TABLE miss / the entry's output:CONTROLLER handed to the controller is released later:
\* every operation sequence of length D (the rewrites that FOLLOW output:TABLE in the list are history the abstract
\* state does not show)
TB_FlowLists == {<<DST, NDST, OC, O2>>}
TB_OutLists == {<<OTAB, TOS, O3>>, <<OTAB, NDST, TPD, O3>>, <<OTAB, VID7, O3>>, <<OC, OTAB, PCP5, SRC, O3>>}
TB_BufLists == {<<O2>>, <<OTAB, NSRC, O3>>}

\* ---- C: the port-flag product
CQ_FlowLists == {<<OFL>>, <<OALL>>, <<OC>>}
C_FlowLists == {<<OFL>>, <<OALL>>, <<O1>>, <<OIN>>, <<OC>>, <<O2, OFL>>}
C_OutLists == {<<OFL>>, <<OALL>>, <<O1>>, <<OIN>>, <<OTAB>>}
C_Shapes == {"u_udp", "bpdu"}
C_BadOps == {[mask |-> Bits, conf |-> {"PORT_DOWN", "NO_FLOOD", "NO_RECV_STP"}]}
\* quick: all 64 flag sets on port 1
CQ_ModOps == [p \in {1} |-> BitOps(Bits) \cup {[mask |-> {"NO_FWD", "PORT_DOWN"}, conf |-> {"NO_FWD", "NO_FLOOD"}]}]
\* thorough: x the 8 sets over {PORT_DOWN, NO_FLOOD, NO_FWD} on port 2
CT_ModOps == [p \in {1, 2} |-> IF p = 1 THEN BitOps(Bits) \cup WideOps
                                        ELSE BitOps({"PORT_DOWN", "NO_FLOOD", "NO_FWD"})]

\* ---- D: frames handed to the controller, then released from their buffer
D_FlowLists == {<<OC, DST, O2>>, <<VID7, OC, STRIP, OC0>>, <<OC64>>, <<NSRC, OC, TPS>>}
D_BufLists == {<<O3>>, <<NDST, OFL>>, <<OIN>>, <<OC>>, <<>>}
D_Shapes == {"u_udp", "t_tcp", "t_tcp_opts"}
DQ_Shapes == {"t_tcp_opts"}

\* ---- F: fragments and the OFPC_FRAG_DROP mode
F_FlowLists == {<<O2>>, <<TPS, NSRC, O2>>, <<DST, VID7, OFL, OC>>}
F_Shapes == {"u_frag1", "t_frag1t", "u_frag2", "u_udp", "u_arp", "u_frag2_ipopt", "u_frag1_ipopt"}
F_ModOps == [p \in {1} |-> BitOps({"NO_RECV"})]

\* ---- P: EVERY operation sequence of length D over a small alphabet (traffic, port-mod, traffic ...)
P_FlowLists == {<<OFL>>}
P_OutLists == {<<OFL>>, <<OALL>>, <<O1>>}
P_ModOps == [p \in {1} |-> BitOps({"NO_FLOOD", "NO_FWD", "PORT_DOWN"})]

\* ---- Z: frames on the special checksum values x the rewrites the checksums cover
ZRew == {NSRC, NDST, TPS, TPD, TOS, TOS0}
Z_Lists == {<<O2>>, <<OC>>, <<TPS, NDST, O2>>, <<NSRC, TPD, O2>>}
           \cup {<<r, O2>> : r \in RewT} \cup {<<O2, r, O3>> : r \in ZRew} \cup {<<r, OC>> : r \in ZRew}
           \cup {<<VID7, r, O2>> : r \in ZRew} \cup {<<r, STRIP, O2>> : r \in ZRew}
Z_OutLists == Z_Lists \cup {<<OTAB>>}
Z_Shapes == DOMAIN ZShape \cup DOMAIN NShape

\* ---- S: simulation (long behaviours); the flow lists come from the check
\* (seeded random lists of length <= 6 over the whole alphabet, passed as JSON)
EnvLists == LET x == JsonDeserialize(IOEnv.C12_LISTS) IN {x[i] : i \in DOMAIN x}
S_OutLists == {<<OFL>>, <<OTAB>>, <<VID7, O2, STRIP, O3>>, <<OC64, NSRC, TPD, OALL>>, <<SRC, OIN, E2>>,
               <<TOS, PCP5, OC, O1>>}
S_BufLists == {<<O3>>, <<NDST, OFL>>, <<OIN, STRIP, O2>>, <<>>}
S_Shapes == {"u_tcp", "t_udp", "u_icmp", "t_arp", "u_oth", "bpdu", "u_big", "u_udp_ecn", "u_frag2",
             "u_frag1", "t_cfi", "u_udp_odd", "u_udp_ipopt", "t_tcp_opts", "u_tcp_eolopt", "u_icmp_ipopt",
             "zu", "zu_nsrc", "zt", "zt_tpd", "zi", "zh", "zh_tos", "fu_le", "fh_le", "nc_udp"}

ASSUME NoTable(Z_Lists \cup AT_FlowLists \cup T_FlowLists \cup C_FlowLists \cup D_FlowLists \cup F_FlowLists)
=============================================================================
