CONSTANTS
  NP = 3
  Shape <- MCShape
  RxShapes <- C_Shapes
  RxPorts = {1, 2, 3}
  OutShapes = {"u_udp"}
  InPorts = {1, 2, 65535}
  FlowLists <- C_FlowLists
  OutLists <- C_OutLists
  BufLists = {}
  ModPorts = {1, 2}
  ModOps <- CT_ModOps
  BadMods = {"badport", "badhw"}
  BadOps <- C_BadOps
  FragModes = {}
  DropCount <- Both
  MissLen = 128
  MaxHeld = 0
  D = 0
INIT Init
NEXT Next
VIEW viewE
INVARIANT TypeOK
PROPERTY NoEmitBlocked
PROPERTY IngressExcluded
PROPERTY NoRecvRespected
PROPERTY FloodRule
PROPERTY AllRule
PROPERTY InOrder
PROPERTY TableInOrder
PROPERTY MissRule
PROPERTY CountersExact
PROPERTY PortModExact
PROPERTY BufferedAsSent
ACTION_CONSTRAINT ExportT
CHECK_DEADLOCK FALSE
