CONSTANTS
  NP = 3
  Shape <- MCShape
  RxShapes <- S_Shapes
  RxPorts = {1, 2, 3}
  OutShapes <- S_Shapes
  InPorts = {1, 3, 65535}
  FlowLists <- EnvLists
  OutLists <- S_OutLists
  BufLists <- S_BufLists
  ModPorts = {1, 2, 3}
  ModOps <- AllBitOps
  BadMods = {"badhw"}
  BadOps <- C_BadOps
  FragModes <- Both
  DropCount = {FALSE}
  MissLen = 128
  MaxHeld = 2
  D = 30
INIT Init
NEXT Next
INVARIANT Export
CHECK_DEADLOCK FALSE
