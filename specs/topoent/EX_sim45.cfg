CONSTANTS
  Dpids <- D2
  Ports <- P2
  Sts <- St2
  MaxConn = 8
  InitPorts <- IP2b
  Objs <- ObjsR
  ObjKind <- KindAll
  ObjId <- IdAll
  ObjTag <- TagAll
  Lis <- L2
  Hows <- HowsAll
  ConKinds <- KindsAll
  Halts <- HaltBoth
  Dev <- AllDev
  D = 45
INIT Init
NEXT NextS
CHECK_DEADLOCK FALSE
INVARIANT Export
