CONSTANTS
  Dpids <- D2
  Ports <- P1
  Sts <- St1
  MaxConn = 2
  InitPorts <- IP1
  Objs <- NoObjs
  ObjKind <- KindAll
  ObjId <- IdAll
  ObjTag <- TagAll
  Lis <- NoLis
  Hows <- Hows2
  ConKinds <- KindsP
  Halts <- HaltBoth
  Dev <- AllDev
  D = 30
INIT Init
NEXT Next
CHECK_DEADLOCK FALSE
VIEW viewE
ACTION_CONSTRAINT ExportT
