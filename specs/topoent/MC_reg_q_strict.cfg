CONSTANTS
  Dpids <- NoDpids
  Ports <- P1
  Sts <- St1
  MaxConn = 0
  InitPorts <- IP1
  Objs <- ObjsS
  ObjKind <- KindAll
  ObjId <- IdAll
  ObjTag <- TagAll
  Lis <- L1
  Hows <- HowsAll
  ConKinds <- KindsP
  Halts <- HaltBoth
  Dev <- DevNone
  D = 0
INIT Init
NEXT Next
CHECK_DEADLOCK FALSE
VIEW view
INVARIANT TypeOK
INVARIANT UniqueIds
INVARIANT JoinLeaveExact
INVARIANT NeverToldTwice
INVARIANT ConnLiveOrNone
INVARIANT BoundLive
INVARIANT PortsWithinView
INVARIANT AdjOnPorts
PROPERTY RegistryExact
PROPERTY RefusedIsSilent
PROPERTY EventsTyped
PROPERTY OneEntityPerDpid
PROPERTY LinkStepsSound
PROPERTY ReRaisedAtMostOnce
INVARIANT PromiseKept
INVARIANT ConnTracksNexus
INVARIANT ArmedIffDown
INVARIANT BoundIsConn
INVARIANT PortsFollowHistory
INVARIANT AdjSound
INVARIANT GoneIsInert
INVARIANT AdjBacked
PROPERTY ListenNeverFails
PROPERTY ConnectGivesEntity
PROPERTY ReRaisedOnce
