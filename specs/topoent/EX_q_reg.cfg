CONSTANTS
  Dpids <- NoDpids
  Ports <- P1
  Sts <- St1
  MaxConn = 0
  InitPorts <- IP1
  Objs <- ObjsS
  ObjKind <- KindAll
  ObjId <- IdAll
  ObjTag <- TagAll
  Lis <- L1
  Hows <- HowsAll
  ConKinds <- KindsP
  Halts <- HaltBoth
  Dev <- AllDev
  D = 30
INIT Init
NEXT Next
CHECK_DEADLOCK FALSE
VIEW viewE
ACTION_CONSTRAINT ExportT
