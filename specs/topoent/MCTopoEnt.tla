---- MODULE MCTopoEnt ----
EXTENDS TopoEnt
DevNone == {}
NoObjs == {}
NoLis == {}
NoDpids == {}
\* generic entity objects: two hosts, two generic switches, a plain entity, two controllers that share a name
ObjsR == {"h1", "h2", "gs", "gs2", "e1", "c1", "c2"}
KindAll == [o \in ObjsR |-> CASE o \in {"h1", "h2"} -> "host" [] o \in {"gs", "gs2"} -> "switch" [] OTHER -> "ent"]
IdAll == [o \in ObjsR |-> IF o \in {"c1", "c2"} THEN "ctl" ELSE o]
TagAll == [o \in ObjsR |-> IF o = "c2" THEN 2 ELSE 1]
ObjsS == {"h1", "gs", "c1", "c2"}
ObjsG == {"gs"}
HowsAll == {"cls", "cls0", "name0", "auto"}
Hows2 == {"cls0", "name0"}
KindsAll == {"PacketIn", "BarrierIn", "FlowRemoved"}
HaltBoth == {FALSE, TRUE}
HaltNo == {FALSE}
KindsP == {"PacketIn"}
KindsF == {"FlowRemoved"}
P1 == {1}
P2 == {1, 2}
St1 == {0}
St2 == {0, 1}
\* features replies
IP1 == {[p \in P1 |-> 0]}
IP1b == {[p \in P1 |-> 0], [p \in P1 |-> NoPort]}
IP2 == {[p \in P2 |-> 0], [p \in P2 |-> IF p = 1 THEN 0 ELSE NoPort]}
IP2a == {[p \in P2 |-> 0]}
IP2b == {[p \in P2 |-> 0], [p \in P2 |-> IF p = 1 THEN 1 ELSE NoPort], [p \in P2 |-> NoPort]}
D1 == {1}
D2 == {1, 2}
L1 == {1}
L2 == {1, 2}
\* the intended design with exactly one deviation switched on (DEV_Only*.cfg: which property does it break?)
OnlyRejoinRefused == {"RejoinRefused"}
OnlyStaleDown == {"StaleDown"}
OnlyModUnknown == {"ModUnknown"}
OnlyAddKnown == {"AddKnown"}
OnlyFlowRemAbort == {"FlowRemAbort"}
OnlyByNameNoPromise == {"ByNameNoPromise"}
OnlyListenCrash == {"ListenCrash"}
OnlyLinkRemoveIgnored == {"LinkRemoveIgnored"}
\* state constraint of the two-dpid / two-port model: at most two links known to discovery at a time
LinkBound == Cardinality(links) <= 2
====
