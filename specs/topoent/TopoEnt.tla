------------------------------ MODULE TopoEnt ------------------------------
(* X19: the topology entity registry (pox/topology/topology.py, Topology)   *)
(* and the OpenFlow topology bridge (pox/openflow/topology.py,              *)
(* OpenFlowTopology / OpenFlowSwitch / OpenFlowPort).                       *)
(*                                                                          *)
(* Abstract state                                                           *)
(*   registry   greg (generic entities registered: hosts, generic switches, *)
(*              plain entities, controllers) and, per datapath id s, reg[s] *)
(*              (a switch entity of generation gen[s] is registered).       *)
(*   per registered switch entity: conn (its connection attribute, 0 =      *)
(*              None), bound (the TCP sessions whose events it listens to), *)
(*              armed (its reconnect timer is running), ports (number ->    *)
(*              state field of the OpenFlowPort, NoPort = absent), adj      *)
(*              (per port: the switch entities the port is adjacent to).    *)
(*   environment: TCP sessions 1..ncon (cdp = their dpid, clive), nexus     *)
(*              (which session core.openflow has registered per dpid),      *)
(*              pview (ghost: per live session the port view the            *)
(*              connection itself keeps - features reply + notifications,   *)
(*              exactly what C17 / PortView.tla states), links (discovery's *)
(*              adjacency: directed links a.p -> b.q).                      *)
(*   An entity that LEFT the registry while it still listened to a live     *)
(*   session (possible only through StaleDown) goes on handling that        *)
(*   session's events: bound / ports / armed of the dpid then describe that *)
(*   unregistered object (reg[s] = FALSE) until a new entity is created.    *)
(*   listeners: late[k] (how a late SwitchJoin listener subscribed),        *)
(*              poisoned (see ListenCrash).                                 *)
(*                                                                          *)
(* One action per operation / linearization point of the code:              *)
(*   AddObj / RemoveObj      Topology.addEntity / removeEntity              *)
(*   Listen                  Topology.addListener & friends (the SwitchJoin *)
(*                           promise, _fulfill_SwitchJoin_promise)          *)
(*   Connect                 ConnectionUp of a (new) TCP session of a dpid  *)
(*                           (_handle_openflow_ConnectionUp, _setConnection)*)
(*   Down                    the session is lost: ConnectionDown on the     *)
(*                           nexus (discovery drops the dpid's links, the   *)
(*                           bridge clears the attribute) and then on the   *)
(*                           connection (_handle_con_ConnectionDown ->      *)
(*                           _setConnection(None): timer armed)             *)
(*   Expire                  RECONNECT_TIMEOUT: _timer_ReconnectTimeout     *)
(*   PortStatus              _handle_con_PortStatus                         *)
(*   ConEvent                PacketIn / BarrierIn / FlowRemoved re-raised   *)
(*   Probe                   a discovery probe arrives as packet-in:        *)
(*                           discovery raises LinkEvent(added) (or not),    *)
(*                           _handle_openflow_discovery_LinkEvent           *)
(*   LinkTimeout             discovery's expiry check drops every link:     *)
(*                           LinkEvent(removed) each                        *)
(*                                                                          *)
(* Every action logs what observers see during the step: `log` (events      *)
(* delivered to a listener registered on the Topology for all its events,   *)
(* to listeners attached to every switch entity when it joins, and to a     *)
(* listener registered on every connection after its handshake - i.e. AFTER *)
(* the entity's own listeners), `told` (what late listeners were told),     *)
(* `exc` (exceptions raised to the caller or swallowed by                   *)
(* raiseEventNoErrors) and `st`, the registry / entity state as the public  *)
(* API shows it after the step.                                             *)
(*                                                                          *)
(* The code deviates from its documented intent in eight places.  Each is a *)
(* NAMED deviation that is switched on by membership in the constant Dev;   *)
(* Dev = {} is the intended design (all properties hold), Dev = AllDev is   *)
(* the code as built (bound to the real code by replay and trace            *)
(* validation; the surviving properties hold).                              *)
(*   RejoinRefused      a dpid that left (Expire) can never join again:     *)
(*                      Entity._all_ids keeps its id, OpenFlowSwitch(dpid)  *)
(*                      raises inside the ConnectionUp handler              *)
(*   StaleDown          ConnectionDown of a SUPERSEDED session of the dpid  *)
(*                      clears the entity's connection attribute although   *)
(*                      the newer session is alive (no timer is armed)      *)
(*   ModUnknown         port status MODIFY for a port the entity does not   *)
(*                      have raises KeyError: port not learnt, event not    *)
(*                      re-raised, later listeners of the connection skipped*)
(*   AddKnown           port status ADD for a port the entity has raises    *)
(*                      AssertionError: description not updated, ditto      *)
(*   FlowRemAbort       every FLOW_REMOVED raises AttributeError            *)
(*                      (self.flowTable) after the re-raise: later          *)
(*                      listeners of the connection are skipped             *)
(*   ByNameNoPromise    a SwitchJoin listener subscribed BY NAME is not     *)
(*                      told about the switches that already joined         *)
(*   ListenCrash        Topology.addListener's default priority is None:    *)
(*                      a second listener of an event type makes the sort   *)
(*                      of the handler list raise TypeError (None < int);   *)
(*                      the handler stays subscribed, and every later       *)
(*                      subscription to that event type raises too          *)
(*   LinkRemoveIgnored  LinkEvent(removed) is ignored when one of the two   *)
(*                      ports (or switches) is gone, so the OTHER port      *)
(*                      keeps its adjacency - which can then outlive the    *)
(*                      entity it refers to                                 *)
EXTENDS Naturals, Sequences, FiniteSets, TLC, Json

CONSTANTS Dpids,      \* datapath ids (small naturals)
          Ports,      \* port numbers
          Sts,        \* values of the state field of a port description
          MaxConn,    \* TCP sessions over the whole behaviour (ids 1..MaxConn in order of appearance)
          InitPorts,  \* port sets a features reply may report: functions [Ports -> Sts \cup {NoPort}]
          Objs,       \* generic entity objects
          ObjKind,    \* [Objs -> {"switch", "host", "ent"}]
          ObjId,      \* [Objs -> id]  (two objects may share an id: duplicate ids are refused)
          ObjTag,     \* [Objs -> 1..]  tells objects with one id apart
          Lis,        \* late listener slots
          Hows,       \* ways a late listener subscribes: "cls" addListener(SwitchJoin, h); "cls0" the same with
                      \* an explicit priority; "name0" addListenerByName("SwitchJoin", h, priority = 0);
                      \* "auto" topology.addListeners(sink) with a _handle_SwitchJoin method
          ConKinds,   \* connection events re-raised on the entity: subset of {"PacketIn","BarrierIn","FlowRemoved"}
          Halts,      \* subset of BOOLEAN: whether the application's listener ON THE ENTITY halts the re-raised event
          Dev,        \* deviations switched on
          D           \* 0: no history (model checking); > 0: history kept for export, at most D steps

NoPort == 9
AllDev == {"RejoinRefused", "StaleDown", "ModUnknown", "AddKnown", "FlowRemAbort", "ByNameNoPromise",
           "ListenCrash", "LinkRemoveIgnored"}
Has(x) == x \in Dev
Conns == 1..MaxConn
DId(s) == "d" \o ToString(s)
Slot == Sts \cup {NoPort}
NoPorts == [p \in Ports |-> NoPort]
NoAdj == [p \in Ports |-> {}]
Refs == [d : Dpids, g : 1..(MaxConn + 1)]
LinkT == [a : Dpids, p : Ports, b : Dpids, q : Ports]

VARIABLES greg,      \* SUBSET Objs: generic objects in the registry
          gen,       \* [Dpids -> Nat]: switch entities created so far for the dpid
          reg,       \* [Dpids -> BOOLEAN]: the entity of generation gen[s] is registered
          conn,      \* [Dpids -> 0..MaxConn]
          bound,     \* [Dpids -> SUBSET Conns]
          armed,     \* [Dpids -> BOOLEAN]
          ports,     \* [Dpids -> [Ports -> Slot]]
          adj,       \* [Dpids -> [Ports -> SUBSET Refs]]
          ncon,      \* sessions so far
          cdp,       \* [Conns -> Dpids \cup {0}]
          clive,     \* [Conns -> BOOLEAN]
          nexus,     \* [Dpids -> 0..MaxConn]
          pview,     \* [Conns -> [Ports -> Slot]]   ghost (what the connection's own port view is)
          links,     \* SUBSET LinkT
          late,      \* [Lis -> Hows \cup {"off"}]
          poisoned,  \* BOOLEAN
          jset,      \* ghost: entities whose join event was seen and whose leave event was not
          jbad,      \* ghost: a join event for a joined entity / a leave event for one that is not
          knows,     \* ghost: [Lis -> switch entities the listener was told about and that have not left since]
          ktwice,    \* ghost: a late listener was told twice about one entity
          multi,     \* ghost: some dpid has had two live sessions at the same time
          last,      \* observation of the last action
          hist       \* export only
svars == <<greg, gen, reg, conn, bound, armed, ports, adj, ncon, cdp, clive, nexus, pview, links, late, poisoned>>
gvars == <<jset, jbad, knows, ktwice, multi>>
vars == <<svars, gvars, last, hist>>
view == <<svars, gvars>>   \* no property mentions the unprimed `last`; action properties are evaluated on every generated transition
viewE == <<svars>>

----------------------------------------------------------------------------
(* What the public API shows.                                               *)
Key(id, kind, tag) == [id |-> id, kind |-> kind, tag |-> tag]
SwKey(s) == Key(DId(s), "switch", gen[s])
ObjKey(o) == Key(ObjId[o], ObjKind[o], ObjTag[o])
RegSw == {s \in Dpids : reg[s]}
RegView == {ObjKey(o) : o \in greg} \cup {SwKey(s) : s \in RegSw}
RegIds == {k.id : k \in RegView}
SwitchKeys == {k \in RegView : k.kind = "switch"}
RefLive(r) == reg[r.d] /\ gen[r.d] = r.g
AdjView(s) == UNION {{[p |-> p, d |-> r.d, g |-> r.g, live |-> RefLive(r)] : r \in adj[s][p]} : p \in Ports}
SwObs(s) == [d |-> s, gen |-> gen[s], conn |-> conn[s], armed |-> armed[s],
             ports |-> {[p |-> p, st |-> ports[s][p]] : p \in {q \in Ports : ports[s][q] # NoPort}},
             adj |-> AdjView(s)]
\* ztimers: dpids whose entity has left the registry but has a reconnect timer running again
StateView == [ents |-> RegView, sws |-> {SwObs(s) : s \in RegSw}, links |-> links,
              ztimers |-> {s \in Dpids : ~reg[s] /\ armed[s]}]

\* One delivered event.  src: who received it ("topo" / "sw" / "con", see the header).  Topology events: id / n = the
\* entity's id and tag (generation), an Update carries the name of the event it wraps in id.  Entity events: id / n
\* = the entity, c = the session the event came from; PortStatus carries the reason in id and the port in n.
\* Connection events: c = the session; n = 1 iff the listener behind the entity's sees the event marked as halted
\* (never: the entity clears the mark after re-raising).
E(src, ev, id, n, c) == [src |-> src, ev |-> ev, id |-> id, n |-> n, c |-> c]
JoinEv(kind) == CASE kind = "switch" -> "SwitchJoin" [] kind = "host" -> "HostJoin" [] OTHER -> "EntityJoin"
LeaveEv(kind) == CASE kind = "switch" -> "SwitchLeave" [] kind = "host" -> "HostLeave" [] OTHER -> "EntityLeave"
JoinNames == {"SwitchJoin", "HostJoin", "EntityJoin"}
LeaveNames == {"SwitchLeave", "HostLeave", "EntityLeave"}
TopoJoin(k) == <<E("topo", JoinEv(k.kind), k.id, k.tag, 0), E("topo", "Update", JoinEv(k.kind), 0, 0)>>
TopoLeave(k) == <<E("topo", LeaveEv(k.kind), k.id, k.tag, 0), E("topo", "Update", LeaveEv(k.kind), 0, 0)>>
OnLis == {k \in Lis : late[k] # "off"}
Told(K, keys) == {[k |-> k, id |-> x.id, tag |-> x.tag] : k \in K, x \in keys}

NoObs == [a |-> "Init", args |-> [x |-> 0], exp |-> [x |-> 0]]

Init == /\ greg = {}
        /\ gen = [s \in Dpids |-> 0] /\ reg = [s \in Dpids |-> FALSE]
        /\ conn = [s \in Dpids |-> 0] /\ bound = [s \in Dpids |-> {}] /\ armed = [s \in Dpids |-> FALSE]
        /\ ports = [s \in Dpids |-> NoPorts] /\ adj = [s \in Dpids |-> NoAdj]
        /\ ncon = 0 /\ cdp = [c \in Conns |-> 0] /\ clive = [c \in Conns |-> FALSE]
        /\ nexus = [s \in Dpids |-> 0] /\ pview = [c \in Conns |-> NoPorts]
        /\ links = {}
        /\ late = [k \in Lis |-> "off"] /\ poisoned = FALSE
        /\ jset = {} /\ jbad = FALSE /\ knows = [k \in Lis |-> {}] /\ ktwice = FALSE /\ multi = FALSE
        /\ last = NoObs /\ hist = <<>>

\* keys of the entities a log announces as joined / left
LogKeys(lg, names) == {[id |-> lg[i].id, tag |-> lg[i].n] : i \in {j \in DOMAIN lg : lg[j].src = "topo" /\ lg[j].ev \in names}}
Count(lg, names, key) == Cardinality({i \in DOMAIN lg : lg[i].src = "topo" /\ lg[i].ev \in names
                                                        /\ lg[i].id = key.id /\ lg[i].n = key.tag})

\* the last conjunct of every action: observation + ghosts (the state variables are primed by then)
Fin(a, args, lg, td, ex) ==
  LET exp == [log |-> lg, told |-> td, exc |-> ex, st |-> StateView']
      J == LogKeys(lg, JoinNames)
      L == LogKeys(lg, LeaveNames)
      cur == {[id |-> k.id, tag |-> k.tag] : k \in jset} IN
  /\ last' = [a |-> a, args |-> args, exp |-> exp]
  /\ hist' = IF D = 0 THEN hist ELSE Append(hist, [a |-> a, args |-> args, exp |-> exp])
  /\ jset' = (cur \cup J) \ L
  /\ jbad' = (jbad \/ (J \cap cur # {}) \/ (L \ (cur \cup J) # {})
                   \/ (\E k \in J \cup L : Count(lg, JoinNames, k) > 1 \/ Count(lg, LeaveNames, k) > 1))
  /\ knows' = [k \in Lis |-> (knows[k] \ L) \cup {[id |-> t.id, tag |-> t.tag] : t \in {u \in td : u.k = k}}]
  /\ ktwice' = (ktwice \/ \E t \in td : [id |-> t.id, tag |-> t.tag] \in knows[t.k])
  /\ multi' = (multi \/ \E c1, c2 \in Conns : c1 # c2 /\ clive'[c1] /\ clive'[c2] /\ cdp'[c1] = cdp'[c2])

UnchEnt == UNCHANGED <<gen, reg, conn, bound, armed, ports, adj>>
UnchEnv == UNCHANGED <<ncon, cdp, clive, nexus, pview, links>>
UnchLis == UNCHANGED <<late, poisoned>>

----------------------------------------------------------------------------
(* The registry proper.                                                     *)

\* Topology.addEntity(o).  An id that is present is refused (RuntimeError), nothing is raised.
AddObj(o) ==
  /\ UnchEnt /\ UnchEnv /\ UnchLis
  /\ IF ObjId[o] \in RegIds
     THEN /\ UNCHANGED greg
          /\ Fin("AddObj", [o |-> o], <<>>, {}, {"RuntimeError"})
     ELSE /\ greg' = greg \cup {o}
          /\ Fin("AddObj", [o |-> o], TopoJoin(ObjKey(o)),
                 IF ObjKind[o] = "switch" THEN Told(OnLis, {ObjKey(o)}) ELSE {}, {})

\* Topology.removeEntity(o).  Removing what is not there raises KeyError, nothing is raised.  (Removing an
\* object while ANOTHER object is registered under its id is left out: the code deletes the other one.)
RemoveObj(o) ==
  /\ UnchEnt /\ UnchEnv /\ UnchLis
  /\ (o \notin greg => ObjId[o] \notin RegIds)
  /\ IF o \in greg
     THEN /\ greg' = greg \ {o}
          /\ Fin("RemoveObj", [o |-> o], TopoLeave(ObjKey(o)), {}, {})
     ELSE /\ UNCHANGED greg
          /\ Fin("RemoveObj", [o |-> o], <<>>, {}, {"KeyError"})

\* A listener for SwitchJoin is added late.  The promise: it is told about every switch that is registered.
Listen(k, how) ==
  /\ late[k] = "off"
  /\ UnchEnt /\ UnchEnv /\ UNCHANGED greg
  /\ late' = [late EXCEPT ![k] = how]
  /\ LET crash == Has("ListenCrash") /\ (how = "cls" \/ poisoned)
         promise == ~(how = "name0" /\ Has("ByNameNoPromise")) IN
     /\ poisoned' = (poisoned \/ (Has("ListenCrash") /\ how = "cls"))
     /\ Fin("Listen", [k |-> k, how |-> how], <<>>,
            IF promise THEN Told({k}, SwitchKeys) ELSE {},
            IF crash THEN {"TypeError"} ELSE {})

----------------------------------------------------------------------------
(* Link events (discovery -> bridge).                                       *)
Link(a, p, b, q) == [a |-> a, p |-> p, b |-> b, q |-> q]
BothThere(l) == reg[l.a] /\ reg[l.b] /\ ports[l.a][l.p] # NoPort /\ ports[l.b][l.q] # NoPort
\* LinkEvent(added): both switch entities and both ports must exist; each port then has exactly that neighbour
AdjAdd(A, l) ==
  IF ~BothThere(l) THEN A
  ELSE LET A1 == [A EXCEPT ![l.a][l.p] = {[d |-> l.b, g |-> gen[l.b]]}] IN
       [A1 EXCEPT ![l.b][l.q] = {[d |-> l.a, g |-> gen[l.a]]}]
\* LinkEvent(removed) for every link of R (the removals commute).  What a removal takes away from port (s, p):
Takes(l, s, p, r) ==
  IF Has("LinkRemoveIgnored")
  THEN BothThere(l) /\ ((s = l.a /\ p = l.p /\ r = [d |-> l.b, g |-> gen[l.b]])
                        \/ (s = l.b /\ p = l.q /\ r = [d |-> l.a, g |-> gen[l.a]]))
  ELSE \* intended: each end that still exists forgets the other end
       (s = l.a /\ p = l.p /\ r.d = l.b) \/ (s = l.b /\ p = l.q /\ r.d = l.a)
AdjRemove(A, R) ==
  [s \in Dpids |-> [p \in Ports |-> {r \in A[s][p] : ~\E l \in R : Takes(l, s, p, r)}]]

----------------------------------------------------------------------------
(* The OpenFlow bridge.                                                     *)

\* A (new) TCP session of dpid s completes its handshake with port set P: ConnectionUp.
Connect(s, P) ==
  LET c == ncon + 1 IN
  /\ ncon < MaxConn
  /\ ncon' = c /\ cdp' = [cdp EXCEPT ![c] = s] /\ clive' = [clive EXCEPT ![c] = TRUE]
  /\ nexus' = [nexus EXCEPT ![s] = c] /\ pview' = [pview EXCEPT ![c] = P]
  /\ UNCHANGED <<greg, links>> /\ UnchLis
  /\ IF reg[s]
     THEN \* the entity is re-used: new connection, the listeners on the connection it POINTS TO are removed,
          \* timer cancelled, ports = the features reply (ports that persist keep their adjacency)
          /\ UNCHANGED <<gen, reg>>
          /\ conn' = [conn EXCEPT ![s] = c]
          /\ bound' = [bound EXCEPT ![s] = (IF conn[s] # 0 THEN @ \ {conn[s]} ELSE @) \cup {c}]
          /\ armed' = [armed EXCEPT ![s] = FALSE]
          /\ ports' = [ports EXCEPT ![s] = P]
          /\ adj' = [adj EXCEPT ![s] = [p \in Ports |-> IF P[p] # NoPort /\ ports[s][p] # NoPort THEN @[p] ELSE {}]]
          /\ Fin("Connect", [s |-> s, ports |-> P], <<E("sw", "SwitchConnectionUp", DId(s), gen[s], c)>>, {}, {})
     ELSE IF gen[s] > 0 /\ Has("RejoinRefused")
     THEN /\ UnchEnt
          /\ Fin("Connect", [s |-> s, ports |-> P], <<>>, {}, {"ConnectionUp:Exception"})
     ELSE /\ gen' = [gen EXCEPT ![s] = @ + 1] /\ reg' = [reg EXCEPT ![s] = TRUE]
          /\ conn' = [conn EXCEPT ![s] = c] /\ bound' = [bound EXCEPT ![s] = {c}]
          /\ armed' = [armed EXCEPT ![s] = FALSE]
          /\ ports' = [ports EXCEPT ![s] = P] /\ adj' = [adj EXCEPT ![s] = NoAdj]
          /\ LET k == Key(DId(s), "switch", gen[s] + 1) IN
             Fin("Connect", [s |-> s, ports |-> P],
                 TopoJoin(k) \o <<E("sw", "SwitchJoin", DId(s), gen[s] + 1, 0)>>, Told(OnLis, {k}), {})

\* Session c is lost.  ConnectionDown on the nexus: discovery forgets every link of the dpid (LinkEvent(removed)
\* each, handled by the bridge while the entity is still as it was); the bridge clears the connection attribute
\* (StaleDown: even when c is not the connection the entity has).  Then ConnectionDown on c itself: an entity
\* that listens to c arms its reconnect timer and raises SwitchConnectionDown.
Down(c) ==
  LET s == cdp[c]
      gone == {l \in links : l.a = s \/ l.b = s}
      mine == c \in bound[s] IN           \* (an entity that left the registry may still listen)
  /\ c \in 1..ncon /\ clive[c]
  /\ clive' = [clive EXCEPT ![c] = FALSE] /\ pview' = [pview EXCEPT ![c] = NoPorts]
  /\ nexus' = [nexus EXCEPT ![s] = IF @ = c THEN 0 ELSE @]
  /\ links' = links \ gone
  /\ adj' = AdjRemove(adj, gone)
  /\ UNCHANGED <<greg, gen, reg, ports, ncon, cdp>> /\ UnchLis
  /\ conn' = [conn EXCEPT ![s] = IF reg[s] /\ (c = @ \/ Has("StaleDown") \/ mine) THEN 0 ELSE @]
  /\ bound' = [bound EXCEPT ![s] = @ \ {c}]
  /\ armed' = [armed EXCEPT ![s] = IF mine THEN TRUE ELSE @]
  /\ Fin("Down", [c |-> c],
         (IF mine THEN <<E("sw", "SwitchConnectionDown", DId(s), gen[s], 0)>> ELSE <<>>)
           \o <<E("con", "ConnectionDown", "", 0, c)>>, {}, {})

\* RECONNECT_TIMEOUT after the entity lost its connection: it leaves the registry.  (If it still listens to another
\* live session it goes on handling that session's events.)  The timer of an entity that has ALREADY left - armed
\* again when such a session is lost - makes removeEntity raise KeyError.
Expire(s) ==
  /\ armed[s]
  /\ armed' = [armed EXCEPT ![s] = FALSE]
  /\ UNCHANGED <<greg, gen, bound>> /\ UnchEnv /\ UnchLis
  /\ IF reg[s]
     THEN /\ reg' = [reg EXCEPT ![s] = FALSE]
          /\ conn' = [conn EXCEPT ![s] = 0] /\ adj' = [adj EXCEPT ![s] = NoAdj]
          /\ ports' = [ports EXCEPT ![s] = IF bound[s] = {} THEN NoPorts ELSE @]
          /\ Fin("Expire", [s |-> s], TopoLeave(SwKey(s)) \o <<E("sw", "SwitchLeave", DId(s), gen[s], 0)>>, {}, {})
     ELSE /\ UNCHANGED <<reg, conn, adj>>
          /\ ports' = [ports EXCEPT ![s] = IF bound[s] = {} THEN NoPorts ELSE @]
          /\ Fin("Expire", [s |-> s], <<>>, {}, {"KeyError"})

\* A port-status notification (reason r, port p, state st) arrives on session c.
PortStatus(c, r, p, st) ==
  LET s == cdp[c]
      mine == c \in bound[s]
      has == ports[s][p] # NoPort
      both == <<E("sw", "PortStatus", r, p, c), E("con", "PortStatus", r, p, c)>>
      args == [c |-> c, r |-> r, p |-> p, st |-> st] IN
  /\ c \in 1..ncon /\ clive[c]
  /\ pview' = [pview EXCEPT ![c][p] = IF r = "del" THEN NoPort ELSE st]
  /\ UNCHANGED <<greg, gen, reg, conn, bound, armed, ncon, cdp, clive, nexus, links>> /\ UnchLis
  /\ IF ~mine
     THEN /\ UNCHANGED <<ports, adj>>
          /\ Fin("PortStatus", args, <<E("con", "PortStatus", r, p, c)>>, {}, {})
     ELSE IF r = "del"
     THEN /\ ports' = [ports EXCEPT ![s][p] = NoPort] /\ adj' = [adj EXCEPT ![s][p] = {}]
          /\ Fin("PortStatus", args, both, {}, {})
     ELSE IF r = "mod" /\ ~has /\ Has("ModUnknown")
     THEN /\ UNCHANGED <<ports, adj>>
          /\ Fin("PortStatus", args, <<>>, {}, {"PortStatus:KeyError"})
     ELSE IF r = "add" /\ has /\ Has("AddKnown")
     THEN /\ UNCHANGED <<ports, adj>>
          /\ Fin("PortStatus", args, <<>>, {}, {"PortStatus:AssertionError"})
     ELSE \* the description is installed (a new port has no adjacency, a known one keeps it)
          /\ ports' = [ports EXCEPT ![s][p] = st] /\ UNCHANGED adj
          /\ Fin("PortStatus", args, both, {}, {})

\* PacketIn (not a discovery probe) / BarrierIn (no barrier of the flow-table mirror) / FlowRemoved on session c:
\* re-raised on the entity, and the delivery on the connection goes on to the listeners behind the entity's -
\* whether or not a listener on the entity halts the re-raised event (`halt` is environment: it never appears in
\* an expectation).
ConEvent(c, kind, halt) ==
  LET s == cdp[c]
      mine == c \in bound[s]
      args == [c |-> c, kind |-> kind, halt |-> halt] IN
  /\ c \in 1..ncon /\ clive[c]
  /\ UNCHANGED svars
  /\ IF ~mine
     THEN Fin("ConEvent", args, <<E("con", kind, "", 0, c)>>, {}, {})
     ELSE IF kind = "FlowRemoved" /\ Has("FlowRemAbort")
     THEN Fin("ConEvent", args, <<E("sw", kind, DId(s), gen[s], c)>>, {}, {"FlowRemoved:AttributeError"})
     ELSE Fin("ConEvent", args, <<E("sw", kind, DId(s), gen[s], c), E("con", kind, "", 0, c)>>, {}, {})

\* The discovery probe the controller sent out of port p of switch a arrives at port q of the switch behind
\* session c and is reported as packet-in.  Discovery consumes it (nobody else sees a PacketIn); a link that is
\* new is announced (LinkEvent(added)) provided a has a session registered at the nexus.
Probe(a, p, c, q) ==
  LET b == cdp[c]
      l == Link(a, p, b, q)
      fresh == nexus[a] # 0 /\ <<a, p>> # <<b, q>> /\ l \notin links IN
  /\ c \in 1..ncon /\ clive[c]
  /\ UNCHANGED <<greg, gen, reg, conn, bound, armed, ports, ncon, cdp, clive, nexus, pview>> /\ UnchLis
  /\ links' = IF fresh THEN links \cup {l} ELSE links
  /\ adj' = IF fresh THEN AdjAdd(adj, l) ELSE adj
  /\ Fin("Probe", [a |-> a, p |-> p, c |-> c, q |-> q], <<>>, {}, {})

\* More than the link timeout passes without any probe: discovery's periodic check drops every link.
LinkTimeout ==
  /\ links # {}
  /\ links' = {}
  /\ adj' = AdjRemove(adj, links)
  /\ UNCHANGED <<greg, gen, reg, conn, bound, armed, ports, ncon, cdp, clive, nexus, pview>> /\ UnchLis
  /\ Fin("LinkTimeout", [x |-> 0], <<>>, {}, {})

PSArgs == {"add", "mod", "del"}
RegStep == \/ \E o \in Objs : AddObj(o)
           \/ \E o \in Objs : RemoveObj(o)
           \/ \E k \in Lis, h \in Hows : Listen(k, h)
CtlStep == \/ \E s \in Dpids, P \in InitPorts : Connect(s, P)
           \/ \E c \in Conns : Down(c)
           \/ \E s \in Dpids : Expire(s)
           \/ \E c \in Conns, k \in ConKinds, h \in Halts : ConEvent(c, k, h)
           \/ LinkTimeout
NetStep == \/ \E c \in Conns, r \in PSArgs, p \in Ports, st \in Sts : PortStatus(c, r, p, st)
           \/ \E a \in Dpids, p \in Ports, c \in Conns, q \in Ports : Probe(a, p, c, q)
Next == RegStep \/ CtlStep \/ NetStep

\* The same steps for -simulate runs: the three groups take turns (when enabled), so that a random walk does not
\* drown in the many instances of PortStatus / Probe.  Needs D > 0 (the turn is read off the history) and Objs # {}.
Busy == \E c \in Conns : clive[c]
CtlEnabled == ncon < MaxConn \/ Busy \/ (\E s \in Dpids : reg[s] /\ armed[s]) \/ links # {}
TurnNet == Len(hist) % 3 = 0 /\ Busy
TurnCtl == Len(hist) % 3 = 1 /\ CtlEnabled
TurnReg == ~TurnNet /\ ~TurnCtl
\* (a flat disjunction, so that TLC's simulator sees one action instance per step and prints one behaviour per run)
NextS == \/ \E o \in Objs : TurnReg /\ AddObj(o)
         \/ \E o \in Objs : TurnReg /\ RemoveObj(o)
         \/ \E k \in Lis, h \in Hows : TurnReg /\ Listen(k, h)
         \/ \E s \in Dpids, P \in InitPorts : TurnCtl /\ Connect(s, P)
         \/ \E c \in Conns : TurnCtl /\ Down(c)
         \/ \E s \in Dpids : TurnCtl /\ Expire(s)
         \/ \E c \in Conns, k \in ConKinds, h \in Halts : TurnNet /\ ConEvent(c, k, h)
         \/ TurnCtl /\ LinkTimeout
         \/ \E c \in Conns, r \in PSArgs, p \in Ports, st \in Sts : TurnNet /\ PortStatus(c, r, p, st)
         \/ \E a \in Dpids, p \in Ports, c \in Conns, q \in Ports : TurnNet /\ Probe(a, p, c, q)

Spec == Init /\ [][Next]_vars

----------------------------------------------------------------------------
(* Properties.  S = holds for the intended design only (Dev = {}),           *)
(*              B = holds for the code as built (Dev = AllDev) as well.      *)

TypeOK ==
  /\ greg \subseteq Objs
  /\ gen \in [Dpids -> 0..MaxConn] /\ reg \in [Dpids -> BOOLEAN]
  /\ conn \in [Dpids -> 0..MaxConn] /\ bound \in [Dpids -> SUBSET Conns] /\ armed \in [Dpids -> BOOLEAN]
  /\ ports \in [Dpids -> [Ports -> Slot]]
  /\ \A s \in Dpids, p \in Ports : adj[s][p] \subseteq Refs
  /\ ncon \in 0..MaxConn /\ cdp \in [Conns -> Dpids \cup {0}] /\ clive \in [Conns -> BOOLEAN]
  /\ nexus \in [Dpids -> 0..MaxConn]
  /\ links \subseteq LinkT
  /\ late \in [Lis -> Hows \cup {"off"}]

\* B  ids are unique: no two registered entities share an id
UniqueIds == Cardinality(RegIds) = Cardinality(RegView)

\* B  the registry changes by exactly the entity a successful add / first ConnectionUp names, or by exactly the
\*    entity a remove / reconnect timeout names; every other step leaves it alone
RegistryExact ==
  [][\/ RegView' = RegView
     \/ /\ last'.a \in {"AddObj", "Connect"} /\ last'.exp.exc = {}
        /\ \E k \in RegView' \ RegView : RegView' = RegView \cup {k}
     \/ /\ last'.a \in {"RemoveObj", "Expire"} /\ last'.exp.exc = {}
        /\ \E k \in RegView \ RegView' : RegView' = RegView \ {k}]_vars

\* B  a refused operation changes nothing and raises nothing
RefusedIsSilent ==
  [][(last'.a \in {"AddObj", "RemoveObj"} /\ last'.exp.exc # {}) =>
       (RegView' = RegView /\ last'.exp.log = <<>> /\ last'.exp.told = {})]_vars

\* B  join / leave events: exactly one join event (of the entity's own type, followed by an Update) when an
\*    entity enters the registry, exactly one leave event when it goes, none otherwise, never two joins without
\*    a leave in between
JoinLeaveExact == ~jbad /\ {[id |-> k.id, tag |-> k.tag] : k \in RegView} = jset
EventsTyped ==
  [][\A i \in DOMAIN last'.exp.log : LET e == last'.exp.log[i] IN
       (e.src = "topo" /\ e.ev \in JoinNames \cup LeaveNames) =>
          /\ i < Len(last'.exp.log) /\ last'.exp.log[i + 1] = E("topo", "Update", e.ev, 0, 0)
          /\ \E k \in RegView \cup RegView' : k.id = e.id /\ k.tag = e.n
                                              /\ e.ev \in {JoinEv(k.kind), LeaveEv(k.kind)}]_vars

\* B  a late listener is never told twice about one switch entity
NeverToldTwice == ~ktwice
\* S  the promise: a late listener knows about every registered switch from the moment it subscribes
PromiseKept == \A k \in OnLis : {[id |-> x.id, tag |-> x.tag] : x \in SwitchKeys} \subseteq knows[k]
\* S  subscribing never fails
ListenNeverFails == [][last'.a = "Listen" => last'.exp.exc = {}]_vars

\* B  one switch entity per dpid across reconnects: a new entity is created only while none is registered, and
\*    a ConnectionUp of a dpid that has a registered entity re-uses it
OneEntityPerDpid ==
  [][\A s \in Dpids : /\ gen'[s] # gen[s] => (~reg[s] /\ reg'[s] /\ gen'[s] = gen[s] + 1)
                      /\ (reg[s] /\ last'.a = "Connect" /\ last'.args.s = s) => (reg'[s] /\ gen'[s] = gen[s])]_vars
\* S  a dpid whose session comes up always has an entity afterwards
ConnectGivesEntity == [][last'.a = "Connect" => reg'[last'.args.s]]_vars

\* B  the connection attribute is a live session of that dpid, or None
ConnLiveOrNone == \A s \in RegSw : conn[s] = 0 \/ (clive[conn[s]] /\ cdp[conn[s]] = s)
\* S  ... namely the one the nexus has registered for the dpid; the timer runs iff the entity has none; the
\*    entity listens to its connection and to nothing else
ConnTracksNexus == \A s \in RegSw : conn[s] = nexus[s]
ArmedIffDown == \A s \in RegSw : armed[s] <=> (conn[s] = 0)
BoundIsConn == \A s \in RegSw : bound[s] = (IF conn[s] = 0 THEN {} ELSE {conn[s]})
\* B  an entity only ever listens to live sessions of its dpid
BoundLive == \A s \in Dpids : \A c \in bound[s] : clive[c] /\ cdp[c] = s
\* S  an entity that left the registry listens to nothing and has no timer
GoneIsInert == \A s \in Dpids : ~reg[s] => (bound[s] = {} /\ ~armed[s])

\* S  the port set follows the port-status history: while connected it is the connection's own port view
PortsFollowHistory == \A s \in RegSw : conn[s] # 0 => ports[s] = pview[conn[s]]
\* B  ... as built: every port the entity has is a port of the connection's view (when it listens to no stale session)
PortsWithinView ==
  \A s \in RegSw : (conn[s] # 0 /\ bound[s] = {conn[s]}) =>
     \A p \in Ports : ports[s][p] # NoPort => pview[conn[s]][p] # NoPort

\* B  adjacency lives on existing ports only
AdjOnPorts == \A s \in Dpids, p \in Ports : adj[s][p] # {} => (reg[s] /\ ports[s][p] # NoPort)
\* B  a link event only ever installs references to registered entities, on existing ports
LinkStepsSound ==
  [][\A s \in Dpids, p \in Ports : \A r \in adj'[s][p] \ adj[s][p] :
        reg'[r.d] /\ gen'[r.d] = r.g /\ reg'[s] /\ ports'[s][p] # NoPort]_vars
\* S  adjacency never refers to an entity that left the registry - as long as no dpid has had two live sessions at
\*    once (a superseded session that is still open can deliver a probe for a dpid whose current session is gone;
\*    discovery then announces a link to a switch that is about to leave, and nothing announces its end)
AdjSound == ~multi => \A s \in RegSw, p \in Ports : \A r \in adj[s][p] : RefLive(r)
\* S  every adjacency is backed by a link discovery still has
AdjBacked ==
  \A s \in RegSw, p \in Ports : \A r \in adj[s][p] :
     \E l \in links : (l.a = s /\ l.p = p /\ l.b = r.d) \/ (l.b = s /\ l.q = p /\ l.a = r.d)

\* S  events of the connection: re-raised on the entity exactly once and the delivery on the connection goes on
ReRaisedOnce ==
  [][(last'.a \in {"ConEvent", "PortStatus"} /\ reg[cdp[last'.args.c]] /\ last'.args.c \in bound[cdp[last'.args.c]]) =>
       /\ Len(last'.exp.log) = 2 /\ last'.exp.log[1].src = "sw" /\ last'.exp.log[2].src = "con"
       /\ last'.exp.exc = {}]_vars
\* B  ... as built: at most once, and only by an entity that listens to that session
ReRaisedAtMostOnce ==
  [][last'.a \in {"ConEvent", "PortStatus"} =>
       /\ Cardinality({i \in DOMAIN last'.exp.log : last'.exp.log[i].src = "sw"}) <= 1
       /\ (\E i \in DOMAIN last'.exp.log : last'.exp.log[i].src = "sw") =>
             last'.args.c \in bound[cdp[last'.args.c]]]_vars

\* ---- export for the replay harness
Bound   == Len(hist) <= D
Export  == (Len(hist) = D) => PrintT(<<"H", ToJson(hist)>>)
ExportT == PrintT(<<"T", ToJson(hist')>>)
=============================================================================
