CONSTANTS
  Dpids <- D2
  Ports <- P2
  Sts <- St1
  MaxConn = 2
  InitPorts <- IP2a
  Objs <- NoObjs
  ObjKind <- KindAll
  ObjId <- IdAll
  ObjTag <- TagAll
  Lis <- NoLis
  Hows <- Hows2
  ConKinds <- KindsP
  Halts <- HaltNo
  Dev <- DevNone
  D = 0
INIT Init
NEXT Next
CHECK_DEADLOCK FALSE
CONSTRAINT LinkBound
VIEW view
INVARIANT TypeOK
INVARIANT UniqueIds
INVARIANT JoinLeaveExact
INVARIANT NeverToldTwice
INVARIANT ConnLiveOrNone
INVARIANT BoundLive
INVARIANT PortsWithinView
INVARIANT AdjOnPorts
PROPERTY RegistryExact
PROPERTY RefusedIsSilent
PROPERTY EventsTyped
PROPERTY OneEntityPerDpid
PROPERTY LinkStepsSound
PROPERTY ReRaisedAtMostOnce
INVARIANT PromiseKept
INVARIANT ConnTracksNexus
INVARIANT ArmedIffDown
INVARIANT BoundIsConn
INVARIANT PortsFollowHistory
INVARIANT AdjSound
INVARIANT GoneIsInert
INVARIANT AdjBacked
PROPERTY ListenNeverFails
PROPERTY ConnectGivesEntity
PROPERTY ReRaisedOnce
