---- MODULE TraceTopoEnt ----
(* Code -> spec: histories recorded from the real Topology / OpenFlowTopology /   *)
(* OpenFlowSwitch / Discovery / of_01.Connection by a seeded random driver        *)
(* (props.X19:drive) must be behaviours of TopoEnt.tla.  Every action of the spec *)
(* is deterministic given its arguments, so an event matches iff the logged       *)
(* observation is exactly the one the spec computes; the invariants are evaluated *)
(* at every matched step.                                                         *)
EXTENDS MCTopoEnt, IOUtils, TLCExt, SequencesExt

Traces == JsonDeserialize(IOEnv.TRACE_FILE)
NT == Len(Traces)
VARIABLES tid, l
tvars == <<vars, tid, l>>

TrInit == Init /\ tid \in 1..NT /\ l = 1 /\ TLCSet(tid, 0)
Ev == Traces[tid][l]
IsEvent(e) == l <= Len(Traces[tid]) /\ Ev.a = e /\ l' = l + 1 /\ UNCHANGED tid

\* JSON arrays that stand for sets
J2Sw(x) == [d |-> x.d, gen |-> x.gen, conn |-> x.conn, armed |-> x.armed,
            ports |-> ToSet(x.ports), adj |-> ToSet(x.adj)]
J2Exp(o) == [log |-> o.log, told |-> ToSet(o.told), exc |-> ToSet(o.exc),
             st |-> [ents |-> ToSet(o.st.ents), sws |-> {J2Sw(x) : x \in ToSet(o.st.sws)},
                     links |-> ToSet(o.st.links), ztimers |-> ToSet(o.st.ztimers)]]
Same == Ev.wf /\ last'.exp = J2Exp(Ev.obs)

TrAddObj    == IsEvent("AddObj") /\ Ev.args.o \in Objs /\ AddObj(Ev.args.o) /\ Same
TrRemoveObj == IsEvent("RemoveObj") /\ Ev.args.o \in Objs /\ RemoveObj(Ev.args.o) /\ Same
TrListen    == IsEvent("Listen") /\ Ev.args.k \in Lis /\ Ev.args.how \in Hows /\ Listen(Ev.args.k, Ev.args.how) /\ Same
TrConnect   == IsEvent("Connect") /\ Ev.args.s \in Dpids /\ Ev.args.ports \in [Ports -> Slot]
               /\ Connect(Ev.args.s, Ev.args.ports) /\ Same
TrDown      == IsEvent("Down") /\ Ev.args.c \in Conns /\ Down(Ev.args.c) /\ Same
TrExpire    == IsEvent("Expire") /\ Ev.args.s \in Dpids /\ Expire(Ev.args.s) /\ Same
TrPortStatus == IsEvent("PortStatus") /\ Ev.args.c \in Conns /\ Ev.args.r \in PSArgs /\ Ev.args.p \in Ports
                /\ Ev.args.st \in Sts /\ PortStatus(Ev.args.c, Ev.args.r, Ev.args.p, Ev.args.st) /\ Same
TrConEvent  == IsEvent("ConEvent") /\ Ev.args.c \in Conns /\ Ev.args.kind \in ConKinds
               /\ Ev.args.halt \in BOOLEAN /\ ConEvent(Ev.args.c, Ev.args.kind, Ev.args.halt) /\ Same
TrProbe     == IsEvent("Probe") /\ Ev.args.a \in Dpids /\ Ev.args.p \in Ports /\ Ev.args.c \in Conns
               /\ Ev.args.q \in Ports /\ Probe(Ev.args.a, Ev.args.p, Ev.args.c, Ev.args.q) /\ Same
TrLinkTimeout == IsEvent("LinkTimeout") /\ LinkTimeout /\ Same

TrNext == TrAddObj \/ TrRemoveObj \/ TrListen \/ TrConnect \/ TrDown \/ TrExpire \/ TrPortStatus \/ TrConEvent
          \/ TrProbe \/ TrLinkTimeout
TrSpec == TrInit /\ [][TrNext]_tvars

Progress == TLCSet(tid, IF TLCGet(tid) < l - 1 THEN l - 1 ELSE TLCGet(tid))
Ok(t) == TLCGet(t) = Len(Traces[t]) \/ (PrintT(<<"REJECT", t, TLCGet(t)>>) /\ FALSE)
Accepted == /\ PrintT(<<"TRACES-CHECKED", NT>>)
            /\ Cardinality({t \in 1..NT : ~Ok(t)}) = 0
====
