CONSTANTS
  Dpids <- D1
  Ports <- P1
  Sts <- St2
  MaxConn = 2
  InitPorts <- IP1b
  Objs <- NoObjs
  ObjKind <- KindAll
  ObjId <- IdAll
  ObjTag <- TagAll
  Lis <- L1
  Hows <- Hows2
  ConKinds <- KindsAll
  Halts <- HaltBoth
  Dev <- AllDev
  D = 30
INIT Init
NEXT Next
CHECK_DEADLOCK FALSE
VIEW viewE
ACTION_CONSTRAINT ExportT
