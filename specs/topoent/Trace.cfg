CONSTANTS
  Dpids <- D2
  Ports <- P2
  Sts <- St2
  MaxConn = 8
  InitPorts <- IP2
  Objs <- ObjsR
  ObjKind <- KindAll
  ObjId <- IdAll
  ObjTag <- TagAll
  Lis <- L2
  Hows <- HowsAll
  ConKinds <- KindsAll
  Halts <- HaltBoth
  Dev <- AllDev
  D = 0
INIT TrInit
NEXT TrNext
CONSTRAINT Progress
POSTCONDITION Accepted
CHECK_DEADLOCK FALSE
INVARIANT TypeOK
INVARIANT UniqueIds
INVARIANT JoinLeaveExact
INVARIANT NeverToldTwice
INVARIANT ConnLiveOrNone
INVARIANT BoundLive
INVARIANT PortsWithinView
INVARIANT AdjOnPorts
