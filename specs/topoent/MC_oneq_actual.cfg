CONSTANTS
  Dpids <- D1
  Ports <- P1
  Sts <- St2
  MaxConn = 3
  InitPorts <- IP1b
  Objs <- ObjsG
  ObjKind <- KindAll
  ObjId <- IdAll
  ObjTag <- TagAll
  Lis <- L1
  Hows <- Hows2
  ConKinds <- KindsAll
  Halts <- HaltNo
  Dev <- AllDev
  D = 0
INIT Init
NEXT Next
CHECK_DEADLOCK FALSE
VIEW view
INVARIANT TypeOK
INVARIANT UniqueIds
INVARIANT JoinLeaveExact
INVARIANT NeverToldTwice
INVARIANT ConnLiveOrNone
INVARIANT BoundLive
INVARIANT PortsWithinView
INVARIANT AdjOnPorts
PROPERTY RegistryExact
PROPERTY RefusedIsSilent
PROPERTY EventsTyped
PROPERTY OneEntityPerDpid
PROPERTY LinkStepsSound
PROPERTY ReRaisedAtMostOnce
