CONSTANTS NT = 2
  Progs <- ProgsLv
  Threaded = FALSE
  MaxNow = 0
  Fds <- FdsA
  NLocks = 1
  TimerCfgs <- NoTimers
  D = 0
  KeepHist = FALSE
SPECIFICATION FairSpecQ
PROPERTY EventuallyRun
PROPERTY EventuallyRegistered
PROPERTY TimedWaitEnds
CHECK_DEADLOCK FALSE
