------------------------------- MODULE Sched -------------------------------
(* C06 (and the cooperative-lock half of C07): the recoco scheduler.         *)
(*                                                                           *)
(* Structured like pox/lib/recoco/recoco.py:                                 *)
(*   Cycle      = Scheduler.cycle(): pop the head of the ready deque, resume *)
(*                the task once, interpret what it yields                    *)
(*   HubSelect  = one pass of SelectHub._select(): fire expired timeouts,    *)
(*                select() on registered fds + the pinger, then either fire  *)
(*                the nearest timeout or drain the incoming queue / dispatch *)
(*                I/O                                                        *)
(*   Idle       = SelectHub.idle() in threaded mode (event wait + clear)     *)
(*   environment: Advance (virtual clock), FdSet/FdClear (fd readiness),     *)
(*                WakeST / WakeDirect (Scheduler.schedule from a foreign /   *)
(*                the scheduler thread), StartTimer / CancelTimer            *)
(* Task programs are sequences over the yield vocabulary; a task's steps are *)
(* logged as <<id, step index, value received>>.                             *)
EXTENDS Naturals, Sequences, FiniteSets, TLC, Json, SequencesExt

CONSTANTS NT,         \* number of user tasks
          Progs,      \* set of programs (sequences of op records)
          Threaded,   \* BOOLEAN: threaded select hub (TRUE) or inline (FALSE)
          MaxNow,     \* bound for the environment's Advance
          Fds,        \* file descriptors the environment can make readable
          NLocks,     \* number of cooperative locks
          TimerCfgs,  \* set of timer configurations [d, rec, stop]
          KeepHist,   \* BOOLEAN: record the history (FALSE for liveness checking)
          D           \* export depth

Tasks == 1..NT
SubId(t) == 100 + t      \* the AgainTask running t's sub-function
STId(t)  == 200 + t      \* a ScheduleTask waking t
ST2Id(t) == 300 + t      \* a second, concurrent ScheduleTask waking t
Sub2Id(t) == 400 + t     \* the AgainTask of a sub-function called by t's sub-function (nested call)
TimerId  == 50           \* the Timer task
NoTO     == 999          \* "no timeout"
CycleMax == 2            \* CYCLE_MAXIMUM
Locks == 1..NLocks
LoTasks == {}            \* user tasks created with priority < 1 (the priority configs override this definition)
MaxSkip == 2             \* bound on the consecutive "send it to the back" decisions of one cycle()

VARIABLES prog,      \* [Tasks -> program]
          pc,        \* [Tasks -> next step index]
          alive,     \* set of user tasks whose generator has not finished
          subpc,     \* [Tasks -> 0 (no sub-task) | next step of the sub-task]
          ready,     \* the ready deque (sequence of ids)
          hub,       \* set of [t, until, fd]: registered in SelectHub._tasks
          incoming,  \* sequence of [t, until, fd]: SelectHub._incoming
          pinged,    \* the hub's pinger is readable
          ev,        \* threaded mode: SelectHub._event
          now,       \* virtual clock
          fdReady,   \* readable fds
          res,       \* [id -> value delivered at the next resume]
          hasQuit,
          sendscr,   \* [Tasks -> remaining per-call socket outcomes of a Send in progress]
          owner,     \* [Locks -> 0 | task]
          waiting,   \* [Locks -> set of tasks]
          timer,     \* [st, cfg, next, cancelled, fires]
          setup,     \* FALSE until programs are chosen
          last, hist
svars == <<prog, pc, alive, subpc, ready, hub, incoming, pinged, ev, now, fdReady,
           res, hasQuit, owner, waiting, timer, setup, sendscr>>
vars == <<svars, last, hist>>
view == <<svars, last>>
viewE == svars

Ids == Tasks \cup {SubId(t) : t \in Tasks} \cup {STId(t) : t \in Tasks} \cup {ST2Id(t) : t \in Tasks}
         \cup {Sub2Id(t) : t \in Tasks}
         \cup {TimerId, STId(TimerId)}

InReady(x) == x \in Range(ready)
InHub(x) == \E h \in hub : h.t = x
InIncoming(x) == \E i \in 1..Len(incoming) : incoming[i].t = x
Waits(x) == \E L \in Locks : x \in waiting[L]

NoTimer == [st |-> "none", cfg |-> [d |-> 0, rec |-> FALSE, stop |-> 0],
            next |-> 0, cancelled |-> FALSE, fires |-> <<>>]

Init ==
  /\ prog = [t \in Tasks |-> <<>>] /\ pc = [t \in Tasks |-> 1] /\ alive = {}
  /\ subpc = [t \in Tasks |-> 0] /\ ready = <<>> /\ hub = {} /\ incoming = <<>>
  /\ pinged = FALSE /\ ev = FALSE /\ now = 0 /\ fdReady = {}
  /\ res = [x \in Ids |-> "none"]
  /\ hasQuit = FALSE /\ sendscr = [t \in Tasks |-> <<>>] /\ owner = [L \in Locks |-> 0] /\ waiting = [L \in Locks |-> {}]
  /\ timer = NoTimer /\ setup = FALSE
  /\ last = [a |-> "Init", args |-> [x |-> 0], alts |-> {}, exp |-> [x |-> 0]] /\ hist = <<>>

RegOf(hh) == {<<h.t, h.until, h.fd>> : h \in hh}
\* ---- observation: the projection the replay harness compares after every action
Proj(ran, ready2, hub2, inc2, now2, pinged2, ev2, alive2, timer2, quit2) ==
  [ran |-> ran, ready |-> ready2,
   reg |-> {<<h.t, h.until, h.fd>> : h \in hub2},
   inc |-> [i \in 1..Len(inc2) |-> <<inc2[i].t, inc2[i].until, inc2[i].fd>>],
   now |-> now2, pinged |-> pinged2, ev |-> ev2, alive |-> alive2,
   fires |-> timer2.fires, quit |-> quit2]
\* alts: when the spec leaves a choice open, all permitted <<ready, reg>> outcomes of this step
LogA(a, args, ran, alts) ==
  LET e == [a |-> a, args |-> args, alts |-> alts,
            exp |-> Proj(ran, ready', hub', incoming', now', pinged', ev', alive', timer', hasQuit')] IN
  /\ last' = e /\ hist' = IF KeepHist THEN Append(hist, e) ELSE hist
Log(a, args, ran) == LogA(a, args, ran, {})

\* fast_schedule() signals the hub: inline mode pings the pinger, threaded mode sets the event
Sig(did, reg) ==          \* did: some fast_schedule happened; reg: some registerSelect happened
  /\ pinged' = (pinged \/ reg \/ (did /\ ~Threaded))
  /\ ev' = (ev \/ (did /\ Threaded))

Register(t, until, fd) == Append(incoming, [t |-> t, until |-> until, fd |-> fd])

----------------------------------------------------------------------------
(* Setup: tasks are created and started in id order (fast_schedule each).   *)
Setup(p) ==
  /\ ~setup /\ p \in [Tasks -> Progs]
  /\ setup' = TRUE /\ prog' = p /\ alive' = Tasks
  /\ ready' = [i \in 1..NT |-> i]
  /\ Sig(TRUE, FALSE)
  /\ UNCHANGED <<pc, subpc, hub, incoming, now, fdReady, res, hasQuit, owner, waiting, timer, sendscr>>
  /\ Log("Setup", [p |-> p, lo |-> SetToSeq(LoTasks)], <<>>)

----------------------------------------------------------------------------
(* Cycle, user task.  Lock operations that succeed "reclaim the running     *)
(* state": the task is resumed again inside the same cycle() call, so one   *)
(* Cycle may run several steps.  RunLocks returns the set of possible       *)
(* micro-states (a release may hand the lock to any waiter).                *)
RECURSIVE RunLocks(_, _)
RunLocks(t, ms) ==
  LET lg == [ms EXCEPT !.ran = Append(@, <<t, ms.pc, ms.got>>)] IN
  IF ms.pc > Len(prog[t]) THEN {[lg EXCEPT !.fin = "done"]}
  ELSE LET o == prog[t][ms.pc] IN
    IF o.op = "Acq" THEN
      IF lg.owner[o.lk] = 0
      THEN RunLocks(t, [lg EXCEPT !.owner[o.lk] = t, !.got = "true", !.pc = @ + 1])
      ELSE IF o.d = 0
           THEN RunLocks(t, [lg EXCEPT !.got = "false", !.pc = @ + 1])
           ELSE {[lg EXCEPT !.waiting[o.lk] = @ \cup {t}, !.fin = "blocked"]}
    ELSE IF o.op = "Rel" THEN
      IF lg.owner[o.lk] = 0 THEN {[lg EXCEPT !.fin = "dead"]}     \* RuntimeError: de-scheduled
      ELSE IF lg.waiting[o.lk] = {}
           THEN RunLocks(t, [lg EXCEPT !.owner[o.lk] = 0, !.got = "none", !.pc = @ + 1])
           ELSE UNION {RunLocks(t, [lg EXCEPT !.owner[o.lk] = w, !.waiting[o.lk] = @ \ {w},
                                              !.woken = Append(@, w), !.got = "none", !.pc = @ + 1])
                       : w \in lg.waiting[o.lk]}
    ELSE {[lg EXCEPT !.fin = "op"]}

ReadyAfter(t, ms, rq) ==
  LET rest == Tail(rq) \o ms.woken IN
  IF ms.fin = "op" /\ prog[t][ms.pc].op = "Resched" THEN Append(rest, t)
  ELSE IF ms.fin = "op" /\ prog[t][ms.pc].op = "Call" THEN <<SubId(t)>> \o rest
  ELSE rest

\* write readiness: sockets used by Send are always writable (pseudo fd per task)
WFd(t) == IF t = 1 THEN "w1" ELSE IF t = 2 THEN "w2" ELSE "w3"
IsW(f) == f \in {"w1", "w2", "w3", "wa"}      \* "wa": write side of the shared socket "a" (its send buffer is never full)

\* a Send whose socket took only part of the data (or nothing): the return function registers the
\* task for writability again and aborts the resume - the task's generator is NOT resumed
SendRetry(t, rq, k) ==
  /\ ready' = Tail(rq)
  /\ incoming' = Register(t, NoTO, WFd(t))
  /\ sendscr' = [sendscr EXCEPT ![t] = Tail(@)]
  /\ res' = [res EXCEPT ![t] = "none"]
  /\ Sig(FALSE, TRUE)
  /\ UNCHANGED <<prog, pc, alive, subpc, hub, now, fdReady, hasQuit, owner, waiting, timer, setup>>
  /\ Log("Cycle", [t |-> t, k |-> k], <<>>)

UserRun(t, rq, k) ==
  LET prev == IF pc[t] > 1 /\ pc[t] - 1 <= Len(prog[t]) THEN prog[t][pc[t] - 1]
              ELSE [op |-> "-", fd |-> "-"]
      midSend == sendscr[t] # <<>>
      \* value the resume delivers: Recv / Send post-process the hub's result in a return function
      got0 == IF midSend THEN "sent"
              ELSE IF prev.op = "Recv"
                   THEN (IF res[t] = "fd" /\ prev.fd \in fdReady THEN "data" ELSE "none")
                   ELSE res[t]
      fd1 == IF ~midSend /\ prev.op = "Recv" /\ got0 = "data" THEN fdReady \ {prev.fd} ELSE fdReady
      MS == RunLocks(t, [pc |-> pc[t], got |-> got0, ran |-> <<>>, owner |-> owner,
                         waiting |-> waiting, woken |-> <<>>, fin |-> "-"])
  IN
  \E ms \in MS :
    LET rest == Tail(rq) \o ms.woken
        wk == Range(ms.woken)
        res1 == [x \in Ids |-> IF x \in wk THEN "true" ELSE IF x = t THEN "none" ELSE res[x]]
        didw == ms.woken # <<>>
        scr0 == [sendscr EXCEPT ![t] = <<>>]
    IN
    /\ owner' = ms.owner /\ waiting' = ms.waiting /\ fdReady' = fd1
    /\ UNCHANGED <<prog, now, timer, setup, hub>>
    /\ IF ms.fin \in {"done", "dead"} THEN
         /\ alive' = alive \ {t} /\ ready' = rest /\ res' = res1 /\ sendscr' = scr0
         /\ pc' = [pc EXCEPT ![t] = ms.pc] /\ Sig(didw, FALSE)
         /\ UNCHANGED <<subpc, incoming, hasQuit>>
       ELSE IF ms.fin = "blocked" THEN
         /\ ready' = rest /\ res' = res1 /\ pc' = [pc EXCEPT ![t] = ms.pc + 1] /\ Sig(didw, FALSE)
         /\ sendscr' = scr0
         /\ UNCHANGED <<alive, subpc, incoming, hasQuit>>
       ELSE LET o == prog[t][ms.pc] IN
         /\ pc' = [pc EXCEPT ![t] = ms.pc + 1]
         /\ sendscr' = IF o.op = "Send" THEN [sendscr EXCEPT ![t] = o.sub] ELSE scr0
         /\ CASE o.op = "Resched" ->
                  /\ ready' = Append(rest, t) /\ res' = res1 /\ Sig(didw, FALSE)
                  /\ UNCHANGED <<alive, subpc, incoming, hasQuit>>
              [] o.op \in {"SleepN", "SleepOp", "SelT"} ->
                  /\ ready' = rest /\ res' = res1
                  /\ incoming' = Register(t, now + o.d, "-")
                  /\ Sig(didw, TRUE)
                  /\ UNCHANGED <<alive, subpc, hasQuit>>
              [] o.op \in {"SelFD", "Recv", "SelW"} ->       \* SelW: Select for WRITING on the socket behind fd "a" (hub fd "wa")
                  /\ ready' = rest /\ res' = res1
                  /\ incoming' = Register(t, IF o.d = NoTO THEN NoTO ELSE now + o.d, o.fd)
                  /\ Sig(didw, TRUE)
                  /\ UNCHANGED <<alive, subpc, hasQuit>>
              [] o.op = "Send" ->
                  /\ ready' = rest /\ res' = res1
                  /\ incoming' = Register(t, NoTO, WFd(t))
                  /\ Sig(didw, TRUE)
                  /\ UNCHANGED <<alive, subpc, hasQuit>>
              [] o.op = "Block" ->
                  /\ ready' = rest /\ res' = res1 /\ Sig(didw, FALSE)
                  /\ UNCHANGED <<alive, subpc, incoming, hasQuit>>
              [] o.op = "Raise" ->
                  /\ alive' = alive \ {t} /\ ready' = rest /\ res' = res1 /\ Sig(didw, FALSE)
                  /\ UNCHANGED <<subpc, incoming, hasQuit>>
              [] o.op = "Exit" ->
                  /\ hasQuit' = TRUE /\ ready' = rest /\ res' = res1 /\ Sig(didw, FALSE)
                  /\ UNCHANGED <<alive, subpc, incoming>>
              [] o.op = "Call" ->      \* Again: sub-task runs next, caller blocks
                  /\ subpc' = [subpc EXCEPT ![t] = 1]
                  /\ ready' = <<SubId(t)>> \o rest
                  /\ res' = [res1 EXCEPT ![SubId(t)] = "none"] /\ Sig(TRUE, FALSE)
                  /\ UNCHANGED <<alive, incoming, hasQuit>>
    /\ LogA("Cycle", [t |-> t, k |-> k], ms.ran,
            IF Cardinality(MS) <= 1 THEN {}
            ELSE {[ready |-> ReadyAfter(t, m, rq), reg |-> RegOf(hub)] : m \in MS})

UserStep(t, rq, k) ==
  IF sendscr[t] # <<>> /\ Head(sendscr[t]).op \in {"P", "B"} THEN SendRetry(t, rq, k) ELSE UserRun(t, rq, k)

\* Cycle, AgainTask of t: runs the sub-function; its blocking operations pass through;
\* at its end the caller is made the next task to run and receives the value / exception
SubStep(t, rq, k) ==
  LET o == prog[t][pc[t] - 1]      \* the Call op that started it
      j == subpc[t]
      id == SubId(t)
      ran == <<<<id, j, res[id]>>>> IN
  /\ UNCHANGED <<prog, pc, alive, now, fdReady, hasQuit, owner, waiting, timer, setup, hub, sendscr>>
  /\ IF j <= Len(o.sub) /\ o.sub[j].op = "Call2" THEN
       \* the sub-function calls a sub-function of its own: that one runs next, this one blocks
       /\ subpc' = [subpc EXCEPT ![t] = j + 1]
       /\ ready' = <<Sub2Id(t)>> \o Tail(rq)
       /\ res' = [res EXCEPT ![id] = "none", ![Sub2Id(t)] = "none"]
       /\ Sig(TRUE, FALSE)
       /\ UNCHANGED incoming
     ELSE IF j <= Len(o.sub) THEN
       /\ subpc' = [subpc EXCEPT ![t] = j + 1]
       /\ ready' = Tail(rq)
       /\ incoming' = Register(id, now + o.sub[j].d, "-")
       /\ res' = [res EXCEPT ![id] = "none"]
       /\ Sig(FALSE, TRUE)
     ELSE
       /\ subpc' = [subpc EXCEPT ![t] = 0]
       /\ ready' = <<t>> \o Tail(rq)
       /\ res' = [res EXCEPT ![t] = CASE o.v = "end" -> "none" [] o.v = "ret" -> "ret" [] o.v = "throw" -> "exc",
                             ![id] = "none"]
       /\ Sig(TRUE, FALSE)
       /\ UNCHANGED incoming
  /\ Log("Cycle", [t |-> id, k |-> k], ran)

\* Cycle, AgainTask of the nested sub-function (no blocking operations of its own): its result or exception
\* reaches exactly its caller, t's sub-function, which runs next; t itself stays blocked
Sub2Step(t, rq, k) ==
  LET o == prog[t][pc[t] - 1]
      so == o.sub[subpc[t] - 1]     \* the Call2 op that started it
      id2 == Sub2Id(t) IN
  /\ UNCHANGED <<prog, pc, alive, subpc, now, fdReady, hasQuit, owner, waiting, timer, setup, hub, sendscr, incoming>>
  /\ ready' = <<SubId(t)>> \o Tail(rq)
  /\ res' = [res EXCEPT ![SubId(t)] = CASE so.v = "end" -> "none" [] so.v = "ret" -> "ret" [] so.v = "throw" -> "exc",
                        ![id2] = "none"]
  /\ Sig(TRUE, FALSE)
  /\ Log("Cycle", [t |-> id2, k |-> k], <<<<id2, 1, res[id2]>>>>)

\* Cycle, ScheduleTask: queue x as the next task unless it is already queued
STStep(x, rq, k) ==
  /\ ready' = IF InReady(x) THEN Tail(rq) ELSE <<x>> \o Tail(rq)
  /\ Sig(~InReady(x), FALSE)
  /\ UNCHANGED <<prog, pc, alive, subpc, hub, incoming, now, fdReady, res, hasQuit,
                 owner, waiting, timer, setup, sendscr>>
  /\ Log("Cycle", [t |-> Head(rq), k |-> k], <<>>)

\* Cycle, Timer task
TimerArm(next, fires, rest) ==     \* yield Sleep(next, absolute)
  IF next < now
  THEN /\ ready' = Append(rest, TimerId) /\ UNCHANGED incoming     \* already late: just reschedule
       /\ Sig(TRUE, FALSE)
       /\ timer' = [timer EXCEPT !.st = "armed", !.next = next, !.fires = fires]
  ELSE /\ ready' = rest /\ incoming' = Register(TimerId, next, "-")
                  /\ Sig(FALSE, TRUE)
       /\ timer' = [timer EXCEPT !.st = "armed", !.next = next, !.fires = fires]
TimerFinish(fires, rest) ==
  /\ ready' = rest /\ timer' = [timer EXCEPT !.st = "finished", !.fires = fires]
  /\ Sig(FALSE, FALSE) /\ UNCHANGED incoming
TimerStep(rq, k) ==
  LET rest == Tail(rq) IN
  /\ UNCHANGED <<prog, pc, alive, subpc, hub, now, fdReady, hasQuit, owner, waiting, setup, sendscr>>
  /\ res' = [res EXCEPT ![TimerId] = "none"]
  /\ CASE timer.st = "init" ->
            IF timer.cancelled THEN TimerFinish(timer.fires, rest)
            ELSE TimerArm(timer.next, timer.fires, rest)
       [] timer.st = "armed" ->
            IF timer.cancelled THEN TimerFinish(timer.fires, rest)
            ELSE LET f == Append(timer.fires, now)
                     stopNow == timer.cfg.stop # 0 /\ Len(f) >= timer.cfg.stop IN
                 IF stopNow \/ ~timer.cfg.rec THEN TimerFinish(f, rest)
                 ELSE TimerArm(now + timer.cfg.d, f, rest)
  /\ Log("Cycle", [t |-> TimerId, k |-> k], <<>>)

\* a stale wake-up can queue a task whose generator already finished: resuming it
\* raises StopIteration at once and it is dropped without running anything
DropDead(x, rq, k) ==
  /\ ready' = Tail(rq) /\ Sig(FALSE, FALSE)
  /\ UNCHANGED <<prog, pc, alive, subpc, hub, incoming, now, fdReady, res, hasQuit,
                 owner, waiting, timer, setup, sendscr>>
  /\ Log("Cycle", [t |-> x, k |-> k], <<>>)

\* Scheduler.cycle() chooses the task to resume ("priority system"): a task created with priority < 1
\* that is at the head of the deque while other tasks are ready is put back at the tail when the
\* scheduler's random draw exceeds its priority, and the next one is looked at.  The draws are an
\* input of the environment: k = number of consecutive tasks sent to the back before one is resumed.
\* A task with the default priority, or the only ready task, is resumed without a draw.
Rot(s, k) == [i \in 1..Len(s) |-> s[((i - 1 + k) % Len(s)) + 1]]
\* the AgainTask of a sub-function runs with its caller's priority (Again.execute copies it)
IsLo(x) == x \in LoTasks \/ (x > 100 /\ x < 200 /\ (x - 100) \in LoTasks) \/ (x > 400 /\ (x - 400) \in LoTasks)
SkipOK(k) == k = 0 \/ (Len(ready) > 1 /\ \A i \in 0..(k - 1) : IsLo(Rot(ready, i)[1]))

CycleAt(rq, k) ==
  LET x == Head(rq) IN
       IF x \in Tasks /\ x \notin alive THEN DropDead(x, rq, k)
       ELSE IF x \in Tasks THEN UserStep(x, rq, k)
       ELSE IF x = TimerId THEN TimerStep(rq, k)
       ELSE IF x >= 400 THEN Sub2Step(x - 400, rq, k)
       ELSE IF x >= 300 THEN STStep(x - 300, rq, k)
       ELSE IF x >= 200 THEN STStep(x - 200, rq, k)
       ELSE SubStep(x - 100, rq, k)

Cycle ==
  /\ setup /\ ready # <<>>
  /\ \E k \in 0..(IF LoTasks = {} THEN 0 ELSE MaxSkip) : SkipOK(k) /\ CycleAt(Rot(ready, k), k)

----------------------------------------------------------------------------
(* One pass of SelectHub._select                                             *)
\* The set of possible results of one pass.  The code is deterministic; the spec leaves open
\* the order in which simultaneously released tasks are queued, which of several tasks with
\* the same nearest deadline is released by the timeout branch, and which waiter of a
\* readable fd is woken (one per fd).
HubOutcomes ==
  LET expired == {h.t : h \in {g \in hub : g.until # NoTO /\ g.until <= now}}
      live == {h \in hub : h.t \notin expired}
      timed == {h \in live : h.until # NoTO}
      mind == IF timed = {} THEN NoTO
              ELSE CHOOSE m \in {h.until : h \in timed} : \A h \in timed : m <= h.until
      \* after firing expired tasks fast_schedule has signalled (inline: pinger)
      pingedNow == pinged \/ (expired # {} /\ ~Threaded)
      fdw == {h \in live : h.fd \in fdReady \/ IsW(h.fd)}   \* waiters whose fd is readable / writable
      io == pingedNow \/ fdw # {}
      resX(S, v) == [x \in Ids |-> IF x \in expired THEN "timeout" ELSE IF x \in S THEN v ELSE res[x]]
  IN
  IF ~io THEN
    \* nothing readable: select() sleeps until the nearest timeout (or CYCLE_MAXIMUM)
    IF mind = NoTO THEN
      IF now <= MaxNow \/ expired # {}   \* (model bound: an idle hub only lets time pass)
      THEN {[ready |-> ready \o p1, hub |-> live, incoming |-> incoming, now |-> now + CycleMax,
             res |-> resX({}, "-"), pinged |-> pingedNow, ev |-> (ev \/ (expired # {} /\ Threaded))]
            : p1 \in SetToSeqs(expired)}
      ELSE {}
    ELSE
      {[ready |-> (ready \o p1) \o <<h.t>>, hub |-> live \ {h}, incoming |-> incoming, now |-> mind,
        res |-> resX({h.t}, "timeout"), pinged |-> (pingedNow \/ ~Threaded), ev |-> (ev \/ Threaded)]
       : p1 \in SetToSeqs(expired), h \in {g \in timed : g.until = mind}}
  ELSE
    \* I/O: drain the incoming queue if pinged; wake one waiter per readable fd
    LET drained == IF pingedNow THEN incoming ELSE <<>>
        newh == {drained[i] : i \in 1..Len(drained)}
        rfds == {h.fd : h \in fdw}
        Ws == {W \in SUBSET {h.t : h \in fdw} :
                 \A f \in rfds : Cardinality({h \in fdw : h.fd = f /\ h.t \in W}) = 1}
    IN
    UNION {{[ready |-> (ready \o p1) \o p2, hub |-> {h \in live : h.t \notin W} \cup newh,
             incoming |-> IF pingedNow THEN <<>> ELSE incoming, now |-> now,
             res |-> resX(W, "fd"),
             pinged |-> (W # {} /\ ~Threaded),      \* pongAll, then fast_schedule pings again (inline)
             ev |-> (ev \/ ((W # {} \/ expired # {}) /\ Threaded))]
            : p1 \in SetToSeqs(expired), p2 \in SetToSeqs(W)} : W \in Ws}

HubSelect ==
  /\ setup
  /\ \E o \in HubOutcomes :
       /\ ready' = o.ready /\ hub' = o.hub /\ incoming' = o.incoming /\ now' = o.now
       /\ res' = o.res /\ pinged' = o.pinged /\ ev' = o.ev
  /\ UNCHANGED <<prog, pc, alive, subpc, fdReady, hasQuit, owner, waiting, timer, setup, sendscr>>
  /\ LogA("HubSelect", [x |-> 0], <<>>, {[ready |-> o.ready, reg |-> RegOf(o.hub)] : o \in HubOutcomes})

Idle ==      \* threaded mode: SelectHub.idle() = event.wait(CYCLE_MAXIMUM); event.clear()
  /\ setup /\ Threaded
  /\ ev' = FALSE
  /\ UNCHANGED <<prog, pc, alive, subpc, ready, hub, incoming, pinged, now, fdReady, res,
                 hasQuit, owner, waiting, timer, setup, sendscr>>
  /\ Log("Idle", [x |-> 0], <<>>)

----------------------------------------------------------------------------
(* Environment                                                               *)
Same == UNCHANGED <<prog, pc, alive, subpc, hub, incoming, res, hasQuit, owner, waiting, setup, sendscr>>

Advance(d) ==
  /\ setup /\ now + d <= MaxNow /\ now' = now + d
  /\ Same /\ UNCHANGED <<ready, pinged, ev, fdReady, timer>>
  /\ Log("Advance", [d |-> d], <<>>)
FdSet(f) ==
  /\ setup /\ f \notin fdReady /\ fdReady' = fdReady \cup {f}
  /\ Same /\ UNCHANGED <<ready, pinged, ev, now, timer>>
  /\ Log("FdSet", [fd |-> f], <<>>)
FdClear(f) ==
  /\ setup /\ f \in fdReady /\ fdReady' = fdReady \ {f}
  /\ Same /\ UNCHANGED <<ready, pinged, ev, now, timer>>
  /\ Log("FdClear", [fd |-> f], <<>>)

\* Waking (Scheduler.schedule) is meant for a task that is parked (yielded False / blocked).
\* A second, concurrent wake of the same task is modelled only when the task has nothing left
\* to do but finish: waking a task that goes on to wait in the hub makes it runnable while
\* it waits - a spurious wake-up the API permits but which says nothing about the scheduler.
Quiet(t) == t \in alive /\ ~InHub(t) /\ ~InIncoming(t) /\ ~Waits(t) /\ subpc[t] = 0 /\ sendscr[t] = <<>>
STPending(t) == InReady(STId(t)) \/ InReady(ST2Id(t))
WakeOK(t) == Quiet(t) /\ ((~InReady(t) /\ ~STPending(t)) \/ pc[t] > Len(prog[t]))

WakeST(t, id) ==   \* Scheduler.schedule(t) from a foreign thread: via a ScheduleTask
  /\ setup /\ WakeOK(t) /\ ~InReady(id)
  /\ ready' = Append(ready, id) /\ Sig(TRUE, FALSE)
  /\ Same /\ UNCHANGED <<now, fdReady, timer>>
  /\ Log("WakeST", [t |-> t, id |-> id], <<>>)
WakeDirect(t) ==   \* Scheduler.schedule(t) on the scheduler thread: direct, refused if already queued
  /\ setup /\ WakeOK(t)
  /\ ready' = IF InReady(t) THEN ready ELSE Append(ready, t)
  /\ Sig(~InReady(t), FALSE)
  /\ Same /\ UNCHANGED <<now, fdReady, timer>>
  /\ Log("WakeDirect", [t |-> t], <<>>)

StartTimer(c) ==   \* Timer(d, cb, recurring=rec): start() schedules it through a ScheduleTask
  /\ setup /\ timer.st = "none"
  /\ timer' = [st |-> "init", cfg |-> c, next |-> now + c.d, cancelled |-> FALSE, fires |-> <<>>]
  /\ ready' = Append(ready, STId(TimerId)) /\ Sig(TRUE, FALSE)
  /\ Same /\ UNCHANGED <<now, fdReady>>
  /\ Log("StartTimer", [c |-> c], <<>>)
CancelTimer ==
  /\ setup /\ timer.st \in {"init", "armed"} /\ ~timer.cancelled
  /\ timer' = [timer EXCEPT !.cancelled = TRUE]
  /\ Same /\ UNCHANGED <<ready, pinged, ev, now, fdReady>>
  /\ Log("CancelTimer", [x |-> 0], <<>>)

Next == \/ \E p \in [Tasks -> Progs] : Setup(p)
        \/ Cycle \/ HubSelect \/ Idle
        \/ \E d \in {1, 2} : Advance(d)
        \/ \E f \in Fds : FdSet(f) \/ FdClear(f)
        \/ \E t \in Tasks : WakeST(t, STId(t)) \/ WakeST(t, ST2Id(t)) \/ WakeDirect(t)
        \/ \E c \in TimerCfgs : StartTimer(c)
        \/ CancelTimer

\* reduced interleaving for export: the environment acts only when the scheduler is quiescent
Quiesc == ready = <<>>
QIdle == Quiesc /\ Idle
QAdvance(d) == Quiesc /\ Advance(d)
QFdSet(f) == Quiesc /\ FdSet(f)
QFdClear(f) == Quiesc /\ FdClear(f)
QWakeST(t) == Quiesc /\ WakeST(t, STId(t))
QWakeST2(t) == Len(ready) = 1 /\ WakeST(t, ST2Id(t))
QWakeDirect(t) == Quiesc /\ WakeDirect(t)
QStartTimer(c) == Quiesc /\ StartTimer(c)
QCancelTimer == Quiesc /\ CancelTimer
NextQ == \/ \E p \in [Tasks -> Progs] : Setup(p)
         \/ Cycle \/ HubSelect \/ QIdle
         \/ \E d \in {1, 2} : QAdvance(d)
         \/ \E f \in Fds : QFdSet(f) \/ QFdClear(f)
         \/ \E t \in Tasks : QWakeST(t) \/ QWakeST2(t) \/ QWakeDirect(t)
         \/ \E c \in TimerCfgs : QStartTimer(c)
         \/ QCancelTimer

\* the scheduler's own loop (Scheduler.run): used for the liveness check
RunLoop == Cycle \/ (ready = <<>> /\ (IF Threaded THEN Idle \/ HubSelect ELSE HubSelect))
Spec == Init /\ [][Next]_vars
FairSpec == Init /\ [][Next]_vars /\ WF_vars(Cycle) /\ WF_vars(HubSelect)
FairSpecQ == Init /\ [][NextQ]_vars /\ WF_vars(Cycle) /\ WF_vars(HubSelect)

----------------------------------------------------------------------------
(* The property                                                              *)
Count(x) == Cardinality({i \in 1..Len(ready) : ready[i] = x})

TypeOK == /\ Range(ready) \subseteq Ids /\ alive \subseteq Tasks
          /\ \A L \in Locks : owner[L] \in Tasks \cup {0} /\ waiting[L] \subseteq Tasks

\* a task is queued at most once, and never queued while it also waits in the hub / on a lock
QueuedOnce == \A x \in Ids : Count(x) <= 1
Exclusive == \A x \in Tasks \cup {TimerId} \cup {SubId(t) : t \in Tasks} :
               Cardinality({k \in {"r", "h", "i", "w"} :
                  CASE k = "r" -> InReady(x) [] k = "h" -> InHub(x)
                    [] k = "i" -> InIncoming(x) [] k = "w" -> x \in Tasks /\ Waits(x)}) <= 1
\* a finished / failed task is gone for good
DeadGone == \A t \in Tasks : (setup /\ t \notin alive) => ~InHub(t) /\ ~InIncoming(t) /\ ~Waits(t)
\* the caller of a sub-task does not run while the sub-task is active
CallerBlocked == \A t \in Tasks : subpc[t] # 0 => ~InReady(t) /\ ~InHub(t)

\* ... and neither the caller nor its sub-function runs while a nested sub-function is active
NestedBlocked == \A t \in Tasks : InReady(Sub2Id(t)) =>
                   /\ ~InReady(SubId(t)) /\ ~InHub(SubId(t)) /\ ~InIncoming(SubId(t))
                   /\ ~InReady(t) /\ ~InHub(t) /\ subpc[t] # 0

\* steps run in program order, one resume per step: every logged step of a user task is its pc
InOrder == [][\A i \in 1..Len(last'.exp.ran) :
               LET e == last'.exp.ran[i] IN
               e[1] \in Tasks => e[2] = pc[e[1]] + i - 1]_vars

\* never resumed early: a timeout result is delivered only at or after the requested time
NeverEarly == [][\A h \in hub : (h \notin hub' /\ res'[h.t] = "timeout") => now' >= h.until]_vars
\* timer callbacks: never before the requested time, spaced by at least the interval,
\* a one-shot timer fires at most once, nothing fires after cancellation took effect
TimerOK ==
  /\ (~timer.cfg.rec => Len(timer.fires) <= 1)
  /\ (timer.cfg.stop # 0 => Len(timer.fires) <= timer.cfg.stop)
  /\ \A i \in 1..Len(timer.fires) :
        IF i = 1 THEN TRUE ELSE timer.fires[i] >= timer.fires[i-1] + timer.cfg.d
NoFireAfterCancel == [][timer.cancelled => timer'.fires = timer.fires]_vars
FirstFireNotEarly == [][(timer.fires = <<>> /\ timer'.fires # <<>>) => now' >= timer.next]_vars

\* cooperative locks (C07, second half)
LockOwnerNotWaiting == \A L \in Locks : owner[L] # 0 => owner[L] \notin waiting[L]
NoWaiterOnFreeLock == \A L \in Locks : owner[L] = 0 => waiting[L] = {}
\* a woken waiter is the new owner and is queued exactly once
WokenIsOwner == [][\A L \in Locks : \A w \in waiting[L] \ waiting'[L] :
                      owner'[L] = w /\ Cardinality({i \in 1..Len(ready') : ready'[i] = w}) = 1]_vars

\* liveness: every queued task is eventually taken off the queue by Cycle
EventuallyRun == \A x \in Ids : (InReady(x) ~> ~InReady(x))
\* a registration reaches the hub, and a timed wait ends
EventuallyRegistered == \A x \in Ids : (InIncoming(x) ~> ~InIncoming(x))
TimedWaitEnds == \A x \in Ids : ((\E h \in hub : h.t = x /\ h.until # NoTO) ~> ~InHub(x))

\* ---- export
Bound == Len(hist) <= D
Export == (Len(hist) = D) => PrintT(<<"H", ToJson(hist)>>)
ExportT == PrintT(<<"T", ToJson(hist')>>)
=============================================================================
