CONSTANTS Foreign <- F1set
  FNum <- FN
  Prog <- ProgD
  Threaded = FALSE
  defaultInitValue = defaultInitValue
INIT TrInit
NEXT TrNext
CONSTRAINT Progress2
POSTCONDITION Accepted
INVARIANT NoDup
INVARIANT OnlySubmitted
INVARIANT PerThreadOrder
INVARIANT QueuedOnce
INVARIANT AssertHolds
INVARIANT Mutex
CHECK_DEADLOCK FALSE
