---- MODULE MCSched ----
EXTENDS Sched
O(op, d, fd, lk) == [op |-> op, d |-> d, fd |-> fd, sub |-> <<>>, v |-> "-", lk |-> lk]
Call(sub, v) == [op |-> "Call", d |-> 0, fd |-> "-", sub |-> sub, v |-> v, lk |-> 0]
Call2(v) == [op |-> "Call2", d |-> 0, fd |-> "-", sub |-> <<>>, v |-> v, lk |-> 0]   \* nested call inside a sub-function
Resched == O("Resched", 0, "-", 0)
SleepN(d) == O("SleepN", d, "-", 0)
SleepOp(d) == O("SleepOp", d, "-", 0)
SelT(d) == O("SelT", d, "-", 0)
SelFD(f, d) == O("SelFD", d, f, 0)
SelW(d) == O("SelW", d, "wa", 0)
Block == O("Block", 0, "-", 0)
Raise == O("Raise", 0, "-", 0)
Exit == O("Exit", 0, "-", 0)
Recv(f, d) == O("Recv", d, f, 0)
Send(scr) == [op |-> "Send", d |-> 0, fd |-> "-", sub |-> scr, v |-> "-", lk |-> 0]
Ck(k) == O(k, 0, "-", 0)
Acq(L) == O("Acq", 1, "-", L)
AcqNB(L) == O("Acq", 0, "-", L)
Rel(L) == O("Rel", 0, "-", L)

SeqsUpTo(S, n) == UNION {[1..k -> S] : k \in 0..n}

\* general vocabulary (no locks)
OpsA == {Resched, SleepN(1), SleepOp(0), SelT(2), SelFD("a", NoTO), SelFD("a", 1), Block, Raise,
         Call(<<SleepOp(1)>>, "ret"), Call(<<>>, "throw"), Call(<<>>, "end"),
         Call(<<SleepOp(1)>>, "throw"), Call(<<SleepOp(0), SleepOp(1)>>, "end"),
         Call(<<Call2("throw")>>, "ret"), Call(<<Call2("ret"), SleepOp(1)>>, "throw")}
\* sub-functions that call sub-functions: every result x every continuation of the caller
OpsN == {Call(<<Call2(v2)>>, v) : v2 \in {"ret", "throw", "end"}, v \in {"ret", "throw", "end"}}
        \cup {Call(<<SleepOp(0), Call2("throw"), SleepOp(1)>>, "ret"), Call(<<Call2("throw"), Call2("ret")>>, "end"),
              Resched, SleepN(1)}
ProgsN1 == SeqsUpTo(OpsN, 1)
ProgsN2 == SeqsUpTo(OpsN, 2)
ProgsA1 == SeqsUpTo(OpsA, 1)
ProgsA2 == SeqsUpTo(OpsA, 2)
\* (SleepN(3): a wait longer than CYCLE_MAXIMUM - the hub's polling period must not shorten it)
OpsQ == {Resched, SleepN(1), SleepN(3), SelT(2), SelFD("a", 1), Block, Raise, Call(<<SleepOp(1)>>, "ret"), Call(<<>>, "throw"),
         Call(<<SleepOp(1)>>, "throw")}
ProgsQ1 == SeqsUpTo(OpsQ, 1)
ProgsLv == SeqsUpTo({Resched, SleepN(1), SelT(2), SelFD("a", 1), Block, Call(<<SleepOp(1)>>, "ret")}, 1)
ProgsQ2 == SeqsUpTo(OpsQ, 2)
\* socket helpers: Recv with/without timeout; Send with per-call socket outcomes (F full, P partial, B would block)
OpsIO == {Recv("a", NoTO), Recv("a", 1), Send(<<Ck("F")>>), Send(<<Ck("P"), Ck("F")>>), Send(<<Ck("B"), Ck("F")>>),
          Send(<<Ck("P"), Ck("B"), Ck("F")>>), Resched, SleepN(1)}
ProgsIO1 == SeqsUpTo(OpsIO, 1)
ProgsIO2 == SeqsUpTo(OpsIO, 2)
\* read and write interest in the SAME socket, by different tasks or one after the other
OpsRW == {Recv("a", NoTO), SelFD("a", 1), SelFD("a", NoTO), SelW(NoTO), SelW(1), Resched}
ProgsRW == SeqsUpTo(OpsRW, 1) \cup {<<SelW(NoTO), Recv("a", NoTO)>>, <<SelFD("a", NoTO), SelW(NoTO)>>,
                                     <<SelW(1), SelFD("a", 1)>>, <<Resched, SelW(NoTO)>>, <<SelW(NoTO), SelW(1)>>}
\* small vocabulary for 3 tasks / deeper programs
OpsB == {Resched, SleepN(1), SelT(2), Block, Call(<<SleepOp(1)>>, "ret")}
ProgsB2 == SeqsUpTo(OpsB, 2)
ProgsB3 == SeqsUpTo({Resched, SleepN(1), SelFD("a", 1)}, 3)
\* lock programs: well-formed critical sections
CS(L) == {<<Acq(L), Rel(L)>>, <<Acq(L), Resched, Rel(L)>>, <<Acq(L), SleepN(1), Rel(L)>>,
          <<AcqNB(L), Resched>>, <<Resched, Acq(L), Resched, Rel(L)>>}
ProgsL1 == CS(1)
ProgsL2 == CS(1) \cup CS(2) \cup {<<Acq(1), Acq(2), Rel(2), Rel(1)>>, <<Acq(1), Resched, Acq(2), Rel(1), Rel(2)>>,
                                  <<Acq(2), Resched, Acq(1), Rel(1), Rel(2)>>}
ProgsExit == {<<Exit>>, <<Resched, Exit>>, <<Resched>>, <<SleepN(1)>>}
\* timers
TC(d, rec, stop) == [d |-> d, rec |-> rec, stop |-> stop]
TimerCfgsAll == {TC(1, FALSE, 0), TC(2, TRUE, 0), TC(1, TRUE, 2), TC(0, FALSE, 0), TC(3, FALSE, 0)}
NoTimers == {}
ProgsT == {<<>>, <<Resched>>, <<SleepN(1)>>, <<SleepN(2), Resched>>}
\* task priorities below 1 (Scheduler.cycle's head selection): small programs, 2 and 3 tasks
ProgsP2 == SeqsUpTo({Resched, SleepN(1), Block}, 2) \cup {<<Raise>>, <<Call(<<SleepOp(1)>>, "ret")>>}
ProgsP3 == SeqsUpTo({Resched, SleepN(1), Block}, 1) \cup {<<Resched, Resched>>}
ProgsP2q == SeqsUpTo({Resched, SleepN(1), Block}, 1) \cup {<<Resched, Resched>>, <<Resched, SleepN(1)>>, <<Raise>>,
                                                            <<Call(<<SleepOp(1)>>, "ret")>>}
ProgsP3q == {<<>>, <<Resched>>, <<Block>>, <<Resched, Resched>>}
Lo1 == {1}
Lo12 == {1, 2}
Lo13 == {1, 3}
Lo123 == {1, 2, 3}
FdsA == {"a"}
NoFds == {}
NowBound == now <= MaxNow + 6
====
