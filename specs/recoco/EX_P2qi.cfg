CONSTANTS NT = 2
  Progs <- ProgsP2q
  LoTasks <- Lo12
  Threaded = FALSE
  MaxNow = 1
  Fds <- NoFds
  NLocks = 1
  TimerCfgs <- NoTimers
  D = 8
  KeepHist = TRUE
INIT Init
NEXT NextQ
VIEW viewE
CONSTRAINT NowBound
ACTION_CONSTRAINT ExportT
CHECK_DEADLOCK FALSE
