------------------------------ MODULE Threads ------------------------------
(* C07: hand-off between foreign threads and the recoco scheduler thread.    *)
(*                                                                           *)
(* One label per operation on state shared between threads (CPython runs     *)
(* deque.append/popleft/__contains__, Event.set/clear, Lock.acquire/release, *)
(* Queue.put/get and os.write/read on the pinger pipes atomically); every    *)
(* such label records the operation in `evt`, which is what the trace        *)
(* recorded from the real code (harness/threadctl.py) is matched against.    *)
(* Labels that touch nothing shared record "tau".                            *)
(*                                                                           *)
(* Processes: "S" = Scheduler.run (cycle, task steps of ScheduleTask,        *)
(* CallLaterTask, SyncTask and a user task T), "H" = the SelectHub thread    *)
(* (threaded mode; in inline mode S runs the hub pass inside idle()),        *)
(* foreign threads running scripts over callLater / schedule(T) /            *)
(* synchronized{}.  Blocking operations wait for their condition and the     *)
(* poll timeouts (CYCLE_MAXIMUM) are deliberately absent: progress must come *)
(* from the event / pinger wake-ups alone.                                   *)
(* A handed-over function may FAIL (raise) when it runs; for the hand-off    *)
(* that is a function that has run, so the model has no separate notion of   *)
(* it - the harness makes the first function of every foreign thread fail,   *)
(* and every other one must still run exactly once.                          *)
EXTENDS Naturals, Sequences, FiniteSets, TLC

CONSTANTS Foreign,     \* set of foreign thread names, e.g. {"F1","F2"}
          FNum,        \* [Foreign -> 1..n]
          Prog,        \* [Foreign -> Seq({"call","sched","sync"})]
          Threaded     \* BOOLEAN

NoArg == <<"-", "", 0, 0>>
CL == <<"CL", "", 0, 0>>
TT == <<"T", "", 0, 0>>
SY(n) == <<"SY", "", n, 0>>
ST(k, n, i) == <<"ST", k, n, i>>
CB(n, i) == <<"F", "", n, i>>
LK(n) == <<"L", "", n, 0>>
Target(st) == IF st[2] = "SY" THEN SY(st[3]) ELSE <<st[2], "", 0, 0>>
E(th, op, arg, res) == [th |-> th, op |-> op, arg |-> arg, res |-> res]
Tau(th) == E(th, "tau", NoArg, "-")
B(b) == IF b THEN "true" ELSE "false"
InSeq(s, x) == \E i \in 1..Len(s) : s[i] = x
SelCode(ro) == IF ro = {"hub"} THEN "hubpipe" ELSE IF ro = {"cl"} THEN "clpipe" ELSE "clpipe+hubpipe"

(* --algorithm threads {
variables
  ready = <<>>,          \* Scheduler._ready
  calls = <<>>,          \* CallLaterTask._calls
  clPipe = 0,            \* unread pings in the CallLaterTask pinger
  hubPipe = 0,           \* unread pings in the SelectHub pinger
  ev = FALSE,            \* SelectHub._event (threaded mode)
  incoming = <<>>,       \* SelectHub._incoming
  hubTasks = {},         \* SelectHub._tasks
  slock = FALSE,         \* Scheduler._lock held
  clCreated = FALSE,     \* Scheduler._callLaterTask is not None
  inlock = [n \in 1..2 |-> TRUE],
  outlock = [n \in 1..2 |-> TRUE],
  ran = <<>>,            \* callbacks executed, in order
  submitted = <<>>,      \* callbacks handed to callLater, in order
  tReq = 0, tRuns = 0,   \* schedule(T) requests / executions of T
  inCS = {},             \* foreign threads inside synchronized{}
  assertFailed = FALSE,  \* fast_schedule's "task not in ready" assertion
  evt = [th |-> "-", op |-> "init", arg |-> NoArg, res |-> "-"];

define {
  Count(t) == Cardinality({i \in 1..Len(ready) : ready[i] = t})
}

\* Scheduler.fast_schedule(task, first)
procedure FastSchedule(task, first) {
FS1: assertFailed := assertFailed \/ InSeq(ready, task);
     \* the "task not in ready" sanity assertion is a read the code may or may not perform
     either { evt := E(self, "ready.contains", task, B(InSeq(ready, task))); }
     or { evt := Tau(self); };
FS2: if (first) { ready := <<task>> \o ready; evt := E(self, "ready.appendleft", task, "-"); }
     else { ready := Append(ready, task); evt := E(self, "ready.append", task, "-"); };
FS3: if (Threaded) { ev := TRUE; evt := E(self, "ev.set", NoArg, "-"); }
     else { hubPipe := hubPipe + 1; evt := E(self, "hubpipe.ping", NoArg, "-"); };
     return;
}

\* one pass of SelectHub._select (no timers are registered in these scenarios)
procedure HubPass()
  variables ro = {}, item = NoArg;
{
HP1: await hubPipe > 0 \/ (CL \in hubTasks /\ clPipe > 0);       \* select(): no timeout
     ro := (IF hubPipe > 0 THEN {"hub"} ELSE {}) \cup (IF CL \in hubTasks /\ clPipe > 0 THEN {"cl"} ELSE {});
     evt := E(self, "hub.select", NoArg, SelCode(ro));
HP2: if ("hub" \in ro) {
       hubPipe := 0; evt := E(self, "hubpipe.pong", NoArg, "-");
HP3:   while (TRUE) {
         evt := E(self, "incoming.empty", NoArg, B(incoming = <<>>));
         if (incoming = <<>>) { goto HP5; };
HP4:     item := Head(incoming); incoming := Tail(incoming); hubTasks := hubTasks \cup {item};
         evt := E(self, "incoming.get", item, "-");
       };
     } else { evt := Tau(self); };
HP5: evt := Tau(self);
     if ("cl" \in ro) {
       hubTasks := hubTasks \ {CL};
       call FastSchedule(CL, FALSE);
     };
HP6: evt := Tau(self);
     return;
}

fair process (Sched = "S")
  variables cur = NoArg, clFirst = TRUE, systep = [n \in 1..2 |-> 1], e = NoArg;
{
S1: while (TRUE) {
      evt := E("S", "ready.len", NoArg, IF ready = <<>> THEN "zero" ELSE "nonzero");
      if (ready = <<>>) {
        if (Threaded) {
S2:       await ev; evt := E("S", "ev.wait", NoArg, "-");          \* idle(): event.wait, no timeout
S3:       ev := FALSE; evt := E("S", "ev.clear", NoArg, "-");
        } else {
          call HubPass();                                           \* idle(): inline select pass
        };
      };
S4:   if (ready = <<>>) {                                           \* cycle(): popleft
        evt := E("S", "ready.popleft", NoArg, "empty");
      } else {
        cur := Head(ready); ready := Tail(ready);
        evt := E("S", "ready.popleft", cur, "item");
S5:     if (cur[1] = "ST") {
          \* ScheduleTask.run: queue the target unless it is queued already
          evt := E("S", "ready.contains", Target(cur), B(InSeq(ready, Target(cur))));
          if (~InSeq(ready, Target(cur))) {
            call FastSchedule(Target(cur), TRUE);
          };
        } else if (cur[1] = "T") {
          tRuns := tRuns + 1; evt := E("S", "run", TT, "-");
        } else if (cur[1] = "CL") {
          if (clFirst) { clFirst := FALSE; evt := Tau("S"); }
          else {
            clPipe := 0; evt := E("S", "clpipe.pong", NoArg, "-");
CL2:        while (TRUE) {
              if (calls = <<>>) { evt := E("S", "calls.popleft", NoArg, "empty"); goto CL4; }
              else { e := Head(calls); calls := Tail(calls); evt := E("S", "calls.popleft", e, "item"); };
CL3:          ran := Append(ran, e); evt := E("S", "run", e, "-");
            };
          };
CL4:      incoming := Append(incoming, CL); evt := E("S", "incoming.put", CL, "-");   \* yield Select([pinger])
CL5:      hubPipe := hubPipe + 1; evt := E("S", "hubpipe.ping", NoArg, "-");
        } else if (cur[1] = "SY") {
          if (systep[cur[3]] = 1) {
            systep[cur[3]] := 2; ready := Append(ready, cur);        \* yield 0
            evt := E("S", "ready.append", cur, "-");
          } else {
            inlock[cur[3]] := FALSE; evt := E("S", "inlock.release", LK(cur[3]), "-");
SY2:        await ~outlock[cur[3]]; outlock[cur[3]] := TRUE;          \* blocks the scheduler thread
            evt := E("S", "outlock.acquire", LK(cur[3]), "-");
          };
        };
S6:     cur := NoArg; evt := Tau("S");
      };
    }
}

fair process (Hub = "H")
{
H1: while (TRUE) {
      await Threaded; evt := Tau("H");
      call HubPass();
    }
}

fair process (F \in Foreign)
  variables ix = 1, op = "-";
{
F0: while (ix <= Len(Prog[self])) {
      op := Prog[self][ix]; evt := Tau(self);
      if (op = "call") {
F1:     await ~slock; slock := TRUE; evt := E(self, "slock.acquire", NoArg, "-");
F2:     evt := Tau(self);
        if (~clCreated) {
          clCreated := TRUE;
          call FastSchedule(ST("CL", FNum[self], ix), FALSE);       \* CallLaterTask().start()
        };
F3:     slock := FALSE; evt := E(self, "slock.release", NoArg, "-");
F4:     calls := Append(calls, CB(FNum[self], ix)); submitted := Append(submitted, CB(FNum[self], ix));
        evt := E(self, "calls.append", CB(FNum[self], ix), "-");
F5:     clPipe := clPipe + 1; evt := E(self, "clpipe.ping", NoArg, "-");
      } else if (op = "sched") {
        tReq := tReq + 1;
        call FastSchedule(ST("T", FNum[self], ix), FALSE);          \* schedule(T) via a ScheduleTask
      } else {
        call FastSchedule(ST("SY", FNum[self], ix), FALSE);         \* Synchronizer.__enter__
Y2:     await ~inlock[FNum[self]]; inlock[FNum[self]] := TRUE;
        evt := E(self, "inlock.acquire", LK(FNum[self]), "-");
Y3:     inCS := inCS \cup {self}; evt := E(self, "cs.enter", LK(FNum[self]), "-");
Y4:     inCS := inCS \ {self}; evt := E(self, "cs.exit", LK(FNum[self]), "-");
Y5:     outlock[FNum[self]] := FALSE; evt := E(self, "outlock.release", LK(FNum[self]), "-");
      };
F9:   ix := ix + 1; evt := Tau(self);
    }
}
} *)
\* BEGIN TRANSLATION
CONSTANT defaultInitValue
VARIABLES pc, ready, calls, clPipe, hubPipe, ev, incoming, hubTasks, slock, 
          clCreated, inlock, outlock, ran, submitted, tReq, tRuns, inCS, 
          assertFailed, evt, stack

(* define statement *)
Count(t) == Cardinality({i \in 1..Len(ready) : ready[i] = t})

VARIABLES task, first, ro, item, cur, clFirst, systep, e, ix, op

vars == << pc, ready, calls, clPipe, hubPipe, ev, incoming, hubTasks, slock, 
           clCreated, inlock, outlock, ran, submitted, tReq, tRuns, inCS, 
           assertFailed, evt, stack, task, first, ro, item, cur, clFirst, 
           systep, e, ix, op >>

ProcSet == {"S"} \cup {"H"} \cup (Foreign)

Init == (* Global variables *)
        /\ ready = <<>>
        /\ calls = <<>>
        /\ clPipe = 0
        /\ hubPipe = 0
        /\ ev = FALSE
        /\ incoming = <<>>
        /\ hubTasks = {}
        /\ slock = FALSE
        /\ clCreated = FALSE
        /\ inlock = [n \in 1..2 |-> TRUE]
        /\ outlock = [n \in 1..2 |-> TRUE]
        /\ ran = <<>>
        /\ submitted = <<>>
        /\ tReq = 0
        /\ tRuns = 0
        /\ inCS = {}
        /\ assertFailed = FALSE
        /\ evt = [th |-> "-", op |-> "init", arg |-> NoArg, res |-> "-"]
        (* Procedure FastSchedule *)
        /\ task = [ self \in ProcSet |-> defaultInitValue]
        /\ first = [ self \in ProcSet |-> defaultInitValue]
        (* Procedure HubPass *)
        /\ ro = [ self \in ProcSet |-> {}]
        /\ item = [ self \in ProcSet |-> NoArg]
        (* Process Sched *)
        /\ cur = NoArg
        /\ clFirst = TRUE
        /\ systep = [n \in 1..2 |-> 1]
        /\ e = NoArg
        (* Process F *)
        /\ ix = [self \in Foreign |-> 1]
        /\ op = [self \in Foreign |-> "-"]
        /\ stack = [self \in ProcSet |-> << >>]
        /\ pc = [self \in ProcSet |-> CASE self = "S" -> "S1"
                                        [] self = "H" -> "H1"
                                        [] self \in Foreign -> "F0"]

FS1(self) == /\ pc[self] = "FS1"
             /\ assertFailed' = (assertFailed \/ InSeq(ready, task[self]))
             /\ \/ /\ evt' = E(self, "ready.contains", task[self], B(InSeq(ready, task[self])))
                \/ /\ evt' = Tau(self)
             /\ pc' = [pc EXCEPT ![self] = "FS2"]
             /\ UNCHANGED << ready, calls, clPipe, hubPipe, ev, incoming, 
                             hubTasks, slock, clCreated, inlock, outlock, ran, 
                             submitted, tReq, tRuns, inCS, stack, task, first, 
                             ro, item, cur, clFirst, systep, e, ix, op >>

FS2(self) == /\ pc[self] = "FS2"
             /\ IF first[self]
                   THEN /\ ready' = <<task[self]>> \o ready
                        /\ evt' = E(self, "ready.appendleft", task[self], "-")
                   ELSE /\ ready' = Append(ready, task[self])
                        /\ evt' = E(self, "ready.append", task[self], "-")
             /\ pc' = [pc EXCEPT ![self] = "FS3"]
             /\ UNCHANGED << calls, clPipe, hubPipe, ev, incoming, hubTasks, 
                             slock, clCreated, inlock, outlock, ran, submitted, 
                             tReq, tRuns, inCS, assertFailed, stack, task, 
                             first, ro, item, cur, clFirst, systep, e, ix, op >>

FS3(self) == /\ pc[self] = "FS3"
             /\ IF Threaded
                   THEN /\ ev' = TRUE
                        /\ evt' = E(self, "ev.set", NoArg, "-")
                        /\ UNCHANGED hubPipe
                   ELSE /\ hubPipe' = hubPipe + 1
                        /\ evt' = E(self, "hubpipe.ping", NoArg, "-")
                        /\ ev' = ev
             /\ pc' = [pc EXCEPT ![self] = Head(stack[self]).pc]
             /\ task' = [task EXCEPT ![self] = Head(stack[self]).task]
             /\ first' = [first EXCEPT ![self] = Head(stack[self]).first]
             /\ stack' = [stack EXCEPT ![self] = Tail(stack[self])]
             /\ UNCHANGED << ready, calls, clPipe, incoming, hubTasks, slock, 
                             clCreated, inlock, outlock, ran, submitted, tReq, 
                             tRuns, inCS, assertFailed, ro, item, cur, clFirst, 
                             systep, e, ix, op >>

FastSchedule(self) == FS1(self) \/ FS2(self) \/ FS3(self)

HP1(self) == /\ pc[self] = "HP1"
             /\ hubPipe > 0 \/ (CL \in hubTasks /\ clPipe > 0)
             /\ ro' = [ro EXCEPT ![self] = (IF hubPipe > 0 THEN {"hub"} ELSE {}) \cup (IF CL \in hubTasks /\ clPipe > 0 THEN {"cl"} ELSE {})]
             /\ evt' = E(self, "hub.select", NoArg, SelCode(ro'[self]))
             /\ pc' = [pc EXCEPT ![self] = "HP2"]
             /\ UNCHANGED << ready, calls, clPipe, hubPipe, ev, incoming, 
                             hubTasks, slock, clCreated, inlock, outlock, ran, 
                             submitted, tReq, tRuns, inCS, assertFailed, stack, 
                             task, first, item, cur, clFirst, systep, e, ix, 
                             op >>

HP2(self) == /\ pc[self] = "HP2"
             /\ IF "hub" \in ro[self]
                   THEN /\ hubPipe' = 0
                        /\ evt' = E(self, "hubpipe.pong", NoArg, "-")
                        /\ pc' = [pc EXCEPT ![self] = "HP3"]
                   ELSE /\ evt' = Tau(self)
                        /\ pc' = [pc EXCEPT ![self] = "HP5"]
                        /\ UNCHANGED hubPipe
             /\ UNCHANGED << ready, calls, clPipe, ev, incoming, hubTasks, 
                             slock, clCreated, inlock, outlock, ran, submitted, 
                             tReq, tRuns, inCS, assertFailed, stack, task, 
                             first, ro, item, cur, clFirst, systep, e, ix, op >>

HP3(self) == /\ pc[self] = "HP3"
             /\ evt' = E(self, "incoming.empty", NoArg, B(incoming = <<>>))
             /\ IF incoming = <<>>
                   THEN /\ pc' = [pc EXCEPT ![self] = "HP5"]
                   ELSE /\ pc' = [pc EXCEPT ![self] = "HP4"]
             /\ UNCHANGED << ready, calls, clPipe, hubPipe, ev, incoming, 
                             hubTasks, slock, clCreated, inlock, outlock, ran, 
                             submitted, tReq, tRuns, inCS, assertFailed, stack, 
                             task, first, ro, item, cur, clFirst, systep, e, 
                             ix, op >>

HP4(self) == /\ pc[self] = "HP4"
             /\ item' = [item EXCEPT ![self] = Head(incoming)]
             /\ incoming' = Tail(incoming)
             /\ hubTasks' = (hubTasks \cup {item'[self]})
             /\ evt' = E(self, "incoming.get", item'[self], "-")
             /\ pc' = [pc EXCEPT ![self] = "HP3"]
             /\ UNCHANGED << ready, calls, clPipe, hubPipe, ev, slock, 
                             clCreated, inlock, outlock, ran, submitted, tReq, 
                             tRuns, inCS, assertFailed, stack, task, first, ro, 
                             cur, clFirst, systep, e, ix, op >>

HP5(self) == /\ pc[self] = "HP5"
             /\ evt' = Tau(self)
             /\ IF "cl" \in ro[self]
                   THEN /\ hubTasks' = hubTasks \ {CL}
                        /\ /\ first' = [first EXCEPT ![self] = FALSE]
                           /\ stack' = [stack EXCEPT ![self] = << [ procedure |->  "FastSchedule",
                                                                    pc        |->  "HP6",
                                                                    task      |->  task[self],
                                                                    first     |->  first[self] ] >>
                                                                \o stack[self]]
                           /\ task' = [task EXCEPT ![self] = CL]
                        /\ pc' = [pc EXCEPT ![self] = "FS1"]
                   ELSE /\ pc' = [pc EXCEPT ![self] = "HP6"]
                        /\ UNCHANGED << hubTasks, stack, task, first >>
             /\ UNCHANGED << ready, calls, clPipe, hubPipe, ev, incoming, 
                             slock, clCreated, inlock, outlock, ran, submitted, 
                             tReq, tRuns, inCS, assertFailed, ro, item, cur, 
                             clFirst, systep, e, ix, op >>

HP6(self) == /\ pc[self] = "HP6"
             /\ evt' = Tau(self)
             /\ pc' = [pc EXCEPT ![self] = Head(stack[self]).pc]
             /\ ro' = [ro EXCEPT ![self] = Head(stack[self]).ro]
             /\ item' = [item EXCEPT ![self] = Head(stack[self]).item]
             /\ stack' = [stack EXCEPT ![self] = Tail(stack[self])]
             /\ UNCHANGED << ready, calls, clPipe, hubPipe, ev, incoming, 
                             hubTasks, slock, clCreated, inlock, outlock, ran, 
                             submitted, tReq, tRuns, inCS, assertFailed, task, 
                             first, cur, clFirst, systep, e, ix, op >>

HubPass(self) == HP1(self) \/ HP2(self) \/ HP3(self) \/ HP4(self)
                    \/ HP5(self) \/ HP6(self)

S1 == /\ pc["S"] = "S1"
      /\ evt' = E("S", "ready.len", NoArg, IF ready = <<>> THEN "zero" ELSE "nonzero")
      /\ IF ready = <<>>
            THEN /\ IF Threaded
                       THEN /\ pc' = [pc EXCEPT !["S"] = "S2"]
                            /\ UNCHANGED << stack, ro, item >>
                       ELSE /\ stack' = [stack EXCEPT !["S"] = << [ procedure |->  "HubPass",
                                                                    pc        |->  "S4",
                                                                    ro        |->  ro["S"],
                                                                    item      |->  item["S"] ] >>
                                                                \o stack["S"]]
                            /\ ro' = [ro EXCEPT !["S"] = {}]
                            /\ item' = [item EXCEPT !["S"] = NoArg]
                            /\ pc' = [pc EXCEPT !["S"] = "HP1"]
            ELSE /\ pc' = [pc EXCEPT !["S"] = "S4"]
                 /\ UNCHANGED << stack, ro, item >>
      /\ UNCHANGED << ready, calls, clPipe, hubPipe, ev, incoming, hubTasks, 
                      slock, clCreated, inlock, outlock, ran, submitted, tReq, 
                      tRuns, inCS, assertFailed, task, first, cur, clFirst, 
                      systep, e, ix, op >>

S4 == /\ pc["S"] = "S4"
      /\ IF ready = <<>>
            THEN /\ evt' = E("S", "ready.popleft", NoArg, "empty")
                 /\ pc' = [pc EXCEPT !["S"] = "S1"]
                 /\ UNCHANGED << ready, cur >>
            ELSE /\ cur' = Head(ready)
                 /\ ready' = Tail(ready)
                 /\ evt' = E("S", "ready.popleft", cur', "item")
                 /\ pc' = [pc EXCEPT !["S"] = "S5"]
      /\ UNCHANGED << calls, clPipe, hubPipe, ev, incoming, hubTasks, slock, 
                      clCreated, inlock, outlock, ran, submitted, tReq, tRuns, 
                      inCS, assertFailed, stack, task, first, ro, item, 
                      clFirst, systep, e, ix, op >>

S5 == /\ pc["S"] = "S5"
      /\ IF cur[1] = "ST"
            THEN /\ evt' = E("S", "ready.contains", Target(cur), B(InSeq(ready, Target(cur))))
                 /\ IF ~InSeq(ready, Target(cur))
                       THEN /\ /\ first' = [first EXCEPT !["S"] = TRUE]
                               /\ stack' = [stack EXCEPT !["S"] = << [ procedure |->  "FastSchedule",
                                                                       pc        |->  "S6",
                                                                       task      |->  task["S"],
                                                                       first     |->  first["S"] ] >>
                                                                   \o stack["S"]]
                               /\ task' = [task EXCEPT !["S"] = Target(cur)]
                            /\ pc' = [pc EXCEPT !["S"] = "FS1"]
                       ELSE /\ pc' = [pc EXCEPT !["S"] = "S6"]
                            /\ UNCHANGED << stack, task, first >>
                 /\ UNCHANGED << ready, clPipe, inlock, tRuns, clFirst, systep >>
            ELSE /\ IF cur[1] = "T"
                       THEN /\ tRuns' = tRuns + 1
                            /\ evt' = E("S", "run", TT, "-")
                            /\ pc' = [pc EXCEPT !["S"] = "S6"]
                            /\ UNCHANGED << ready, clPipe, inlock, clFirst, 
                                            systep >>
                       ELSE /\ IF cur[1] = "CL"
                                  THEN /\ IF clFirst
                                             THEN /\ clFirst' = FALSE
                                                  /\ evt' = Tau("S")
                                                  /\ pc' = [pc EXCEPT !["S"] = "CL4"]
                                                  /\ UNCHANGED clPipe
                                             ELSE /\ clPipe' = 0
                                                  /\ evt' = E("S", "clpipe.pong", NoArg, "-")
                                                  /\ pc' = [pc EXCEPT !["S"] = "CL2"]
                                                  /\ UNCHANGED clFirst
                                       /\ UNCHANGED << ready, inlock, systep >>
                                  ELSE /\ IF cur[1] = "SY"
                                             THEN /\ IF systep[cur[3]] = 1
                                                        THEN /\ systep' = [systep EXCEPT ![cur[3]] = 2]
                                                             /\ ready' = Append(ready, cur)
                                                             /\ evt' = E("S", "ready.append", cur, "-")
                                                             /\ pc' = [pc EXCEPT !["S"] = "S6"]
                                                             /\ UNCHANGED inlock
                                                        ELSE /\ inlock' = [inlock EXCEPT ![cur[3]] = FALSE]
                                                             /\ evt' = E("S", "inlock.release", LK(cur[3]), "-")
                                                             /\ pc' = [pc EXCEPT !["S"] = "SY2"]
                                                             /\ UNCHANGED << ready, 
                                                                             systep >>
                                             ELSE /\ pc' = [pc EXCEPT !["S"] = "S6"]
                                                  /\ UNCHANGED << ready, 
                                                                  inlock, evt, 
                                                                  systep >>
                                       /\ UNCHANGED << clPipe, clFirst >>
                            /\ tRuns' = tRuns
                 /\ UNCHANGED << stack, task, first >>
      /\ UNCHANGED << calls, hubPipe, ev, incoming, hubTasks, slock, clCreated, 
                      outlock, ran, submitted, tReq, inCS, assertFailed, ro, 
                      item, cur, e, ix, op >>

CL4 == /\ pc["S"] = "CL4"
       /\ incoming' = Append(incoming, CL)
       /\ evt' = E("S", "incoming.put", CL, "-")
       /\ pc' = [pc EXCEPT !["S"] = "CL5"]
       /\ UNCHANGED << ready, calls, clPipe, hubPipe, ev, hubTasks, slock, 
                       clCreated, inlock, outlock, ran, submitted, tReq, tRuns, 
                       inCS, assertFailed, stack, task, first, ro, item, cur, 
                       clFirst, systep, e, ix, op >>

CL5 == /\ pc["S"] = "CL5"
       /\ hubPipe' = hubPipe + 1
       /\ evt' = E("S", "hubpipe.ping", NoArg, "-")
       /\ pc' = [pc EXCEPT !["S"] = "S6"]
       /\ UNCHANGED << ready, calls, clPipe, ev, incoming, hubTasks, slock, 
                       clCreated, inlock, outlock, ran, submitted, tReq, tRuns, 
                       inCS, assertFailed, stack, task, first, ro, item, cur, 
                       clFirst, systep, e, ix, op >>

CL2 == /\ pc["S"] = "CL2"
       /\ IF calls = <<>>
             THEN /\ evt' = E("S", "calls.popleft", NoArg, "empty")
                  /\ pc' = [pc EXCEPT !["S"] = "CL4"]
                  /\ UNCHANGED << calls, e >>
             ELSE /\ e' = Head(calls)
                  /\ calls' = Tail(calls)
                  /\ evt' = E("S", "calls.popleft", e', "item")
                  /\ pc' = [pc EXCEPT !["S"] = "CL3"]
       /\ UNCHANGED << ready, clPipe, hubPipe, ev, incoming, hubTasks, slock, 
                       clCreated, inlock, outlock, ran, submitted, tReq, tRuns, 
                       inCS, assertFailed, stack, task, first, ro, item, cur, 
                       clFirst, systep, ix, op >>

CL3 == /\ pc["S"] = "CL3"
       /\ ran' = Append(ran, e)
       /\ evt' = E("S", "run", e, "-")
       /\ pc' = [pc EXCEPT !["S"] = "CL2"]
       /\ UNCHANGED << ready, calls, clPipe, hubPipe, ev, incoming, hubTasks, 
                       slock, clCreated, inlock, outlock, submitted, tReq, 
                       tRuns, inCS, assertFailed, stack, task, first, ro, item, 
                       cur, clFirst, systep, e, ix, op >>

SY2 == /\ pc["S"] = "SY2"
       /\ ~outlock[cur[3]]
       /\ outlock' = [outlock EXCEPT ![cur[3]] = TRUE]
       /\ evt' = E("S", "outlock.acquire", LK(cur[3]), "-")
       /\ pc' = [pc EXCEPT !["S"] = "S6"]
       /\ UNCHANGED << ready, calls, clPipe, hubPipe, ev, incoming, hubTasks, 
                       slock, clCreated, inlock, ran, submitted, tReq, tRuns, 
                       inCS, assertFailed, stack, task, first, ro, item, cur, 
                       clFirst, systep, e, ix, op >>

S6 == /\ pc["S"] = "S6"
      /\ cur' = NoArg
      /\ evt' = Tau("S")
      /\ pc' = [pc EXCEPT !["S"] = "S1"]
      /\ UNCHANGED << ready, calls, clPipe, hubPipe, ev, incoming, hubTasks, 
                      slock, clCreated, inlock, outlock, ran, submitted, tReq, 
                      tRuns, inCS, assertFailed, stack, task, first, ro, item, 
                      clFirst, systep, e, ix, op >>

S2 == /\ pc["S"] = "S2"
      /\ ev
      /\ evt' = E("S", "ev.wait", NoArg, "-")
      /\ pc' = [pc EXCEPT !["S"] = "S3"]
      /\ UNCHANGED << ready, calls, clPipe, hubPipe, ev, incoming, hubTasks, 
                      slock, clCreated, inlock, outlock, ran, submitted, tReq, 
                      tRuns, inCS, assertFailed, stack, task, first, ro, item, 
                      cur, clFirst, systep, e, ix, op >>

S3 == /\ pc["S"] = "S3"
      /\ ev' = FALSE
      /\ evt' = E("S", "ev.clear", NoArg, "-")
      /\ pc' = [pc EXCEPT !["S"] = "S4"]
      /\ UNCHANGED << ready, calls, clPipe, hubPipe, incoming, hubTasks, slock, 
                      clCreated, inlock, outlock, ran, submitted, tReq, tRuns, 
                      inCS, assertFailed, stack, task, first, ro, item, cur, 
                      clFirst, systep, e, ix, op >>

Sched == S1 \/ S4 \/ S5 \/ CL4 \/ CL5 \/ CL2 \/ CL3 \/ SY2 \/ S6 \/ S2
            \/ S3

H1 == /\ pc["H"] = "H1"
      /\ Threaded
      /\ evt' = Tau("H")
      /\ stack' = [stack EXCEPT !["H"] = << [ procedure |->  "HubPass",
                                              pc        |->  "H1",
                                              ro        |->  ro["H"],
                                              item      |->  item["H"] ] >>
                                          \o stack["H"]]
      /\ ro' = [ro EXCEPT !["H"] = {}]
      /\ item' = [item EXCEPT !["H"] = NoArg]
      /\ pc' = [pc EXCEPT !["H"] = "HP1"]
      /\ UNCHANGED << ready, calls, clPipe, hubPipe, ev, incoming, hubTasks, 
                      slock, clCreated, inlock, outlock, ran, submitted, tReq, 
                      tRuns, inCS, assertFailed, task, first, cur, clFirst, 
                      systep, e, ix, op >>

Hub == H1

F0(self) == /\ pc[self] = "F0"
            /\ IF ix[self] <= Len(Prog[self])
                  THEN /\ op' = [op EXCEPT ![self] = Prog[self][ix[self]]]
                       /\ evt' = Tau(self)
                       /\ IF op'[self] = "call"
                             THEN /\ pc' = [pc EXCEPT ![self] = "F1"]
                                  /\ UNCHANGED << tReq, stack, task, first >>
                             ELSE /\ IF op'[self] = "sched"
                                        THEN /\ tReq' = tReq + 1
                                             /\ /\ first' = [first EXCEPT ![self] = FALSE]
                                                /\ stack' = [stack EXCEPT ![self] = << [ procedure |->  "FastSchedule",
                                                                                         pc        |->  "F9",
                                                                                         task      |->  task[self],
                                                                                         first     |->  first[self] ] >>
                                                                                     \o stack[self]]
                                                /\ task' = [task EXCEPT ![self] = ST("T", FNum[self], ix[self])]
                                             /\ pc' = [pc EXCEPT ![self] = "FS1"]
                                        ELSE /\ /\ first' = [first EXCEPT ![self] = FALSE]
                                                /\ stack' = [stack EXCEPT ![self] = << [ procedure |->  "FastSchedule",
                                                                                         pc        |->  "Y2",
                                                                                         task      |->  task[self],
                                                                                         first     |->  first[self] ] >>
                                                                                     \o stack[self]]
                                                /\ task' = [task EXCEPT ![self] = ST("SY", FNum[self], ix[self])]
                                             /\ pc' = [pc EXCEPT ![self] = "FS1"]
                                             /\ tReq' = tReq
                  ELSE /\ pc' = [pc EXCEPT ![self] = "Done"]
                       /\ UNCHANGED << tReq, evt, stack, task, first, op >>
            /\ UNCHANGED << ready, calls, clPipe, hubPipe, ev, incoming, 
                            hubTasks, slock, clCreated, inlock, outlock, ran, 
                            submitted, tRuns, inCS, assertFailed, ro, item, 
                            cur, clFirst, systep, e, ix >>

F9(self) == /\ pc[self] = "F9"
            /\ ix' = [ix EXCEPT ![self] = ix[self] + 1]
            /\ evt' = Tau(self)
            /\ pc' = [pc EXCEPT ![self] = "F0"]
            /\ UNCHANGED << ready, calls, clPipe, hubPipe, ev, incoming, 
                            hubTasks, slock, clCreated, inlock, outlock, ran, 
                            submitted, tReq, tRuns, inCS, assertFailed, stack, 
                            task, first, ro, item, cur, clFirst, systep, e, op >>

F1(self) == /\ pc[self] = "F1"
            /\ ~slock
            /\ slock' = TRUE
            /\ evt' = E(self, "slock.acquire", NoArg, "-")
            /\ pc' = [pc EXCEPT ![self] = "F2"]
            /\ UNCHANGED << ready, calls, clPipe, hubPipe, ev, incoming, 
                            hubTasks, clCreated, inlock, outlock, ran, 
                            submitted, tReq, tRuns, inCS, assertFailed, stack, 
                            task, first, ro, item, cur, clFirst, systep, e, ix, 
                            op >>

F2(self) == /\ pc[self] = "F2"
            /\ evt' = Tau(self)
            /\ IF ~clCreated
                  THEN /\ clCreated' = TRUE
                       /\ /\ first' = [first EXCEPT ![self] = FALSE]
                          /\ stack' = [stack EXCEPT ![self] = << [ procedure |->  "FastSchedule",
                                                                   pc        |->  "F3",
                                                                   task      |->  task[self],
                                                                   first     |->  first[self] ] >>
                                                               \o stack[self]]
                          /\ task' = [task EXCEPT ![self] = ST("CL", FNum[self], ix[self])]
                       /\ pc' = [pc EXCEPT ![self] = "FS1"]
                  ELSE /\ pc' = [pc EXCEPT ![self] = "F3"]
                       /\ UNCHANGED << clCreated, stack, task, first >>
            /\ UNCHANGED << ready, calls, clPipe, hubPipe, ev, incoming, 
                            hubTasks, slock, inlock, outlock, ran, submitted, 
                            tReq, tRuns, inCS, assertFailed, ro, item, cur, 
                            clFirst, systep, e, ix, op >>

F3(self) == /\ pc[self] = "F3"
            /\ slock' = FALSE
            /\ evt' = E(self, "slock.release", NoArg, "-")
            /\ pc' = [pc EXCEPT ![self] = "F4"]
            /\ UNCHANGED << ready, calls, clPipe, hubPipe, ev, incoming, 
                            hubTasks, clCreated, inlock, outlock, ran, 
                            submitted, tReq, tRuns, inCS, assertFailed, stack, 
                            task, first, ro, item, cur, clFirst, systep, e, ix, 
                            op >>

F4(self) == /\ pc[self] = "F4"
            /\ calls' = Append(calls, CB(FNum[self], ix[self]))
            /\ submitted' = Append(submitted, CB(FNum[self], ix[self]))
            /\ evt' = E(self, "calls.append", CB(FNum[self], ix[self]), "-")
            /\ pc' = [pc EXCEPT ![self] = "F5"]
            /\ UNCHANGED << ready, clPipe, hubPipe, ev, incoming, hubTasks, 
                            slock, clCreated, inlock, outlock, ran, tReq, 
                            tRuns, inCS, assertFailed, stack, task, first, ro, 
                            item, cur, clFirst, systep, e, ix, op >>

F5(self) == /\ pc[self] = "F5"
            /\ clPipe' = clPipe + 1
            /\ evt' = E(self, "clpipe.ping", NoArg, "-")
            /\ pc' = [pc EXCEPT ![self] = "F9"]
            /\ UNCHANGED << ready, calls, hubPipe, ev, incoming, hubTasks, 
                            slock, clCreated, inlock, outlock, ran, submitted, 
                            tReq, tRuns, inCS, assertFailed, stack, task, 
                            first, ro, item, cur, clFirst, systep, e, ix, op >>

Y2(self) == /\ pc[self] = "Y2"
            /\ ~inlock[FNum[self]]
            /\ inlock' = [inlock EXCEPT ![FNum[self]] = TRUE]
            /\ evt' = E(self, "inlock.acquire", LK(FNum[self]), "-")
            /\ pc' = [pc EXCEPT ![self] = "Y3"]
            /\ UNCHANGED << ready, calls, clPipe, hubPipe, ev, incoming, 
                            hubTasks, slock, clCreated, outlock, ran, 
                            submitted, tReq, tRuns, inCS, assertFailed, stack, 
                            task, first, ro, item, cur, clFirst, systep, e, ix, 
                            op >>

Y3(self) == /\ pc[self] = "Y3"
            /\ inCS' = (inCS \cup {self})
            /\ evt' = E(self, "cs.enter", LK(FNum[self]), "-")
            /\ pc' = [pc EXCEPT ![self] = "Y4"]
            /\ UNCHANGED << ready, calls, clPipe, hubPipe, ev, incoming, 
                            hubTasks, slock, clCreated, inlock, outlock, ran, 
                            submitted, tReq, tRuns, assertFailed, stack, task, 
                            first, ro, item, cur, clFirst, systep, e, ix, op >>

Y4(self) == /\ pc[self] = "Y4"
            /\ inCS' = inCS \ {self}
            /\ evt' = E(self, "cs.exit", LK(FNum[self]), "-")
            /\ pc' = [pc EXCEPT ![self] = "Y5"]
            /\ UNCHANGED << ready, calls, clPipe, hubPipe, ev, incoming, 
                            hubTasks, slock, clCreated, inlock, outlock, ran, 
                            submitted, tReq, tRuns, assertFailed, stack, task, 
                            first, ro, item, cur, clFirst, systep, e, ix, op >>

Y5(self) == /\ pc[self] = "Y5"
            /\ outlock' = [outlock EXCEPT ![FNum[self]] = FALSE]
            /\ evt' = E(self, "outlock.release", LK(FNum[self]), "-")
            /\ pc' = [pc EXCEPT ![self] = "F9"]
            /\ UNCHANGED << ready, calls, clPipe, hubPipe, ev, incoming, 
                            hubTasks, slock, clCreated, inlock, ran, submitted, 
                            tReq, tRuns, inCS, assertFailed, stack, task, 
                            first, ro, item, cur, clFirst, systep, e, ix, op >>

F(self) == F0(self) \/ F9(self) \/ F1(self) \/ F2(self) \/ F3(self)
              \/ F4(self) \/ F5(self) \/ Y2(self) \/ Y3(self) \/ Y4(self)
              \/ Y5(self)

Next == Sched \/ Hub
           \/ (\E self \in ProcSet: FastSchedule(self) \/ HubPass(self))
           \/ (\E self \in Foreign: F(self))

Spec == /\ Init /\ [][Next]_vars
        /\ WF_vars(Sched) /\ WF_vars(HubPass("S")) /\ WF_vars(FastSchedule("S"))
        /\ WF_vars(Hub) /\ WF_vars(HubPass("H")) /\ WF_vars(FastSchedule("H"))
        /\ \A self \in Foreign : WF_vars(F(self)) /\ WF_vars(FastSchedule(self))

\* END TRANSLATION

----------------------------------------------------------------------------
NoDup == \A i, j \in 1..Len(ran) : i # j => ran[i] # ran[j]
OnlySubmitted == \A i \in 1..Len(ran) : InSeq(submitted, ran[i])
PerThreadOrder == \A i, j \in 1..Len(ran) : (i < j /\ ran[i][3] = ran[j][3]) => ran[i][4] < ran[j][4]
QueuedOnce == Count(CL) <= 1 /\ Count(TT) <= 1 /\ \A n \in 1..2 : Count(SY(n)) <= 1
AssertHolds == ~assertFailed
\* at most one foreign thread in the synchronized section, and then the scheduler thread
\* is parked inside the SyncTask (it runs no cooperative task)
Mutex == /\ Cardinality(inCS) <= 1
         /\ (inCS # {} => pc["S"] = "SY2")
AllDone == \A f \in Foreign : pc[f] = "Done"
Complete == Len(ran) = Len(submitted) /\ (tReq > 0 => tRuns > 0)
\* liveness without any poll timeout: once the foreign threads are done, everything handed
\* over has run (and stays so)
AllRan == <>[](AllDone => Complete)
Progress == <>AllDone
=============================================================================
