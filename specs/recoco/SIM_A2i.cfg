CONSTANTS NT = 2
  Progs <- ProgsA2
  Threaded = FALSE
  MaxNow = 3
  Fds <- FdsA
  NLocks = 1
  TimerCfgs <- TimerCfgsAll
  D = 14
  KeepHist = TRUE
INIT Init
NEXT Next
INVARIANT Export
CHECK_DEADLOCK FALSE
