---- MODULE TraceThreads ----
(* Code -> spec for C07: traces of shared-state operations recorded from the real     *)
(* recoco code under the thread controller must be behaviours of Threads.tla.         *)
(* Every event names its thread; only that thread's process may step (its "tau"       *)
(* steps are silent).  The final "end" event asserts that the real system became       *)
(* quiescent: the spec must then agree that nothing handed over is still pending       *)
(* (a lost wake-up in the code makes the trace end with work pending -> rejected).     *)
EXTENDS MCThreads, Json, IOUtils, TLCExt

Traces == JsonDeserialize(IOEnv.TRACE_FILE)
NTr == Len(Traces)
VARIABLES tid, l
tvars == <<vars, tid, l>>

TrInit == Init /\ tid \in 1..NTr /\ l = 1 /\ TLCSet(tid, 0)
Ev == Traces[tid][l]
StepOf(th) == \/ (th = "S" /\ Sched) \/ (th = "H" /\ Hub) \/ (th \in Foreign /\ F(th))
              \/ (th \in ProcSet /\ (FastSchedule(th) \/ HubPass(th)))
TrStep ==
  /\ l <= Len(Traces[tid]) /\ Ev.op # "end"
  /\ StepOf(Ev.th)
  /\ \/ (evt'.op = "tau" /\ l' = l)
     \/ (/\ evt' = [th |-> Ev.th, op |-> Ev.op,
                    arg |-> <<Ev.arg[1], Ev.arg[2], Ev.arg[3], Ev.arg[4]>>, res |-> Ev.res]
         /\ l' = l + 1)
  /\ UNCHANGED tid
TrEnd ==
  /\ l <= Len(Traces[tid]) /\ Ev.op = "end"
  /\ AllDone /\ Complete
  /\ l' = l + 1 /\ UNCHANGED <<vars, tid>>
TrDrain ==      \* before the final check every thread may finish its silent bookkeeping steps
  /\ l <= Len(Traces[tid]) /\ Ev.op = "end"
  /\ \E th \in ProcSet : StepOf(th)
  /\ evt'.op = "tau" /\ l' = l /\ UNCHANGED tid
TrNext == TrStep \/ TrEnd \/ TrDrain

Progress2 == TLCSet(tid, IF TLCGet(tid) < l - 1 THEN l - 1 ELSE TLCGet(tid))
Ok(t) == TLCGet(t) = Len(Traces[t]) \/ (PrintT(<<"REJECT", t, TLCGet(t)>>) /\ FALSE)
Accepted == /\ PrintT(<<"TRACES-CHECKED", NTr>>)
            /\ Cardinality({t \in 1..NTr : ~Ok(t)}) = 0
====
