CONSTANTS NT = 3
  Progs <- ProgsL2
  Threaded = FALSE
  MaxNow = 0
  Fds <- NoFds
  NLocks = 2
  TimerCfgs <- NoTimers
  D = 8
  KeepHist = TRUE
INIT Init
NEXT NextQ
VIEW viewE
CONSTRAINT NowBound
ACTION_CONSTRAINT ExportT
CHECK_DEADLOCK FALSE
