---- MODULE MCThreads ----
EXTENDS Threads
F2set == {"F1", "F2"}
F1set == {"F1"}
FN == [F1 |-> 1, F2 |-> 2]
ProgP == [F1 |-> <<"call">>, F2 |-> <<"call">>]
ProgQ == [F1 |-> <<"sched">>, F2 |-> <<"sched">>]
ProgR == [F1 |-> <<"sync">>, F2 |-> <<"sync">>]
ProgA == [F1 |-> <<"call", "sync">>, F2 |-> <<"call", "sched">>]
ProgB == [F1 |-> <<"sched", "sched">>, F2 |-> <<"sched", "sync">>]
ProgC == [F1 |-> <<"call", "call">>, F2 |-> <<"sync", "call">>]
ProgD == [F1 |-> <<"call", "sched", "sync">>]
ProgE == [F1 |-> <<"call", "call", "sync">>, F2 |-> <<"sync", "call", "sched">>]
====
