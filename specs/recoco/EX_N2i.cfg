CONSTANTS NT = 1
  Progs <- ProgsN2
  Threaded = FALSE
  MaxNow = 1
  Fds <- FdsA
  NLocks = 1
  TimerCfgs <- NoTimers
  D = 8
  KeepHist = TRUE
INIT Init
NEXT NextQ
VIEW viewE
CONSTRAINT NowBound
ACTION_CONSTRAINT ExportT
CHECK_DEADLOCK FALSE
