CONSTANTS NT = 3
  Progs <- ProgsP3
  LoTasks <- Lo13
  Threaded = FALSE
  MaxNow = 1
  Fds <- NoFds
  NLocks = 1
  TimerCfgs <- NoTimers
  D = 8
  KeepHist = TRUE
INIT Init
NEXT NextQ
VIEW viewE
CONSTRAINT NowBound
INVARIANT TypeOK
INVARIANT QueuedOnce
INVARIANT Exclusive
INVARIANT DeadGone
INVARIANT CallerBlocked
INVARIANT NestedBlocked
INVARIANT TimerOK
INVARIANT LockOwnerNotWaiting
INVARIANT NoWaiterOnFreeLock
PROPERTY InOrder
PROPERTY NeverEarly
PROPERTY NoFireAfterCancel
PROPERTY FirstFireNotEarly
PROPERTY WokenIsOwner
CHECK_DEADLOCK FALSE
