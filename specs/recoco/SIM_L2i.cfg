CONSTANTS NT = 3
  Progs <- ProgsL2
  Threaded = FALSE
  MaxNow = 3
  Fds <- NoFds
  NLocks = 2
  TimerCfgs <- NoTimers
  D = 14
  KeepHist = TRUE
INIT Init
NEXT Next
INVARIANT Export
CHECK_DEADLOCK FALSE
