CONSTANTS Foreign <- F2set
  FNum <- FN
  Prog <- ProgB
  Threaded = TRUE
  defaultInitValue = defaultInitValue
SPECIFICATION Spec
INVARIANT NoDup
INVARIANT OnlySubmitted
INVARIANT PerThreadOrder
INVARIANT QueuedOnce
INVARIANT AssertHolds
INVARIANT Mutex
PROPERTY AllRan
PROPERTY Progress
CHECK_DEADLOCK FALSE
