CONSTANTS Foreign <- F2set
  FNum <- FN
  Prog <- ProgA
  Threaded = FALSE
  defaultInitValue = defaultInitValue
INIT TrInit
NEXT TrNext
CONSTRAINT Progress2
POSTCONDITION Accepted
INVARIANT NoDup
INVARIANT OnlySubmitted
INVARIANT PerThreadOrder
INVARIANT QueuedOnce
INVARIANT AssertHolds
INVARIANT Mutex
CHECK_DEADLOCK FALSE
