CONSTANTS NT = 1
  Progs <- ProgsT
  Threaded = TRUE
  MaxNow = 2
  Fds <- NoFds
  NLocks = 1
  TimerCfgs <- TimerCfgsAll
  D = 8
  KeepHist = TRUE
INIT Init
NEXT Next
VIEW viewE
CONSTRAINT NowBound
INVARIANT TypeOK
INVARIANT QueuedOnce
INVARIANT Exclusive
INVARIANT DeadGone
INVARIANT CallerBlocked
INVARIANT TimerOK
INVARIANT LockOwnerNotWaiting
INVARIANT NoWaiterOnFreeLock
PROPERTY InOrder
PROPERTY NeverEarly
PROPERTY NoFireAfterCancel
PROPERTY FirstFireNotEarly
PROPERTY WokenIsOwner
CHECK_DEADLOCK FALSE
