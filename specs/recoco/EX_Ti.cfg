CONSTANTS NT = 1
  Progs <- ProgsT
  Threaded = FALSE
  MaxNow = 2
  Fds <- NoFds
  NLocks = 1
  TimerCfgs <- TimerCfgsAll
  D = 8
  KeepHist = TRUE
INIT Init
NEXT NextQ
VIEW viewE
CONSTRAINT NowBound
ACTION_CONSTRAINT ExportT
CHECK_DEADLOCK FALSE
