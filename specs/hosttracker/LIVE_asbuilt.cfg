CONSTANTS
  Macs <- M1
  Ips <- I1
  Sw <- Sw2
  Locs <- Locs2
  Links <- Cable
  Kinds <- KFew
  ArpAware = 60
  ArpSilent = 180
  ArpReply = 30
  TimerInterval = 60
  EntryMove = 60
  PingLim = 2
  MacLife = 120
  Strict = FALSE
  Flaps = TRUE
  Deltas <- D60
  KeepHist = FALSE
  D = 0
SPECIFICATION LiveSpec
PROPERTY EventuallyForgotten
CHECK_DEADLOCK FALSE
