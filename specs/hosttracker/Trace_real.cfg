CONSTANTS
  Macs <- M2
  Ips <- I2
  Sw <- Sw2
  Locs <- Locs6
  Links <- Cable
  Kinds <- KAll
  ArpAware = 120
  ArpSilent = 1200
  ArpReply = 4
  TimerInterval = 5
  EntryMove = 60
  PingLim = 3
  MacLife = 120
  Strict = FALSE
  Flaps = TRUE
  Deltas <- DUpTo5
  KeepHist = FALSE
  D = 0
INIT TrInit
NEXT TrNext
CONSTRAINT Progress
POSTCONDITION Accepted
INVARIANT TypeOK
INVARIANT IpNotFresher
INVARIANT PingBound
INVARIANT PendBound
CHECK_DEADLOCK FALSE
