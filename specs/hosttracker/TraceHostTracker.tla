---- MODULE TraceHostTracker ----
(* Code -> spec: traces recorded from the real host_tracker (random driver, props/X08.py:drive) must be   *)
(* behaviours of HostTracker.tla; every state invariant is evaluated at each matched step.  The driver     *)
(* logs, per event, the action it performed with its arguments and the observation in the shape of the    *)
(* spec's `exp`; an event is matched iff SOME spec action with these arguments is enabled and yields       *)
(* exactly this observation (events, pings on the wire, warnings, timer deadline, projected tables).       *)
EXTENDS MCHostTracker, IOUtils, TLCExt, SequencesExt

Traces == JsonDeserialize(IOEnv.TRACE_FILE)
NT == Len(Traces)
VARIABLES tid, l
tvars == <<vars, tid, l>>

TrInit == Init /\ tid \in 1..NT /\ l = 1 /\ TLCSet(tid, 0)
Cur == Traces[tid][l]
IsEvent(e) == l <= Len(Traces[tid]) /\ Cur.a = e /\ l' = l + 1 /\ UNCHANGED tid

TabMatch(t, o) == \A m \in Macs :
  /\ t[m][1] = o[m][1] /\ t[m][2] = o[m][2] /\ t[m][3] = o[m][3]
  /\ \A i \in Ips : t[m][4][i] = o[m][4][i]

TrPacketIn ==
  /\ IsEvent("PacketIn")
  /\ LET g == Cur.args IN
       \/ PktIgnored(g.mac, g.sw, g.port, g.kind, g.ip)
       \/ PktJoin(g.mac, g.sw, g.port, g.kind, g.ip)
       \/ PktSame(g.mac, g.sw, g.port, g.kind, g.ip)
       \/ PktMove(g.mac, g.sw, g.port, g.kind, g.ip)
       \/ PktMoveKeepsPort(g.mac, g.sw, g.port, g.kind, g.ip)
  /\ Cur.wf
  /\ last'.exp.ev = ToSet(Cur.obs.ev) /\ last'.exp.dup = Cur.obs.dup /\ last'.exp.halted = Cur.obs.halted
  /\ last'.exp.msgs = Cur.obs.msgs /\ TabMatch(last'.exp.tab, Cur.obs.tab)
TrCheckTimeouts ==
  /\ IsEvent("CheckTimeouts")
  /\ TimerStep
  /\ Cur.wf
  /\ last'.exp.ev = ToSet(Cur.obs.ev) /\ last'.exp.pings = ToSet(Cur.obs.pings) /\ last'.exp.warn = Cur.obs.warn
  /\ last'.exp.due = Cur.obs.due /\ TabMatch(last'.exp.tab, Cur.obs.tab)
TrAdvance ==
  /\ IsEvent("Advance") /\ Advance(Cur.args.d) /\ Cur.wf /\ last'.exp.due = Cur.obs.due
TrLinkUp ==
  /\ IsEvent("LinkUp") /\ LinkUp(<<Cur.args.a, Cur.args.b>>) /\ Cur.wf
  /\ last'.exp.nonedge = ToSet(Cur.obs.nonedge)
TrConnDown ==
  /\ IsEvent("ConnDown") /\ ConnDown(Cur.args.sw) /\ Cur.wf
  /\ last'.exp.nonedge = ToSet(Cur.obs.nonedge) /\ Cur.obs.ev = <<>>
TrConnUp ==
  /\ IsEvent("ConnUp") /\ ConnUp(Cur.args.sw) /\ Cur.wf
  /\ last'.exp.nonedge = ToSet(Cur.obs.nonedge) /\ Cur.obs.ev = <<>> /\ Cur.obs.flow = 1

TrNext == TrPacketIn \/ TrCheckTimeouts \/ TrAdvance \/ TrLinkUp \/ TrConnDown \/ TrConnUp
TrSpec == TrInit /\ [][TrNext]_tvars

Progress == TLCSet(tid, IF TLCGet(tid) < l - 1 THEN l - 1 ELSE TLCGet(tid))
Ok(t) == TLCGet(t) = Len(Traces[t]) \/ (PrintT(<<"REJECT", t, TLCGet(t)>>) /\ FALSE)
Accepted == /\ PrintT(<<"TRACES-CHECKED", NT>>)
            /\ Cardinality({t \in 1..NT : ~Ok(t)}) = 0
====
