CONSTANTS
  Macs <- M2
  Ips <- I2
  Sw <- Sw2
  Locs <- Locs6
  Links <- Cable
  Kinds <- KAll
  ArpAware = 60
  ArpSilent = 180
  ArpReply = 30
  TimerInterval = 60
  EntryMove = 60
  PingLim = 2
  MacLife = 120
  Strict = FALSE
  Flaps = TRUE
  Deltas <- DUpTo60
  KeepHist = FALSE
  D = 0
INIT TrInit
NEXT TrNext
CONSTRAINT Progress
POSTCONDITION Accepted
INVARIANT TypeOK
INVARIANT IpNotFresher
INVARIANT PingBound
INVARIANT PendBound
CHECK_DEADLOCK FALSE
