CONSTANTS
  Macs <- M1
  Ips <- I2
  Sw <- Sw2
  Locs <- Locs2
  Links <- Cable
  Kinds <- KFew
  ArpAware = 120
  ArpSilent = 180
  ArpReply = 90
  TimerInterval = 60
  EntryMove = 60
  PingLim = 2
  MacLife = 120
  Strict = TRUE
  Flaps = FALSE
  Deltas <- D60
  KeepHist = TRUE
  D = 3
INIT Init
NEXT Next
VIEW view
INVARIANT TypeOK
INVARIANT IpNotFresher
INVARIANT PingBound
INVARIANT PendBound
PROPERTY JoinIffNew
PROPERTY LeaveIffGone
PROPERTY MoveIffElsewhere
PROPERTY LocFollows
PROPERTY DpidFollows
PROPERTY NoLearnNonEdge
PROPERTY PktEffect
PROPERTY PingOnlyQuiet
PROPERTY PingSpaced
PROPERTY IpRemovalJustified
PROPERTY GivenUpAfterPingLim
PROPERTY TimerExact
PROPERTY LeaveOnlyBare
PROPERTY ArpMakesAware
PROPERTY RefreshClearsPending
PROPERTY CountsOnce
INVARIANT MacLifeConfigured
CHECK_DEADLOCK FALSE
