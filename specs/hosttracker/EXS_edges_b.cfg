CONSTANTS
  Macs <- M1
  Ips <- I1
  Sw <- Sw2
  Locs <- Locs4
  Links <- Cable
  Kinds <- KAll
  ArpAware = 120
  ArpSilent = 180
  ArpReply = 30
  TimerInterval = 60
  EntryMove = 60
  PingLim = 2
  MacLife = 120
  Strict = TRUE
  Flaps = TRUE
  Deltas <- D3060
  KeepHist = TRUE
  D = 3
INIT Init
NEXT Next
VIEW view
ACTION_CONSTRAINT ExportT
CHECK_DEADLOCK FALSE
