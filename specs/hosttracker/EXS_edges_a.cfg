CONSTANTS
  Macs <- M1
  Ips <- I2
  Sw <- Sw2
  Locs <- Locs2
  Links <- Cable
  Kinds <- KFew
  ArpAware = 120
  ArpSilent = 180
  ArpReply = 30
  TimerInterval = 60
  EntryMove = 60
  PingLim = 2
  MacLife = 120
  Strict = TRUE
  Flaps = FALSE
  Deltas <- D60
  KeepHist = TRUE
  D = 3
INIT Init
NEXT Next
VIEW view
ACTION_CONSTRAINT ExportT
CHECK_DEADLOCK FALSE
