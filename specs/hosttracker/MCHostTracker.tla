---- MODULE MCHostTracker ----
EXTENDS HostTracker
M1 == {"m1"}
M2 == {"m1", "m2"}
I1 == {"i1"}
I2 == {"i1", "i2"}
Sw2 == {1, 2}
\* two edge ports and the two ends of the one inter-switch cable
Locs4 == {<<1, 1>>, <<1, 3>>, <<2, 1>>, <<2, 3>>}
Locs3 == {<<1, 1>>, <<2, 1>>, <<2, 3>>}
Locs6 == {<<1, 1>>, <<1, 2>>, <<1, 3>>, <<2, 1>>, <<2, 2>>, <<2, 3>>}
Locs2 == {<<1, 1>>, <<2, 3>>}
Cable == {<< <<1, 3>>, <<2, 3>> >>}
KAll == AllKinds
KMain == {"arpq", "arpr", "ip", "raw", "lldp"}
KFew == {"arpq", "ip", "raw"}
KTwo == {"arpq", "ip"}
D3060 == {30, 60}
D60 == {60}
DReal == {1, 4, 5}
DTest == {1, 2, 3, 5}
DUpTo5 == 1..5
DUpTo60 == 1..60
====
