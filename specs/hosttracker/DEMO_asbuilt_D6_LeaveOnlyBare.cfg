CONSTANTS
  Macs <- M1
  Ips <- I1
  Sw <- Sw2
  Locs <- Locs4
  Links <- Cable
  Kinds <- KMain
  ArpAware = 60
  ArpSilent = 180
  ArpReply = 30
  TimerInterval = 60
  EntryMove = 60
  PingLim = 2
  MacLife = 120
  Strict = FALSE
  Flaps = FALSE
  Deltas <- D60
  KeepHist = TRUE
  D = 3
INIT Init
NEXT Next
VIEW view
PROPERTY LeaveOnlyBare
CHECK_DEADLOCK FALSE
