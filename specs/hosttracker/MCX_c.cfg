CONSTANTS
  Macs <- M2
  Ips <- I1
  Sw <- Sw2
  Locs <- Locs2
  Links <- Cable
  Kinds <- KTwo
  ArpAware = 60
  ArpSilent = 180
  ArpReply = 30
  TimerInterval = 60
  EntryMove = 60
  PingLim = 2
  MacLife = 120
  Strict = FALSE
  Flaps = FALSE
  Deltas <- D60
  KeepHist = TRUE
  D = 3
INIT Init
NEXT Next
VIEW view
ACTION_CONSTRAINT ExportT
INVARIANT TypeOK
INVARIANT IpNotFresher
INVARIANT PingBound
INVARIANT PendBound
PROPERTY JoinIffNew
PROPERTY LeaveIffGone
PROPERTY MoveIffElsewhere
PROPERTY DpidFollows
PROPERTY NoLearnNonEdge
PROPERTY PktEffect
PROPERTY PingOnlyQuiet
PROPERTY PingSpaced
PROPERTY IpRemovalJustified
PROPERTY GivenUpAfterSomePing
PROPERTY TimerExact
CHECK_DEADLOCK FALSE
