--------------------------- MODULE HostTracker ---------------------------
(* X08: pox/host_tracker/host_tracker.py - the host table (MacEntry /      *)
(* IpEntry / PingCtrl), ARP pinging and the join / move / leave events, as  *)
(* seen through real OpenFlow switches and the real openflow.discovery.     *)
(*                                                                          *)
(* Abstract state                                                           *)
(*   up     which switches have an OpenFlow connection                      *)
(*   links  switch-to-switch links discovery knows (their ends are the      *)
(*          non-edge ports: is_edge_port is FALSE there)                    *)
(*   hosts  entryByMAC: per MAC the attachment point (dpid, port), the age  *)
(*          of the entry (now - lastTimeSeen) and ipAddrs: per IP whether   *)
(*          it was learned from ARP (hasARP), its age, the PingCtrl counter *)
(*          `pending`, the age of the last ping (PingCtrl.lastTimeSeen),    *)
(*          and a GHOST counter np = pings sent since the entry was last    *)
(*          refreshed by traffic                                            *)
(*   tph    time since the tracker's recurring Timer(timerInterval) fired   *)
(*                                                                          *)
(* Time is virtual and integral.  Ages instead of time stamps: an age only  *)
(* matters up to the largest threshold it is compared with, so it is capped *)
(* there (the adapter projects the code's time stamps the same way).        *)
(*                                                                          *)
(* One action per entry point of the code: a PACKET_IN reaching             *)
(* _handle_openflow_PacketIn (split by the path it takes: PktIgnored /      *)
(* PktJoin / PktMove / PktMoveKeepsPort / PktSame), the timer callback      *)
(* _check_timeouts (atomic in the cooperative scheduler; split by what it   *)
(* did: CtQuiet / CtPing / CtIpGone / CtStale / CtLeave / CtLeaveWithIPs),  *)
(* time passing (Advance), discovery learning a link from an LLDP probe     *)
(* (LinkUp), a switch losing / regaining its connection (ConnDown/ConnUp).  *)
(*                                                                          *)
(* Strict = TRUE is the design the code documents; Strict = FALSE adds the  *)
(* NAMED deviations that the code as built shows (see notes/X08.md):        *)
(*   D1 PktMoveKeepsPort  a move assigns `macEntry.inport`, so the port of  *)
(*                        the entry never follows the host                  *)
(*   D2 DoubleCount       _check_timeouts counts every ping twice (sendPing *)
(*                        already called pings.sent())                      *)
(*   D3 NoPacing          arpReply is never consulted: a ping goes out at   *)
(*                        EVERY timer firing while the entry is expired     *)
(*   D4 StalePending      IPv4 traffic refreshes an IP entry but leaves its *)
(*                        count of unanswered pings standing                *)
(*   D5 SilentForEver     setHasARP() is never called: an address first     *)
(*                        seen in an IPv4 packet keeps the arpSilent        *)
(*                        interval also after it has spoken ARP             *)
(*   D6 CtLeaveWithIPs    a MAC entry is dropped while it still has live IP *)
(*                        entries (the code's own "sanity check" warning)   *)
(*   D7 MacLife           the liveness interval of a MAC entry is the value *)
(*                        arpAware had when the module was imported (a      *)
(*                        default argument), not the configured one         *)
EXTENDS Naturals, Sequences, FiniteSets, TLC, Json

CONSTANTS Macs,          \* host MAC addresses (symbols)
          Ips,           \* host IP addresses (symbols)
          Sw,            \* switches (small integers = dpids)
          Locs,          \* <<switch, port>>: where frames may enter
          Links,         \* <<<<s1,p1>>, <<s2,p2>>>>: cables between switches that discovery may learn
          Kinds,         \* kinds of frames hosts send
          ArpAware,      \* timeoutSec['arpAware']
          ArpSilent,     \* timeoutSec['arpSilent']
          ArpReply,      \* timeoutSec['arpReply']
          TimerInterval, \* timeoutSec['timerInterval']
          EntryMove,     \* timeoutSec['entryMove']
          PingLim,       \* PingCtrl.pingLim
          MacLife,       \* liveness interval of a MacEntry (D7: 120 as built; ArpAware as documented)
          Strict,        \* TRUE: documented intent; FALSE: the code as built
          Flaps,         \* whether switches may lose their connection
          Deltas,        \* amounts of time that may pass in one step
          KeepHist,      \* FALSE: do not accumulate hist (liveness runs)
          D              \* export depth

ASSUME Strict => MacLife = ArpAware
ASSUME PingLim \in Nat /\ PingLim >= 1

\* ---- frames hosts send.  Every frame has the host's MAC as Ethernet source.
\*  arpq  ARP request, broadcast, sender protocol address = the host's IP
\*  arpr  ARP reply addressed to the tracker's ping address (02:00:00:00:be:ef)
\*  ip    IPv4/UDP to some other unicast address
\*  ipp   IPv4/UDP addressed to the tracker's ping address
\*  arp0  ARP probe (sender protocol address 0.0.0.0), broadcast
\*  raw   some other ethertype
\*  lldp  ethertype LLDP, NOT to the discovery multicast address (so discovery passes it on)
AllKinds == {"arpq", "arpr", "ip", "ipp", "arp0", "raw", "lldp"}
HasIp(k)  == k \in {"arpq", "arpr", "ip", "ipp"}
HasArp(k) == k \in {"arpq", "arpr"}
ToPing(k) == k \in {"arpr", "ipp"}
NoIpSym == "-"

Max(S) == CHOOSE x \in S : \A y \in S : x >= y
Min2(a, b) == IF a < b THEN a ELSE b
CapM == Max({MacLife, EntryMove}) + 1        \* MAC age: compared with MacLife (>) and EntryMove (<)
CapI == Max({ArpAware, ArpSilent}) + 1       \* IP age: compared with its interval (>)
CapP == ArpReply + 1                         \* age of the last ping: compared with ArpReply (>)
Inc == IF Strict THEN 1 ELSE 2               \* D2

NoIp == [on |-> 0, arp |-> 0, age |-> 0, pend |-> 0, pa |-> 0, np |-> 0]
NoHost == [dpid |-> 0, port |-> 0, age |-> 0, ips |-> [i \in Ips |-> NoIp]]
Present(h) == h.dpid # 0

VARIABLES up, links, hosts, tph, last, hist
vars == <<up, links, hosts, tph, last, hist>>
view == <<up, links, hosts, tph>>

Ends(l) == {l[1], l[2]}
NonEdgeOf(ls) == UNION {Ends(l) : l \in ls}
NonEdge == NonEdgeOf(links)

\* ---- what an observer sees
Ev(k, m, d, p, nd, np) == [k |-> k, mac |-> m, dpid |-> d, port |-> p, nd |-> nd, np |-> np]
IpView(x) == <<x.on, x.arp, x.age, x.pend, x.pa>>
Tab(hs) == [m \in Macs |-> <<hs[m].dpid, hs[m].port, hs[m].age, [i \in Ips |-> IpView(hs[m].ips[i])]>>]

NoObs == [a |-> "Init", args |-> [x |-> 0], exp |-> [x |-> 0]]

Init == /\ up = [s \in Sw |-> TRUE]
        /\ links = {}
        /\ hosts = [m \in Macs |-> NoHost]
        /\ tph = 0
        /\ last = NoObs /\ hist = <<>>

\* `via` names the spec action that produced the step (not compared; counts what replays exercised)
Log(a, args, exp, via) ==
  /\ last' = [a |-> a, args |-> args, exp |-> exp]
  /\ hist' = IF KeepHist THEN Append(hist, [a |-> a, args |-> args, exp |-> exp, via |-> via]) ELSE <<>>

----------------------------------------------------------------------------
(* PACKET_IN: _handle_openflow_PacketIn                                     *)

\* updateIPInfo
UpdIp(x, arp) ==
  LET y == IF x.on = 1
           THEN LET r == [x EXCEPT !.age = 0, !.np = 0] IN                      \* ipEntry.refresh()
                LET r2 == IF Strict THEN [r EXCEPT !.pend = 0, !.pa = 0] ELSE r IN          \* D4
                IF Strict /\ arp THEN [r2 EXCEPT !.arp = 1] ELSE r2                         \* D5 (setHasARP)
           ELSE [on |-> 1, arp |-> IF arp THEN 1 ELSE 0, age |-> 0, pend |-> 0, pa |-> 0, np |-> 0]
  IN IF arp THEN [y EXCEPT !.pend = 0, !.pa = 0] ELSE y                         \* pings.received()

Learnable(s, p, k) == k # "lldp" /\ <<s, p>> \notin NonEdge

PktArgs(m, s, p, k, i) == [mac |-> m, sw |-> s, port |-> p, kind |-> k, ip |-> i]
PktExp(ev, dup, halted, hs) == [ev |-> ev, dup |-> dup, halted |-> halted, msgs |-> 0, tab |-> Tab(hs)]
PktGuard(m, s, p, k, i) ==
  /\ up[s] /\ tph < TimerInterval
  /\ <<s, p>> \in Locs /\ k \in Kinds
  /\ IF HasIp(k) THEN i \in Ips ELSE i = NoIpSym

\* the rest of the handler once the entry h1 for the sender is in place
Finish(m, s, p, k, i, h1, ev, dup, via) ==
  LET h2 == [h1 EXCEPT !.age = 0] IN                                            \* macEntry.refresh()
  LET h3 == IF HasIp(k) THEN [h2 EXCEPT !.ips[i] = UpdIp(h2.ips[i], HasArp(k))] ELSE h2 IN
  /\ hosts' = [hosts EXCEPT ![m] = h3]
  /\ UNCHANGED <<up, links, tph>>
  /\ Log("PacketIn", PktArgs(m, s, p, k, i), PktExp(ev, dup, ToPing(k), hosts'), via)

\* LLDP, or a port that connects to another switch: nothing is learned, nobody is told, the event goes on
PktIgnored(m, s, p, k, i) ==
  /\ PktGuard(m, s, p, k, i) /\ ~Learnable(s, p, k)
  /\ UNCHANGED <<up, links, hosts, tph>>
  /\ Log("PacketIn", PktArgs(m, s, p, k, i), PktExp({}, FALSE, FALSE, hosts), "PktIgnored")

PktJoin(m, s, p, k, i) ==
  /\ PktGuard(m, s, p, k, i) /\ Learnable(s, p, k) /\ ~Present(hosts[m])
  /\ Finish(m, s, p, k, i, [NoHost EXCEPT !.dpid = s, !.port = p],
            {Ev("join", m, s, p, 0, 0)}, FALSE, "PktJoin")

PktSame(m, s, p, k, i) ==
  /\ PktGuard(m, s, p, k, i) /\ Learnable(s, p, k) /\ Present(hosts[m])
  /\ <<hosts[m].dpid, hosts[m].port>> = <<s, p>>
  /\ Finish(m, s, p, k, i, hosts[m], {}, FALSE, "PktSame")

\* the host shows up elsewhere: one move event, the entry follows.  "Possible duplicate" is logged when the
\* entry was heard from less than entryMove seconds ago (that is all the entryMove rule does)
Moved(m, s, p) == Present(hosts[m]) /\ <<hosts[m].dpid, hosts[m].port>> # <<s, p>>
PktMove(m, s, p, k, i) ==
  /\ PktGuard(m, s, p, k, i) /\ Learnable(s, p, k) /\ Moved(m, s, p)
  /\ Strict \/ p = hosts[m].port
  /\ Finish(m, s, p, k, i, [hosts[m] EXCEPT !.dpid = s, !.port = p],
            {Ev("move", m, hosts[m].dpid, hosts[m].port, s, p)}, hosts[m].age < EntryMove, "PktMove")

\* D1 (as built): the new port is stored in an attribute nobody reads; the entry keeps its old port
PktMoveKeepsPort(m, s, p, k, i) ==
  /\ PktGuard(m, s, p, k, i) /\ Learnable(s, p, k) /\ Moved(m, s, p)
  /\ ~Strict /\ p # hosts[m].port
  /\ Finish(m, s, p, k, i, [hosts[m] EXCEPT !.dpid = s],
            {Ev("move", m, hosts[m].dpid, hosts[m].port, s, p)}, hosts[m].age < EntryMove, "PktMoveKeepsPort")

----------------------------------------------------------------------------
(* the timer callback: _check_timeouts                                      *)

IpInterval(x) == IF x.arp = 1 THEN ArpAware ELSE ArpSilent
IpExpired(x) == x.on = 1 /\ x.age > IpInterval(x)
Failed(x) == IF Strict THEN x.pend >= PingLim ELSE x.pend > PingLim             \* D2: with the double count
Waiting(x) == Strict /\ x.pend > 0 /\ x.pa <= ArpReply                          \* D3: as built nobody waits

\* one IP entry of host h: what becomes of it, whether a ping goes out, whether the MAC entry counts as "pinged"
IpNext(h, x) ==
  IF ~IpExpired(x) THEN [x |-> x, ping |-> FALSE, busy |-> FALSE, what |-> "-"]
  ELSE IF Waiting(x) THEN [x |-> x, ping |-> FALSE, busy |-> TRUE, what |-> "-"]
  ELSE IF Failed(x) THEN [x |-> NoIp, ping |-> FALSE, busy |-> FALSE, what |-> "gone"]
  ELSE IF up[h.dpid]
       THEN [x |-> [x EXCEPT !.pend = @ + Inc, !.pa = 0, !.np = @ + 1], ping |-> TRUE, busy |-> TRUE, what |-> "ping"]
       \* sendToDPID fails: "macEntry is stale" - the address is dropped at once (the MAC entry waits one more round)
       ELSE [x |-> NoIp, ping |-> FALSE, busy |-> TRUE, what |-> "stale"]

MacNext(m, h) ==
  LET r == [i \in Ips |-> IpNext(h, h.ips[i])] IN
  LET ips2 == [i \in Ips |-> r[i].x] IN
  LET left == {i \in Ips : ips2[i].on = 1} IN
  LET busy == \E i \in Ips : r[i].busy IN
  LET gone == Present(h) /\ h.age > MacLife /\ ~busy /\ (Strict => left = {}) IN        \* D6
  [h |-> IF gone THEN NoHost ELSE [h EXCEPT !.ips = ips2],
   pings |-> {<<h.dpid, h.port, m, i>> : i \in {j \in Ips : r[j].ping}},
   ev |-> IF gone THEN {Ev("leave", m, h.dpid, h.port, 0, 0)} ELSE {},
   warn |-> IF gone THEN Cardinality(left) ELSE 0,
   what |-> {r[i].what : i \in Ips} \cup (IF gone THEN {IF left = {} THEN "leave" ELSE "leaveIPs"} ELSE {})]

RECURSIVE SumOver(_, _)
SumOver(S, f) == IF S = {} THEN 0 ELSE LET x == CHOOSE y \in S : TRUE IN f[x] + SumOver(S \ {x}, f)

CtAll == [m \in Macs |-> MacNext(m, hosts[m])]
CtWhat == UNION {CtAll[m].what : m \in Macs}
\* the outcome class of one run of the callback (for coverage; the most remarkable thing that happened)
CtClass == IF "leaveIPs" \in CtWhat THEN "CtLeaveWithIPs"
           ELSE IF "leave" \in CtWhat THEN "CtLeave"
           ELSE IF "stale" \in CtWhat THEN "CtStale"
           ELSE IF "gone" \in CtWhat THEN "CtIpGone"
           ELSE IF "ping" \in CtWhat THEN "CtPing"
           ELSE "CtQuiet"

CheckTimeouts ==
  /\ tph = TimerInterval
  /\ LET r == CtAll IN
     /\ hosts' = [m \in Macs |-> r[m].h]
     /\ tph' = 0
     /\ UNCHANGED <<up, links>>
     /\ Log("CheckTimeouts", [x |-> 0],
            [pings |-> UNION {r[m].pings : m \in Macs},
             ev |-> UNION {r[m].ev : m \in Macs},
             warn |-> SumOver(Macs, [m \in Macs |-> r[m].warn]),
             due |-> TimerInterval,
             tab |-> Tab(hosts')], CtClass)

CtQuiet  == tph = TimerInterval /\ CtClass = "CtQuiet" /\ CheckTimeouts
CtPing   == tph = TimerInterval /\ CtClass = "CtPing" /\ CheckTimeouts
CtIpGone == tph = TimerInterval /\ CtClass = "CtIpGone" /\ CheckTimeouts
CtStale  == tph = TimerInterval /\ CtClass = "CtStale" /\ CheckTimeouts
CtLeave  == tph = TimerInterval /\ CtClass = "CtLeave" /\ CheckTimeouts
CtLeaveWithIPs == tph = TimerInterval /\ CtClass = "CtLeaveWithIPs" /\ CheckTimeouts      \* D6 (never enabled with Strict)

----------------------------------------------------------------------------
(* time, discovery, connections                                             *)

AgeIp(x, d) == IF x.on = 0 THEN x
               ELSE [x EXCEPT !.age = Min2(@ + d, CapI), !.pa = IF x.pend > 0 THEN Min2(@ + d, CapP) ELSE 0]
AgeHost(h, d) == IF ~Present(h) THEN h
                 ELSE [h EXCEPT !.age = Min2(@ + d, CapM), !.ips = [i \in Ips |-> AgeIp(h.ips[i], d)]]

\* time passes, up to the instant at which the timer fires (the callback runs before anything else happens then)
Advance(d) ==
  /\ d \in Deltas /\ tph + d <= TimerInterval
  /\ tph' = tph + d
  /\ hosts' = [m \in Macs |-> AgeHost(hosts[m], d)]
  /\ UNCHANGED <<up, links>>
  /\ Log("Advance", [d |-> d], [due |-> TimerInterval - tph'], "Advance")

\* an LLDP probe of discovery crosses cable l (sent from l[1], received at l[2]): both ends stop being edge ports
LinkUp(l) ==
  /\ l \in Links \ links /\ up[l[1][1]] /\ up[l[2][1]] /\ tph < TimerInterval
  /\ links' = links \cup {l}
  /\ UNCHANGED <<up, hosts, tph>>
  /\ Log("LinkUp", [a |-> l[1], b |-> l[2]], [nonedge |-> NonEdgeOf(links')], "LinkUp")

\* a switch loses its connection: discovery forgets its links; the tracker is not told anything
ConnDown(s) ==
  /\ Flaps /\ up[s] /\ tph < TimerInterval
  /\ up' = [up EXCEPT ![s] = FALSE]
  /\ links' = {l \in links : l[1][1] # s /\ l[2][1] # s}
  /\ UNCHANGED <<hosts, tph>>
  /\ Log("ConnDown", [sw |-> s], [nonedge |-> NonEdgeOf(links'), ev |-> {}], "ConnDown")

\* it connects again: the tracker installs its flow (ARP to the ping address -> controller, priority above normal)
ConnUp(s) ==
  /\ Flaps /\ ~up[s] /\ tph < TimerInterval
  /\ up' = [up EXCEPT ![s] = TRUE]
  /\ UNCHANGED <<links, hosts, tph>>
  /\ Log("ConnUp", [sw |-> s], [flow |-> 1, nonedge |-> NonEdge, ev |-> {}], "ConnUp")

PacketInStep == \E m \in Macs, l \in Locs, k \in Kinds, i \in Ips \cup {NoIpSym} :
                  \/ PktIgnored(m, l[1], l[2], k, i)
                  \/ PktJoin(m, l[1], l[2], k, i)
                  \/ PktSame(m, l[1], l[2], k, i)
                  \/ PktMove(m, l[1], l[2], k, i)
                  \/ PktMoveKeepsPort(m, l[1], l[2], k, i)
TimerStep == CtQuiet \/ CtPing \/ CtIpGone \/ CtStale \/ CtLeave \/ CtLeaveWithIPs
TimeStep == (\E d \in Deltas : Advance(d)) \/ TimerStep
EnvStep == \/ PacketInStep
           \/ \E l \in Links : LinkUp(l)
           \/ \E s \in Sw : ConnDown(s) \/ ConnUp(s)
Next == EnvStep \/ TimeStep

Spec == Init /\ [][Next]_vars
\* time keeps passing and the timer keeps firing
LiveSpec == Spec /\ WF_vars(TimeStep)

----------------------------------------------------------------------------
(* Properties, over the real variables (`last` only to name the step)       *)

IpRecs == [on : {0, 1}, arp : {0, 1}, age : 0..CapI, pend : 0..(PingLim + Inc), pa : 0..CapP, np : 0..(PingLim + 1)]
TypeOK ==
  /\ up \in [Sw -> BOOLEAN] /\ links \subseteq Links /\ tph \in 0..TimerInterval
  /\ \A m \in Macs : LET h == hosts[m] IN
       /\ h.age \in 0..CapM /\ h.ips \in [Ips -> IpRecs]
       /\ (Present(h) => h.dpid \in Sw)
       /\ (~Present(h) => h = NoHost)
       /\ \A i \in Ips : h.ips[i].on = 0 => h.ips[i] = NoIp

\* every packet that refreshes an address refreshes its MAC entry too: an address is never fresher than its host
IpNotFresher == \A m \in Macs, i \in Ips :
  hosts[m].ips[i].on = 1 => Min2(hosts[m].age, CapI) <= hosts[m].ips[i].age

\* "at most pingLim": an address is never pinged more than pingLim times in one quiet period
PingBound == \A m \in Macs, i \in Ips : hosts[m].ips[i].np <= PingLim
PendBound == \A m \in Macs, i \in Ips : LET x == hosts[m].ips[i] IN
  /\ x.pend <= PingLim + Inc
  /\ (x.pend = 0 => x.pa = 0)
  /\ (Strict => x.pend = x.np)

IsPkt(l) == l.a = "PacketIn"
IsCt(l) == l.a = "CheckTimeouts"
Evs(l) == IF l.a \in {"PacketIn", "CheckTimeouts", "ConnDown", "ConnUp"} THEN l.exp.ev ELSE {}
EvOf(l, k, m) == {e \in Evs(l) : e.k = k /\ e.mac = m}

\* a host first seen yields exactly one join and one table entry, where it was seen; joins happen no other way
JoinIffNew == [][\A m \in Macs :
  /\ (~Present(hosts[m]) /\ Present(hosts'[m])) <=> (EvOf(last', "join", m) # {})
  /\ \A e \in EvOf(last', "join", m) :
       /\ IsPkt(last') /\ last'.args.mac = m
       /\ <<e.dpid, e.port>> = <<last'.args.sw, last'.args.port>>
       /\ <<hosts'[m].dpid, hosts'[m].port>> = <<e.dpid, e.port>>]_vars

\* an entry disappears only through the timer, only when it has not been heard from for longer than its
\* liveness interval, with exactly one leave event that names where it was; (Strict) and only without addresses
LeaveIffGone == [][\A m \in Macs :
  /\ (Present(hosts[m]) /\ ~Present(hosts'[m])) <=> (EvOf(last', "leave", m) # {})
  /\ \A e \in EvOf(last', "leave", m) :
       /\ IsCt(last') /\ hosts[m].age > MacLife
       /\ <<e.dpid, e.port>> = <<hosts[m].dpid, hosts[m].port>>
       /\ (Strict => \A i \in Ips : ~(hosts[m].ips[i].on = 1 /\ ~IpExpired(hosts[m].ips[i])))]_vars

\* a packet from a known MAC at another (dpid, port) yields one move event old -> new; moves happen no other way
MoveIffElsewhere == [][\A m \in Macs :
  /\ (IsPkt(last') /\ last'.args.mac = m /\ Learnable(last'.args.sw, last'.args.port, last'.args.kind)
        /\ Moved(m, last'.args.sw, last'.args.port)) <=> (EvOf(last', "move", m) # {})
  /\ \A e \in EvOf(last', "move", m) :
       /\ <<e.dpid, e.port>> = <<hosts[m].dpid, hosts[m].port>>
       /\ <<e.nd, e.np>> = <<last'.args.sw, last'.args.port>>
       /\ last'.exp.dup = (hosts[m].age < EntryMove)]_vars

\* the entry follows the most recent location (documented intent; D1 breaks the port half)
LocFollows == [][(IsPkt(last') /\ Learnable(last'.args.sw, last'.args.port, last'.args.kind)) =>
  <<hosts'[last'.args.mac].dpid, hosts'[last'.args.mac].port>> = <<last'.args.sw, last'.args.port>>]_vars
DpidFollows == [][(IsPkt(last') /\ Learnable(last'.args.sw, last'.args.port, last'.args.kind)) =>
  hosts'[last'.args.mac].dpid = last'.args.sw]_vars

\* nothing is learned from switch-to-switch ports or from LLDP, and such packets are not eaten
NoLearnNonEdge == [][(IsPkt(last') /\ ~Learnable(last'.args.sw, last'.args.port, last'.args.kind)) =>
  /\ hosts' = hosts /\ last'.exp.ev = {} /\ ~last'.exp.halted]_vars

\* a packet touches only its sender's entry; it refreshes it; its address is attached to that MAC, fresh;
\* an ARP packet cancels the pending pings; packets to the ping address are eaten (and only those)
PktEffect == [][(IsPkt(last') /\ Learnable(last'.args.sw, last'.args.port, last'.args.kind)) =>
  LET m == last'.args.mac IN LET i == last'.args.ip IN LET k == last'.args.kind IN
  /\ \A o \in Macs \ {m} : hosts'[o] = hosts[o]
  /\ hosts'[m].age = 0
  /\ \A j \in Ips \ {i} : hosts'[m].ips[j] = (IF Present(hosts[m]) THEN hosts[m].ips[j] ELSE NoIp)
  /\ HasIp(k) => /\ hosts'[m].ips[i].on = 1 /\ hosts'[m].ips[i].age = 0 /\ hosts'[m].ips[i].np = 0
                 /\ (HasArp(k) => hosts'[m].ips[i].pend = 0)
  /\ last'.exp.halted = ToPing(k)]_vars

\* a ping goes to an address whose entry is quiet for longer than its interval, to where its host is believed
\* to be, on a connected switch
PingOnlyQuiet == [][IsCt(last') => \A g \in last'.exp.pings :
  LET h == hosts[g[3]] IN
  /\ Present(h) /\ IpExpired(h.ips[g[4]]) /\ <<g[1], g[2]>> = <<h.dpid, h.port>> /\ up[g[1]]
  /\ hosts'[g[3]].ips[g[4]].np = h.ips[g[4]].np + 1]_vars

\* consecutive pings of one address are more than arpReply apart (holds as built only while timerInterval > arpReply: D3)
PingSpaced == [][IsCt(last') => \A g \in last'.exp.pings :
  LET x == hosts[g[3]].ips[g[4]] IN x.pend = 0 \/ x.pa > ArpReply]_vars

\* an address leaves the table only through the timer: with its host, or expired and (given up | switch gone)
IpRemovalJustified == [][\A m \in Macs, i \in Ips :
  (hosts[m].ips[i].on = 1 /\ hosts'[m].ips[i].on = 0) =>
    /\ IsCt(last')
    /\ \/ ~Present(hosts'[m])
       \/ IpExpired(hosts[m].ips[i]) /\ (Failed(hosts[m].ips[i]) \/ ~up[hosts[m].dpid])]_vars
\* documented intent: given up only after exactly pingLim unanswered pings in this quiet period (D2, D4 break it)
GivenUpAfterPingLim == [][\A m \in Macs, i \in Ips :
  (hosts[m].ips[i].on = 1 /\ hosts'[m].ips[i].on = 0 /\ Present(hosts'[m]) /\ up[hosts[m].dpid]) =>
    hosts[m].ips[i].np = PingLim]_vars
\* as built: never given up without having been pinged since ... the last ARP packet (pending was reset then)
GivenUpAfterSomePing == [][\A m \in Macs, i \in Ips :
  (hosts[m].ips[i].on = 1 /\ hosts'[m].ips[i].on = 0 /\ Present(hosts'[m]) /\ up[hosts[m].dpid]) =>
    hosts[m].ips[i].pend > PingLim]_vars

\* ---- the documented intent that the code as built misses (hold with Strict = TRUE only; see the DEMO_*.cfg)
\* D6: "there should be no IP addresses left" when a MAC entry expires
LeaveOnlyBare == [][\A m \in Macs : (Present(hosts[m]) /\ ~Present(hosts'[m])) =>
  \A i \in Ips : hosts[m].ips[i].on = 1 => (IpExpired(hosts[m].ips[i]) /\ Failed(hosts[m].ips[i]))]_vars
\* D5: an address that speaks ARP is "known to answer ARP": it gets the arpAware interval
ArpMakesAware == [][(IsPkt(last') /\ Learnable(last'.args.sw, last'.args.port, last'.args.kind) /\ HasArp(last'.args.kind)) =>
  hosts'[last'.args.mac].ips[last'.args.ip].arp = 1]_vars
\* D4: traffic from an address makes it alive again: nothing is pending any more
RefreshClearsPending == [][(IsPkt(last') /\ Learnable(last'.args.sw, last'.args.port, last'.args.kind) /\ HasIp(last'.args.kind)) =>
  hosts'[last'.args.mac].ips[last'.args.ip].pend = 0]_vars
\* D2: one ping counts once, so pingLim pings are tried
CountsOnce == [][IsCt(last') => \A g \in last'.exp.pings :
  hosts'[g[3]].ips[g[4]].pend = hosts[g[3]].ips[g[4]].pend + 1]_vars
\* D7: a MAC entry lives as long as the configured arpAware says
MacLifeConfigured == \A m \in Macs : Present(hosts[m]) => MacLife = ArpAware

\* only the timer firing makes the timer due again a full interval later; the timer fires exactly when due
TimerExact == [][IF IsCt(last') THEN tph = TimerInterval /\ tph' = 0 ELSE tph' >= tph /\ tph' <= TimerInterval]_vars

\* liveness: if the environment falls silent, every host eventually leaves (each entry is given up at last)
AllGone == \A m \in Macs : ~Present(hosts[m])
EventuallyForgotten == ([]<><<EnvStep>>_vars) \/ <>[]AllGone

\* ---- export for the replay harness
Bound   == Len(hist) <= D
Export  == (Len(hist) = D) => PrintT(<<"H", ToJson(hist)>>)
ExportT == PrintT(<<"T", ToJson(hist')>>)
\* simulation only: do not spend the whole walk on back-to-back packets
SimPace == ~(last.a = "PacketIn" /\ last'.a = "PacketIn" /\ Len(hist) % 3 # 0)
=============================================================================
