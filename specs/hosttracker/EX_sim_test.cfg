CONSTANTS
  Macs <- M2
  Ips <- I2
  Sw <- Sw2
  Locs <- Locs6
  Links <- Cable
  Kinds <- KAll
  ArpAware = 15
  ArpSilent = 45
  ArpReply = 1
  TimerInterval = 5
  EntryMove = 4
  PingLim = 3
  MacLife = 120
  Strict = FALSE
  Flaps = TRUE
  Deltas <- DTest
  KeepHist = TRUE
  D = 100
INIT Init
NEXT Next
ACTION_CONSTRAINT SimPace
INVARIANT Export
INVARIANT TypeOK
INVARIANT IpNotFresher
INVARIANT PingBound
INVARIANT PendBound
CHECK_DEADLOCK FALSE
