CONSTANTS Comp = "hub_pro"
  NS = 2
  NP = 3
  Links <- L_T2
  NoFlood <- NF_none
  Cuts <- L_none
  Hosts <- H3
  InitAt <- At2_3
  MovePorts <- Mv2s
  Dsts <- D_1UB
  Shapes <- Sh_a
  NBuf = 0
  Gaps <- G_none
  Strict = FALSE
  Busy = FALSE
  D = 2
INIT Init
NEXT Next
VIEW viewE
CONSTRAINT Bound
ACTION_CONSTRAINT ExportT
CHECK_DEADLOCK FALSE
INVARIANT TypeOK
INVARIANT UniqueHit
INVARIANT LearnedTrue
INVARIANT NoLeak
INVARIANT FlowsFollowLinks
INVARIANT FlowsLoopFree
PROPERTY LeakOnlyByDeviation
PROPERTY StrictHasNoDeviation
PROPERTY NeverBack
PROPERTY OncePerSwitch
PROPERTY HubFloodsAll
PROPERTY PairsIdeal
PROPERTY MultiFloods
PROPERTY MultiDropsLldp
PROPERTY MultiDelivers
PROPERTY IcmpAtEdge
