CONSTANTS Comp = "pairs"
  NS = 3
  NP = 3
  Links <- L_T3
  NoFlood <- NF_none
  Cuts <- L_none
  Hosts <- H3
  InitAt <- At3_3
  MovePorts <- Mv_none
  Dsts <- D_H3UB
  Shapes <- Sh_al
  NBuf = 2
  Gaps <- G_none
  Strict = TRUE
  Busy = FALSE
  D = 3
INIT Init
NEXT Next
VIEW viewE
CONSTRAINT Bound
CHECK_DEADLOCK FALSE
INVARIANT TypeOK
INVARIANT UniqueHit
INVARIANT LearnedTrue
INVARIANT NoLeak
INVARIANT FlowsFollowLinks
INVARIANT FlowsLoopFree
PROPERTY LeakOnlyByDeviation
PROPERTY StrictHasNoDeviation
PROPERTY NeverBack
PROPERTY OncePerSwitch
PROPERTY HubFloodsAll
PROPERTY PairsIdeal
PROPERTY MultiFloods
PROPERTY MultiDropsLldp
PROPERTY MultiDelivers
PROPERTY IcmpAtEdge
