CONSTANTS Comp = "hub_re"
  NS = 3
  NP = 3
  Links <- L_Tri
  NoFlood <- NF_Tri
  Cuts <- L_none
  Hosts <- H3
  InitAt <- AtTri
  MovePorts <- Mv_none
  Dsts <- D_1UB
  Shapes <- Sh_a
  NBuf = 2
  Gaps <- G_none
  Strict = FALSE
  Busy = FALSE
  D = 2
INIT Init
NEXT Next
VIEW viewE
CONSTRAINT Bound
ACTION_CONSTRAINT ExportT
CHECK_DEADLOCK FALSE
INVARIANT TypeOK
INVARIANT UniqueHit
INVARIANT LearnedTrue
INVARIANT NoLeak
INVARIANT FlowsFollowLinks
INVARIANT FlowsLoopFree
PROPERTY LeakOnlyByDeviation
PROPERTY StrictHasNoDeviation
PROPERTY NeverBack
PROPERTY OncePerSwitch
PROPERTY HubFloodsAll
PROPERTY PairsIdeal
PROPERTY MultiFloods
PROPERTY MultiDropsLldp
PROPERTY MultiDelivers
PROPERTY IcmpAtEdge
