CONSTANTS Comp = "pairs"
  NS = 2
  NP = 3
  Links <- L_T2
  NoFlood <- NF_none
  Cuts <- L_none
  Hosts <- H3
  InitAt <- At2_3
  MovePorts <- Mv2s
  Dsts <- D_H3B
  Shapes <- Sh_a
  NBuf = 0
  Gaps <- G_none
  Strict = TRUE
  Busy = FALSE
  D = 3
INIT Init
NEXT Next
VIEW viewE
CONSTRAINT Bound
CHECK_DEADLOCK FALSE
INVARIANT TypeOK
INVARIANT UniqueHit
INVARIANT LearnedTrue
INVARIANT NoLeak
INVARIANT FlowsFollowLinks
INVARIANT FlowsLoopFree
PROPERTY LeakOnlyByDeviation
PROPERTY StrictHasNoDeviation
PROPERTY NeverBack
PROPERTY OncePerSwitch
PROPERTY HubFloodsAll
PROPERTY PairsIdeal
PROPERTY MultiFloods
PROPERTY MultiDropsLldp
PROPERTY MultiDelivers
PROPERTY IcmpAtEdge
