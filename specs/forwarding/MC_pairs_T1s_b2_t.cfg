CONSTANTS Comp = "pairs"
  NS = 1
  NP = 3
  Links <- L_none
  NoFlood <- NF_none
  Cuts <- L_none
  Hosts <- H2
  InitAt <- At1_same
  MovePorts <- Mv_none
  Dsts <- D_H2B
  Shapes <- Sh_ab
  NBuf = 2
  Gaps <- G_none
  Strict = FALSE
  Busy = FALSE
  D = 6
INIT Init
NEXT Next
VIEW viewE
CONSTRAINT Bound
CHECK_DEADLOCK FALSE
INVARIANT TypeOK
INVARIANT UniqueHit
INVARIANT LearnedTrue
INVARIANT NoLeak
INVARIANT FlowsFollowLinks
INVARIANT FlowsLoopFree
PROPERTY LeakOnlyByDeviation
PROPERTY StrictHasNoDeviation
PROPERTY NeverBack
PROPERTY OncePerSwitch
PROPERTY HubFloodsAll
PROPERTY PairsIdeal
PROPERTY MultiFloods
PROPERTY MultiDropsLldp
PROPERTY MultiDelivers
PROPERTY IcmpAtEdge
