CONSTANTS Comp = "pairs"
  NS = 2
  NP = 3
  Links <- L_T2
  NoFlood <- NF_none
  Cuts <- L_none
  Hosts <- H3
  InitAt <- At2_3
  MovePorts <- Mv2s
  Dsts <- D_H3B
  Shapes <- Sh_a
  NBuf = 0
  Gaps <- G_none
  Strict = TRUE
  Busy = FALSE
  D = 3
INIT Init
NEXT Next
VIEW viewE
CONSTRAINT Bound
ACTION_CONSTRAINT ExportT
CHECK_DEADLOCK FALSE
