CONSTANTS Comp = "pairs"
  NS = 3
  NP = 3
  Links <- L_T3
  NoFlood <- NF_none
  Cuts <- L_none
  Hosts <- H3
  InitAt <- At3_3
  MovePorts <- Mv_none
  Dsts <- D_H3UB
  Shapes <- Sh_al
  NBuf = 2
  Gaps <- G_none
  Strict = TRUE
  Busy = FALSE
  D = 3
INIT Init
NEXT Next
VIEW viewE
CONSTRAINT Bound
ACTION_CONSTRAINT ExportT
CHECK_DEADLOCK FALSE
