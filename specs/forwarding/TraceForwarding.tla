---- MODULE TraceForwarding ----
(* Code -> spec: executions recorded from the real components (seeded random   *)
(* driver of props/X03.py on harness/x03_net.py) must be behaviours of          *)
(* Forwarding.tla: every event is matched by the spec action of the same name   *)
(* with the logged arguments, and the logged observation (hops of the frame,    *)
(* flow tables read through OFPST_FLOW, occupied buffers, discovery's           *)
(* adjacency) must be exactly what the action yields.  All invariants are       *)
(* evaluated at every matched step.                                             *)
EXTENDS MCForwarding, IOUtils, TLCExt, SequencesExt

Traces == JsonDeserialize(IOEnv.TRACE_FILE)
NT == Len(Traces)
VARIABLES tid, l
tvars == <<vars, tid, l>>

TrInit == Init /\ tid \in 1..NT /\ l = 1 /\ TLCSet(tid, 0)
Ev == Traces[tid][l]
IsEvent(e) == l <= Len(Traces[tid]) /\ Ev.a = e /\ l' = l + 1 /\ UNCHANGED tid

HopOf(x)  == [s |-> x.s, i |-> x.i, pktin |-> x.pktin, out |-> ToSet(x.out), icmp |-> x.icmp]
HopsOf(q) == {HopOf(q[k]) : k \in 1..Len(q)}
PatOf(x)  == [inp |-> x.inp, src |-> x.src, dst |-> x.dst, shs |-> ToSet(x.shs), out |-> x.out,
              ito |-> x.ito, hto |-> x.hto]
TblOf(q)  == {PatOf(q[k]) : k \in 1..Len(q)}
TblsMatch(e, o) == /\ Len(o) = NS
                   /\ \A s \in Switches : Len(o[s]) = Cardinality(TblOf(o[s])) /\ e[s] = TblOf(o[s])
BufsMatch(e, o) == Len(o) = NS /\ \A s \in Switches : e[s] = o[s]
AdjOf(q) == {<<q[k][1], q[k][2], q[k][3], q[k][4]>> : k \in 1..Len(q)}

TrSend ==
  /\ IsEvent("Send")
  /\ Send(Ev.args.h, Ev.args.dst, Ev.args.sh)
  /\ Ev.wf
  /\ Len(Ev.obs.hops) = Cardinality(HopsOf(Ev.obs.hops))
  /\ last'.exp.hops = HopsOf(Ev.obs.hops)
  /\ TblsMatch(last'.exp.tbls, Ev.obs.tbls)
  /\ BufsMatch(last'.exp.bufs, Ev.obs.bufs)
  /\ last'.exp.storm = Ev.obs.storm
TrMove ==
  /\ IsEvent("Move") /\ Move(Ev.args.h, <<Ev.args.s, Ev.args.p>>) /\ Ev.wf
TrTick ==
  /\ IsEvent("Tick") /\ Tick(Ev.args.d) /\ Ev.wf
  /\ TblsMatch(last'.exp.tbls, Ev.obs.tbls) /\ BufsMatch(last'.exp.bufs, Ev.obs.bufs)
LinkOfEnd(s, p) == CHOOSE x \in Links : <<s, p>> \in EndsOf(x)
TrCut ==
  /\ IsEvent("Cut") /\ <<Ev.args.s, Ev.args.p>> \in LinkEnds /\ Cut(LinkOfEnd(Ev.args.s, Ev.args.p)) /\ Ev.wf
TrRestore ==
  /\ IsEvent("Restore") /\ <<Ev.args.s, Ev.args.p>> \in LinkEnds /\ Restore(LinkOfEnd(Ev.args.s, Ev.args.p)) /\ Ev.wf
TrDetect ==
  /\ IsEvent("Detect") /\ Detect /\ Ev.wf
  /\ TblsMatch(last'.exp.tbls, Ev.obs.tbls) /\ BufsMatch(last'.exp.bufs, Ev.obs.bufs)
  /\ last'.exp.adj = AdjOf(Ev.obs.adj)

TrDetectBusy ==
  /\ IsEvent("DetectBusy") /\ DetectBusy(Ev.args.h, Ev.args.d) /\ Ev.wf
  /\ TblsMatch(last'.exp.tbls, Ev.obs.tbls) /\ BufsMatch(last'.exp.bufs, Ev.obs.bufs)
  /\ last'.exp.adj = AdjOf(Ev.obs.adj)
  /\ last'.exp.again = Ev.obs.again /\ last'.exp.lost = Ev.obs.lost

TrNext == TrSend \/ TrMove \/ TrTick \/ TrCut \/ TrRestore \/ TrDetect \/ TrDetectBusy
TrSpec == TrInit /\ [][TrNext]_tvars

Progress == TLCSet(tid, IF TLCGet(tid) < l - 1 THEN l - 1 ELSE TLCGet(tid))
Ok(t) == TLCGet(t) = Len(Traces[t]) \/ (PrintT(<<"REJECT", t, TLCGet(t)>>) /\ FALSE)
Accepted == /\ PrintT(<<"TRACES-CHECKED", NT>>)
            /\ Cardinality({t \in 1..NT : ~Ok(t)}) = 0
====
