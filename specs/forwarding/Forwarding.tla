---------------------------- MODULE Forwarding ----------------------------
(* X03: the other forwarding components of POX - forwarding.hub (proactive  *)
(* and reactive), forwarding.l2_pairs, forwarding.l2_multi (with             *)
(* openflow.discovery) - in a network of OpenFlow 1.0 switches, compared      *)
(* with their ideal bridge.                                                  *)
(*                                                                           *)
(* One module, one set of variables; the constant Comp selects the           *)
(* controller logic, the switch side (flow-table lookup, FLOOD, packet       *)
(* buffers, packet-in on a miss) is common.                                  *)
(*                                                                           *)
(* A frame travelling through the network is a set of HOPS, one per arrival  *)
(* at a switch port.  A hop is a table hit (the switch forwards by a cached  *)
(* flow) or a table miss -> packet-in -> the component decides:              *)
(*   hub_pro  one flow "everything -> FLOOD" installed when the switch        *)
(*            connects; there are no misses                                   *)
(*   hub_re   every frame is a packet-in, answered by a packet-out FLOOD      *)
(*   pairs    learn (connection, src) -> port; destination unknown: flood by  *)
(*            packet-out; known: install the two permanent flows              *)
(*            (src,dst) -> port(dst) and (dst,src) -> ingress port, the       *)
(*            second one carrying the packet                                  *)
(*   multi    LLDP ethertype: drop; learn src -> (switch, port) network-wide  *)
(*            (first sighting, or a later one on an edge port); multicast /   *)
(*            unknown destination: flood the buffered packet; known: compute  *)
(*            the shortest path over the discovered links, install exact      *)
(*            flows (idle 10, hard 30) on every switch of it, the reverse     *)
(*            flows too, wait for all barriers, then send the packet through  *)
(*            the first switch's table; unreachable: ICMP destination         *)
(*            unreachable back to the sender.  A discovery LinkEvent deletes  *)
(*            every flow on every switch and forgets all paths.               *)
(* Multi-step things are several actions: Cut / Restore (the wire changes,    *)
(* the controller does not know) and Detect (21 s pass: discovery's probes    *)
(* and link timeout notice, LinkEvents fire); Tick (time passes, flows age    *)
(* and expire).                                                              *)
(*                                                                           *)
(* Named deviations of the code from its documented intent (Strict = FALSE   *)
(* models the code as built, Strict = TRUE the intent; see notes/X03.md):     *)
(*   "flood-unbuffered"  l2_multi.flood() answers with the buffer id only: a  *)
(*                       packet-in that was not buffered is lost              *)
(*   "unreach-leak"      l2_multi.install_path() returns without releasing    *)
(*                       the packet buffer when there is no path              *)
(*   "holddown-flood"    l2_multi logs "Not flooding -- holddown active" and  *)
(*                       floods anyway                                        *)
EXTENDS Naturals, Sequences, FiniteSets, TLC, Json

CONSTANTS Comp,      \* "hub_pro" | "hub_re" | "pairs" | "multi"
          NS,        \* switches 1..NS
          NP,        \* ports per switch 1..NP
          Links,     \* cables <<s1,p1,s2,p2>>, s1 < s2, at most one per pair of switches and per port
          NoFlood,   \* ports <<s,p>> configured OFPPC_NO_FLOOD (a static spanning tree where Links has a cycle)
          Cuts,      \* cables that Cut / Restore may touch
          Hosts,     \* host ids; host h owns MAC h
          InitAt,    \* [Hosts -> <<s,p>>]
          MovePorts, \* attachment points Move may choose (hub / pairs)
          Dsts,      \* destinations used by Send: host ids, UNK, BCAST, MCAST
          Shapes,    \* payload shapes used by Send: "a" IP/UDP, "b" = the same flow reversed, "l" LLDP ethertype, "r" non-IP
          NBuf,      \* packet buffers per switch (0 = packet-ins carry the whole frame)
          Gaps,      \* durations of Tick
          Strict,    \* TRUE = documented intent, FALSE = as built (named deviations)
          Busy,      \* TRUE = the DetectBusy action exists (behaviours end with it, see there)
          D          \* export depth

Switches == 1..NS
Ports    == 1..NP
UNK   == 90          \* unicast, never a source
BCAST == 91
MCAST == 92
FLOOD == 99          \* "port" of an output:FLOOD action
None  == <<0, 0>>
AllShapes == {"a", "b", "l", "r"}
Flip(sh) == IF sh = "a" THEN "b" ELSE IF sh = "b" THEN "a" ELSE sh
IsIP(sh) == sh \in {"a", "b"}
IdleTO == 10
HardTO == 30
Cap == HardTO + 1     \* ages saturate here
HoldDown == 5         \* l2_multi.FLOOD_HOLDDOWN
DetectTime == 21      \* > link timeout (10) + check period (5) + probe cycle (5)
MaxHops == 4 * NS
Min(a, b) == IF a < b THEN a ELSE b

EndsOf(l) == {<<l[1], l[2]>>, <<l[3], l[4]>>}
LinkEnds == UNION {EndsOf(l) : l \in Links}
LinkAt(sp) == CHOOSE l \in Links : sp \in EndsOf(l)
PeerOf(sp) == LET l == LinkAt(sp) IN IF sp = <<l[1], l[2]>> THEN <<l[3], l[4]>> ELSE <<l[1], l[2]>>

VARIABLES at,      \* [Hosts -> <<s,p>>]
          up,      \* cables physically up
          adj,     \* cables the controller knows (discovery's adjacency = l2_multi's adjacency; multi only)
          tab,     \* pairs: [Switches -> [Hosts -> 0..NP]]  l2_pairs.table, 0 = not learned
          mac,     \* multi: [Hosts -> <<s,p>>]              l2_multi.mac_map, None = not learned
          flows,   \* [Switches -> set of flows]
          bufs,    \* [Switches -> 0..NBuf] packet buffers left occupied
          since,   \* multi: seconds since the switches connected, saturating at HoldDown + 1 (flood hold-down)
          moved,   \* hosts that changed their attachment point (history, for the properties)
          seen,    \* [Switches -> [Hosts -> 0..NP]] ideal-bridge learning: port of the latest arrival (history)
          fuzzy,   \* TRUE after DetectBusy: flow ages are no longer known, the behaviour ends
          last,    \* observation of the last action
          hist     \* all observations (export only)
svars == <<at, up, adj, tab, mac, flows, bufs, since, moved, seen, fuzzy>>
vars  == <<svars, last, hist>>
view  == <<svars, last>>
viewE == svars
viewN == <<svars, Len(hist)>>

\* a flow: match pattern (0 = wildcard), one output action, timeouts, ages
MkFlow(inp, src, dst, shs, out, ito, hto) ==
  [inp |-> inp, src |-> src, dst |-> dst, shs |-> shs, out |-> out, ito |-> ito, hto |-> hto, age |-> 0, idle |-> 0]
Pat(fl) == [inp |-> fl.inp, src |-> fl.src, dst |-> fl.dst, shs |-> fl.shs, out |-> fl.out, ito |-> fl.ito, hto |-> fl.hto]
Key(fl) == <<fl.inp, fl.src, fl.dst, fl.shs>>
Tbls(F) == [s \in Switches |-> {Pat(fl) : fl \in F[s]}]
HubFlow == MkFlow(0, 0, 0, AllShapes, FLOOD, 0, 0)

Frame(src, dst, sh) == [src |-> src, dst |-> dst, sh |-> sh]
Covers(fl, i, f) == /\ fl.inp \in {0, i} /\ fl.src \in {0, f.src} /\ fl.dst \in {0, f.dst} /\ f.sh \in fl.shs

hold == since <= HoldDown      \* Switch.is_holding_down: not (now - connected_at > FLOOD_HOLDDOWN)

\* ---- the switch
FloodPorts(s, i) == {p \in Ports : p # i /\ <<s, p>> \notin NoFlood}
\* an output action never sends back out of the ingress port (OFPP_IN_PORT would)
SwitchOut(s, i, o) == IF o = FLOOD THEN FloodPorts(s, i) ELSE ({o} \cap Ports) \ {i}
\* replace-or-add, as OFPFC_ADD does for an identical match
Install(F, new) == {fl \in F : \A n \in new : Key(fl) # Key(n)} \cup new

\* arrivals caused by emitting on the ports `out` of s: over cables that are up, ascending port order
RECURSIVE ArrFrom(_, _, _)
ArrFrom(s, out, q) ==
  IF q > NP THEN <<>>
  ELSE (IF q \in out /\ <<s, q>> \in LinkEnds
        THEN (IF LinkAt(<<s, q>>) \in up THEN <<PeerOf(<<s, q>>)>> ELSE <<>>)
        ELSE <<>>) \o ArrFrom(s, out, q + 1)

MkHop(s, i, pk, out, icmp, via, dev) ==
  [s |-> s, i |-> i, pktin |-> pk, out |-> out, icmp |-> icmp, via |-> via, dev |-> dev]
\* what a controller decision yields
Dec(fl, tb, mc, leak, out, icmp, via, dev) ==
  [flows |-> fl, tab |-> tb, mac |-> mc, leak |-> leak, out |-> out, icmp |-> icmp, via |-> via, dev |-> dev]

----------------------------------------------------------------------------
(* The components' packet-in handlers.  w = the state as the walk of the     *)
(* frame has changed it so far.                                              *)

\* hub (reactive): packet_out(data = the packet-in, FLOOD)
CtlHubRe(w, s, i, f) == Dec(w.flows, w.tab, w.mac, 0, FloodPorts(s, i), 0, "flood", "")

\* hub (proactive) never expects a packet-in: nobody answers, the buffer stays
CtlHubPro(w, s, i, f) ==
  Dec(w.flows, w.tab, w.mac, IF w.bufs[s] < NBuf THEN 1 ELSE 0, {}, 0, "unhandled", "")

\* l2_pairs._handle_PacketIn
CtlPairs(w, s, i, f) ==
  LET tab1  == [w.tab EXCEPT ![s][f.src] = i]                     \* table[(connection, src)] = port
      known == f.dst \in Hosts /\ tab1[s][f.dst] # 0
  IN IF ~known
     THEN Dec(w.flows, tab1, w.mac, 0, FloodPorts(s, i), 0, "flood", "")
     ELSE LET p   == tab1[s][f.dst]
              rev == MkFlow(0, f.dst, f.src, AllShapes, i, 0, 0)  \* first flow_mod: the way back
              fwd == MkFlow(0, f.src, f.dst, AllShapes, p, 0, 0)  \* second one carries the packet
              F2  == Install(Install(w.flows[s], {rev}), {fwd})
          IN Dec([w.flows EXCEPT ![s] = F2], tab1, w.mac, 0, SwitchOut(s, i, p), 0, "pair", "")

\* l2_multi: paths over the links the controller knows
Adjacent(a, b) == \E x \in adj : (x[1] = a /\ x[3] = b) \/ (x[1] = b /\ x[3] = a)
AdjPort(a, b) == LET l == CHOOSE x \in adj : (x[1] = a /\ x[3] = b) \/ (x[1] = b /\ x[3] = a)
                 IN IF l[1] = a THEN l[2] ELSE l[4]
\* shortest simple paths from a to b: grown level by level until one ends at b (_calc_paths is Floyd-Warshall;
\* which of several equally short paths it takes is not modelled - the worlds have unique shortest paths)
NextOn(p) == {x \in Switches : Adjacent(p[Len(p)], x) /\ \A k \in 1..Len(p) : p[k] # x}
RECURSIVE Grow(_, _, _)
Grow(P, b, n) ==
  LET done == {p \in P : p[Len(p)] = b} IN
  IF done # {} THEN done
  ELSE IF n = 0 \/ P = {} THEN {}
  ELSE Grow(UNION {{Append(p, t) : t \in NextOn(p)} : p \in P}, b, n - 1)
Routes(a, b) == Grow({<<a>>}, b, NS)
IsEdge(s, p) == \A l \in adj : <<s, p>> \notin EndsOf(l)          \* discovery.is_edge_port
\* ports of the k-th switch of route r entered at port i and left at port lp
InP(r, k, i)   == IF k = 1 THEN i ELSE AdjPort(r[k], r[k - 1])
OutP(r, k, lp) == IF k = Len(r) THEN lp ELSE AdjPort(r[k], r[k + 1])

\* Switch._handle_PacketIn.flood()
FloodMulti(w, s, i, mac1) ==
  LET buffered == w.bufs[s] < NBuf IN
  IF Strict
  THEN IF hold THEN Dec(w.flows, w.tab, mac1, 0, {}, 0, "held", "")
       ELSE Dec(w.flows, w.tab, mac1, 0, FloodPorts(s, i), 0, "flood", "")
  ELSE IF ~buffered
       THEN Dec(w.flows, w.tab, mac1, 0, {}, 0, "flood", "flood-unbuffered")         \* DEVIATION: frame lost
       ELSE Dec(w.flows, w.tab, mac1, 0, FloodPorts(s, i), 0, "flood",
                IF hold THEN "holddown-flood" ELSE "")                               \* DEVIATION: floods anyway

CtlMulti(w, s, i, f) ==
  IF f.sh = "l" THEN Dec(w.flows, w.tab, w.mac, 0, {}, 0, "lldp-drop", "")            \* drop(), before learning
  ELSE
  LET old  == w.mac[f.src]
      mac1 == IF old = None \/ (old # <<s, i>> /\ IsEdge(s, i))
              THEN [w.mac EXCEPT ![f.src] = <<s, i>>] ELSE w.mac
      known == f.dst \in Hosts /\ mac1[f.dst] # None
  IN IF ~known THEN FloodMulti(w, s, i, mac1)
     ELSE
     LET dl  == mac1[f.dst]
         rts == Routes(s, dl[1])
         buffered == w.bufs[s] < NBuf
     IN IF rts = {}
        THEN \* "Can't get from ... to ...": ICMP unreachable for IP; the buffer is not released (DEVIATION)
             Dec(w.flows, w.tab, mac1, IF buffered /\ ~Strict THEN 1 ELSE 0, {}, IF IsIP(f.sh) THEN 1 ELSE 0,
                 "unreach", IF buffered /\ ~Strict THEN "unreach-leak" ELSE "")
        ELSE LET r   == CHOOSE x \in rts : TRUE
                 n   == Len(r)
                 fwd == [t \in Switches |-> {MkFlow(InP(r, k, i), f.src, f.dst, {f.sh}, OutP(r, k, dl[2]), IdleTO, HardTO)
                                               : k \in {j \in 1..n : r[j] = t}}]
                 rev == [t \in Switches |-> {MkFlow(OutP(r, k, dl[2]), f.dst, f.src, {Flip(f.sh)}, InP(r, k, i), IdleTO, HardTO)
                                               : k \in {j \in 1..n : r[j] = t}}]
                 F2  == [t \in Switches |-> Install(Install(w.flows[t], fwd[t]), rev[t])]
                 \* all barriers in: packet_out(data = the packet-in, output:TABLE) at this switch
                 hit == CHOOSE fl \in F2[s] : Covers(fl, i, f)
             IN Dec(F2, w.tab, mac1, 0, SwitchOut(s, i, hit.out), 0,
                    IF adj = Links THEN "path" ELSE "repath", "")                  \* repath: after a link went down

Ctl(w, s, i, f) ==
  CASE Comp = "hub_re"  -> CtlHubRe(w, s, i, f)
    [] Comp = "hub_pro" -> CtlHubPro(w, s, i, f)
    [] Comp = "pairs"   -> CtlPairs(w, s, i, f)
    [] Comp = "multi"   -> CtlMulti(w, s, i, f)

----------------------------------------------------------------------------
(* One arrival, and the walk of a frame through the network                  *)

Hop(w, s, i, f) ==
  LET sn   == [w.seen EXCEPT ![s][f.src] = i]
      hits == {fl \in w.flows[s] : Covers(fl, i, f)}
  IN IF hits # {}
     THEN LET fl  == CHOOSE x \in hits : TRUE
              out == SwitchOut(s, i, fl.out)
          IN [w EXCEPT !.seen = sn,
                       !.flows[s] = (@ \ {fl}) \cup {[fl EXCEPT !.idle = 0]},
                       !.hops = @ \cup {MkHop(s, i, 0, out, 0, "flow", "")},
                       !.todo = Tail(@) \o ArrFrom(s, out, 1)]
     ELSE LET r == Ctl(w, s, i, f)
          IN [w EXCEPT !.seen = sn, !.flows = r.flows, !.tab = r.tab, !.mac = r.mac,
                       !.bufs[s] = @ + r.leak,
                       !.hops = @ \cup {MkHop(s, i, 1, r.out, r.icmp, r.via, r.dev)},
                       !.todo = Tail(@) \o ArrFrom(s, r.out, 1)]

RECURSIVE Walk(_, _, _)
Walk(w, f, fuel) ==
  IF w.todo = <<>> \/ fuel = 0 THEN w
  ELSE Walk(Hop(w, Head(w.todo)[1], Head(w.todo)[2], f), f, fuel - 1)

NoObs == [a |-> "Init", args |-> [x |-> 0], exp |-> [x |-> 0], full |-> {}]
Log(a, args, exp, full) ==
  /\ last' = [a |-> a, args |-> args, exp |-> exp, full |-> full]
  /\ hist' = Append(hist, [a |-> a, args |-> args, exp |-> exp,
                           tags |-> {hp.via : hp \in full} \cup {hp.dev : hp \in full}])
Brief(hops) == {[s |-> hp.s, i |-> hp.i, pktin |-> hp.pktin, out |-> hp.out, icmp |-> hp.icmp] : hp \in hops}

Init == /\ at = InitAt
        /\ up = Links /\ adj = Links
        /\ tab = [s \in Switches |-> [h \in Hosts |-> 0]]
        /\ mac = [h \in Hosts |-> None]
        /\ flows = [s \in Switches |-> IF Comp = "hub_pro" THEN {HubFlow} ELSE {}]   \* hub._handle_ConnectionUp
        /\ bufs = [s \in Switches |-> 0]
        /\ since = IF Comp = "multi" THEN 0 ELSE HoldDown + 1
        /\ moved = {}
        /\ seen = [s \in Switches |-> [h \in Hosts |-> 0]]
        /\ fuzzy = FALSE
        /\ last = NoObs /\ hist = <<>>

\* host h sends a frame.  (While a cable is up that discovery has not found yet, l2_multi's behaviour depends
\* on timing inside the probe cycle: those steps are left out.)
Send(h, dst, sh) ==
  /\ ~fuzzy
  /\ Comp = "multi" => up \subseteq adj
  /\ LET f  == Frame(h, dst, sh)
         w0 == [flows |-> flows, tab |-> tab, mac |-> mac, bufs |-> bufs, seen |-> seen,
                hops |-> {}, todo |-> <<at[h]>>]
         w  == Walk(w0, f, MaxHops)
     IN /\ flows' = w.flows /\ tab' = w.tab /\ mac' = w.mac /\ bufs' = w.bufs /\ seen' = w.seen
        /\ UNCHANGED <<at, up, adj, since, moved, fuzzy>>
        /\ Log("Send", [h |-> h, dst |-> dst, sh |-> sh],
               [hops |-> Brief(w.hops), tbls |-> Tbls(w.flows), bufs |-> w.bufs,
                storm |-> IF w.todo = <<>> THEN 0 ELSE 1], w.hops)

Move(h, sp) ==
  /\ ~fuzzy
  /\ Comp # "multi"
  /\ sp # at[h]
  /\ at' = [at EXCEPT ![h] = sp]
  /\ moved' = moved \cup {h}
  /\ UNCHANGED <<up, adj, tab, mac, flows, bufs, since, seen, fuzzy>>
  /\ Log("Move", [h |-> h, s |-> sp[1], p |-> sp[2]], [x |-> 0], {})

Older(fl, d) == [fl EXCEPT !.age = Min(@ + d, Cap), !.idle = Min(@ + d, Cap)]
Expired(fl) == (fl.ito > 0 /\ fl.idle > fl.ito) \/ (fl.hto > 0 /\ fl.age > fl.hto)
\* d seconds pass without a topology change to notice; the switches expire flows
Tick(d) ==
  /\ ~fuzzy
  /\ adj = up
  /\ flows' = [s \in Switches |-> {fl \in {Older(x, d) : x \in flows[s]} : ~Expired(fl)}]
  /\ since' = Min(since + d, HoldDown + 1)
  /\ UNCHANGED <<at, up, adj, tab, mac, bufs, moved, seen, fuzzy>>
  /\ Log("Tick", [d |-> d], [tbls |-> Tbls(flows'), bufs |-> bufs], {})

Cut(l) ==
  /\ ~fuzzy
  /\ l \in up \cap Cuts
  /\ up' = up \ {l}
  /\ UNCHANGED <<at, adj, tab, mac, flows, bufs, since, moved, seen, fuzzy>>
  /\ Log("Cut", [s |-> l[1], p |-> l[2]], [x |-> 0], {})
Restore(l) ==
  /\ ~fuzzy
  /\ l \in Cuts \ up
  /\ up' = up \cup {l}
  /\ UNCHANGED <<at, adj, tab, mac, flows, bufs, since, moved, seen, fuzzy>>
  /\ Log("Restore", [s |-> l[1], p |-> l[2]], [x |-> 0], {})

\* DetectTime seconds pass: discovery times out the cut cables and finds the restored ones; every LinkEvent
\* makes l2_multi delete all flows on all switches and forget its paths; a link coming up also unlearns the
\* addresses learned on its two ports
Detect ==
  /\ ~fuzzy
  /\ Comp = "multi" /\ adj # up
  /\ adj' = up
  /\ flows' = [s \in Switches |-> {}]
  /\ mac' = [h \in Hosts |-> IF \E l \in up \ adj : mac[h] \in EndsOf(l) THEN None ELSE mac[h]]
  /\ since' = HoldDown + 1
  /\ UNCHANGED <<at, up, tab, bufs, moved, seen, fuzzy>>
  /\ Log("Detect", [x |-> 0], [tbls |-> Tbls(flows'), adj |-> up, bufs |-> bufs], {})

\* The same DetectTime seconds while hosts h and d keep talking (a frame every 2 s, alternately h -> d with
\* shape "a" and d -> h with the reverse shape "b"), over a path that the cut cables are not part of.  Their
\* flows never idle out, so it is the LinkEvent that removes them: exactly then the conversation causes a
\* packet-in again and the path is installed anew; every frame of the conversation is delivered; all other
\* flows have idled out at the end.  Discovery may notice the two directions of a dead cable in two different
\* checks (two LinkEvents, two re-installations), and WHEN in the interval it notices is not fixed: the ages
\* of the flows are not known afterwards, the behaviour ends here (fuzzy).
DetectBusy(h, d) ==
  /\ ~fuzzy /\ Busy /\ Comp = "multi"
  /\ adj # up /\ up \subseteq adj
  /\ h # d /\ mac[h] # None /\ mac[d] # None
  /\ LET rts == Routes(mac[h][1], mac[d][1]) IN
     /\ rts # {}
     /\ LET r == CHOOSE x \in rts : TRUE IN
          \A k \in 1..(Len(r) - 1) : \E l \in up : {l[1], l[3]} = {r[k], r[k + 1]}
  /\ LET none == [s \in Switches |-> {}]
         w0 == [flows |-> none, tab |-> tab, mac |-> mac, bufs |-> bufs, seen |-> seen, hops |-> {},
                todo |-> <<at[h]>>]
         w1 == Walk(w0, Frame(h, d, "a"), MaxHops)                                  \* re-installation
         w2 == Walk([w1 EXCEPT !.hops = {}, !.todo = <<at[d]>>], Frame(d, h, "b"), MaxHops)
     IN /\ flows' = w2.flows /\ mac' = w2.mac /\ bufs' = w2.bufs /\ seen' = w2.seen
        /\ adj' = up /\ since' = HoldDown + 1 /\ fuzzy' = TRUE
        /\ UNCHANGED <<at, up, tab, moved>>
        /\ Log("DetectBusy", [h |-> h, d |-> d],
               [again |-> 1, lost |-> 0, tbls |-> Tbls(w2.flows), adj |-> up, bufs |-> w2.bufs], {})

SendAny == \E h \in Hosts, dst \in Dsts, sh \in Shapes : Send(h, dst, sh)
BusyAny == \E h \in Hosts, d \in Hosts : DetectBusy(h, d)
MoveAny == \E h \in Hosts, sp \in MovePorts : Move(h, sp)
TickAny == \E d \in Gaps : Tick(d)
CutAny  == \E l \in Cuts : Cut(l)
RestoreAny == \E l \in Cuts : Restore(l)
Next == SendAny \/ MoveAny \/ TickAny \/ CutAny \/ RestoreAny \/ Detect \/ BusyAny
Spec == Init /\ [][Next]_vars

\* the same relation split by what happened (names for TLC's coverage report: the vacuity guard)
HasVia(k) == \E hp \in last'.full : hp.via = k
HasDev(k) == \E hp \in last'.full : hp.dev = k
ViaFlow    == SendAny /\ HasVia("flow")
ViaFlood   == SendAny /\ HasVia("flood") /\ \E hp \in last'.full : hp.via = "flood" /\ hp.out # {}
ViaPair    == SendAny /\ HasVia("pair")
ViaPath    == SendAny /\ (HasVia("path") \/ HasVia("repath"))
ViaLldp    == SendAny /\ HasVia("lldp-drop")
ViaUnreach == SendAny /\ HasVia("unreach")
ViaHeld    == SendAny /\ HasVia("held")
ViaLink    == SendAny /\ Cardinality(last'.full) > 1
ViaLost    == SendAny /\ \E hp \in last'.full : \E q \in hp.out : <<hp.s, q>> \in LinkEnds /\ LinkAt(<<hp.s, q>>) \notin up
DevFloodUnbuffered == SendAny /\ HasDev("flood-unbuffered")
DevUnreachLeak     == SendAny /\ HasDev("unreach-leak")
DevHolddownFlood   == SendAny /\ HasDev("holddown-flood")
TickExpires == TickAny /\ \E s \in Switches : Cardinality(flows'[s]) < Cardinality(flows[s])
TickKeeps   == TickAny /\ \A s \in Switches : Cardinality(flows'[s]) = Cardinality(flows[s])
NextC == ViaFlow \/ ViaFlood \/ ViaPair \/ ViaPath \/ ViaLldp \/ ViaUnreach \/ ViaHeld \/ ViaLink \/ ViaLost
         \/ DevFloodUnbuffered \/ DevUnreachLeak \/ DevHolddownFlood \/ SendAny
         \/ MoveAny \/ TickExpires \/ TickKeeps \/ CutAny \/ RestoreAny \/ Detect \/ BusyAny

----------------------------------------------------------------------------
(* The properties                                                            *)

FlowOK(fl) == /\ fl.inp \in {0} \cup Ports /\ fl.out \in Ports \cup {FLOOD}
              /\ fl.src \in {0} \cup Hosts /\ fl.dst \in {0} \cup Hosts /\ fl.shs \subseteq AllShapes
              /\ fl.age \in 0..Cap /\ fl.idle \in 0..fl.age
TypeOK ==
  /\ at \in [Hosts -> (Switches \X Ports)]
  /\ up \subseteq Links /\ adj \subseteq Links
  /\ tab \in [Switches -> [Hosts -> {0} \cup Ports]]
  /\ mac \in [Hosts -> {None} \cup (Switches \X Ports)]
  /\ \A s \in Switches : \A fl \in flows[s] : FlowOK(fl)
  /\ bufs \in [Switches -> 0..NBuf]
  /\ since \in 0..(HoldDown + 1) /\ moved \subseteq Hosts /\ fuzzy \in BOOLEAN

\* a frame never meets two cached flows (the table's tie-breaking is not relied upon)
Overlap(x, y) == /\ (x.inp = 0 \/ y.inp = 0 \/ x.inp = y.inp) /\ (x.src = 0 \/ y.src = 0 \/ x.src = y.src)
                 /\ (x.dst = 0 \/ y.dst = 0 \/ x.dst = y.dst) /\ x.shs \cap y.shs # {}
UniqueHit == \A s \in Switches : \A x, y \in flows[s] : (x # y) => ~Overlap(x, y)

\* what the controller has learned is true: l2_pairs' table is the ideal bridge's (hosts that never moved),
\* l2_multi's mac_map holds a host's real attachment point
LearnedTrue ==
  /\ Comp = "pairs" => \A s \in Switches, h \in Hosts \ moved : tab[s][h] = seen[s][h]
  /\ Comp = "multi" => \A h \in Hosts : mac[h] \in {None, at[h]}

\* buffers: the intended designs release every buffer; as built only the named deviation keeps one
NoLeak == (Strict /\ Comp # "hub_pro") => \A s \in Switches : bufs[s] = 0
LeakOnlyByDeviation ==
  [][bufs' # bufs => \E hp \in last'.full : hp.dev = "unreach-leak" \/ hp.via = "unhandled"]_vars
StrictHasNoDeviation == [][Strict => \A hp \in last'.full : hp.dev = ""]_vars

\* l2_multi: installed paths follow links that exist (in the controller's current view: a LinkEvent removes
\* every flow) ...
FlowsFollowLinks ==
  Comp = "multi" => \A s \in Switches : \A fl \in flows[s] :
     /\ <<s, fl.out>> \in LinkEnds => LinkAt(<<s, fl.out>>) \in adj
     /\ <<s, fl.inp>> \in LinkEnds => LinkAt(<<s, fl.inp>>) \in adj
\* ... and are loop-free: following the flows of one (src, dst, shape) from switch to switch never returns
NextSw(s, k) == {PeerOf(<<s, fl.out>>)[1] : fl \in {x \in flows[s] : <<x.src, x.dst, x.shs>> = k /\ <<s, x.out>> \in LinkEnds}}
RECURSIVE ReachK(_, _, _)
ReachK(S, k, n) == IF n = 0 THEN S ELSE ReachK(S \cup UNION {NextSw(t, k) : t \in S}, k, n - 1)
FlowKeys == UNION {{<<fl.src, fl.dst, fl.shs>> : fl \in flows[s]} : s \in Switches}
FlowsLoopFree ==
  Comp = "multi" => \A k \in FlowKeys : \A s \in Switches : s \notin ReachK(NextSw(s, k), k, NS)

\* --- action properties about the frame just sent (evaluated in the state BEFORE it)
IsSend == last'.a = "Send"
Fr == Frame(last'.args.h, last'.args.dst, last'.args.sh)
Hops == last'.full
HostOut == (UNION {{<<hp.s, q>> : q \in hp.out} : hp \in Hops}) \ LinkEnds
\* switches a flooded frame must reach: along cables that are up and flood at both ends
FloodLink(l) == l \in up /\ EndsOf(l) \cap NoFlood = {}
RECURSIVE FloodReach(_, _)
FloodReach(S, n) ==
  IF n = 0 THEN S
  ELSE FloodReach(S \cup {t \in Switches : \E l \in Links : FloodLink(l) /\ \E e \in EndsOf(l) : e[1] \in S /\ t \in {x[1] : x \in EndsOf(l)}}, n - 1)

\* nothing goes back out of the ingress port
NeverBack == [][IsSend => \A hp \in Hops : hp.i \notin hp.out /\ hp.out \subseteq Ports]_vars
\* no loops, no duplicates: a frame arrives at a switch at most once
OncePerSwitch == [][IsSend => /\ last'.exp.storm = 0
                              /\ \A x, y \in Hops : x.s = y.s => x = y]_vars
\* hub: every frame leaves every other port, exactly once (sets + OncePerSwitch), and reaches every switch
HubFloodsAll ==
  [][(IsSend /\ Comp \in {"hub_pro", "hub_re"}) =>
       /\ \A hp \in Hops : hp.out = FloodPorts(hp.s, hp.i) /\ hp.pktin = (IF Comp = "hub_re" THEN 1 ELSE 0)
       /\ {hp.s : hp \in Hops} = FloodReach({at[last'.args.h][1]}, NS)]_vars
\* l2_pairs, hop by hop against the ideal learning bridge (the frame in hand is a sighting of its source)
PairsIdeal ==
  [][(IsSend /\ Comp = "pairs") =>
       \A hp \in Hops :
          LET sn == [seen[hp.s] EXCEPT ![Fr.src] = hp.i]
              known == Fr.dst \in Hosts /\ sn[Fr.dst] # 0
          IN /\ ~known => hp.out = FloodPorts(hp.s, hp.i) /\ hp.pktin = 1
             /\ (known /\ Fr.src \notin moved /\ Fr.dst \notin moved) => hp.out = {sn[Fr.dst]} \ {hp.i}]_vars
\* l2_multi: "known" = learned network-wide from a non-LLDP frame (the frame in hand counts)
KnownM == Fr.dst \in Hosts /\ (mac[Fr.dst] # None \/ Fr.dst = Fr.src)
Clean == \A hp \in Hops : hp.dev = "" /\ hp.via # "held"
MultiFloods ==
  [][(IsSend /\ Comp = "multi" /\ Fr.sh # "l" /\ ~KnownM) =>
       /\ \A hp \in Hops : (hp.dev # "flood-unbuffered" /\ hp.via # "held") => hp.out = FloodPorts(hp.s, hp.i)
       /\ Clean => {hp.s : hp \in Hops} = FloodReach({at[last'.args.h][1]}, NS)]_vars
MultiDropsLldp ==
  [][(IsSend /\ Comp = "multi" /\ Fr.sh = "l") => \A hp \in Hops : hp.out = {}]_vars
\* a frame to a known address is delivered to that host and only there
RouteUp(a, b) == \E r \in Routes(a, b) : \A k \in 1..(Len(r) - 1) :
                    \E l \in up : {l[1], l[3]} = {r[k], r[k + 1]}
MultiDelivers ==
  [][(IsSend /\ Comp = "multi" /\ Fr.sh # "l" /\ KnownM) =>
       LET tgt == at[Fr.dst]
           src == at[Fr.src]
       IN /\ \A hp \in Hops : Cardinality(hp.out) <= 1
          /\ HostOut \subseteq {tgt} \ {src}
          /\ (RouteUp(src[1], tgt[1]) /\ tgt # src) => HostOut = {tgt}
          /\ Routes(src[1], tgt[1]) = {} => \A hp \in Hops : hp.out = {}]_vars
\* an ICMP error made up by the controller leaves on a host port only (it is not followed further)
IcmpAtEdge == [][IsSend => \A hp \in Hops : hp.icmp = 1 => <<hp.s, hp.i>> \notin LinkEnds]_vars

\* ---- export for the harness
Bound   == Len(hist) <= D
Export  == (Len(hist) = D) => PrintT(<<"H", ToJson(hist)>>)
ExportT == PrintT(<<"T", ToJson(hist')>>)
=============================================================================
