CONSTANTS Comp = "multi"
  NS = 2
  NP = 3
  Links <- L_T2
  NoFlood <- NF_none
  Cuts <- L_T2
  Hosts <- H2
  InitAt <- At2_2
  MovePorts <- Mv_none
  Dsts <- D_H2B
  Shapes <- Sh_ar
  NBuf = 0
  Gaps <- G_6_31
  Strict = FALSE
  Busy = FALSE
  D = 0
INIT TrInit
NEXT TrNext
CONSTRAINT Progress
POSTCONDITION Accepted
CHECK_DEADLOCK FALSE
INVARIANT TypeOK
INVARIANT UniqueHit
INVARIANT LearnedTrue
INVARIANT NoLeak
INVARIANT FlowsFollowLinks
INVARIANT FlowsLoopFree
