CONSTANTS Comp = "multi"
  NS = 2
  NP = 3
  Links <- L_T2
  NoFlood <- NF_none
  Cuts <- L_T2
  Hosts <- H2
  InitAt <- At2_2
  MovePorts <- Mv_none
  Dsts <- D_H2B
  Shapes <- Sh_ar
  NBuf = 0
  Gaps <- G_6_31
  Strict = TRUE
  Busy = FALSE
  D = 6
INIT Init
NEXT Next
VIEW viewE
CONSTRAINT Bound
CHECK_DEADLOCK FALSE
INVARIANT TypeOK
INVARIANT UniqueHit
INVARIANT LearnedTrue
INVARIANT NoLeak
INVARIANT FlowsFollowLinks
INVARIANT FlowsLoopFree
PROPERTY LeakOnlyByDeviation
PROPERTY StrictHasNoDeviation
PROPERTY NeverBack
PROPERTY OncePerSwitch
PROPERTY HubFloodsAll
PROPERTY PairsIdeal
PROPERTY MultiFloods
PROPERTY MultiDropsLldp
PROPERTY MultiDelivers
PROPERTY IcmpAtEdge
