CONSTANTS Comp = "hub_re"
  NS = 2
  NP = 3
  Links <- L_T2
  NoFlood <- NF_none
  Cuts <- L_none
  Hosts <- H3
  InitAt <- At2_3
  MovePorts <- Mv2s
  Dsts <- D_1UB
  Shapes <- Sh_al
  NBuf = 2
  Gaps <- G_none
  Strict = FALSE
  Busy = FALSE
  D = 0
INIT TrInit
NEXT TrNext
CONSTRAINT Progress
POSTCONDITION Accepted
CHECK_DEADLOCK FALSE
INVARIANT TypeOK
INVARIANT UniqueHit
INVARIANT LearnedTrue
INVARIANT NoLeak
INVARIANT FlowsFollowLinks
INVARIANT FlowsLoopFree
