CONSTANTS Comp = "multi"
  NS = 2
  NP = 3
  Links <- L_T2
  NoFlood <- NF_none
  Cuts <- L_T2
  Hosts <- H2
  InitAt <- At2_2
  MovePorts <- Mv_none
  Dsts <- D_H2B
  Shapes <- Sh_ar
  NBuf = 1
  Gaps <- G_6_31
  Strict = FALSE
  Busy = FALSE
  D = 3
INIT Init
NEXT Next
VIEW viewE
CONSTRAINT Bound
ACTION_CONSTRAINT ExportT
CHECK_DEADLOCK FALSE
