CONSTANTS Comp = "multi"
  NS = 1
  NP = 3
  Links <- L_none
  NoFlood <- NF_none
  Cuts <- L_none
  Hosts <- H2
  InitAt <- At1_same
  MovePorts <- Mv_none
  Dsts <- D_H2B
  Shapes <- Sh_ar
  NBuf = 2
  Gaps <- G_6
  Strict = TRUE
  Busy = FALSE
  D = 4
INIT Init
NEXT Next
VIEW viewE
CONSTRAINT Bound
ACTION_CONSTRAINT ExportT
CHECK_DEADLOCK FALSE
