CONSTANTS Comp = "hub_re"
  NS = 2
  NP = 3
  Links <- L_T2
  NoFlood <- NF_none
  Cuts <- L_none
  Hosts <- H3
  InitAt <- At2_3
  MovePorts <- Mv2s
  Dsts <- D_1UB
  Shapes <- Sh_al
  NBuf = 0
  Gaps <- G_none
  Strict = TRUE
  Busy = FALSE
  D = 4
INIT Init
NEXT Next
VIEW viewE
CONSTRAINT Bound
CHECK_DEADLOCK FALSE
INVARIANT TypeOK
INVARIANT UniqueHit
INVARIANT LearnedTrue
INVARIANT NoLeak
INVARIANT FlowsFollowLinks
INVARIANT FlowsLoopFree
PROPERTY LeakOnlyByDeviation
PROPERTY StrictHasNoDeviation
PROPERTY NeverBack
PROPERTY OncePerSwitch
PROPERTY HubFloodsAll
PROPERTY PairsIdeal
PROPERTY MultiFloods
PROPERTY MultiDropsLldp
PROPERTY MultiDelivers
PROPERTY IcmpAtEdge
