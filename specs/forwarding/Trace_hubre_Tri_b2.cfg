CONSTANTS Comp = "hub_re"
  NS = 3
  NP = 3
  Links <- L_Tri
  NoFlood <- NF_Tri
  Cuts <- L_none
  Hosts <- H3
  InitAt <- AtTri
  MovePorts <- Mv_none
  Dsts <- D_1UB
  Shapes <- Sh_a
  NBuf = 2
  Gaps <- G_none
  Strict = FALSE
  Busy = FALSE
  D = 0
INIT TrInit
NEXT TrNext
CONSTRAINT Progress
POSTCONDITION Accepted
CHECK_DEADLOCK FALSE
INVARIANT TypeOK
INVARIANT UniqueHit
INVARIANT LearnedTrue
INVARIANT NoLeak
INVARIANT FlowsFollowLinks
INVARIANT FlowsLoopFree
