CONSTANTS Comp = "multi"
  NS = 3
  NP = 3
  Links <- L_Tri
  NoFlood <- NF_Tri
  Cuts <- C_Tri12
  Hosts <- H3
  InitAt <- AtTri
  MovePorts <- Mv_none
  Dsts <- D_H3B
  Shapes <- Sh_a
  NBuf = 2
  Gaps <- G_6_11
  Strict = FALSE
  Busy = FALSE
  D = 0
INIT TrInit
NEXT TrNext
CONSTRAINT Progress
POSTCONDITION Accepted
CHECK_DEADLOCK FALSE
INVARIANT TypeOK
INVARIANT UniqueHit
INVARIANT LearnedTrue
INVARIANT NoLeak
INVARIANT FlowsFollowLinks
INVARIANT FlowsLoopFree
