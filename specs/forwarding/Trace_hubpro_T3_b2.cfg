CONSTANTS Comp = "hub_pro"
  NS = 3
  NP = 3
  Links <- L_T3
  NoFlood <- NF_none
  Cuts <- L_none
  Hosts <- H3
  InitAt <- At3_3
  MovePorts <- Mv_none
  Dsts <- D_1UB
  Shapes <- Sh_al
  NBuf = 2
  Gaps <- G_31
  Strict = FALSE
  Busy = FALSE
  D = 0
INIT TrInit
NEXT TrNext
CONSTRAINT Progress
POSTCONDITION Accepted
CHECK_DEADLOCK FALSE
INVARIANT TypeOK
INVARIANT UniqueHit
INVARIANT LearnedTrue
INVARIANT NoLeak
INVARIANT FlowsFollowLinks
INVARIANT FlowsLoopFree
