---- MODULE MCForwarding ----
(* Constants of the model-checking / export / trace configurations.           *)
(* Topologies (NP = 3 ports per switch):                                       *)
(*   T1   one switch, host ports 1,2,3                                          *)
(*   T2   s1.3 -- s2.3, host ports 1,2 on each                                  *)
(*   T3   s1.3 -- s2.3, s2.2 -- s3.3 (a line)                                   *)
(*   Tri  s1.2 -- s2.2, s1.3 -- s3.2, s2.3 -- s3.3 (a triangle); port 1 of each *)
(*        switch is the host port; the ends of s2.3 -- s3.3 are NO_FLOOD (the   *)
(*        static spanning tree rooted at s1), paths may use all three cables    *)
EXTENDS Forwarding

L_none == {}
L_T2  == {<<1, 3, 2, 3>>}
L_T3  == {<<1, 3, 2, 3>>, <<2, 2, 3, 3>>}
L_Tri == {<<1, 2, 2, 2>>, <<1, 3, 3, 2>>, <<2, 3, 3, 3>>}
NF_none == {}
NF_Tri  == {<<2, 3>>, <<3, 3>>}
C_Tri12 == {<<1, 2, 2, 2>>, <<2, 3, 3, 3>>}      \* cables Cut may touch in the triangle

C_Tri1  == {<<1, 2, 2, 2>>}
H2 == {1, 2}
H3 == {1, 2, 3}
At1_3 == (1 :> <<1, 1>>) @@ (2 :> <<1, 2>>) @@ (3 :> <<1, 3>>)
At1_2 == (1 :> <<1, 1>>) @@ (2 :> <<1, 2>>)
At1_same == (1 :> <<1, 1>>) @@ (2 :> <<1, 1>>)
At2_3 == (1 :> <<1, 1>>) @@ (2 :> <<1, 2>>) @@ (3 :> <<2, 1>>)
At2_2 == (1 :> <<1, 1>>) @@ (2 :> <<2, 1>>)
At3_3 == (1 :> <<1, 1>>) @@ (2 :> <<2, 1>>) @@ (3 :> <<3, 1>>)
AtTri == (1 :> <<1, 1>>) @@ (2 :> <<2, 1>>) @@ (3 :> <<3, 1>>)
Mv_none == {}
Mv1 == {<<1, 1>>, <<1, 2>>, <<1, 3>>}
Mv2 == {<<1, 1>>, <<1, 2>>, <<2, 1>>, <<2, 2>>}
Mv2s == {<<1, 2>>, <<2, 2>>}

D_H2   == {1, 2}
D_H2B  == {1, 2, BCAST}
D_H3   == {1, 2, 3}
D_H3B  == {1, 2, 3, BCAST}
D_H3UB == {1, 2, 3, UNK, BCAST}
D_All3 == {1, 2, 3, UNK, BCAST, MCAST}
D_All2 == {1, 2, UNK, BCAST, MCAST}
D_1UB  == {1, UNK, BCAST}
Sh_a   == {"a"}
Sh_ab  == {"a", "b"}
Sh_al  == {"a", "l"}
Sh_abl == {"a", "b", "l"}
Sh_ar  == {"a", "r"}
Sh_ablr == {"a", "b", "l", "r"}
G_none == {}
G_31   == {31}
G_6    == {6}
G_6_11 == {6, 11}
G_6_31 == {6, 31}
G_3_6_31 == {3, 6, 31}
G_all  == {6, 11, 31}
====
