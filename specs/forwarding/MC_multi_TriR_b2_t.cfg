CONSTANTS Comp = "multi"
  NS = 3
  NP = 3
  Links <- L_Tri
  NoFlood <- NF_Tri
  Cuts <- C_Tri12
  Hosts <- H2
  InitAt <- At2_2
  MovePorts <- Mv_none
  Dsts <- D_H2
  Shapes <- Sh_a
  NBuf = 2
  Gaps <- G_none
  Strict = FALSE
  Busy = TRUE
  D = 8
INIT Init
NEXT Next
VIEW viewE
CONSTRAINT Bound
CHECK_DEADLOCK FALSE
INVARIANT TypeOK
INVARIANT UniqueHit
INVARIANT LearnedTrue
INVARIANT NoLeak
INVARIANT FlowsFollowLinks
INVARIANT FlowsLoopFree
PROPERTY LeakOnlyByDeviation
PROPERTY StrictHasNoDeviation
PROPERTY NeverBack
PROPERTY OncePerSwitch
PROPERTY HubFloodsAll
PROPERTY PairsIdeal
PROPERTY MultiFloods
PROPERTY MultiDropsLldp
PROPERTY MultiDelivers
PROPERTY IcmpAtEdge
