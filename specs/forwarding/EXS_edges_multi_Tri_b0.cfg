CONSTANTS Comp = "multi"
  NS = 3
  NP = 3
  Links <- L_Tri
  NoFlood <- NF_Tri
  Cuts <- C_Tri12
  Hosts <- H3
  InitAt <- AtTri
  MovePorts <- Mv_none
  Dsts <- D_H3B
  Shapes <- Sh_a
  NBuf = 0
  Gaps <- G_6_11
  Strict = TRUE
  Busy = FALSE
  D = 3
INIT Init
NEXT Next
VIEW viewE
CONSTRAINT Bound
ACTION_CONSTRAINT ExportT
CHECK_DEADLOCK FALSE
