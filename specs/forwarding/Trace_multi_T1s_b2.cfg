CONSTANTS Comp = "multi"
  NS = 1
  NP = 3
  Links <- L_none
  NoFlood <- NF_none
  Cuts <- L_none
  Hosts <- H2
  InitAt <- At1_same
  MovePorts <- Mv_none
  Dsts <- D_H2B
  Shapes <- Sh_ar
  NBuf = 2
  Gaps <- G_6
  Strict = FALSE
  Busy = FALSE
  D = 0
INIT TrInit
NEXT TrNext
CONSTRAINT Progress
POSTCONDITION Accepted
CHECK_DEADLOCK FALSE
INVARIANT TypeOK
INVARIANT UniqueHit
INVARIANT LearnedTrue
INVARIANT NoLeak
INVARIANT FlowsFollowLinks
INVARIANT FlowsLoopFree
