------------------------------ MODULE WebTable ------------------------------
(* X14: the OpenFlow web service (pox/openflow/webservice.py) and the flow table of the switch *)
(* it manages, with of_json.py doing the translation in both directions.                      *)
(*                                                                                              *)
(* State: the switch's flow table (entries with counters and age), the two directions of the    *)
(* OpenFlow channel as FIFO queues of messages, the HTTP requests in progress, virtual time.    *)
(* One action per step of the implementation:                                                   *)
(*                                                                                              *)
(*   CallSetTable / CallGetStats   the JSON-RPC request reaches OFRequestHandler: a request       *)
(*                  object is created, its _do_init is queued on the scheduler (core.callLater),  *)
(*                  the HTTP thread blocks in get_response()                                      *)
(*   CallNoSwitch   a request naming a dpid that is not connected: answered at once               *)
(*   InitReq        the scheduler runs _do_init/_init: listeners on the connection, then           *)
(*                  set_table : DELETE all + barrier, then flow_mod + barrier per flow              *)
(*                              (dict_to_flow_mod, pack) - all with ONE transaction id              *)
(*                  get_flow_stats : dict_to_match, one OFPST_FLOW request                          *)
(*   SwitchStep     the switch takes the next message: table cleared / entry added (replacing an    *)
(*                  identical one; error when the table is full) / barrier answered / statistics    *)
(*   CtlStep        the controller reads the next message: BarrierIn counts down, ErrorIn clears    *)
(*                  the table and fails the request, FlowStatsReceived -> flow_stats_to_list        *)
(*   Respond        the HTTP thread wakes up with the answer: the JSON-RPC response                 *)
(*   Timeout        ... or 5 s pass without one: "Operation timed out"                              *)
(*   Packet         a frame arrives at a switch port (counters of the matching entry)               *)
(*   Tick           time passes (entry age)                                                         *)
(*                                                                                              *)
(* Properties: a set_table answered with success has installed exactly the flows it was given     *)
(* (TableIsWhatWasSet); a statistics answer carries every entry of the table that the request       *)
(* selects, with all counters (StatsComplete); answers go to the request that asked (by xid).       *)
EXTENDS OFJsonCodec

CONSTANTS Strict,       \* TRUE: intended design; FALSE: as built
          FlowPool,     \* [name -> flow document]
          FlowLists,    \* sequences of names a set_table may carry
          StatDocs,     \* [name -> [has |-> BOOLEAN, doc |-> match document]]: "match" parameter of get_flow_stats
          Slots,        \* concurrent HTTP requests
          Ports,        \* switch ports frames arrive at
          MaxEntries,   \* capacity of the switch's table
          MaxCalls, MaxPkts, MaxNow,
          D

VARIABLES table,   \* set of entries
          now,
          c2s,     \* controller -> switch, in flight
          s2c,     \* switch -> controller, in flight
          req,     \* [Slots -> request]
          calls, pkts,
          last, hist
vars == <<table, now, c2s, s2c, req, calls, pkts, last, hist>>
view == <<table, now, c2s, s2c, req, calls, pkts>>

FrameLen == 60
Timeout5 == 5

\* ------------------------------------------------------------------ the switch's table
\* what the switch keeps of a flow_mod's match: fields without their prerequisite are wildcards again
\* (ofp_match.unpack(flow_mod = True) -> _unwire_wildcards)
Unwire(m) ==
  LET clr(S) == [k \in MatchKeySet |-> IF k \in S THEN Unset ELSE m[k]] IN
  CASE DlType(m) = 2048 -> IF NwProto(m) \in {1, 6, 17} THEN m ELSE clr({"tp_src", "tp_dst"})
    [] DlType(m) = 2054 -> clr({"tp_src", "tp_dst", "nw_tos"})
    [] OTHER -> clr({"tp_src", "tp_dst", "nw_tos", "nw_proto", "nw_src", "nw_dst"})
Entry(f, t) == [m |-> Unwire(f.match), prio |-> f.prio, acts |-> [i \in DOMAIN f.actions |-> PackCanonAct(f.actions[i])],
                cookie |-> f.cookie, idle |-> f.idle, hard |-> f.hard, pkts |-> 0, bytes |-> 0, born |-> t]
Same(e, f) == e.m = Unwire(f.match) /\ e.prio = f.prio
\* ofp_match.pack() as a statistics reply carries it: the object's own wildcard word
EncMatchStats(m) ==
  BE4(WildWord(m)) \o BE2(Num(m["in_port"])) \o Mac6(m["dl_src"]) \o Mac6(m["dl_dst"])
  \o BE2(Num(m["dl_vlan"])) \o <<Num(m["dl_vlan_pcp"]), 0>> \o BE2(Num(m["dl_type"]))
  \o <<EffTos(m), EffProto(m), 0, 0>>
  \o (IF IsIpOrArp(m) THEN Ip4(m["nw_src"]) ELSE Zeros(4)) \o (IF IsIpOrArp(m) THEN Ip4(m["nw_dst"]) ELSE Zeros(4))
  \o BE2(EffTp(m, "tp_src")) \o BE2(EffTp(m, "tp_dst"))
\* the table as a management station sees it (OFPST_FLOW at the switch, decoded independently)
View(e) == [match |-> EncMatchStats(e.m), prio |-> e.prio, cookie |-> e.cookie, idle |-> e.idle, hard |-> e.hard,
            pkts |-> e.pkts, bytes |-> e.bytes, dur |-> now - e.born, acts |-> EncActs(e.acts)]
TableView == {View(e) : e \in table}
ViewAt(e, t) == [View(e) EXCEPT !.dur = t - e.born]

\* the test frame: ethertype 0x88b5 from MacA to MacB, untagged, arriving at port p
FrameVal(k, p) ==
  CASE k = "in_port" -> N(p) [] k = "dl_src" -> Val(0, <<0, 0, 0, 0, 10, 1>>, 0) [] k = "dl_dst" -> Val(0, <<0, 0, 0, 0, 11, 2>>, 0)
    [] k = "dl_type" -> N(34997) [] k = "dl_vlan" -> N(65535) [] k = "dl_vlan_pcp" -> N(0) [] OTHER -> Unset
Covers(e, p) == \A k \in MatchKeySet : e.m[k].set => (FrameVal(k, p).set /\ FrameVal(k, p) = e.m[k])
\* what flow_stats_to_list writes for an entry (+ the JSON encoder)
StatJ(e, t) ==
  JD(<<KV("actions", JL([i \in DOMAIN e.acts |-> RenderAct(ActOutDoc(e.acts[i]))])),
       KV("byte_count", JI(e.bytes)), KV("cookie", JI(e.cookie)), KV("duration_nsec", JI(0)),
       KV("duration_sec", JI(t - e.born)), KV("hard_timeout", JI(e.hard)), KV("idle_timeout", JI(e.idle)),
       KV("match", JD(RenderKV(MatchOutDoc(e.m)))), KV("packet_count", JI(e.pkts)), KV("priority", JI(e.prio)),
       KV("table_id", JI(0))>>)
\* entries an OFPST_FLOW request with match q selects (the requests used here name at most in_port)
Selected(e, q) == \A k \in MatchKeySet : q[k].set => (e.m[k].set /\ e.m[k] = q[k])

\* ------------------------------------------------------------------ messages and requests
Msg(t, x, f, q, ents) == [t |-> t, x |-> x, f |-> f, q |-> q, ents |-> ents]
MDel(x)  == Msg("del", x, NoFlow, EmptyMatch, {})
MBar(x)  == Msg("bar", x, NoFlow, EmptyMatch, {})
MAdd(x, f) == Msg("add", x, f, EmptyMatch, {})
MStatReq(x, q) == Msg("sreq", x, NoFlow, q, {})
MStatRep(x, ents) == Msg("srep", x, NoFlow, EmptyMatch, ents)
MErr(x)  == Msg("err", x, NoFlow, EmptyMatch, {})
MPin     == Msg("pin", 0, NoFlow, EmptyMatch, {})
\* x = the serial number of the request that chose the transaction id (the code draws a fresh id per request; the
\* replay adapter binds the concrete ids to serial numbers as they appear); 0 = an id nobody waits for
\* (clear_table() after an error draws new ones)

Free == [st |-> "free", id |-> 0, kind |-> "", fl |-> <<>>, sd |-> "", count |-> 0, resp |-> "", list |-> {}]
\* st: free | called (queued) | waiting (init done, listening) | dead (init failed: nobody listens, nothing will come)
\*     | answered (response ready, HTTP thread not yet awake)

FlowR(n) == DenoteFlow(FlowPool[n], Strict)
FlowSendable(n) == FlowR(n).ok /\ FlowPackOK(FlowR(n).o)
FirstBad(fl) == IF \E i \in DOMAIN fl : ~FlowSendable(fl[i])
                THEN CHOOSE i \in DOMAIN fl : ~FlowSendable(fl[i]) /\ \A j \in 1..(i - 1) : FlowSendable(fl[j])
                ELSE Len(fl) + 1
RECURSIVE AddMsgs(_, _, _)
AddMsgs(x, fl, n) == IF n = 0 THEN <<>> ELSE AddMsgs(x, fl, n - 1) \o <<MAdd(x, FlowR(fl[n]).o), MBar(x)>>
\* what an observer on the channel sees of a message: kind, whose xid, and the bytes after the xid
DelFlow == FlowObj(EmptyMatch, <<>>, 0, 0, 0, 32768)
WireOf(m) ==
  [t |-> m.t, x |-> m.x,
   body |-> CASE m.t = "add" -> SubSeq(EncFlowMod(m.f, 0, 0), 9, Len(EncFlowMod(m.f, 0, 0)))
              [] m.t = "del" -> SubSeq(EncFlowMod(DelFlow, 3, 0), 9, 72)
              [] m.t = "sreq" -> EncMatchStats(m.q)
              [] OTHER -> <<>>]
Wires(ms) == [i \in DOMAIN ms |-> WireOf(ms[i])]

Init == /\ table = {} /\ now = 0 /\ c2s = <<>> /\ s2c = <<>> /\ req = [r \in Slots |-> Free]
        /\ calls = 0 /\ pkts = 0
        /\ last = [a |-> "Init", args |-> [x |-> 0], exp |-> [x |-> 0]] /\ hist = <<>>

\* every step is observed with the table as the switch reports it
Log(a, args, out) ==
  /\ last' = [a |-> a, args |-> args, exp |-> [out |-> out, table |-> {ViewAt(e, now') : e \in table'}]]
  /\ hist' = Append(hist, [a |-> a, args |-> args, exp |-> [out |-> out, table |-> {ViewAt(e, now') : e \in table'}]])

RenderFlows(fl) == JL([i \in DOMAIN fl |-> RenderFlow(FlowPool[fl[i]])])

\* (bound of the model: the scheduler runs a queued _do_init before the next HTTP request arrives, and within the
\* five seconds the HTTP thread waits)
NoneQueued == \A q \in Slots : req[q].st # "called"
CallSetTable(r, fl) ==
  /\ req[r].st = "free" /\ calls < MaxCalls /\ NoneQueued
  /\ req' = [req EXCEPT ![r] = [Free EXCEPT !.st = "called", !.id = calls + 1, !.kind = "set", !.fl = fl]]
  /\ calls' = calls + 1
  /\ UNCHANGED <<table, now, c2s, s2c, pkts>>
  /\ Log("CallSetTable", [r |-> r, flows |-> RenderFlows(fl), names |-> fl], [x |-> 0])

CallGetStats(r, sd) ==
  /\ req[r].st = "free" /\ calls < MaxCalls /\ NoneQueued
  /\ req' = [req EXCEPT ![r] = [Free EXCEPT !.st = "called", !.id = calls + 1, !.kind = "stats", !.sd = sd]]
  /\ calls' = calls + 1
  /\ UNCHANGED <<table, now, c2s, s2c, pkts>>
  /\ Log("CallGetStats", [r |-> r, has |-> StatDocs[sd].has, match |-> JD(RenderKV(StatDocs[sd].doc)), name |-> sd], [x |-> 0])

\* a dpid that is not connected / a method that does not exist: answered by the handler itself
CallNoSwitch(kind) ==
  /\ calls < MaxCalls /\ calls' = calls + 1
  /\ UNCHANGED <<table, now, c2s, s2c, req, pkts>>
  /\ Log("CallNoSwitch", [kind |-> kind], [resp |-> IF kind = "nomethod" THEN "error:Method not found" ELSE "error:No such switch"])

\* the scheduler runs the request's _do_init
InitSetTable(r) ==
  /\ req[r].st = "called" /\ req[r].kind = "set"
  /\ FirstBad(req[r].fl) = Len(req[r].fl) + 1
  /\ LET ms == <<MDel(req[r].id), MBar(req[r].id)>> \o AddMsgs(req[r].id, req[r].fl, Len(req[r].fl)) IN
     /\ c2s' = c2s \o ms
     /\ req' = [req EXCEPT ![r].st = "waiting", ![r].count = 1 + Len(req[r].fl)]
     /\ UNCHANGED <<table, now, s2c, calls, pkts>>
     /\ Log("InitReq", [r |-> r], [sent |-> Wires(ms)])
\* As built, a flow that dict_to_flow_mod rejects (or that cannot be packed) raises inside the scheduler task:
\* the table has been cleared and the flows before it are on their way, nothing after it is sent, nobody answers
\* the request (deviation InitAbortsMidway).  Intended: the request is refused as a whole, nothing is sent.
InitAbortsMidway(r) ==
  /\ ~Strict
  /\ req[r].st = "called" /\ req[r].kind = "set"
  /\ FirstBad(req[r].fl) <= Len(req[r].fl)
  /\ LET ms == <<MDel(req[r].id), MBar(req[r].id)>> \o AddMsgs(req[r].id, req[r].fl, FirstBad(req[r].fl) - 1) IN
     /\ c2s' = c2s \o ms
     /\ req' = [req EXCEPT ![r].st = "dead", ![r].count = 1 + Len(req[r].fl)]
     /\ UNCHANGED <<table, now, s2c, calls, pkts>>
     /\ Log("InitReq", [r |-> r], [sent |-> Wires(ms)])
InitRefusesBadFlows(r) ==
  /\ Strict
  /\ req[r].st = "called" /\ req[r].kind = "set"
  /\ FirstBad(req[r].fl) <= Len(req[r].fl)
  /\ req' = [req EXCEPT ![r].st = "answered", ![r].resp = "error:bad flow"]
  /\ UNCHANGED <<table, now, c2s, s2c, calls, pkts>>
  /\ Log("InitReq", [r |-> r], [sent |-> <<>>])
StatQ(sd) == IF StatDocs[sd].has THEN DenoteMatch(StatDocs[sd].doc, Strict) ELSE [ok |-> TRUE, why |-> "", o |-> EmptyMatch]
InitGetStats(r) ==
  /\ req[r].st = "called" /\ req[r].kind = "stats"
  /\ StatQ(req[r].sd).ok
  /\ c2s' = Append(c2s, MStatReq(req[r].id, StatQ(req[r].sd).o))
  /\ req' = [req EXCEPT ![r].st = "waiting"]
  /\ UNCHANGED <<table, now, s2c, calls, pkts>>
  /\ Log("InitReq", [r |-> r], [sent |-> Wires(<<MStatReq(req[r].id, StatQ(req[r].sd).o)>>)])
\* a match parameter that dict_to_match rejects: the same (nothing is sent, as built nobody answers)
InitStatsAborts(r) ==
  /\ req[r].st = "called" /\ req[r].kind = "stats"
  /\ ~StatQ(req[r].sd).ok
  /\ req' = [req EXCEPT ![r].st = IF Strict THEN "answered" ELSE "dead", ![r].resp = IF Strict THEN "error:bad match" ELSE ""]
  /\ UNCHANGED <<table, now, c2s, s2c, calls, pkts>>
  /\ Log("InitReq", [r |-> r], [sent |-> <<>>])

\* the switch takes the next message
SwitchStep ==
  /\ c2s # <<>>
  /\ LET m == Head(c2s) IN
     /\ c2s' = Tail(c2s)
     /\ CASE m.t = "del" -> table' = {} /\ UNCHANGED s2c
          [] m.t = "add" ->
               LET kept == {e \in table : ~Same(e, m.f)} IN
               IF Cardinality(kept) >= MaxEntries
               THEN table' = kept /\ s2c' = Append(s2c, MErr(m.x))
               ELSE table' = kept \cup {Entry(m.f, now)} /\ UNCHANGED s2c
          [] m.t = "bar" -> UNCHANGED table /\ s2c' = Append(s2c, MBar(m.x))
          [] m.t = "sreq" -> UNCHANGED table /\ s2c' = Append(s2c, MStatRep(m.x, {e \in table : Selected(e, m.q)}))
     /\ UNCHANGED <<now, req, calls, pkts>>
     /\ Log("SwitchStep", [t |-> m.t], [x |-> 0])

\* the controller reads the next message; the handlers of the requests that are listening look at its xid
Owner(x) == {r \in Slots : req[r].st = "waiting" /\ req[r].id = x}
CtlStep ==
  /\ s2c # <<>>
  /\ LET m == Head(s2c)
         own == Owner(m.x) IN
     /\ s2c' = Tail(s2c)
     /\ IF own = {} \/ m.t = "pin" THEN UNCHANGED <<req, c2s>>
        ELSE LET r == CHOOSE r \in own : TRUE IN
          CASE m.t = "bar" /\ req[r].kind = "set" ->
                 /\ UNCHANGED c2s
                 /\ IF req[r].count - 1 <= 0
                    THEN req' = [req EXCEPT ![r].st = "answered", ![r].count = 0, ![r].resp = "flowmod"]
                    ELSE req' = [req EXCEPT ![r].count = req[r].count - 1]
            \* ErrorIn: clear the table (new transaction ids nobody waits for) and fail the request
            [] m.t = "err" /\ req[r].kind = "set" ->
                 /\ req' = [req EXCEPT ![r].st = "answered", ![r].resp = "error:OpenFlow Error"]
                 /\ c2s' = c2s \o <<MDel(0), MBar(0)>>
            [] m.t = "err" /\ req[r].kind = "stats" ->
                 /\ req' = [req EXCEPT ![r].st = "answered", ![r].resp = "error:OpenFlow Error"] /\ UNCHANGED c2s
            [] m.t = "srep" /\ req[r].kind = "stats" ->
                 /\ req' = [req EXCEPT ![r].st = "answered", ![r].resp = "flowstats", ![r].list = {StatJ(e, now) : e \in m.ents}]
                 /\ UNCHANGED c2s
            [] OTHER -> UNCHANGED <<req, c2s>>
     /\ UNCHANGED <<table, now, calls, pkts>>
     /\ Log("CtlStep", [t |-> m.t], [x |-> 0])

\* the HTTP thread wakes up with the answer
Respond(r) ==
  /\ req[r].st = "answered"
  /\ req' = [req EXCEPT ![r] = Free]
  /\ UNCHANGED <<table, now, c2s, s2c, calls, pkts>>
  /\ Log("Respond", [r |-> r], [resp |-> req[r].resp, list |-> req[r].list])
\* ... or after five seconds without one
Timeout(r) ==
  /\ req[r].st \in {"waiting", "dead"}
  /\ now + Timeout5 <= MaxNow
  /\ now' = now + Timeout5
  /\ req' = [req EXCEPT ![r] = Free]
  /\ UNCHANGED <<table, c2s, s2c, calls, pkts>>
  /\ Log("Timeout", [r |-> r], [resp |-> "error:Operation timed out", list |-> {}])

\* a frame arrives at port p: the counters of (one of) the highest-priority entries covering it; none: table miss,
\* the frame goes to the controller
Packet(p) ==
  /\ pkts < MaxPkts /\ pkts' = pkts + 1
  /\ LET cov == {e \in table : Covers(e, p)} IN
     IF cov = {}
     THEN /\ UNCHANGED table /\ s2c' = Append(s2c, MPin)
     ELSE \E e \in cov :
            /\ \A e2 \in cov : e2.prio <= e.prio
            /\ table' = (table \ {e}) \cup {[e EXCEPT !.pkts = e.pkts + 1, !.bytes = e.bytes + FrameLen]}
            /\ s2c' = s2c \o [i \in 1..Cardinality({j \in DOMAIN e.acts : e.acts[j].cls = "output" /\ e.acts[j].n1 = PortController}) |-> MPin]
  /\ UNCHANGED <<now, c2s, req, calls>>
  /\ Log("Packet", [p |-> p], [x |-> 0])

\* (bound of the model: the clock is advanced only while the channel is quiet; Timeout advances it at any point)
Tick(d) ==
  /\ c2s = <<>> /\ s2c = <<>>
  /\ now + d <= MaxNow /\ now' = now + d
  /\ UNCHANGED <<table, c2s, s2c, req, calls, pkts>>
  /\ Log("Tick", [d |-> d], [x |-> 0])

CallSetTableAny == \E r \in Slots, fl \in FlowLists : CallSetTable(r, fl)
CallGetStatsAny == \E r \in Slots, sd \in DOMAIN StatDocs : CallGetStats(r, sd)
CallNoSwitchAny == \E k \in {"set_table", "get_flow_stats", "nomethod"} : CallNoSwitch(k)
InitSetTableAny == \E r \in Slots : InitSetTable(r)
InitAbortsMidwayAny == \E r \in Slots : InitAbortsMidway(r)
InitRefusesBadFlowsAny == \E r \in Slots : InitRefusesBadFlows(r)
InitGetStatsAny == \E r \in Slots : InitGetStats(r)
InitStatsAbortsAny == \E r \in Slots : InitStatsAborts(r)
RespondAny == \E r \in Slots : Respond(r)
TimeoutAny == \E r \in Slots : Timeout(r)
PacketAny == \E p \in Ports : Packet(p)
TickAny == \E d \in {1, 3} : Tick(d)
Next == \/ CallSetTableAny \/ CallGetStatsAny \/ CallNoSwitchAny \/ InitSetTableAny \/ InitAbortsMidwayAny
        \/ InitRefusesBadFlowsAny \/ InitGetStatsAny \/ InitStatsAbortsAny \/ SwitchStep \/ CtlStep
        \/ RespondAny \/ TimeoutAny \/ PacketAny \/ TickAny
Spec == Init /\ [][Next]_vars

\* ------------------------------------------------------------------ properties
TypeOK == /\ now \in 0..MaxNow /\ calls \in 0..MaxCalls /\ pkts \in 0..MaxPkts
          /\ Cardinality(table) <= MaxEntries
          /\ \A r \in Slots : req[r].st \in {"free", "called", "waiting", "dead", "answered"}
\* no two entries of the table have the same match and priority
TableFunctional == \A e1, e2 \in table : (e1.m = e2.m /\ e1.prio = e2.prio) => e1 = e2
\* the moment set_table is answered with success, the table holds exactly the flows of the request (one entry per
\* distinct match + priority, the last one given winning).  Stated for one HTTP request at a time (Slots = {1}):
\* two concurrent set_table requests overwrite each other, and nothing in the service says they should not
Promised(fl) == {[m |-> Unwire(FlowR(fl[i]).o.match), prio |-> FlowR(fl[i]).o.prio] : i \in DOMAIN fl}
Keys(t) == {[m |-> e.m, prio |-> e.prio] : e \in t}
TableIsWhatWasSet ==
  [][\A r \in Slots : (req[r].st = "waiting" /\ req'[r].st = "answered" /\ req'[r].resp = "flowmod")
        => Keys(table') = Promised(req[r].fl)]_vars
\* a statistics answer lists exactly the selected entries of the table the switch had when it answered - every
\* entry once, with its counters; here: whatever is listed is a rendering of an entry with that match and priority
\* whose counters are not ahead of the table's
StatsComplete ==
  [][\A r \in Slots : (req'[r].st = "answered" /\ req[r].st = "waiting" /\ req'[r].resp = "flowstats")
        => \E m \in {Head(s2c)} : /\ m.t = "srep" /\ m.x = req[r].id
                                  /\ req'[r].list = {StatJ(e, now) : e \in m.ents}
                                  /\ Cardinality(req'[r].list) = Cardinality(m.ents)]_vars
\* an answer is given only to the request whose transaction id it carries
NoCrossTalk ==
  [][\A r \in Slots : (req[r].st = "waiting" /\ req'[r].st = "answered") => (s2c # <<>> /\ Head(s2c).x = req[r].id)]_vars
\* a request that was refused or never initialised has sent nothing after the refusal
DeadSendsNothing == [][\A r \in Slots : req[r].st = "dead" => (\A i \in DOMAIN c2s' : i > Len(c2s) => c2s'[i].x # req[r].id)]_vars

ExportT == PrintT(<<"T", ToJson(hist')>>)
Export == Len(hist) = D => PrintT(<<"H", ToJson(hist)>>)
=============================================================================
