CONSTANTS Strict = FALSE
  FlowPool <- MCFlowPool
  FlowLists <- ListsC
  StatDocs <- StatDocsS
  Slots <- S2
  Ports <- P1
  MaxEntries = 8
  MaxCalls = 2
  MaxPkts = 0
  MaxNow = 5
  D = 0
INIT Init
NEXT Next
VIEW view
INVARIANT TypeOK
INVARIANT TableFunctional
PROPERTY StatsComplete
PROPERTY NoCrossTalk
PROPERTY DeadSendsNothing
CHECK_DEADLOCK FALSE
