CONSTANTS Strict = FALSE
  FlowPool <- MCFlowPool
  FlowLists <- ListsFull
  StatDocs <- StatDocsS
  Slots <- S1
  Ports <- P1
  MaxEntries = 3
  MaxCalls = 1
  MaxPkts = 1
  MaxNow = 5
  D = 0
INIT Init
NEXT Next
VIEW view
INVARIANT TypeOK
INVARIANT TableFunctional
PROPERTY TableIsWhatWasSet
PROPERTY StatsComplete
PROPERTY NoCrossTalk
PROPERTY DeadSendsNothing
CHECK_DEADLOCK FALSE
