--------------------------- MODULE OFJsonTables ---------------------------
(* X14: the mapping tables of pox/openflow/of_json.py, transcribed as data.          *)
(*                                                                                    *)
(* Nothing in this module is state: it is the vocabulary the conversion functions of  *)
(* of_json.py translate between - OpenFlow port names (libopenflow_01.ofp_port_rev_map*)
(* ), ethertype names in BOTH directions (pox.lib.packet.ethernet.*_TYPE is what      *)
(* dict_to_match reads, packet_utils._ethtype_to_str is what match_to_dict writes),   *)
(* IP protocol names (pox.lib.packet.ipv4.*_PROTOCOL), action type names and the      *)
(* constructor fields of every action class, the service names the sandbox resolves,  *)
(* the twelve ofp_match fields with their wildcard bits - plus the text renderings    *)
(* (hex, dotted quad, MAC) and the big-endian byte helpers.                           *)
EXTENDS Naturals, Sequences, FiniteSets, TLC

\* ------------------------------------------------------------------ rendering helpers
HexDigits   == <<"0","1","2","3","4","5","6","7","8","9","a","b","c","d","e","f">>
UpHexDigits == <<"0","1","2","3","4","5","6","7","8","9","A","B","C","D","E","F">>
Hex2(n)   == HexDigits[(n \div 16) + 1] \o HexDigits[(n % 16) + 1]
UpHex2(n) == UpHexDigits[(n \div 16) + 1] \o UpHexDigits[(n % 16) + 1]
Hex4(n)   == Hex2(n \div 256) \o Hex2(n % 256)
\* "%x": no leading zeros
HexMin(n) == IF n < 16 THEN HexDigits[n + 1]
             ELSE IF n < 256 THEN Hex2(n)
             ELSE IF n < 4096 THEN HexDigits[(n \div 256) + 1] \o Hex2(n % 256)
             ELSE Hex4(n)
Dotted(b) == ToString(b[1]) \o "." \o ToString(b[2]) \o "." \o ToString(b[3]) \o "." \o ToString(b[4])
MacLower(b) == Hex2(b[1]) \o ":" \o Hex2(b[2]) \o ":" \o Hex2(b[3]) \o ":" \o Hex2(b[4]) \o ":" \o Hex2(b[5]) \o ":" \o Hex2(b[6])
MacUpper(b) == UpHex2(b[1]) \o ":" \o UpHex2(b[2]) \o ":" \o UpHex2(b[3]) \o ":" \o UpHex2(b[4]) \o ":" \o UpHex2(b[5]) \o ":" \o UpHex2(b[6])
MacDash(b)  == Hex2(b[1]) \o "-" \o Hex2(b[2]) \o "-" \o Hex2(b[3]) \o "-" \o Hex2(b[4]) \o "-" \o Hex2(b[5]) \o "-" \o Hex2(b[6])
MacPlain(b) == Hex2(b[1]) \o Hex2(b[2]) \o Hex2(b[3]) \o Hex2(b[4]) \o Hex2(b[5]) \o Hex2(b[6])
\* "x:x:x:xx:x:x" - digits not in two-digit groups (EthAddr: "This actually comes up")
MacLoose(b) == HexMin(b[1]) \o ":" \o HexMin(b[2]) \o ":" \o HexMin(b[3]) \o ":" \o HexMin(b[4]) \o ":" \o HexMin(b[5]) \o ":" \o HexMin(b[6])

Pow2(k) == CASE k = 0 -> 1 [] k = 1 -> 2 [] k = 2 -> 4 [] k = 3 -> 8 [] k = 4 -> 16
             [] k = 5 -> 32 [] k = 6 -> 64 [] k = 7 -> 128 [] k = 8 -> 256
Clamp8(x) == IF x < 0 THEN 0 ELSE IF x > 8 THEN 8 ELSE x
\* the netmask of a prefix length, as four bytes (for the "address/netmask" spelling)
MaskByte(bits, i) == 256 - Pow2(8 - Clamp8(IF bits > 8 * (i - 1) THEN bits - 8 * (i - 1) ELSE 0))
MaskOf(bits) == <<MaskByte(bits, 1), MaskByte(bits, 2), MaskByte(bits, 3), MaskByte(bits, 4)>>
\* no bit of the host part is set (parse_cidr's check; byte-wise: 32-bit values never reach TLC)
HostZero(b, bits) ==
  \A i \in 1..4 : b[i] % Pow2(8 - Clamp8(IF bits > 8 * (i - 1) THEN bits - 8 * (i - 1) ELSE 0)) = 0

\* ------------------------------------------------------------------ bytes
BE2(n) == <<n \div 256, n % 256>>
BE4(n) == <<n \div 16777216, (n \div 65536) % 256, (n \div 256) % 256, n % 256>>     \* n < 2^31
BE8(n) == <<0, 0, 0, 0>> \o BE4(n)                                                   \* n < 2^31
Zeros(k) == [i \in 1..k |-> 0]
FF(k) == [i \in 1..k |-> 255]
RECURSIVE Flat(_)
Flat(ss) == IF ss = <<>> THEN <<>> ELSE Head(ss) \o Flat(Tail(ss))

\* ------------------------------------------------------------------ libopenflow_01.ofp_port_rev_map
PortByName == [OFPP_MAX |-> 65280, OFPP_IN_PORT |-> 65528, OFPP_TABLE |-> 65529, OFPP_NORMAL |-> 65530,
               OFPP_FLOOD |-> 65531, OFPP_ALL |-> 65532, OFPP_CONTROLLER |-> 65533, OFPP_LOCAL |-> 65534,
               OFPP_NONE |-> 65535]
PortNames == DOMAIN PortByName
HasPortName(n) == \E k \in PortNames : PortByName[k] = n
PortNameOf(n) == CHOOSE k \in PortNames : PortByName[k] = n
PortController == 65533
PortNone == 65535

\* ------------------------------------------------------------------ ethertypes
\* what dict_to_match reads: getattr(ethernet, NAME + "_TYPE")
EthConst == [IP |-> 2048, ARP |-> 2054, RARP |-> 32821, VLAN |-> 33024, LLDP |-> 35020, PAE |-> 34958,
             MPLS |-> 34887, MPLS_MC |-> 34888, IPV6 |-> 34525, PPP |-> 34827, LWAPP |-> 35003,
             GSMP |-> 34828, IPX |-> 33079, WOL |-> 2114, TRILL |-> 8947, JUMBO |-> 34928, SCSI |-> 34970,
             ATA |-> 34978, QINQ |-> 37120, INVALID |-> 65535]
\* what match_to_dict writes: packet_utils._ethtype_to_str (value -> name), given here as name -> value
EthStr   == [IP |-> 2048, ARP |-> 2054, RARP |-> 32821, VLAN |-> 33024, LLDP |-> 35020, PAE |-> 34958,
             MPLS |-> 34887, MPLS_MC |-> 34888, IPV6 |-> 34525, PPP |-> 34827, LWAPP |-> 35003,
             GSMP |-> 34828, IPX |-> 33079, WOL |-> 2114, TRILL |-> 8947, JUMBO |-> 34928, SCSI |-> 34970,
             ATA |-> 34978, QINQ |-> 37120, BAD |-> 65535]
EthInNames  == DOMAIN EthConst
EthOutNames == DOMAIN EthStr
HasEthStr(v) == \E k \in EthOutNames : EthStr[k] = v
EthStrOf(v) == CHOOSE k \in EthOutNames : EthStr[k] = v
\* _fix_ethertype tries int(text, 16) BEFORE the name lookup: a name made of hex digits only is a number.
\* Strings cannot be taken apart in TLA+, so the hex-like names are listed (props/X14.py re-derives this set
\* from the spelling of every name in the two tables and fails as machinery if it differs).
HexLikeNames == {"BAD"}
HexLikeValue == [BAD |-> 2989]                   \* 0x0bad
EthCutoff == 1500                                \* 0x05dc: at or below, the value is an 802.3 length

\* ------------------------------------------------------------------ pox.lib.packet.ipv4.*_PROTOCOL
ProtoConst == [ICMP |-> 1, TCP |-> 6, UDP |-> 17, IGMP |-> 2, GRE |-> 47]
ProtoNames == DOMAIN ProtoConst

\* ------------------------------------------------------------------ socket.getservbyname (the names used here)
Services == [http |-> 80, domain |-> 53, ssh |-> 22]
ServiceNames == DOMAIN Services

\* ------------------------------------------------------------------ actions
\* libopenflow_01.ofp_action_type_rev_map
ActionCode == [OFPAT_OUTPUT |-> 0, OFPAT_SET_VLAN_VID |-> 1, OFPAT_SET_VLAN_PCP |-> 2, OFPAT_STRIP_VLAN |-> 3,
               OFPAT_SET_DL_SRC |-> 4, OFPAT_SET_DL_DST |-> 5, OFPAT_SET_NW_SRC |-> 6, OFPAT_SET_NW_DST |-> 7,
               OFPAT_SET_NW_TOS |-> 8, OFPAT_SET_TP_SRC |-> 9, OFPAT_SET_TP_DST |-> 10, OFPAT_ENQUEUE |-> 11,
               OFPAT_VENDOR |-> 65535]
ActionNames == DOMAIN ActionCode
ActionNameOf(c) == CHOOSE k \in ActionNames : ActionCode[k] = c
\* the spelling dict_to_action also accepts: any case, prefix optional
ShortName == [OFPAT_OUTPUT |-> "output", OFPAT_SET_VLAN_VID |-> "set_vlan_vid", OFPAT_SET_VLAN_PCP |-> "Set_Vlan_Pcp",
              OFPAT_STRIP_VLAN |-> "strip_vlan", OFPAT_SET_DL_SRC |-> "set_dl_src", OFPAT_SET_DL_DST |-> "SET_DL_DST",
              OFPAT_SET_NW_SRC |-> "set_nw_src", OFPAT_SET_NW_DST |-> "ofpat_set_nw_dst", OFPAT_SET_NW_TOS |-> "set_nw_tos",
              OFPAT_SET_TP_SRC |-> "set_tp_src", OFPAT_SET_TP_DST |-> "set_tp_dst", OFPAT_ENQUEUE |-> "enqueue",
              OFPAT_VENDOR |-> "vendor"]
\* constructor keywords of the class behind each code (alphabetical = the order action_to_dict's output is
\* compared in), and the codes whose class serves TWO types and therefore takes `type` as a constructor
\* argument (ofp_action_dl_addr, ofp_action_nw_addr, ofp_action_tp_port)
ActionFields(c) ==
  CASE c = 0 -> <<"max_len", "port">>
    [] c = 1 -> <<"vlan_vid">>
    [] c = 2 -> <<"vlan_pcp">>
    [] c = 3 -> <<>>
    [] c \in {4, 5} -> <<"dl_addr">>
    [] c \in {6, 7} -> <<"nw_addr">>
    [] c = 8 -> <<"nw_tos">>
    [] c \in {9, 10} -> <<"tp_port">>
    [] c = 11 -> <<"port", "queue_id">>
    [] c = 65535 -> <<"body", "vendor">>
TwoTypeCodes == {4, 5, 6, 7, 9, 10}
NoneN == 100000                                  \* stands for Python's None in a numeric attribute

\* ------------------------------------------------------------------ ofp_match
\* alphabetical (the order dictionaries are compared in)
MatchKeys == <<"dl_dst", "dl_src", "dl_type", "dl_vlan", "dl_vlan_pcp", "in_port", "nw_dst", "nw_proto",
               "nw_src", "nw_tos", "tp_dst", "tp_src">>
MatchKeySet == {MatchKeys[i] : i \in DOMAIN MatchKeys}
\* OFPFW_* bit of each field (nw_src / nw_dst are 6-bit counters at shifts 8 and 14)
WildBit == [in_port |-> 1, dl_vlan |-> 2, dl_src |-> 4, dl_dst |-> 8, dl_type |-> 16, nw_proto |-> 32,
            tp_src |-> 64, tp_dst |-> 128, dl_vlan_pcp |-> 1048576, nw_tos |-> 2097152]
NwSrcShift == 256
NwDstShift == 16384
=============================================================================
