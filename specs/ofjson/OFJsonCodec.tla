---------------------------- MODULE OFJsonCodec ----------------------------
(* X14: what pox/openflow/of_json.py is written / documented to do, as functions (no state):              *)
(* JSON values, the FORMS a caller can write, their rendering and meaning, the objects of libopenflow_01    *)
(* they denote (ofp_match, actions, ofp_flow_mod, ofp_packet_out), the dictionaries written back, and the   *)
(* OpenFlow 1.0 bytes of those objects.  Used by OFJson.tla (one conversion job) and WebTable.tla (the web   *)
(* service).  Every function that reads a document takes `strict`: FALSE = as built (deviations of the code  *)
(* from its intent included, each with a name), TRUE = the intended design.                                  *)
EXTENDS OFJsonTables, Json, SequencesExt

\* ------------------------------------------------------------------ JSON values
JI(n)  == [t |-> "i", i |-> n, s |-> "", kv |-> <<>>]
JS(x)  == [t |-> "s", i |-> 0, s |-> x, kv |-> <<>>]
JNull  == [t |-> "n", i |-> 0, s |-> "", kv |-> <<>>]
JD(kv) == [t |-> "d", i |-> 0, s |-> "", kv |-> kv]            \* kv: sequence of [k, v]
KV(k, v) == [k |-> k, v |-> v]
JL(items) == [t |-> "l", i |-> 0, s |-> "", kv |-> [j \in DOMAIN items |-> KV("", items[j])]]
JBool(b) == [t |-> "b", i |-> (IF b THEN 1 ELSE 0), s |-> "", kv |-> <<>>]

\* ------------------------------------------------------------------ forms (what the caller wrote)
Fm(f, n, s, b) == [f |-> f, n |-> n, s |-> s, b |-> b]
FInt(n)      == Fm("int", n, "", <<>>)
FNull        == Fm("null", 0, "", <<>>)
FText(s)     == Fm("text", 0, s, <<>>)          \* a symbolic name / any literal text
FLong(s)     == Fm("long", 0, s, <<>>)          \* the name with its suffix: IP_TYPE, TCP_PROTOCOL
FHex(n, st)  == Fm("hex", n, st, <<>>)          \* st: "0x" | "" | "802.3/" | "min"
FMac(b, st)  == Fm("mac", 0, st, b)             \* st: lower | upper | dash | plain | loose
FIp(b, n, st) == Fm("ip", n, st, b)             \* st: plain | cidr | mask
FAName(s, k) == Fm("aname", k, s, <<>>)         \* action type: k = 0 canonical spelling, 1 = ShortName
FBytes(b)    == Fm("bytes", 0, "", b)           \* a list of byte values

Render(key, fm) ==
  CASE fm.f = "int"  -> JI(fm.n)
    [] fm.f = "null" -> JNull
    [] fm.f = "text" -> JS(fm.s)
    [] fm.f = "long" -> JS(fm.s \o (IF key = "nw_proto" THEN "_PROTOCOL" ELSE "_TYPE"))
    [] fm.f = "hex"  -> JS(CASE fm.s = "0x" -> "0x" \o HexMin(fm.n)
                             [] fm.s = "min" -> HexMin(fm.n)
                             [] fm.s = "802.3/" -> "802.3/" \o Hex4(fm.n)
                             [] OTHER -> Hex4(fm.n))
    [] fm.f = "mac"  -> JS(CASE fm.s = "upper" -> MacUpper(fm.b)
                             [] fm.s = "dash" -> MacDash(fm.b)
                             [] fm.s = "plain" -> MacPlain(fm.b)
                             [] fm.s = "loose" -> MacLoose(fm.b)
                             [] OTHER -> MacLower(fm.b))
    [] fm.f = "ip"   -> JS(CASE fm.s = "plain" -> Dotted(fm.b)
                             [] fm.s = "mask" -> Dotted(fm.b) \o "/" \o Dotted(MaskOf(fm.n))
                             [] OTHER -> Dotted(fm.b) \o "/" \o ToString(fm.n))
    [] fm.f = "aname" -> JS(IF fm.n = 1 THEN ShortName[fm.s] ELSE fm.s)
    [] fm.f = "bytes" -> JL([j \in DOMAIN fm.b |-> JI(fm.b[j])])

\* ------------------------------------------------------------------ meaning of one field
\* an attribute of an object: set to a number / bytes (+ prefix length), or not set (None)
Val(n, b, bits) == [set |-> TRUE, n |-> n, b |-> b, bits |-> bits]
N(n)  == Val(n, <<>>, 0)
Unset == [set |-> FALSE, n |-> 0, b |-> <<>>, bits |-> 0]
\* the result of reading one form: as built (ok, v) and - where the code deviates from its intent (dev names
\* the deviation) - the intended result (sok, sv)
Ok(v)  == [ok |-> TRUE, v |-> v, dev |-> "", sok |-> TRUE, sv |-> v]
Rej    == [ok |-> FALSE, v |-> Unset, dev |-> "", sok |-> FALSE, sv |-> Unset]
DevR(ok, v, d, sok, sv) == [ok |-> ok, v |-> v, dev |-> d, sok |-> sok, sv |-> sv]

\* _fix_of_int: a number is itself, a string is looked up in libopenflow_01.  A name the library does not
\* have comes back as None - silently: an in_port that the caller named is then not matched at all, an
\* output port is None (deviation UnknownPortNameDropped; intended: reject the document).
MeanOfInt(fm) ==
  CASE fm.f = "int"  -> Ok(N(fm.n))
    [] fm.f = "null" -> Ok(Unset)
    [] fm.f = "text" -> IF fm.s \in PortNames THEN Ok(N(PortByName[fm.s]))
                        ELSE DevR(TRUE, Unset, "UnknownPortNameDropped", FALSE, Unset)
    [] OTHER -> Rej

\* _fix_ethertype: numbers as they are; text: an optional "802.3/" prefix, then hexadecimal digits (with or
\* without 0x), else the name of an ethernet.*_TYPE constant (suffix optional).  A NAME consisting of hex
\* digits is read as a number (deviation EthNameReadAsHex: match_to_dict itself writes 0xffff as "BAD").
MeanEth(fm) ==
  CASE fm.f = "int"  -> Ok(N(fm.n))
    [] fm.f = "null" -> Ok(Unset)
    [] fm.f = "hex"  -> Ok(N(fm.n))
    [] fm.f = "text" -> IF fm.s \in HexLikeNames
                        THEN DevR(TRUE, N(HexLikeValue[fm.s]), "EthNameReadAsHex",
                                  fm.s \in EthOutNames, IF fm.s \in EthOutNames THEN N(EthStr[fm.s]) ELSE Unset)
                        ELSE IF fm.s \in EthInNames THEN Ok(N(EthConst[fm.s])) ELSE Rej
    [] fm.f = "long" -> IF fm.s \in EthInNames THEN Ok(N(EthConst[fm.s])) ELSE Rej
    [] OTHER -> Rej

MeanProto(fm) ==
  CASE fm.f = "int"  -> Ok(N(fm.n))
    [] fm.f = "null" -> Ok(Unset)
    [] fm.f \in {"text", "long"} -> IF fm.s \in ProtoNames THEN Ok(N(ProtoConst[fm.s])) ELSE Rej
    [] OTHER -> Rej

MeanMac(fm) ==
  CASE fm.f = "null" -> Ok(Unset)
    [] fm.f = "mac"  -> Ok(Val(0, fm.b, 0))
    [] OTHER -> Rej

\* parse_cidr(text, infer = False): "a.b.c.d" is a host (/32); "a.b.c.d/n" and "a.b.c.d/mask" need n <= 32 and
\* a zero host part; ofp_match then reads /0 as "not set".
MeanIp(fm) ==
  CASE fm.f = "null" -> Ok(Unset)
    [] fm.f = "ip" -> IF fm.s = "plain" THEN Ok(Val(0, fm.b, 32))
                      ELSE IF fm.n > 32 \/ ~HostZero(fm.b, fm.n) THEN Rej
                      ELSE IF fm.n = 0 THEN Ok(Unset)
                      ELSE Ok(Val(0, fm.b, fm.n))
    [] OTHER -> Rej

MeanNum(fm) ==
  CASE fm.f = "int"  -> Ok(N(fm.n))
    [] fm.f = "null" -> Ok(Unset)
    [] OTHER -> Rej

\* _fix_port: socket.getservbyname
MeanTp(fm) ==
  CASE fm.f = "int"  -> Ok(N(fm.n))
    [] fm.f = "null" -> Ok(Unset)
    [] fm.f = "text" -> IF fm.s \in ServiceNames THEN Ok(N(Services[fm.s])) ELSE Rej
    [] OTHER -> Rej

MeanMatchField(key, fm) ==
  CASE key = "in_port" -> MeanOfInt(fm)
    [] key \in {"dl_src", "dl_dst"} -> MeanMac(fm)
    [] key = "dl_type" -> MeanEth(fm)
    [] key = "nw_proto" -> MeanProto(fm)
    [] key \in {"nw_src", "nw_dst"} -> MeanIp(fm)
    [] key \in {"tp_src", "tp_dst"} -> MeanTp(fm)
    [] OTHER -> MeanNum(fm)                       \* dl_vlan, dl_vlan_pcp, nw_tos

\* pick the as-built or the intended reading
Pick(r, strict) == IF strict /\ r.dev # "" THEN [ok |-> r.sok, v |-> r.sv] ELSE [ok |-> r.ok, v |-> r.v]

\* ------------------------------------------------------------------ documents: sequences of [k, fm]
Has(doc, key) == \E i \in DOMAIN doc : doc[i].k = key
Get(doc, key) == doc[CHOOSE i \in DOMAIN doc : doc[i].k = key].fm
RenderKV(doc) == [i \in DOMAIN doc |-> KV(doc[i].k, Render(doc[i].k, doc[i].fm))]

\* ------------------------------------------------------------------ ofp_match
MatchR(doc, key) == IF Has(doc, key) THEN MeanMatchField(key, Get(doc, key)) ELSE Ok(Unset)
MatchDevs(doc) == {MatchR(doc, k).dev : k \in MatchKeySet} \ {""}
\* keys the library does not know are ignored (as built and - nothing says otherwise - as intended)
DenoteMatch(doc, strict) ==
  LET r == [k \in MatchKeySet |-> Pick(MatchR(doc, k), strict)] IN
  [ok |-> \A k \in MatchKeySet : r[k].ok,
   why |-> IF \A k \in MatchKeySet : r[k].ok THEN "" ELSE "reject",
   o |-> IF \A k \in MatchKeySet : r[k].ok THEN [k \in MatchKeySet |-> r[k].v] ELSE [k \in MatchKeySet |-> Unset]]
EmptyMatch == [k \in MatchKeySet |-> Unset]

\* match_to_dict: what is written for a field that is set
MatchOutForm(key, v) ==
  CASE key = "in_port" -> IF HasPortName(v.n) THEN FText(PortNameOf(v.n)) ELSE FInt(v.n)
    [] key \in {"dl_src", "dl_dst"} -> FMac(v.b, "lower")
    [] key = "dl_type" -> IF v.n <= EthCutoff THEN FInt(v.n)
                          ELSE IF HasEthStr(v.n) THEN FText(EthStrOf(v.n)) ELSE FHex(v.n, "")
    [] key \in {"nw_src", "nw_dst"} -> FIp(v.b, v.bits, "cidr")
    [] OTHER -> FInt(v.n)
MatchOutDoc(m) ==
  LET keys == SelectSeq(MatchKeys, LAMBDA k : m[k].set) IN
  [i \in DOMAIN keys |-> [k |-> keys[i], fm |-> MatchOutForm(keys[i], m[keys[i]])]]

\* the wildcard word of the object
WildWord(m) ==
  LET bit(k) == IF m[k].set THEN 0 ELSE WildBit[k] IN
  bit("in_port") + bit("dl_vlan") + bit("dl_src") + bit("dl_dst") + bit("dl_type") + bit("nw_proto")
  + bit("tp_src") + bit("tp_dst") + bit("dl_vlan_pcp") + bit("nw_tos")
  + NwSrcShift * (IF m["nw_src"].set THEN 32 - m["nw_src"].bits ELSE 32)
  + NwDstShift * (IF m["nw_dst"].set THEN 32 - m["nw_dst"].bits ELSE 32)

\* ofp_match.pack(flow_mod = True): fields whose prerequisite protocol is not matched are irrelevant - their
\* wildcard bits are cleared and their values written as zero (ofp_match._wire_wildcards and check_ip /
\* check_ip_or_arp / check_tp, quoted from OpenFlow 1.0.1 section 3.4 in the code)
DlType(m)  == IF m["dl_type"].set THEN m["dl_type"].n ELSE NoneN
NwProto(m) == IF m["nw_proto"].set THEN m["nw_proto"].n ELSE NoneN
IsIp(m)      == DlType(m) = 2048
IsIpOrArp(m) == DlType(m) \in {2048, 2054}
IsTp(m)      == IsIp(m) /\ NwProto(m) \in {1, 6, 17}
WireWild(m) ==
  LET w == WildWord(m)
      bit(k) == IF m[k].set THEN 0 ELSE WildBit[k]
      src == NwSrcShift * (IF m["nw_src"].set THEN 32 - m["nw_src"].bits ELSE 32)
      dst == NwDstShift * (IF m["nw_dst"].set THEN 32 - m["nw_dst"].bits ELSE 32)
      tp == bit("tp_src") + bit("tp_dst") IN
  CASE DlType(m) = 2048 -> IF NwProto(m) \in {1, 6, 17} THEN w ELSE w - tp
    [] DlType(m) = 2054 -> w - tp - bit("nw_tos")
    [] DlType(m) = 34525 -> w - tp - src - dst
    [] OTHER -> w - tp - bit("nw_tos") - bit("nw_proto") - src - dst
Num(v) == IF v.set THEN v.n ELSE 0
Mac6(v) == IF v.set THEN v.b ELSE Zeros(6)
Ip4(v) == IF v.set THEN v.b ELSE Zeros(4)
\* what pack() hands to struct: a field whose prerequisite is missing is written as zero whatever it holds
EffTos(m)   == IF IsIp(m) THEN Num(m["nw_tos"]) ELSE 0
EffProto(m) == IF IsIpOrArp(m) THEN Num(m["nw_proto"]) ELSE 0
EffTp(m, k) == IF IsTp(m) THEN Num(m[k]) ELSE 0
MatchRange(m) ==
  /\ Num(m["in_port"]) <= 65535 /\ Num(m["dl_vlan"]) <= 65535 /\ Num(m["dl_vlan_pcp"]) <= 255
  /\ Num(m["dl_type"]) <= 65535 /\ EffTos(m) <= 255 /\ EffProto(m) <= 255
  /\ EffTp(m, "tp_src") <= 65535 /\ EffTp(m, "tp_dst") <= 65535
EncMatchFM(m) ==
  BE4(WireWild(m)) \o BE2(Num(m["in_port"])) \o Mac6(m["dl_src"]) \o Mac6(m["dl_dst"])
  \o BE2(Num(m["dl_vlan"])) \o <<Num(m["dl_vlan_pcp"]), 0>> \o BE2(Num(m["dl_type"]))
  \o <<EffTos(m), EffProto(m), 0, 0>>
  \o (IF IsIpOrArp(m) THEN Ip4(m["nw_src"]) ELSE Zeros(4))
  \o (IF IsIpOrArp(m) THEN Ip4(m["nw_dst"]) ELSE Zeros(4))
  \o BE2(EffTp(m, "tp_src")) \o BE2(EffTp(m, "tp_dst"))

\* ------------------------------------------------------------------ actions
\* an action document: [ty |-> form of "type", f |-> sequence of [k, fm]]
\* an action object: the class, the type code (NoneN = None), two numeric attributes, one address
Act(cls, ty, n1, n2, b) == [cls |-> cls, type |-> ty, n1 |-> n1, n2 |-> n2, b |-> b]
ClassOf(c) ==
  CASE c = 0 -> "output" [] c = 1 -> "vlan_vid" [] c = 2 -> "vlan_pcp" [] c = 3 -> "strip_vlan"
    [] c \in {4, 5} -> "dl_addr" [] c \in {6, 7} -> "nw_addr" [] c = 8 -> "nw_tos" [] c \in {9, 10} -> "tp_port"
    [] c = 11 -> "enqueue" [] c = 65535 -> "vendor"
FieldsOfClass(cls) ==
  CASE cls = "output" -> <<"max_len", "port">> [] cls = "vlan_vid" -> <<"vlan_vid">>
    [] cls = "vlan_pcp" -> <<"vlan_pcp">> [] cls = "strip_vlan" -> <<>> [] cls = "dl_addr" -> <<"dl_addr">>
    [] cls = "nw_addr" -> <<"nw_addr">> [] cls = "nw_tos" -> <<"nw_tos">> [] cls = "tp_port" -> <<"tp_port">>
    [] cls = "enqueue" -> <<"port", "queue_id">> [] cls = "vendor" -> <<"body", "vendor">>
\* IPAddr(text): a dotted quad only
MeanAddr4(fm) == IF fm.f = "ip" /\ fm.s = "plain" THEN Ok(Val(0, fm.b, 32)) ELSE Rej
MeanActField(key, fm) ==
  CASE key = "port" -> MeanOfInt(fm)
    [] key = "dl_addr" -> IF fm.f = "null" THEN Ok(Val(0, Zeros(6), 0)) ELSE MeanMac(fm)
    [] key = "nw_addr" -> IF fm.f = "null" THEN Ok(Val(0, Zeros(4), 32)) ELSE MeanAddr4(fm)
    [] OTHER -> MeanNum(fm)
ActR(ad, key) == IF Has(ad.f, key) THEN MeanActField(key, Get(ad.f, key)) ELSE Ok(Unset)
NumOr(v, dflt) == IF v.set THEN v.n ELSE dflt
\* dict_to_action deletes "type" from the keywords and calls the class: the three classes that serve two
\* action types each take the type as a constructor argument and so end up with type None (deviation
\* ActionTypeLost; intended: the type that was named)
ActDevs(ad) ==
  IF ad.ty.f # "aname" THEN {}
  ELSE LET c == ActionCode[ad.ty.s] IN
       (IF c \in TwoTypeCodes THEN {"ActionTypeLost"} ELSE {})
       \cup ({ActR(ad, ActionFields(c)[i]).dev : i \in DOMAIN ActionFields(c)} \ {""})
DenoteAction(ad, strict) ==
  IF ad.ty.f # "aname" THEN [ok |-> FALSE, why |-> "reject", o |-> Act("", NoneN, 0, 0, <<>>)]
  ELSE
  LET c == ActionCode[ad.ty.s]
      cls == ClassOf(c)
      flds == ActionFields(c)
      known == \A i \in DOMAIN ad.f : \E j \in DOMAIN flds : flds[j] = ad.f[i].k
      r(k) == Pick(ActR(ad, k), strict)
      allok == known /\ \A j \in DOMAIN flds : r(flds[j]).ok
      ty == IF c \in TwoTypeCodes /\ ~strict THEN NoneN ELSE c
      o == CASE cls = "output" -> Act(cls, ty, NumOr(r("port").v, NoneN), NumOr(r("max_len").v, 65535), <<>>)
             [] cls = "enqueue" -> Act(cls, ty, NumOr(r("port").v, NoneN), NumOr(r("queue_id").v, 0), <<>>)
             [] cls = "dl_addr" -> Act(cls, ty, 0, 0, IF r("dl_addr").v.set THEN r("dl_addr").v.b ELSE Zeros(6))
             [] cls = "nw_addr" -> Act(cls, ty, 0, 0, IF r("nw_addr").v.set THEN r("nw_addr").v.b ELSE Zeros(4))
             [] cls = "strip_vlan" -> Act(cls, ty, 0, 0, <<>>)
             [] OTHER -> Act(cls, ty, NumOr(r(flds[1]).v, 0), 0, <<>>) IN
  IF allok THEN [ok |-> TRUE, why |-> "", o |-> o]
  ELSE [ok |-> FALSE, why |-> "reject", o |-> Act("", NoneN, 0, 0, <<>>)]

\* action_to_dict (+ json.dumps(default = str): addresses become their text)
PortOutForm(n) == IF n = NoneN THEN FNull ELSE IF HasPortName(n) THEN FText(PortNameOf(n)) ELSE FInt(n)
ActOutDoc(a) ==
  [ty |-> IF a.type = NoneN THEN FNull ELSE FAName(ActionNameOf(a.type), 0),
   f |-> CASE a.cls = "output" -> <<[k |-> "max_len", fm |-> FInt(a.n2)], [k |-> "port", fm |-> PortOutForm(a.n1)]>>
           [] a.cls = "enqueue" -> <<[k |-> "port", fm |-> PortOutForm(a.n1)], [k |-> "queue_id", fm |-> FInt(a.n2)]>>
           [] a.cls = "dl_addr" -> <<[k |-> "dl_addr", fm |-> FMac(a.b, "lower")]>>
           [] a.cls = "nw_addr" -> <<[k |-> "nw_addr", fm |-> FIp(a.b, 32, "plain")]>>
           [] a.cls = "strip_vlan" -> <<>>
           [] OTHER -> <<[k |-> FieldsOfClass(a.cls)[1], fm |-> FInt(a.n1)]>>]
\* alphabetical key order, "type" included
RenderAct(ad) ==
  LET fs == RenderKV(ad.f)
      t == KV("type", Render("type", ad.ty))
      before == SelectSeq(fs, LAMBDA e : e.k \in {"max_len", "port", "queue_id", "dl_addr", "nw_addr", "nw_tos",
                                                     "tp_port", "body", "bogus", "a_bogus"})
      after == SelectSeq(fs, LAMBDA e : e.k \in {"vlan_vid", "vlan_pcp", "vendor", "z_bogus"}) IN
  JD(before \o <<t>> \o after)

ActPackOK(a) ==
  /\ a.type # NoneN
  /\ CASE a.cls = "output" -> a.n1 <= 65535 /\ (a.n1 = PortController => a.n2 <= 65535)
       [] a.cls = "enqueue" -> a.n1 <= 65535
       [] a.cls \in {"vlan_vid", "tp_port"} -> a.n1 <= 65535
       [] a.cls \in {"vlan_pcp", "nw_tos"} -> a.n1 <= 255
       [] OTHER -> TRUE
\* ofp_action_output.pack() zeroes max_len unless the port is the controller (it changes the object, too)
EncAct(a) ==
  CASE a.cls = "output" -> BE2(0) \o BE2(8) \o BE2(a.n1) \o BE2(IF a.n1 = PortController THEN a.n2 ELSE 0)
    [] a.cls = "vlan_vid" -> BE2(1) \o BE2(8) \o BE2(a.n1) \o <<0, 0>>
    [] a.cls = "vlan_pcp" -> BE2(2) \o BE2(8) \o <<a.n1, 0, 0, 0>>
    [] a.cls = "strip_vlan" -> BE2(3) \o BE2(8) \o Zeros(4)
    [] a.cls = "dl_addr" -> BE2(a.type) \o BE2(16) \o a.b \o Zeros(6)
    [] a.cls = "nw_addr" -> BE2(a.type) \o BE2(8) \o a.b
    [] a.cls = "nw_tos" -> BE2(8) \o BE2(8) \o <<a.n1, 0, 0, 0>>
    [] a.cls = "tp_port" -> BE2(a.type) \o BE2(8) \o BE2(a.n1) \o <<0, 0>>
    [] a.cls = "enqueue" -> BE2(11) \o BE2(16) \o BE2(a.n1) \o Zeros(6) \o BE4(a.n2)
PackCanonAct(a) == IF a.cls = "output" /\ a.n1 # PortController THEN [a EXCEPT !.n2 = 0] ELSE a

ActsR(ads, strict) == [i \in DOMAIN ads |-> DenoteAction(ads[i], strict)]
ActsOK(ads, strict) == \A i \in DOMAIN ads : ActsR(ads, strict)[i].ok
ActsObj(ads, strict) == [i \in DOMAIN ads |-> ActsR(ads, strict)[i].o]
ActsDevs(ads) == UNION {ActDevs(ads[i]) : i \in DOMAIN ads}
EncActs(as) == Flat([i \in DOMAIN as |-> EncAct(as[i])])

\* ------------------------------------------------------------------ flows (dict_to_flow_mod)
\* a flow document: [match |-> <<>> (key absent) | <<doc>>, mnull (the key is there with null), acts |-> action
\* documents, aform |-> "absent" | "list" | "single" (one action, not in a list), top |-> [k, fm] for the scalar keys]
FlowObj(m, as, cookie, idle, hard, prio) ==
  [match |-> m, actions |-> as, cookie |-> cookie, idle |-> idle, hard |-> hard, prio |-> prio]
NoFlow == FlowObj(EmptyMatch, <<>>, 0, 0, 0, 0)
FlowMatchDoc(fd) == IF fd.match = <<>> \/ fd.mnull THEN <<>> ELSE fd.match[1]
FlowDevs(fd) == MatchDevs(FlowMatchDoc(fd)) \cup ActsDevs(fd.acts)
                \cup (IF Has(fd.top, "output") THEN {"FlowOutputKeyCrashes"} \cup ({MeanOfInt(Get(fd.top, "output")).dev} \ {""}) ELSE {})
TopNum(fd, key, dflt) == IF Has(fd.top, key) THEN (IF Get(fd.top, key).f = "int" THEN Get(fd.top, key).n ELSE NoneN) ELSE dflt
\* "output" is documented for packet-outs ("special key output is an output port") and handled by the same lines
\* in dict_to_flow_mod, which append to `po.actions` - a name that does not exist there (deviation
\* FlowOutputKeyCrashes: NameError; intended: one more output action).  Keys other than match, actions, output,
\* cookie, idle_timeout, hard_timeout, priority are not looked at.
DenoteFlow(fd, strict) ==
  LET m == DenoteMatch(FlowMatchDoc(fd), strict)
      outp == IF Has(fd.top, "output") THEN Pick(MeanOfInt(Get(fd.top, "output")), strict) ELSE [ok |-> TRUE, v |-> Unset]
      extra == IF Has(fd.top, "output") THEN <<Act("output", 0, NumOr(outp.v, NoneN), 65535, <<>>)>> ELSE <<>> IN
  IF ~m.ok \/ ~ActsOK(fd.acts, strict) \/ ~outp.ok THEN [ok |-> FALSE, why |-> "reject", o |-> NoFlow]
  ELSE IF Has(fd.top, "output") /\ ~strict THEN [ok |-> FALSE, why |-> "crash", o |-> NoFlow]
  ELSE [ok |-> TRUE, why |-> "",
        o |-> FlowObj(m.o, ActsObj(fd.acts, strict) \o extra, TopNum(fd, "cookie", 0), TopNum(fd, "idle_timeout", 0),
                      TopNum(fd, "hard_timeout", 0), TopNum(fd, "priority", 32768))]
RenderFlow(fd) ==
  LET acts == IF fd.aform = "absent" THEN <<>>
              ELSE IF fd.aform = "single" THEN <<KV("actions", RenderAct(fd.acts[1]))>>
              ELSE <<KV("actions", JL([i \in DOMAIN fd.acts |-> RenderAct(fd.acts[i])]))>>
      mt == IF fd.match = <<>> THEN <<>>
            ELSE IF fd.mnull THEN <<KV("match", JNull)>> ELSE <<KV("match", JD(RenderKV(fd.match[1])))>> IN
  JD(acts \o mt \o RenderKV(fd.top))

FlowPackOK(f) ==
  /\ MatchRange(f.match) /\ \A i \in DOMAIN f.actions : ActPackOK(f.actions[i])
  /\ f.cookie # NoneN /\ f.idle <= 65535 /\ f.hard <= 65535 /\ f.prio <= 65535
Header(ty, len, xid) == <<1, ty>> \o BE2(len) \o BE4(xid)
EncFlowMod(f, cmd, xid) ==
  LET as == EncActs(f.actions) IN
  Header(14, 72 + Len(as), xid) \o EncMatchFM(f.match) \o BE8(f.cookie) \o BE2(cmd) \o BE2(f.idle) \o BE2(f.hard)
  \o BE2(f.prio) \o FF(4) \o BE2(PortNone) \o BE2(0) \o as

\* ------------------------------------------------------------------ packet-outs (dict_to_packet_out / dict_to_packet)
\* document: [top |-> [k, fm] for buffer_id / in_port / output, acts, aform |-> "absent" | "list", data |-> data form]
\* data forms: [d |-> tag, n, s, b]
DData(d, n, s, b) == [d |-> d, n |-> n, s |-> s, b |-> b]
BufMinus1 == 100001                               \* Python's -1 in buffer_id
PoObj(buf, inport, as, data) == [buf |-> buf, inport |-> inport, actions |-> as, data |-> data]
NoPo == PoObj(NoneN, PortNone, <<>>, <<>>)
ArpHdr(op) == <<0, 1, 8, 0, 6, 4>> \o BE2(op) \o Zeros(20)
\* pox.lib.packet names that dict_to_packet accepts as "class": as built only the purely alphabetic ones
\* (`x.isalpha()` filters out ipv4, ipv6, icmpv6); intended: every header class of the package
ValidPacketClasses == {"arp", "dhcp", "dns", "eap", "eapol", "ethernet", "gre", "icmp", "llc", "lldp", "mpls",
                       "rip", "tcp", "udp", "vlan", "vxlan"}
IntendedPacketClasses == ValidPacketClasses \cup {"ipv4", "ipv6", "icmpv6"}
\* the outcome of dict_to_packet + pack() for a data form: [ok, why, b, dev, sok, sb]
DataR(dd) ==
  CASE dd.d = "none" -> [ok |-> TRUE, why |-> "", b |-> <<>>, dev |-> "", sok |-> TRUE, sb |-> <<>>]
    \* a JSON string is the packet, byte for byte (Python 2 str); as built the text is kept as text and the
    \* packet-out's data setter ignores what is not bytes: the packet-out goes out EMPTY
    [] dd.d = "text" -> [ok |-> TRUE, why |-> "", b |-> <<>>, dev |-> "StringDataDropped", sok |-> TRUE, sb |-> dd.b]
    \* a list of byte values: `b''.join(chr(x) for x in data)` names a variable that does not exist
    [] dd.d = "list" -> [ok |-> FALSE, why |-> "crash", b |-> <<>>, dev |-> "ByteListCrashes", sok |-> TRUE, sb |-> dd.b]
    [] dd.d = "arp" -> [ok |-> TRUE, why |-> "", b |-> ArpHdr(dd.n), dev |-> "", sok |-> TRUE, sb |-> ArpHdr(dd.n)]
    [] dd.d = "ethtype" -> [ok |-> TRUE, why |-> "", b |-> Zeros(12) \o BE2(dd.n), dev |-> "", sok |-> TRUE, sb |-> Zeros(12) \o BE2(dd.n)]
    \* addresses can only be text in JSON; they are handed to the header class as text and pack() fails
    [] dd.d = "eth" -> [ok |-> FALSE, why |-> "reject", b |-> <<>>, dev |-> "PacketAddressNotConverted", sok |-> TRUE,
                        sb |-> dd.b \o BE2(dd.n)]
    \* "payload" is converted recursively AFTER the whole dictionary (payload included) went to the constructor
    [] dd.d = "nested" -> [ok |-> FALSE, why |-> "reject", b |-> <<>>, dev |-> "NestedPayloadRejected", sok |-> TRUE,
                           sb |-> Zeros(12) \o BE2(2054) \o ArpHdr(dd.n)]
    [] dd.d = "cls" -> IF dd.s \in ValidPacketClasses
                       THEN [ok |-> TRUE, why |-> "", b |-> dd.b, dev |-> "", sok |-> TRUE, sb |-> dd.b]
                       ELSE IF dd.s \in IntendedPacketClasses
                       THEN [ok |-> FALSE, why |-> "reject", b |-> <<>>, dev |-> "NumberedClassNotAPacketType", sok |-> TRUE, sb |-> dd.b]
                       ELSE [ok |-> FALSE, why |-> "reject", b |-> <<>>, dev |-> "", sok |-> FALSE, sb |-> <<>>]
    \* documented by the asserts of dict_to_packet: no private attributes, no attributes the class lacks, none of
    \* prev / next / raw / parsed
    [] dd.d \in {"private", "unknownattr", "linkattr"} ->
         [ok |-> FALSE, why |-> "reject", b |-> <<>>, dev |-> "", sok |-> FALSE, sb |-> <<>>]
RenderData(dd) ==
  CASE dd.d = "text" -> JS(dd.s)
    [] dd.d = "list" -> JL([j \in DOMAIN dd.b |-> JI(dd.b[j])])
    [] dd.d = "arp" -> JD(<<KV("class", JS("arp")), KV("opcode", JI(dd.n))>>)
    [] dd.d = "ethtype" -> JD(<<KV("class", JS("ethernet")), KV("type", JI(dd.n))>>)
    [] dd.d = "eth" -> JD(<<KV("class", JS("ethernet")), KV("dst", JS(MacLower(SubSeq(dd.b, 1, 6)))),
                            KV("src", JS(MacLower(SubSeq(dd.b, 7, 12)))), KV("type", JI(dd.n))>>)
    [] dd.d = "nested" -> JD(<<KV("class", JS("ethernet")), KV("type", JI(2054)),
                               KV("payload", JD(<<KV("class", JS("arp")), KV("opcode", JI(dd.n))>>))>>)
    [] dd.d = "cls" -> JD(<<KV("class", JS(dd.s))>>)
    [] dd.d = "private" -> JD(<<KV("class", JS("ethernet")), KV("_x", JI(1))>>)
    [] dd.d = "unknownattr" -> JD(<<KV("class", JS("ethernet")), KV("bogus", JI(1))>>)
    [] dd.d = "linkattr" -> JD(<<KV("class", JS("ethernet")), KV("prev", JNull)>>)
    [] OTHER -> JNull
PoDevs(pd) ==
  ActsDevs(pd.acts) \cup ({DataR(pd.data).dev} \ {""})
  \cup (IF Has(pd.top, "buffer_id") THEN {} ELSE {"DefaultBufferMinusOne"})
  \cup (IF Has(pd.top, "in_port") THEN {MeanOfInt(Get(pd.top, "in_port")).dev} \ {""} ELSE {})
  \cup (IF Has(pd.top, "output") THEN {MeanOfInt(Get(pd.top, "output")).dev} \ {""} ELSE {})
\* buffer_id defaults to -1, which the message class does not read as "no buffer" (only None is) and cannot
\* pack (deviation DefaultBufferMinusOne; intended: no buffer)
DenotePo(pd, strict) ==
  LET buf == IF Has(pd.top, "buffer_id")
             THEN (IF Get(pd.top, "buffer_id").f = "int" THEN Get(pd.top, "buffer_id").n ELSE NoneN)
             ELSE (IF strict THEN NoneN ELSE BufMinus1)
      inp == IF Has(pd.top, "in_port") THEN Pick(MeanOfInt(Get(pd.top, "in_port")), strict) ELSE [ok |-> TRUE, v |-> N(PortNone)]
      outp == IF Has(pd.top, "output") THEN Pick(MeanOfInt(Get(pd.top, "output")), strict) ELSE [ok |-> TRUE, v |-> Unset]
      extra == IF Has(pd.top, "output") THEN <<Act("output", 0, NumOr(outp.v, NoneN), 65535, <<>>)>> ELSE <<>>
      dr == DataR(pd.data)
      dok == IF strict /\ dr.dev # "" THEN dr.sok ELSE dr.ok
      db == IF strict /\ dr.dev # "" THEN dr.sb ELSE dr.b IN
  IF ~inp.ok \/ ~ActsOK(pd.acts, strict) \/ ~outp.ok THEN [ok |-> FALSE, why |-> "reject", o |-> NoPo]
  ELSE IF ~dok THEN [ok |-> FALSE, why |-> (IF strict THEN "reject" ELSE dr.why), o |-> NoPo]
  ELSE [ok |-> TRUE, why |-> "", o |-> PoObj(buf, NumOr(inp.v, NoneN), ActsObj(pd.acts, strict) \o extra, db)]
RenderPo(pd) ==
  LET acts == IF pd.aform = "absent" THEN <<>> ELSE <<KV("actions", JL([i \in DOMAIN pd.acts |-> RenderAct(pd.acts[i])]))>>
      dt == IF pd.data.d = "none" THEN <<>> ELSE <<KV("data", RenderData(pd.data))>> IN
  JD(acts \o dt \o RenderKV(pd.top))
PoPackOK(p) ==
  /\ p.buf # BufMinus1 /\ p.inport # NoneN /\ p.inport <= 65535
  /\ ~(p.buf # NoneN /\ p.data # <<>>)            \* ofp_packet_out._validate: "can not have both buffer_id and data set"
  /\ \A i \in DOMAIN p.actions : ActPackOK(p.actions[i])
EncPo(p, xid) ==
  LET as == EncActs(p.actions) IN
  Header(13, 16 + Len(as) + Len(p.data), xid) \o (IF p.buf = NoneN THEN FF(4) ELSE BE4(p.buf)) \o BE2(p.inport)
  \o BE2(Len(as)) \o as \o p.data

\* ------------------------------------------------------------------ fix_parsed
\* input: nothing (None) or a frame the switch sent up in a packet-in, parsed by the controller.  Intended
\* ("translate parsed packet data to dicts and stuff"): a dictionary per header, "type" = the class name, the
\* innermost payload {"type": "raw", "data": [bytes]}.  As built the innermost payload is a `bytes` object, which
\* is neither `str` nor a header: AssertionError for every frame (deviation FixParsedRejectsBytes).
FixObj(types, rawlen) == [types |-> types, rawlen |-> rawlen]
DenoteFix(fx, strict) ==
  IF fx.d = "none" THEN [ok |-> TRUE, why |-> "", o |-> FixObj(<<"raw">>, 0)]
  ELSE IF strict THEN [ok |-> TRUE, why |-> "", o |-> FixObj(fx.types, fx.n)]
  ELSE [ok |-> FALSE, why |-> "reject", o |-> FixObj(<<>>, 0)]
FixDevs(fx) == IF fx.d = "none" THEN {} ELSE {"FixParsedRejectsBytes"}

\* ------------------------------------------------------------------ a case = [kind, doc]
Denote(c, strict) ==
  CASE c.kind = "match" -> DenoteMatch(c.doc.kv, strict)
    [] c.kind = "action" -> DenoteAction(c.doc, strict)
    \* an action that arrives in wire format (a statistics reply): the object is what the bytes say
    [] c.kind = "awire" -> DenoteAction(c.doc, TRUE)
    [] c.kind = "flow" -> DenoteFlow(c.doc, strict)
    [] c.kind = "po" -> DenotePo(c.doc, strict)
    [] c.kind = "fix" -> DenoteFix(c.doc, strict)
DevsOf(c) ==
  CASE c.kind = "match" -> MatchDevs(c.doc.kv)
    [] c.kind = "action" -> ActDevs(c.doc)
    [] c.kind = "awire" -> {}
    [] c.kind = "flow" -> FlowDevs(c.doc)
    [] c.kind = "po" -> PoDevs(c.doc)
    [] c.kind = "fix" -> FixDevs(c.doc)
RenderCase(c) ==
  CASE c.kind = "match" -> JD(RenderKV(c.doc.kv))
    [] c.kind \in {"action", "awire"} -> RenderAct(c.doc)
    [] c.kind = "flow" -> RenderFlow(c.doc)
    [] c.kind = "po" -> RenderPo(c.doc)
    [] c.kind = "fix" -> JD(<<KV("frame", JS(c.doc.d))>>)
\* the dictionary written for an object, as a case of the same kind (so that it can be read again)
OutCase(kind, o) ==
  IF kind = "match" THEN [kind |-> "match", doc |-> [kv |-> MatchOutDoc(o)]] ELSE [kind |-> "action", doc |-> ActOutDoc(o)]

=============================================================================
