---------------------------- MODULE TraceOFJson ----------------------------
(* Code -> spec: conversion jobs recorded from the real of_json functions (props/X14.py:drive - seeded random   *)
(* documents described by forms, rendered to JSON by the driver) must be behaviours of OFJson.tla: the rendered   *)
(* document must be the spec's rendering of the forms, and every answer of the code (accepted / rejected, the     *)
(* object attribute by attribute, the dictionary written back, the object read again, the bytes) the spec's.       *)
(* Every invariant of OFJson is evaluated at each matched step.                                                    *)
EXTENDS MCOFJson, IOUtils, TLCExt

Traces == JsonDeserialize(IOEnv.TRACE_FILE)
NT == Len(Traces)
VARIABLES tid, l
tvars == <<vars, tid, l>>

TrInit == Init /\ tid \in 1..NT /\ l = 1 /\ TLCSet(tid, 0)
Ev == Traces[tid][l]
IsEvent(e) == l <= Len(Traces[tid]) /\ Ev.a = e /\ l' = l + 1 /\ UNCHANGED tid

TrChoose ==
  /\ IsEvent("Choose")
  /\ Choose(Ev.case)
  /\ RenderCase(Ev.case) = Ev.doc
TrBuild ==
  /\ IsEvent("Build")
  /\ (Build \/ \E d \in DevSet : BuildDeviating(d))
  /\ obj'.ok = Ev.ok /\ obj'.why = Ev.why
  /\ (Ev.ok => obj'.o = Ev.o)
TrDump ==
  /\ IsEvent("Dump")
  /\ Dump
  /\ RenderCase(out') = Ev.json
TrRebuild ==
  /\ IsEvent("Rebuild")
  /\ (Rebuild \/ \E d \in DevSet : RebuildDeviating(d))
  /\ obj2'.ok = Ev.ok /\ obj2'.why = Ev.why
  /\ (Ev.ok => obj2'.o = Ev.o)
  /\ Ev.same = (obj2'.ok /\ obj2'.o = obj.o)
TrPack ==
  /\ IsEvent("Pack")
  /\ Pack(Ev.xid)
  /\ wire'.ok = Ev.ok /\ wire'.b = Ev.wire
TrReset == IsEvent("Reset") /\ Reset

TrNext == TrChoose \/ TrBuild \/ TrDump \/ TrRebuild \/ TrPack \/ TrReset
TrSpec == TrInit /\ [][TrNext]_tvars

Progress == TLCSet(tid, IF TLCGet(tid) < l - 1 THEN l - 1 ELSE TLCGet(tid))
TraceOk(t) == TLCGet(t) = Len(Traces[t]) \/ (PrintT(<<"REJECT", t, TLCGet(t)>>) /\ FALSE)
Accepted == /\ PrintT(<<"TRACES-CHECKED", NT>>)
            /\ Cardinality({t \in 1..NT : ~TraceOk(t)}) = 0
=============================================================================
