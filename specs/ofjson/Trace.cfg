CONSTANTS Strict = FALSE
  Cases <- MCCasesQ
  Xids <- MCXids
  D = 0
INIT TrInit
NEXT TrNext
CONSTRAINT Progress
POSTCONDITION Accepted
INVARIANT TypeOK
INVARIANT ObjStable
INVARIANT DictStable
INVARIANT NamedPortKept
INVARIANT RejectedLeavesNothing
INVARIANT WireOK
CHECK_DEADLOCK FALSE
