CONSTANTS Strict = FALSE
  Cases <- MCCasesQ
  Xids <- MCXids
  D = 30
INIT Init
NEXT Next
INVARIANT Export
CHECK_DEADLOCK FALSE
