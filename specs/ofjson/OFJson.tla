------------------------------- MODULE OFJson -------------------------------
(* X14: OpenFlow <-> JSON conversion (pox/openflow/of_json.py).                        *)
(*                                                                                      *)
(* One conversion job at a time goes through the steps a client of the library (the    *)
(* web service, the messenger service) makes it go through:                             *)
(*                                                                                      *)
(*   Choose   a JSON document arrives (a match / action / flow / packet-out dictionary,  *)
(*            or a frame handed to fix_parsed)                                          *)
(*   Build    dict_to_match / dict_to_action / dict_to_flow_mod / dict_to_packet_out /   *)
(*            fix_parsed: the document denotes an object, or is rejected                 *)
(*   Dump     match_to_dict / action_to_dict (+ the JSON encoder of the web service,      *)
(*            json.dumps(default=str)): the object is written back as a dictionary       *)
(*   Rebuild  the written dictionary is read again                                       *)
(*   Pack     the object goes on the wire (a match inside an ofp_flow_mod, an action, a   *)
(*            flow_mod, a packet_out) - bytes computed here from the OpenFlow 1.0 layout  *)
(*   Reset    the job is finished                                                        *)
(*                                                                                      *)
(* A document is described by FORMS (what the caller wrote: a number, a symbolic name, a  *)
(* hex text, a CIDR text ...); `Render` is the JSON text of a form and `Mean*` what the   *)
(* library is documented / written to understand by it.  The tables are in OFJsonTables.  *)
(*                                                                                      *)
(* Deviations of the code from its evident intent are NAMED actions, enabled only when    *)
(* Strict = FALSE (the as-built model that the real code is bound to); with Strict = TRUE  *)
(* the same documents get the intended outcome and every property holds unconditionally.  *)
EXTENDS OFJsonCodec

CONSTANTS Strict,      \* TRUE: intended design; FALSE: as built (deviation actions enabled)
          Cases,       \* the documents TLC enumerates (MCOFJson.tla)
          Xids,        \* transaction ids used by Pack
          D            \* export depth (simulation)

\* ------------------------------------------------------------------ state
VARIABLES phase,     \* idle | chosen | built | dumped | rebuilt | packed
          job,       \* the case being converted
          obj,       \* [ok, why, o]: the object the document denotes / rejected
          out,       \* the case written back by Dump
          obj2,      \* what Rebuild reads from `out`
          wire,      \* [ok, b]: what Pack put on the wire
          devs,      \* names of the deviation actions taken in this job
          last, hist
vars == <<phase, job, obj, out, obj2, wire, devs, last, hist>>
view == <<phase, job, obj, out, obj2, wire, devs>>

NoJob == [kind |-> "none", doc |-> [none |-> 0]]
NoObj == [ok |-> FALSE, why |-> "none", o |-> [none |-> 0]]
NoWire == [ok |-> FALSE, b |-> <<>>]
NoObs == [a |-> "Init", args |-> [x |-> 0], exp |-> [x |-> 0]]

Init == /\ phase = "idle" /\ job = NoJob /\ obj = NoObj /\ out = NoJob /\ obj2 = NoObj /\ wire = NoWire
        /\ devs = {} /\ last = NoObs /\ hist = <<>>

Log(a, args, exp) ==
  /\ last' = [a |-> a, args |-> args, exp |-> exp]
  /\ hist' = Append(hist, [a |-> a, args |-> args, exp |-> exp])

\* a document arrives
Choose(c) ==
  /\ phase = "idle"
  /\ phase' = "chosen" /\ job' = c
  /\ UNCHANGED <<obj, out, obj2, wire, devs>>
  /\ Log("Choose", [kind |-> c.kind, doc |-> RenderCase(c)], [x |-> 0])

ObjExp(r) == [ok |-> r.ok, why |-> r.why, o |-> r.o]

\* dict_to_*: the document as intended (all of it when Strict; as built when nothing in it deviates)
Build ==
  /\ phase = "chosen"
  /\ Strict \/ DevsOf(job) = {}
  /\ obj' = Denote(job, Strict) /\ phase' = "built"
  /\ UNCHANGED <<job, out, obj2, wire, devs>>
  /\ Log("Build", [kind |-> job.kind, dev |-> ""], ObjExp(Denote(job, Strict)))

\* the same call on a document that hits a deviation of the code: one named action per deviation (when a
\* document hits several, the first in DevSeq names the step; `devs` records all of them)
DevSeq == <<"ActionTypeLost", "ByteListCrashes", "DefaultBufferMinusOne", "EthNameReadAsHex", "FixParsedRejectsBytes",
            "FlowOutputKeyCrashes", "NestedPayloadRejected", "NumberedClassNotAPacketType", "PacketAddressNotConverted",
            "StringDataDropped", "UnknownPortNameDropped">>
DevSet == {DevSeq[i] : i \in DOMAIN DevSeq}
DevRank(d) == CHOOSE i \in DOMAIN DevSeq : DevSeq[i] = d
BuildDeviating(d) ==
  /\ phase = "chosen" /\ ~Strict
  /\ d \in DevsOf(job)
  /\ \A e \in DevsOf(job) : DevRank(d) <= DevRank(e)
  /\ obj' = Denote(job, FALSE) /\ phase' = "built" /\ devs' = devs \cup DevsOf(job)
  /\ UNCHANGED <<job, out, obj2, wire>>
  /\ Log("Build", [kind |-> job.kind, dev |-> d], ObjExp(Denote(job, FALSE)))
BuildLosesActionType        == BuildDeviating("ActionTypeLost")
BuildByteListCrashes        == BuildDeviating("ByteListCrashes")
BuildDefaultBufferMinusOne  == BuildDeviating("DefaultBufferMinusOne")
BuildReadsNameAsHex         == BuildDeviating("EthNameReadAsHex")
BuildFixParsedRejectsBytes  == BuildDeviating("FixParsedRejectsBytes")
BuildFlowOutputKeyCrashes   == BuildDeviating("FlowOutputKeyCrashes")
BuildNestedPayloadRejected  == BuildDeviating("NestedPayloadRejected")
BuildNumberedClassRejected  == BuildDeviating("NumberedClassNotAPacketType")
BuildAddressNotConverted    == BuildDeviating("PacketAddressNotConverted")
BuildStringDataDropped      == BuildDeviating("StringDataDropped")
BuildDropsUnknownPortName   == BuildDeviating("UnknownPortNameDropped")

\* match_to_dict / action_to_dict and the JSON encoder: the object is written back
Dumpable(kind) == kind \in {"match", "action", "awire"}
Dump ==
  /\ phase = "built" /\ obj.ok /\ Dumpable(job.kind)
  /\ out' = OutCase(job.kind, obj.o) /\ phase' = "dumped"
  /\ UNCHANGED <<job, obj, obj2, wire, devs>>
  /\ Log("Dump", [kind |-> job.kind], [json |-> RenderCase(OutCase(job.kind, obj.o))])

\* the written dictionary is read again
RebExp(r) == [ok |-> r.ok, why |-> r.why, o |-> r.o, same |-> r.ok /\ r.o = obj.o]
Rebuild ==
  /\ phase = "dumped"
  /\ Strict \/ DevsOf(out) = {}
  /\ obj2' = Denote(out, Strict) /\ phase' = "rebuilt"
  /\ UNCHANGED <<job, obj, out, wire, devs>>
  /\ Log("Rebuild", [kind |-> job.kind, dev |-> ""], RebExp(Denote(out, Strict)))
RebuildDeviating(d) ==
  /\ phase = "dumped" /\ ~Strict
  /\ d \in DevsOf(out)
  /\ \A e \in DevsOf(out) : DevRank(d) <= DevRank(e)
  /\ obj2' = Denote(out, FALSE) /\ phase' = "rebuilt" /\ devs' = devs \cup DevsOf(out)
  /\ UNCHANGED <<job, obj, out, wire>>
  /\ Log("Rebuild", [kind |-> job.kind, dev |-> d], RebExp(Denote(out, FALSE)))
\* match_to_dict writes 0xffff as "BAD"; read again it is 0x0bad
RebuildReadsNameAsHex  == RebuildDeviating("EthNameReadAsHex")
\* an action dictionary written by action_to_dict for SET_DL / SET_NW / SET_TP comes back without its type
RebuildLosesActionType == RebuildDeviating("ActionTypeLost")

\* the object goes on the wire: a match inside an otherwise default ofp_flow_mod, an action alone, a flow_mod
\* (xid assigned by the caller, as the web service does), a packet_out
PackOK(kind, o) ==
  CASE kind = "match" -> MatchRange(o)
    [] kind \in {"action", "awire"} -> ActPackOK(o)
    [] kind = "flow" -> FlowPackOK(o)
    [] kind = "po" -> PoPackOK(o)
Enc(kind, o, x) ==
  CASE kind = "match" -> EncFlowMod(FlowObj(o, <<>>, 0, 0, 0, 32768), 0, x)
    [] kind \in {"action", "awire"} -> EncAct(o)
    [] kind = "flow" -> EncFlowMod(o, 0, x)
    [] kind = "po" -> EncPo(o, x)
PackCanon(kind, o) ==
  CASE kind \in {"action", "awire"} -> PackCanonAct(o)
    [] kind = "flow" -> [o EXCEPT !.actions = [i \in DOMAIN o.actions |-> PackCanonAct(o.actions[i])]]
    [] kind = "po" -> [o EXCEPT !.actions = [i \in DOMAIN o.actions |-> PackCanonAct(o.actions[i])]]
    [] OTHER -> o
Pack(x) ==
  /\ obj.ok /\ job.kind # "fix"
  /\ \/ phase = "rebuilt"
     \/ phase = "built" /\ ~Dumpable(job.kind)
  /\ phase' = "packed"
  /\ IF PackOK(job.kind, obj.o)
     THEN /\ wire' = [ok |-> TRUE, b |-> Enc(job.kind, obj.o, x)]
          /\ obj' = [obj EXCEPT !.o = PackCanon(job.kind, obj.o)]
          /\ Log("Pack", [kind |-> job.kind, xid |-> x], [ok |-> TRUE, wire |-> Enc(job.kind, obj.o, x)])
     ELSE /\ wire' = NoWire /\ UNCHANGED obj
          /\ Log("Pack", [kind |-> job.kind, xid |-> x], [ok |-> FALSE, wire |-> <<>>])
  /\ UNCHANGED <<job, out, obj2, devs>>

\* the job is finished (a rejected document ends at Build, a fix_parsed job has nothing to pack)
Reset ==
  /\ \/ phase = "packed"
     \/ phase = "built" /\ (~obj.ok \/ job.kind = "fix")
  /\ phase' = "idle" /\ job' = NoJob /\ obj' = NoObj /\ out' = NoJob /\ obj2' = NoObj /\ wire' = NoWire /\ devs' = {}
  /\ Log("Reset", [x |-> 0], [x |-> 0])

ChooseAny == phase = "idle" /\ \E c \in Cases : Choose(c)
PackAny == \E x \in Xids : Pack(x)
Next == \/ ChooseAny \/ Build \/ Dump \/ Rebuild \/ PackAny \/ Reset
        \/ BuildLosesActionType \/ BuildByteListCrashes \/ BuildDefaultBufferMinusOne \/ BuildReadsNameAsHex
        \/ BuildFixParsedRejectsBytes \/ BuildFlowOutputKeyCrashes \/ BuildNestedPayloadRejected
        \/ BuildNumberedClassRejected \/ BuildAddressNotConverted \/ BuildStringDataDropped
        \/ BuildDropsUnknownPortName \/ RebuildReadsNameAsHex \/ RebuildLosesActionType
Spec == Init /\ [][Next]_vars

\* ------------------------------------------------------------------ properties
Phases == {"idle", "chosen", "built", "dumped", "rebuilt", "packed"}
TypeOK == /\ phase \in Phases /\ devs \subseteq DevSet /\ (Strict => devs = {})
          /\ (phase = "idle") = (job = NoJob)
          /\ wire.ok => phase = "packed"
\* what a deviation-free job guarantees: reading the written dictionary gives the object back ...
ObjStable == phase = "rebuilt" /\ devs = {} => obj2.ok /\ obj2.o = obj.o
\* ... and writing that object gives the same dictionary (the dictionary is in normal form: named ports and
\* ethertypes, numeric protocols and services, CIDR texts, lower-case MACs, defaults explicit)
DictStable == phase = "rebuilt" /\ devs = {} /\ obj2.ok => OutCase(out.kind, obj2.o) = out
\* a symbolic port the caller named is in the object
NamedPortKept ==
  phase \in {"built", "dumped", "rebuilt"} /\ job.kind = "match" /\ obj.ok /\ devs = {} /\ Has(job.doc.kv, "in_port")
    /\ Get(job.doc.kv, "in_port").f = "text" => obj.o["in_port"].set
\* a rejected document leaves nothing behind
RejectedLeavesNothing == phase # "idle" /\ ~obj.ok => wire = NoWire /\ out = NoJob
\* what is on the wire is a whole message / action: its length field says so; flow_mods and actions are 8-aligned
LenField(b) == b[3] * 256 + b[4]
WireOK == wire.ok => /\ LenField(wire.b) = Len(wire.b)
                     /\ (job.kind # "po" => Len(wire.b) % 8 = 0)
                     /\ (job.kind \in {"match", "flow"} => Len(wire.b) >= 72 /\ wire.b[2] = 14)
\* the caller's document is not modified by a conversion
InputIntact == [][phase = "idle" \/ phase' = "idle" \/ job' = job]_vars

\* ------------------------------------------------------------------ export
ExportT == (last'.a # "Reset") \/ PrintT(<<"T", ToJson(hist')>>)
Export == Len(hist) = D => PrintT(<<"H", ToJson(hist)>>)
Bound == Len(hist) <= D
=============================================================================
