CONSTANTS Strict = TRUE
  Cases <- MCCasesQ
  Xids <- MCXid1
  D = 0
INIT Init
NEXT Next
VIEW view
INVARIANT TypeOK
INVARIANT ObjStable
INVARIANT DictStable
INVARIANT NamedPortKept
INVARIANT RejectedLeavesNothing
INVARIANT WireOK
PROPERTY InputIntact
CHECK_DEADLOCK FALSE
