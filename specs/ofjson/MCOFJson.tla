------------------------------ MODULE MCOFJson ------------------------------
(* The documents TLC enumerates for OFJson.tla: every form of every field on an empty and on a full        *)
(* document, the prerequisite grid (dl_type x nw_proto x dependent fields) that decides the wire image of a  *)
(* match, every action type in both spellings with every port spelling, flows and packet-outs assembled      *)
(* from those, the frames handed to fix_parsed.                                                              *)
EXTENDS OFJson

E(k, fm) == [k |-> k, fm |-> fm]
MacA == <<0, 17, 34, 51, 68, 85>>
MacB == <<255, 255, 255, 255, 255, 255>>
MacC == <<10, 188, 222, 1, 2, 15>>
IpA == <<10, 0, 0, 0>>
IpB == <<192, 168, 1, 77>>
IpC == <<172, 16, 128, 0>>
Ip0 == <<0, 0, 0, 0>>

\* ---- forms of each match field
PortForms == {FInt(0), FInt(3), FInt(65279), FInt(65280), FInt(65534), FInt(65536), FText("OFPP_BOGUS"), FNull}
             \cup {FText(n) : n \in PortNames}
MacForms == {FMac(MacA, st) : st \in {"lower", "upper", "dash", "plain", "loose"}}
            \cup {FMac(MacB, "upper"), FMac(MacC, "loose"), FMac(MacC, "lower"), FText("zz"), FInt(5), FNull}
EthForms == {FInt(n) : n \in {0, 100, 1500, 1501, 1535, 2048, 2054, 34525, 35020, 34997, 65535, 2989}}
            \cup {FText(n) : n \in EthInNames} \cup {FLong(n) : n \in EthInNames}
            \cup {FText("BAD"), FLong("BAD"), FText("BOGUS"), FLong("BOGUS"), FNull}
            \cup {FHex(2048, st) : st \in {"0x", "", "802.3/", "min"}}
            \cup {FHex(1500, "802.3/"), FHex(34997, ""), FHex(10, "min"), FHex(10, "0x"), FHex(65535, "")}
ProtoForms == {FInt(n) : n \in {0, 1, 6, 17, 47, 255, 256}} \cup {FText(n) : n \in ProtoNames}
              \cup {FLong(n) : n \in ProtoNames} \cup {FText("BOGUS"), FNull}
IpForms == {FIp(IpA, 8, "cidr"), FIp(IpA, 8, "mask"), FIp(IpA, 7, "cidr"), FIp(IpA, 9, "cidr"), FIp(IpB, 32, "cidr"),
            FIp(IpB, 32, "plain"), FIp(IpB, 32, "mask"), FIp(IpB, 24, "cidr"), FIp(<<192, 168, 1, 0>>, 24, "cidr"),
            FIp(<<192, 168, 1, 0>>, 24, "mask"), FIp(IpC, 17, "cidr"), FIp(IpC, 17, "mask"), FIp(IpC, 16, "cidr"),
            FIp(Ip0, 0, "cidr"), FIp(Ip0, 0, "mask"), FIp(Ip0, 32, "plain"), FIp(IpA, 0, "cidr"), FIp(IpA, 33, "cidr"),
            FIp(<<128, 0, 0, 0>>, 1, "cidr"), FIp(IpB, 31, "cidr"), FIp(<<192, 168, 1, 76>>, 31, "cidr"),
            FIp(<<255, 255, 255, 255>>, 32, "plain"), FText("300.1.1.1"), FInt(5), FNull}
NumForms(S) == {FInt(n) : n \in S} \cup {FNull}
TpForms == {FInt(n) : n \in {0, 80, 65535, 65536}} \cup {FText("http"), FText("domain"), FText("nosuchsvc"), FNull}
FormsOf(k) ==
  CASE k = "in_port" -> PortForms
    [] k \in {"dl_src", "dl_dst"} -> MacForms
    [] k = "dl_type" -> EthForms
    [] k = "nw_proto" -> ProtoForms
    [] k \in {"nw_src", "nw_dst"} -> IpForms
    [] k \in {"tp_src", "tp_dst"} -> TpForms
    [] k = "dl_vlan" -> NumForms({0, 5, 4095, 65535, 65536})
    [] k = "dl_vlan_pcp" -> NumForms({0, 3, 7, 256})
    [] k = "nw_tos" -> NumForms({0, 4, 252, 256})

FullBase == <<E("dl_dst", FMac(MacB, "lower")), E("dl_src", FMac(MacA, "lower")), E("dl_type", FInt(2048)),
              E("dl_vlan", FInt(5)), E("dl_vlan_pcp", FInt(3)), E("in_port", FInt(3)), E("nw_dst", FIp(IpB, 32, "cidr")),
              E("nw_proto", FInt(6)), E("nw_src", FIp(IpA, 8, "cidr")), E("nw_tos", FInt(4)), E("tp_dst", FInt(80)),
              E("tp_src", FInt(1024))>>
Replace(doc, k, fm) == [i \in DOMAIN doc |-> IF doc[i].k = k THEN E(k, fm) ELSE doc[i]]
MC(doc) == [kind |-> "match", doc |-> [kv |-> doc]]

MatchSinglesEmpty == UNION {{MC(<<E(k, fm)>>) : fm \in FormsOf(k)} : k \in MatchKeySet}
MatchSinglesFull == UNION {{MC(Replace(FullBase, k, fm)) : fm \in FormsOf(k)} : k \in MatchKeySet}
\* the prerequisite grid
GridTypes == {<<>>, <<E("dl_type", FText("IP"))>>, <<E("dl_type", FText("ARP"))>>, <<E("dl_type", FText("IPV6"))>>,
              <<E("dl_type", FInt(34997))>>, <<E("dl_type", FInt(100))>>}
GridProtos == {<<>>, <<E("nw_proto", FText("ICMP"))>>, <<E("nw_proto", FInt(6))>>, <<E("nw_proto", FText("UDP"))>>,
               <<E("nw_proto", FText("GRE"))>>, <<E("nw_proto", FInt(2))>>}
GridRest == {<<>>, <<E("nw_dst", FIp(IpB, 32, "plain")), E("nw_src", FIp(IpA, 8, "cidr")), E("nw_tos", FInt(4)),
                    E("tp_dst", FInt(80)), E("tp_src", FText("http"))>>,
             <<E("tp_dst", FInt(70000))>>, <<E("nw_tos", FInt(300))>>}
MatchGrid == {MC(t \o p \o r) : t \in GridTypes, p \in GridProtos, r \in GridRest}
MatchMisc == {MC(<<>>), MC(FullBase), MC(<<E("bogus", FInt(1))>>), MC(FullBase \o <<E("zzz", FText("x"))>>),
              MC(<<E("in_port", FText("OFPP_BOGUS")), E("dl_type", FText("BOGUS"))>>),
              MC(<<E("dl_type", FInt(65535)), E("in_port", FText("OFPP_BOGUS"))>>)}

\* ---- actions
AD(ty, f) == [ty |-> ty, f |-> f]
AC(ad) == [kind |-> "action", doc |-> ad]
AW(ad) == [kind |-> "awire", doc |-> ad]
Typical(name) ==
  CASE name = "OFPAT_OUTPUT" -> <<E("port", FInt(2))>>
    [] name = "OFPAT_SET_VLAN_VID" -> <<E("vlan_vid", FInt(5))>>
    [] name = "OFPAT_SET_VLAN_PCP" -> <<E("vlan_pcp", FInt(3))>>
    [] name = "OFPAT_STRIP_VLAN" -> <<>>
    [] name \in {"OFPAT_SET_DL_SRC", "OFPAT_SET_DL_DST"} -> <<E("dl_addr", FMac(MacA, "lower"))>>
    [] name \in {"OFPAT_SET_NW_SRC", "OFPAT_SET_NW_DST"} -> <<E("nw_addr", FIp(IpB, 32, "plain"))>>
    [] name = "OFPAT_SET_NW_TOS" -> <<E("nw_tos", FInt(8))>>
    [] name \in {"OFPAT_SET_TP_SRC", "OFPAT_SET_TP_DST"} -> <<E("tp_port", FInt(8080))>>
    [] name = "OFPAT_ENQUEUE" -> <<E("port", FInt(1)), E("queue_id", FInt(7))>>
ModelNames == ActionNames \ {"OFPAT_VENDOR"}
ActTypical == {AC(AD(FAName(n, k), Typical(n))) : n \in ModelNames, k \in {0, 1}}
ActDefaults == {AC(AD(FAName(n, 0), <<>>)) : n \in ModelNames}
ActUnknownKey == {AC(AD(FAName(n, 0), Typical(n) \o <<E("bogus", FInt(1))>>)) : n \in ModelNames}
ActPorts == {AC(AD(FAName("OFPAT_OUTPUT", 0), <<E("port", fm)>>)) : fm \in PortForms}
            \cup {AC(AD(FAName("OFPAT_ENQUEUE", 1), <<E("port", fm), E("queue_id", FInt(0))>>)) : fm \in PortForms}
            \cup {AC(AD(FAName("OFPAT_OUTPUT", 1), <<E("max_len", FInt(ml)), E("port", fm)>>)) :
                    ml \in {0, 128, 65535, 65536}, fm \in {FText("OFPP_CONTROLLER"), FInt(65533), FInt(1), FText("OFPP_FLOOD")}}
ActAddrs == {AC(AD(FAName(n, 0), <<E("dl_addr", fm)>>)) : n \in {"OFPAT_SET_DL_SRC", "OFPAT_SET_DL_DST"}, fm \in MacForms}
            \cup {AC(AD(FAName(n, 0), <<E("nw_addr", fm)>>)) : n \in {"OFPAT_SET_NW_SRC", "OFPAT_SET_NW_DST"},
                    fm \in {FIp(IpB, 32, "plain"), FIp(IpA, 8, "cidr"), FIp(<<255, 255, 255, 255>>, 32, "plain"), FText("zz"), FNull}}
ActNums == {AC(AD(FAName("OFPAT_SET_VLAN_VID", 0), <<E("vlan_vid", FInt(n))>>)) : n \in {0, 4095, 65535, 65536}}
           \cup {AC(AD(FAName("OFPAT_SET_VLAN_PCP", 0), <<E("vlan_pcp", FInt(n))>>)) : n \in {0, 7, 255, 256}}
           \cup {AC(AD(FAName("OFPAT_SET_NW_TOS", 0), <<E("nw_tos", FInt(n))>>)) : n \in {0, 252, 256}}
           \cup {AC(AD(FAName(t, 0), <<E("tp_port", FInt(n))>>)) : t \in {"OFPAT_SET_TP_SRC", "OFPAT_SET_TP_DST"}, n \in {0, 65535, 65536}}
           \cup {AC(AD(FAName("OFPAT_ENQUEUE", 0), <<E("port", FInt(1)), E("queue_id", FInt(n))>>)) : n \in {0, 7, 2147483647}}
ActBadType == {AC(AD(FText("bogus"), <<>>)), AC(AD(FNull, <<>>)), AC(AD(FInt(0), <<E("port", FInt(1))>>)),
               AC(AD(FText("OFPAT_BOGUS"), <<E("port", FInt(1))>>))}
ActWire == {AW(AD(FAName(n, 0), Typical(n))) : n \in ModelNames}
           \cup {AW(AD(FAName("OFPAT_OUTPUT", 0), <<E("max_len", FInt(ml)), E("port", FInt(p))>>)) :
                   ml \in {0, 128}, p \in {1, 65531, 65533, 65534}}

\* ---- flows
FD(m, mnull, acts, aform, top) == [match |-> m, mnull |-> mnull, acts |-> acts, aform |-> aform, top |-> top]
FC(fd) == [kind |-> "flow", doc |-> fd]
AOut(fm) == AD(FAName("OFPAT_OUTPUT", 0), <<E("port", fm)>>)
FlowMatches == {<<>>, <<<<>>>>, <<<<E("in_port", FInt(1))>>>>, <<FullBase>>, <<<<E("in_port", FText("OFPP_LOCAL")), E("dl_type", FText("ARP"))>>>>,
                <<<<E("in_port", FText("OFPP_BOGUS"))>>>>, <<<<E("dl_type", FText("BOGUS"))>>>>, <<<<E("dl_type", FInt(65535))>>>>}
FlowActs == {<<>>, <<AOut(FInt(2))>>, <<AOut(FText("OFPP_ALL"))>>,
             <<AD(FAName("OFPAT_STRIP_VLAN", 1), <<>>), AD(FAName("OFPAT_OUTPUT", 1), <<E("max_len", FInt(100)), E("port", FText("OFPP_CONTROLLER"))>>)>>,
             <<AD(FAName("OFPAT_SET_DL_SRC", 0), <<E("dl_addr", FMac(MacA, "lower"))>>), AOut(FInt(1))>>,
             <<AD(FAName("OFPAT_SET_VLAN_VID", 0), <<E("vlan_vid", FInt(7))>>), AD(FAName("OFPAT_SET_NW_TOS", 0), <<E("nw_tos", FInt(8))>>),
               AD(FAName("OFPAT_ENQUEUE", 0), <<E("port", FInt(2)), E("queue_id", FInt(1))>>)>>,
             <<AOut(FText("OFPP_BOGUS"))>>, <<AD(FText("bogus"), <<>>)>>, <<AOut(FInt(1)), AD(FAName("OFPAT_OUTPUT", 0), <<E("bogus", FInt(1))>>)>>}
FlowTops == {<<>>, <<E("cookie", FInt(7)), E("hard_timeout", FInt(20)), E("idle_timeout", FInt(10)), E("priority", FInt(5))>>,
             <<E("priority", FInt(0))>>, <<E("priority", FInt(65535))>>, <<E("priority", FInt(65536))>>, <<E("idle_timeout", FInt(65536))>>,
             <<E("cookie", FInt(2147483647))>>, <<E("priority", FNull)>>,
             <<E("output", FInt(3))>>, <<E("output", FText("OFPP_FLOOD")), E("priority", FInt(9))>>, <<E("output", FText("OFPP_BOGUS"))>>,
             <<E("buffer_id", FInt(5)), E("command", FInt(3)), E("flags", FInt(1)), E("out_port", FInt(2)), E("zzz", FInt(1))>>}
Flows == {FC(FD(m, FALSE, a, IF a = <<>> THEN "absent" ELSE "list", t)) : m \in FlowMatches, a \in FlowActs, t \in FlowTops}
         \cup {FC(FD(<<<<>>>>, TRUE, a, "list", t)) : a \in {<<>>, <<AOut(FInt(2))>>}, t \in {<<>>, <<E("priority", FInt(5))>>}}
         \cup {FC(FD(m, FALSE, <<a>>, "single", <<>>)) : m \in {<<>>, <<FullBase>>},
                 a \in {AOut(FInt(2)), AOut(FText("OFPP_ALL")), AD(FAName("OFPAT_STRIP_VLAN", 0), <<>>), AD(FText("bogus"), <<>>)}}
FlowsQ == {c \in Flows : c.doc.match \in {<<>>, <<<<E("in_port", FInt(1))>>>>, <<FullBase>>, <<<<E("in_port", FText("OFPP_BOGUS"))>>>>}
                           \/ (c.doc.acts \in {<<>>, <<AOut(FInt(2))>>} /\ c.doc.top = <<>>)}

\* ---- packet-outs
PD(top, acts, aform, data) == [top |-> top, acts |-> acts, aform |-> aform, data |-> data]
PC(pd) == [kind |-> "po", doc |-> pd]
NoData == DData("none", 0, "", <<>>)
DataForms == {NoData, DData("text", 0, "abc", <<97, 98, 99>>), DData("list", 0, "", <<1, 2, 255>>), DData("list", 0, "", <<>>),
              DData("arp", 2, "", <<>>), DData("arp", 1, "", <<>>), DData("ethtype", 2054, "", <<>>), DData("ethtype", 5, "", <<>>),
              DData("eth", 2054, "", MacB \o MacA), DData("nested", 1, "", <<>>),
              DData("cls", 0, "arp", ArpHdr(0)), DData("cls", 0, "udp", <<0, 0, 0, 0, 0, 8, 0, 0>>),
              DData("cls", 0, "ethernet", Zeros(14)), DData("cls", 0, "ipv4", <<>>), DData("cls", 0, "Ethernet", <<>>),
              DData("cls", 0, "bogus", <<>>), DData("private", 0, "", <<>>), DData("unknownattr", 0, "", <<>>),
              DData("linkattr", 0, "", <<>>)}
PoBufs == {<<>>, <<E("buffer_id", FNull)>>, <<E("buffer_id", FInt(5))>>}
Pos == {PC(PD(b, <<>>, "absent", d)) : b \in PoBufs, d \in DataForms}
       \cup {PC(PD(b \o i \o o, a, IF a = <<>> THEN "absent" ELSE "list", NoData)) :
               b \in {<<E("buffer_id", FInt(5))>>, <<E("buffer_id", FNull)>>},
               i \in {<<>>, <<E("in_port", FText("OFPP_LOCAL"))>>, <<E("in_port", FInt(3))>>, <<E("in_port", FText("OFPP_BOGUS"))>>, <<E("in_port", FNull)>>},
               o \in {<<>>, <<E("output", FText("OFPP_FLOOD"))>>, <<E("output", FInt(2))>>, <<E("output", FText("OFPP_BOGUS"))>>},
               a \in {<<>>, <<AOut(FInt(1))>>, <<AD(FAName("OFPAT_SET_DL_DST", 1), <<E("dl_addr", FMac(MacB, "upper"))>>), AOut(FText("OFPP_TABLE"))>>,
                      <<AD(FText("bogus"), <<>>)>>}}
       \cup {PC(PD(<<E("buffer_id", FNull)>>, <<AOut(FInt(1))>>, "list", d)) : d \in DataForms}
       \cup {PC(PD(<<>>, <<>>, "list", NoData))}

\* ---- fix_parsed
FX(d, types, n) == [kind |-> "fix", doc |-> [d |-> d, types |-> types, n |-> n]]
Fixes == {FX("none", <<"raw">>, 0), FX("arp", <<"ethernet", "arp", "raw">>, 18), FX("udp", <<"ethernet", "ipv4", "udp", "raw">>, 5),
          FX("short", <<"raw">>, 10), FX("lldpish", <<"ethernet", "raw">>, 46)}

MCCasesQ == MatchSinglesEmpty \cup MatchSinglesFull \cup MatchGrid \cup MatchMisc
            \cup ActTypical \cup ActDefaults \cup ActUnknownKey \cup ActPorts \cup ActAddrs \cup ActNums \cup ActBadType \cup ActWire
            \cup FlowsQ \cup Pos \cup Fixes
MCCasesT == MCCasesQ \cup Flows
MCXids == {1, 2147483647}
MCXid1 == {77}
=============================================================================
