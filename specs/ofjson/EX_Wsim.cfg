CONSTANTS Strict = FALSE
  FlowPool <- MCFlowPool
  FlowLists <- ListsSim
  StatDocs <- MCStatDocs
  Slots <- S2
  Ports <- P12
  MaxEntries = 3
  MaxCalls = 6
  MaxPkts = 4
  MaxNow = 40
  D = 40
INIT Init
NEXT Next
INVARIANT Export
CHECK_DEADLOCK FALSE
