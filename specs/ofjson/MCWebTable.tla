----------------------------- MODULE MCWebTable -----------------------------
EXTENDS WebTable
E(k, fm) == [k |-> k, fm |-> fm]
AD(ty, f) == [ty |-> ty, f |-> f]
FD(m, acts, aform, top) == [match |-> m, mnull |-> FALSE, acts |-> acts, aform |-> aform, top |-> top]
AOut(fm) == AD(FAName("OFPAT_OUTPUT", 1), <<E("port", fm)>>)
MacA == <<0, 17, 34, 51, 68, 85>>
FullBase == <<E("dl_dst", FMac(<<255, 255, 255, 255, 255, 255>>, "upper")), E("dl_src", FMac(MacA, "dash")), E("dl_type", FText("IP")),
              E("dl_vlan", FInt(5)), E("dl_vlan_pcp", FInt(3)), E("in_port", FInt(3)), E("nw_dst", FIp(<<192, 168, 1, 77>>, 32, "plain")),
              E("nw_proto", FText("TCP")), E("nw_src", FIp(<<10, 0, 0, 0>>, 8, "mask")), E("nw_tos", FInt(4)), E("tp_dst", FText("http")),
              E("tp_src", FInt(1024))>>
MCFlowPool ==
  [F1 |-> FD(<<<<E("in_port", FInt(1))>>>>, <<AOut(FInt(2))>>, "list", <<>>),
   F2 |-> FD(<<<<E("in_port", FInt(2))>>>>, <<AD(FAName("OFPAT_SET_VLAN_VID", 0), <<E("vlan_vid", FInt(7))>>), AOut(FText("OFPP_FLOOD"))>>, "list",
             <<E("cookie", FInt(9)), E("hard_timeout", FInt(20)), E("idle_timeout", FInt(10)), E("priority", FInt(7))>>),
   F3 |-> FD(<<<<>>>>, <<>>, "absent", <<E("priority", FInt(1))>>),
   F4 |-> FD(<<FullBase>>, <<AD(FAName("OFPAT_STRIP_VLAN", 1), <<>>), AD(FAName("OFPAT_OUTPUT", 0), <<E("max_len", FInt(100)), E("port", FText("OFPP_CONTROLLER"))>>)>>,
             "list", <<E("priority", FInt(65535))>>),
   F5 |-> FD(<<<<E("in_port", FInt(1))>>>>, <<AOut(FInt(3))>>, "single", <<>>),
   F6 |-> FD(<<<<E("dl_type", FHex(34997, "0x")), E("tp_dst", FInt(80)), E("nw_src", FIp(<<10, 1, 0, 0>>, 16, "cidr"))>>>>,
             <<AD(FAName("OFPAT_ENQUEUE", 1), <<E("port", FInt(2)), E("queue_id", FInt(1))>>)>>, "list", <<E("priority", FInt(9))>>),
   F7 |-> FD(<<>>, <<AOut(FText("OFPP_CONTROLLER"))>>, "list", <<E("priority", FInt(3)), E("command", FInt(3)), E("zzz", FInt(1))>>),
   B1 |-> FD(<<<<E("in_port", FInt(3))>>>>, <<>>, "absent", <<E("output", FInt(3))>>),
   B2 |-> FD(<<>>, <<AD(FText("bogus"), <<>>)>>, "list", <<>>),
   B3 |-> FD(<<<<E("in_port", FInt(3))>>>>, <<AD(FAName("OFPAT_SET_DL_SRC", 0), <<E("dl_addr", FMac(MacA, "lower"))>>), AOut(FInt(1))>>, "list", <<>>)]
MCStatDocs == [none |-> [has |-> FALSE, doc |-> <<>>], all |-> [has |-> TRUE, doc |-> <<>>],
               p1 |-> [has |-> TRUE, doc |-> <<E("in_port", FInt(1))>>],
               bad |-> [has |-> TRUE, doc |-> <<E("dl_type", FText("BOGUS"))>>]]
StatDocsS == [none |-> [has |-> FALSE, doc |-> <<>>], p1 |-> [has |-> TRUE, doc |-> <<E("in_port", FInt(1))>>]]
ListsA == {<<>>, <<"F1">>, <<"F1", "F2", "F3">>, <<"F1", "F5">>, <<"F6", "F4">>, <<"F1", "B1", "F3">>, <<"B2">>, <<"F7", "B3">>}
ListsQ == {<<>>, <<"F1", "F2", "F3">>, <<"F1", "F5">>, <<"F6", "F4">>, <<"F1", "B1", "F3">>, <<"F7", "B3">>}
StatDocsQ == [none |-> [has |-> FALSE, doc |-> <<>>], p1 |-> [has |-> TRUE, doc |-> <<E("in_port", FInt(1))>>],
              bad |-> [has |-> TRUE, doc |-> <<E("dl_type", FText("BOGUS"))>>]]
ListsFull == {<<"F1", "F2", "F3", "F6">>, <<"F1", "F5", "F2", "F3">>, <<"F3", "F7">>}
ListsC == {<<"F1", "F3">>, <<"F2">>, <<"F1", "B1">>}
ListsSim == ListsA \cup ListsFull
ListsB == {<<"F1", "F2", "F3">>, <<"F6", "F4">>}
S1 == {1}
S2 == {1, 2}
P12 == {1, 2}
P1 == {1}
=============================================================================
