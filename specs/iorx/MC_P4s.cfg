CONSTANTS N = 4
  MaxD = 8
  PDelay = 2
  Kinds <- BothKinds
  Strict = TRUE
  KeepHist = "no"
  D = 0
INIT Init
NEXT Next
VIEW viewE
INVARIANT TypeOK
INVARIANT OneAtATime
INVARIANT CloseOnce
INVARIANT ConnectOnce
INVARIANT MemberOK
INVARIANT CloseTogether
INVARIANT NoDeviation
INVARIANT BackoffBound
INVARIANT PersistConst
PROPERTY Succession
PROPERTY NotEarly
PROPERTY BackoffReset
PROPERTY Stopped
CHECK_DEADLOCK FALSE
