-------------------------------- MODULE IoRx --------------------------------
(* X13: pox.lib.ioworker - RecocoIOLoop with its workers: the RECEIVE path,  *)
(* close / worker-set bookkeeping, the accept path of workers.TCPServerWorker.*)
(* (The SEND path - slicing, short writes, shutdown(send) - is C20's         *)
(* specs/sendpath/Worker.tla; here the send buffer is only a byte COUNT, as  *)
(* much as is needed for "who is selected for writing".)                     *)
(*                                                                          *)
(* Shape of the implementation, kept here:                                  *)
(*   RecocoIOLoop.run is one cooperative task.  One slice of it is           *)
(*     [select returns] -> pongAll -> for w in elist: _do_exception          *)
(*                      -> for w in rlist: _do_recv (contained per worker)   *)
(*                      -> for w in wlist: _do_send                          *)
(*                      -> top of loop: running?  pending commands,          *)
(*                         compute the three select lists -> yield Select    *)
(*   = SelectReturn/Wake/SelectTimeout ; ServeExc* ; ServeRecv* ; ServeSend* *)
(*     ; LoopTop.  Everybody else (clients, the network) acts only while the *)
(*   loop is parked in Select (phase "select").  What a client's rx handler  *)
(*   does when it is called (consume, close itself, close ANOTHER worker,    *)
(*   reply, raise) is the environment's choice, an argument of ServeRecv.     *)
(*   Worker.close() does not touch the worker set: it queues a command that  *)
(*   the loop executes at its next LoopTop (`pend`), and pings the loop.     *)
(*                                                                          *)
(* Sockets are scripted: inq = bytes queued in the socket, eof = peer closed,*)
(* serr = error the next recv()/accept() raises.  recv on a socket whose     *)
(* receiving side was shut down returns what is still queued, then b""       *)
(* (Linux TCP and AF_UNIX behaviour, tried in the sandbox).                  *)
(*                                                                          *)
(* Named deviations from the intended design (turned off by Strict = TRUE):  *)
(*   RecvAfterClose  - _do_recv does not look at `closed`: a worker that was *)
(*                     closed earlier in the SAME round (by another worker's *)
(*                     handler, or by _do_exception... ) still gets its      *)
(*                     queued bytes pushed to its rx handler AFTER its close *)
(*                     handler ran.                                          *)
(*   AskPortBroken   - TCPServerWorkerBase.local_port/local_ip raise         *)
(*                     NameError (`s` is not defined).                       *)
EXTENDS Naturals, Sequences, FiniteSets, TLC, Json, SequencesExt

CONSTANTS N,          \* worker slots (instances ever created in one behaviour)
          MaxBytes,   \* bytes that may arrive on one socket
          Lens,       \* chunk lengths of one arrival
          BufSize,    \* RecocoIOLoop._BUF_SIZE
          MaxSend,    \* bound of the send buffer (bytes)
          Ops,        \* what an rx handler may do: subset of AllOps
          SendOuts,   \* what socket.send may do: subset of {"full","part","eagain","fatal"}
          Errs,       \* errors the environment may plant: subset of {"reset","enoent","again"}
          Creates,    \* constructor variants: subset of [conn : BOOLEAN] (conn = the worker starts "connecting")
          BufApi,     \* BOOLEAN: clients use consume_receive_buf / read / peek outside handlers
          WithServer, \* BOOLEAN: the TCPServerWorker accept path is part of the model
          MaxX,       \* at most this many workers are reported in select's exception list at once
          MaxRounds,  \* bound on select returns (keeps the model finite where nothing else does); 0 = no bound
          Strict,     \* TRUE = intended design (deviations off)
          KeepHist, D

AllOps == {"keep", "c1", "call", "close", "co", "reply", "raise"}
W == 1..N

NoW == [kind |-> "none", conn |-> FALSE, closed |-> FALSE, nclose |-> 0, sclosed |-> 0,
        shutrd |-> 0, rbuf |-> <<>>, sbuf |-> 0, inq |-> <<>>, eof |-> FALSE, serr |-> "none",
        narr |-> 0, npush |-> 0, nrx |-> 0, acceptq |-> 0, nconn |-> 0]

VARIABLES wk,        \* [W -> worker record]: the worker object + its scripted socket + ghost counters
          members,   \* RecocoIOLoop._workers
          pend,      \* RecocoIOLoop._pending_commands: <<[k |-> "add"|"close", w |-> worker]>>
          pinged,    \* the loop's pinger has unread bytes
          phase,     \* "top" | "select" | "serve" | "dead"
          running,   \* RecocoIOLoop.running
          sel,       \* [r, w, x]: the three sets handed to Select at the last LoopTop
          xq, rq, wq,\* what is left of elist / rlist / wlist in this round
          rounds,
          last, hist
mvars == <<wk, members, pend, pinged>>
lvars == <<phase, running, sel, xq, rq, wq, rounds>>
vars == <<mvars, lvars, last, hist>>
view == <<mvars, lvars>>
viewE == <<mvars, lvars>>

Lesser(a, b) == IF a < b THEN a ELSE b
Rng(s) == {s[i] : i \in DOMAIN s}

Exists == {w \in W : wk[w].kind # "none"}
FreeSlots == W \ Exists
MinOf(S) == CHOOSE x \in S : \A y \in S : x <= y
\* connections waiting in the backlog of listening sockets: each will need a slot
Backlog == LET F[S \in SUBSET W] == IF S = {} THEN 0 ELSE LET x == CHOOSE y \in S : TRUE IN wk[x].acceptq + F[S \ {x}]
           IN F[W]
\* the k-th byte ever queued on w's socket
Byte(w, k) == 10 * w + k
Stream(w, a, b) == [i \in 1..(b - a + 1) |-> Byte(w, a + i - 1)]

----------------------------------------------------------------------------
(* The machine = what the code's methods read and write.                   *)
Cur == [wk |-> wk, members |-> members, pend |-> pend, pinged |-> pinged]
Set(m) == /\ wk' = m.wk /\ members' = m.members /\ pend' = m.pend /\ pinged' = m.pinged

\* what an observer (harness) can see of a worker / of the loop
ObsW(r, mem) == [kind |-> r.kind, conn |-> r.conn, closed |-> r.closed, nclose |-> r.nclose,
                 sclosed |-> r.sclosed, shutrd |-> r.shutrd, rbuf |-> r.rbuf, sbuf |-> r.sbuf,
                 inq |-> r.inq, nrx |-> r.nrx, nconn |-> r.nconn, member |-> mem,
                 \* what the close handler found when it ran: the socket not yet shut down / closed
                 hsaw |-> IF r.nclose > 0 THEN "open" ELSE "-"]
Obs(m, ret) == [ws |-> [w \in W |-> ObsW(m.wk[w], w \in m.members)], npend |-> Len(m.pend),
                pinged |-> m.pinged, ret |-> ret]
NoRet == [x |-> 0]

\* `last` is the small part of the observation that properties talk about; the full observation goes to `hist`
\* (KeepHist: "no" | "all" = export | "last" = trace validation keeps only the newest entry)
Log(a, args, m, ret) ==
  LET e == [a |-> a, args |-> args, exp |-> Obs(m, ret)] IN
  /\ last' = [a |-> a, w |-> (IF "w" \in DOMAIN args THEN args.w ELSE 0),
              t |-> (IF "t" \in DOMAIN args THEN args.t ELSE 0),
              res |-> (IF "res" \in DOMAIN ret THEN ret.res ELSE "-")]
  /\ hist' = CASE KeepHist = "all" -> Append(hist, e) [] KeepHist = "last" -> <<e>> [] OTHER -> hist

\* RecocoIOWorker.close(): once; close handler (not for a server: its _handle_close is overridden to do
\* nothing); shutdown(SHUT_RD); on_close queues the real close for the loop and pings it
CloseW(m, w) ==
  IF m.wk[w].closed THEN m
  ELSE [m EXCEPT !.wk[w].closed = TRUE,
                 !.wk[w].nclose = IF m.wk[w].kind = "server" THEN @ ELSE @ + 1,
                 !.wk[w].shutrd = @ + 1,
                 !.pend = Append(@, [k |-> "close", w |-> w]),
                 !.pinged = TRUE]
Discard(m, w) == [m EXCEPT !.members = @ \ {w}]
CloseDiscard(m, w) == Discard(CloseW(m, w), w)

\* what socket.recv does next on w's (scripted) socket
Rcv(r) == IF r.sclosed > 0 THEN "reset"
          ELSE IF r.serr # "none" THEN r.serr
          ELSE IF r.inq # <<>> THEN "data"
          ELSE IF r.eof \/ r.shutrd > 0 THEN "eof"
          ELSE "again"

\* IOWorker._try_connect: recv(1, MSG_PEEK); EAGAIN or success = connected -> connect handler
TryConnect(m, w) ==
  LET o == Rcv(m.wk[w])
      m1 == [m EXCEPT !.wk[w].conn = FALSE, !.wk[w].serr = "none"] IN
  IF o \in {"reset", "enoent"}
  THEN [m |-> CloseDiscard(m1, w), stop |-> TRUE]
  ELSE [m |-> [m1 EXCEPT !.wk[w].nconn = @ + 1], stop |-> FALSE]

\* the client's rx handler, called once for this arrival
Handler(m, w, op) ==
  LET r == m.wk[w] IN
  CASE op.h = "c1"    -> [m EXCEPT !.wk[w].rbuf = Tail(r.rbuf)]
    [] op.h = "call"  -> [m EXCEPT !.wk[w].rbuf = <<>>]
    [] op.h = "close" -> CloseW(m, w)
    [] op.h = "co"    -> CloseW(m, op.t)
    [] op.h = "reply" -> [m EXCEPT !.wk[w].sbuf = @ + 1, !.pinged = TRUE]
    [] OTHER          -> m        \* "keep", "raise"

\* IOWorker._push_receive_data: append, then the rx handler - exactly once per arrival
Push(m, w, op) ==
  LET r == m.wk[w]
      n == Lesser(BufSize, Len(r.inq))
      data == SubSeq(r.inq, 1, n)
      m1 == [m EXCEPT !.wk[w].inq = SubSeq(r.inq, n + 1, Len(r.inq)),
                      !.wk[w].rbuf = r.rbuf \o data,
                      !.wk[w].npush = r.npush + n,
                      !.wk[w].nrx = r.nrx + 1]
      m2 == Handler(m1, w, op) IN
  \* a handler that raises: the loop contains it - THIS worker is closed and removed, the loop goes on
  IF op.h = "raise" THEN [m |-> CloseDiscard(m2, w), res |-> "raised", saw |-> m1.wk[w].rbuf]
  ELSE [m |-> m2, res |-> "data", saw |-> m1.wk[w].rbuf]

\* IOWorker._do_recv
DoRecv(m, w, op) ==
  LET tc == IF m.wk[w].conn THEN TryConnect(m, w) ELSE [m |-> m, stop |-> FALSE] IN
  IF tc.stop THEN [m |-> tc.m, res |-> "connfail", saw |-> <<>>]
  ELSE LET o == Rcv(tc.m.wk[w])
           m2 == [tc.m EXCEPT !.wk[w].serr = "none"] IN
       CASE o = "data"   -> Push(m2, w, op)
         [] o = "eof"    -> [m |-> CloseDiscard(m2, w), res |-> "eof", saw |-> <<>>]      \* end of stream closes the worker
         [] o = "enoent" -> [m |-> m2, res |-> "enoent", saw |-> <<>>]                    \* "SSL library does this sometimes"
         [] OTHER        -> [m |-> CloseDiscard(m2, w), res |-> "err", saw |-> <<>>]      \* any other error (EAGAIN too)

\* TCPServerWorkerBase._do_recv: accept one connection; TCPServerWorker._do_accept: loop.new_worker(child).
\* accept() failing is an exception like any other in the read loop: the SERVER worker is closed and removed.
DoAccept(m, s) ==
  LET r == m.wk[s] IN
  IF r.serr # "none" \/ r.acceptq = 0 \/ r.shutrd > 0 \/ r.sclosed > 0
  THEN [m |-> CloseDiscard([m EXCEPT !.wk[s].serr = "none"], s), res |-> "accepterr", saw |-> <<>>]
  ELSE LET c == MinOf({w \in W : m.wk[w].kind = "none"}) IN
       [m |-> [m EXCEPT !.wk[s].acceptq = @ - 1,
                        !.wk[c] = [NoW EXCEPT !.kind = "plain"],
                        !.pend = Append(@, [k |-> "add", w |-> c]),
                        !.pinged = TRUE],
        res |-> "accepted", saw |-> <<c>>]

\* IOWorker._do_send (byte count only; see Worker.tla for the bytes)
DoSend(m, w, o) ==
  LET tc == IF m.wk[w].conn THEN TryConnect(m, w) ELSE [m |-> m, stop |-> FALSE] IN
  IF tc.stop THEN [m |-> tc.m, res |-> "connfail"]
  ELSE LET m1 == tc.m IN
       IF m1.wk[w].sbuf = 0 THEN [m |-> m1, res |-> "idle"]
       ELSE CASE o = "full"   -> [m |-> [m1 EXCEPT !.wk[w].sbuf = 0], res |-> o]
              [] o = "part"   -> [m |-> [m1 EXCEPT !.wk[w].sbuf = @ - 1], res |-> o]
              [] o = "eagain" -> [m |-> m1, res |-> o]
              [] OTHER        -> [m |-> CloseDiscard(m1, w), res |-> "fatal"]

\* the pending commands, in order (top of the loop)
RECURSIVE RunPend(_, _)
RunPend(m, cmds) ==
  IF cmds = <<>> THEN [m EXCEPT !.pend = <<>>]
  ELSE LET c == Head(cmds) IN
       RunPend(IF c.k = "add" THEN [m EXCEPT !.members = @ \cup {c.w}]
               ELSE [m EXCEPT !.wk[c.w].sclosed = @ + 1, !.members = @ \ {c.w}],
               Tail(cmds))

----------------------------------------------------------------------------
NoSel == [r |-> {}, w |-> {}, x |-> {}]
Init == /\ wk = [w \in W |-> NoW] /\ members = {} /\ pend = <<>> /\ pinged = FALSE
        /\ phase = "top" /\ running = TRUE /\ sel = NoSel
        /\ xq = <<>> /\ rq = <<>> /\ wq = <<>> /\ rounds = 0
        /\ last = [a |-> "Init", w |-> 0, t |-> 0, res |-> "-"] /\ hist = <<>>

Parked == phase \in {"select", "dead"}       \* the loop task is not running: others may act

(* ---- clients and the network (only while the loop is parked) ---- *)

\* loop.new_worker(sock): the worker exists at once, joins the set at the loop's next LoopTop
NewWorker(c) ==
  /\ Parked /\ c \in Creates /\ Cardinality(FreeSlots) > Backlog
  /\ LET w == MinOf(FreeSlots)
         m == [Cur EXCEPT !.wk[w] = [NoW EXCEPT !.kind = "plain", !.conn = c.conn],
                          !.pend = Append(@, [k |-> "add", w |-> w]), !.pinged = TRUE] IN
     Set(m) /\ Log("NewWorker", [conn |-> c.conn], m, [w |-> w])
  /\ UNCHANGED lvars

\* loop.new_worker(_worker_type = RecocoServerWorker, child_worker_type = ...): bind, listen, register
NewServer ==
  /\ Parked /\ WithServer /\ Cardinality(FreeSlots) > Backlog
  /\ \A w \in W : wk[w].kind # "server"          \* one listening worker is enough
  /\ LET w == MinOf(FreeSlots)
         m == [Cur EXCEPT !.wk[w] = [NoW EXCEPT !.kind = "server"],
                          !.pend = Append(@, [k |-> "add", w |-> w]), !.pinged = TRUE] IN
     Set(m) /\ Log("NewServer", NoRet, m, [w |-> w, listening |-> TRUE])
  /\ UNCHANGED lvars

\* a connection request reaches the listening socket
Incoming(s) ==
  /\ Parked /\ wk[s].kind = "server" /\ wk[s].sclosed = 0 /\ wk[s].shutrd = 0
  /\ Cardinality(FreeSlots) > Backlog
  /\ LET m == [Cur EXCEPT !.wk[s].acceptq = @ + 1] IN Set(m) /\ Log("Incoming", [w |-> s], m, NoRet)
  /\ UNCHANGED lvars

\* bytes reach w's socket
Arrive(w, n) ==
  /\ Parked /\ wk[w].kind = "plain" /\ ~wk[w].eof /\ wk[w].sclosed = 0 /\ n \in Lens
  /\ wk[w].narr + n <= MaxBytes
  /\ LET m == [Cur EXCEPT !.wk[w].inq = @ \o Stream(w, wk[w].narr + 1, wk[w].narr + n),
                          !.wk[w].narr = @ + n] IN
     Set(m) /\ Log("Arrive", [w |-> w, n |-> n], m, NoRet)
  /\ UNCHANGED lvars

PeerClose(w) ==
  /\ Parked /\ wk[w].kind = "plain" /\ ~wk[w].eof /\ wk[w].sclosed = 0
  /\ LET m == [Cur EXCEPT !.wk[w].eof = TRUE] IN Set(m) /\ Log("PeerClose", [w |-> w], m, NoRet)
  /\ UNCHANGED lvars

SockErr(w, e) ==
  /\ Parked /\ wk[w].kind \in {"plain", "server"} /\ wk[w].serr = "none" /\ wk[w].sclosed = 0 /\ e \in Errs
  /\ LET m == [Cur EXCEPT !.wk[w].serr = e] IN Set(m) /\ Log("SockErr", [w |-> w, e |-> e], m, NoRet)
  /\ UNCHANGED lvars

\* worker.send(one byte): fire and forget - buffered, the loop is pinged
Send(w) ==
  /\ Parked /\ wk[w].kind = "plain" /\ wk[w].sbuf < MaxSend
  /\ LET m == [Cur EXCEPT !.wk[w].sbuf = @ + 1, !.pinged = TRUE] IN Set(m) /\ Log("Send", [w |-> w], m, NoRet)
  /\ UNCHANGED lvars

\* worker.close() from outside the loop
Close(w) ==
  /\ Parked /\ wk[w].kind # "none"
  /\ LET m == CloseW(Cur, w) IN Set(m) /\ Log("Close", [w |-> w], m, NoRet)
  /\ UNCHANGED lvars

\* consume_receive_buf(n): removes exactly the first n bytes; more than there is = RuntimeError, nothing removed
Consume(w, n) ==
  /\ Parked /\ BufApi /\ wk[w].kind = "plain" /\ n \in {0, 1, Len(wk[w].rbuf), Len(wk[w].rbuf) + 1}
  /\ LET r == wk[w] IN
     IF n > Len(r.rbuf)
     THEN Set(Cur) /\ Log("Consume", [w |-> w, n |-> n], Cur, [r |-> "underrun"])
     ELSE LET m == [Cur EXCEPT !.wk[w].rbuf = SubSeq(r.rbuf, n + 1, Len(r.rbuf))] IN
          Set(m) /\ Log("Consume", [w |-> w, n |-> n], m, [r |-> "ok"])
  /\ UNCHANGED lvars

\* read(n): up to n bytes, removed;  peek(n): up to n bytes, not removed
Read(w, n) ==
  /\ Parked /\ BufApi /\ wk[w].kind = "plain" /\ wk[w].rbuf # <<>> /\ n \in {1, Len(wk[w].rbuf) + 1}
  /\ LET r == wk[w]
         k == Lesser(n, Len(r.rbuf))
         m == [Cur EXCEPT !.wk[w].rbuf = SubSeq(r.rbuf, k + 1, Len(r.rbuf))] IN
     Set(m) /\ Log("Read", [w |-> w, n |-> n], m, [got |-> SubSeq(r.rbuf, 1, k)])
  /\ UNCHANGED lvars

Peek(w, n) ==
  /\ Parked /\ BufApi /\ wk[w].kind = "plain" /\ wk[w].rbuf # <<>> /\ n \in {1, Len(wk[w].rbuf) + 1}
  /\ Set(Cur) /\ Log("Peek", [w |-> w, n |-> n], Cur, [got |-> SubSeq(wk[w].rbuf, 1, Lesser(n, Len(wk[w].rbuf)))])
  /\ UNCHANGED lvars

\* loop.stop()
Stop ==
  /\ phase = "select" /\ running
  /\ running' = FALSE
  /\ LET m == [Cur EXCEPT !.pinged = TRUE] IN Set(m) /\ Log("Stop", NoRet, m, NoRet)
  /\ UNCHANGED <<phase, sel, xq, rq, wq, rounds>>

\* server.local_port: the documented intent is the bound port ...
AskPort(s) ==
  /\ Parked /\ Strict /\ wk[s].kind = "server"
  /\ Set(Cur) /\ Log("AskPort", [w |-> s], Cur, [r |-> "port"]) /\ UNCHANGED lvars
\* ... DEVIATION: the property body refers to an undefined name
AskPortBroken(s) ==
  /\ Parked /\ ~Strict /\ wk[s].kind = "server"
  /\ Set(Cur) /\ Log("AskPort", [w |-> s], Cur, [r |-> "NameError"]) /\ UNCHANGED lvars

(* ---- the loop ---- *)

Readable(r) == r.inq # <<>> \/ r.eof \/ r.serr # "none" \/ r.acceptq > 0 \/ r.shutrd > 0

\* what the rx handler of w may do when it is called now (the environment's choice, made when the handler runs;
\* the replay harness is told the choices of a whole round in advance - see props/X13.py inject_plans)
OpsFor(w) == {p \in [h : Ops, t : 0..N] : /\ ((p.h = "co") <=> (p.t # 0))
                                           /\ ((p.t # 0) => (p.t # w /\ p.t \in Exists))
                                           /\ ((p.h = "reply") => (wk[w].sbuf < MaxSend))}
KeepOp == [h |-> "keep", t |-> 0]

\* select() returns some of what was asked for (the pinger too if it was pinged)
NoDup(q) == Len(q) = Cardinality(Rng(q))
SelectReturn(xs, rs, ws) ==
  /\ phase = "select"
  /\ MaxRounds = 0 \/ rounds < MaxRounds
  /\ xs # <<>> \/ rs # <<>> \/ ws # <<>>
  /\ NoDup(xs) /\ NoDup(rs) /\ NoDup(ws) /\ Len(xs) <= MaxX
  /\ Rng(xs) \subseteq sel.x /\ Rng(ws) \subseteq sel.w
  /\ Rng(rs) \subseteq {w \in sel.r : Readable(wk[w])}
  /\ phase' = "serve" /\ xq' = xs /\ rq' = rs /\ wq' = ws /\ rounds' = (IF MaxRounds = 0 THEN 0 ELSE rounds + 1)
  /\ LET m == [Cur EXCEPT !.pinged = FALSE] IN
     Set(m) /\ Log("SelectReturn", [x |-> xs, r |-> rs, w |-> ws], m, NoRet)
  /\ sel' = NoSel /\ UNCHANGED running
SelectReturns ==
  \E X \in SUBSET sel.x, R \in SUBSET {w \in sel.r : Readable(wk[w])}, Wr \in SUBSET sel.w :
    \* (the order inside elist makes no difference to anybody: ascending)
    /\ Cardinality(X) <= MaxX
    /\ \E rs \in SetToSeqs(R), ws \in SetToSeqs(Wr) : SelectReturn(SetToSortSeq(X, <), rs, ws)

\* only the pinger was readable
Wake ==
  /\ phase = "select" /\ pinged
  /\ phase' = "top"
  /\ LET m == [Cur EXCEPT !.pinged = FALSE] IN Set(m) /\ Log("Wake", NoRet, m, NoRet)
  /\ sel' = NoSel /\ UNCHANGED <<running, xq, rq, wq, rounds>>

\* nothing happened for _select_timeout seconds
SelectTimeout ==
  /\ phase = "select" /\ ~pinged
  /\ MaxRounds = 0 \/ rounds < MaxRounds
  /\ phase' = "top" /\ rounds' = (IF MaxRounds = 0 THEN 0 ELSE rounds + 1)
  /\ Set(Cur) /\ Log("SelectTimeout", NoRet, Cur, NoRet)
  /\ sel' = NoSel /\ UNCHANGED <<running, xq, rq, wq>>

\* for worker in elist: worker._do_exception(loop); taken out of rlist and wlist
ServeExc(w) ==
  /\ phase = "serve" /\ xq # <<>> /\ w = Head(xq)
  /\ xq' = Tail(xq) /\ rq' = Remove(rq, w) /\ wq' = Remove(wq, w)
  /\ LET m == CloseDiscard(Cur, w) IN Set(m) /\ Log("ServeExc", [w |-> w], m, NoRet)
  /\ UNCHANGED <<phase, running, sel, rounds>>

\* a worker that is already closed still has bytes queued in its socket, and _do_recv would deliver them
LateData(w) == wk[w].kind = "plain" /\ wk[w].closed /\ DoRecv(Cur, w, KeepOp).res = "data"

RecvStep(w, op) ==
  /\ phase = "serve" /\ xq = <<>> /\ rq # <<>> /\ w = Head(rq)
  /\ rq' = Tail(rq)
  /\ op \in (IF wk[w].kind = "plain" THEN OpsFor(w) ELSE {KeepOp})
  /\ LET d == IF wk[w].kind = "server" THEN DoAccept(Cur, w) ELSE DoRecv(Cur, w, op) IN
     \* an op that was not used (no data was delivered) is not a different step
     /\ (d.res \notin {"data", "raised"} => op = KeepOp)
     /\ Set(d.m) /\ Log("ServeRecv", [w |-> w, h |-> op.h, t |-> op.t], d.m, [res |-> d.res, saw |-> d.saw])
  /\ UNCHANGED <<phase, running, sel, xq, wq, rounds>>

\* for worker in rlist: worker._do_recv(loop)
ServeRecv(w, op) == ~LateData(w) /\ RecvStep(w, op)
\* DEVIATION (as built): bytes are handed to the rx handler of a worker whose close handler already ran
RecvAfterClose(w, op) == LateData(w) /\ ~Strict /\ RecvStep(w, op)
\* intended: a closed worker is passed over
SkipClosed(w) ==
  /\ LateData(w) /\ Strict
  /\ phase = "serve" /\ xq = <<>> /\ rq # <<>> /\ w = Head(rq)
  /\ rq' = Tail(rq)
  /\ LET m == Discard(Cur, w) IN Set(m) /\ Log("ServeRecv", [w |-> w, h |-> "keep", t |-> 0], m, [res |-> "skipped", saw |-> <<>>])
  /\ UNCHANGED <<phase, running, sel, xq, wq, rounds>>

\* for worker in wlist: worker._do_send(loop)
ServeSend(w, o) ==
  /\ phase = "serve" /\ xq = <<>> /\ rq = <<>> /\ wq # <<>> /\ w = Head(wq)
  /\ wq' = Tail(wq) /\ o \in SendOuts
  /\ LET d == DoSend(Cur, w, o) IN
     /\ (d.res \in {"idle", "connfail"} => o = "full")       \* the socket was not asked: not a different step
     /\ Set(d.m) /\ Log("ServeSend", [w |-> w, o |-> o], d.m, [res |-> d.res])
  /\ UNCHANGED <<phase, running, sel, xq, rq, rounds>>

RoundDone == phase = "serve" /\ xq = <<>> /\ rq = <<>> /\ wq = <<>>

\* top of the loop: leave if stopped; else pending commands, then the select lists
LoopTop ==
  /\ phase = "top" \/ RoundDone
  /\ running
  /\ LET m == RunPend(Cur, pend)
         s == [r |-> m.members,
               w |-> {w \in m.members : m.wk[w].sbuf > 0 \/ m.wk[w].conn},
               x |-> m.members] IN
     /\ Set(m) /\ sel' = s /\ phase' = "select"
     /\ Log("LoopTop", NoRet, m, [alive |-> TRUE,
                                  rd |-> SetToSortSeq(s.r, <), wr |-> SetToSortSeq(s.w, <), ex |-> SetToSortSeq(s.x, <)])
  /\ UNCHANGED <<running, xq, rq, wq, rounds>>
\* ... stopped: the task ends; commands still pending are never executed
LoopExit ==
  /\ phase = "top" \/ RoundDone
  /\ ~running
  /\ phase' = "dead" /\ Set(Cur)
  /\ Log("LoopTop", NoRet, Cur, [alive |-> FALSE, rd |-> <<>>, wr |-> <<>>, ex |-> <<>>])
  /\ UNCHANGED <<running, sel, xq, rq, wq, rounds>>

ServeRecvs == \E w \in W, op \in [h : Ops \cup {"keep"}, t : 0..N] : ServeRecv(w, op)
RecvAfterCloses == \E w \in W, op \in [h : Ops \cup {"keep"}, t : 0..N] : RecvAfterClose(w, op)
ServeSends == \E w \in W, o \in SendOuts \cup {"full"} : ServeSend(w, o)
Client == \/ \E c \in Creates : NewWorker(c)
          \/ NewServer
          \/ \E w \in W : Incoming(w) \/ PeerClose(w) \/ Send(w) \/ Close(w) \/ AskPort(w) \/ AskPortBroken(w)
          \/ \E w \in W, n \in Lens : Arrive(w, n)
          \/ \E w \in W, e \in Errs : SockErr(w, e)
          \/ \E w \in W, n \in 0..(MaxBytes + 1) : Consume(w, n) \/ Read(w, n) \/ Peek(w, n)
          \/ Stop
Loop == \/ SelectReturns \/ Wake \/ SelectTimeout
        \/ \E w \in W : ServeExc(w) \/ SkipClosed(w)
        \/ ServeRecvs \/ RecvAfterCloses \/ ServeSends
        \/ LoopTop \/ LoopExit
Next == Client \/ Loop
Spec == Init /\ [][Next]_vars

----------------------------------------------------------------------------
(* Properties, over the real variables.                                     *)

TypeOK == /\ members \subseteq W /\ phase \in {"top", "select", "serve", "dead"}
          /\ \A w \in W : wk[w].kind \in {"none", "plain", "server"} /\ wk[w].sbuf \in 0..MaxSend

\* bytes are taken from the socket in order, nothing lost, nothing twice: what is still queued in the socket is
\* exactly what arrived after the last byte pushed
InOrder == \A w \in W : wk[w].npush <= wk[w].narr /\ wk[w].inq = Stream(w, wk[w].npush + 1, wk[w].narr)
\* receive buffer: appended at the end in arrival order, consumed from the front only:
\* at any time it holds exactly the LAST Len(rbuf) bytes pushed
Conserved == \A w \in W : /\ Len(wk[w].rbuf) <= wk[w].npush
                          /\ wk[w].rbuf = Stream(w, wk[w].npush - Len(wk[w].rbuf) + 1, wk[w].npush)
\* the rx handler is called exactly once per arrival, and for nothing else
OncePerArrival ==
  [][\A w \in W : /\ wk'[w].nrx \in {wk[w].nrx, wk[w].nrx + 1}
                  /\ (wk'[w].nrx = wk[w].nrx + 1) <=> (wk'[w].npush > wk[w].npush)]_vars
\* consume removes a prefix and only a prefix; nothing but an arrival appends
ConsumePrefix ==
  [][\A w \in W : wk'[w].npush = wk[w].npush => IsSuffix(wk'[w].rbuf, wk[w].rbuf)]_vars

\* close: handler exactly once (never for a listening worker), one shutdown, at most one socket.close, and that
\* only after close()
ClosedOnce == \A w \in W : /\ wk[w].nclose <= 1 /\ wk[w].shutrd <= 1 /\ wk[w].sclosed <= 1
                           /\ (wk[w].kind = "plain" => (wk[w].closed <=> wk[w].nclose = 1))
                           /\ (wk[w].kind = "server" => wk[w].nclose = 0)
                           /\ (wk[w].closed <=> wk[w].shutrd = 1)
                           /\ (wk[w].sclosed = 1 => wk[w].closed)
CloseIsFinal == [][\A w \in W : wk[w].closed => wk'[w].closed]_vars

\* the worker set: a closed worker is a member only until the loop has executed its close command;
\* it leaves exactly once: a worker that left (or was closed) never joins again
SetOK == /\ \A w \in members : wk[w].kind # "none"
         /\ \A w \in members : wk[w].closed => \E i \in DOMAIN pend : pend[i] = [k |-> "close", w |-> w]
         /\ \A w \in members : wk[w].sclosed = 0
LeavesOnce == [][\A w \in W : (w \in members' /\ w \notin members) =>
                    (~wk'[w].closed /\ \E i \in DOMAIN pend : pend[i] = [k |-> "add", w |-> w])]_vars
LeavesOnlyClosed == [][\A w \in W : (w \in members /\ w \notin members') => wk'[w].closed]_vars
\* every worker that is not closed is (or is about to be) served by THIS loop: accepted connections included
AllJoin == \A w \in Exists : ~wk[w].closed =>
              (w \in members \/ \E i \in DOMAIN pend : pend[i] = [k |-> "add", w |-> w])

\* the others keep being served: whatever happens to one worker, the loop only ends when it is told to, and
\* every time it goes to sleep it selects on ALL members for reading / errors
LoopSurvives == running => phase # "dead"
SelectsAll == [][phase' = "select" /\ phase # "select" =>
                   (sel'.r = members' /\ sel'.x = members')]_vars
\* a step serving w touches no other worker (except the one w's handler closes on purpose)
Isolation ==
  [][last'.a \in {"ServeExc", "ServeRecv", "ServeSend"} =>
       \A v \in W \ {last'.w} :
          \/ wk'[v] = wk[v]
          \/ (last'.a = "ServeRecv" /\ last'.t = v)
          \/ (last'.a = "ServeRecv" /\ wk[last'.w].kind = "server" /\ wk[v].kind = "none")]_vars
\* a worker with nothing to send (and not connecting) is not selected for writing - and one with data is
NoIdleWrite == [][phase' = "select" /\ phase # "select" =>
                    sel'.w = {w \in members' : wk'[w].sbuf > 0 \/ wk'[w].conn}]_vars
\* end of stream closes the worker and takes it out of the set at once
EofCloses == [][(last'.a = "ServeRecv" /\ last'.res = "eof") =>
                   (wk'[last'.w].closed /\ last'.w \notin members')]_vars
\* data is never delivered after close (intended design; as built see RecvAfterClose) ...
NoRxAfterClose == [][\A w \in W : wk[w].closed => wk'[w].nrx = wk[w].nrx]_vars
\* ... what the code as built still guarantees: only within the round in which the worker was closed, never
\* once the loop has executed the close command
LateOnlySameRound == [][\A w \in W : (wk[w].closed /\ wk'[w].nrx # wk[w].nrx) =>
                          (phase = "serve" /\ wk[w].sclosed = 0)]_vars
\* the connect handler runs at most once
ConnectOnce == \A w \in W : wk[w].nconn <= 1 /\ (wk[w].nconn = 1 => ~wk[w].conn)

\* ---- export for the replay harness
Bound   == Len(hist) <= D
Export  == (Len(hist) = D) => PrintT(<<"H", ToJson(hist)>>)
ExportT == PrintT(<<"T", ToJson(hist')>>)
\* the same, for a sample: one transition in D (TLC's RandomElement follows -seed; used with one worker)
ExportS == (D <= 1 \/ RandomElement(1..D) = 1) => PrintT(<<"T", ToJson(hist')>>)
=============================================================================
