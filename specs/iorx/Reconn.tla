------------------------------- MODULE Reconn -------------------------------
(* X13, second part: pox.lib.ioworker.workers.PersistentIOWorker and         *)
(* BackoffWorker - "an IOWorker which opens a duplicate of itself when it    *)
(* closes" - on a RecocoIOLoop, over virtual time (1 unit = 0.5 s).          *)
(*                                                                          *)
(* Granularity: one action = one thing the environment does, followed by the *)
(* loop / scheduler running until they are quiet (the fine structure of the  *)
(* loop is IoRx.tla's subject).  Code paths, in the order they run:          *)
(*   begin(kw...) -> __init__: _connecting = True, socket(), connect_ex():    *)
(*       0 / EINPROGRESS ...  -> loop.register_worker(self)                  *)
(*       anything else        -> core.callLater(self._handle_close): the     *)
(*                               handlers run WITHOUT close(): `closed` stays *)
(*                               False, the instance never joins the loop    *)
(*   select says writable/readable -> IOWorker._try_connect: recv(1, PEEK):  *)
(*       EAGAIN or data or b""  -> connected: connect handler, then          *)
(*                                 connect_callback (BackoffWorker first      *)
(*                                 resets its delay to 0.5 s)                 *)
(*       any other error        -> close()                                   *)
(*   close() (by anybody: EOF, error, the client) -> _handle_close: close    *)
(*       handler, disconnect_callback; unless that returned False:           *)
(*       open_later(): Persistent: callDelayed(reconnect_delay, begin, **kw) *)
(*                     Backoff: delay = min(max, int(2 * delay)) first, and  *)
(*                     the successor is constructed with that delay          *)
(*   the timer fires -> begin(kw...): a NEW instance (same class, same kw)    *)
EXTENDS Naturals, Sequences, FiniteSets, TLC, Json, SequencesExt

CONSTANTS N,        \* instances ever created
          MaxD,     \* BackoffWorker max_retry_delay, in units
          PDelay,   \* PersistentIOWorker reconnect_delay, in units
          Kinds,    \* subset of {"persist", "backoff"}
          Strict,   \* TRUE = intended design (the deviation CloseFailedInstance is off)
          KeepHist, D

W == 1..N
NoI == [kind |-> "none", conn |-> FALSE, closed |-> FALSE, failed |-> FALSE, member |-> FALSE, delay |-> 0,
        nclose |-> 0, ndis |-> 0, ncon |-> 0, nconcb |-> 0, nrx |-> 0, sclosed |-> 0]

VARIABLES inst,     \* [W -> instance record]
          timers,   \* pending reconnect timers: <<[rem, k, d]>> (remaining units, class, delay the successor starts with)
          keep,     \* what the client's disconnect_callback answers: TRUE = go on (None), FALSE = stop (False)
          nextc,    \* what connect_ex() of the next socket returns: "ok" (EINPROGRESS) | "now" (0) | "fail"
          dev,      \* ghost: a deviation action has been taken (the properties are stated for the time before)
          last, hist
vars == <<inst, timers, keep, nextc, dev, last, hist>>
viewE == <<inst, timers, keep, nextc, dev>>

Lesser(a, b) == IF a < b THEN a ELSE b
Used == {w \in W : inst[w].kind # "none"}
Live(r) == r.kind # "none" /\ ~r.closed /\ ~r.failed
Obs(i, t, ret) == [ws |-> i, timers |-> SortSeq([j \in DOMAIN t |-> t[j].rem], LAMBDA a, b : a < b), ret |-> ret]
NoRet == [x |-> 0]
Log(a, args, ret) ==
  LET e == [a |-> a, args |-> args, exp |-> Obs(inst', timers', ret)] IN
  /\ last' = [a |-> a, w |-> (IF "w" \in DOMAIN args THEN args.w ELSE 0)]
  /\ hist' = CASE KeepHist = "all" -> Append(hist, e) [] KeepHist = "last" -> <<e>> [] OTHER -> hist

Init == /\ inst = [w \in W |-> NoI] /\ timers = <<>> /\ keep = TRUE /\ nextc = "ok" /\ dev = FALSE
        /\ last = [a |-> "Init", w |-> 0] /\ hist = <<>>

\* open_later() of instance record r: the delay it waits, which is also the delay its successor starts with
NextDelay(r) == IF r.kind = "backoff" THEN Lesser(MaxD, 2 * r.delay) ELSE r.delay

\* _handle_close of r: close handler, disconnect_callback, and - unless told to stop - a timer for the successor
\* returns [r, t]: the instance afterwards and the timers to add
Closing(r) ==
  LET r1 == [r EXCEPT !.nclose = @ + 1, !.ndis = @ + 1] IN
  IF keep THEN [r |-> [r1 EXCEPT !.delay = NextDelay(r)],
                t |-> <<[rem |-> NextDelay(r), k |-> r.kind, d |-> NextDelay(r)]>>]
  ELSE [r |-> r1, t |-> <<>>]

\* RecocoIOWorker.close() of a registered instance, and the loop executing the close command
Closed(r) ==
  LET c == Closing(r) IN
  [r |-> [c.r EXCEPT !.closed = TRUE, !.member = FALSE, !.sclosed = @ + 1], t |-> c.t]

\* _try_connect succeeding
Connect(r) == [r EXCEPT !.conn = FALSE, !.ncon = @ + 1, !.nconcb = @ + 1,
                        !.delay = IF r.kind = "backoff" THEN 1 ELSE @]

\* constructor of an instance of class k that starts with delay d0
Construct(k, d0) ==
  LET r0 == [NoI EXCEPT !.kind = k, !.conn = TRUE, !.delay = d0] IN
  IF nextc = "fail"
  THEN LET c == Closing(r0) IN [r |-> [c.r EXCEPT !.failed = TRUE], t |-> c.t]
  ELSE [r |-> [r0 EXCEPT !.member = TRUE], t |-> <<>>]

Delay0(k) == IF k = "backoff" THEN 1 ELSE PDelay

Begin(k) ==
  /\ Used = {} /\ k \in Kinds
  /\ LET c == Construct(k, Delay0(k)) IN
     /\ inst' = [inst EXCEPT ![1] = c.r] /\ timers' = c.t
  /\ UNCHANGED <<keep, nextc, dev>>
  /\ Log("Begin", [k |-> k, c |-> nextc], [w |-> 1])

SetNext(c) ==
  /\ c \in {"ok", "now", "fail"} /\ c # nextc /\ nextc' = c
  /\ UNCHANGED <<inst, timers, keep, dev>> /\ Log("SetNext", [c |-> c], NoRet)

\* the connect completes: the socket becomes writable
Connected(w) ==
  /\ Live(inst[w]) /\ inst[w].conn
  /\ inst' = [inst EXCEPT ![w] = Connect(@)]
  /\ UNCHANGED <<timers, keep, nextc, dev>> /\ Log("Connected", [w |-> w], NoRet)

\* the connect fails: readable + writable, recv raises ECONNREFUSED
Refused(w) ==
  /\ Live(inst[w]) /\ inst[w].conn
  /\ LET c == Closed([inst[w] EXCEPT !.conn = FALSE]) IN
     inst' = [inst EXCEPT ![w] = c.r] /\ timers' = timers \o c.t
  /\ UNCHANGED <<keep, nextc, dev>> /\ Log("Refused", [w |-> w], NoRet)

\* the peer closes; on an instance still "connecting" the peek sees b"" = connected, then the read closes it
Eof(w) ==
  /\ Live(inst[w])
  /\ LET r == IF inst[w].conn THEN Connect(inst[w]) ELSE inst[w]
         c == Closed(r) IN
     inst' = [inst EXCEPT ![w] = c.r] /\ timers' = timers \o c.t
  /\ UNCHANGED <<keep, nextc, dev>> /\ Log("Eof", [w |-> w], NoRet)

\* a byte arrives (on an instance still "connecting": connected, then delivered)
Data(w) ==
  /\ Live(inst[w]) /\ inst[w].nrx < 2
  /\ LET r == IF inst[w].conn THEN Connect(inst[w]) ELSE inst[w] IN
     inst' = [inst EXCEPT ![w] = [r EXCEPT !.nrx = @ + 1]]
  /\ UNCHANGED <<timers, keep, nextc, dev>> /\ Log("Data", [w |-> w], NoRet)

\* the client closes the worker: a persistent worker reopens all the same
ClientClose(w) ==
  /\ Live(inst[w])
  /\ LET c == Closed(inst[w]) IN
     inst' = [inst EXCEPT ![w] = c.r] /\ timers' = timers \o c.t
  /\ UNCHANGED <<keep, nextc, dev>> /\ Log("ClientClose", [w |-> w], [r |-> "ok"])

\* close() on the instance begin() returned although its connect_ex() had failed at once.  Its close handler and
\* disconnect callback have run already (or are about to, via callLater), so intended: nothing more happens ...
CloseFailedStrict(w) ==
  /\ Strict /\ inst[w].failed /\ ~inst[w].closed
  /\ UNCHANGED <<inst, timers, keep, nextc, dev>> /\ Log("ClientClose", [w |-> w], [r |-> "ok"])
\* ... DEVIATION (as built): `closed` was never set, so close() runs the close handler and the disconnect callback
\* a SECOND time, arms a SECOND reconnect timer (from here on two lines of successors exist side by side), and then
\* raises TypeError because the instance was never registered (on_close is None); its socket is never closed
CloseFailedInstance(w) ==
  /\ ~Strict /\ inst[w].failed /\ ~inst[w].closed
  /\ LET c == Closing(inst[w]) IN
     /\ inst' = [inst EXCEPT ![w] = [c.r EXCEPT !.closed = TRUE, !.failed = FALSE]]
     /\ timers' = timers \o c.t
  /\ dev' = TRUE
  /\ UNCHANGED <<keep, nextc>> /\ Log("ClientClose", [w |-> w], [r |-> "TypeError"])

\* from now on the disconnect callback returns False
StopReconnecting ==
  /\ keep /\ keep' = FALSE
  /\ UNCHANGED <<inst, timers, nextc, dev>> /\ Log("StopReconnecting", NoRet, NoRet)

\* half a second passes; every timer that is due constructs its successor (in the order the timers were armed)
RECURSIVE Fire(_, _, _)
Fire(i, ts, acc) ==
  IF ts = <<>> THEN [i |-> i, t |-> acc]
  ELSE LET h == Head(ts) IN
       IF h.rem > 1 THEN Fire(i, Tail(ts), Append(acc, [h EXCEPT !.rem = @ - 1]))
       ELSE LET free == {w \in W : i[w].kind = "none"}
                w == CHOOSE x \in free : \A y \in free : x <= y
                c == Construct(h.k, h.d) IN
            Fire([i EXCEPT ![w] = c.r], Tail(ts), acc \o c.t)
Tick ==
  /\ timers # <<>>
  /\ Cardinality({j \in DOMAIN timers : timers[j].rem = 1}) <= Cardinality(W \ Used)
  /\ LET f == Fire(inst, timers, <<>>) IN inst' = f.i /\ timers' = f.t
  /\ UNCHANGED <<keep, nextc, dev>> /\ Log("Tick", NoRet, NoRet)

Next == \/ \E k \in Kinds : Begin(k)
        \/ \E c \in {"ok", "now", "fail"} : SetNext(c)
        \/ \E w \in W : Connected(w) \/ Refused(w) \/ Eof(w) \/ Data(w) \/ ClientClose(w)
        \/ \E w \in W : CloseFailedStrict(w) \/ CloseFailedInstance(w)
        \/ StopReconnecting \/ Tick
Spec == Init /\ [][Next]_vars

----------------------------------------------------------------------------
TypeOK == \A w \in W : inst[w].kind \in {"none", "persist", "backoff"} /\ inst[w].delay \in 0..(MaxD + PDelay)
\* a duplicate is opened only AFTER the close, and only one: never two live instances, never a live instance and a
\* pending timer, never two timers
OneAtATime == dev \/ Cardinality({w \in W : Live(inst[w])}) + Len(timers) <= 1
\* close handler and disconnect callback: once per instance, together
CloseOnce == dev \/ \A w \in W : /\ inst[w].nclose <= 1 /\ inst[w].ndis = inst[w].nclose
                                 /\ (inst[w].closed => inst[w].nclose = 1) /\ inst[w].sclosed <= 1
                                 /\ (inst[w].closed <=> inst[w].sclosed = 1)
\* what survives the deviation: the two always run together, and at most twice
CloseTogether == \A w \in W : inst[w].ndis = inst[w].nclose /\ inst[w].nclose <= 2 /\ inst[w].sclosed <= 1
NoDeviation == ~dev
\* connect handler and connect callback: at most once per instance, together, never on an instance that failed
ConnectOnce == \A w \in W : inst[w].ncon <= 1 /\ inst[w].nconcb = inst[w].ncon /\ (inst[w].failed => inst[w].ncon = 0)
\* only a live instance is served by the loop
MemberOK == \A w \in W : inst[w].member <=> Live(inst[w])
\* instances are created in order, by begin() or by a due timer only
Succession == [][\A w \in W : (inst[w].kind = "none" /\ inst'[w].kind # "none") =>
                    \/ last'.a = "Begin"
                    \/ (last'.a = "Tick" /\ \E j \in DOMAIN timers : timers[j].rem = 1 /\ inst'[w].kind = timers[j].k)]_vars
\* never earlier than the delay: a timer only counts down, one unit per Tick, and is armed with the delay
ArmedOnly == /\ Len(timers') >= Len(timers) /\ SubSeq(timers', 1, Len(timers)) = timers
             /\ \A j \in (Len(timers) + 1)..Len(timers') : timers'[j].rem = timers'[j].d
CountDown == \A j \in DOMAIN timers : (timers[j].rem > 1) =>
                (\E i \in DOMAIN timers' : timers'[i] = [timers[j] EXCEPT !.rem = @ - 1])
NotEarly == [][IF last'.a = "Tick" THEN CountDown ELSE ArmedOnly]_vars
\* back-off: the delay doubles from 1 s up to the maximum, and starts again after a successful connect
BackoffBound == \A j \in DOMAIN timers : timers[j].k = "backoff" => timers[j].rem <= MaxD /\ timers[j].d >= 2
BackoffReset == [][\A w \in W : (inst[w].kind = "backoff" /\ inst'[w].ncon > inst[w].ncon) => inst'[w].delay \in {1, 2}]_vars
PersistConst == \A j \in DOMAIN timers : timers[j].k = "persist" => timers[j].d = PDelay
\* once the disconnect callback says False nothing is ever scheduled again
Stopped == [][(~keep /\ ~keep') => Len(timers') <= Len(timers)]_vars

Export  == (Len(hist) = D) => PrintT(<<"H", ToJson(hist)>>)
ExportT == PrintT(<<"T", ToJson(hist')>>)
\* the same, for a sample: one transition in D (TLC's RandomElement follows -seed; used with one worker)
ExportS == (D <= 1 \/ RandomElement(1..D) = 1) => PrintT(<<"T", ToJson(hist')>>)
=============================================================================
