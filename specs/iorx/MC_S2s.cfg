CONSTANTS N = 2
  MaxBytes = 1
  Lens = {1}
  BufSize = 1
  MaxSend = 0
  Ops <- OpsClose
  SendOuts <- OutsFew
  Errs <- ErrsFew
  Creates <- CrPlain
  BufApi = FALSE
  WithServer = FALSE
  MaxX = 2
  MaxRounds = 0
  Strict = TRUE
  KeepHist = "no"
  D = 0
INIT Init
NEXT Next
VIEW view
INVARIANT TypeOK
INVARIANT InOrder
INVARIANT Conserved
INVARIANT ClosedOnce
INVARIANT SetOK
INVARIANT AllJoin
INVARIANT LoopSurvives
INVARIANT ConnectOnce
PROPERTY EofCloses
PROPERTY OncePerArrival
PROPERTY ConsumePrefix
PROPERTY CloseIsFinal
PROPERTY LeavesOnce
PROPERTY LeavesOnlyClosed
PROPERTY SelectsAll
PROPERTY Isolation
PROPERTY NoIdleWrite
PROPERTY LateOnlySameRound
PROPERTY NoRxAfterClose
CHECK_DEADLOCK FALSE
