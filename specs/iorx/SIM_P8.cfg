CONSTANTS N = 8
  MaxD = 8
  PDelay = 4
  Kinds <- BothKinds
  Strict = FALSE
  KeepHist = "all"
  D = 60
INIT Init
NEXT Next
INVARIANT Export
CHECK_DEADLOCK FALSE
