CONSTANTS N = 4
  MaxD = 8
  PDelay = 2
  Kinds <- BothKinds
  Strict = FALSE
  KeepHist = "all"
  D = 0
INIT Init
NEXT Next
VIEW viewE
ACTION_CONSTRAINT ExportT
CHECK_DEADLOCK FALSE
