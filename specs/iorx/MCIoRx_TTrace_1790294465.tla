---- MODULE MCIoRx_TTrace_1790294465 ----
EXTENDS Sequences, TLCExt, Toolbox, Naturals, TLC, MCIoRx

_expression ==
    LET MCIoRx_TEExpression == INSTANCE MCIoRx_TEExpression
    IN MCIoRx_TEExpression!expression
----

_trace ==
    LET MCIoRx_TETrace == INSTANCE MCIoRx_TETrace
    IN MCIoRx_TETrace!trace
----

_inv ==
    ~(
        TLCGet("level") = Len(_TETrace)
        /\
        phase = ("serve")
        /\
        last = ([a |-> "ServeRecv", w |-> 1, t |-> 0, res |-> "data"])
        /\
        pinged = (FALSE)
        /\
        running = (TRUE)
        /\
        hist = (<<>>)
        /\
        wk = (<<[conn |-> FALSE, kind |-> "plain", closed |-> TRUE, nclose |-> 1, sclosed |-> 0, shutrd |-> 1, rbuf |-> <<11>>, sbuf |-> 0, inq |-> <<>>, eof |-> FALSE, serr |-> "none", narr |-> 1, npush |-> 1, nrx |-> 1, acceptq |-> 0, nconn |-> 0], [conn |-> FALSE, kind |-> "none", closed |-> FALSE, nclose |-> 0, sclosed |-> 0, shutrd |-> 0, rbuf |-> <<>>, sbuf |-> 0, inq |-> <<>>, eof |-> FALSE, serr |-> "none", narr |-> 0, npush |-> 0, nrx |-> 0, acceptq |-> 0, nconn |-> 0]>>)
        /\
        members = ({1})
        /\
        xq = (<<>>)
        /\
        wq = (<<>>)
        /\
        sel = ([w |-> {}, x |-> {}, r |-> {}])
        /\
        rounds = (0)
        /\
        pend = (<<[w |-> 1, k |-> "close"]>>)
        /\
        rq = (<<>>)
    )
----

_init ==
    /\ last = _TETrace[1].last
    /\ pend = _TETrace[1].pend
    /\ sel = _TETrace[1].sel
    /\ phase = _TETrace[1].phase
    /\ running = _TETrace[1].running
    /\ pinged = _TETrace[1].pinged
    /\ rq = _TETrace[1].rq
    /\ hist = _TETrace[1].hist
    /\ members = _TETrace[1].members
    /\ wk = _TETrace[1].wk
    /\ wq = _TETrace[1].wq
    /\ rounds = _TETrace[1].rounds
    /\ xq = _TETrace[1].xq
----

_next ==
    /\ \E i,j \in DOMAIN _TETrace:
        /\ \/ /\ j = i + 1
              /\ i = TLCGet("level")
        /\ last  = _TETrace[i].last
        /\ last' = _TETrace[j].last
        /\ pend  = _TETrace[i].pend
        /\ pend' = _TETrace[j].pend
        /\ sel  = _TETrace[i].sel
        /\ sel' = _TETrace[j].sel
        /\ phase  = _TETrace[i].phase
        /\ phase' = _TETrace[j].phase
        /\ running  = _TETrace[i].running
        /\ running' = _TETrace[j].running
        /\ pinged  = _TETrace[i].pinged
        /\ pinged' = _TETrace[j].pinged
        /\ rq  = _TETrace[i].rq
        /\ rq' = _TETrace[j].rq
        /\ hist  = _TETrace[i].hist
        /\ hist' = _TETrace[j].hist
        /\ members  = _TETrace[i].members
        /\ members' = _TETrace[j].members
        /\ wk  = _TETrace[i].wk
        /\ wk' = _TETrace[j].wk
        /\ wq  = _TETrace[i].wq
        /\ wq' = _TETrace[j].wq
        /\ rounds  = _TETrace[i].rounds
        /\ rounds' = _TETrace[j].rounds
        /\ xq  = _TETrace[i].xq
        /\ xq' = _TETrace[j].xq

\* Uncomment the ASSUME below to write the states of the error trace
\* to the given file in Json format. Note that you can pass any tuple
\* to `JsonSerialize`. For example, a sub-sequence of _TETrace.
    \* ASSUME
    \*     LET J == INSTANCE Json
    \*         IN J!JsonSerialize("MCIoRx_TTrace_1790294465.json", _TETrace)

=============================================================================

 Note that you can extract this module `MCIoRx_TEExpression`
  to a dedicated file to reuse `expression` (the module in the 
  dedicated `MCIoRx_TEExpression.tla` file takes precedence 
  over the module `MCIoRx_TEExpression` below).

---- MODULE MCIoRx_TEExpression ----
EXTENDS Sequences, TLCExt, Toolbox, Naturals, TLC, MCIoRx

expression == 
    [
        \* To hide variables of the `MCIoRx` spec from the error trace,
        \* remove the variables below.  The trace will be written in the order
        \* of the fields of this record.
        last |-> last
        ,pend |-> pend
        ,sel |-> sel
        ,phase |-> phase
        ,running |-> running
        ,pinged |-> pinged
        ,rq |-> rq
        ,hist |-> hist
        ,members |-> members
        ,wk |-> wk
        ,wq |-> wq
        ,rounds |-> rounds
        ,xq |-> xq
        
        \* Put additional constant-, state-, and action-level expressions here:
        \* ,_stateNumber |-> _TEPosition
        \* ,_lastUnchanged |-> last = last'
        
        \* Format the `last` variable as Json value.
        \* ,_lastJson |->
        \*     LET J == INSTANCE Json
        \*     IN J!ToJson(last)
        
        \* Lastly, you may build expressions over arbitrary sets of states by
        \* leveraging the _TETrace operator.  For example, this is how to
        \* count the number of times a spec variable changed up to the current
        \* state in the trace.
        \* ,_lastModCount |->
        \*     LET F[s \in DOMAIN _TETrace] ==
        \*         IF s = 1 THEN 0
        \*         ELSE IF _TETrace[s].last # _TETrace[s-1].last
        \*             THEN 1 + F[s-1] ELSE F[s-1]
        \*     IN F[_TEPosition - 1]
    ]

=============================================================================



Parsing and semantic processing can take forever if the trace below is long.
 In this case, it is advised to uncomment the module below to deserialize the
 trace from a generated binary file.

\*
\*---- MODULE MCIoRx_TETrace ----
\*EXTENDS IOUtils, TLC, MCIoRx
\*
\*trace == IODeserialize("MCIoRx_TTrace_1790294465.bin", TRUE)
\*
\*=============================================================================
\*

---- MODULE MCIoRx_TETrace ----
EXTENDS TLC, MCIoRx

trace == 
    <<
    ([phase |-> "top",last |-> [a |-> "Init", w |-> 0, t |-> 0, res |-> "-"],pinged |-> FALSE,running |-> TRUE,hist |-> <<>>,wk |-> <<[conn |-> FALSE, kind |-> "none", closed |-> FALSE, nclose |-> 0, sclosed |-> 0, shutrd |-> 0, rbuf |-> <<>>, sbuf |-> 0, inq |-> <<>>, eof |-> FALSE, serr |-> "none", narr |-> 0, npush |-> 0, nrx |-> 0, acceptq |-> 0, nconn |-> 0], [conn |-> FALSE, kind |-> "none", closed |-> FALSE, nclose |-> 0, sclosed |-> 0, shutrd |-> 0, rbuf |-> <<>>, sbuf |-> 0, inq |-> <<>>, eof |-> FALSE, serr |-> "none", narr |-> 0, npush |-> 0, nrx |-> 0, acceptq |-> 0, nconn |-> 0]>>,members |-> {},xq |-> <<>>,wq |-> <<>>,sel |-> [w |-> {}, x |-> {}, r |-> {}],rounds |-> 0,pend |-> <<>>,rq |-> <<>>]),
    ([phase |-> "select",last |-> [a |-> "LoopTop", w |-> 0, t |-> 0, res |-> "-"],pinged |-> FALSE,running |-> TRUE,hist |-> <<>>,wk |-> <<[conn |-> FALSE, kind |-> "none", closed |-> FALSE, nclose |-> 0, sclosed |-> 0, shutrd |-> 0, rbuf |-> <<>>, sbuf |-> 0, inq |-> <<>>, eof |-> FALSE, serr |-> "none", narr |-> 0, npush |-> 0, nrx |-> 0, acceptq |-> 0, nconn |-> 0], [conn |-> FALSE, kind |-> "none", closed |-> FALSE, nclose |-> 0, sclosed |-> 0, shutrd |-> 0, rbuf |-> <<>>, sbuf |-> 0, inq |-> <<>>, eof |-> FALSE, serr |-> "none", narr |-> 0, npush |-> 0, nrx |-> 0, acceptq |-> 0, nconn |-> 0]>>,members |-> {},xq |-> <<>>,wq |-> <<>>,sel |-> [w |-> {}, x |-> {}, r |-> {}],rounds |-> 0,pend |-> <<>>,rq |-> <<>>]),
    ([phase |-> "select",last |-> [a |-> "NewWorker", w |-> 0, t |-> 0, res |-> "-"],pinged |-> TRUE,running |-> TRUE,hist |-> <<>>,wk |-> <<[conn |-> FALSE, kind |-> "plain", closed |-> FALSE, nclose |-> 0, sclosed |-> 0, shutrd |-> 0, rbuf |-> <<>>, sbuf |-> 0, inq |-> <<>>, eof |-> FALSE, serr |-> "none", narr |-> 0, npush |-> 0, nrx |-> 0, acceptq |-> 0, nconn |-> 0], [conn |-> FALSE, kind |-> "none", closed |-> FALSE, nclose |-> 0, sclosed |-> 0, shutrd |-> 0, rbuf |-> <<>>, sbuf |-> 0, inq |-> <<>>, eof |-> FALSE, serr |-> "none", narr |-> 0, npush |-> 0, nrx |-> 0, acceptq |-> 0, nconn |-> 0]>>,members |-> {},xq |-> <<>>,wq |-> <<>>,sel |-> [w |-> {}, x |-> {}, r |-> {}],rounds |-> 0,pend |-> <<[w |-> 1, k |-> "add"]>>,rq |-> <<>>]),
    ([phase |-> "select",last |-> [a |-> "Arrive", w |-> 1, t |-> 0, res |-> "-"],pinged |-> TRUE,running |-> TRUE,hist |-> <<>>,wk |-> <<[conn |-> FALSE, kind |-> "plain", closed |-> FALSE, nclose |-> 0, sclosed |-> 0, shutrd |-> 0, rbuf |-> <<>>, sbuf |-> 0, inq |-> <<11>>, eof |-> FALSE, serr |-> "none", narr |-> 1, npush |-> 0, nrx |-> 0, acceptq |-> 0, nconn |-> 0], [conn |-> FALSE, kind |-> "none", closed |-> FALSE, nclose |-> 0, sclosed |-> 0, shutrd |-> 0, rbuf |-> <<>>, sbuf |-> 0, inq |-> <<>>, eof |-> FALSE, serr |-> "none", narr |-> 0, npush |-> 0, nrx |-> 0, acceptq |-> 0, nconn |-> 0]>>,members |-> {},xq |-> <<>>,wq |-> <<>>,sel |-> [w |-> {}, x |-> {}, r |-> {}],rounds |-> 0,pend |-> <<[w |-> 1, k |-> "add"]>>,rq |-> <<>>]),
    ([phase |-> "top",last |-> [a |-> "Wake", w |-> 0, t |-> 0, res |-> "-"],pinged |-> FALSE,running |-> TRUE,hist |-> <<>>,wk |-> <<[conn |-> FALSE, kind |-> "plain", closed |-> FALSE, nclose |-> 0, sclosed |-> 0, shutrd |-> 0, rbuf |-> <<>>, sbuf |-> 0, inq |-> <<11>>, eof |-> FALSE, serr |-> "none", narr |-> 1, npush |-> 0, nrx |-> 0, acceptq |-> 0, nconn |-> 0], [conn |-> FALSE, kind |-> "none", closed |-> FALSE, nclose |-> 0, sclosed |-> 0, shutrd |-> 0, rbuf |-> <<>>, sbuf |-> 0, inq |-> <<>>, eof |-> FALSE, serr |-> "none", narr |-> 0, npush |-> 0, nrx |-> 0, acceptq |-> 0, nconn |-> 0]>>,members |-> {},xq |-> <<>>,wq |-> <<>>,sel |-> [w |-> {}, x |-> {}, r |-> {}],rounds |-> 0,pend |-> <<[w |-> 1, k |-> "add"]>>,rq |-> <<>>]),
    ([phase |-> "select",last |-> [a |-> "LoopTop", w |-> 0, t |-> 0, res |-> "-"],pinged |-> FALSE,running |-> TRUE,hist |-> <<>>,wk |-> <<[conn |-> FALSE, kind |-> "plain", closed |-> FALSE, nclose |-> 0, sclosed |-> 0, shutrd |-> 0, rbuf |-> <<>>, sbuf |-> 0, inq |-> <<11>>, eof |-> FALSE, serr |-> "none", narr |-> 1, npush |-> 0, nrx |-> 0, acceptq |-> 0, nconn |-> 0], [conn |-> FALSE, kind |-> "none", closed |-> FALSE, nclose |-> 0, sclosed |-> 0, shutrd |-> 0, rbuf |-> <<>>, sbuf |-> 0, inq |-> <<>>, eof |-> FALSE, serr |-> "none", narr |-> 0, npush |-> 0, nrx |-> 0, acceptq |-> 0, nconn |-> 0]>>,members |-> {1},xq |-> <<>>,wq |-> <<>>,sel |-> [w |-> {}, x |-> {1}, r |-> {1}],rounds |-> 0,pend |-> <<>>,rq |-> <<>>]),
    ([phase |-> "select",last |-> [a |-> "Close", w |-> 1, t |-> 0, res |-> "-"],pinged |-> TRUE,running |-> TRUE,hist |-> <<>>,wk |-> <<[conn |-> FALSE, kind |-> "plain", closed |-> TRUE, nclose |-> 1, sclosed |-> 0, shutrd |-> 1, rbuf |-> <<>>, sbuf |-> 0, inq |-> <<11>>, eof |-> FALSE, serr |-> "none", narr |-> 1, npush |-> 0, nrx |-> 0, acceptq |-> 0, nconn |-> 0], [conn |-> FALSE, kind |-> "none", closed |-> FALSE, nclose |-> 0, sclosed |-> 0, shutrd |-> 0, rbuf |-> <<>>, sbuf |-> 0, inq |-> <<>>, eof |-> FALSE, serr |-> "none", narr |-> 0, npush |-> 0, nrx |-> 0, acceptq |-> 0, nconn |-> 0]>>,members |-> {1},xq |-> <<>>,wq |-> <<>>,sel |-> [w |-> {}, x |-> {1}, r |-> {1}],rounds |-> 0,pend |-> <<[w |-> 1, k |-> "close"]>>,rq |-> <<>>]),
    ([phase |-> "serve",last |-> [a |-> "SelectReturn", w |-> <<>>, t |-> 0, res |-> "-"],pinged |-> FALSE,running |-> TRUE,hist |-> <<>>,wk |-> <<[conn |-> FALSE, kind |-> "plain", closed |-> TRUE, nclose |-> 1, sclosed |-> 0, shutrd |-> 1, rbuf |-> <<>>, sbuf |-> 0, inq |-> <<11>>, eof |-> FALSE, serr |-> "none", narr |-> 1, npush |-> 0, nrx |-> 0, acceptq |-> 0, nconn |-> 0], [conn |-> FALSE, kind |-> "none", closed |-> FALSE, nclose |-> 0, sclosed |-> 0, shutrd |-> 0, rbuf |-> <<>>, sbuf |-> 0, inq |-> <<>>, eof |-> FALSE, serr |-> "none", narr |-> 0, npush |-> 0, nrx |-> 0, acceptq |-> 0, nconn |-> 0]>>,members |-> {1},xq |-> <<>>,wq |-> <<>>,sel |-> [w |-> {}, x |-> {}, r |-> {}],rounds |-> 0,pend |-> <<[w |-> 1, k |-> "close"]>>,rq |-> <<1>>]),
    ([phase |-> "serve",last |-> [a |-> "ServeRecv", w |-> 1, t |-> 0, res |-> "data"],pinged |-> FALSE,running |-> TRUE,hist |-> <<>>,wk |-> <<[conn |-> FALSE, kind |-> "plain", closed |-> TRUE, nclose |-> 1, sclosed |-> 0, shutrd |-> 1, rbuf |-> <<11>>, sbuf |-> 0, inq |-> <<>>, eof |-> FALSE, serr |-> "none", narr |-> 1, npush |-> 1, nrx |-> 1, acceptq |-> 0, nconn |-> 0], [conn |-> FALSE, kind |-> "none", closed |-> FALSE, nclose |-> 0, sclosed |-> 0, shutrd |-> 0, rbuf |-> <<>>, sbuf |-> 0, inq |-> <<>>, eof |-> FALSE, serr |-> "none", narr |-> 0, npush |-> 0, nrx |-> 0, acceptq |-> 0, nconn |-> 0]>>,members |-> {1},xq |-> <<>>,wq |-> <<>>,sel |-> [w |-> {}, x |-> {}, r |-> {}],rounds |-> 0,pend |-> <<[w |-> 1, k |-> "close"]>>,rq |-> <<>>])
    >>
----


=============================================================================

---- CONFIG MCIoRx_TTrace_1790294465 ----
CONSTANTS
    N = 2
    MaxBytes = 1
    Lens = { 1 }
    BufSize = 1
    MaxSend = 0
    Ops <- OpsClose
    SendOuts <- OutsFew
    Errs <- NoErrs
    Creates <- CrPlain
    BufApi = FALSE
    WithServer = FALSE
    MaxX = 2
    MaxRounds = 0
    Strict = FALSE
    KeepHist = "no"
    D = 0

INVARIANT
    _inv

CHECK_DEADLOCK
    \* CHECK_DEADLOCK off because of PROPERTY or INVARIANT above.
    FALSE

INIT
    _init

NEXT
    _next

CONSTANT
    _TETrace <- _trace

ALIAS
    _expression
=============================================================================
\* Generated on Fri Sep 25 00:01:08 UTC 2026