CONSTANTS N = 4
  MaxBytes = 6
  Lens = {1, 2, 3}
  BufSize = 2
  MaxSend = 2
  Ops <- OpsAll
  SendOuts <- OutsAll
  Errs <- ErrsAll
  Creates <- CrAll
  BufApi = TRUE
  WithServer = TRUE
  MaxX = 4
  MaxRounds = 0
  Strict = FALSE
  KeepHist = "last"
  D = 0
INIT TrInit
NEXT TrNext
CONSTRAINT Progress
POSTCONDITION Accepted
INVARIANT TypeOK
INVARIANT InOrder
INVARIANT Conserved
INVARIANT ClosedOnce
INVARIANT SetOK
INVARIANT AllJoin
INVARIANT LoopSurvives
INVARIANT ConnectOnce
CHECK_DEADLOCK FALSE
