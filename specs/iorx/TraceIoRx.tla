---- MODULE TraceIoRx ----
(* Code -> spec: traces recorded from the real RecocoIOLoop / workers under a seeded random driver              *)
(* (props/X13.py drive) must be behaviours of IoRx.tla.  The driver logs, for every step, the action, its        *)
(* arguments and the full observation; here each event must be an enabled instance of that action whose          *)
(* observation (the newest `hist` entry, KeepHist = "last") equals the logged one.  The serve steps of a round are *)
(* logged in the order in which the REAL loop made the calls.                                                      *)
EXTENDS MCIoRx, IOUtils, TLCExt

Traces == JsonDeserialize(IOEnv.TRACE_FILE)
NT == Len(Traces)
VARIABLES tid, l
tvars == <<vars, tid, l>>

TrInit == Init /\ tid \in 1..NT /\ l = 1 /\ TLCSet(tid, 0)
Ev == Traces[tid][l]
IsEvent(e) == l <= Len(Traces[tid]) /\ Ev.a = e /\ l' = l + 1 /\ UNCHANGED tid
Match == Ev.wf /\ hist'[1].exp = Ev.obs
Op == [h |-> Ev.args.h, t |-> Ev.args.t]

TrNext ==
  \/ IsEvent("LoopTop") /\ (LoopTop \/ LoopExit) /\ Match
  \/ IsEvent("SelectReturn") /\ SelectReturn(Ev.args.x, Ev.args.r, Ev.args.w) /\ Match
  \/ IsEvent("Wake") /\ Wake /\ Match
  \/ IsEvent("SelectTimeout") /\ SelectTimeout /\ Match
  \/ IsEvent("ServeExc") /\ ServeExc(Ev.args.w) /\ Match
  \/ IsEvent("ServeRecv") /\ (ServeRecv(Ev.args.w, Op) \/ RecvAfterClose(Ev.args.w, Op) \/ SkipClosed(Ev.args.w)) /\ Match
  \/ IsEvent("ServeSend") /\ ServeSend(Ev.args.w, Ev.args.o) /\ Match
  \/ IsEvent("NewWorker") /\ NewWorker([conn |-> Ev.args.conn]) /\ Match
  \/ IsEvent("NewServer") /\ NewServer /\ Match
  \/ IsEvent("Incoming") /\ Incoming(Ev.args.w) /\ Match
  \/ IsEvent("Arrive") /\ Arrive(Ev.args.w, Ev.args.n) /\ Match
  \/ IsEvent("PeerClose") /\ PeerClose(Ev.args.w) /\ Match
  \/ IsEvent("SockErr") /\ SockErr(Ev.args.w, Ev.args.e) /\ Match
  \/ IsEvent("Send") /\ Send(Ev.args.w) /\ Match
  \/ IsEvent("Close") /\ Close(Ev.args.w) /\ Match
  \/ IsEvent("Consume") /\ Consume(Ev.args.w, Ev.args.n) /\ Match
  \/ IsEvent("Read") /\ Read(Ev.args.w, Ev.args.n) /\ Match
  \/ IsEvent("Peek") /\ Peek(Ev.args.w, Ev.args.n) /\ Match
  \/ IsEvent("Stop") /\ Stop /\ Match
  \/ IsEvent("AskPort") /\ (AskPort(Ev.args.w) \/ AskPortBroken(Ev.args.w)) /\ Match
TrSpec == TrInit /\ [][TrNext]_tvars

Progress == TLCSet(tid, IF TLCGet(tid) < l - 1 THEN l - 1 ELSE TLCGet(tid))
Ok(t) == TLCGet(t) = Len(Traces[t]) \/ (PrintT(<<"REJECT", t, TLCGet(t)>>) /\ FALSE)
Accepted == /\ PrintT(<<"TRACES-CHECKED", NT>>)
            /\ Cardinality({t \in 1..NT : ~Ok(t)}) = 0
====
