CONSTANTS N = 1
  MaxBytes = 3
  Lens = {1, 3}
  BufSize = 2
  MaxSend = 1
  Ops <- OpsOne
  SendOuts <- OutsAll
  Errs <- ErrsAll
  Creates <- CrAll
  BufApi = TRUE
  WithServer = FALSE
  MaxX = 2
  MaxRounds = 0
  Strict = FALSE
  KeepHist = "all"
  D = 150
INIT Init
NEXT Next
VIEW viewE
ACTION_CONSTRAINT ExportS
CHECK_DEADLOCK FALSE
