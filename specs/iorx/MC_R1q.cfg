CONSTANTS N = 1
  MaxBytes = 3
  Lens = {1, 3}
  BufSize = 2
  MaxSend = 1
  Ops <- OpsOne
  SendOuts <- OutsAll
  Errs <- ErrsAll
  Creates <- CrAll
  BufApi = TRUE
  WithServer = FALSE
  MaxX = 2
  MaxRounds = 0
  Strict = FALSE
  KeepHist = "no"
  D = 0
INIT Init
NEXT Next
VIEW view
INVARIANT TypeOK
INVARIANT InOrder
INVARIANT Conserved
INVARIANT ClosedOnce
INVARIANT SetOK
INVARIANT AllJoin
INVARIANT LoopSurvives
INVARIANT ConnectOnce
PROPERTY EofCloses
PROPERTY OncePerArrival
PROPERTY ConsumePrefix
PROPERTY CloseIsFinal
PROPERTY LeavesOnce
PROPERTY LeavesOnlyClosed
PROPERTY SelectsAll
PROPERTY Isolation
PROPERTY NoIdleWrite
PROPERTY LateOnlySameRound
CHECK_DEADLOCK FALSE
