CONSTANTS N = 4
  MaxBytes = 4
  Lens = {1, 2, 3}
  BufSize = 2
  MaxSend = 2
  Ops <- OpsAll
  SendOuts <- OutsAll
  Errs <- ErrsAll
  Creates <- CrAll
  BufApi = TRUE
  WithServer = TRUE
  MaxX = 4
  MaxRounds = 0
  Strict = FALSE
  KeepHist = "all"
  D = 40
INIT Init
NEXT Next
INVARIANT Export
CHECK_DEADLOCK FALSE
