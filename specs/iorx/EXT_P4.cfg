CONSTANTS N = 4
  MaxD = 8
  PDelay = 2
  Kinds <- BothKinds
  Strict = FALSE
  KeepHist = "all"
  D = 250
INIT Init
NEXT Next
VIEW viewE
ACTION_CONSTRAINT ExportS
CHECK_DEADLOCK FALSE
