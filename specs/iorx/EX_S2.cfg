CONSTANTS N = 2
  MaxBytes = 1
  Lens = {1}
  BufSize = 1
  MaxSend = 0
  Ops <- OpsClose
  SendOuts <- OutsFew
  Errs <- ErrsFew
  Creates <- CrPlain
  BufApi = FALSE
  WithServer = FALSE
  MaxX = 2
  MaxRounds = 0
  Strict = FALSE
  KeepHist = "all"
  D = 0
INIT Init
NEXT Next
VIEW viewE
ACTION_CONSTRAINT ExportT
CHECK_DEADLOCK FALSE
