---- MODULE MCIoRx ----
EXTENDS IoRx
CrPlain == {[conn |-> FALSE]}
CrAll == {[conn |-> FALSE], [conn |-> TRUE]}
CrNone == {}
OpsAll == AllOps
OpsOne == {"keep", "c1", "call", "close", "reply", "raise"}
OpsSrv == {"keep", "raise"}
OpsClose == {"keep", "close", "co", "raise"}
OpsSim == {"keep", "c1", "call", "close", "co", "reply", "raise"}
OpsCloseQ == {"keep", "co", "raise"}
OutsAll == {"full", "part", "eagain", "fatal"}
OutsFew == {"full", "fatal"}
ErrsAll == {"reset", "enoent", "again"}
ErrsFew == {"reset"}
NoErrs == {}
====
