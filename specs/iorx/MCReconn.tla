---- MODULE MCReconn ----
EXTENDS Reconn
BothKinds == {"persist", "backoff"}
OnlyBackoff == {"backoff"}
OnlyPersist == {"persist"}
====
