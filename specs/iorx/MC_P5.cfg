CONSTANTS N = 5
  MaxD = 8
  PDelay = 4
  Kinds <- BothKinds
  Strict = FALSE
  KeepHist = "no"
  D = 0
INIT Init
NEXT Next
VIEW viewE
INVARIANT TypeOK
INVARIANT OneAtATime
INVARIANT CloseOnce
INVARIANT ConnectOnce
INVARIANT MemberOK
INVARIANT CloseTogether
INVARIANT BackoffBound
INVARIANT PersistConst
PROPERTY Succession
PROPERTY NotEarly
PROPERTY BackoffReset
PROPERTY Stopped
CHECK_DEADLOCK FALSE
