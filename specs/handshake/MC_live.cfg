CONSTANTS NC = 2
  Dpids <- MCDpids2
  Ports <- MCPorts1
  MaxPS = 1
  NoiseKinds <- MCNoiseFew
  ErrKinds <- MCErrFew
  Segs <- MCSegOwn
  MaxAcc = 3
  D = 0
SPECIFICATION FairSpec
PROPERTY DownEventually
CHECK_DEADLOCK FALSE
