---- MODULE MCHandshake ----
EXTENDS Handshake
MCDpids1 == {1}
MCDpids2 == {1, 2}
MCPorts1 == {1}
MCPorts2 == {1, 2}
MCNoiseAll == {"hello", "desc", "echo", "pktin"}
MCErrAll == {"unsup", "type", "code", "xid"}
MCNoiseFew == {"echo"}
MCErrFew == {"unsup", "xid"}
MCSegOwn == {"own"}
MCSegAll == {"own", "more", "split"}
====
