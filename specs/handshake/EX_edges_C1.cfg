CONSTANTS NC = 1
  Dpids <- MCDpids2
  Ports <- MCPorts2
  MaxPS = 3
  NoiseKinds <- MCNoiseAll
  ErrKinds <- MCErrAll
  Segs <- MCSegAll
  MaxAcc = 3
  D = 1
INIT Init
NEXT Next
VIEW viewE
ACTION_CONSTRAINT ExportGuided
CHECK_DEADLOCK FALSE
