---- MODULE TraceHandshake ----
(* Code -> spec: histories recorded from the real controller (random driver  *)
(* over the real accept/read/close loop) must be behaviours of Handshake.tla. *)
(* Each event carries the action, its arguments and the observation; TLC     *)
(* searches the alternatives the spec permits for one that yields exactly    *)
(* that observation.                                                         *)
EXTENDS MCHandshake, IOUtils, TLCExt, SequencesExt

Traces == JsonDeserialize(IOEnv.TRACE_FILE)
NT == Len(Traces)
VARIABLES tid, l
tvars == <<vars, tid, l>>

TrInit == Init /\ tid \in 1..NT /\ l = 1 /\ TLCSet(tid, 0)
Ev == Traces[tid][l]
IsEvent(e) == l <= Len(Traces[tid]) /\ Ev.a = e /\ l' = l + 1 /\ UNCHANGED tid

ObsOf(o) == [ev |-> o.ev, reg |-> ToSet(o.reg), gone |-> ToSet(o.gone),
             to |-> o.to, ok |-> o.ok]
Matches == Ev.wf /\ last'.exp = ObsOf(Ev.obs)
InC == Ev.args.c \in Conns
Sg == Ev.args.s
RxT(act) == Sg \in Segs /\ Rx(Ev.args.c, Sg, act)
RxXT(act) == Sg \in Segs /\ RxX(Ev.args.c, Sg, act)
RxFT(act) == Sg \in Segs /\ RxF(Ev.args.c, Sg, act)
OwnT(act) == Sg = "own" /\ Rx(Ev.args.c, "own", act)
OwnXT(act) == Sg = "own" /\ RxX(Ev.args.c, "own", act)
NoT(act) == Sg = "own" /\ NoRead /\ act
InD == Ev.args.d \in Dpids

TrAccept     == IsEvent("Accept") /\ InC /\ NoT(Accept(Ev.args.c)) /\ Matches
TrNoise      == IsEvent("RxNoise") /\ InC /\ Ev.args.k \in NoiseKinds
                /\ RxT(RxNoise(Ev.args.c, Ev.args.k)) /\ Matches
TrFeatures   == IsEvent("RxFeatures") /\ InC /\ InD
                /\ RxFT(RxFeatures(Ev.args.c, Ev.args.d)) /\ Matches
TrBarrier    == IsEvent("RxBarrier") /\ InC /\ Ev.args.k \in {"match", "other"}
                /\ (IF Ev.args.k = "match" THEN RxXT(RxBarrier(Ev.args.c, Ev.args.k))
                    ELSE RxT(RxBarrier(Ev.args.c, Ev.args.k))) /\ Matches
TrReject     == IsEvent("RxBarrierReject") /\ InC /\ OwnXT(RxBarrierReject(Ev.args.c)) /\ Matches
TrErr        == IsEvent("RxErr") /\ InC /\ Ev.args.k \in ErrKinds
                /\ (IF Ev.args.k = "xid" THEN RxT(RxErr(Ev.args.c, Ev.args.k))
                    ELSE RxXT(RxErr(Ev.args.c, Ev.args.k))) /\ Matches
TrPortStatus == IsEvent("RxPortStatus") /\ InC /\ Ev.args.p \in Ports
                /\ RxT(RxPortStatus(Ev.args.c, Ev.args.p)) /\ Matches
TrEchoFail   == IsEvent("RxEchoFail") /\ InC /\ OwnT(RxEchoFail(Ev.args.c)) /\ Matches
TrEchoFailThen == IsEvent("RxEchoFailThen") /\ InC /\ Ev.args.k \in {"match", "unsup"}
                /\ OwnXT(RxEchoFailThen(Ev.args.c, Ev.args.k)) /\ Matches
TrDisconnect == IsEvent("Disconnect") /\ InC /\ NoT(Disconnect(Ev.args.c)) /\ Matches
TrClose      == IsEvent("Close") /\ InC /\ NoT(Close(Ev.args.c)) /\ Matches
TrSendTo     == IsEvent("SendTo") /\ InD /\ NoT(SendTo(Ev.args.d)) /\ Matches
TrSendToFail == IsEvent("SendToFail") /\ InD /\ NoT(SendToFail(Ev.args.d)) /\ Matches

TrNext == \/ TrAccept \/ TrNoise \/ TrFeatures \/ TrBarrier \/ TrReject \/ TrErr
          \/ TrPortStatus \/ TrEchoFail \/ TrEchoFailThen \/ TrDisconnect \/ TrClose
          \/ TrSendTo \/ TrSendToFail
TrSpec == TrInit /\ [][TrNext]_tvars

Progress == TLCSet(tid, IF TLCGet(tid) < l - 1 THEN l - 1 ELSE TLCGet(tid))
Ok(t) == TLCGet(t) = Len(Traces[t]) \/ (PrintT(<<"REJECT", t, TLCGet(t)>>) /\ FALSE)
Accepted == /\ PrintT(<<"TRACES-CHECKED", NT>>)
            /\ Cardinality({t \in 1..NT : ~Ok(t)}) = 0
====
