CONSTANTS NC = 3
  Dpids <- MCDpids1
  Ports <- MCPorts1
  MaxPS = 0
  NoiseKinds <- MCNoiseFew
  ErrKinds <- MCErrFew
  Segs <- MCSegOwn
  MaxAcc = 3
  D = 1
INIT Init
NEXT Next
VIEW viewE
ACTION_CONSTRAINT ExportGuided
CHECK_DEADLOCK FALSE
