CONSTANTS NC = 2
  Dpids <- MCDpids2
  Ports <- MCPorts2
  MaxPS = 2
  NoiseKinds <- MCNoiseAll
  ErrKinds <- MCErrAll
  Segs <- MCSegOwn
  MaxAcc = 3
  D = 1
INIT Init
NEXT Next
VIEW viewE
ACTION_CONSTRAINT ExportGuided
CHECK_DEADLOCK FALSE
