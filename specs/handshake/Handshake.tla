---------------------------- MODULE Handshake ----------------------------
(* C09: lifecycle of OpenFlow connections in the controller and the          *)
(* registry  datapath id -> connection  (core.openflow.connections).          *)
(*                                                                          *)
(* Connections 1..NC are accepted in order by the accept/read/close loop.    *)
(* Each message a switch can send during or after the handshake is one       *)
(* action; so is every way a connection can be lost: the peer closes         *)
(* (Close), a write fails (RxEchoFail[Then], SendToFail: it gives the       *)
(* connection up and learns of the close later), the controller itself       *)
(* disconnects (Disconnect, or a barrier reply it did not ask for).          *)
(*                                                                          *)
(* Every action logs what an observer must see in that step:                 *)
(*   ev  - lifecycle events raised (connection-up, connection-down,          *)
(*         port-status), in order; the same sequence on the nexus and on     *)
(*         the connection objects.  Each event also carries what its HANDLER *)
(*         sees at that instant: r = the connection the registry gives for   *)
(*         the event's dpid, t = the connection a sendToDPID(dpid) issued    *)
(*         from inside the handler reaches (0 = none)                        *)
(*   reg - the registry after the step, as a set of <<dpid, connection>>     *)
(*   gone- the connections whose socket the controller has shut down or      *)
(*         closed (what the switch sees as the end of the TCP session)       *)
(*   to  - the connection whose socket received the bytes of SendTo (0 none) *)
(*   ok  - result of SendTo                                                  *)
(*                                                                          *)
(* SEGMENTATION.  TCP delivers a byte stream: one read of the controller may  *)
(* bring several consecutive messages of a connection, and a message may be  *)
(* split over two reads.  Every Rx action therefore carries seg:              *)
(*   "own"   - the message ends a read (alone or after "more" messages)      *)
(*   "more"  - the read also holds the NEXT message of this connection: the  *)
(*             read is still being processed (rd = c), nothing else can      *)
(*             happen in between, nothing is observable from outside yet     *)
(*   "split" - like "own", but the read ends inside this message and a       *)
(*             second read brings the rest                                   *)
(* The effect of a message on the state is the SAME whatever its seg: the    *)
(* outcome of a coalesced or split delivery is by definition that of         *)
(* one-message-per-read delivery.  Only the observation differs: a "more"    *)
(* step logs the empty placeholder and its events are accumulated in acc;    *)
(* the step closing the read logs acc followed by its own events.            *)
(*                                                                          *)
(* Latitude left to the implementation (property statement is silent):       *)
(*  - a connection that had announced its dpid but was never announced up    *)
(*    (half-open) may or may not get a connection-down when it goes away;    *)
(*  - connection-down of an announced connection may be raised when the      *)
(*    controller gives it up or be deferred until the socket is closed;      *)
(*  - a port-status that arrives BEFORE the features reply is superseded by  *)
(*    the port list of that reply: it may be dropped or delivered after      *)
(*    connection-up (in arrival order) with the later ones;                  *)
(*  - a barrier reply with an xid the controller did not use, while its own  *)
(*    barrier is pending, may be ignored or make the controller drop the     *)
(*    (half-open) connection;                                                *)
(*  - a failed write may make the controller give the connection up at once   *)
(*    or be ignored until the read side reports the loss.                     *)
(* NOT left open: exactly-once of up/down, order and completeness of the      *)
(* port-status delivered after connection-up, never an event or a registry    *)
(* entry for a connection the controller has given up, the registry itself.   *)
EXTENDS Naturals, Sequences, FiniteSets, TLC, Json

CONSTANTS NC,       \* connections 1..NC
          Dpids,    \* datapath ids (integers >= 1, concretised by the harness)
          Ports,    \* port numbers carried by port-status messages
          MaxPS,    \* bound on buffered early port-status per connection
          Segs,     \* subset of {"own","more","split"} containing "own"
          MaxAcc,   \* bound on the events accumulated in one coalesced read
          NoiseKinds, \* subset of {"hello","desc","echo","pktin"}: messages without
                    \* lifecycle effect that are interleaved
          ErrKinds, \* subset of {"unsup","type","code","xid"}: error messages
          D         \* export depth; 0 = do not keep the history

Conns == 1..NC

VARIABLES ph,     \* [Conns -> {"none","open","closed"}] socket in the loop
          lost,   \* [Conns -> BOOLEAN] given up by the controller, not yet closed
          feat,   \* [Conns -> Dpids \cup {0}] dpid of the features reply, 0 = none
          ann,    \* [Conns -> BOOLEAN] connection-up was raised
          down,   \* [Conns -> BOOLEAN] connection-down was raised
          defer,  \* [Conns -> Seq([p : Ports, firm : BOOLEAN])] early port-status
                  \* waiting for connection-up; firm = arrived after the features
                  \* reply (must be delivered), ~firm = before it (may be dropped)
          reg,    \* [Dpids -> Conns \cup {0}] registry, 0 = dpid not reachable
          ups,    \* live announced connections, in order of handshake completion
          rd,     \* connection whose read is being processed ("more"), 0 = none
          acc,    \* events raised so far in that read (observed when it ends)
          fr,     \* the open read contains the features reply: the switch cannot
                  \* have seen the controller's barrier request yet, so nothing
                  \* carrying the barrier's xid can be in the same read
          sg,     \* seg of the step just taken (copied into last.args)
          last,   \* observation of the last action; last.own = events raised by
                  \* this very message (what the properties talk about)
          hist    \* all observations (export only)
vars  == <<ph, lost, feat, ann, down, defer, reg, ups, rd, acc, fr, sg, last, hist>>
\* VIEW of all model-checking and export runs: `last`/`hist` are observations,
\* no invariant mentions them and the action properties read only last'
viewE == <<ph, lost, feat, ann, down, defer, reg, ups, rd, acc, fr>>

Live(c)   == ph[c] = "open" /\ ~lost[c]
HalfOpen(c) == Live(c) /\ ~ann[c]
IsUp(c)   == Live(c) /\ ann[c]             \* live and fully handshaken

\* event k of connection c with argument x (dpid / port); rr = the connection
\* registered for c's dpid while the handlers of the event run
E(k, c, x, rr) == [k |-> k, c |-> c, x |-> x, r |-> rr, t |-> rr]
A(c, d, p, k) == [c |-> c, d |-> d, p |-> p, k |-> k, s |-> "own"]
RegPairs(r) == {<<d, r[d]>> : d \in {dd \in Dpids : r[dd] # 0}}
O(ev, r, g, to, ok) == [ev |-> ev, reg |-> RegPairs(r), gone |-> g, to |-> to, ok |-> ok]
Gone == {c \in Conns : ph[c] = "closed" \/ lost[c]}

\* what an outside observer sees while a read is still being processed
Placeholder == O(<<>>, [d \in Dpids |-> 0], {}, 0, TRUE)
NoObs == [a |-> "Init", args |-> A(0, 0, 0, ""), exp |-> Placeholder, own |-> <<>>]

Init == /\ ph = [c \in Conns |-> "none"]
        /\ lost = [c \in Conns |-> FALSE]
        /\ feat = [c \in Conns |-> 0]
        /\ ann = [c \in Conns |-> FALSE]
        /\ down = [c \in Conns |-> FALSE]
        /\ defer = [c \in Conns |-> <<>>]
        /\ reg = [d \in Dpids |-> 0]
        /\ ups = <<>>
        /\ rd = 0 /\ acc = <<>> /\ fr = FALSE /\ sg = "own"
        /\ last = NoObs
        /\ hist = <<>>

\* rd' and sg' are fixed by the step's wrapper (InRead / NoRead) BEFORE the
\* action's own conjuncts, so Log can tell whether the read stays open
Log(a, args, exp) ==
  LET args2 == [args EXCEPT !.s = sg']
      seen  == IF rd' # 0 THEN Placeholder ELSE [exp EXCEPT !.ev = acc \o exp.ev]
  IN
  /\ acc' = IF rd' # 0 THEN acc \o exp.ev ELSE <<>>
  /\ last' = [a |-> a, args |-> args2, exp |-> seen, own |-> exp.ev]
  /\ hist' = IF D > 0 THEN Append(hist, [a |-> a, args |-> args2, exp |-> seen])
             ELSE hist

\* wrapper of a step that is not the delivery of a switch message
NoRead == rd = 0 /\ rd' = 0 /\ sg' = "own" /\ fr' = FALSE
\* wrapper of the delivery of a message on c with segmentation seg
InRead(c, seg) == /\ rd \in {0, c} /\ sg' = seg
                  /\ rd' = IF seg = "more" THEN c ELSE 0
\* a read continues only on a connection the controller still serves
StaysOpen(c, seg) == seg = "more" => (~lost'[c] /\ Len(acc') <= MaxAcc)

\* most recent connection in u (other than x) whose dpid is d; 0 = none
LatestIn(u, d, x) ==
  LET S == {i \in 1..Len(u) : u[i] # x /\ feat[u[i]] = d} IN
  IF S = {} THEN 0 ELSE u[CHOOSE i \in S : \A j \in S : j <= i]

Without(u, c) == SelectSeq(u, LAMBDA x : x # c)

\* registry once c is no longer live: if c was the registered connection its
\* dpid falls back to the most recent other live announced connection
RegWithout(c) ==
  IF ann[c] /\ reg[feat[c]] = c
  THEN [reg EXCEPT ![feat[c]] = LatestIn(ups, feat[c], c)]
  ELSE reg

\* may / must connection-down be raised for c now?  final = socket is closed
DownChoices(c, final) ==
  IF down[c] \/ feat[c] = 0 THEN {FALSE}
  ELSE IF ann[c] /\ final THEN {TRUE}
  ELSE {TRUE, FALSE}

\* rg = the registry at the instant the event is delivered
DownEv(c, r, rg) == IF r THEN <<E("Down", c, feat[c], rg[feat[c]])>> ELSE <<>>
PSEvs(c, s, rg) == [i \in 1..Len(s) |-> E("PS", c, s[i], rg[feat[c]])]
\* ports of the buffered messages that are delivered when the optional ones
\* with index in keep are kept: arrival order preserved
Optional(s) == {i \in 1..Len(s) : ~s[i].firm}
Kept(s, keep) ==
  LET idx == {i \in 1..Len(s) : s[i].firm \/ i \in keep} IN
  [j \in 1..Cardinality(idx) |->
     s[CHOOSE i \in idx : Cardinality({k \in idx : k < i}) = j - 1].p]

Quiet(a, args) ==        \* a step without lifecycle effect
  /\ UNCHANGED <<ph, lost, feat, ann, down, defer, reg, ups>>
  /\ Log(a, args, O(<<>>, reg, Gone, 0, TRUE))

\* the controller gives c up (socket stays in the loop until Close)
GiveUp(c, r, a, args, ok) ==
  /\ lost' = [lost EXCEPT ![c] = TRUE]
  /\ down' = [down EXCEPT ![c] = down[c] \/ r]
  /\ reg' = RegWithout(c)
  /\ ups' = Without(ups, c)
  /\ defer' = [defer EXCEPT ![c] = <<>>]
  /\ UNCHANGED <<ph, feat, ann>>
  /\ Log(a, args, O(DownEv(c, r, RegWithout(c)), RegWithout(c), Gone \cup {c}, 0, ok))

----------------------------------------------------------------------------
\* the loop accepts the next TCP session
Accept(c) ==
  /\ ph[c] = "none" /\ \A b \in Conns : b < c => ph[b] # "none"
  /\ ph' = [ph EXCEPT ![c] = "open"]
  /\ UNCHANGED <<lost, feat, ann, down, defer, reg, ups>>
  /\ Log("Accept", A(c, 0, 0, ""), O(<<>>, reg, Gone, 0, TRUE))

\* HELLO, description stats reply, echo request, packet-in: never a
\* lifecycle effect, in any state of a live connection
RxNoise(c, k) ==
  /\ Live(c) /\ Quiet("RxNoise", A(c, 0, 0, k))

\* features reply (the handshake expects exactly one)
RxFeatures(c, d) ==
  /\ HalfOpen(c) /\ feat[c] = 0
  /\ feat' = [feat EXCEPT ![c] = d]
  /\ UNCHANGED <<ph, lost, ann, down, defer, reg, ups>>
  /\ Log("RxFeatures", A(c, d, 0, ""), O(<<>>, reg, Gone, 0, TRUE))

\* the handshake completes: connection-up, then the buffered port-status
Complete(c, a, args) ==
  LET d == feat[c] IN
  LET r2 == [reg EXCEPT ![d] = c] IN
  /\ ann' = [ann EXCEPT ![c] = TRUE]
  /\ reg' = r2
  /\ ups' = Append(ups, c)
  /\ defer' = [defer EXCEPT ![c] = <<>>]
  /\ UNCHANGED <<ph, lost, feat, down>>
  /\ \E keep \in SUBSET Optional(defer[c]) :
       Log(a, args, O(<<E("Up", c, d, c)>> \o PSEvs(c, Kept(defer[c], keep), r2),
                      r2, Gone, 0, TRUE))

\* the handshake completes and a ConnectionUp listener on the connection
\* rejects the switch: it calls disconnect() from inside its handler.  While
\* connection-up is delivered the registry leads to c; afterwards c is given
\* up like in Disconnect.  (Modelled without buffered port-status: whether
\* those are still delivered to a rejected connection is left open.)
RxBarrierReject(c) ==
  LET d == feat[c] IN
  LET r2 == [reg EXCEPT ![d] = LatestIn(ups, d, c)] IN   \* c registered, then gone
  /\ HalfOpen(c) /\ d # 0 /\ defer[c] = <<>>
  /\ ann' = [ann EXCEPT ![c] = TRUE]
  /\ lost' = [lost EXCEPT ![c] = TRUE]
  /\ reg' = r2
  /\ UNCHANGED <<ph, feat, defer, ups>>
  /\ \E r \in BOOLEAN :
       /\ down' = [down EXCEPT ![c] = r]
       /\ Log("RxBarrierReject", A(c, 0, 0, "match"),
              O(<<E("Up", c, d, c)>> \o (IF r THEN <<E("Down", c, d, r2[d])>> ELSE <<>>),
                r2, Gone \cup {c}, 0, TRUE))

\* barrier reply: k = "match" carries the xid of the controller's pending
\* (or, once up, completed) barrier request, "other" any other xid
RxBarrier(c, k) ==
  /\ Live(c)
  /\ k = "match" => feat[c] # 0
  /\ IF HalfOpen(c) /\ feat[c] # 0
     THEN IF k = "match"
          THEN Complete(c, "RxBarrier", A(c, 0, 0, k))
          ELSE \/ Quiet("RxBarrier", A(c, 0, 0, k))
               \/ \E r \in DownChoices(c, FALSE) :
                    GiveUp(c, r, "RxBarrier", A(c, 0, 0, k), TRUE)
     ELSE Quiet("RxBarrier", A(c, 0, 0, k))

\* error message: k = "unsup"  BAD_REQUEST/BAD_TYPE answering the barrier
\*                k = "type" / "code"  same xid, other error type / code
\*                k = "xid"   BAD_REQUEST/BAD_TYPE for some other request
RxErr(c, k) ==
  /\ Live(c)
  /\ k # "xid" => feat[c] # 0
  /\ IF HalfOpen(c) /\ feat[c] # 0 /\ k = "unsup"
     THEN Complete(c, "RxErr", A(c, 0, 0, k))
     ELSE Quiet("RxErr", A(c, 0, 0, k))

RxPortStatus(c, p) ==
  /\ Live(c)
  /\ IF ann[c]
     THEN /\ UNCHANGED <<ph, lost, feat, ann, down, defer, reg, ups>>
          /\ Log("RxPortStatus", A(c, 0, p, ""),
                 O(<<E("PS", c, p, reg[feat[c]])>>, reg, Gone, 0, TRUE))
     ELSE /\ Len(defer[c]) < MaxPS
          /\ defer' = [defer EXCEPT ![c] =
                         Append(defer[c], [p |-> p, firm |-> feat[c] # 0])]
          /\ UNCHANGED <<ph, lost, feat, ann, down, reg, ups>>
          /\ Log("RxPortStatus", A(c, 0, p, ""), O(<<>>, reg, Gone, 0, TRUE))

\* an echo request arrives and writing the reply fails: the controller gives
\* the connection up, or ignores the failed write and waits for the read side
RxEchoFail(c) ==
  /\ Live(c)
  /\ \/ \E r \in DownChoices(c, FALSE) : GiveUp(c, r, "RxEchoFail", A(c, 0, 0, ""), TRUE)
     \/ Quiet("RxEchoFail", A(c, 0, 0, ""))

\* the read that brought the failing echo request also holds the message that
\* would complete the handshake (k = "match": barrier reply, "unsup": barrier-
\* unsupported error): it reaches a connection the controller has just given
\* up, which must not be announced or registered any more
RxEchoFailThen(c, k) ==
  /\ Live(c) /\ feat[c] # 0
  /\ \/ \E r \in DownChoices(c, FALSE) :
          GiveUp(c, r, "RxEchoFailThen", A(c, 0, 0, k), TRUE)
     \/ \* the failed write was ignored: the second message is handled as usual
        IF HalfOpen(c) THEN Complete(c, "RxEchoFailThen", A(c, 0, 0, k))
        ELSE Quiet("RxEchoFailThen", A(c, 0, 0, k))

\* a component calls Connection.disconnect()
Disconnect(c) ==
  /\ Live(c)
  /\ \E r \in DownChoices(c, FALSE) : GiveUp(c, r, "Disconnect", A(c, 0, 0, ""), TRUE)

\* the loop sees end-of-file / an error on the socket and closes it
Close(c) ==
  /\ ph[c] = "open"
  /\ \E r \in DownChoices(c, TRUE) :
       LET r2 == IF Live(c) THEN RegWithout(c) ELSE reg IN
       /\ ph' = [ph EXCEPT ![c] = "closed"]
       /\ lost' = [lost EXCEPT ![c] = FALSE]
       /\ down' = [down EXCEPT ![c] = down[c] \/ r]
       /\ reg' = r2
       /\ ups' = Without(ups, c)
       /\ defer' = [defer EXCEPT ![c] = <<>>]
       /\ UNCHANGED <<feat, ann>>
       /\ Log("Close", A(c, 0, 0, ""), O(DownEv(c, r, r2), r2, Gone \cup {c}, 0, TRUE))

\* a component sends to a datapath id
SendTo(d) ==
  /\ UNCHANGED <<ph, lost, feat, ann, down, defer, reg, ups>>
  /\ Log("SendTo", A(0, d, 0, ""), O(<<>>, reg, Gone, reg[d], reg[d] # 0))

\* ... and the write fails (nothing reaches the switch; the controller gives
\* the connection up or ignores the failure)
SendToFail(d) ==
  /\ reg[d] # 0
  /\ \/ \E r \in DownChoices(reg[d], FALSE) :
          GiveUp(reg[d], r, "SendToFail", A(0, d, 0, ""), TRUE)
     \/ Quiet("SendToFail", A(0, d, 0, ""))

Rx(c, seg, act) == /\ InRead(c, seg) /\ act /\ StaysOpen(c, seg)
                   /\ fr' = (fr /\ seg = "more")
\* ... of a message that answers the controller's barrier request
RxX(c, seg, act) == ~fr /\ Rx(c, seg, act)
RxF(c, seg, act) == /\ InRead(c, seg) /\ act /\ StaysOpen(c, seg)
                    /\ fr' = (seg = "more")

\* the steps of the system: each action under its segmentation wrapper
StepAccept(c)        == NoRead /\ Accept(c)
StepNoise(c, k, g)   == g \in Segs /\ Rx(c, g, RxNoise(c, k))
StepFeatures(c, d, g) == g \in Segs /\ RxF(c, g, RxFeatures(c, d))
StepBarrier(c, k, g) == IF k = "match" THEN RxX(c, g, RxBarrier(c, k))
                        ELSE Rx(c, g, RxBarrier(c, k))
StepErr(c, k, g)     == IF k = "xid" THEN Rx(c, g, RxErr(c, k))
                        ELSE RxX(c, g, RxErr(c, k))
StepReject(c)        == c \in Conns /\ RxX(c, "own", RxBarrierReject(c))
StepPortStatus(c, p, g) == g \in Segs /\ Rx(c, g, RxPortStatus(c, p))
StepEchoFail(c)      == c \in Conns /\ Rx(c, "own", RxEchoFail(c))
StepEchoFailThen(c, k) == c \in Conns /\ RxX(c, "own", RxEchoFailThen(c, k))
StepDisconnect(c)    == NoRead /\ Disconnect(c)
StepClose(c)         == NoRead /\ Close(c)
StepSendTo(d)        == NoRead /\ SendTo(d)
StepSendToFail(d)    == NoRead /\ SendToFail(d)

Next == \/ \E c \in Conns : StepAccept(c)
        \/ \E c \in Conns, k \in NoiseKinds, g \in Segs : StepNoise(c, k, g)
        \/ \E c \in Conns, d \in Dpids, g \in Segs : StepFeatures(c, d, g)
        \/ \E c \in Conns, k \in {"match", "other"}, g \in Segs : StepBarrier(c, k, g)
        \/ \E c \in Conns, k \in ErrKinds, g \in Segs : StepErr(c, k, g)
        \/ \E c \in Conns : StepReject(c)
        \/ \E c \in Conns, p \in Ports, g \in Segs : StepPortStatus(c, p, g)
        \/ \E c \in Conns : StepEchoFail(c)
        \/ \E c \in Conns, k \in {"match", "unsup"} : StepEchoFailThen(c, k)
        \/ \E c \in Conns : StepDisconnect(c)
        \/ \E c \in Conns : StepClose(c)
        \/ \E d \in Dpids : StepSendTo(d)
        \/ \E d \in Dpids : StepSendToFail(d)

Spec == Init /\ [][Next]_vars
\* every socket the controller gave up is eventually closed by the loop
FairSpec == Spec /\ \A c \in Conns : WF_vars(StepClose(c))

----------------------------------------------------------------------------
(* The property, over the real variables.                                   *)

TypeOK ==
  /\ ph \in [Conns -> {"none", "open", "closed"}]
  /\ lost \in [Conns -> BOOLEAN] /\ ann \in [Conns -> BOOLEAN]
  /\ down \in [Conns -> BOOLEAN]
  /\ feat \in [Conns -> Dpids \cup {0}]
  /\ reg \in [Dpids -> Conns \cup {0}]
  /\ \A c \in Conns : Len(defer[c]) <= MaxPS
  /\ rd \in Conns \cup {0} /\ (rd = 0 => acc = <<>>) /\ Len(acc) <= MaxAcc

\* THE REGISTRY: a dpid is reachable iff some live, fully handshaken
\* connection has it, and then it reaches the one that completed last
InUps(c) == \E i \in 1..Len(ups) : ups[i] = c
RegistryExact ==
  /\ \A c \in Conns : InUps(c) <=> IsUp(c)
  /\ \A i, j \in 1..Len(ups) : i # j => ups[i] # ups[j]
  /\ \A d \in Dpids :
       /\ (reg[d] # 0) <=> (\E c \in Conns : IsUp(c) /\ feat[c] = d)
       /\ reg[d] # 0 =>
            /\ IsUp(reg[d]) /\ feat[reg[d]] = d
            /\ \A i, j \in 1..Len(ups) :
                 (ups[i] = reg[d] /\ feat[ups[j]] = d) => j <= i

\* connection-up only after the features reply; connection-down only for a
\* connection that is gone, at the latest when its socket is closed
LifecycleOK ==
  \A c \in Conns :
    /\ ann[c] => feat[c] # 0 /\ ph[c] # "none"
    /\ down[c] => ~Live(c) /\ feat[c] # 0
    /\ (ph[c] = "closed" /\ ann[c]) => down[c]

CountEv(ev, k, c) == Cardinality({i \in 1..Len(ev) : ev[i].k = k /\ ev[i].c = c})

\* connection-up exactly once, raised by the step that delivers the matching
\* barrier reply (or barrier-unsupported error) to a live connection whose
\* features reply has been seen
UpExactlyOnce ==
  [][\A c \in Conns :
       LET n == CountEv(last'.own, "Up", c) IN
       /\ n = (IF ann'[c] /\ ~ann[c] THEN 1 ELSE 0)
       /\ (ann[c] => ann'[c])
       /\ n = 1 => /\ Live(c) /\ feat[c] # 0 /\ feat'[c] = feat[c]
                   /\ last'.a \in {"RxBarrier", "RxErr", "RxEchoFailThen", "RxBarrierReject"}
                   /\ last'.args.c = c /\ last'.args.k \in {"match", "unsup"}
                   /\ last'.own[1] = E("Up", c, feat[c], c)]_vars

\* connection-down at most once, exactly once for an announced connection by
\* the time its socket is closed, never for a live connection
DownExactlyOnce ==
  [][\A c \in Conns :
       LET n == CountEv(last'.own, "Down", c) IN
       /\ n = (IF down'[c] /\ ~down[c] THEN 1 ELSE 0)
       /\ (down[c] => down'[c])
       /\ n = 1 => ~(ph'[c] = "open" /\ ~lost'[c])
       /\ (ph'[c] = "closed" /\ ann'[c]) => down'[c]]_vars

\* port-status: immediately when up; buffered in arrival order while the
\* handshake is in progress and delivered right after connection-up, all of
\* them, once; never an event for a connection that is not announced
PortStatusOrder ==
  [][\A c \in Conns :
       LET evc == SelectSeq(last'.own, LAMBDA e : e.c = c /\ e.k # "Down") IN
       /\ (evc # <<>> /\ evc[1].k = "PS") =>
             /\ ann[c] /\ last'.a = "RxPortStatus" /\ last'.args.c = c
             /\ evc = <<E("PS", c, last'.args.p, reg'[feat[c]])>>
       /\ (evc # <<>> /\ evc[1].k = "Up") =>
             \* every message that arrived after the features reply, in
             \* arrival order, possibly with earlier ones, nothing else
             /\ \E keep \in SUBSET Optional(defer[c]) :
                  evc = <<E("Up", c, feat[c], c)>> \o PSEvs(c, Kept(defer[c], keep), reg')
             /\ defer'[c] = <<>>
       /\ (last'.a = "RxPortStatus" /\ last'.args.c = c) =>
             \/ ann[c] /\ evc = <<E("PS", c, last'.args.p, reg'[feat[c]])>>
             \/ /\ ~ann[c] /\ evc = <<>>
                /\ defer'[c] = Append(defer[c], [p |-> last'.args.p,
                                                 firm |-> feat[c] # 0])
       /\ (IsUp(c) /\ ph'[c] = "open" /\ ~lost'[c]) => defer'[c] = <<>>
       \* buffered messages are only ever appended to, until delivery or loss
       /\ (~ann'[c] /\ ph'[c] = "open" /\ ~lost'[c] /\ ph[c] = "open") =>
             \/ defer'[c] = defer[c]
             \/ \E p \in Ports, f \in BOOLEAN :
                  defer'[c] = Append(defer[c], [p |-> p, firm |-> f])]_vars

\* sending to a dpid reaches its most recent live announced connection
SendReaches ==
  [][last'.a = "SendTo" =>
       LET d == last'.args.d IN
       /\ last'.exp.ok = (\E c \in Conns : IsUp(c) /\ feat[c] = d)
       /\ last'.exp.ok => /\ last'.exp.to = LatestIn(ups, d, 0)
                          /\ IsUp(last'.exp.to) /\ feat[last'.exp.to] = d
       /\ ~last'.exp.ok => last'.exp.to = 0]_vars

\* WHAT HANDLERS SEE: while connection-up of c is delivered the registry (and
\* a send by dpid) leads to c; while connection-down of c is delivered it no
\* longer does - it leads to the most recent other live announced connection
\* of that dpid or nowhere; a port-status handler sees the registry of the
\* state the step ends in.  Never a connection that is not live and announced.
InHandlerView ==
  [][\A i \in 1..Len(last'.own) :
       LET e == last'.own[i] IN
       /\ e.t = e.r
       /\ e.k = "Up" => e.r = e.c
       /\ e.k = "Down" => e.r # e.c /\ e.r = reg'[feat[e.c]]
       /\ e.k = "PS" => e.r = reg'[feat[e.c]] /\ e.r # 0
       /\ (e.r # 0 /\ e.r # e.c) =>
             ph'[e.r] = "open" /\ ~lost'[e.r] /\ ann'[e.r] /\ feat[e.r] = feat[e.c]]_vars

\* the registry reported in every observation is the registry
ObsRegistry ==
  [][IF rd' # 0 THEN last'.exp = Placeholder
     ELSE /\ last'.exp.reg = RegPairs(reg')
          /\ last'.exp.gone = {c \in Conns : ph'[c] = "closed" \/ lost'[c]}]_vars

\* SEGMENTATION CHANGES NOTHING BUT THE MOMENT OF OBSERVATION: whatever seg,
\* the events a read shows when it ends are exactly the events of its
\* messages, in order - none lost, none duplicated, none reordered; while a
\* read is open only its connection is served, and it is a live one
ReadIsSum ==
  [][/\ (rd' # 0) => (acc' = acc \o last'.own /\ ph'[rd'] = "open" /\ ~lost'[rd'])
     /\ (rd' = 0) => (acc' = <<>> /\ last'.exp.ev = acc \o last'.own)
     /\ (rd # 0) => (last'.args.c = rd /\ last'.a \in {"RxNoise", "RxFeatures",
                         "RxBarrier", "RxErr", "RxPortStatus", "RxBarrierReject",
                         "RxEchoFail", "RxEchoFailThen"})]_vars

\* liveness (FairSpec): an announced connection that is lost gets its
\* connection-down
DownEventually == \A c \in Conns : (ann[c] /\ ~Live(c)) ~> down[c]

\* ---- export for the replay harness
\* one behaviour per transition; loop = the transition leaves the abstract state
\* unchanged (the harness chains such steps from the same source state)
ExportT == PrintT(<<"T", ToJson([h |-> hist', loop |-> (viewE' = viewE)])>>)

\* Which of the permitted alternatives the implementation at the pinned commit
\* takes.  Used ONLY to steer the export (ACTION_CONSTRAINT ExportGuided): every
\* transition out of a visited state is exported - all alternatives included,
\* so the replay accepts any of them - but the search continues only through
\* successors the implementation can actually reach, so that the exported
\* prefixes are realisable on the real code.  It never decides a verdict: an
\* implementation that makes other permitted choices is still accepted, it
\* merely leaves more exported behaviours unfinished ("diverted").
ImplChoice ==
  LET a == last'.a
      c == last'.args.c
      raised == last'.own # <<>>
  IN
  /\ a \in {"RxEchoFail", "RxEchoFailThen"} => lost'[c] /\ ~raised  \* gives up, event
  /\ a = "SendToFail" => lost'[reg[last'.args.d]] /\ ~raised       \* deferred to close
  /\ a = "Disconnect" => (raised <=> TRUE \in DownChoices(c, FALSE))
  /\ a = "RxBarrierReject" => Len(last'.own) = 2              \* disconnect() raises at once
  /\ (a = "RxBarrier" /\ last'.args.k = "other" /\ HalfOpen(c) /\ feat[c] # 0) =>
        lost'[c] /\ ~raised                                       \* dropped silently
  /\ (a = "Close" /\ Live(c)) => (raised <=> TRUE \in DownChoices(c, TRUE))
  /\ (a \in {"RxBarrier", "RxErr", "RxEchoFailThen"} /\ ~ann[c] /\ ann'[c]) =>  \* pre-features PS dropped
        Len(last'.own) = 1 + Cardinality({i \in 1..Len(defer[c]) : defer[c][i].firm})
ExportGuided == ExportT /\ ImplChoice
=============================================================================
