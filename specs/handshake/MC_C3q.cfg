CONSTANTS NC = 3
  Dpids <- MCDpids2
  Ports <- MCPorts1
  MaxPS = 1
  NoiseKinds <- MCNoiseAll
  ErrKinds <- MCErrAll
  Segs <- MCSegOwn
  MaxAcc = 3
  D = 0
INIT Init
NEXT Next
VIEW viewE
INVARIANT TypeOK
INVARIANT RegistryExact
INVARIANT LifecycleOK
PROPERTY ObsRegistry
PROPERTY UpExactlyOnce
PROPERTY DownExactlyOnce
PROPERTY PortStatusOrder
PROPERTY SendReaches
PROPERTY InHandlerView
PROPERTY ReadIsSum
CHECK_DEADLOCK FALSE
