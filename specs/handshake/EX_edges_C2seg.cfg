CONSTANTS NC = 2
  Dpids <- MCDpids2
  Ports <- MCPorts1
  MaxPS = 1
  NoiseKinds <- MCNoiseAll
  ErrKinds <- MCErrAll
  Segs <- MCSegAll
  MaxAcc = 3
  D = 1
INIT Init
NEXT Next
VIEW viewE
ACTION_CONSTRAINT ExportGuided
CHECK_DEADLOCK FALSE
