CONSTANTS NC = 4
  Dpids <- MCDpids2
  Ports <- MCPorts2
  MaxPS = 3
  NoiseKinds <- MCNoiseAll
  ErrKinds <- MCErrAll
  Segs <- MCSegAll
  MaxAcc = 24
  D = 0
INIT TrInit
NEXT TrNext
CONSTRAINT Progress
POSTCONDITION Accepted
INVARIANT TypeOK
INVARIANT RegistryExact
INVARIANT LifecycleOK
CHECK_DEADLOCK FALSE
