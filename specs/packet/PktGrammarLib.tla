-------------------------- MODULE PktGrammarLib --------------------------
(* C15: the grammar of header stacks of the POX packet library and the     *)
(* layout arithmetic (no variables, no constants): shared by PktGrammar    *)
(* (truncation of known frames) and PktGrammarAny (damaged / unknown bytes).*)
EXTENDS Naturals, Sequences, FiniteSets

L(k, v) == [k |-> k, v |-> v]
Min(a, b) == IF a < b THEN a ELSE b
Max0(a, b) == IF a > b THEN a - b ELSE 0          \* a - b, floored at 0

----------------------------------------------------------------------------
(* Part 1: grammar                                                          *)

Vars(k) ==
  CASE k = "eth"  -> {"-"}
    [] k = "vlan" -> {"c0", "c1"}
    [] k = "llc"  -> {"u", "i", "snap0", "snapx", "snapi"}
    [] k = "mpls" -> {"bos", "nobos", "mc"}
    [] k = "arp"  -> {"req", "rep", "rreq"}
    [] k = "ip4"  -> {"plain", "opts", "frag"}
    [] k = "ip6"  -> {"plain", "hbh", "rt", "dst", "frag", "hbhdst", "nonext", "dstx20"}
    [] k = "udp"  -> {"-"}
    [] k = "tcp"  -> {"plain", "eol", "opts", "sack", "mpcap", "mpjoin", "mpdss", "unk", "unkmax", "optmax"}
    [] k = "echo" -> {"req", "rep"}
    [] k = "igmp" -> {"query", "report1", "report2", "leave", "v3report"}
    [] k = "gre"  -> {"plain", "key", "seq", "keyseq", "csum", "route"}
    [] k = "dhcp" -> {"bootp", "bare", "end", "disc", "offer", "overload", "long", "longover"}
    [] k = "dns"  -> {"empty", "q", "mdns", "resp", "multi", "txtlong", "many"}
    [] k = "rip"  -> {"req", "resp", "full25"}
    [] k = "lldp" -> {"min", "full", "netport", "macport", "long"}
    [] k = "eapol" -> {"eap", "start", "logoff", "key"}
    [] k = "eap"  -> {"reqid", "respid", "success", "failure", "md5"}
    [] k = "echo6" -> {"req", "rep"}
    [] k = "rs"   -> {"plain", "slla"}
    [] k = "ra"   -> {"plain", "full"}
    [] k = "ns"   -> {"plain", "slla", "gen"}
    [] k = "na"   -> {"plain", "tlla"}
    [] OTHER      -> {"-"}        \* icmp unreach timex vxlan icmp6 unreach6 toobig timex6

Prim(k) ==
  CASE k = "vlan" -> "c0"   [] k = "llc" -> "snap0"  [] k = "mpls" -> "bos"
    [] k = "arp" -> "req"   [] k = "ip4" -> "plain"  [] k = "ip6" -> "plain"
    [] k = "tcp" -> "plain" [] k = "echo" -> "req"   [] k = "igmp" -> "query"
    [] k = "gre" -> "plain" [] k = "dhcp" -> "disc"  [] k = "dns" -> "q"
    [] k = "rip" -> "req"   [] k = "lldp" -> "min"   [] k = "eapol" -> "eap"
    [] k = "eap" -> "reqid" [] k = "echo6" -> "req"  [] k = "rs" -> "plain"
    [] k = "ra" -> "plain"  [] k = "ns" -> "plain"   [] k = "na" -> "plain"
    [] OTHER -> "-"

Last(s) == s[Len(s)]
KindsIn(s) == {s[j].k : j \in 1..Len(s)}
L2Next == {"vlan", "arp", "ip4", "ip6", "lldp", "eapol", "mpls", "llc", "raw"}

\* what may follow the last layer of the stack s ("raw" = opaque payload; {} = the layer is a leaf)
ChildKinds(s) ==
  LET l == Last(s) IN
  CASE l.k \in {"eth", "vlan"} -> L2Next
    [] l.k = "llc"  -> IF l.v = "snap0" THEN {"ip4", "arp"} ELSE {"raw"}
    [] l.k = "mpls" -> IF l.v = "nobos" THEN {"mpls"} ELSE {"raw"}
    [] l.k = "ip4"  -> IF l.v = "frag" THEN {"raw"}
                       ELSE IF l.v = "orig" THEN {"udp"}
                       ELSE {"udp", "tcp", "icmp", "igmp", "gre", "raw"}
    [] l.k = "ip6"  -> IF l.v = "nonext" THEN {} ELSE {"udp", "tcp", "icmp6", "raw"}
    [] l.k = "udp"  -> IF l.v = "orig" THEN {"raw"}
                       ELSE IF Len(s) > 1 /\ s[Len(s) - 1].k = "ip6" THEN {"dns", "raw"}
                       ELSE {"dhcp", "dns", "rip", "vxlan", "raw"}
    [] l.k = "icmp" -> {"echo", "unreach", "timex", "raw"}
    [] l.k \in {"unreach", "timex"} -> {"ip4", "raw"}
    [] l.k = "gre"  -> {"ip4", "eth", "raw"}
    [] l.k = "vxlan" -> {"eth"}
    [] l.k = "eapol" -> IF l.v = "eap" THEN {"eap"} ELSE IF l.v = "key" THEN {"raw"} ELSE {}
    [] l.k = "icmp6" -> {"echo6", "unreach6", "toobig", "timex6", "rs", "ra", "ns", "na", "raw"}
    [] l.k = "unreach6" -> {"ip6", "raw"}
    [] l.k \in {"arp", "tcp", "echo", "echo6", "toobig", "timex6"} -> {"raw"}
    [] OTHER -> {}     \* igmp dhcp dns rip lldp eap rs ra ns na: the layer consumes the rest
Leaf(s) == ChildKinds(s) = {}

VarsUnder(s, k) ==
  LET l == Last(s) IN
  IF k = "ip4" /\ l.k \in {"unreach", "timex"} THEN {"plain", "orig"}   \* orig: a quoted datagram, cut short
  ELSE IF k = "udp" /\ l = L("ip4", "orig") THEN {"orig"}
  ELSE IF k = "ip6" /\ l.k = "unreach6" THEN {"plain"}
  ELSE IF k = "mpls" /\ l.k = "mpls" THEN {"bos"}
  ELSE IF k = "mpls" THEN {"bos", "nobos", "mc"}
  ELSE Vars(k)

\* the representative continuation used below the level of full expansion
RepPref(l) ==
  CASE l.k = "eth" -> "arp"   [] l.k = "vlan" -> "ip4"  [] l.k = "ip4" -> "udp"
    [] l.k = "ip6" -> "udp"   [] l.k = "icmp" -> "echo" [] l.k = "icmp6" -> "echo6"
    [] l.k = "gre" -> "ip4"   [] l.k = "vxlan" -> "eth" [] l.k \in {"unreach", "timex"} -> "ip4"
    [] l.k = "unreach6" -> "ip6" [] l.k = "llc" -> "ip4" [] l.k = "mpls" -> "mpls"
    [] l.k = "eapol" -> "eap"
    [] OTHER -> "raw"
RepKind(s) ==
  LET c == ChildKinds(s) IN
  IF RepPref(Last(s)) \in c THEN RepPref(Last(s))
  ELSE IF "raw" \in c THEN "raw" ELSE CHOOSE x \in c : TRUE
RepVar(s, k) == IF k = "udp" /\ Last(s) = L("ip4", "orig") THEN "orig" ELSE Prim(k)

(* Expansion levels bound the corpus: 3 = every child kind x every variant,  *)
(* children again at level 3 when primary; 2 = every child kind x every      *)
(* variant, representative completion below; 1 = representative only.        *)
(* Every dispatch edge (parent variant -> child kind/variant) is generated.  *)
Shallow == {"vlan", "llc", "mpls", "gre", "vxlan", "unreach", "timex", "unreach6"}
ChildLevel(s, lvl, c) ==
  IF lvl < 3 THEN 1
  ELSE IF c.k \in KindsIn(s) THEN 1
  ELSE IF c.v = Prim(c.k) /\ c.k \notin Shallow THEN 3
  ELSE 2

RECURSIVE Comp(_, _)
Comp(s, lvl) ==
  IF Leaf(s) THEN {[st |-> s, full |-> lvl = 3]}
  ELSE UNION { IF c = "raw" THEN {[st |-> s, full |-> lvl = 3]}
               ELSE UNION { Comp(Append(s, L(c, v)), ChildLevel(s, lvl, L(c, v)))
                            : v \in (IF lvl = 1 THEN {RepVar(s, c)} ELSE VarsUnder(s, c)) }
             : c \in (IF lvl = 1 THEN {RepKind(s)} ELSE ChildKinds(s)) }

Stacks == Comp(<<L("eth", "-")>>, 3)
----------------------------------------------------------------------------
(* Layout                                                                   *)

HLen(l) ==
  LET k == l.k  v == l.v IN
  CASE k = "eth" -> 14 [] k = "vlan" -> 4 [] k = "mpls" -> 4 [] k = "arp" -> 28
    [] k = "llc" -> (CASE v = "u" -> 3 [] v = "i" -> 4 [] v = "snapi" -> 9 [] OTHER -> 8)
    [] k = "ip4" -> IF v = "opts" THEN 24 ELSE 20
    [] k = "ip6" -> (CASE v \in {"plain", "nonext"} -> 40 [] v = "hbhdst" -> 56
                       [] v = "dstx20" -> 200 [] v = "dstx180" -> 1480        \* chains of 20 / 180 /
                       [] v = "dstx1100" -> 8840 [] v = "dstx8000" -> 64040   \* 1100 / 8000 headers
                       [] v = "dstbig" -> 2088                                \* one header of the maximal 2048 octets
                       [] OTHER -> 48)
    [] k = "udp" -> 8
    [] k = "tcp" -> (CASE v = "plain" -> 20 [] v \in {"eol", "unk"} -> 24
                       [] v \in {"opts", "mpdss"} -> 40 [] v \in {"unkmax", "optmax"} -> 60 [] OTHER -> 32)
    [] k \in {"icmp", "echo", "unreach", "timex", "icmp6", "echo6", "unreach6", "toobig", "timex6", "eapol"} -> 4
    [] k = "igmp" -> IF v = "v3report" THEN 20 ELSE 8
    [] k = "gre" -> (CASE v = "plain" -> 4 [] v = "keyseq" -> 12 [] v = "route" -> 20 [] OTHER -> 8)
    [] k = "vxlan" -> 8
    [] k = "dhcp" -> (CASE v = "bootp" -> 300 [] v = "bare" -> 240 [] v = "end" -> 241
                        [] v = "disc" -> 265 [] v = "offer" -> 305 [] v = "overload" -> 247
                        [] v = "long" -> 648 [] v = "longover" -> 449)    \* one option code in several parts (RFC 3396)
    [] k = "dns" -> (CASE v = "empty" -> 12 [] v \in {"q", "mdns"} -> 33 [] v = "resp" -> 49 [] v = "multi" -> 150
                       [] v = "txtlong" -> 345 [] v = "many" -> 417)
    [] k = "rip" -> (CASE v = "req" -> 24 [] v = "full25" -> 504 [] OTHER -> 44)
    [] k = "lldp" -> (CASE v = "min" -> 20 [] v = "full" -> 71 [] v = "netport" -> 23 [] v = "macport" -> 24
                        [] v = "long" -> 835)                   \* TLVs of 300 and 511 (the maximum) octets
    [] k = "eap" -> (CASE v = "reqid" -> 5 [] v = "respid" -> 9 [] v = "md5" -> 22 [] OTHER -> 4)
    [] k = "rs" -> IF v = "plain" THEN 4 ELSE 12
    [] k = "ra" -> IF v = "plain" THEN 12 ELSE 60
    [] k = "ns" -> IF v = "plain" THEN 20 ELSE 28
    [] k = "na" -> IF v = "plain" THEN 20 ELSE 28

\* the part of a leaf layer without which it cannot be told apart from noise
\* (BOOTP fixed part, DNS header, RIP header, the mandatory LLDP TLVs, ...)
Fixed(l) ==
  CASE l.k = "dhcp" -> 236 [] l.k = "dns" -> 12 [] l.k = "rip" -> 4 [] l.k = "lldp" -> 14
    [] l.k = "igmp" -> 8   [] l.k = "eap" -> 4  [] l.k = "rs" -> 4   [] l.k = "ra" -> 12
    [] l.k \in {"ns", "na"} -> 20
    [] OTHER -> HLen(l)
LeafKinds == {"dhcp", "dns", "rip", "lldp", "igmp", "eap", "rs", "ra", "ns", "na"}
\* bytes without which the layer must not be reported as parsed
Need(l) == IF l.k \in LeafKinds THEN Fixed(l) ELSE HLen(l)

\* layers whose own length or checksum field covers everything up to the end of the datagram
Covered(l) == l.k \in {"ip4", "ip6", "udp", "tcp", "icmp", "icmp6", "igmp"} \/ l = L("gre", "csum")

RECURSIVE OffR(_, _)
OffR(st, i) == IF i <= 1 THEN 0 ELSE OffR(st, i - 1) + HLen(st[i - 1])
OffsOf(st)  == [i \in 1..Len(st) + 1 |-> OffR(st, i)]       \* offset of layer i (Len+1: end of the headers)
HlsOf(st)   == [i \in 1..Len(st) |-> HLen(st[i])]
NeedsOf(st) == [i \in 1..Len(st) |-> Need(st[i])]
LastOrigOf(st) == LET S == {0} \cup {j \in 1..Len(st) : st[j].v = "orig"} IN CHOOSE x \in S : \A y \in S : y <= x

(* A frame: the header stack  st \o unit^n \o post  (an explicit prefix, a group of layers repeated  *)
(* n times - nesting depth -, an explicit tail), the payload and padding lengths and, computed once, *)
(* the layout of the three pieces.  Ordinary frames have n = 0; deeply nested ones are never spelt  *)
(* out: layer i and its offset are found by arithmetic (LayerAt, OffAt), so a 64 kB frame of 16000  *)
(* nested tags costs as much as a three-layer one.  unit and post never contain "orig" layers.      *)
DeepFrame(st, unit, n, post, plen, pad) ==
  [st |-> st, unit |-> unit, n |-> n, post |-> post, plen |-> plen, pad |-> pad,
   off |-> OffsOf(st), hl |-> HlsOf(st), need |-> NeedsOf(st),
   uoff |-> OffsOf(unit), uhl |-> HlsOf(unit), uneed |-> NeedsOf(unit),
   poff |-> OffsOf(post), phl |-> HlsOf(post), pneed |-> NeedsOf(post),
   lastOrig |-> LastOrigOf(st)]
Frame(st, plen, pad) == DeepFrame(st, <<>>, 0, <<>>, plen, pad)

NPre(f)  == Len(f.st)
NRep(f)  == f.n * Len(f.unit)
NL(f)    == NPre(f) + NRep(f) + Len(f.post)                 \* number of layers
ULen(f)  == f.uoff[Len(f.unit) + 1]                         \* bytes of one repetition
LayerAt(f, i) ==
  IF i <= NPre(f) THEN f.st[i]
  ELSE IF i <= NPre(f) + NRep(f) THEN f.unit[((i - NPre(f) - 1) % Len(f.unit)) + 1]
  ELSE f.post[i - NPre(f) - NRep(f)]
HlAt(f, i) ==
  IF i <= NPre(f) THEN f.hl[i]
  ELSE IF i <= NPre(f) + NRep(f) THEN f.uhl[((i - NPre(f) - 1) % Len(f.unit)) + 1]
  ELSE f.phl[i - NPre(f) - NRep(f)]
NeedAt(f, i) ==
  IF i <= NPre(f) THEN f.need[i]
  ELSE IF i <= NPre(f) + NRep(f) THEN f.uneed[((i - NPre(f) - 1) % Len(f.unit)) + 1]
  ELSE f.pneed[i - NPre(f) - NRep(f)]
\* offset of layer i, i \in 1..NL+1 (NL+1: of the payload)
OffAt(f, i) ==
  IF i <= NPre(f) + 1 THEN f.off[i]
  ELSE IF i <= NPre(f) + NRep(f) + 1
       THEN LET j == i - NPre(f) - 1 IN
            f.off[NPre(f) + 1] + (j \div Len(f.unit)) * ULen(f) + f.uoff[(j % Len(f.unit)) + 1]
  ELSE f.off[NPre(f) + 1] + f.n * ULen(f) + f.poff[i - NPre(f) - NRep(f)]
Off(f, i) == OffAt(f, i)
HdrEnd(f) == OffAt(f, NL(f) + 1)
DEnd(f)   == HdrEnd(f) + f.plen                  \* end of the outermost datagram
Total(f)  == DEnd(f) + f.pad
LeafF(f)  == LET m == NL(f) IN Leaf(IF m >= 2 THEN <<LayerAt(f, m - 1), LayerAt(f, m)>> ELSE <<LayerAt(f, m)>>)

\* ordinary frames only (n = 0, no tail)
Lay(f) == [j \in 1..Len(f.st) |-> [k |-> f.st[j].k, v |-> f.st[j].v, off |-> f.off[j], hlen |-> f.hl[j]]]

=============================================================================
