----------------------------- MODULE PktWireMC   -----------------------------
(* Finite corpora for PktWire.tla (cfg files cannot contain records).       *)
EXTENDS PktWire

U(fam, vcs, lens, vrs) == {Desc(fam, vc, n, v, 0, 0, "P") : vc \in vcs, n \in lens, v \in vrs}
\* every free field of every table-driven layer deviating alone to all-zero / all-ones
DvC(fam, lens, var, DC) == {Desc(fam, "P", n, var, x[1], x[2], c) : x \in Devs(fam), c \in DC, n \in lens}
Dv(fam, lens, var) == DvC(fam, lens, var, {"Z", "M"})

LensQ   == {0, 1, 2, 3, 7, 8, 63, 64, 1471, 1472}
LensT   == LensQ \cup {4, 5, 6, 9, 15, 16, 17, 31, 32, 33, 127, 128, 255, 256, 257, 511, 512, 1023, 1024, 1499, 1500}
LensQS  == {0, 1, 2, 3, 7, 8, 63, 64}
LensDev == {1, 64}
LensTiny == {0, 3}

CoreFams(L, LS, LD) ==
  U("eth", Classes, LS, {0}) \cup Dv("eth", LD, 0)
  \cup U("vlan", Classes, LS, {0}) \cup Dv("vlan", LD, 0)
  \cup U("qinq", Classes, LD, {0}) \cup Dv("qinq", {2}, 0)
  \cup U("llc", Classes, LS, {0}) \cup U("llci", Classes, LD, {0}) \cup U("llcs", Classes, LD, {0})
  \cup U("snap", Classes, LD, {0}) \cup U("snapoui", Classes, LD, {0}) \cup U("snapip", {"P", "M"}, LD, {0})
  \cup U("arp", Classes, {0, 18}, {0}) \cup Dv("arp", {0}, 0) \cup U("rarp", {"P"}, {0}, {0})
  \cup U("varp", {"P"}, {0, 14}, {0})
  \cup U("ip", Classes, LS, {0}) \cup U("ip", {"P", "M"}, LD, 1..4) \cup Dv("ip", LD, 0)
  \cup U("ipfrag", {"P", "M"}, LD, {0, 1, 44}) \cup U("ipmf", {"P", "Z"}, LD, {0})
  \cup U("udp", Classes, L, {0}) \cup U("udp", {"P", "M"}, {0, 1, 2, 63}, {1, 3}) \cup Dv("udp", LD, 0)
  \cup U("vudp", {"P", "M"}, {0, 1, 1471}, {0})
  \cup U("tcp", Classes, L, {0}) \cup U("tcp", {"P", "M", "Z"}, {0, 1, 64}, 1..12) \cup Dv("tcp", LD, 0)
  \cup U("tcpipopt", {"P"}, {0, 1}, {0, 3, 10})
  \cup U("echo", Classes, L, {0, 1}) \cup Dv("echo", LD, 1)
  \cup U("icmpx", {"P", "M"}, LD, {0, 1})
  \cup U("unreach", Classes, {0, 1, 8}, {0}) \cup Dv("unreach", {0}, 0)
  \cup U("timex", {"P", "M"}, {0, 1, 8}, {0, 1})
  \cup U("unreachshort", {"P", "M"}, {0, 1, 8, 23}, {0})
  \cup U("lldp", Classes, {0}, 0..4)
  \cup U("mpls", Classes, LD \cup {0, 3, 4}, {0}) \cup Dv("mpls", {1}, 0)
  \cup U("mpls2", {"P", "M"}, LD \cup {0}, {0}) \cup Dv("mpls2", {1}, 0)
  \cup U("ip6", Classes, LS, {0}) \cup Dv("ip6", LD, 0) \cup U("ip6none", {"P", "M"}, {0}, {0})
  \cup U("udp6", Classes, L, {0}) \cup Dv("udp6", LD, 0)
  \cup U("tcp6", {"P", "M"}, LD \cup {0}, {0, 3})
  \cup U("echo6", Classes, LS, {0, 1}) \cup U("icmp6x", {"P", "M"}, LD, {0})

ExtFams(LD) ==
  U("ip6", {"P", "M"}, LD, 1..4) \cup U("ip6none", {"P"}, {0}, {1, 4})
  \cup U("udp6", {"P", "M"}, LD \cup {0}, 1..4) \cup U("echo6", {"P"}, LD, 2..9)
  \* every upper-layer protocol with a pseudo-header behind every chain (var = 16 * chain + option / message variant);
  \* (edits after the first serialisation are explored for payloads up to 64 bytes: only a few of these)
  \cup U("ip6", {"P"}, {65}, 5..7) \cup U("udp6", {"P"}, {0, 65}, 5..7) \cup U("udp6", {"S"}, {1}, 5..7)
  \cup U("echo6", {"P"}, {65}, 10..15)
  \cup U("tcp6x", {"P"}, {65, 1471}, {16 * e + t : e \in 1..7, t \in {0, 3}})
  \cup U("tcp6x", {"P"}, {0, 1}, {16 + 3, 64 + 3}) \cup U("tcp6x", {"M", "S"}, {2}, {16 * e + 3 : e \in {1, 4, 6}})
  \cup U("tcp6x", {"P"}, {127}, {16 * e + t : e \in {1, 4, 6}, t \in {4, 10}})
  \cup U("nd6x", {"P"}, {0}, {16 * e + 1 : e \in {1, 4, 5, 6}}) \cup U("nd6x", {"M"}, {0}, {16 * 7 + 3})
  \cup U("toobig6x", {"P"}, {65}, {16 * e : e \in 1..7})
  \cup U("unreach6t", {"P"}, {8, 68}, {0, 16 + 1}) \cup U("unreach6t", {"P"}, {68}, {3, 64 + 3}) \cup U("unreach6t", {"M"}, {8}, {3})

TailCases(LD) ==
  U("icmpcarry", {"P", "M", "S"}, {0, 2, 62, 1470}, {0, 1}) \cup U("udpzero", Classes, {0, 2, 62}, {0}) \cup U("tcpzero", {"P", "M"}, {0, 2, 62}, {0, 2}) \cup U("udp6zero", {"P", "Z"}, {0, 62}, {0})
  \cup
  U("greip", {"P", "M"}, LD \cup {0}, 0..5) \cup U("greteb", {"P"}, LD, {0, 3, 4}) \cup U("grex", {"P", "Z"}, LD, {0, 5})
  \cup U("vxlan", Classes, LD \cup {0}, {0, 1}) \cup Dv("vxlan", {1}, 0) \cup U("vxlanip", {"P"}, LD, {0})
  \cup U("igmp", Classes, {0}, 0..3) \cup U("igmp", {"P"}, {1, 4}, {0}) \cup Dv("igmp", {0}, 0)
  \cup U("igmp3", {"P", "M"}, {0, 1, 4}, 0..2)
  \cup U("rip", Classes, {0}, {1, 2, 25}) \cup Dv("rip", {0}, 1)
  \cup U("eapol", Classes, {0}, {0, 1}) \cup U("eapolkey", {"P", "M"}, {0, 1, 44, 95}, {0, 1})
  \cup U("eap", Classes, {1, 2, 17, 64}, {0, 1}) \cup Dv("eap", {5}, 0) \cup U("eapend", {"P", "M"}, {0}, {0, 1})
  \cup U("dhcp", Classes, {0}, 1..3) \cup Dv("dhcp", {0}, 1) \cup U("dhcpr", {"P", "M"}, {0}, {1, 2})
  \cup U("ns", Classes, {0}, 0..4) \cup U("na", Classes, {0}, 0..4) \cup U("rs", {"P"}, {0}, 0..4)
  \cup U("ra", Classes, {0}, 0..4) \cup Dv("ra", {0}, 3) \cup Dv("na", {0}, 2)
  \cup U("unreach6", {"P", "M"}, {0, 1, 8}, {0}) \cup U("toobig", Classes, LD \cup {0}, {0}) \cup U("timex6", {"P", "M"}, LD \cup {0}, {0})
DnsCases == U("dns", Classes, {0}, 0..4) \cup Dv("dns", {0}, 2) \cup U("dnsr", {"P", "M"}, {0}, {1, 2})
            \cup U("mdns", {"P"}, {0}, {1, 2})
            \* names sharing suffixes: free-form serialisation
            \cup U("dns", {"P"}, {0}, 5..9) \cup U("dns", {"M"}, {0}, {6}) \cup U("dnsr", {"P"}, {0}, {5, 7}) \cup U("mdns", {"P"}, {0}, {8})
            \cup U("dns6", {"P"}, {0}, {2, 5, 16 + 7})
MCTail   == TailCases(LensDev)
MCDns    == DnsCases
MCTiny   == CoreFams(LensTiny, LensTiny, {1})
MCQuick  == CoreFams(LensQ, LensQS, LensDev)
\* thorough: more lengths, and the single-field deviations also to "top bit only"
CoreDevS == UNION {DvC(f, {1}, IF f = "echo" THEN 1 ELSE 0, {"S"}) :
                     f \in {"eth", "vlan", "arp", "ip", "udp", "tcp", "echo", "unreach", "mpls", "ip6", "udp6"}}
MCThorough == CoreFams(LensT, LensT, LensDev) \cup CoreDevS
\* Multipath TCP options (TcpOpts variants 13..32): every option layout, every Data ACK / DSN width combination
OptCases == U("tcp", {"P"}, {0, 1}, 13..32) \cup U("tcp", {"M"}, {1}, 13..32) \cup U("tcp", {"S"}, {64}, {20, 23, 24})
            \cup U("tcp6", {"P"}, {1}, {14, 17, 23, 24})
MCOpt    == OptCases
MCExt    == ExtFams(LensDev) \cup OptCases
\* every payload length of an Ethernet frame, odd and even (thorough tier)
MCSweep  == U("udp", {"P"}, 0..1500, {0}) \cup U("echo", {"M"}, {n \in 0..1500 : n % 7 = 3}, {1})
            \cup U("tcp6", {"P"}, {n \in 0..1500 : n % 11 = 5}, {3}) \cup U("udp6", {"S"}, {n \in 0..1500 : n % 13 = 1}, {0})
            \cup U("tcp", {"M"}, {n \in 0..1500 : n % 3 = 1}, {3}) \cup U("echo6", {"P"}, {n \in 0..1500 : n % 5 = 2}, {1})
            \cup U("tcp6x", {"P"}, {n \in 65..1440 : n % 17 = 4}, {64 + 3}) \cup U("tcp6x", {"S"}, {n \in 65..1440 : n % 29 = 9}, {96 + 4})
=============================================================================
