--------------------------- MODULE PktGrammarAny ---------------------------
(* C15, second half: DAMAGED frames and arbitrary bytes.                    *)
(*                                                                          *)
(* Build phase (spec -> code): a frame of the grammar is damaged by         *)
(* structure-aware mutations - a field the parsers trust (a length, a       *)
(* count, a type selector, an option header; table Fields) is overwritten   *)
(* with a boundary value (classes MutVals) or with a selector value that   *)
(* dispatches to another parser (Sel), possibly several times, and the      *)
(* result may be truncated.  Checksums are re-computed afterwards by the    *)
(* harness, so the damage reaches the code behind checksum verification.    *)
(* Seal fixes the scenario; the harness turns it into bytes.                *)
(*                                                                          *)
(* Parse phase (code -> spec): for bytes whose content the spec does not    *)
(* know, the property fixes only the SHAPE of a result:                     *)
(*   the parser returns; it reports some chain of layers as parsed; this is *)
(*   never more than the offered bytes can hold (every kind has a minimal   *)
(*   header, MinNeed); the unparsed remainder is a piece of the offered     *)
(*   bytes that begins behind those headers; printing, dumping and          *)
(*   re-serialising the result return.  There is no action "raise".         *)
(* Recorded runs of the real code (every single-byte corruption of every    *)
(* frame, the mutation scenarios exported from the build phase, random      *)
(* bytes) are validated against this phase by PktGrammarAnyTrace.           *)
EXTENDS PktGrammarLib, TLC, Json

CONSTANTS MutPay,    \* payload lengths of the frames that get mutated
          MutVals,   \* value classes written into a field
          MaxMuts,   \* mutations per scenario
          MutCuts,   \* "none": never truncate; "any": a scenario may also be truncated
          Lens       \* lengths of unknown byte strings (model checking of the parse phase)

----------------------------------------------------------------------------
(* Fields the parsers trust: [o |-> offset inside the layer header, w |-> width in bytes] *)
F(o, w) == [o |-> o, w |-> w]
Fields(l) ==
  LET k == l.k  v == l.v  h == HLen(l) IN
  CASE k = "eth"  -> {F(12, 2)}
    [] k = "vlan" -> {F(0, 2), F(2, 2)}
    [] k = "llc"  -> {F(0, 1), F(1, 1), F(2, 1)} \cup (IF h = 8 THEN {F(3, 1), F(5, 1), F(6, 2)} ELSE {})
                       \cup (IF h = 9 THEN {F(3, 1), F(4, 1), F(6, 1), F(7, 2)} ELSE {})
    [] k = "mpls" -> {F(2, 1)}
    [] k = "arp"  -> {F(0, 2), F(2, 2), F(4, 1), F(5, 1), F(6, 2)}
    [] k = "ip4"  -> {F(0, 1), F(2, 2), F(6, 2), F(9, 1)} \cup (IF h > 20 THEN {F(20, 1)} ELSE {})
    [] k = "ip6"  -> {F(0, 1), F(4, 2), F(6, 1)} \cup (IF h > 40 THEN {F(40, 1), F(41, 1)} ELSE {})
                       \cup (IF h > 48 THEN {F(48, 1), F(49, 1)} ELSE {})
    [] k = "udp"  -> {F(0, 2), F(2, 2), F(4, 2)}
    [] k = "tcp"  -> {F(12, 1)} \cup (IF h > 20 THEN {F(20, 1), F(21, 1), F(22, 1), F(23, 1)} ELSE {})
    [] k \in {"icmp", "icmp6"} -> {F(0, 1), F(1, 1)}
    [] k = "igmp" -> {F(0, 1)} \cup (IF h > 8 THEN {F(6, 2), F(8, 1), F(9, 1), F(10, 2)} ELSE {})
    [] k = "gre"  -> {F(0, 1), F(1, 1), F(2, 2)} \cup (IF v = "route" THEN {F(8, 2), F(10, 1), F(11, 1), F(19, 1)} ELSE {})
    [] k = "vxlan" -> {F(0, 1)}
    [] k = "dhcp" -> {F(0, 1), F(1, 1), F(2, 1), F(236, 2), F(238, 2)}
                       \cup (IF h > 240 THEN {F(240, 1)} ELSE {})
                       \cup (IF h > 241 THEN {F(241, 1), F(242, 1), F(243, 1), F(244, 1)} ELSE {})
                       \cup (IF v = "overload" THEN {F(44, 1), F(45, 1), F(108, 1), F(109, 1)} ELSE {})
    [] k = "dns"  -> {F(2, 2), F(4, 2), F(6, 2), F(8, 2), F(10, 2)}
                       \cup (IF h > 12 THEN {F(12, 1), F(16, 1), F(28, 1), F(29, 2)} ELSE {})
                       \cup (IF h > 33 THEN {F(33, 1), F(34, 1), F(35, 2), F(43, 2)} ELSE {})
    [] k = "rip"  -> {F(0, 1), F(1, 1), F(2, 2), F(4, 2)}
    [] k = "lldp" -> {F(0, 2), F(2, 1), F(9, 2), F(11, 1)}
                       \cup (IF v = "min" THEN {F(14, 2), F(18, 2)} ELSE {})
                       \cup (IF v = "full" THEN {F(14, 2), F(18, 2), F(25, 2), F(31, 2), F(39, 2), F(45, 2),
                                                 F(47, 1), F(53, 1), F(58, 1), F(59, 2), F(69, 2)} ELSE {})
    [] k = "eapol" -> {F(0, 1), F(1, 1), F(2, 2)}
    [] k = "eap"  -> {F(0, 1), F(2, 2)} \cup (IF h > 4 THEN {F(4, 1)} ELSE {})
    [] k = "toobig" -> {F(0, 2)}
    [] k = "rs"   -> IF h > 4 THEN {F(4, 1), F(5, 1)} ELSE {}
    [] k = "ra"   -> {F(1, 1)} \cup (IF h > 12 THEN {F(12, 1), F(13, 1), F(20, 1), F(21, 1), F(28, 1), F(29, 1), F(30, 1)} ELSE {})
    [] k \in {"ns", "na"} -> IF h > 20 THEN {F(20, 1), F(21, 1)} ELSE {}
    [] OTHER -> {}        \* echo unreach timex echo6 unreach6 timex6: no structure of their own

\* Selector fields and the values that dispatch to ANOTHER parser: writing one of them hands the
\* bytes of this frame to a parser they were not made for (value class "s<n>").
L2Types == {2048, 2054, 32821, 33024, 34525, 35020, 34958, 34887, 34888, 1500, 1535, 1536}
IpProtos == {0, 1, 2, 4, 6, 17, 41, 43, 44, 47, 58, 59, 60}
Sel(l, f) ==
  LET k == l.k IN
  CASE k = "eth" /\ f = F(12, 2) -> L2Types
    [] k = "vlan" /\ f = F(2, 2) -> L2Types
    [] k = "llc" /\ f \in {F(6, 2), F(7, 2)} -> L2Types
    [] k = "ip4" /\ f = F(9, 1) -> IpProtos
    [] k = "ip6" /\ f \in {F(6, 1), F(40, 1), F(48, 1)} -> IpProtos
    [] k = "udp" /\ f \in {F(0, 2), F(2, 2)} -> {53, 67, 68, 520, 4789, 5353}
    [] k = "icmp" /\ f = F(0, 1) -> {0, 3, 5, 8, 11}
    [] k = "icmp6" /\ f = F(0, 1) -> {1, 2, 3, 4, 128, 129, 133, 134, 135, 136, 137}
    [] k = "gre" /\ f = F(2, 2) -> {2048, 25944, 34525}
    [] k = "eapol" /\ f = F(1, 1) -> {0, 1, 2, 3, 4}
    [] k = "eap" /\ f \in {F(0, 1), F(4, 1)} -> {1, 2, 3, 4, 254}
    [] k = "tcp" /\ f = F(20, 1) -> {0, 1, 2, 3, 4, 5, 8, 30}
    [] k = "igmp" /\ f = F(0, 1) -> {17, 18, 22, 23, 34}
    [] k = "dhcp" /\ f \in {F(240, 1), F(243, 1)} -> {0, 1, 3, 6, 51, 52, 53, 55, 255}
    [] k \in {"rs", "ra", "ns", "na"} /\ f \in {F(4, 1), F(12, 1), F(20, 1)} -> {1, 2, 3, 5, 14}
    [] OTHER -> {}
ValsFor(l, f) == MutVals \cup {"s" \o ToString(x) : x \in Sel(l, f)}

MutFrames == UNION { { Frame(x.st, p, 0) : p \in (IF Leaf(x.st) THEN {0} ELSE MutPay) } : x \in Stacks }

AllKinds == {"eth", "vlan", "llc", "mpls", "arp", "ip4", "ip6", "udp", "tcp", "icmp", "echo", "unreach",
             "timex", "igmp", "gre", "vxlan", "dhcp", "dns", "rip", "lldp", "eapol", "eap", "icmp6",
             "echo6", "unreach6", "toobig", "timex6", "rs", "ra", "ns", "na"}
\* the least number of bytes from which a layer of kind k can be parsed at all
MinNeedF == [k \in AllKinds |->
               LET S == {Need(L(k, v)) : v \in Vars(k)} IN CHOOSE x \in S : \A y \in S : x <= y]
MinNeed(k) == MinNeedF[k]
RECURSIVE SumNeed(_)
SumNeed(ch) == IF ch = <<>> THEN 0 ELSE MinNeed(ch[Len(ch)]) + SumNeed(SubSeq(ch, 1, Len(ch) - 1))
\* dispatch edges of the grammar, any variant (bounds the model-checking run only; recorded runs of
\* the code are NOT required to follow them - the property does not constrain dispatch)
MayFollow(k) == UNION {ChildKinds(<<L(k, v)>>) : v \in Vars(k) \cup {"orig"}} \ {"raw"}

VARIABLES frm,     \* build phase: the frame being damaged
          muts,    \*   the mutations applied so far: <<[i, o, w, val]>>
          cutm,    \*   how many bytes of the result are offered
          n,       \* parse phase: number of bytes offered
          pc,      \* "build" "offer" "parse" "print" "dump" "pack" "done"
          chain,   \*   kinds reported parsed, top down
          rest     \*   [start, len] of the raw remainder
vars == <<frm, muts, cutm, n, pc, chain, rest>>

NoRest == [start |-> 0, len |-> 0]

----------------------------------------------------------------------------
(* build phase                                                              *)
InitBuild == /\ frm \in MutFrames /\ muts = <<>> /\ cutm = Total(frm)
             /\ n = 0 /\ pc = "build" /\ chain = <<>> /\ rest = NoRest

Mutate(i, f, val) ==
  /\ pc = "build" /\ Len(muts) < MaxMuts
  /\ muts' = Append(muts, [i |-> i, o |-> f.o, w |-> f.w, val |-> val])
  /\ UNCHANGED <<frm, cutm, n, pc, chain, rest>>
Truncate(c) ==
  /\ pc = "build" /\ MutCuts = "any" /\ cutm = Total(frm) /\ muts # <<>> /\ c < cutm
  /\ cutm' = c
  /\ UNCHANGED <<frm, muts, n, pc, chain, rest>>
Seal ==
  /\ pc = "build" /\ muts # <<>>
  /\ pc' = "offer" /\ n' = cutm
  /\ UNCHANGED <<frm, muts, cutm, chain, rest>>
MutateSome == \E i \in 1..Len(frm.st) : \E f \in Fields(frm.st[i]) : \E val \in ValsFor(frm.st[i], f) : Mutate(i, f, val)
TruncateSome == \E c \in 0..Total(frm) : Truncate(c)
NextBuild == MutateSome \/ TruncateSome \/ Seal

\* a mutation stays inside the header it names
MutInside == \A j \in 1..Len(muts) : muts[j].o + muts[j].w <= frm.hl[muts[j].i]
Scenario == [st |-> frm.st, plen |-> frm.plen, total |-> Total(frm), lay |-> Lay(frm), muts |-> muts, cut |-> cutm]
ExportSc == (pc = "offer") => PrintT(<<"S", ToJson(Scenario)>>)

----------------------------------------------------------------------------
(* parse phase: the shape of any result                                     *)
InitAny == /\ n \in Lens /\ pc = "offer" /\ chain = <<>> /\ rest = NoRest
           /\ frm = Frame(<<L("eth", "-")>>, 0, 0) /\ muts = <<>> /\ cutm = 0

AOffer == /\ pc = "offer" /\ pc' = "parse"
          /\ UNCHANGED <<frm, muts, cutm, n, chain, rest>>
\* a layer of kind k is reported parsed: the offered bytes can hold it behind the layers above it
ALayer(k) == /\ pc = "parse"
             /\ SumNeed(chain) + MinNeed(k) <= n
             /\ chain' = Append(chain, k)
             /\ UNCHANGED <<frm, muts, cutm, n, pc, rest>>
\* the remainder is kept: a piece of the offered bytes that begins behind the parsed headers
ARest(s, ln) == /\ pc = "parse" /\ pc' = "print"
                /\ SumNeed(chain) <= s /\ s + ln <= n
                /\ rest' = [start |-> s, len |-> ln]
                /\ UNCHANGED <<frm, muts, cutm, n, chain>>
AStep(from, to) == pc = from /\ pc' = to /\ UNCHANGED <<frm, muts, cutm, n, chain, rest>>
APrint  == AStep("print", "dump")
ADump   == AStep("dump", "pack")
ARepack == AStep("pack", "done")

ALayerLegal == \E k \in (IF chain = <<>> THEN {"eth"} ELSE MayFollow(chain[Len(chain)])) : ALayer(k)
ARestSome == \E s \in SumNeed(chain)..n : \E ln \in 0..(n - s) : ARest(s, ln)
NextAny == AOffer \/ ALayerLegal \/ ARestSome \/ APrint \/ ADump \/ ARepack
SpecAny == InitAny /\ [][NextAny]_vars /\ WF_vars(NextAny)

TypeOKAny == /\ pc \in {"build", "offer", "parse", "print", "dump", "pack", "done"}
             /\ \A j \in 1..Len(chain) : chain[j] \in AllKinds
\* nothing is reported parsed that the offered bytes could not hold
SoundAny == SumNeed(chain) <= n
\* the remainder lies inside the offered bytes, behind the parsed headers
RestInside == pc \in {"print", "dump", "pack", "done"} =>
                 /\ SumNeed(chain) <= rest.start /\ rest.start + rest.len <= n
Terminates == <>(pc = "done")
=============================================================================
