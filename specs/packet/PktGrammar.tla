---------------------------- MODULE PktGrammar ----------------------------
(* C15: parsing untrusted frames never fails.                               *)
(*                                                                          *)
(* Part 1 (PktGrammarLib) - the GRAMMAR.  The dispatch graph of the library *)
(* (ethertype / LLC-SNAP / IP protocol / next-header / UDP port / ICMP type *)
(* / GRE protocol / EAPOL type) as a grammar of header stacks.  A frame is  *)
(* a stack of layers [k, v] (kind, variant), a raw payload of plen bytes    *)
(* under the last layer and pad bytes of link padding after the outermost   *)
(* datagram.  HLen gives the header length of every layer, so the spec owns *)
(* the layout arithmetic (the byte builders of the harness are cross-checked*)
(* against it at every Offer).                                              *)
(*                                                                          *)
(* Part 2 - the PARSER as a guarded descent.  Offer(cut) hands the first    *)
(* `cut` bytes of the frame to the parser; the parser then decides layer by *)
(* layer (Accept / Refuse), keeps the rest raw (Rest), and the result is    *)
(* printed, dumped and re-serialised.  What the property fixes:             *)
(*   MUST NOT accept a layer whose header is not completely available;      *)
(*   MUST accept a layer when every byte its own length / checksum fields   *)
(*        refer to is available (all layers above it were accepted);        *)
(*   otherwise (header there, body cut short) EITHER - the property does    *)
(*        not say whether a parser verifies lengths/checksums of a          *)
(*        truncated datagram, so both are behaviours of the spec;           *)
(*   the unparsed remainder starts exactly after the accepted headers and   *)
(*        loses no available byte of the datagram (link padding may or may  *)
(*        not be kept);                                                     *)
(*   every step returns: there is no action "raise";                       *)
(*   NESTING DEPTH: headers may nest (802.1Q in 802.1Q, MPLS label stacks,  *)
(*        IP in GRE in IP, VXLAN in VXLAN, ICMP errors quoting ICMP errors, *)
(*        extension header chains).  The property does not say how deep a   *)
(*        parser must follow; it does say that it returns and records how   *)
(*        far it got.  So from layer NestFloor+1 on every layer MAY be left *)
(*        raw (a depth limit, or the interpreter's own), the layers above   *)
(*        are judged as in any other frame, and the corpus gets a depth     *)
(*        dimension (DeepShapes x DeepSizes, up to 64 kB frames).           *)
EXTENDS PktGrammarLib, TLC, Json

CONSTANTS PayFull,   \* payload lengths under stacks expanded at full level
          PayEdge,   \* payload lengths under the other stacks
          Pads,      \* link padding lengths tried on full-level stacks
          CutMode,   \* "all": every truncation length; "edges": the boundary lengths only
          DeepSizes  \* frame sizes (bytes) to which the self-nesting stacks are grown

\* no parser is required to follow nesting deeper than this many layers (the deepest stack of the
\* ordinary corpus, VXLAN-encapsulated UDP, has 7)
NestFloor == 16

Frames == UNION { { Frame(x.st, p, q)
                    : p \in (IF Leaf(x.st) THEN {0} ELSE IF x.full THEN PayFull ELSE PayEdge),
                      q \in (IF x.full THEN Pads ELSE {0}) }
                  : x \in Stacks }

(* The depth dimension: every group of layers that can contain itself, repeated until the frame  *)
(* has the wanted size; plus long IPv6 extension header chains (iteration, not nesting).         *)
E == <<L("eth", "-")>>
DeepShapes ==
  { [st |-> E, unit |-> <<L("vlan", "c0")>>, post |-> <<L("ip4", "plain"), L("udp", "-")>>, plen |-> 5],
    [st |-> E, unit |-> <<L("mpls", "nobos")>>, post |-> <<L("mpls", "bos")>>, plen |-> 5],
    [st |-> E, unit |-> <<L("vlan", "c0"), L("llc", "snap0")>>, post |-> <<L("arp", "req")>>, plen |-> 0],
    [st |-> E, unit |-> <<L("ip4", "plain"), L("gre", "plain")>>, post |-> <<L("ip4", "plain"), L("udp", "-")>>, plen |-> 5],
    [st |-> E, unit |-> <<L("ip4", "plain"), L("gre", "key"), L("eth", "-")>>, post |-> <<L("arp", "req")>>, plen |-> 0],
    [st |-> E, unit |-> <<L("ip4", "plain"), L("udp", "-"), L("vxlan", "-"), L("eth", "-")>>, post |-> <<L("arp", "req")>>, plen |-> 0],
    [st |-> E, unit |-> <<L("ip4", "plain"), L("icmp", "-"), L("unreach", "-")>>, post |-> <<L("ip4", "plain"), L("udp", "-")>>, plen |-> 5],
    [st |-> E, unit |-> <<L("ip4", "plain"), L("icmp", "-"), L("timex", "-")>>, post |-> <<L("ip4", "plain"), L("udp", "-")>>, plen |-> 5],
    [st |-> E, unit |-> <<L("ip6", "plain"), L("icmp6", "-"), L("unreach6", "-")>>, post |-> <<L("ip6", "plain"), L("udp", "-")>>, plen |-> 5] }
\* IPv4/IPv6/UDP length fields have 16 bits: a nest that starts with an IP header cannot exceed them
Reps(x, size) ==
  LET u   == OffR(x.unit, Len(x.unit) + 1)
      fix == OffR(x.st, Len(x.st) + 1) + OffR(x.post, Len(x.post) + 1) + x.plen
      cap == IF size > 65535 THEN 65535 ELSE size
  IN IF cap > fix THEN (cap - fix) \div u ELSE 0
ChainFor(size) == IF size >= 65000 THEN "dstx8000" ELSE IF size >= 9000 THEN "dstx1100"
                  ELSE IF size >= 1500 THEN "dstx180" ELSE "dstx20"
DeepFrames ==
  UNION { { DeepFrame(x.st, x.unit, Reps(x, size), x.post, x.plen, 0) : x \in DeepShapes }
          \cup { Frame(<<L("eth", "-"), L("ip6", ChainFor(size)), L("udp", "-")>>, 5, 0),
                 Frame(<<L("eth", "-"), L("ip6", "dstbig"), L("udp", "-")>>, 5, 0) }
          : size \in DeepSizes }

----------------------------------------------------------------------------
(* Part 2: the parse oracle                                                 *)

CutD(f, c) == Min(c, DEnd(f))                    \* available bytes of the datagram
Avail(f, c, i) == Max0(CutD(f, c), Off(f, i))
MustNot(f, c, i) == Avail(f, c, i) < NeedAt(f, i)
Complete(f, c, i) ==
  IF LayerAt(f, i).v = "orig" THEN FALSE         \* declares more than was ever there
  ELSE IF Covered(LayerAt(f, i)) THEN c >= DEnd(f) /\ f.lastOrig < i
  ELSE Avail(f, c, i) >= HlAt(f, i)
Must(f, c, i) == i <= NestFloor /\ Complete(f, c, i) /\ ~MustNot(f, c, i)

EdgeCuts(f) ==
  {0, Total(f), DEnd(f)} \cup
  UNION { {Off(f, j) + d : d \in {0, 1}} \cup {Off(f, j) + NeedAt(f, j) + d : d \in {0, 1}} \cup
          {Off(f, j) + HlAt(f, j) + d : d \in {0, 1}} : j \in 1..NL(f) }
\* deep frames: whole, one byte short, inside the last header, in the middle, just behind the floor,
\* inside / just behind the Ethernet header
DeepCuts(f) ==
  {c \in {Total(f), Total(f) - 1, HdrEnd(f), Off(f, NL(f)) + 1, Off(f, (NL(f) \div 2) + 1) + 1,
          Off(f, Min(NL(f), NestFloor + 2)) + 1, 13, 15, 19} : c <= Total(f)}
IsDeep(f) == f.n > 0 \/ NL(f) > NestFloor \/ Total(f) > 400
Cuts(f) == IF IsDeep(f) THEN DeepCuts(f)
           ELSE IF CutMode = "all" THEN 0..Total(f)
           ELSE {c \in 0..Total(f) : c \in EdgeCuts(f) \/ c + 1 \in EdgeCuts(f)}

VARIABLES fr,      \* the frame
          cut,     \* how many of its bytes are offered
          pc,      \* "offer" "parse" "rest" "print" "dump" "pack" "done"
          flags,   \* verdicts so far, one per layer looked at (TRUE = parsed)
          rest,    \* [start, len] of the raw remainder, once decided
          last, hist
vars  == <<fr, cut, pc, flags, rest, last, hist>>
view  == <<fr, cut, pc, flags, rest, last>>

NoRest == [start |-> 0, len |-> 0]
NoObs  == [a |-> "Init", args |-> [x |-> 0], exp |-> [x |-> 0]]
Log(a, args, exp) ==
  /\ last' = [a |-> a, args |-> args, exp |-> exp]
  /\ hist' = Append(hist, [a |-> a, args |-> args, exp |-> exp])

Init == /\ fr \in Frames \cup DeepFrames
        /\ cut \in Cuts(fr)
        /\ pc = "offer" /\ flags = <<>> /\ rest = NoRest
        /\ last = NoObs /\ hist = <<>>

\* ethernet(raw = first `cut` bytes), reached as the data of a packet-in inside a handler
Offer ==
  /\ pc = "offer" /\ pc' = "parse"
  /\ UNCHANGED <<fr, cut, flags, rest>>
  /\ Log("Offer", [st |-> fr.st, unit |-> fr.unit, n |-> fr.n, post |-> fr.post,
                   plen |-> fr.plen, pad |-> fr.pad, cut |-> cut,
                   total |-> Total(fr), offs |-> fr.off],
         [returned |-> TRUE])

Cur == Len(flags) + 1
Accept ==
  /\ pc = "parse" /\ Cur <= NL(fr) /\ ~MustNot(fr, cut, Cur)
  /\ flags' = Append(flags, TRUE)
  /\ pc' = IF Cur = NL(fr) THEN "rest" ELSE "parse"
  /\ UNCHANGED <<fr, cut, rest>>
  /\ Log("Layer", [i |-> Cur], [k |-> LayerAt(fr, Cur).k, parsed |-> TRUE])
Refuse ==
  /\ pc = "parse" /\ Cur <= NL(fr) /\ ~Must(fr, cut, Cur)
  /\ flags' = Append(flags, FALSE)
  /\ pc' = "rest"
  /\ UNCHANGED <<fr, cut, rest>>
  /\ Log("Layer", [i |-> Cur], [k |-> "?", parsed |-> FALSE])

\* (operators over a verdict sequence fl, so that the trace specification can compose Refuse and Rest)
AllAcceptedF(fl) == Len(fl) = NL(fr) /\ (Len(fl) > 0 => fl[Len(fl)])
RestStartF(fl) ==
  IF AllAcceptedF(fl) THEN Min(CutD(fr, cut), HdrEnd(fr))
  ELSE Min(CutD(fr, cut), Off(fr, Len(fl)))
\* a leaf layer consumes its body - or keeps any tail of it (behind its fixed part) as raw payload:
\* the canonical remainder is the empty one at the end, `lo` is the earliest place a kept tail may
\* begin.  Otherwise every available byte of the datagram behind the accepted headers is kept.
\* Available link padding is kept or not.
RestLoF(fl) ==
  IF AllAcceptedF(fl) /\ LeafF(fr)
  THEN Min(CutD(fr, cut), Off(fr, NL(fr)) + NeedAt(fr, NL(fr)))
  ELSE RestStartF(fl)
RestLensF(fl) ==
  LET padAv == cut - CutD(fr, cut)
      base  == IF AllAcceptedF(fl) /\ LeafF(fr) THEN 0 ELSE CutD(fr, cut) - RestStartF(fl)
  IN {base, base + padAv}
AllAccepted == AllAcceptedF(flags)
RestStart == RestStartF(flags)
RestLo == RestLoF(flags)
RestLens == RestLensF(flags)
Rest ==
  /\ pc = "rest" /\ pc' = "print"
  /\ \E n \in RestLens :
       /\ rest' = [start |-> RestStart, len |-> n]
       /\ Log("Rest", [x |-> 0], [start |-> RestStart, len |-> n, lo |-> RestLo])
  /\ UNCHANGED <<fr, cut, flags>>

Quiet(name) == UNCHANGED <<fr, cut, flags, rest>> /\ Log(name, [x |-> 0], [ok |-> TRUE])
PrintIt == pc = "print" /\ pc' = "dump" /\ Quiet("Print")      \* str() of every layer object
Dump    == pc = "dump"  /\ pc' = "pack" /\ Quiet("Dump")       \* .dump()
Repack  == pc = "pack"  /\ pc' = "done" /\ Quiet("Repack")     \* .pack() returns bytes

Next == Offer \/ Accept \/ Refuse \/ Rest \/ PrintIt \/ Dump \/ Repack
Spec == Init /\ [][Next]_vars /\ WF_vars(Next)

----------------------------------------------------------------------------
(* The property on the model                                                *)

TypeOK == /\ pc \in {"offer", "parse", "rest", "print", "dump", "pack", "done"}
          /\ cut \in 0..Total(fr)
          /\ Len(flags) <= NL(fr)

\* the oracle never demands and forbids the same thing
Decidable == \A i \in 1..NL(fr) : ~(Must(fr, cut, i) /\ MustNot(fr, cut, i))

\* nothing is reported parsed out of bytes that were not offered
Sound == \A j \in 1..Len(flags) : flags[j] => Off(fr, j) + NeedAt(fr, j) <= cut

\* parsing succeeds down a prefix of the stack: at most the last verdict is FALSE
PrefixClosed == \A j \in 1..Len(flags) : (j < Len(flags)) => flags[j]

\* once the remainder is fixed: it starts where the accepted headers end, lies inside the
\* offered bytes, and together with the accepted headers covers every offered byte of the datagram
NAcc == IF Len(flags) > 0 /\ ~flags[Len(flags)] THEN Len(flags) - 1 ELSE Len(flags)   \* (PrefixClosed)
NoLoss ==
  pc \in {"print", "dump", "pack", "done"} =>
    /\ rest.start + rest.len <= cut
    /\ rest.start <= CutD(fr, cut)
    /\ (NAcc > 0 /\ ~(AllAccepted /\ LeafF(fr))) => rest.start = Off(fr, NAcc) + HlAt(fr, NAcc)
    /\ (~(AllAccepted /\ LeafF(fr))) => rest.start + rest.len >= CutD(fr, cut)

\* an untruncated well-formed frame is parsed all the way down (at least as far as NestFloor layers)
WholeFrameParses ==
  (pc \in {"rest", "print", "dump", "pack", "done"} /\ cut >= DEnd(fr) /\ fr.lastOrig = 0)
     => \A j \in 1..Min(NL(fr), NestFloor) : j <= Len(flags) /\ flags[j]

\* parsing, printing and re-serialising always come to an end (there is no other way out)
Terminates == <>(pc = "done")

\* ---- export for the replay harness
Export == (pc = "done") => PrintT(<<"H", ToJson(hist)>>)
\* ---- export of the deep corpus (input side of the trace validation of deep frames)
InitDeep == /\ fr \in DeepFrames /\ cut \in Cuts(fr)
            /\ pc = "offer" /\ flags = <<>> /\ rest = NoRest /\ last = NoObs /\ hist = <<>>
Stutter == UNCHANGED vars
ExportDeep == PrintT(<<"D", ToJson([st |-> fr.st, unit |-> fr.unit, n |-> fr.n, post |-> fr.post,
                                    plen |-> fr.plen, pad |-> fr.pad, cut |-> cut, total |-> Total(fr),
                                    layers |-> NL(fr)])>>)
=============================================================================
