---------------------------- MODULE PktGrammar ----------------------------
(* C15: parsing untrusted frames never fails.                               *)
(*                                                                          *)
(* Part 1 (PktGrammarLib) - the GRAMMAR.  The dispatch graph of the library *)
(* (ethertype / LLC-SNAP / IP protocol / next-header / UDP port / ICMP type *)
(* / GRE protocol / EAPOL type) as a grammar of header stacks.  A frame is  *)
(* a stack of layers [k, v] (kind, variant), a raw payload of plen bytes    *)
(* under the last layer and pad bytes of link padding after the outermost   *)
(* datagram.  HLen gives the header length of every layer, so the spec owns *)
(* the layout arithmetic (the byte builders of the harness are cross-checked*)
(* against it at every Offer).                                              *)
(*                                                                          *)
(* Part 2 - the PARSER as a guarded descent.  Offer(cut) hands the first    *)
(* `cut` bytes of the frame to the parser; the parser then decides layer by *)
(* layer (Accept / Refuse), keeps the rest raw (Rest), and the result is    *)
(* printed, dumped and re-serialised.  What the property fixes:             *)
(*   MUST NOT accept a layer whose header is not completely available;      *)
(*   MUST accept a layer when every byte its own length / checksum fields   *)
(*        refer to is available (all layers above it were accepted);        *)
(*   otherwise (header there, body cut short) EITHER - the property does    *)
(*        not say whether a parser verifies lengths/checksums of a          *)
(*        truncated datagram, so both are behaviours of the spec;           *)
(*   the unparsed remainder starts exactly after the accepted headers and   *)
(*        loses no available byte of the datagram (link padding may or may  *)
(*        not be kept);                                                     *)
(*   every step returns: there is no action "raise".                        *)
EXTENDS PktGrammarLib, TLC, Json

CONSTANTS PayFull,   \* payload lengths under stacks expanded at full level
          PayEdge,   \* payload lengths under the other stacks
          Pads,      \* link padding lengths tried on full-level stacks
          CutMode    \* "all": every truncation length; "edges": the boundary lengths only

Frames == UNION { { Frame(x.st, p, q)
                    : p \in (IF Leaf(x.st) THEN {0} ELSE IF x.full THEN PayFull ELSE PayEdge),
                      q \in (IF x.full THEN Pads ELSE {0}) }
                  : x \in Stacks }


----------------------------------------------------------------------------
(* Part 2: the parse oracle                                                 *)

CutD(f, c) == Min(c, DEnd(f))                    \* available bytes of the datagram
Avail(f, c, i) == Max0(CutD(f, c), Off(f, i))
MustNot(f, c, i) == Avail(f, c, i) < f.need[i]
Complete(f, c, i) ==
  IF f.st[i].v = "orig" THEN FALSE               \* declares more than was ever there
  ELSE IF Covered(f.st[i]) THEN c >= DEnd(f) /\ (\A j \in i..Len(f.st) : f.st[j].v # "orig")
  ELSE Avail(f, c, i) >= f.hl[i]
Must(f, c, i) == Complete(f, c, i) /\ ~MustNot(f, c, i)

EdgeCuts(f) ==
  {0, Total(f), DEnd(f)} \cup
  UNION { {Off(f, j) + d : d \in {0, 1}} \cup {Off(f, j) + f.need[j] + d : d \in {0, 1}} \cup
          {Off(f, j) + f.hl[j] + d : d \in {0, 1}} : j \in 1..Len(f.st) }
Cuts(f) == IF CutMode = "all" THEN 0..Total(f)
           ELSE {c \in 0..Total(f) : c \in EdgeCuts(f) \/ c + 1 \in EdgeCuts(f)}

VARIABLES fr,      \* the frame: [st, plen, pad]
          cut,     \* how many of its bytes are offered
          pc,      \* "offer" "parse" "rest" "print" "dump" "pack" "done"
          flags,   \* verdicts so far, one per layer looked at (TRUE = parsed)
          rest,    \* [start, len] of the raw remainder, once decided
          last, hist
vars  == <<fr, cut, pc, flags, rest, last, hist>>
view  == <<fr, cut, pc, flags, rest, last>>

NoRest == [start |-> 0, len |-> 0]
NoObs  == [a |-> "Init", args |-> [x |-> 0], exp |-> [x |-> 0]]
Log(a, args, exp) ==
  /\ last' = [a |-> a, args |-> args, exp |-> exp]
  /\ hist' = Append(hist, [a |-> a, args |-> args, exp |-> exp])

Init == /\ fr \in Frames
        /\ cut \in Cuts(fr)
        /\ pc = "offer" /\ flags = <<>> /\ rest = NoRest
        /\ last = NoObs /\ hist = <<>>

\* ethernet(raw = first `cut` bytes), reached as the data of a packet-in inside a handler
Offer ==
  /\ pc = "offer" /\ pc' = "parse"
  /\ UNCHANGED <<fr, cut, flags, rest>>
  /\ Log("Offer", [st |-> fr.st, plen |-> fr.plen, pad |-> fr.pad, cut |-> cut,
                   total |-> Total(fr), offs |-> fr.off],
         [returned |-> TRUE])

Cur == Len(flags) + 1
Accept ==
  /\ pc = "parse" /\ Cur <= Len(fr.st) /\ ~MustNot(fr, cut, Cur)
  /\ flags' = Append(flags, TRUE)
  /\ pc' = IF Cur = Len(fr.st) THEN "rest" ELSE "parse"
  /\ UNCHANGED <<fr, cut, rest>>
  /\ Log("Layer", [i |-> Cur], [k |-> fr.st[Cur].k, parsed |-> TRUE])
Refuse ==
  /\ pc = "parse" /\ Cur <= Len(fr.st) /\ ~Must(fr, cut, Cur)
  /\ flags' = Append(flags, FALSE)
  /\ pc' = "rest"
  /\ UNCHANGED <<fr, cut, rest>>
  /\ Log("Layer", [i |-> Cur], [k |-> "?", parsed |-> FALSE])

AllAccepted == Len(flags) = Len(fr.st) /\ (Len(flags) > 0 => flags[Len(flags)])
RestStart ==
  IF AllAccepted THEN Min(CutD(fr, cut), HdrEnd(fr))
  ELSE Min(CutD(fr, cut), Off(fr, Len(flags)))
\* a leaf layer consumes its body - or keeps any tail of it (behind its fixed part) as raw payload:
\* the canonical remainder is the empty one at the end, `lo` is the earliest place a kept tail may
\* begin.  Otherwise every available byte of the datagram behind the accepted headers is kept.
\* Available link padding is kept or not.
RestLo ==
  IF AllAccepted /\ Leaf(fr.st)
  THEN Min(CutD(fr, cut), Off(fr, Len(fr.st)) + fr.need[Len(fr.st)])
  ELSE RestStart
RestLens ==
  LET padAv == cut - CutD(fr, cut)
      base  == IF AllAccepted /\ Leaf(fr.st) THEN 0 ELSE CutD(fr, cut) - RestStart
  IN {base, base + padAv}
Rest ==
  /\ pc = "rest" /\ pc' = "print"
  /\ \E n \in RestLens :
       /\ rest' = [start |-> RestStart, len |-> n]
       /\ Log("Rest", [x |-> 0], [start |-> RestStart, len |-> n, lo |-> RestLo])
  /\ UNCHANGED <<fr, cut, flags>>

Quiet(name) == UNCHANGED <<fr, cut, flags, rest>> /\ Log(name, [x |-> 0], [ok |-> TRUE])
PrintIt == pc = "print" /\ pc' = "dump" /\ Quiet("Print")      \* str() of every layer object
Dump    == pc = "dump"  /\ pc' = "pack" /\ Quiet("Dump")       \* .dump()
Repack  == pc = "pack"  /\ pc' = "done" /\ Quiet("Repack")     \* .pack() returns bytes

Next == Offer \/ Accept \/ Refuse \/ Rest \/ PrintIt \/ Dump \/ Repack
Spec == Init /\ [][Next]_vars /\ WF_vars(Next)

----------------------------------------------------------------------------
(* The property on the model                                                *)

TypeOK == /\ pc \in {"offer", "parse", "rest", "print", "dump", "pack", "done"}
          /\ cut \in 0..Total(fr)
          /\ Len(flags) <= Len(fr.st)

\* the oracle never demands and forbids the same thing
Decidable == \A i \in 1..Len(fr.st) : ~(Must(fr, cut, i) /\ MustNot(fr, cut, i))

\* nothing is reported parsed out of bytes that were not offered
Sound == \A j \in 1..Len(flags) : flags[j] => Off(fr, j) + fr.need[j] <= cut

\* parsing succeeds down a prefix of the stack: at most the last verdict is FALSE
PrefixClosed == \A j \in 1..Len(flags) : (j < Len(flags)) => flags[j]

\* once the remainder is fixed: it starts where the accepted headers end, lies inside the
\* offered bytes, and together with the accepted headers covers every offered byte of the datagram
Accepted == {j \in 1..Len(flags) : flags[j]}
NoLoss ==
  pc \in {"print", "dump", "pack", "done"} =>
    /\ rest.start + rest.len <= cut
    /\ rest.start <= CutD(fr, cut)
    /\ (Accepted # {} /\ ~(AllAccepted /\ Leaf(fr.st))) =>
          LET m == CHOOSE j \in Accepted : \A q \in Accepted : q <= j IN
          rest.start = Off(fr, m) + fr.hl[m]
    /\ (~(AllAccepted /\ Leaf(fr.st))) => rest.start + rest.len >= CutD(fr, cut)

\* an untruncated well-formed frame is parsed all the way down
WholeFrameParses ==
  (pc \in {"rest", "print", "dump", "pack", "done"} /\ cut >= DEnd(fr)
     /\ \A j \in 1..Len(fr.st) : fr.st[j].v # "orig") => AllAccepted

\* parsing, printing and re-serialising always come to an end (there is no other way out)
Terminates == <>(pc = "done")

\* ---- export for the replay harness
Export == (pc = "done") => PrintT(<<"H", ToJson(hist)>>)
=============================================================================
