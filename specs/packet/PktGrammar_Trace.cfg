CONSTANTS PayFull = {5}
  PayEdge = {5}
  Pads = {0}
  CutMode = "edges"
  DeepSizes = {}
INIT TrInit
NEXT TrNext
CONSTRAINT Progress
POSTCONDITION Accepted
INVARIANT TypeOK
INVARIANT Decidable
INVARIANT Sound
INVARIANT PrefixClosed
INVARIANT NoLoss
INVARIANT WholeFrameParses
CHECK_DEADLOCK FALSE
