CONSTANTS Descs <- MCSweep
INIT Init
NEXT Next
INVARIANT Export
CHECK_DEADLOCK FALSE
