CONSTANTS Descs <- MCThorough
INIT Init
NEXT Next
INVARIANT TypeOK
INVARIANT LengthsAndChecksumsOK
INVARIANT ChecksumDefsAgree
INVARIANT ParseRecovers
INVARIANT ReserialiseSame
PROPERTY ObservationsOK
INVARIANT Export
CHECK_DEADLOCK FALSE
