--------------------------- MODULE PktWireLayers ---------------------------
(* C14: the wire oracle of the packet library.                               *)
(*                                                                          *)
(* A packet is a *stack*: a sequence of layers, outermost first.  A layer   *)
(* is a record [p |-> protocol, <header fields>]; the innermost layer may   *)
(* be an opaque payload ([p |-> "raw", n, a, b] = n pattern bytes, or       *)
(* [p |-> "rawb", data]).  Header layouts are transcribed from the          *)
(* standards (IEEE 802.3/802.1Q/802.2, RFC 826, 791, 792, 768, 793, 3032,   *)
(* 8200, 4443, 802.1AB, RFC 2784/2890, 7348, 2236/3376, 2453, 802.1X,       *)
(* RFC 3748, 2131) as tables of <<name, width, kind, role>>:                *)
(*   kind "u" = unsigned number of `w` bits, "b" = string of w/8 bytes;     *)
(*   role "free" = any value of the width, "fix" = decided by the shape of  *)
(*   the stack (dispatch / structure), "der" = derived when serialising     *)
(*   (lengths, checksums).                                                  *)
(*                                                                          *)
(*   Asm(s)   bottom-up assembly: fills every derived field and yields the  *)
(*            bytes ("EncStack") and the completed stack                    *)
(*   Dec(b)   top-down parse following the dispatch fields ("ParseStack")   *)
(*                                                                          *)
(* Nothing here looks at the implementation.                                *)
EXTENDS PktWireBytes, TLC, FiniteSets

F(n, w, k, r) == [n |-> n, w |-> w, k |-> k, r |-> r]

LEth   == <<F("dst", 48, "b", "free"), F("src", 48, "b", "free"), F("type", 16, "u", "fix")>>
LVlan  == <<F("pcp", 3, "u", "free"), F("cfi", 1, "u", "free"), F("vid", 12, "u", "free"),
            F("type", 16, "u", "fix")>>
LArp   == <<F("hwtype", 16, "u", "fix"), F("prototype", 16, "u", "fix"), F("hwlen", 8, "u", "fix"),
            F("protolen", 8, "u", "fix"), F("opcode", 16, "u", "free"),
            F("hwsrc", 48, "b", "free"), F("protosrc", 32, "b", "free"),
            F("hwdst", 48, "b", "free"), F("protodst", 32, "b", "free")>>
LIp4   == <<F("v", 4, "u", "fix"), F("hl", 4, "u", "fix"), F("tos", 8, "u", "free"),
            F("iplen", 16, "u", "der"), F("ident", 16, "u", "free"),
            F("rf", 1, "u", "free"), F("df", 1, "u", "free"), F("mf", 1, "u", "fix"),     \* the three flag bits
            F("frag", 13, "u", "fix"), F("ttl", 8, "u", "free"), F("protocol", 8, "u", "fix"),
            F("csum", 16, "u", "der"), F("srcip", 32, "b", "free"), F("dstip", 32, "b", "free")>>
LIcmp  == <<F("type", 8, "u", "fix"), F("code", 8, "u", "free"), F("csum", 16, "u", "der")>>
LEcho  == <<F("ident", 16, "u", "free"), F("seqno", 16, "u", "free")>>
LUnreach == <<F("unused", 16, "u", "free"), F("mtu", 16, "u", "free")>>
LTimex == <<F("unused4", 32, "b", "free")>>
LUdp   == <<F("srcport", 16, "u", "free"), F("dstport", 16, "u", "free"), F("len", 16, "u", "der"),
            F("csum", 16, "u", "der")>>
LTcp   == <<F("srcport", 16, "u", "free"), F("dstport", 16, "u", "free"), F("seq", 32, "b", "free"),
            F("ack", 32, "b", "free"), F("off", 4, "u", "der"), F("res", 4, "u", "free"),
            F("flags", 8, "u", "free"), F("win", 16, "u", "free"), F("csum", 16, "u", "der"),
            F("urg", 16, "u", "free")>>
LMpls  == <<F("label", 20, "u", "free"), F("tc", 3, "u", "free"), F("s", 1, "u", "fix"),
            F("ttl", 8, "u", "free")>>
LIp6   == <<F("v", 4, "u", "fix"), F("tc", 8, "u", "free"), F("flow", 20, "u", "free"),
            F("plen", 16, "u", "der"), F("nh", 8, "u", "fix"), F("hlim", 8, "u", "free"),
            F("srcip", 128, "b", "free"), F("dstip", 128, "b", "free")>>
LIcmp6 == LIcmp
\* ---- the long tail
LVxlan == <<F("flags", 8, "u", "fix"), F("rsv1", 24, "u", "fix"), F("vni", 24, "u", "free"),
            F("rsv2", 8, "u", "fix")>>
LIgmp  == <<F("vtype", 8, "u", "fix"), F("mrt", 8, "u", "free"), F("csum", 16, "u", "der"),
            F("group", 32, "b", "free")>>
LRip   == <<F("command", 8, "u", "free"), F("version", 8, "u", "free"), F("zero", 16, "u", "fix")>>
LRipE  == <<F("af", 16, "u", "free"), F("tag", 16, "u", "free"), F("ip", 32, "b", "free"),
            F("mask", 32, "b", "free"), F("nexthop", 32, "b", "free"), F("metric", 32, "b", "free")>>
LEapol == <<F("version", 8, "u", "free"), F("type", 8, "u", "fix"), F("bodylen", 16, "u", "der")>>
LEap   == <<F("code", 8, "u", "fix"), F("ident", 8, "u", "free"), F("length", 16, "u", "der")>>
LDhcp  == <<F("op", 8, "u", "free"), F("htype", 8, "u", "free"), F("hlen", 8, "u", "fix"),
            F("hops", 8, "u", "free"), F("xid", 32, "b", "free"), F("secs", 16, "u", "free"),
            F("flags", 16, "u", "free"), F("ciaddr", 32, "b", "free"), F("yiaddr", 32, "b", "free"),
            F("siaddr", 32, "b", "free"), F("giaddr", 32, "b", "free"), F("chaddr", 128, "b", "free"),
            F("sname", 512, "b", "free"), F("file", 1024, "b", "free"), F("magic", 32, "b", "fix")>>
LNs    == <<F("rsv", 32, "b", "fix"), F("target", 128, "b", "free")>>
LNa    == <<F("r", 1, "u", "free"), F("sol", 1, "u", "free"), F("ovr", 1, "u", "free"),
            F("rsv5", 5, "u", "fix"), F("rsv", 24, "u", "fix"), F("target", 128, "b", "free")>>
LRs    == <<F("rsv", 32, "b", "fix")>>
LRa    == <<F("hoplimit", 8, "u", "free"), F("m", 1, "u", "free"), F("o", 1, "u", "free"),
            F("rsv6", 6, "u", "fix"), F("lifetime", 16, "u", "free"), F("reachable", 32, "b", "free"),
            F("retrans", 32, "b", "free")>>
LToobig == <<F("mtu4", 32, "b", "free")>>
\* RFC 1035 4.1.1 (AD, CD: RFC 2535)
LDns   == <<F("ident", 16, "u", "free"), F("qr", 1, "u", "free"), F("opcode", 4, "u", "free"),
            F("aa", 1, "u", "free"), F("tc", 1, "u", "free"), F("rd", 1, "u", "free"), F("ra", 1, "u", "free"),
            F("z", 1, "u", "free"), F("ad", 1, "u", "free"), F("cd", 1, "u", "free"), F("rcode", 4, "u", "free"),
            F("qd", 16, "u", "der"), F("an", 16, "u", "der"), F("ns", 16, "u", "der"), F("ar", 16, "u", "der")>>
\* RFC 4443 3.3: the unused field "must be initialized to zero by the originator and ignored by the receiver"
LTimex6 == <<F("unused4", 32, "b", "fix")>>

Layouts == [eth |-> LEth, vlan |-> LVlan, arp |-> LArp, ipv4 |-> LIp4, icmp |-> LIcmp, echo |-> LEcho,
            unreach |-> LUnreach, timex |-> LTimex, udp |-> LUdp, tcp |-> LTcp, mpls |-> LMpls,
            ipv6 |-> LIp6, icmp6 |-> LIcmp6, echo6 |-> LEcho, vxlan |-> LVxlan, igmp |-> LIgmp,
            rip |-> LRip, ripentry |-> LRipE, eapol |-> LEapol, eap |-> LEap, dhcp |-> LDhcp,
            dns |-> LDns, ns |-> LNs, na |-> LNa, rs |-> LRs, ra |-> LRa, toobig |-> LToobig, unreach6 |-> LTimex,
            timex6 |-> LTimex6]
HasLayout(p) == p \in DOMAIN Layouts

---------------------------------------------------------------------------
(* Table-driven encoding / decoding of a fixed header                      *)

\* fields in order, most significant bit first; byte-string fields are byte aligned
RECURSIVE EncFrom(_, _, _, _, _)
EncFrom(lay, L, i, acc, nb) ==          \* acc: the nb < 8 bits not yet emitted
  IF i > Len(lay) THEN <<>>
  ELSE IF lay[i].k = "b" THEN L[lay[i].n] \o EncFrom(lay, L, i + 1, 0, 0)
  ELSE LET w == lay[i].w
           t == nb + w
           a == acc * (2 ^ w) + L[lay[i].n]
       IN Emit(a, t) \o EncFrom(lay, L, i + 1, a % (2 ^ (t % 8)), t % 8)
EncFixed(lay, L) == EncFrom(lay, L, 1, 0, 0)
RECURSIVE BitOff(_, _)
BitOff(lay, i) == IF i = 1 THEN 0 ELSE BitOff(lay, i - 1) + lay[i - 1].w
Width(lay) == BitOff(lay, Len(lay) + 1) \div 8          \* bytes
Names(lay) == {lay[i].n : i \in 1..Len(lay)}
DecFixed(lay, b) ==
  [nm \in Names(lay) |->
     LET i == CHOOSE j \in 1..Len(lay) : lay[j].n = nm
         o == BitOff(lay, i)
     IN IF lay[i].k = "u" THEN BitsAt(b, o, lay[i].w)
        ELSE SubSeq(b, o \div 8 + 1, (o + lay[i].w) \div 8)]
\* value of every field is within its width
FixedOK(lay, L) ==
  \A i \in 1..Len(lay) :
    IF lay[i].k = "u" THEN L[lay[i].n] \in 0..(2 ^ lay[i].w - 1)
    ELSE Len(L[lay[i].n]) = lay[i].w \div 8 /\ IsBytes(L[lay[i].n])

---------------------------------------------------------------------------
(* Variable-length parts                                                    *)

\* TCP options (RFC 793 3.1): kind 0 (end of list) and 1 (no-op) are one byte,
\* every other option is kind, length, data; the list is zero-padded to a
\* multiple of four bytes.  An option is [k |-> kind, d |-> data bytes].
EncOpt(o) == IF o.k \in {0, 1} THEN <<o.k>> ELSE <<o.k, 2 + Len(o.d)>> \o o.d
Pad4(b) == b \o Zeros((4 - (Len(b) % 4)) % 4)
OptBytes(os) == Pad4(Concat([i \in 1..Len(os) |-> EncOpt(os[i])]))
\* options up to and including the first end-of-list option
RECURSIVE DecOpts(_, _, _)
DecOpts(b, i, end) ==        \* returns [ok, os]
  IF i > end THEN [ok |-> TRUE, os |-> <<>>]
  ELSE IF b[i] = 0 THEN [ok |-> TRUE, os |-> <<[k |-> 0, d |-> <<>>]>>]
  ELSE IF b[i] = 1 THEN LET r == DecOpts(b, i + 1, end) IN [ok |-> r.ok, os |-> <<[k |-> 1, d |-> <<>>]>> \o r.os]
  ELSE IF i + 1 > end THEN [ok |-> FALSE, os |-> <<>>]
  ELSE LET n == b[i + 1] IN
       IF n < 2 \/ i + n - 1 > end THEN [ok |-> FALSE, os |-> <<>>]
       ELSE LET r == DecOpts(b, i + n, end)
            IN [ok |-> r.ok, os |-> <<[k |-> b[i], d |-> SubSeq(b, i + 2, i + n - 1)]>> \o r.os]
\* "the same options": an end-of-list option and whatever follows carry no information
RECURSIVE StripEol(_)
StripEol(os) == IF os = <<>> \/ os[1].k = 0 THEN <<>> ELSE <<os[1]>> \o StripEol(Tail(os))

\* ---- Structured TCP options: Multipath TCP (RFC 6824 section 3), option kind 30.
\* The first data octet carries the subtype in its upper four bits.  The
\* subtypes whose layout is a list of fields - MP_CAPABLE (3.1), MP_JOIN (3.2),
\* DSS (3.3) - are decoded into named fields <<[n |-> name, v |-> octets]>>:
\* "equal header fields" is judged on those, not on the option's octets.  Every
\* other option (and every layout the RFC does not give) stays kind + data.
\*   MP_CAPABLE  subtype|version, flags, sender's key (8) [, receiver's key (8)]
\*   MP_JOIN     subtype|flags(4), address id, then by length: receiver's token (4)
\*               + sender's random number (4) | truncated HMAC (8) + random
\*               number (4) | full HMAC (20)
\*   DSS         subtype|0, flags F m M a A, Data ACK (A: 4 octets, a: 8), and with
\*               M: data sequence number (4 octets, m: 8), subflow sequence number
\*               (4), data-level length (2), checksum (2).  The widths of the Data
\*               ACK and of the data sequence number are independent.
Fld(n, v) == [n |-> n, v |-> v]
BitOf(x, i) == (x \div (2 ^ i)) % 2
DssAckLen(fl) == IF BitOf(fl, 0) = 0 THEN 0 ELSE IF BitOf(fl, 1) = 1 THEN 8 ELSE 4
DssDsnLen(fl) == IF BitOf(fl, 2) = 0 THEN 0 ELSE IF BitOf(fl, 3) = 1 THEN 8 ELSE 4
DssLen(fl) == 4 + DssAckLen(fl) + DssDsnLen(fl) + (IF BitOf(fl, 2) = 1 THEN 8 ELSE 0)
\* the width bits mean something only next to their presence bit
DssFlagsOK(fl) == (BitOf(fl, 1) = 1 => BitOf(fl, 0) = 1) /\ (BitOf(fl, 3) = 1 => BitOf(fl, 2) = 1)
\* a 32- or 64-bit number in the view: always eight octets (a parser that reads
\* the wrong width yields another number)
Wide(v) == Zeros(8 - Len(v)) \o v
Narrow(v, w) == SubSeq(v, Len(v) - w + 1, Len(v))
MpFields(d) ==
  IF Len(d) < 2 THEN <<>>
  ELSE LET st == d[1] \div 16
           lo == d[1] % 16
           n  == Len(d) + 2
       IN CASE st = 0 /\ n \in {12, 20} ->
                 <<Fld("subtype", <<0>>), Fld("version", <<lo>>), Fld("flags", <<d[2]>>), Fld("skey", SubSeq(d, 3, 10))>>
                 \o (IF n = 20 THEN <<Fld("rkey", SubSeq(d, 11, 18))>> ELSE <<>>)
            [] st = 1 /\ n = 12 ->
                 <<Fld("subtype", <<1>>), Fld("flags", <<lo>>), Fld("addr", <<d[2]>>),
                   Fld("rtoken", SubSeq(d, 3, 6)), Fld("srand", SubSeq(d, 7, 10))>>
            [] st = 1 /\ n = 16 ->
                 <<Fld("subtype", <<1>>), Fld("flags", <<lo>>), Fld("addr", <<d[2]>>),
                   Fld("shmac", SubSeq(d, 3, 10)), Fld("srand", SubSeq(d, 11, 14))>>
            [] st = 1 /\ n = 24 ->
                 <<Fld("subtype", <<1>>), Fld("flags", <<lo>>), Fld("addr", <<d[2]>>), Fld("shmac", SubSeq(d, 3, 22))>>
            [] st = 2 /\ lo = 0 /\ DssFlagsOK(d[2]) /\ n = DssLen(d[2]) ->
                 LET fl == d[2]
                     al == DssAckLen(fl)
                     dl == DssDsnLen(fl)
                     q  == 3 + al + dl
                 IN <<Fld("subtype", <<2>>), Fld("flags", <<fl>>)>>
                    \o (IF al > 0 THEN <<Fld("ack", Wide(SubSeq(d, 3, 2 + al)))>> ELSE <<>>)
                    \o (IF dl > 0 THEN <<Fld("dsn", Wide(SubSeq(d, 3 + al, 2 + al + dl))), Fld("seq", SubSeq(d, q, q + 3)),
                                         Fld("length", SubSeq(d, q + 4, q + 5)), Fld("csum", SubSeq(d, q + 6, q + 7))>>
                        ELSE <<>>)
            [] OTHER -> <<>>
\* the option data a sender emits for a list of fields (the constructive
\* direction; the corpus builds its options with it and TLC checks that
\* MpFields inverts it on every option it decodes: StructuredOptionsOK)
HasF(f, n) == \E i \in 1..Len(f) : f[i].n = n
FV(f, n) == f[CHOOSE i \in 1..Len(f) : f[i].n = n].v
FO(f, n) == IF HasF(f, n) THEN FV(f, n) ELSE <<>>
MpEnc(f) ==
  LET st == FV(f, "subtype")[1]
  IN CASE st = 0 -> <<FV(f, "version")[1], FV(f, "flags")[1]>> \o FV(f, "skey") \o FO(f, "rkey")
       [] st = 1 -> <<16 + FV(f, "flags")[1], FV(f, "addr")[1]>> \o FO(f, "rtoken") \o FO(f, "shmac") \o FO(f, "srand")
       [] OTHER -> LET fl == FV(f, "flags")[1]
                   IN <<32, fl>> \o (IF HasF(f, "ack") THEN Narrow(FV(f, "ack"), DssAckLen(fl)) ELSE <<>>)
                      \o (IF HasF(f, "dsn") THEN Narrow(FV(f, "dsn"), DssDsnLen(fl)) \o FV(f, "seq") \o FV(f, "length") \o FV(f, "csum")
                          ELSE <<>>)
\* an option as a caller sees it: its fields where the layout is known (the
\* data octets are then not compared a second time), kind + data otherwise
OptView(o) == IF "f" \in DOMAIN o THEN o
              ELSE LET f == IF o.k = 30 THEN MpFields(o.d) ELSE <<>>
                   IN [k |-> o.k, d |-> IF Len(f) = 0 THEN o.d ELSE <<>>, f |-> f]
OptsView(os) == [i \in 1..Len(os) |-> OptView(os[i])]

\* LLDP TLVs (802.1AB 9.4): 7-bit type, 9-bit length, value.  [t |-> type, d |-> value]
EncTlv(x) == PackBits(<<<<x.t, 7>>, <<Len(x.d), 9>>>>) \o x.d
TlvBytes(ts) == Concat([i \in 1..Len(ts) |-> EncTlv(ts[i])])
RECURSIVE DecTlvs(_, _)
DecTlvs(b, i) ==             \* up to and including the END TLV; [ok, ts]
  IF i + 1 > Len(b) THEN [ok |-> FALSE, ts |-> <<>>]
  ELSE LET t == b[i] \div 2
           n == (b[i] % 2) * 256 + b[i + 1]
       IN IF i + 1 + n > Len(b) THEN [ok |-> FALSE, ts |-> <<>>]
          ELSE LET x == [t |-> t, d |-> SubSeq(b, i + 2, i + 1 + n)]
               IN IF t = 0 THEN [ok |-> n = 0, ts |-> <<x>>]
                  ELSE LET r == DecTlvs(b, i + 2 + n) IN [ok |-> r.ok, ts |-> <<x>> \o r.ts]
\* mandatory order: chassis id, port id, ttl, ..., end (802.1AB 9.1)
LldpShapeOK(ts) ==
  /\ Len(ts) >= 4 /\ ts[1].t = 1 /\ ts[2].t = 2 /\ ts[3].t = 3 /\ ts[Len(ts)].t = 0
  /\ Len(ts[1].d) >= 2 /\ Len(ts[2].d) >= 2 /\ Len(ts[3].d) = 2 /\ Len(ts[Len(ts)].d) = 0
  /\ \A i \in 4..(Len(ts) - 1) : ts[i].t # 0

\* IPv6 extension headers (RFC 8200 4): [t |-> header type, nh |-> next header, d |-> body].
\* Hop-by-hop (0), routing (43), destination options (60): nh, (len/8 - 1), body
\* with 2 + Len(body) a multiple of 8; fragment (44): nh + 7 bytes.
ExtTypes == {0, 43, 44, 60}
EncExt(e) == IF e.t = 44 THEN <<e.nh>> \o e.d ELSE <<e.nh, (2 + Len(e.d)) \div 8 - 1>> \o e.d
ExtBytes(es) == Concat([i \in 1..Len(es) |-> EncExt(es[i])])
ExtOK(e) == IF e.t = 44 THEN Len(e.d) = 7 ELSE (2 + Len(e.d)) % 8 = 0
RECURSIVE DecExts(_, _, _)
DecExts(b, i, t) ==          \* [ok, es, at (index after), nh (upper protocol)]
  IF t \notin ExtTypes THEN [ok |-> TRUE, es |-> <<>>, at |-> i, nh |-> t]
  ELSE IF i + 7 > Len(b) THEN [ok |-> FALSE, es |-> <<>>, at |-> i, nh |-> t]
  ELSE LET n == IF t = 44 THEN 8 ELSE 8 * (b[i + 1] + 1) IN
       IF i + n - 1 > Len(b) THEN [ok |-> FALSE, es |-> <<>>, at |-> i, nh |-> t]
       ELSE LET e == [t |-> t, nh |-> b[i], d |-> SubSeq(b, i + (IF t = 44 THEN 1 ELSE 2), i + n - 1)]
                r == DecExts(b, i + n, b[i])
            IN [ok |-> r.ok, es |-> <<e>> \o r.es, at |-> r.at, nh |-> r.nh]

\* DHCP options (RFC 2132 2): code, length, data; 0 = pad, 255 = end.  [k, d]
EncDhcpOpt(o) == IF o.k = 0 THEN <<0>> ELSE <<o.k, Len(o.d)>> \o o.d
RECURSIVE StripPads(_)
StripPads(os) == IF os = <<>> THEN <<>>
                 ELSE (IF os[1].k = 0 THEN <<>> ELSE <<os[1]>>) \o StripPads(Tail(os))
\* the two usual placements of pad options: none, or one after every option of odd size
RECURSIVE EvenPadded(_)
EvenPadded(os) == IF os = <<>> THEN <<>>
                  ELSE <<os[1]>> \o (IF Len(os[1].d) % 2 = 1 THEN <<[k |-> 0, d |-> <<>>]>> ELSE <<>>)
                       \o EvenPadded(Tail(os))

\* 802.2 LLC: DSAP, SSAP, control (two bytes for I and S formats, one byte
\* for U format), optionally SNAP (OUI, protocol id).  ctl is a byte string.
LlcHdr(L) == <<L.dsap, L.ssap>> \o L.ctl \o (IF L.snap = 1 THEN L.oui \o U16(L.type) ELSE <<>>)
LlcTwoByteCtl(c1) == c1 % 2 = 0 \/ c1 % 4 = 1
LlcIsSnap(dsap, ssap) == (dsap \div 2) * 2 = 170 /\ (ssap \div 2) * 2 = 170

\* GRE (RFC 2784 / 2890): C, (R), K, S flag bits, 3 bits recursion, 5 bits flags,
\* 3 bits version, protocol type, then optional checksum+reserved, key, sequence.
GreHdr(L) == PackBits(<<<<L.c, 1>>, <<0, 1>>, <<L.k, 1>>, <<L.sq, 1>>, <<0, 1>>, <<L.recur, 3>>,
                        <<0, 5>>, <<L.ver, 3>>, <<L.type, 16>>>>)
             \o (IF L.c = 1 THEN U16(L.csum) \o U16(L.offset) ELSE <<>>)
             \o (IF L.k = 1 THEN L.key ELSE <<>>) \o (IF L.sq = 1 THEN L.seq ELSE <<>>)

\* DNS messages (RFC 1035 4.1).  A name is a sequence of labels (byte strings).
\* On the wire (4.1.4) a name is a sequence of length-prefixed labels ending in
\* a zero byte, or a two-byte pointer 11xxxxxx xxxxxxxx to a prior occurrence,
\* or a sequence of labels ending with such a pointer.  Compression is optional
\* for the sender, so the serialisation of a message is not unique.  The layer
\* field cmp names the sender's style:
\*   0  no compression
\*   1  a name identical to one written out in full earlier becomes a pointer
\*   2  the longest suffix that starts at any label written out earlier (itself
\*      possibly ending in a pointer) is replaced by a pointer to its first
\*      occurrence: pointers into the middle of names and pointer chains
\*   3  as 2, but only the first label of an earlier name (however that name
\*      ends) is a pointer target
\* What every receiver must accept - and all that may be demanded of a sender -
\* is DnsValid below: the bytes decode to the message, pointers point backwards.
\* question: [name, qtype, qclass]; record: [name, type, class, ttl, rd] where
\* rd = [k |-> "raw", d |-> bytes] or [k |-> "name", d |-> name] (NS, CNAME, PTR).
NameTypes == {2, 5, 12}
DnsStyles == 0..3
LabelsOnly(ls) == Concat([i \in 1..Len(ls) |-> <<Len(ls[i])>> \o ls[i]])
Labels(name) == LabelsOnly(name) \o <<0>>
Suffix(name, k) == SubSeq(name, k + 1, Len(name))            \* the name without its first k labels
NamePtr(at) == <<192 + at \div 256, at % 256>>
\* seen: <<name, offset>> pairs = the pointer targets the sender remembers
SeenAt(seen, name) == LET js == {j \in 1..Len(seen) : seen[j][1] = name}
                      IN IF js = {} THEN 0 - 1 ELSE seen[CHOOSE j \in js : \A k \in js : j <= k][2]
RECURSIVE CutAt(_, _, _)
CutAt(seen, name, k) ==         \* least k such that the name without its first k labels is a known target
  IF k >= Len(name) THEN Len(name)
  ELSE IF SeenAt(seen, Suffix(name, k)) >= 0 THEN k ELSE CutAt(seen, name, k + 1)
\* number of leading labels written out (all of them: the name ends in the zero byte, no pointer)
Lit(seen, name, cmp) ==
  CASE cmp = 0 -> Len(name)
    [] cmp = 1 -> IF Len(name) > 0 /\ SeenAt(seen, name) >= 0 THEN 0 ELSE Len(name)
    [] OTHER   -> CutAt(seen, name, 0)
NameBytes(seen, name, cmp) ==
  LET k == Lit(seen, name, cmp)
  IN IF k = Len(name) THEN Labels(name)
     ELSE LabelsOnly(SubSeq(name, 1, k)) \o NamePtr(SeenAt(seen, Suffix(name, k)))
\* targets added by a name written at offset off with its first k labels spelled out
Targets(seen, name, k, off, cmp) ==
  CASE cmp \in {0, 1} -> IF k = Len(name) /\ k > 0 THEN Append(seen, <<name, off>>) ELSE seen
    [] cmp = 2 -> seen \o [j \in 1..k |-> <<Suffix(name, j - 1), off + Len(LabelsOnly(SubSeq(name, 1, j - 1)))>>]
    [] OTHER   -> IF k > 0 THEN Append(seen, <<name, off>>) ELSE seen
\* st = [s |-> bytes so far, seen |-> targets]
PutName(st, name, cmp, shift) ==
  [s |-> st.s \o NameBytes(st.seen, name, cmp),
   seen |-> Targets(st.seen, name, Lit(st.seen, name, cmp), Len(st.s) + shift, cmp)]
PutQ(st, q, cmp) == LET t == PutName(st, q.name, cmp, 0) IN [t EXCEPT !.s = t.s \o U16(q.qtype) \o U16(q.qclass)]
PutRR(st, r, cmp) ==
  LET t  == PutName(st, r.name, cmp, 0)
      t1 == [t EXCEPT !.s = t.s \o U16(r.type) \o U16(r.class) \o r.ttl]
  IN IF r.rd.k = "raw" THEN [t1 EXCEPT !.s = t1.s \o U16(Len(r.rd.d)) \o r.rd.d]
     ELSE LET enc == NameBytes(t1.seen, r.rd.d, cmp)
              t2  == PutName(t1, r.rd.d, cmp, 2)          \* the name starts after the RDLENGTH field
          IN [t2 EXCEPT !.s = t1.s \o U16(Len(enc)) \o enc]
RECURSIVE PutAll(_, _, _, _, _)
PutAll(st, xs, i, cmp, isQ) ==
  IF i > Len(xs) THEN st
  ELSE PutAll(IF isQ THEN PutQ(st, xs[i], cmp) ELSE PutRR(st, xs[i], cmp), xs, i + 1, cmp, isQ)
DnsBytes(L) ==
  LET h  == EncFixed(LDns, [L EXCEPT !.qd = Len(L.qs), !.an = Len(L.ans), !.ns = Len(L.auth), !.ar = Len(L.add)])
      s0 == [s |-> h, seen |-> <<>>]
      s1 == PutAll(s0, L.qs, 1, L.cmp, TRUE)
  IN PutAll(s1, L.ans \o L.auth \o L.add, 1, L.cmp, FALSE).s

\* every name of a message, in wire order
DnsNames(L) ==
  LET rrs == L.ans \o L.auth \o L.add
  IN [i \in 1..Len(L.qs) |-> L.qs[i].name]
     \o Concat([i \in 1..Len(rrs) |-> IF rrs[i].rd.k = "name" THEN <<rrs[i].name, rrs[i].rd.d>> ELSE <<rrs[i].name>>])
Suffixes(n) == {Suffix(n, k) : k \in 0..(Len(n) - 1)}          \* the non-empty ones
\* two different names have a suffix in common: how much of it is compressed is up to the sender
\* (written as a set comparison: TLC would take an \E inside an action for a choice of successor)
SharesSuffix(L) ==
  LET ns == DnsNames(L)
  IN {x \in (1..Len(ns)) \X (1..Len(ns)) :
        x[1] < x[2] /\ ns[x[1]] # ns[x[2]] /\ Suffixes(ns[x[1]]) \cap Suffixes(ns[x[2]]) # {}} # {}

\* reading a name: [ok, name, next (index after the name in the enclosing sequence), ptr (a pointer was
\* followed), back (every pointer followed points to an earlier position than its own)]
NoName(i) == [ok |-> FALSE, name |-> <<>>, next |-> i, ptr |-> FALSE, back |-> TRUE]
RECURSIVE ReadName(_, _, _)
ReadName(b, i, depth) ==
  IF i > Len(b) \/ depth > 8 THEN NoName(i)
  ELSE IF b[i] = 0 THEN [ok |-> TRUE, name |-> <<>>, next |-> i + 1, ptr |-> FALSE, back |-> TRUE]
  ELSE IF b[i] >= 192 THEN
         IF i + 1 > Len(b) THEN NoName(i)
         ELSE LET t == (b[i] - 192) * 256 + b[i + 1] + 1
                  r == ReadName(b, t, depth + 1)
              IN [ok |-> r.ok, name |-> r.name, next |-> i + 2, ptr |-> TRUE, back |-> r.back /\ t < i]
  ELSE IF b[i] > 63 \/ i + b[i] > Len(b) THEN NoName(i)
  ELSE LET r == ReadName(b, i + 1 + b[i], depth)
       IN [ok |-> r.ok, name |-> <<SubSeq(b, i + 1, i + b[i])>> \o r.name, next |-> r.next, ptr |-> r.ptr, back |-> r.back]
\* [ok, xs, next, ptr, back, tight (a name in RDATA fills exactly RDLENGTH bytes)]
NoRecs(i) == [ok |-> FALSE, xs |-> <<>>, next |-> i, ptr |-> FALSE, back |-> TRUE, tight |-> TRUE]
RECURSIVE ReadQs(_, _, _), ReadRRs(_, _, _)
ReadQs(b, i, k) ==
  IF k = 0 THEN [ok |-> TRUE, xs |-> <<>>, next |-> i, ptr |-> FALSE, back |-> TRUE, tight |-> TRUE]
  ELSE LET n == ReadName(b, i, 0)
       IN IF ~n.ok \/ n.next + 3 > Len(b) THEN NoRecs(i)
          ELSE LET r == ReadQs(b, n.next + 4, k - 1)
               IN [ok |-> r.ok, next |-> r.next, ptr |-> n.ptr \/ r.ptr, back |-> n.back /\ r.back, tight |-> TRUE,
                   xs |-> <<[name |-> n.name, qtype |-> N16(b, n.next), qclass |-> N16(b, n.next + 2)]>> \o r.xs]
ReadRRs(b, i, k) ==
  IF k = 0 THEN [ok |-> TRUE, xs |-> <<>>, next |-> i, ptr |-> FALSE, back |-> TRUE, tight |-> TRUE]
  ELSE LET n == ReadName(b, i, 0)
       IN IF ~n.ok \/ n.next + 9 > Len(b) THEN NoRecs(i)
          ELSE LET ty  == N16(b, n.next)
                   len == N16(b, n.next + 8)
                   at  == n.next + 10
               IN IF at + len - 1 > Len(b) THEN NoRecs(i)
                  ELSE LET dn == ReadName(b, at, 0)
                           isn == ty \in NameTypes
                           rd == IF isn THEN [k |-> "name", d |-> dn.name] ELSE [k |-> "raw", d |-> SubSeq(b, at, at + len - 1)]
                           r  == ReadRRs(b, at + len, k - 1)
                       IN [ok |-> r.ok /\ (isn => dn.ok), next |-> r.next, ptr |-> n.ptr \/ r.ptr \/ (isn /\ dn.ptr),
                           back |-> n.back /\ r.back /\ (isn => dn.back),
                           tight |-> r.tight /\ (isn => dn.next = at + len),
                           xs |-> <<[name |-> n.name, type |-> ty, class |-> N16(b, n.next + 2),
                                     ttl |-> SubSeq(b, n.next + 4, n.next + 7), rd |-> rd]>> \o r.xs]

---------------------------------------------------------------------------
(* Assembly                                                                 *)

NoLayer == [p |-> "none"]
RawBytes(L) == IF L.p = "raw" THEN Pattern(L.n, L.a, L.b) ELSE L.data

\* pseudo header of the enclosing IP layer (RFC 768 / 793 / 8200 8.1)
Pseudo(ip, proto, n) ==
  IF ip.p = "ipv4" THEN ip.srcip \o ip.dstip \o <<0, proto>> \o U16(n)
  ELSE ip.srcip \o ip.dstip \o <<0, 0>> \o U16(n) \o <<0, 0, 0, proto>>

Hdr(L) ==
  CASE L.p \in {"raw", "rawb"} -> RawBytes(L)
    [] L.p = "ipv4"  -> EncFixed(LIp4, L) \o L.opts
    [] L.p = "tcp"   -> EncFixed(LTcp, L) \o OptBytes(L.opts)
    [] L.p = "llc"   -> LlcHdr(L)
    [] L.p = "lldp"  -> TlvBytes(L.tlvs)
    [] L.p = "ipv6"  -> EncFixed(LIp6, L) \o ExtBytes(L.ext)
    [] L.p = "gre"   -> GreHdr(L)
    [] L.p = "igmp3" -> <<34, 0>> \o U16(L.csum) \o <<0, 0>> \o U16(Len(L.recs))
                        \o Concat([i \in 1..Len(L.recs) |->
                                     <<L.recs[i].t, Len(L.recs[i].aux) \div 4>> \o U16(Len(L.recs[i].srcs))
                                     \o L.recs[i].group \o Concat(L.recs[i].srcs) \o L.recs[i].aux])
    [] L.p = "rip"   -> EncFixed(LRip, L) \o Concat([i \in 1..Len(L.entries) |-> EncFixed(LRipE, L.entries[i])])
    [] L.p = "dns"   -> DnsBytes(L)
    [] L.p = "dhcp"  -> EncFixed(LDhcp, L) \o Concat([i \in 1..Len(L.opts) |-> EncDhcpOpt(L.opts[i])]) \o <<255>>
    [] L.p \in {"ns", "na", "rs", "ra"} ->
         EncFixed(Layouts[L.p], L) \o Concat([i \in 1..Len(L.opts) |->
                                                <<L.opts[i].t, (2 + Len(L.opts[i].d)) \div 8>> \o L.opts[i].d])
    [] OTHER -> EncFixed(Layouts[L.p], L)

\* the layer with its derived fields, given the bytes that follow it and the layer before it
Fill(L, in, prev) ==
  CASE L.p = "ipv4" ->
         LET L1 == [L EXCEPT !.iplen = 4 * L.hl + Len(in), !.csum = 0]
         IN [L1 EXCEPT !.csum = Csum(Hdr(L1))]
    [] L.p = "udp" ->
         LET n  == 8 + Len(in)
             L1 == [L EXCEPT !.len = n, !.csum = 0]
             c  == IF prev.p \in {"ipv4", "ipv6"} THEN Csum(Pseudo(prev, 17, n) \o Hdr(L1) \o in) ELSE 0
         IN [L1 EXCEPT !.csum = IF c = 0 /\ prev.p \in {"ipv4", "ipv6"} THEN 65535 ELSE c]
    [] L.p = "tcp" ->
         LET L1  == [L EXCEPT !.off = (20 + Len(OptBytes(L.opts))) \div 4, !.csum = 0]
             seg == Hdr(L1) \o in
         IN [L1 EXCEPT !.csum = IF prev.p \in {"ipv4", "ipv6"} THEN Csum(Pseudo(prev, 6, Len(seg)) \o seg) ELSE 0]
    [] L.p = "icmp" -> [L EXCEPT !.csum = Csum(Hdr([L EXCEPT !.csum = 0]) \o in)]
    [] L.p = "icmp6" ->
         LET seg == Hdr([L EXCEPT !.csum = 0]) \o in
         IN [L EXCEPT !.csum = Csum(Pseudo(prev, 58, Len(seg)) \o seg)]
    [] L.p = "ipv6" -> [L EXCEPT !.plen = Len(ExtBytes(L.ext)) + Len(in)]
    [] L.p = "igmp" -> [L EXCEPT !.csum = Csum(Hdr([L EXCEPT !.csum = 0]) \o in)]
    [] L.p = "igmp3" -> [L EXCEPT !.csum = Csum(Hdr([L EXCEPT !.csum = 0]) \o in)]
    [] L.p = "gre" ->
         IF L.c = 1 THEN [L EXCEPT !.csum = Csum(Hdr([L EXCEPT !.csum = 0]) \o in)] ELSE L
    [] L.p = "eapol" -> [L EXCEPT !.bodylen = Len(in)]
    [] L.p = "eap" -> [L EXCEPT !.length = 4 + Len(in)]
    [] L.p = "dns" -> [L EXCEPT !.qd = Len(L.qs), !.an = Len(L.ans), !.ns = Len(L.auth), !.ar = Len(L.add)]
    [] OTHER -> L

RECURSIVE Asm(_, _)
Asm(s, i) ==
  IF i > Len(s) THEN [b |-> <<>>, v |-> <<>>]
  ELSE LET in == Asm(s, i + 1)
           L  == Fill(s[i], in.b, IF i > 1 THEN s[i - 1] ELSE NoLayer)
       IN [b |-> Hdr(L) \o in.b, v |-> <<L>> \o in.v]
EncStack(s)  == Asm(s, 1).b
FillStack(s) == Asm(s, 1).v

---------------------------------------------------------------------------
(* Parsing: follow the dispatch fields; what cannot be parsed stays opaque  *)

RawL(b) == IF Len(b) = 0 THEN <<>> ELSE <<[p |-> "rawb", data |-> b]>>
Lay(p, b) == [p |-> p] @@ DecFixed(Layouts[p], b)

RECURSIVE DecEthNext(_, _, _), DecVlan(_), DecLlc(_), DecIp4(_), DecIcmp(_), DecUdp(_), DecMpls(_),
          DecIp6(_), DecGre(_), DecEth(_)

DecArp(b) ==
  IF Len(b) < 28 THEN RawL(b)
  ELSE LET L == Lay("arp", b)
       IN IF L.hwtype # 1 \/ L.hwlen # 6 \/ L.prototype # 2048 \/ L.protolen # 4 THEN RawL(b)
          ELSE <<L>> \o RawL(Drop(b, 28))

DecTcp(b) ==
  IF Len(b) < 20 THEN RawL(b)
  ELSE LET h == DecFixed(LTcp, b)
       IN IF 4 * h.off < 20 \/ 4 * h.off > Len(b) THEN RawL(b)
          ELSE LET r == DecOpts(b, 21, 4 * h.off)
               IN IF ~r.ok THEN RawL(b)
                  ELSE <<[p |-> "tcp", opts |-> r.os] @@ h>> \o RawL(Drop(b, 4 * h.off))

DecLldp(b) ==
  LET r == DecTlvs(b, 1)
  IN IF r.ok /\ LldpShapeOK(r.ts) THEN <<[p |-> "lldp", tlvs |-> r.ts]>> ELSE RawL(b)

DecEap(b) ==
  IF Len(b) < 4 THEN RawL(b) ELSE <<Lay("eap", b)>> \o RawL(Drop(b, 4))
DecEapol(b) ==
  IF Len(b) < 4 THEN RawL(b)
  ELSE LET L == Lay("eapol", b)
       IN <<L>> \o (IF L.type = 0 THEN DecEap(Drop(b, 4)) ELSE RawL(Drop(b, 4)))

DecEthNext(t, b, allowLlc) ==
  CASE t = 33024 -> DecVlan(b)
    [] t \in {2054, 32821} -> DecArp(b)
    [] t = 2048 -> DecIp4(b)
    [] t = 34525 -> DecIp6(b)
    [] t = 35020 -> DecLldp(b)
    [] t \in {34887, 34888} -> DecMpls(b)
    [] t = 34958 -> DecEapol(b)
    [] t < 1536 /\ allowLlc -> DecLlc(b)
    [] OTHER -> RawL(b)

DecEth(b) ==
  IF Len(b) < 14 THEN RawL(b)
  ELSE LET L == Lay("eth", b) IN <<L>> \o DecEthNext(L.type, Drop(b, 14), TRUE)

DecVlan(b) ==
  IF Len(b) < 4 THEN RawL(b)
  ELSE LET L == Lay("vlan", b) IN <<L>> \o DecEthNext(L.type, Drop(b, 4), TRUE)

DecLlc(b) ==
  IF Len(b) < 3 THEN RawL(b)
  ELSE LET two == LlcTwoByteCtl(b[3])
           n   == IF two THEN 4 ELSE 3
       IN IF Len(b) < n THEN RawL(b)
          ELSE LET snap == LlcIsSnap(b[1], b[2]) IN
               IF snap /\ Len(b) < n + 5 THEN RawL(b)
               ELSE LET L == [p |-> "llc", dsap |-> b[1], ssap |-> b[2], ctl |-> SubSeq(b, 3, n),
                              snap |-> IF snap THEN 1 ELSE 0,
                              oui |-> IF snap THEN SubSeq(b, n + 1, n + 3) ELSE <<>>,
                              type |-> IF snap THEN N16(b, n + 4) ELSE 0]
                        rest == Drop(b, IF snap THEN n + 5 ELSE n)
                    IN <<L>> \o (IF snap /\ L.oui = <<0, 0, 0>> THEN DecEthNext(L.type, rest, FALSE)
                                 ELSE RawL(rest))

DecMpls(b) ==
  IF Len(b) < 4 THEN RawL(b)
  ELSE LET L == Lay("mpls", b)
       IN <<L>> \o (IF L.s = 0 /\ Len(b) >= 8 THEN DecMpls(Drop(b, 4)) ELSE RawL(Drop(b, 4)))

DecVxlan(b) ==
  IF Len(b) < 8 THEN RawL(b) ELSE <<Lay("vxlan", b)>> \o DecEth(Drop(b, 8))

\* IGMPv3 membership report (RFC 3376 4.2): group records
RECURSIVE DecRecs(_, _, _)
DecRecs(b, i, k) ==          \* k records from index i: [ok, rs, at]
  IF k = 0 THEN [ok |-> TRUE, rs |-> <<>>, at |-> i]
  ELSE IF i + 7 > Len(b) THEN [ok |-> FALSE, rs |-> <<>>, at |-> i]
  ELSE LET ns == N16(b, i + 2)
           n  == 8 + 4 * ns + 4 * b[i + 1]
       IN IF i + n - 1 > Len(b) THEN [ok |-> FALSE, rs |-> <<>>, at |-> i]
          ELSE LET rec == [t |-> b[i], group |-> SubSeq(b, i + 4, i + 7),
                           srcs |-> [j \in 1..ns |-> SubSeq(b, i + 4 + 4 * j, i + 7 + 4 * j)],
                           aux |-> SubSeq(b, i + 8 + 4 * ns, i + n - 1)]
                   r == DecRecs(b, i + n, k - 1)
               IN [ok |-> r.ok, rs |-> <<rec>> \o r.rs, at |-> r.at]
DecIgmp(b) ==
  IF Len(b) < 8 THEN RawL(b)
  ELSE IF b[1] \in {17, 18, 22, 23} THEN <<Lay("igmp", b)>> \o RawL(Drop(b, 8))
  ELSE IF b[1] = 34
       THEN LET r == DecRecs(b, 9, N16(b, 7))
            IN IF r.ok THEN <<[p |-> "igmp3", csum |-> N16(b, 3), recs |-> r.rs]>> \o RawL(Drop(b, r.at - 1))
               ELSE RawL(b)
  ELSE RawL(b)

\* DHCP options up to the end option; pad options are kept (k = 0, no length octet)
RECURSIVE DecDhcpOpts(_, _)
DecDhcpOpts(b, i) ==
  IF i > Len(b) THEN [ok |-> FALSE, os |-> <<>>]
  ELSE IF b[i] = 255 THEN [ok |-> TRUE, os |-> <<>>]
  ELSE IF b[i] = 0 THEN LET r == DecDhcpOpts(b, i + 1) IN [ok |-> r.ok, os |-> <<[k |-> 0, d |-> <<>>]>> \o r.os]
  ELSE IF i + 1 > Len(b) \/ i + 1 + b[i + 1] > Len(b) THEN [ok |-> FALSE, os |-> <<>>]
  ELSE LET r == DecDhcpOpts(b, i + 2 + b[i + 1])
       IN [ok |-> r.ok, os |-> <<[k |-> b[i], d |-> SubSeq(b, i + 2, i + 1 + b[i + 1])]>> \o r.os]
DecDhcp(b) ==
  IF Len(b) < 240 THEN RawL(b)
  ELSE LET r == DecDhcpOpts(b, 241)
       IN IF r.ok /\ SubSeq(b, 237, 240) = <<99, 130, 83, 99>>
          THEN <<[p |-> "dhcp", opts |-> r.os] @@ DecFixed(LDhcp, b)>> ELSE RawL(b)

DecRip(b) ==
  IF Len(b) < 24 \/ (Len(b) - 4) % 20 # 0 \/ N16(b, 3) # 0 THEN RawL(b)
  ELSE <<[p |-> "rip", entries |-> [i \in 1..((Len(b) - 4) \div 20) |->
                                      DecFixed(LRipE, SubSeq(b, 20 * i - 15, 20 * i + 4))]]
         @@ DecFixed(LRip, b)>>

\* [ok, L (the message), next (index after the last record), back, tight]
DecDnsR(b) ==
  IF Len(b) < 12 THEN [ok |-> FALSE]
  ELSE LET h == DecFixed(LDns, b)
           q == ReadQs(b, 13, h.qd)
           a == ReadRRs(b, q.next, h.an)
           n == ReadRRs(b, a.next, h.ns)
           x == ReadRRs(b, n.next, h.ar)
       IN IF q.ok /\ a.ok /\ n.ok /\ x.ok
          THEN [ok |-> TRUE, next |-> x.next, back |-> q.back /\ a.back /\ n.back /\ x.back,
                tight |-> a.tight /\ n.tight /\ x.tight,
                L |-> [p |-> "dns", qs |-> q.xs, ans |-> a.xs, auth |-> n.xs, add |-> x.xs,
                       cmp |-> IF q.ptr \/ a.ptr \/ n.ptr \/ x.ptr THEN 1 ELSE 0] @@ h]
          ELSE [ok |-> FALSE]
DecDns(b) == LET r == DecDnsR(b) IN IF r.ok THEN <<r.L>> ELSE RawL(b)

DecUdp(b) ==
  IF Len(b) < 8 THEN RawL(b)
  ELSE LET L == Lay("udp", b)
           rest == Drop(b, 8)
       IN IF L.len < 8 THEN <<L>>
          ELSE <<L>> \o (CASE L.dstport \in {67, 68} -> DecDhcp(rest)
                           [] L.dstport \in {53, 5353} \/ L.srcport \in {53, 5353} -> DecDns(rest)
                           [] L.dstport = 520 \/ L.srcport = 520 -> DecRip(rest)
                           [] L.dstport = 4789 \/ L.srcport = 4789 -> DecVxlan(rest)
                           [] OTHER -> RawL(rest))

DecIcmp(b) ==
  IF Len(b) < 4 THEN RawL(b)
  ELSE LET L == Lay("icmp", b)
           rest == Drop(b, 4)
       IN <<L>> \o
          (CASE L.type \in {0, 8} ->
                  IF Len(rest) < 4 THEN RawL(rest) ELSE <<Lay("echo", rest)>> \o RawL(Drop(rest, 4))
             [] L.type \in {3, 11} ->
                  IF Len(rest) < 4 THEN RawL(rest)
                  ELSE <<Lay(IF L.type = 3 THEN "unreach" ELSE "timex", rest)>>
                       \o (IF Len(rest) >= 28 THEN DecIp4(Drop(rest, 4)) ELSE RawL(Drop(rest, 4)))
             [] OTHER -> RawL(rest))

DecGre(b) ==
  IF Len(b) < 4 THEN RawL(b)
  ELSE LET c == b[1] \div 128
           k == (b[1] \div 32) % 2
           sq == (b[1] \div 16) % 2
           n == 4 + 4 * c + 4 * k + 4 * sq
       IN IF Len(b) < n \/ (b[1] \div 64) % 2 = 1 THEN RawL(b)
          ELSE LET L == [p |-> "gre", c |-> c, k |-> k, sq |-> sq, recur |-> b[1] % 8, ver |-> b[2] % 8,
                         type |-> N16(b, 3),
                         csum |-> IF c = 1 THEN N16(b, 5) ELSE 0, offset |-> IF c = 1 THEN N16(b, 7) ELSE 0,
                         key |-> IF k = 1 THEN SubSeq(b, 5 + 4 * c, 8 + 4 * c) ELSE <<>>,
                         seq |-> IF sq = 1 THEN SubSeq(b, 5 + 4 * c + 4 * k, 8 + 4 * c + 4 * k) ELSE <<>>]
                   rest == Drop(b, n)
               IN <<L>> \o (CASE L.type = 2048 -> DecIp4(rest) [] L.type = 25944 -> DecEth(rest)
                              [] OTHER -> RawL(rest))

DecIp4(b) ==
  IF Len(b) < 20 THEN RawL(b)
  ELSE LET h == DecFixed(LIp4, b)
       IN IF h.v # 4 \/ h.hl < 5 \/ h.iplen < 20 \/ 4 * h.hl > h.iplen \/ 4 * h.hl > Len(b) THEN RawL(b)
          ELSE LET L == [p |-> "ipv4", opts |-> SubSeq(b, 21, 4 * h.hl)] @@ h
                   body == SubSeq(b, 4 * h.hl + 1, Min(h.iplen, Len(b)))
               \* fragments are not reassembled: their payload stays opaque.  (Whether the
               \* FIRST fragment - MF set, offset 0 - has its transport header parsed is
               \* left open: the corpus builds such datagrams only with an opaque payload.)
               IN <<L>> \o (CASE h.frag # 0 -> RawL(body)
                              [] h.protocol = 17 -> DecUdp(body)
                              [] h.protocol = 6 -> DecTcp(body)
                              [] h.protocol = 1 -> DecIcmp(body)
                              [] h.protocol = 2 -> DecIgmp(body)
                              [] h.protocol = 47 -> DecGre(body)
                              [] OTHER -> RawL(body))

DecNdOpts(b) ==      \* [ok, os]; every option is t, len/8, body
  LET R[i \in 1..(Len(b) + 1)] ==
        IF i > Len(b) THEN [ok |-> TRUE, os |-> <<>>]
        ELSE IF i + 1 > Len(b) \/ b[i + 1] = 0 \/ i + 8 * b[i + 1] - 1 > Len(b) THEN [ok |-> FALSE, os |-> <<>>]
        ELSE LET r == R[i + 8 * b[i + 1]]
             IN [ok |-> r.ok, os |-> <<[t |-> b[i], d |-> SubSeq(b, i + 2, i + 8 * b[i + 1] - 1)]>> \o r.os]
  IN R[1]
DecNd(p, b) ==
  LET w == Width(Layouts[p])
  IN IF Len(b) < w THEN RawL(b)
     ELSE LET r == DecNdOpts(Drop(b, w))
          IN IF r.ok THEN <<[p |-> p, opts |-> r.os] @@ DecFixed(Layouts[p], b)>> ELSE RawL(b)

DecIcmp6(b) ==
  IF Len(b) < 4 THEN RawL(b)
  ELSE LET L == Lay("icmp6", b)
           rest == Drop(b, 4)
       IN <<L>> \o
          (CASE L.type \in {128, 129} ->
                  IF Len(rest) < 4 THEN RawL(rest) ELSE <<Lay("echo6", rest)>> \o RawL(Drop(rest, 4))
             [] L.type \in {1, 3} ->
                  IF Len(rest) < 4 THEN RawL(rest)
                  ELSE <<Lay(IF L.type = 1 THEN "unreach6" ELSE "timex6", rest)>>
                       \o (IF L.type = 1 /\ Len(rest) >= 48 THEN DecIp6(Drop(rest, 4)) ELSE RawL(Drop(rest, 4)))
             [] L.type = 2 ->
                  IF Len(rest) < 4 THEN RawL(rest) ELSE <<Lay("toobig", rest)>> \o RawL(Drop(rest, 4))
             [] L.type = 133 -> DecNd("rs", rest)
             [] L.type = 134 -> DecNd("ra", rest)
             [] L.type = 135 -> DecNd("ns", rest)
             [] L.type = 136 -> DecNd("na", rest)
             [] OTHER -> RawL(rest))

DecIp6(b) ==
  IF Len(b) < 40 THEN RawL(b)
  ELSE LET h == DecFixed(LIp6, b)
       IN IF h.v # 6 THEN RawL(b)
          ELSE LET all == SubSeq(b, 1, Min(Len(b), 40 + h.plen))
                   r == DecExts(all, 41, h.nh)
               IN IF ~r.ok THEN RawL(b)
                  ELSE LET L == [p |-> "ipv6", ext |-> r.es] @@ h
                           body == SubSeq(all, r.at, Len(all))
                       IN <<L>> \o (CASE r.nh = 17 -> DecUdp(body)
                                      [] r.nh = 6 -> DecTcp(body)
                                      [] r.nh = 58 -> DecIcmp6(body)
                                      [] r.nh = 59 -> <<>>
                                      [] OTHER -> RawL(body))

ParseStack(b) == DecEth(b)

---------------------------------------------------------------------------
(* Views: what "equal header fields and payload" compares                   *)

\* opaque payloads as literal bytes
Expand(s) == [i \in 1..Len(s) |-> IF s[i].p = "raw" THEN [p |-> "rawb", data |-> RawBytes(s[i])] ELSE s[i]]
\* TCP option lists are compared up to the end-of-list option, Multipath TCP options field by field (OptView)
\* DHCP pad options carry no information (RFC 2132 3.1)
NormLayer(L) == IF L.p = "tcp" THEN [L EXCEPT !.opts = OptsView(StripEol(L.opts))]
                ELSE IF L.p = "dhcp" THEN [L EXCEPT !.opts = StripPads(L.opts)]
                ELSE IF L.p = "dns" THEN [L EXCEPT !.cmp = 0] ELSE L       \* whether names were compressed is not a field
\* ---- messages whose serialisation is free-form.  When different names of a DNS
\* message share a suffix the sender may compress any part of any of them against
\* any earlier occurrence: the styles of DnsBytes are examples, not the set of
\* legal serialisations.  For such a stack the oracle does not predict the bytes
\* a sender produces; it judges them (Encodes).  (Without a shared suffix the only
\* choice is whether a repeated name becomes a pointer: styles 0 and 1.)
FreeForm(s) == Len(s) > 0 /\ s[Len(s)].p = "dns" /\ SharesSuffix(s[Len(s)])
StylesOf(s) == IF Len(s) = 0 \/ s[Len(s)].p # "dns" THEN {0} ELSE IF FreeForm(s) THEN DnsStyles ELSE {0, 1}
\* serialisations that differ only in what carries no information: where DHCP
\* pad options are placed, how DNS names are compressed
WithStyle(s, c) == [i \in 1..Len(s) |-> IF s[i].p = "dns" THEN [s[i] EXCEPT !.cmp = c] ELSE s[i]]
PadVariants(s) == {[i \in 1..Len(s) |-> IF s[i].p = "dhcp" THEN [s[i] EXCEPT !.opts = EvenPadded(StripPads(s[i].opts))] ELSE s[i]]}
                  \cup {WithStyle(s, c) : c \in StylesOf(s)}
\* b is a serialisation of the DNS message L: it decodes - following its pointers,
\* each of which points backwards - to exactly L and nothing is left over
DnsValid(b, L) ==
  LET r == DecDnsR(b)
  IN /\ r.ok /\ r.back /\ r.tight /\ r.next = Len(b) + 1
     /\ NormLayer(r.L) = NormLayer(Fill(L, <<>>, NoLayer))
\* w is a serialisation of the free-form stack s: its last Len(w) - (headers) bytes
\* are a serialisation of the DNS message, and every enclosing header is the one
\* the oracle computes around those bytes (lengths, checksums)
Outer(s) == SubSeq(s, 1, Len(s) - 1)
Around(s, body) == Outer(s) \o <<[p |-> "rawb", data |-> body]>>
Encodes(w, s) ==
  LET n == Len(EncStack(Outer(s)))           \* the size of the enclosing headers does not depend on what they enclose
  IN /\ Len(w) >= n
     /\ LET body == Drop(w, n)
        IN w = EncStack(Around(s, body)) /\ DnsValid(body, s[Len(s)])
\* the completed stack that goes with such a serialisation
FillAs(s, w) == LET v == FillStack(Around(s, Drop(w, Len(EncStack(Outer(s))))))
                IN [v EXCEPT ![Len(s)] = Fill(s[Len(s)], <<>>, NoLayer)]
Norm(s) == [i \in 1..Len(s) |-> NormLayer(s[i])]
PayLen(s) == IF Len(s) = 0 THEN 0
             ELSE LET L == s[Len(s)] IN IF L.p = "raw" THEN L.n ELSE IF L.p = "rawb" THEN Len(L.data) ELSE 0
\* a serialised packet as the harness observes it: the header bytes and how
\* many payload bytes follow (the harness checks those against the payload it
\* supplied)
Split(w, n) == [hdr |-> Take(w, Len(w) - n), pay |-> n]

---------------------------------------------------------------------------
(* Properties of the oracle itself (checked by TLC on every packet)         *)

\* first byte of every layer of a completed stack
RECURSIVE StartsFrom(_, _, _)
StartsFrom(v, i, at) == IF i > Len(v) THEN <<>> ELSE <<at>> \o StartsFrom(v, i + 1, at + Len(Hdr(v[i])))
Starts(v) == StartsFrom(v, 1, 1)

\* every checksum the oracle emits makes its block sum to zero (RFC 1071),
\* every length field is the real length.  v: completed stack, w: its bytes
WireOK(v, w) ==
  LET st == Starts(v)
      n  == Len(w)
  IN \A i \in 1..Len(v) :
       CASE v[i].p = "ipv4" ->
              /\ SumsToZero(SubSeq(w, st[i], st[i] + 4 * v[i].hl - 1))
              /\ N16(w, st[i] + 2) = n - st[i] + 1
              /\ 4 * v[i].hl = 20 + Len(v[i].opts)
         [] v[i].p = "udp" ->
              /\ N16(w, st[i] + 4) = n - st[i] + 1
              /\ v[i - 1].p \in {"ipv4", "ipv6"} =>
                   /\ SumsToZero(Pseudo(v[i - 1], 17, n - st[i] + 1) \o SubSeq(w, st[i], n))
                   /\ N16(w, st[i] + 6) # 0
         [] v[i].p = "tcp" ->
              /\ 4 * (w[st[i] + 12] \div 16) = 20 + Len(OptBytes(v[i].opts))
              /\ v[i - 1].p \in {"ipv4", "ipv6"} =>
                   SumsToZero(Pseudo(v[i - 1], 6, n - st[i] + 1) \o SubSeq(w, st[i], n))
         [] v[i].p \in {"icmp", "igmp", "igmp3"} -> SumsToZero(SubSeq(w, st[i], n))
         [] v[i].p = "icmp6" -> SumsToZero(Pseudo(v[i - 1], 58, n - st[i] + 1) \o SubSeq(w, st[i], n))
         [] v[i].p = "ipv6" -> N16(w, st[i] + 4) = n - st[i] + 1 - 40
         [] v[i].p = "gre" -> v[i].c = 1 => SumsToZero(SubSeq(w, st[i], n))
         [] v[i].p = "eapol" -> N16(w, st[i] + 2) = n - st[i] + 1 - 4
         [] v[i].p = "eap" -> N16(w, st[i] + 2) = n - st[i] + 1
         [] v[i].p = "eth" -> v[i].type < 1536 => v[i].type = n - 14
         [] OTHER -> TRUE

\* field values fit their widths
StackOK(s) == \A i \in 1..Len(s) : HasLayout(s[i].p) => FixedOK(Layouts[s[i].p], s[i])

=============================================================================
