---------------------------- MODULE PktWireTrace ----------------------------
(* Code -> spec: traces recorded from the real packet library (random field  *)
(* values, random payloads) must be behaviours of PktWire.tla.  One trace =  *)
(* one packet: Build, Pack, Parse, Repack  or  Feed, Parse, Repack.  The     *)
(* bytes / header chains the library produced are accepted only if they are  *)
(* the ones the oracle computes; every invariant of the oracle is evaluated  *)
(* on the recorded packets as well.                                          *)
EXTENDS PktWireMC, IOUtils, TLCExt, SequencesExt

Traces == JsonDeserialize(IOEnv.TRACE_FILE)
NT == Len(Traces)
VARIABLES tid, l
tvars == <<vars, tid, l>>

TrInit == Init /\ tid \in 1..NT /\ l = 1 /\ TLCSet(tid, 0)
Ev == Traces[tid][l]
IsEvent(e) == l <= Len(Traces[tid]) /\ Ev.a = e /\ l' = l + 1 /\ UNCHANGED tid

TrBuild  == IsEvent("Build") /\ BuildS(Ev.args.pkt) /\ Ev.wf
\* the frame handed to the parser was built by the harness' mirror of the
\* oracle: it must be exactly the oracle's serialisation
TrFeed   == IsEvent("Feed") /\ FeedS(Ev.args.pkt) /\ Ev.wf
            /\ Ev.args.wire.hdr = last'.args.wire.hdr /\ Ev.args.wire.pay = last'.args.wire.pay
\* (free-form stacks: the recorded bytes themselves are judged - PackAs / RepackAs)
TrPack   == IsEvent("Pack") /\ Ev.wf
            /\ IF FreeForm(pkt) THEN Ev.obs.pay = 0 /\ PackAs(Ev.obs.hdr)
               ELSE Pack /\ Ev.obs.hdr = last'.exp.hdr /\ Ev.obs.pay = last'.exp.pay
TrParse  == IsEvent("Parse") /\ Parse /\ Ev.wf /\ Ev.obs.view = last'.exp.view
TrRepack == IsEvent("Repack") /\ Ev.wf
            /\ IF FreeForm(dec) THEN Ev.obs.pay = 0 /\ RepackAs(Ev.obs.hdr)
               ELSE Repack /\ Ev.obs.hdr = last'.exp.hdr /\ Ev.obs.pay = last'.exp.pay

TrNext == TrBuild \/ TrFeed \/ TrPack \/ TrParse \/ TrRepack
TrSpec == TrInit /\ [][TrNext]_tvars

TraceCase == {Desc("trace", "P", 0, 0, 0, 0, "P")}

Progress == TLCSet(tid, IF TLCGet(tid) < l - 1 THEN l - 1 ELSE TLCGet(tid))
Ok(t) == TLCGet(t) = Len(Traces[t]) \/ (PrintT(<<"REJECT", t, TLCGet(t)>>) /\ FALSE)
Accepted == /\ PrintT(<<"TRACES-CHECKED", NT>>)
            /\ Cardinality({t \in 1..NT : ~Ok(t)}) = 0
=============================================================================
