CONSTANTS Descs <- MCTiny
INIT Init
NEXT Next
INVARIANT Export
CHECK_DEADLOCK FALSE
