CONSTANTS Descs <- MCTiny
INIT Init
NEXT Next
VIEW view
INVARIANT TypeOK
INVARIANT LengthsAndChecksumsOK
INVARIANT ChecksumDefsAgree
INVARIANT ParseRecovers
INVARIANT ReserialiseSame
INVARIANT ObservationsOK
CHECK_DEADLOCK FALSE
