--------------------------- MODULE PktGrammarTrace ---------------------------
(* Code -> spec for KNOWN frames, used for the depth dimension of the corpus: *)
(* frames of up to 64 kB with thousands of nested headers.  Replaying every   *)
(* permitted verdict sequence of such a frame is out of the question (from    *)
(* layer NestFloor+1 on every layer may be refused), so the real code is run  *)
(* on the frame and TLC decides whether what it did is a behaviour of         *)
(* PktGrammar: all invariants are evaluated at every matched step.            *)
(* Event schema (uniform types):                                              *)
(*   [a, st, unit, n, post, plen, pad, cut, total, ks, len, starts, any, ok]  *)
(*   Offer:  the frame description and cut; total = length of the bytes the   *)
(*           harness built (must equal the spec's Total); ok = parser returned*)
(*   Layers: ks = kinds of ALL layers reported parsed, top down (one event:   *)
(*           the |ks|-fold composition of Accept)                             *)
(*   Rest:   len/starts/any as in PktGrammarAnyTrace (composed with Refuse    *)
(*           when the parser stopped above the bottom of the stack)           *)
(*   Print / Dump / Repack: ok                                                *)
EXTENDS PktGrammar, IOUtils, TLCExt, SequencesExt

Traces == JsonDeserialize(IOEnv.TRACE_FILE)
NT == Len(Traces)
VARIABLES tid, l
tvars == <<vars, tid, l>>

First(t) == Traces[t][1]
TrInit == /\ tid \in 1..NT /\ l = 1 /\ TLCSet(tid, 0)
          /\ fr = DeepFrame(First(tid).st, First(tid).unit, First(tid).n, First(tid).post,
                            First(tid).plen, First(tid).pad)
          /\ cut = First(tid).cut
          /\ pc = "offer" /\ flags = <<>> /\ rest = NoRest /\ last = NoObs /\ hist = <<>>
Ev == Traces[tid][l]
IsEvent(e) == l <= Len(Traces[tid]) /\ Ev.a = e /\ l' = l + 1 /\ UNCHANGED tid

TrOffer == IsEvent("Offer") /\ Ev.ok /\ Ev.total = Total(fr) /\ cut <= Total(fr) /\ Offer

\* (a state predicate; written "= TRUE" below so that TLC evaluates it as an expression: as a
\* conjunct of the action it would recurse once per layer and overflow the Java stack)
LayersFit(ks) == \A j \in 1..Len(ks) : /\ ~MustNot(fr, cut, Len(flags) + j)
                                       /\ LayerAt(fr, Len(flags) + j).k = ks[j]
\* Accept . Accept . ... . Accept  (m times)
TrLayers ==
  /\ IsEvent("Layers")
  /\ LET m == Len(Ev.ks) IN
     /\ pc = "parse" /\ m >= 1 /\ Len(flags) + m <= NL(fr)
     /\ LayersFit(Ev.ks) = TRUE
     /\ flags' = flags \o [j \in 1..m |-> TRUE]
     /\ pc' = IF Len(flags) + m = NL(fr) THEN "rest" ELSE "parse"
     /\ UNCHANGED <<fr, cut, rest>>
     /\ Log("Layers", [m |-> m], [parsed |-> TRUE])

\* the observed remainder is frame[s : s+len] for one of the offsets s in `starts`
Fits(fl, s, ln) == \E n \in RestLensF(fl) :
                     /\ RestLoF(fl) <= s /\ s <= RestStartF(fl)
                     /\ s + ln = RestStartF(fl) + n
ObservedFits(fl) ==
  /\ Ev.len >= 0
  /\ IF Ev.any THEN Fits(fl, RestStartF(fl), 0) ELSE \E s \in ToSet(Ev.starts) : Fits(fl, s, Ev.len)
\* Rest, or Refuse . Rest when the parser stopped above the bottom of the stack
TrRest ==
  /\ IsEvent("Rest")
  /\ \/ /\ pc = "rest" /\ ObservedFits(flags) /\ Rest
     \/ /\ pc = "parse" /\ Cur <= NL(fr) /\ ~Must(fr, cut, Cur)
        /\ LET fl == Append(flags, FALSE) IN
           /\ ObservedFits(fl)
           /\ flags' = fl
           /\ \E n \in RestLensF(fl) :
                /\ rest' = [start |-> RestStartF(fl), len |-> n]
                /\ Log("Rest", [x |-> 0], [start |-> RestStartF(fl), len |-> n, lo |-> RestLoF(fl)])
        /\ pc' = "print" /\ UNCHANGED <<fr, cut>>
TrPrint  == IsEvent("Print") /\ Ev.ok /\ PrintIt
TrDump   == IsEvent("Dump") /\ Ev.ok /\ Dump
TrRepack == IsEvent("Repack") /\ Ev.ok /\ Repack

TrNext == TrOffer \/ TrLayers \/ TrRest \/ TrPrint \/ TrDump \/ TrRepack
TrSpec == TrInit /\ [][TrNext]_tvars

Progress == TLCSet(tid, IF TLCGet(tid) < l - 1 THEN l - 1 ELSE TLCGet(tid))
Ok(t) == TLCGet(t) = Len(Traces[t]) \/ (PrintT(<<"REJECT", t, TLCGet(t)>>) /\ FALSE)
Accepted == /\ PrintT(<<"TRACES-CHECKED", NT>>)
            /\ Cardinality({t \in 1..NT : ~Ok(t)}) = 0
=============================================================================
