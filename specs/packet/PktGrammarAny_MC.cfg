CONSTANTS MutPay = {5}
  MutVals = {"zero"}
  MaxMuts = 1
  MutCuts = "none"
  Lens = {0, 13, 14, 18, 22, 26}
SPECIFICATION SpecAny
INVARIANT TypeOKAny
INVARIANT SoundAny
INVARIANT RestInside
PROPERTY Terminates
CHECK_DEADLOCK FALSE
