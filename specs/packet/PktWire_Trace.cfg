CONSTANTS Descs <- TraceCase
INIT TrInit
NEXT TrNext
CONSTRAINT Progress
POSTCONDITION Accepted
INVARIANT TypeOK
INVARIANT LengthsAndChecksumsOK
INVARIANT ParseRecovers
INVARIANT StructuredOptionsOK
INVARIANT ReserialiseSame
CHECK_DEADLOCK FALSE
