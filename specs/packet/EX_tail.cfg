CONSTANTS Descs <- MCTail
INIT Init
NEXT Next
INVARIANT Export
CHECK_DEADLOCK FALSE
