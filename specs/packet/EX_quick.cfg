CONSTANTS Descs <- MCQuick
INIT Init
NEXT Next
INVARIANT Export
CHECK_DEADLOCK FALSE
