--------------------------- MODULE PktWireBytes ---------------------------
(* Byte-level helpers shared by the packet wire oracle (C14; also used by   *)
(* C12 for emitted frame bytes).  A byte string is a sequence of 0..255.    *)
(* No integer above 2^31 is ever formed: fields wider than 24 bits are byte *)
(* strings in the model.                                                    *)
EXTENDS Naturals, Sequences

U8(x)  == <<x>>
U16(x) == <<x \div 256, x % 256>>
U24(x) == <<x \div 65536, (x \div 256) % 256, x % 256>>
N16(b, i) == b[i] * 256 + b[i + 1]          \* 16-bit big-endian number at index i

Rep(n, x) == [i \in 1..n |-> x]
Zeros(n)  == Rep(n, 0)
\* opaque payload of n bytes: a, a+b, a+2b, ... (mod 256)
Pattern(n, a, b) == [i \in 1..n |-> (a + b * (i - 1)) % 256]
IsBytes(s) == \A i \in 1..Len(s) : s[i] \in 0..255
Drop(s, n) == SubSeq(s, n + 1, Len(s))
Take(s, n) == SubSeq(s, 1, n)
Min(a, b) == IF a < b THEN a ELSE b

RECURSIVE Flatten(_, _)
Flatten(ss, i) == IF i > Len(ss) THEN <<>> ELSE ss[i] \o Flatten(ss, i + 1)
Concat(ss) == Flatten(ss, 1)

---------------------------------------------------------------------------
(* RFC 1071: the Internet checksum is the 16-bit one's complement of the    *)
(* one's complement sum of the data taken as big-endian 16-bit words, a     *)
(* trailing odd byte being padded on the right with a zero byte.            *)
Word(b, k) == b[2 * k - 1] * 256 + (IF 2 * k <= Len(b) THEN b[2 * k] ELSE 0)
\* divide and conquer: recursion depth is logarithmic in the length
RECURSIVE SumW(_, _, _)
SumW(b, lo, hi) ==
  IF lo > hi THEN 0
  ELSE IF lo = hi THEN Word(b, lo)
  ELSE LET m == (lo + hi) \div 2 IN SumW(b, lo, m) + SumW(b, m + 1, hi)
\* end-around carry (twice is enough below 2^31)
Fold16(x) == LET y == (x % 65536) + (x \div 65536) IN (y % 65536) + (y \div 65536)
OcSum(b) == Fold16(SumW(b, 1, (Len(b) + 1) \div 2))
Csum(b)  == 65535 - OcSum(b)

\* second, byte-wise definition used only to cross-check the first one in TLC
RECURSIVE SumB(_, _, _)
SumB(b, lo, hi) ==     \* bytes lo..hi, byte i weighs 256 when i is odd
  IF lo > hi THEN 0
  ELSE IF lo = hi THEN (IF lo % 2 = 1 THEN 256 * b[lo] ELSE b[lo])
  ELSE LET m == (lo + hi) \div 2 IN SumB(b, lo, m) + SumB(b, m + 1, hi)
CsumB(b) == 65535 - Fold16(SumB(b, 1, Len(b)))

\* a block that carries its own correct checksum sums to "minus zero"
SumsToZero(b) == OcSum(b) = 65535

---------------------------------------------------------------------------
(* Bit packing: a header is a sequence of fields <<value, width in bits>>,  *)
(* most significant bit first (network order); widths <= 24 bits.           *)
Emit(a, t) == [k \in 1..(t \div 8) |-> (a \div (2 ^ (t - 8 * k))) % 256]
RECURSIVE PB(_, _, _, _)
PB(fs, i, acc, nb) ==          \* acc: the nb < 8 bits not yet emitted
  IF i > Len(fs) THEN <<>>
  ELSE LET w == fs[i][2]
           t == nb + w
           a == acc * (2 ^ w) + fs[i][1]
       IN Emit(a, t) \o PB(fs, i + 1, a % (2 ^ (t % 8)), t % 8)
PackBits(fs) == PB(fs, 1, 0, 0)

\* the w-bit field starting at bit `pos` (0 = most significant bit of b[1])
BitsAt(b, pos, w) ==
  LET first == pos \div 8
      last  == (pos + w - 1) \div 8
      n     == last - first + 1                       \* 1..3 bytes
      val   == IF n = 1 THEN b[first + 1]
               ELSE IF n = 2 THEN b[first + 1] * 256 + b[first + 2]
               ELSE b[first + 1] * 65536 + b[first + 2] * 256 + b[first + 3]
      shift == 8 * (last + 1) - (pos + w)
  IN (val \div (2 ^ shift)) % (2 ^ w)
=============================================================================
