CONSTANTS MutPay = {0, 5, 6}
  MutVals = {"zero", "one", "hi", "max", "inc", "dec"}
  MaxMuts = 3
  MutCuts = "any"
  Lens = {0}
INIT InitBuild
NEXT NextBuild
INVARIANT MutInside
INVARIANT ExportSc
CHECK_DEADLOCK FALSE
