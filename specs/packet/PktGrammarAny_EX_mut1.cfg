CONSTANTS MutPay = {0, 5}
  MutVals = {"zero", "one", "hi", "max", "inc", "dec"}
  MaxMuts = 1
  MutCuts = "none"
  Lens = {0}
INIT InitBuild
NEXT NextBuild
INVARIANT MutInside
INVARIANT ExportSc
CHECK_DEADLOCK FALSE
