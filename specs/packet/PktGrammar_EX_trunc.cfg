CONSTANTS PayFull = {0, 5, 6}
  PayEdge = {5}
  Pads = {0, 7}
  CutMode = "all"
  DeepSizes = {160}
INIT Init
NEXT Next
INVARIANT TypeOK
INVARIANT Decidable
INVARIANT Sound
INVARIANT PrefixClosed
INVARIANT NoLoss
INVARIANT WholeFrameParses
INVARIANT Export
CHECK_DEADLOCK FALSE
