CONSTANTS MutPay = {5}
  MutVals = {"zero"}
  MaxMuts = 1
  MutCuts = "none"
  Lens = {0}
INIT TrInit
NEXT TrNext
CONSTRAINT Progress
POSTCONDITION Accepted
INVARIANT TypeOKAny
INVARIANT SoundAny
INVARIANT RestInside
CHECK_DEADLOCK FALSE
