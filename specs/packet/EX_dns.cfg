CONSTANTS Descs <- MCDns
INIT Init
NEXT Next
INVARIANT Export
CHECK_DEADLOCK FALSE
