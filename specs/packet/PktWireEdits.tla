---------------------------- MODULE PktWireEdits ----------------------------
(* C14: edits of a packet object that has already been serialised once.     *)
(* The library caches or tracks several variable-length parts (DHCP options *)
(* behind a "dirty" flag, derived lengths / offsets / checksums stored in   *)
(* the header objects); an edit made through the public attributes after a  *)
(* first pack() must show in the next pack() exactly as if the edited       *)
(* packet had been built afresh.                                            *)
(*                                                                          *)
(* An edit is [li, c, op, i, v]: layer index, container (or field) name,    *)
(* op "replace" (item i := v), "add" (insert v before position i),          *)
(* "delete" (item i), "setf" (fixed field c := v.x).  EditsOf(s) lists the  *)
(* edits offered on a stack (a sequence, so that items of different shapes  *)
(* are never compared); ApplyEdit(s, e) is the edited stack, whose bytes    *)
(* are EncStack of it - nothing else.                                       *)
EXTENDS PktWireCorpus

Ed(li, c, op, i, v) == [li |-> li, c |-> c, op |-> op, i |-> i, v |-> v]
Bump(d) == [j \in 1..Len(d) |-> (d[j] + 1) % 256]

\* the container an edit refers to (DHCP pad options are not items)
Cont(L, c) == IF L.p = "dhcp" /\ c = "opts" THEN StripPads(L.opts) ELSE L[c]
EditList(xs, e) ==
  CASE e.op = "replace" -> [xs EXCEPT ![e.i] = e.v]
    [] e.op = "add"     -> SubSeq(xs, 1, e.i - 1) \o <<e.v>> \o SubSeq(xs, e.i, Len(xs))
    [] e.op = "delete"  -> SubSeq(xs, 1, e.i - 1) \o SubSeq(xs, e.i + 1, Len(xs))
ApplyL(L, e) == IF e.op = "setf" THEN [L EXCEPT ![e.c] = e.v.x]
                ELSE [L EXCEPT ![e.c] = EditList(Cont(L, e.c), e)]
ApplyEdit(s, e) == [s EXCEPT ![e.li] = ApplyL(s[e.li], e)]

\* one plain header field per protocol, set to all ones (or all zero if it is all ones already)
SetField == [eth |-> "src", vlan |-> "vid", arp |-> "opcode", ipv4 |-> "ttl", udp |-> "srcport", tcp |-> "win",
             icmp |-> "code", echo |-> "seqno", mpls |-> "ttl", ipv6 |-> "hlim", icmp6 |-> "code", echo6 |-> "ident",
             igmp |-> "group", rip |-> "version", dhcp |-> "secs", dns |-> "ident", vxlan |-> "vni",
             eapol |-> "version", unreach |-> "mtu", toobig |-> "mtu4", ns |-> "target", ra |-> "lifetime"]
SetEdit(L, li) ==
  IF L.p \notin DOMAIN SetField \/ (L.p = "vxlan" /\ L.flags = 0) THEN <<>>
  ELSE LET f == SetField[L.p]
           lay == Layouts[L.p]
           e == lay[CHOOSE j \in 1..Len(lay) : lay[j].n = f]
           m == Val("M", e, 0)
       IN <<Ed(li, f, "setf", 0, [x |-> IF L[f] = m THEN Val("Z", e, 0) ELSE m])>>

\* replace the first and the last item by a variant of itself, delete one, add one
ListEdits(li, c, xs, new, addAt, delAt, repl) ==       \* addAt = 0: the container is full
  [k \in 1..Len(repl) |-> Ed(li, c, "replace", repl[k][1], repl[k][2])]
  \o (IF delAt > 0 THEN <<Ed(li, c, "delete", delAt, [x |-> 0])>> ELSE <<>>)
  \o (IF addAt > 0 THEN <<Ed(li, c, "add", addAt, new)>> ELSE <<>>)
\* (a Multipath TCP option keeps its subtype / flags octets: they decide its layout)
KD(x) == [k |-> x.k, d |-> IF x.k = 30 /\ Len(x.d) >= 2 THEN SubSeq(x.d, 1, 2) \o Bump(SubSeq(x.d, 3, Len(x.d))) ELSE Bump(x.d)]
TD(x) == [t |-> x.t, d |-> Bump(x.d)]
Ends(xs, Vary(_)) == IF Len(xs) = 0 THEN <<>>
                  ELSE IF Len(xs) = 1 THEN <<<<1, Vary(xs[1])>>>>
                  ELSE <<<<1, Vary(xs[1])>>, <<Len(xs), Vary(xs[Len(xs)])>>>>
ContEdits(L, li) ==
  CASE L.p = "tcp" ->
         ListEdits(li, "opts", L.opts, [k |-> 1, d |-> <<>>], IF Len(OptBytes(L.opts)) < 40 THEN 1 ELSE 0,
                   IF Len(L.opts) > 0 THEN 1 ELSE 0, Ends(L.opts, KD))
    [] L.p = "ipv4" ->
         IF Len(L.opts) = 0 THEN <<>> ELSE <<Ed(li, "opts", "setf", 0, [x |-> Bump(L.opts)])>>
    [] L.p = "lldp" ->                \* chassis id / ttl changed, an optional TLV removed, one inserted before END
         ListEdits(li, "tlvs", L.tlvs, [t |-> 5, d |-> <<120, 121>>], Len(L.tlvs),
                   IF Len(L.tlvs) > 4 THEN 4 ELSE 0, <<<<1, TD(L.tlvs[1])>>, <<3, TD(L.tlvs[3])>>>>)
    [] L.p = "ipv6" ->
         [k \in 1..Len(L.ext) |-> Ed(li, "ext", "replace", k, [t |-> L.ext[k].t, nh |-> L.ext[k].nh, d |-> Bump(L.ext[k].d)])]
    [] L.p = "dhcp" ->
         LET os == StripPads(L.opts)
         IN ListEdits(li, "opts", os, [k |-> 60, d |-> <<80, 88, 69>>], Len(os) + 1, Len(os), Ends(os, KD))
    [] L.p = "dns" ->
         (IF Len(L.qs) = 0 THEN <<>>
          ELSE <<Ed(li, "qs", "replace", 1, [L.qs[1] EXCEPT !.qtype = (L.qs[1].qtype % 250) + 1]),
                 Ed(li, "qs", "add", Len(L.qs) + 1, [L.qs[1] EXCEPT !.qclass = 3])>>)
         \o (IF Len(L.ans) = 0 THEN <<>>
             ELSE <<Ed(li, "ans", "replace", Len(L.ans), [L.ans[Len(L.ans)] EXCEPT !.ttl = Bump(L.ans[Len(L.ans)].ttl)]),
                    Ed(li, "ans", "delete", 1, [x |-> 0])>>)
    [] L.p = "igmp3" ->
         ListEdits(li, "recs", L.recs, [L.recs[1] EXCEPT !.t = 5, !.srcs = <<>>, !.aux = <<>>], Len(L.recs) + 1,
                   IF Len(L.recs) > 1 THEN 1 ELSE 0,
                   <<<<1, [L.recs[1] EXCEPT !.group = Bump(L.recs[1].group), !.t = (L.recs[1].t % 6) + 1]>>>>)
    [] L.p = "rip" ->
         ListEdits(li, "entries", L.entries, [L.entries[1] EXCEPT !.metric = <<0, 0, 0, 16>>],
                   IF Len(L.entries) < 25 THEN Len(L.entries) + 1 ELSE 0, IF Len(L.entries) > 1 THEN Len(L.entries) ELSE 0,
                   <<<<1, [L.entries[1] EXCEPT !.metric = Bump(L.entries[1].metric), !.tag = (L.entries[1].tag + 1) % 65536]>>>>)
    [] L.p \in {"ns", "na", "rs", "ra"} ->
         ListEdits(li, "opts", L.opts, [t |-> 1, d |-> <<2, 4, 6, 8, 10, 12>>], 1, IF Len(L.opts) > 0 THEN Len(L.opts) ELSE 0,
                   Ends(L.opts, TD))
    [] OTHER -> <<>>
EditsOf(s) == Concat([li \in 1..Len(s) |-> IF s[li].p \in {"raw", "rawb"} THEN <<>> ELSE ContEdits(s[li], li) \o SetEdit(s[li], li)])

\* where the library leaves a covering length / checksum to the caller, an edit is not offered:
\* gre.py documents that a checksum which is a number is "included as given", and hdr() turns
\* csum=True into that number at the first pack() (compute_csum is the documented way to have it
\* recomputed every time).  EAPOL / EAP lengths matter only for size-changing edits: none there.
Editable(s) == \A i \in 1..Len(s) : s[i].p = "gre" => s[i].c = 0
=============================================================================
