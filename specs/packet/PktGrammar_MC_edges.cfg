CONSTANTS PayFull = {5}
  PayEdge = {5}
  Pads = {0, 7}
  CutMode = "edges"
  DeepSizes = {160}
SPECIFICATION Spec
VIEW view
INVARIANT TypeOK
INVARIANT Decidable
INVARIANT Sound
INVARIANT PrefixClosed
INVARIANT NoLoss
INVARIANT WholeFrameParses
PROPERTY Terminates
CHECK_DEADLOCK FALSE
