CONSTANTS Descs <- MCSweep
INIT Init
NEXT Next
INVARIANT TypeOK
INVARIANT LengthsAndChecksumsOK
INVARIANT ChecksumDefsAgree
INVARIANT ParseRecovers
INVARIANT StructuredOptionsOK
INVARIANT ReserialiseSame
PROPERTY ObservationsOK
INVARIANT Export
CHECK_DEADLOCK FALSE
