CONSTANTS Descs <- MCExt
INIT Init
NEXT Next
INVARIANT Export
CHECK_DEADLOCK FALSE
