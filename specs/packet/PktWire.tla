------------------------------ MODULE PktWire ------------------------------
(* C14: packet headers survive build -> bytes -> parse, with valid lengths  *)
(* and checksums.                                                           *)
(*                                                                          *)
(* One object under test.  Two ways into the library:                       *)
(*   Build(d) ; Pack      the stack is assembled from the library's header  *)
(*                        classes and serialised by the library             *)
(*   Feed(d)              the oracle's own bytes are handed to the parser   *)
(* then Parse (bytes -> header chain) and Repack (the parse result is       *)
(* serialised again).  Every action logs what the caller must observe       *)
(* (`last`, appended to `hist` for export): the bytes, computed only by     *)
(* PktWireLayers (layout tables + RFC 1071), and the header fields.         *)
EXTENDS PktWireEdits, Json

CONSTANTS Descs      \* the cases explored (set of descriptors)

VARIABLES case,      \* the descriptor of the packet under test (chosen initially)
          phase,     \* "init", "built", "packed", "parsed", "edited", "done"
          pkt,       \* the abstract stack as the caller builds it
          fill,      \* the same with every derived field (lengths, checksums) filled in
          wire,      \* its serialisation
          dec,       \* the parse result
          src,       \* who produced `wire` first: "lib" (Build ; Pack) or "wire" (Feed)
          last, hist
vars == <<case, phase, pkt, fill, wire, dec, src, last, hist>>
\* `last`/`hist` are observations: properties about them are action properties
view == <<case, phase, pkt, fill, wire, dec, src>>

NoObs == [a |-> "Init", args |-> [x |-> 0], exp |-> [x |-> 0]]
Init == /\ case \in Descs /\ phase = "init" /\ pkt = <<>> /\ fill = <<>> /\ wire = <<>> /\ dec = <<>> /\ src = "none"
        /\ last = NoObs /\ hist = <<>>
Log(a, args, exp) ==
  /\ last' = [a |-> a, args |-> args, exp |-> exp]
  /\ hist' = Append(hist, [a |-> a, args |-> args, exp |-> exp])

BuildS(s) ==
  /\ phase = "init" /\ phase' = "built"
  /\ pkt' = s /\ UNCHANGED <<case, fill, wire, dec, src>>
  /\ Log("Build", [pkt |-> s, d |-> case], [ok |-> TRUE])
Build == BuildS(Stack(case))

Pack ==
  /\ phase = "built" /\ phase' = "packed" /\ ~FreeForm(pkt)
  /\ \E q \in PadVariants(pkt) : LET a == Asm(q, 1) IN wire' = a.b /\ fill' = a.v
  /\ src' = "lib" /\ UNCHANGED <<case, pkt, dec>>
  /\ Log("Pack", [x |-> 0], Split(wire', PayLen(pkt)))

\* A free-form stack (DNS names sharing a suffix, PktWireLayers) has no unique
\* serialisation.  What a sender emits for it is judged, not predicted: any bytes
\* w that Encode the stack are a legal observation.  Model checking runs the
\* oracle's own example styles through these actions (so the relation is checked
\* against the constructive definition); trace validation runs the bytes the
\* library produced through them.
PackAs(w) ==
  /\ phase = "built" /\ phase' = "packed" /\ FreeForm(pkt) /\ Encodes(w, pkt)
  /\ wire' = w /\ fill' = FillAs(pkt, w)
  /\ src' = "lib" /\ UNCHANGED <<case, pkt, dec>>
  /\ Log("Pack", [x |-> 0], Split(w, PayLen(pkt)))
PackAny == phase = "built" /\ FreeForm(pkt) /\ \E w \in {EncStack(q) : q \in PadVariants(pkt)} : PackAs(w)

\* the parser is fed the oracle's bytes; those of a free-form stack in every style
FeedS(s) ==
  /\ phase = "init" /\ phase' = "packed"
  /\ pkt' = s
  /\ LET a == Asm(s, 1) IN wire' = a.b /\ fill' = a.v
  /\ src' = "wire" /\ UNCHANGED <<case, dec>>
  /\ Log("Feed", [pkt |-> s, d |-> case, wire |-> Split(wire', PayLen(s)), free |-> IF FreeForm(s) THEN 1 ELSE 0],
         [ok |-> TRUE])
Feed == LET s == Stack(case) IN IF FreeForm(s) THEN \E c \in DnsStyles : FeedS(WithStyle(s, c)) ELSE FeedS(s)

\* the header chain a caller sees after parsing: derived fields filled in,
\* opaque payload kept as given
Parse ==
  /\ phase = "packed" /\ phase' = "parsed"
  /\ dec' = ParseStack(wire) /\ UNCHANGED <<case, pkt, fill, wire, src>>
  /\ Log("Parse", [x |-> 0], [view |-> Norm(fill)])

\* The parsed packet is modified before it is sent on (what a switch applying
\* actions does): its opaque payload is replaced by one that is a byte longer.
\* Every length and checksum that covers it must be recomputed by Repack.
\* Not offered where the library leaves a length or checksum field to the caller
\* (802.3 length, EAPOL/EAP lengths, and the checksum of a *parsed* GRE header,
\* which gre.py documents as "included as given" unless the caller sets it to True).
NewPay(L) == [p |-> "raw", n |-> L.n + 1, a |-> (L.a + 1) % 256, b |-> L.b]
CanEdit(s) == /\ Len(s) > 1 /\ s[Len(s)].p = "raw" /\ s[1].p = "eth" /\ s[1].type >= 1536
              /\ \A i \in 1..Len(s) : s[i].p \notin {"eapol", "eap"} /\ (s[i].p = "gre" => s[i].c = 0)
Edit ==
  /\ phase = "parsed" /\ phase' = "edited" /\ CanEdit(pkt)
  /\ LET np == NewPay(pkt[Len(pkt)])
         d2 == [dec EXCEPT ![Len(dec)] = [p |-> "rawb", data |-> RawBytes(np)]]
         a  == Asm(d2, 1)
     IN /\ pkt' = [pkt EXCEPT ![Len(pkt)] = np]
        /\ dec' = d2 /\ wire' = a.b /\ fill' = a.v
        /\ Log("Edit", np, [ok |-> TRUE])
  /\ UNCHANGED <<case, src>>

Repack ==
  /\ phase \in {"parsed", "edited"} /\ phase' = "done" /\ ~FreeForm(dec)
  /\ UNCHANGED <<case, pkt, fill, wire, dec, src>>
  \* the same bytes - except that DHCP pad options, which carry no information,
  \* may be placed afresh (a packet the library itself serialised has them
  \* where the library puts them, so for those the bytes are the same)
  /\ \E q \in PadVariants(dec) : Log("Repack", [x |-> 0], Split(EncStack(q), PayLen(pkt)))

RepackAs(w) ==
  /\ phase = "parsed" /\ phase' = "done" /\ FreeForm(dec) /\ Encodes(w, dec)
  /\ UNCHANGED <<case, pkt, fill, wire, dec, src>>
  /\ Log("Repack", [x |-> 0], Split(w, PayLen(pkt)))
RepackAny == phase = "parsed" /\ FreeForm(dec) /\ \E w \in {EncStack(q) : q \in PadVariants(dec)} : RepackAs(w)

\* ---- edits after a first serialisation (caches are warm): PktWireEdits.tla.
\* On the object the caller built (after Pack) and on the parse result (after
\* Repack); the next serialisation must be the bytes of the edited stack.
\* Explored for the pattern-valued cases with small payloads (and in traces).
ChangeOK == case.dl = 0 /\ case.vc = "P" /\ case.n <= 64 /\ ~FreeForm(pkt)
CanChangeBuilt  == phase = "packed" /\ src = "lib" /\ ChangeOK /\ Editable(pkt) /\ Len(EditsOf(pkt)) > 0
CanChangeParsed == phase = "done" /\ src = "wire" /\ ChangeOK /\ Editable(dec) /\ Len(EditsOf(dec)) > 0
ChangeBuiltE(e) ==
  /\ phase' = "bchanged"
  /\ LET q == ApplyEdit(pkt, e) a == Asm(q, 1) IN pkt' = q /\ wire' = a.b /\ fill' = a.v
  /\ UNCHANGED <<case, dec, src>>
  /\ Log("Change", e, [ok |-> TRUE])
ChangeParsedE(e) ==
  /\ phase' = "pchanged"
  /\ LET q == ApplyEdit(dec, e) a == Asm(q, 1) IN dec' = q /\ wire' = a.b /\ fill' = a.v
  /\ UNCHANGED <<case, pkt, src>>
  /\ Log("Change", e, [ok |-> TRUE])
ChangeBuilt  == CanChangeBuilt /\ \E j \in 1..Len(EditsOf(pkt)) : ChangeBuiltE(EditsOf(pkt)[j])
ChangeParsed == CanChangeParsed /\ \E j \in 1..Len(EditsOf(dec)) : ChangeParsedE(EditsOf(dec)[j])
PackAgain ==
  /\ phase = "bchanged" /\ phase' = "bdone" /\ UNCHANGED <<case, pkt, fill, wire, dec, src>>
  /\ \E q \in PadVariants(pkt) : Log("PackAgain", [x |-> 0], Split(EncStack(q), PayLen(pkt)))
RepackAgain ==
  /\ phase = "pchanged" /\ phase' = "pdone" /\ UNCHANGED <<case, pkt, fill, wire, dec, src>>
  /\ \E q \in PadVariants(dec) : Log("RepackAgain", [x |-> 0], Split(EncStack(q), PayLen(pkt)))

Next == Build \/ Feed \/ Pack \/ PackAny \/ Parse \/ Edit \/ Repack \/ RepackAny \/ ChangeBuilt \/ ChangeParsed \/ PackAgain \/ RepackAgain
Spec == Init /\ [][Next]_vars

---------------------------------------------------------------------------
(* The property, over the real variables                                    *)

TypeOK == /\ phase \in {"init", "built", "packed", "parsed", "edited", "done", "bchanged", "bdone", "pchanged", "pdone"}
          /\ phase = "built" => StackOK(pkt)
          /\ phase = "packed" => IsBytes(wire) /\ StackOK(fill)

\* emitted length fields and checksums are right (checked from the bytes)
LengthsAndChecksumsOK == phase \in {"packed", "edited", "bchanged", "pchanged"} => WireOK(fill, wire)

\* the two definitions of the Internet checksum agree on every frame and on
\* the frame without its last byte (odd and even lengths)
ChecksumDefsAgree ==
  phase = "packed" => /\ Csum(wire) = CsumB(wire)
                      /\ Len(wire) > 0 => Csum(Take(wire, Len(wire) - 1)) = CsumB(Take(wire, Len(wire) - 1))

\* parsing yields equal header fields and payload
ParseRecovers == phase = "parsed" => Norm(dec) = Norm(Expand(fill))

\* the two directions of the structured option layouts (Multipath TCP) agree:
\* the fields read from an option's octets are the fields those octets are
\* written from (so comparing fields loses nothing against comparing octets)
StructuredOptionsOK ==
  phase = "parsed" =>
    \A i \in 1..Len(dec) : dec[i].p = "tcp" =>
      \A j \in 1..Len(dec[i].opts) :
        LET o == dec[i].opts[j]
        IN (o.k = 30 /\ Len(MpFields(o.d)) > 0) => MpEnc(MpFields(o.d)) = o.d

\* serialising the parse result reproduces the same bytes; so does
\* serialising the completed stack (derived fields are recomputed, not trusted).
\* (Pack is deterministic except for the placement of DHCP pad options.)
ReserialiseSame ==
  /\ phase = "parsed" => IF FreeForm(dec) THEN Encodes(wire, dec) ELSE EncStack(dec) = wire
  /\ phase = "packed" => IF FreeForm(fill) THEN Encodes(wire, pkt) ELSE EncStack(fill) = wire

\* what the actions promise is what the state holds
ObservationsOK ==
  [][/\ last'.a = "Pack" => /\ last'.exp.hdr = Take(wire', Len(wire') - PayLen(pkt'))
                             /\ last'.exp.pay = PayLen(pkt')
     /\ last'.a \in {"Repack", "RepackAgain"} =>
          IF FreeForm(dec') THEN last'.exp.pay = 0 /\ Encodes(last'.exp.hdr, dec')
          ELSE \E q \in PadVariants(dec') : last'.exp = Split(EncStack(q), PayLen(pkt'))
     /\ last'.a = "PackAgain" => \E q \in PadVariants(pkt') : last'.exp = Split(EncStack(q), PayLen(pkt'))
     /\ last'.a = "Parse" => Norm(Expand(last'.exp.view)) = Norm(dec')]_vars

\* ---- export for the replay harness
Done   == phase \in {"bdone", "pdone"} \/ (phase = "done" /\ ~CanChangeParsed)
\* Free-form stacks: only the parser's half is exported for replay (the oracle's
\* bytes in each style, and the header chain they must parse to); the sender's
\* half has no predicted bytes and is bound by trace validation (PackAs, RepackAs).
ExportNow == IF FreeForm(pkt) THEN phase = "parsed" /\ src = "wire" ELSE Done
Export == ExportNow => PrintT(<<"H", ToJson(hist)>>)
=============================================================================
