------------------------ MODULE PktGrammarAnyTrace ------------------------
(* Code -> spec: runs of the real packet library on damaged frames and      *)
(* arbitrary bytes (recorded by harness/c15_driver.py) must be behaviours   *)
(* of the parse phase of PktGrammarAny; all its invariants are evaluated at *)
(* every matched step.  Event schema (uniform types):                       *)
(*   [a, k, n, len, starts, any, ok]                                        *)
(*   Offer: n = number of bytes offered, ok = the parser returned           *)
(*   Layer: k = kind of the next layer reported parsed                      *)
(*   Rest:  len = length of the raw remainder (-1: not kept), starts = the  *)
(*          offsets at which exactly these bytes occur in the offered bytes *)
(*          (any = TRUE for an empty remainder)                             *)
(*   Print / Dump / Repack: ok = the operation returned (a str / bytes)     *)
EXTENDS PktGrammarAny, IOUtils, TLCExt, SequencesExt

Traces == JsonDeserialize(IOEnv.TRACE_FILE)
NT == Len(Traces)
VARIABLES tid, l
tvars == <<vars, tid, l>>

TrInit == /\ tid \in 1..NT /\ l = 1 /\ TLCSet(tid, 0)
          /\ n = Traces[tid][1].n /\ pc = "offer" /\ chain = <<>> /\ rest = NoRest
          /\ frm = Frame(<<L("eth", "-")>>, 0, 0) /\ muts = <<>> /\ cutm = 0
Ev == Traces[tid][l]
IsEvent(e) == l <= Len(Traces[tid]) /\ Ev.a = e /\ l' = l + 1 /\ UNCHANGED tid

TrOffer  == IsEvent("Offer") /\ Ev.ok /\ Ev.n = n /\ AOffer
TrLayer  == IsEvent("Layer") /\ Ev.k \in AllKinds /\ ALayer(Ev.k)
TrRest   == /\ IsEvent("Rest") /\ Ev.len >= 0
            /\ IF Ev.any THEN \E s \in SumNeed(chain)..n : ARest(s, Ev.len)
               ELSE \E s \in ToSet(Ev.starts) : ARest(s, Ev.len)
TrPrint  == IsEvent("Print") /\ Ev.ok /\ APrint
TrDump   == IsEvent("Dump") /\ Ev.ok /\ ADump
TrRepack == IsEvent("Repack") /\ Ev.ok /\ ARepack

TrNext == TrOffer \/ TrLayer \/ TrRest \/ TrPrint \/ TrDump \/ TrRepack
TrSpec == TrInit /\ [][TrNext]_tvars

Progress == TLCSet(tid, IF TLCGet(tid) < l - 1 THEN l - 1 ELSE TLCGet(tid))
Ok(t) == TLCGet(t) = Len(Traces[t]) \/ (PrintT(<<"REJECT", t, TLCGet(t)>>) /\ FALSE)
Accepted == /\ PrintT(<<"TRACES-CHECKED", NT>>)
            /\ Cardinality({t \in 1..NT : ~Ok(t)}) = 0
=============================================================================
