CONSTANTS Descs <- MCThorough
INIT Init
NEXT Next
INVARIANT Export
CHECK_DEADLOCK FALSE
