---------------------------- MODULE PktWireTables ----------------------------
(* Prints the layout tables of PktWireLayers as JSON (for the harness' byte   *)
(* builder harness/c14_wire.py, which is cross-checked against EncStack).     *)
EXTENDS PktWireLayers, Json
VARIABLE x
Init == x = 0 /\ PrintT(<<"L", ToJson(Layouts)>>)
Next == x' = x
=============================================================================
