CONSTANTS Descs <- MCTail
INIT Init
NEXT Next
VIEW view
INVARIANT TypeOK
INVARIANT LengthsAndChecksumsOK
INVARIANT ChecksumDefsAgree
INVARIANT ParseRecovers
INVARIANT ReserialiseSame

CHECK_DEADLOCK FALSE
PROPERTY ObservationsOK
