CONSTANTS PayFull = {5}
  PayEdge = {5}
  Pads = {0}
  CutMode = "edges"
  DeepSizes = {1514, 9018}
INIT InitDeep
NEXT Stutter
INVARIANT ExportDeep
CHECK_DEADLOCK FALSE
