--------------------------- MODULE PktWireCorpus ---------------------------
(* C14: the header stacks the library can assemble, as a grammar of         *)
(* families.  A case is a descriptor                                        *)
(*   [fam, vc, n, var, dl, df, dc]                                          *)
(* fam = family (shape of the stack), vc = value class of every free field  *)
(* (Z all zero, M all ones, S top bit only, P a pattern of distinct bytes), *)
(* n = payload length, var = variant of the variable-length part (options,  *)
(* TLVs, extension headers), (dl, df, dc) = one field (layer dl, field df   *)
(* of its layout) deviating to class dc (dl = 0: none).  Stack(d) is the    *)
(* abstract packet.  Structural fields (ethertype, IP protocol, IHL, UDP    *)
(* ports that select a payload parser, MPLS bottom-of-stack bit, ...) are   *)
(* set so that the stack is the one a parser following the dispatch fields  *)
(* recovers.                                                                *)
EXTENDS PktWireLayers

Classes == {"Z", "M", "S", "P"}
Desc(fam, vc, n, var, dl, df, dc) ==
  [fam |-> fam, vc |-> vc, n |-> n, var |-> var, dl |-> dl, df |-> df, dc |-> dc]

\* pattern values: the top w bits of a 24-bit constant that depends on the field
PV(w, salt) == ((11982243 + salt * 990765) % 16777216) \div (2 ^ (24 - w))
PBytes(nb, salt) == [j \in 1..nb |-> ((salt * 37 + j * 3) % 254) + 1]
Val(c, e, salt) ==
  IF e.k = "u"
  THEN CASE c = "Z" -> 0 [] c = "M" -> 2 ^ e.w - 1 [] c = "S" -> 2 ^ (e.w - 1) [] OTHER -> PV(e.w, salt)
  ELSE LET nb == e.w \div 8
       IN CASE c = "Z" -> Zeros(nb) [] c = "M" -> Rep(nb, 255)
            [] c = "S" -> [j \in 1..nb |-> IF j = 1 THEN 128 ELSE 0]
            [] OTHER -> PBytes(nb, salt)
Cls(d, li, fi) == IF d.dl = li /\ d.df = fi THEN d.dc ELSE d.vc
\* ad-hoc values for the variable parts
VU(d, li, fi, w) == Val(Cls(d, li, fi), [k |-> "u", w |-> w], li * 16 + fi)
VB(d, li, fi, nb) == Val(Cls(d, li, fi), [k |-> "b", w |-> 8 * nb], li * 16 + fi)

NoFix == [nofix |-> 0]
Mk(p, li, fix, d) ==
  LET lay == Layouts[p]
  IN [p |-> p] @@
     [nm \in Names(lay) |->
        LET i == CHOOSE j \in 1..Len(lay) : lay[j].n = nm
        IN IF nm \in DOMAIN fix THEN fix[nm]
           ELSE IF lay[i].r = "free" THEN Val(Cls(d, li, i), lay[i], li * 16 + i)
           ELSE 0]

Raw(d) == IF d.n = 0 THEN <<>> ELSE <<[p |-> "raw", n |-> d.n, a |-> 7, b |-> 13]>>

Eth(li, t, d)  == Mk("eth", li, [type |-> t], d)
Vlan(li, t, d) == Mk("vlan", li, [type |-> t], d)
Arp(li, d)     == Mk("arp", li, [hwtype |-> 1, prototype |-> 2048, hwlen |-> 6, protolen |-> 4], d)
Ip4(li, proto, opts, frag, d) ==
  Mk("ipv4", li, [v |-> 4, hl |-> 5 + Len(opts) \div 4, frag |-> frag, protocol |-> proto], d) @@ [opts |-> opts]
Udp(li, d)     == Mk("udp", li, NoFix, d)
UdpTo(li, sp, dp, d) == Mk("udp", li, [srcport |-> sp, dstport |-> dp], d)
Tcp(li, opts, d) == Mk("tcp", li, NoFix, d) @@ [opts |-> opts]
Icmp(li, t, d) == Mk("icmp", li, [type |-> t], d)
Mpls(li, s, d) == Mk("mpls", li, [s |-> s], d)
Ip6(li, nh, ext, d) == Mk("ipv6", li, [v |-> 6, nh |-> nh], d) @@ [ext |-> ext]
Icmp6(li, t, d) == Mk("icmp6", li, [type |-> t], d)

Llc(li, kind, d) ==      \* kind: "u" (1-byte control), "i", "s" (2 bytes), "snap"
  LET c2 == VU(d, li, 4, 8)
  IN [p |-> "llc",
      dsap |-> IF kind = "snap" THEN 170 ELSE VU(d, li, 1, 7) * 2,       \* individual DSAP, not SNAP
      ssap |-> IF kind = "snap" THEN 170 ELSE (VU(d, li, 2, 7) * 2) % 168,
      ctl |-> CASE kind = "i" -> <<VU(d, li, 3, 7) * 2, c2>>
                [] kind = "s" -> <<(VU(d, li, 3, 2) * 4 + 1), c2>>
                [] OTHER -> <<3>>,
      snap |-> IF kind = "snap" THEN 1 ELSE 0, oui |-> <<>>, type |-> 0]
Snap(li, oui, t, d) == [Llc(li, "snap", d) EXCEPT !.oui = oui, !.type = t]

\* IPv4 options (RFC 791 3.1), whole words
IpOpts(var) ==
  CASE var = 1 -> <<1, 1, 1, 0>>                                     \* NOP NOP NOP EOL
    [] var = 2 -> <<7, 7, 4, 10, 0, 0, 1, 0>>                         \* record route, one slot, EOL
    [] var = 3 -> <<7, 39, 8, 10, 0, 0, 1>> \o Zeros(32) \o <<0>>    \* record route, nine slots: 40 bytes
    [] var = 4 -> <<148, 4, 0, 0>>                                   \* router alert
    [] OTHER -> <<>>

O(k, dd) == [k |-> k, d |-> dd]
Nop == O(1, <<>>)
Eol == O(0, <<>>)
TcpOpts(var, d, li) ==
  LET mss == O(2, U16(VU(d, li, 11, 16)))
      ws  == O(3, <<VU(d, li, 12, 4)>>)
      ts  == O(8, VB(d, li, 13, 4) \o VB(d, li, 14, 4))
      sack(n) == O(5, Concat([i \in 1..n |-> VB(d, li, 14 + i, 4) \o VB(d, li, 19 + i, 4)]))
  IN CASE var = 1 -> <<mss>>
       [] var = 2 -> <<mss, Nop, ws>>
       [] var = 3 -> <<mss, O(4, <<>>), ts, Nop, ws>>
       [] var = 4 -> <<Nop, Nop, ts>>
       [] var = 5 -> <<Nop, Nop, sack(1)>>
       [] var = 6 -> <<Nop, Nop, ts, Nop, Nop, sack(2)>>
       [] var = 7 -> <<ws>>
       [] var = 8 -> <<O(254, VB(d, li, 13, 4))>>
       [] var = 9 -> <<mss, Eol>>
       [] var = 10 -> <<sack(4), Nop, Nop, mss>>                       \* 40 bytes: the limit
       [] var = 11 -> <<O(99, <<>>), Nop, Nop>>
       [] var = 12 -> <<Nop, sack(3), Nop, ws>>                        \* SACK in the middle
       [] OTHER -> <<>>

T(t, dd) == [t |-> t, d |-> dd]
Ascii(n, s) == [j \in 1..n |-> 97 + ((s + j) % 26)]
LldpTlvs(var, d, li) ==
  LET mac == VB(d, li, 1, 6)
      ttl == T(3, U16(VU(d, li, 3, 16)))
      caps == T(7, U16(VU(d, li, 4, 16)) \o U16(VU(d, li, 5, 16)))
      mgmt == T(8, <<5, 1>> \o VB(d, li, 6, 4) \o <<2>> \o VB(d, li, 7, 4) \o <<3, 43, 6, 1>>)
      org(n) == T(127, VB(d, li, 8, 3) \o <<VU(d, li, 9, 8)>> \o Pattern(n, 1, 1))
  IN CASE var = 1 -> <<T(1, <<4>> \o mac), T(2, <<2, 49>>), ttl, T(0, <<>>)>>
       [] var = 2 -> <<T(1, <<4>> \o mac), T(2, <<7>> \o Ascii(4, 1)), ttl, T(4, Ascii(9, 2)), T(5, Ascii(6, 3)),
                       T(6, Ascii(20, 4)), caps, mgmt, org(12), T(0, <<>>)>>
       [] var = 3 -> <<T(1, <<7>> \o Pattern(255, 3, 5)), T(2, <<5>> \o Ascii(255, 7)), ttl, T(9, Pattern(5, 9, 9)),
                       org(507), T(126, <<>>), T(0, <<>>)>>            \* id and TLV length limits, unknown types
       [] var = 4 -> <<T(1, <<7, 65>>), T(2, <<7, 66>>), ttl, T(0, <<>>)>>     \* shortest legal LLDPDU
       [] OTHER -> <<T(1, <<4>> \o mac), T(2, <<3>> \o mac), ttl, org(0), T(0, <<>>)>>

E(t, nh, dd) == [t |-> t, nh |-> nh, d |-> dd]
\* chain of extension headers ending in the upper protocol `up`
Exts(var, up) ==
  CASE var = 1 -> <<E(0, up, <<1, 4, 0, 0, 0, 0>>)>>                              \* hop-by-hop, PadN
    [] var = 2 -> <<E(60, up, <<1, 12>> \o Zeros(12))>>                            \* destination options, 16 bytes
    [] var = 3 -> <<E(44, up, <<0, 0, 0, 18, 52, 86, 120>>)>>                      \* fragment (offset 0, M=0)
    [] var = 4 -> <<E(0, 43, <<1, 4, 0, 0, 0, 0>>), E(43, 60, <<0, 0, 0, 0, 0, 0>>),
                    E(60, up, <<1, 4, 0, 0, 0, 0>>)>>                              \* three in the RFC's order
    [] OTHER -> <<>>
FirstNh(es, up) == IF es = <<>> THEN up ELSE es[1].t

Stack(d) ==
  LET r == Raw(d) IN
  CASE d.fam = "eth"    -> <<Eth(1, 34997, d)>> \o r                                   \* 0x88b5
    [] d.fam = "vlan"   -> <<Eth(1, 33024, d), Vlan(2, 34997, d)>> \o r
    [] d.fam = "qinq"   -> <<Eth(1, 33024, d), Vlan(2, 33024, d), Vlan(3, 34997, d)>> \o r
    [] d.fam = "llc"    -> <<Eth(1, 3 + d.n, d), Llc(2, "u", d)>> \o r
    [] d.fam = "llci"   -> <<Eth(1, 4 + d.n, d), Llc(2, "i", d)>> \o r
    [] d.fam = "llcs"   -> <<Eth(1, 4 + d.n, d), Llc(2, "s", d)>> \o r
    [] d.fam = "snap"   -> <<Eth(1, 8 + d.n, d), Snap(2, <<0, 0, 0>>, 34997, d)>> \o r
    [] d.fam = "snapoui" -> <<Eth(1, 8 + d.n, d), Snap(2, <<0, 0, 12>>, 8192, d)>> \o r     \* Cisco CDP style
    [] d.fam = "snapip" -> <<Eth(1, 36 + d.n, d), Snap(2, <<0, 0, 0>>, 2048, d), Ip4(3, 17, <<>>, 0, d),
                             Udp(4, d)>> \o r
    [] d.fam = "arp"    -> <<Eth(1, 2054, d), Arp(2, d)>> \o r
    [] d.fam = "rarp"   -> <<Eth(1, 32821, d), Arp(2, d)>> \o r
    [] d.fam = "varp"   -> <<Eth(1, 33024, d), Vlan(2, 2054, d), Arp(3, d)>> \o r
    [] d.fam = "ip"     -> <<Eth(1, 2048, d), Ip4(2, 253, IpOpts(d.var), 0, d)>> \o r
    [] d.fam = "ipfrag" -> <<Eth(1, 2048, d), Ip4(2, 17, <<>>, 1 + 184 * (d.var % 45), d)>> \o r
    [] d.fam = "udp"    -> <<Eth(1, 2048, d), Ip4(2, 17, IpOpts(d.var), 0, d), Udp(3, d)>> \o r
    [] d.fam = "vudp"   -> <<Eth(1, 33024, d), Vlan(2, 2048, d), Ip4(3, 17, <<>>, 0, d), Udp(4, d)>> \o r
    [] d.fam = "tcp"    -> <<Eth(1, 2048, d), Ip4(2, 6, <<>>, 0, d), Tcp(3, TcpOpts(d.var, d, 3), d)>> \o r
    [] d.fam = "tcpipopt" -> <<Eth(1, 2048, d), Ip4(2, 6, IpOpts(3), 0, d), Tcp(3, TcpOpts(d.var, d, 3), d)>> \o r
    [] d.fam = "echo"   -> <<Eth(1, 2048, d), Ip4(2, 1, <<>>, 0, d), Icmp(3, 8 * (d.var % 2), d),
                             Mk("echo", 4, NoFix, d)>> \o r
    [] d.fam = "icmpx"  -> <<Eth(1, 2048, d), Ip4(2, 1, <<>>, 0, d), Icmp(3, 13 + d.var, d)>> \o r
    [] d.fam = "unreach" -> <<Eth(1, 2048, d), Ip4(2, 1, <<>>, 0, d), Icmp(3, 3, d), Mk("unreach", 4, NoFix, d),
                              Ip4(5, 17, <<>>, 0, d), Udp(6, d)>> \o r
    [] d.fam = "timex"  -> <<Eth(1, 2048, d), Ip4(2, 1, <<>>, 0, d), Icmp(3, 11, d), Mk("timex", 4, NoFix, d),
                             Ip4(5, 6, IpOpts(d.var), 0, d), Tcp(6, <<>>, d)>> \o r
    [] d.fam = "unreachshort" -> <<Eth(1, 2048, d), Ip4(2, 1, <<>>, 0, d), Icmp(3, 3, d),
                                   Mk("unreach", 4, NoFix, d)>> \o r               \* n < 24: not a datagram
    [] d.fam = "lldp"   -> <<Eth(1, 35020, d), [p |-> "lldp", tlvs |-> LldpTlvs(d.var, d, 2)]>>
    [] d.fam = "mpls"   -> <<Eth(1, 34887, d), Mpls(2, 1, d)>> \o r
    [] d.fam = "mpls2"  -> <<Eth(1, 34888, d), Mpls(2, 0, d), Mpls(3, 0, d), Mpls(4, 1, d)>> \o r
    [] d.fam = "ip6"    -> <<Eth(1, 34525, d), Ip6(2, FirstNh(Exts(d.var, 253), 253), Exts(d.var, 253), d)>> \o r
    [] d.fam = "ip6none" -> <<Eth(1, 34525, d), Ip6(2, FirstNh(Exts(d.var, 59), 59), Exts(d.var, 59), d)>>
    [] d.fam = "udp6"   -> <<Eth(1, 34525, d), Ip6(2, FirstNh(Exts(d.var, 17), 17), Exts(d.var, 17), d), Udp(3, d)>> \o r
    [] d.fam = "tcp6"   -> <<Eth(1, 34525, d), Ip6(2, 6, <<>>, d), Tcp(3, TcpOpts(d.var, d, 3), d)>> \o r
    [] d.fam = "echo6"  -> <<Eth(1, 34525, d), Ip6(2, FirstNh(Exts(d.var \div 2, 58), 58), Exts(d.var \div 2, 58), d),
                             Icmp6(3, 128 + (d.var % 2), d), Mk("echo6", 4, NoFix, d)>> \o r
    [] d.fam = "icmp6x" -> <<Eth(1, 34525, d), Ip6(2, 58, <<>>, d), Icmp6(3, 200, d)>> \o r

\* protocols of the layers of a family (for enumerating single-field deviations)
FamLayers(fam) ==
  CASE fam = "eth" -> <<"eth">> [] fam = "vlan" -> <<"eth", "vlan">> [] fam = "qinq" -> <<"eth", "vlan", "vlan">>
    [] fam \in {"llc", "llci", "llcs", "snap", "snapoui"} -> <<"eth">>
    [] fam = "snapip" -> <<"eth", "-", "ipv4", "udp">>
    [] fam \in {"arp", "rarp"} -> <<"eth", "arp">> [] fam = "varp" -> <<"eth", "vlan", "arp">>
    [] fam \in {"ip", "ipfrag"} -> <<"eth", "ipv4">>
    [] fam = "udp" -> <<"eth", "ipv4", "udp">> [] fam = "vudp" -> <<"eth", "vlan", "ipv4", "udp">>
    [] fam \in {"tcp", "tcpipopt"} -> <<"eth", "ipv4", "tcp">>
    [] fam = "echo" -> <<"eth", "ipv4", "icmp", "echo">> [] fam = "icmpx" -> <<"eth", "ipv4", "icmp">>
    [] fam = "unreach" -> <<"eth", "ipv4", "icmp", "unreach", "ipv4", "udp">>
    [] fam = "timex" -> <<"eth", "ipv4", "icmp", "timex", "ipv4", "tcp">>
    [] fam = "unreachshort" -> <<"eth", "ipv4", "icmp", "unreach">>
    [] fam = "lldp" -> <<"eth">>
    [] fam = "mpls" -> <<"eth", "mpls">> [] fam = "mpls2" -> <<"eth", "mpls", "mpls", "mpls">>
    [] fam \in {"ip6", "ip6none"} -> <<"eth", "ipv6">>
    [] fam = "udp6" -> <<"eth", "ipv6", "udp">> [] fam = "tcp6" -> <<"eth", "ipv6", "tcp">>
    [] fam = "echo6" -> <<"eth", "ipv6", "icmp6", "echo6">> [] fam = "icmp6x" -> <<"eth", "ipv6", "icmp6">>
Devs(fam) ==
  LET fl == FamLayers(fam)
  IN {x \in UNION {{<<li, fi>> : fi \in 1..(IF fl[li] = "-" THEN 0 ELSE Len(Layouts[fl[li]]))} : li \in 1..Len(fl)} :
        Layouts[fl[x[1]]][x[2]].r = "free"}
=============================================================================
