--------------------------- MODULE PktWireCorpus ---------------------------
(* C14: the header stacks the library can assemble, as a grammar of         *)
(* families.  A case is a descriptor                                        *)
(*   [fam, vc, n, var, dl, df, dc]                                          *)
(* fam = family (shape of the stack), vc = value class of every free field  *)
(* (Z all zero, M all ones, S top bit only, P a pattern of distinct bytes), *)
(* n = payload length, var = variant of the variable-length part (options,  *)
(* TLVs, extension headers), (dl, df, dc) = one field (layer dl, field df   *)
(* of its layout) deviating to class dc (dl = 0: none).  Stack(d) is the    *)
(* abstract packet.  Structural fields (ethertype, IP protocol, IHL, UDP    *)
(* ports that select a payload parser, MPLS bottom-of-stack bit, ...) are   *)
(* set so that the stack is the one a parser following the dispatch fields  *)
(* recovers.                                                                *)
EXTENDS PktWireLayers

Classes == {"Z", "M", "S", "P"}
Desc(fam, vc, n, var, dl, df, dc) ==
  [fam |-> fam, vc |-> vc, n |-> n, var |-> var, dl |-> dl, df |-> df, dc |-> dc]

\* pattern values: the top w bits of a 24-bit constant that depends on the field
PV(w, salt) == ((11982243 + salt * 990765) % 16777216) \div (2 ^ (24 - w))
PBytes(nb, salt) == [j \in 1..nb |-> ((salt * 37 + j * 3) % 254) + 1]
Val(c, e, salt) ==
  IF e.k = "u"
  THEN CASE c = "Z" -> 0 [] c = "M" -> 2 ^ e.w - 1 [] c = "S" -> 2 ^ (e.w - 1) [] OTHER -> PV(e.w, salt)
  ELSE LET nb == e.w \div 8
       IN CASE c = "Z" -> Zeros(nb) [] c = "M" -> Rep(nb, 255)
            [] c = "S" -> [j \in 1..nb |-> IF j = 1 THEN 128 ELSE 0]
            [] OTHER -> PBytes(nb, salt)
Cls(d, li, fi) == IF d.dl = li /\ d.df = fi THEN d.dc ELSE d.vc
\* ad-hoc values for the variable parts
VU(d, li, fi, w) == Val(Cls(d, li, fi), [k |-> "u", w |-> w], li * 16 + fi)
VB(d, li, fi, nb) == Val(Cls(d, li, fi), [k |-> "b", w |-> 8 * nb], li * 16 + fi)

NoFix == [nofix |-> 0]
Mk(p, li, fix, d) ==
  LET lay == Layouts[p]
  IN [p |-> p] @@
     [nm \in Names(lay) |->
        LET i == CHOOSE j \in 1..Len(lay) : lay[j].n = nm
        IN IF nm \in DOMAIN fix THEN fix[nm]
           ELSE IF lay[i].r = "free" THEN Val(Cls(d, li, i), lay[i], li * 16 + i)
           ELSE 0]

Raw(d) == IF d.n = 0 THEN <<>> ELSE <<[p |-> "raw", n |-> d.n, a |-> 7, b |-> 13]>>

Eth(li, t, d)  == Mk("eth", li, [type |-> t], d)
Vlan(li, t, d) == Mk("vlan", li, [type |-> t], d)
Arp(li, d)     == Mk("arp", li, [hwtype |-> 1, prototype |-> 2048, hwlen |-> 6, protolen |-> 4], d)
Ip4(li, proto, opts, frag, d) ==
  Mk("ipv4", li, [v |-> 4, hl |-> 5 + Len(opts) \div 4, frag |-> frag, protocol |-> proto, mf |-> 0], d) @@ [opts |-> opts]
Udp(li, d)     == Mk("udp", li, NoFix, d)
UdpTo(li, sp, dp, d) == Mk("udp", li, [srcport |-> sp, dstport |-> dp], d)
Tcp(li, opts, d) == Mk("tcp", li, NoFix, d) @@ [opts |-> opts]
Icmp(li, t, d) == Mk("icmp", li, [type |-> t], d)
Mpls(li, s, d) == Mk("mpls", li, [s |-> s], d)
Ip6(li, nh, ext, d) == Mk("ipv6", li, [v |-> 6, nh |-> nh], d) @@ [ext |-> ext]
Icmp6(li, t, d) == Mk("icmp6", li, [type |-> t], d)

Llc(li, kind, d) ==      \* kind: "u" (1-byte control), "i", "s" (2 bytes), "snap"
  LET c2 == VU(d, li, 4, 8)
  IN [p |-> "llc",
      dsap |-> IF kind = "snap" THEN 170 ELSE VU(d, li, 1, 7) * 2,       \* individual DSAP, not SNAP
      ssap |-> IF kind = "snap" THEN 170 ELSE (VU(d, li, 2, 7) * 2) % 168,
      ctl |-> CASE kind = "i" -> <<VU(d, li, 3, 7) * 2, c2>>
                [] kind = "s" -> <<(VU(d, li, 3, 2) * 4 + 1), c2>>
                [] OTHER -> <<3>>,
      snap |-> IF kind = "snap" THEN 1 ELSE 0, oui |-> <<>>, type |-> 0]
Snap(li, oui, t, d) == [Llc(li, "snap", d) EXCEPT !.oui = oui, !.type = t]

\* IPv4 options (RFC 791 3.1), whole words
IpOpts(var) ==
  CASE var = 1 -> <<1, 1, 1, 0>>                                     \* NOP NOP NOP EOL
    [] var = 2 -> <<7, 7, 4, 10, 0, 0, 1, 0>>                         \* record route, one slot, EOL
    [] var = 3 -> <<7, 39, 8, 10, 0, 0, 1>> \o Zeros(32) \o <<0>>    \* record route, nine slots: 40 bytes
    [] var = 4 -> <<148, 4, 0, 0>>                                   \* router alert
    [] OTHER -> <<>>

O(k, dd) == [k |-> k, d |-> dd]
Nop == O(1, <<>>)
Eol == O(0, <<>>)
\* Multipath TCP options, assembled from their fields (MpEnc, PktWireLayers)
MpCapable(d, li, both) ==
  O(30, MpEnc(<<Fld("subtype", <<0>>), Fld("version", <<VU(d, li, 21, 4)>>), Fld("flags", <<VU(d, li, 22, 8)>>), Fld("skey", VB(d, li, 23, 8))>>
              \o (IF both = 1 THEN <<Fld("rkey", VB(d, li, 24, 8))>> ELSE <<>>)))
MpJoin(d, li, phase) ==
  LET h == <<Fld("subtype", <<1>>), Fld("flags", <<VU(d, li, 21, 4)>>), Fld("addr", <<VU(d, li, 22, 8)>>)>>
  IN O(30, MpEnc(CASE phase = 1 -> h \o <<Fld("rtoken", VB(d, li, 23, 4)), Fld("srand", VB(d, li, 24, 4))>>
                   [] phase = 2 -> h \o <<Fld("shmac", VB(d, li, 23, 8)), Fld("srand", VB(d, li, 24, 4))>>
                   [] OTHER -> h \o <<Fld("shmac", VB(d, li, 23, 20))>>))
\* flag sets: Data ACK none / 4 / 8 octets x data sequence number none / 4 / 8 octets (not none + none), one with DATA_FIN
DssFlagSets == <<1, 3, 4, 12, 5, 13, 7, 15, 16 + 13>>
MpDss(d, li, fl) ==
  O(30, MpEnc(<<Fld("subtype", <<2>>), Fld("flags", <<fl>>)>>
              \o (IF DssAckLen(fl) > 0 THEN <<Fld("ack", Wide(VB(d, li, 25, DssAckLen(fl))))>> ELSE <<>>)
              \o (IF DssDsnLen(fl) > 0 THEN <<Fld("dsn", Wide(VB(d, li, 26, DssDsnLen(fl)))), Fld("seq", VB(d, li, 27, 4)),
                                                Fld("length", U16(VU(d, li, 28, 16))), Fld("csum", U16(VU(d, li, 29, 16)))>>
                   ELSE <<>>)))
TcpOpts(var, d, li) ==
  LET mss == O(2, U16(VU(d, li, 11, 16)))
      ws  == O(3, <<VU(d, li, 12, 4)>>)
      ts  == O(8, VB(d, li, 13, 4) \o VB(d, li, 14, 4))
      sack(n) == O(5, Concat([i \in 1..n |-> VB(d, li, 14 + i, 4) \o VB(d, li, 19 + i, 4)]))
  IN CASE var = 1 -> <<mss>>
       [] var = 2 -> <<mss, Nop, ws>>
       [] var = 3 -> <<mss, O(4, <<>>), ts, Nop, ws>>
       [] var = 4 -> <<Nop, Nop, ts>>
       [] var = 5 -> <<Nop, Nop, sack(1)>>
       [] var = 6 -> <<Nop, Nop, ts, Nop, Nop, sack(2)>>
       [] var = 7 -> <<ws>>
       [] var = 8 -> <<O(254, VB(d, li, 13, 4))>>
       [] var = 9 -> <<mss, Eol>>
       [] var = 10 -> <<sack(4), Nop, Nop, mss>>                       \* 40 bytes: the limit
       [] var = 11 -> <<O(99, <<>>), Nop, Nop>>
       [] var = 12 -> <<Nop, sack(3), Nop, ws>>                        \* SACK in the middle
       \* Multipath TCP (RFC 6824): every option layout the RFC gives field by field
       [] var = 13 -> <<mss, O(4, <<>>), MpCapable(d, li, 0)>>         \* SYN: sender's key
       [] var = 14 -> <<MpCapable(d, li, 1), Nop, ws>>                 \* ACK: both keys
       [] var = 15 -> <<mss, MpJoin(d, li, 1), ts>>                    \* SYN: token + random number
       [] var = 16 -> <<MpJoin(d, li, 2)>>                             \* SYN/ACK: truncated HMAC + random number
       [] var = 17 -> <<Nop, MpJoin(d, li, 3), Nop, ws>>               \* ACK: full HMAC
       \* DSS, flags F m M a A: every combination of Data ACK width (none, 4, 8) and
       \* data sequence number width (none, 4, 8), alone and between other options
       [] var \in 18..26 -> <<MpDss(d, li, DssFlagSets[var - 17])>>
       [] var = 27 -> <<Nop, Nop, MpDss(d, li, 13), mss>>              \* 4-octet Data ACK, 8-octet DSN
       [] var = 28 -> <<ws, MpDss(d, li, 7), Nop, O(4, <<>>)>>         \* 8-octet Data ACK, 4-octet DSN
       [] var = 29 -> <<MpDss(d, li, 4), MpDss(d, li, 19), sack(1)>>   \* two DSS options: mapping, then ACK + DATA_FIN
       [] var = 30 -> <<Nop, Nop, ts, MpDss(d, li, 31)>>               \* 12 + 28 = 40 octets: the limit
       \* subtypes carried as opaque data: ADD_ADDR (IPv4), REMOVE_ADDR, MP_PRIO, MP_FAIL, MP_FASTCLOSE, an unassigned one
       [] var = 31 -> <<O(30, <<48 + 4, VU(d, li, 21, 8)>> \o VB(d, li, 22, 4)), O(30, <<64, VU(d, li, 23, 8)>>), O(30, <<80 + VU(d, li, 24, 1)>>)>>
       [] var = 32 -> <<O(30, <<96, 0>> \o VB(d, li, 22, 8)), mss, O(30, <<112, 0>> \o VB(d, li, 23, 8)), O(30, <<240 + VU(d, li, 24, 4), VU(d, li, 21, 8)>>)>>
       [] OTHER -> <<>>

T(t, dd) == [t |-> t, d |-> dd]
Ascii(n, s) == [j \in 1..n |-> 97 + ((s + j) % 26)]
LldpTlvs(var, d, li) ==
  LET mac == VB(d, li, 1, 6)
      ttl == T(3, U16(VU(d, li, 3, 16)))
      caps == T(7, U16(VU(d, li, 4, 16)) \o U16(VU(d, li, 5, 16)))
      mgmt == T(8, <<5, 1>> \o VB(d, li, 6, 4) \o <<2>> \o VB(d, li, 7, 4) \o <<3, 43, 6, 1>>)
      org(n) == T(127, VB(d, li, 8, 3) \o <<VU(d, li, 9, 8)>> \o Pattern(n, 1, 1))
  IN CASE var = 1 -> <<T(1, <<4>> \o mac), T(2, <<2, 49>>), ttl, T(0, <<>>)>>
       [] var = 2 -> <<T(1, <<4>> \o mac), T(2, <<7>> \o Ascii(4, 1)), ttl, T(4, Ascii(9, 2)), T(5, Ascii(6, 3)),
                       T(6, Ascii(20, 4)), caps, mgmt, org(12), T(0, <<>>)>>
       [] var = 3 -> <<T(1, <<7>> \o Pattern(255, 3, 5)), T(2, <<5>> \o Ascii(255, 7)), ttl, T(9, Pattern(5, 9, 9)),
                       org(507), T(126, <<>>), T(0, <<>>)>>            \* id and TLV length limits, unknown types
       [] var = 4 -> <<T(1, <<7, 65>>), T(2, <<7, 66>>), ttl, T(0, <<>>)>>     \* shortest legal LLDPDU
       [] OTHER -> <<T(1, <<4>> \o mac), T(2, <<3>> \o mac), ttl, org(0), T(0, <<>>)>>

E(t, nh, dd) == [t |-> t, nh |-> nh, d |-> dd]
\* chain of extension headers ending in the upper protocol `up`
Exts(var, up) ==
  CASE var = 1 -> <<E(0, up, <<1, 4, 0, 0, 0, 0>>)>>                              \* hop-by-hop, PadN
    [] var = 2 -> <<E(60, up, <<1, 12>> \o Zeros(12))>>                            \* destination options, 16 bytes
    [] var = 3 -> <<E(44, up, <<0, 0, 0, 18, 52, 86, 120>>)>>                      \* fragment (offset 0, M=0)
    [] var = 4 -> <<E(0, 43, <<1, 4, 0, 0, 0, 0>>), E(43, 60, <<0, 0, 0, 0, 0, 0>>),
                    E(60, up, <<1, 4, 0, 0, 0, 0>>)>>                              \* three in the RFC's order
    [] var = 5 -> <<E(43, up, <<253, 0, 0, 0, 0, 0>>)>>                            \* routing (experimental type, 0 segments left)
    [] var = 6 -> <<E(0, 44, <<1, 4, 0, 0, 0, 0>>), E(44, up, <<0, 0, 0, 1, 2, 3, 4>>)>>   \* hop-by-hop, then an atomic fragment
    [] var = 7 -> <<E(60, 43, <<1, 4, 0, 0, 0, 0>>), E(43, 44, <<0, 0, 0, 0, 0, 0>>), E(44, 60, <<0, 0, 0, 9, 8, 7, 6>>),
                    E(60, up, <<1, 12>> \o Zeros(12))>>                            \* four, destination options twice
    [] OTHER -> <<>>
FirstNh(es, up) == IF es = <<>> THEN up ELSE es[1].t


\* ---- the long tail: GRE, VXLAN, IGMP, RIP, EAPOL/EAP, DHCP, ICMPv6 / neighbour discovery
Gre(li, c, k, sq, t, d) ==
  [p |-> "gre", c |-> c, k |-> k, sq |-> sq, recur |-> VU(d, li, 1, 3), ver |-> 0, type |-> t,
   csum |-> 0, offset |-> 0,
   key |-> IF k = 1 THEN VB(d, li, 2, 4) ELSE <<>>, seq |-> IF sq = 1 THEN VB(d, li, 3, 4) ELSE <<>>]
GreFlags(var) == CASE var = 1 -> <<0, 1, 0>> [] var = 2 -> <<0, 0, 1>> [] var = 3 -> <<0, 1, 1>>
                   [] var = 4 -> <<1, 0, 0>> [] var = 5 -> <<1, 1, 1>> [] OTHER -> <<0, 0, 0>>
Vxlan(li, iflag, d) == Mk("vxlan", li, [flags |-> 8 * iflag, rsv1 |-> 0, rsv2 |-> 0,
                                        vni |-> IF iflag = 1 THEN VU(d, li, 3, 24) ELSE 0], d)
Igmp(li, vt, d) == Mk("igmp", li, [vtype |-> vt], d)
Rec(d, li, i, t, ns, naux) ==
  [t |-> t, group |-> VB(d, li, 10 * i, 4), srcs |-> [j \in 1..ns |-> VB(d, li, 10 * i + j, 4)],
   aux |-> Pattern(4 * naux, i, 3)]
Igmp3(li, var, d) ==
  [p |-> "igmp3", csum |-> 0,
   recs |-> CASE var = 1 -> <<Rec(d, li, 1, 1, 2, 1)>>
              [] var = 2 -> <<Rec(d, li, 1, 4, 0, 0), Rec(d, li, 2, 3, 1, 0), Rec(d, li, 3, 6, 3, 2)>>
              [] OTHER -> <<Rec(d, li, 1, 2, 0, 0)>>]
RipEntry(li, i, d) ==
  [nm \in Names(LRipE) |->
     LET j == CHOOSE x \in 1..Len(LRipE) : LRipE[x].n = nm IN Val(Cls(d, li, 3 + j), LRipE[j], li * 16 + i * 7 + j)]
Rip(li, n, d) == Mk("rip", li, [zero |-> 0], d) @@ [entries |-> [i \in 1..n |-> RipEntry(li, i, d)]]
Eapol(li, t, d) == Mk("eapol", li, [type |-> t], d)
Eap(li, c, d) == Mk("eap", li, [code |-> c], d)
DO(k, dd) == [k |-> k, d |-> dd]
DhcpOpts(var, d, li) ==
  CASE var = 1 -> <<DO(53, <<1>>), DO(55, <<1, 3, 6, 15>>), DO(61, <<1>> \o VB(d, li, 20, 6))>>     \* discover
    [] var = 2 -> <<DO(53, <<2>>), DO(1, <<255, 255, 255, 0>>), DO(3, VB(d, li, 21, 4)),
                    DO(6, VB(d, li, 22, 4) \o VB(d, li, 23, 4)), DO(51, VB(d, li, 24, 4)), DO(54, VB(d, li, 25, 4)),
                    DO(12, Ascii(5, 1)), DO(15, Ascii(11, 2))>>                                      \* offer
    [] var = 3 -> <<DO(53, <<5>>), DO(43, Pattern(255, 1, 1)), DO(224, <<>>)>>                         \* longest option, empty option
    [] OTHER -> <<>>
Dhcp(li, hlen, var, d) ==
  LET L == Mk("dhcp", li, [hlen |-> hlen, magic |-> <<99, 130, 83, 99>>], d)
  IN [L EXCEPT !.chaddr = IF hlen = 6 THEN SubSeq(L.chaddr, 1, 6) \o Zeros(10) ELSE L.chaddr]
     @@ [opts |-> DhcpOpts(var, d, li)]
\* ---- DNS
Str(n, s) == [j \in 1..n |-> 97 + ((s + 5 * j) % 26)]
Nm(seed, tld) == <<Str(3, seed), Str(7, seed + 1), tld>>            \* e.g. www.example.com
Q(nm, t) == [name |-> nm, qtype |-> t, qclass |-> 1]
RR(nm, t, ttl, rd) == [name |-> nm, type |-> t, class |-> 1, ttl |-> ttl, rd |-> rd]
RawD(dd) == [k |-> "raw", d |-> dd]
NameD(nm) == [k |-> "name", d |-> nm]
Dns(li, var, d) ==
  LET com == <<99, 111, 109>>  net == <<110, 101, 116>>  org == <<111, 114, 103>>
      www == Nm(1, com)
      nsn == Nm(9, net)
      ttl == VB(d, li, 20, 4)
      big == <<Str(63, 3), org>>                                 \* the longest label
      ex == Str(7, 2)  w3 == Str(3, 1)  m4 == Str(4, 6)  x1 == Str(1, 9)  a1 == Str(1, 12)  b1 == Str(1, 15)  c2 == Str(2, 18)
      base == Mk("dns", li, NoFix, d)
      body == CASE var = 1 -> [qs |-> <<Q(www, 1)>>, ans |-> <<>>, auth |-> <<>>, add |-> <<>>]
                [] var = 2 -> [qs |-> <<Q(www, 1)>>,
                               ans |-> <<RR(www, 1, ttl, RawD(VB(d, li, 21, 4))), RR(www, 28, ttl, RawD(VB(d, li, 22, 16)))>>,
                               auth |-> <<RR(www, 2, ttl, NameD(nsn))>>,
                               add |-> <<RR(nsn, 1, ttl, RawD(VB(d, li, 23, 4)))>>]
                [] var = 3 -> [qs |-> <<Q(big, 16)>>,
                               ans |-> <<RR(big, 16, ttl, RawD(Pattern(1100, 1, 3))), RR(Nm(4, net), 5, ttl, NameD(www)),
                                         RR(www, 12, ttl, NameD(Nm(4, net)))>>,
                               auth |-> <<>>, add |-> <<>>]                   \* pointers beyond offset 1023
                [] var = 4 -> [qs |-> <<Q(www, 255), Q(nsn, 1)>>, ans |-> <<>>, auth |-> <<>>,
                               add |-> <<RR(www, 41, ttl, RawD(<<>>))>>]        \* two questions, empty rdata
                \* ---- names that share suffixes (free-form serialisation, RFC 1035 4.1.4)
                \* www.example.com, mail.example.com, x.mail.example.com: the third has the second - which a
                \* compressing sender ends in a pointer - as a suffix
                [] var = 5 -> [qs |-> <<Q(<<w3, ex, com>>, 1)>>,
                               ans |-> <<RR(<<m4, ex, com>>, 1, ttl, RawD(VB(d, li, 21, 4))),
                                         RR(<<x1, m4, ex, com>>, 1, ttl, RawD(VB(d, li, 22, 4)))>>,
                               auth |-> <<>>, add |-> <<>>]
                \* a chain of four through owner names and names in RDATA, starting from a two-label name
                [] var = 6 -> [qs |-> <<Q(<<ex, org>>, 255)>>,
                               ans |-> <<RR(<<a1, ex, org>>, 5, ttl, NameD(<<b1, a1, ex, org>>)),
                                         RR(<<b1, a1, ex, org>>, 1, ttl, RawD(VB(d, li, 21, 4)))>>,
                               auth |-> <<RR(<<ex, org>>, 2, ttl, NameD(<<c2, b1, a1, ex, org>>))>>,
                               add |-> <<RR(<<c2, b1, a1, ex, org>>, 28, ttl, RawD(VB(d, li, 22, 16)))>>]
                \* two chains and siblings, opaque RDATA in between, a name first seen inside RDATA
                [] var = 7 -> [qs |-> <<Q(<<w3, ex, net>>, 1), Q(<<m4, ex, net>>, 1)>>,
                               ans |-> <<RR(<<a1, m4, ex, net>>, 16, ttl, RawD(<<11>> \o Str(11, 4))),
                                         RR(<<x1, ex, net>>, 12, ttl, NameD(<<c2, a1, m4, ex, net>>)),
                                         RR(<<b1, x1, ex, net>>, 1, ttl, RawD(VB(d, li, 21, 4)))>>,
                               auth |-> <<RR(<<c2, a1, m4, ex, net>>, 2, ttl, NameD(<<w3, ex, net>>))>>,
                               add |-> <<RR(<<b1, b1, x1, ex, net>>, 1, ttl, RawD(VB(d, li, 23, 4)))>>]
                \* a one-label name, and names in which a label repeats (com, example.com, com.example.com, ...)
                [] var = 8 -> [qs |-> <<Q(<<com>>, 2)>>,
                               ans |-> <<RR(<<ex, com>>, 1, ttl, RawD(VB(d, li, 21, 4))),
                                         RR(<<com, ex, com>>, 1, ttl, RawD(VB(d, li, 22, 4))),
                                         RR(<<ex, com, ex, com>>, 5, ttl, NameD(<<com>>))>>,
                               auth |-> <<>>, add |-> <<>>]
                \* pointer targets beyond offset 255, into a name that follows 300 opaque bytes
                [] var = 9 -> [qs |-> <<Q(<<w3, ex, com>>, 16)>>,
                               ans |-> <<RR(<<w3, ex, com>>, 16, ttl, RawD(Pattern(300, 1, 3))),
                                         RR(<<m4, ex, org>>, 2, ttl, NameD(<<a1, m4, ex, org>>)),
                                         RR(<<x1, a1, m4, ex, org>>, 1, ttl, RawD(VB(d, li, 21, 4)))>>,
                               auth |-> <<>>, add |-> <<RR(<<b1, ex, org>>, 1, ttl, RawD(VB(d, li, 22, 4)))>>]
                [] OTHER -> [qs |-> <<>>, ans |-> <<>>, auth |-> <<>>, add |-> <<>>]
  IN base @@ body @@ [cmp |-> 0]
NO(t, dd) == [t |-> t, d |-> dd]
NdOpts(var, d, li) ==
  CASE var = 1 -> <<NO(1, VB(d, li, 10, 6))>>                                      \* source link-layer address
    [] var = 2 -> <<NO(2, VB(d, li, 10, 6))>>                                      \* target link-layer address
    [] var = 3 -> <<NO(1, VB(d, li, 10, 6)), NO(5, <<0, 0>> \o VB(d, li, 11, 4)),
                    NO(3, <<VU(d, li, 12, 7), 192>> \o VB(d, li, 13, 4) \o VB(d, li, 14, 4) \o Zeros(4) \o VB(d, li, 15, 16))>>
    [] var = 4 -> <<NO(14, VB(d, li, 10, 6)), NO(200, Pattern(14, 1, 1))>>           \* options the library does not know
    [] OTHER -> <<>>
Nd(p, li, var, d) ==
  Mk(p, li, [rsv |-> IF p = "na" THEN 0 ELSE <<0, 0, 0, 0>>, rsv5 |-> 0, rsv6 |-> 0], d) @@ [opts |-> NdOpts(var, d, li)]
IpUdp(d, sp, dp) == <<Eth(1, 2048, d), Ip4(2, 17, <<>>, 0, d), UdpTo(3, sp, dp, d)>>

\* A UDP / TCP segment whose checksum computes to zero: the last 16-bit word of
\* an (even-sized) payload is chosen as the checksum of the segment with that
\* word zero, which makes the whole sum "minus zero".  RFC 768: UDP transmits
\* an all-zero checksum as all ones; TCP (RFC 793) transmits it as it is.
ZeroSum(base, n, a, b) ==
  LET z == base \o <<[p |-> "rawb", data |-> Pattern(n, a, b) \o <<0, 0>>]>>
      c == FillStack(z)[Len(base)].csum
      w == IF c = 65535 /\ base[Len(base)].p = "udp" THEN 0 ELSE c
  IN base \o <<[p |-> "rawb", data |-> Pattern(n, a, b) \o U16(w)]>>

\* An ICMP echo whose one's complement sum needs two end-around carries: the
\* last word makes the low half of the 32-bit sum 0xffff while the high half is
\* not zero (RFC 1071 4.1: fold until no carry remains).  swap = 1: the same for
\* an implementation that adds the words in little-endian order and swaps the
\* result (RFC 1071 2.B), whose carries fall differently.
CarryData(icmpL, echoL, n, swap) ==
  LET base == Pattern(n, 7, 13)
      reg0 == Hdr([icmpL EXCEPT !.csum = 0]) \o Hdr(echoL) \o base \o <<0, 0>>
      reg  == IF swap = 1 THEN [i \in 1..Len(reg0) |-> IF i % 2 = 1 THEN reg0[i + 1] ELSE reg0[i - 1]] ELSE reg0
      lo0  == SumW(reg, 1, Len(reg) \div 2) % 65536
      w    == U16(65535 - lo0)
  IN base \o (IF swap = 1 THEN <<w[2], w[1]>> ELSE w)

TailStack(d) ==
  LET r == Raw(d)
      g == GreFlags(d.var % 8)
  IN
  CASE d.fam = "icmpcarry" -> <<Eth(1, 2048, d), Ip4(2, 1, <<>>, 0, d), Icmp(3, 8, d), Mk("echo", 4, NoFix, d),
                                [p |-> "rawb", data |-> CarryData(Icmp(3, 8, d), Mk("echo", 4, NoFix, d), d.n, d.var % 2)]>>
    [] d.fam = "udpzero" -> ZeroSum(<<Eth(1, 2048, d), Ip4(2, 17, <<>>, 0, d), Udp(3, d)>>, d.n, 7, 13)
    [] d.fam = "tcpzero" -> ZeroSum(<<Eth(1, 2048, d), Ip4(2, 6, <<>>, 0, d), Tcp(3, TcpOpts(d.var, d, 3), d)>>, d.n, 7, 13)
    [] d.fam = "udp6zero" -> ZeroSum(<<Eth(1, 34525, d), Ip6(2, 17, <<>>, d), Udp(3, d)>>, d.n, 7, 13)
    [] d.fam = "greip"  -> <<Eth(1, 2048, d), Ip4(2, 47, <<>>, 0, d), Gre(3, g[1], g[2], g[3], 2048, d),
                             Ip4(4, 17, <<>>, 0, d), Udp(5, d)>> \o r
    [] d.fam = "greteb" -> <<Eth(1, 2048, d), Ip4(2, 47, <<>>, 0, d), Gre(3, g[1], g[2], g[3], 25944, d),
                             Eth(4, 34997, d)>> \o r
    [] d.fam = "grex"   -> <<Eth(1, 2048, d), Ip4(2, 47, <<>>, 0, d), Gre(3, g[1], g[2], g[3], 34997, d)>> \o r
    [] d.fam = "vxlan"  -> IpUdp(d, VU(d, 3, 1, 16), 4789) \o <<Vxlan(4, 1 - (d.var % 2), d), Eth(5, 34997, d)>> \o r
    [] d.fam = "vxlanip" -> IpUdp(d, 4789, 4789) \o <<Vxlan(4, 1, d), Eth(5, 2048, d), Ip4(6, 17, <<>>, 0, d), Udp(7, d)>> \o r
    [] d.fam = "igmp"   -> <<Eth(1, 2048, d), Ip4(2, 2, IpOpts(4), 0, d),
                             Igmp(3, CASE d.var = 1 -> 18 [] d.var = 2 -> 22 [] d.var = 3 -> 23 [] OTHER -> 17, d)>> \o r
    [] d.fam = "igmp3"  -> <<Eth(1, 2048, d), Ip4(2, 2, <<>>, 0, d), Igmp3(3, d.var, d)>> \o r
    [] d.fam = "rip"    -> IpUdp(d, 520, 520) \o <<Rip(4, d.var, d)>>
    [] d.fam = "eapol"  -> <<Eth(1, 34958, d), Eapol(2, 1 + (d.var % 2), d)>>                   \* start / logoff: no body
    [] d.fam = "eapolkey" -> <<Eth(1, 34958, d), Eapol(2, 3 + (d.var % 2), d)>> \o r             \* key / ASF alert: opaque body
    [] d.fam = "eap"    -> <<Eth(1, 34958, d), Eapol(2, 0, d), Eap(3, 1 + (d.var % 2), d)>> \o r  \* request / response: type + data
    [] d.fam = "eapend" -> <<Eth(1, 34958, d), Eapol(2, 0, d), Eap(3, 3 + (d.var % 2), d)>>       \* success / failure
    [] d.fam = "dns"    -> IpUdp(d, VU(d, 3, 1, 16), 53) \o <<Dns(4, d.var, d)>>
    [] d.fam = "dnsr"   -> IpUdp(d, 53, VU(d, 3, 2, 16)) \o <<Dns(4, d.var, d)>>
    [] d.fam = "mdns"   -> IpUdp(d, 5353, 5353) \o <<Dns(4, d.var, d)>>
    \* DNS over UDP over IPv6, also behind extension headers (var = 16 * chain + message variant)
    [] d.fam = "dns6"   -> <<Eth(1, 34525, d), Ip6(2, FirstNh(Exts(d.var \div 16, 17), 17), Exts(d.var \div 16, 17), d),
                             UdpTo(3, VU(d, 3, 1, 16), 53, d), Dns(4, d.var % 16, d)>>
    [] d.fam = "dhcp"   -> IpUdp(d, 68, 67) \o <<Dhcp(4, 6, d.var, d)>>
    [] d.fam = "dhcpr"  -> IpUdp(d, 67, 68) \o <<Dhcp(4, 16, d.var, d)>>
    [] d.fam = "ns"     -> <<Eth(1, 34525, d), Ip6(2, 58, <<>>, d), Icmp6(3, 135, d), Nd("ns", 4, d.var, d)>>
    [] d.fam = "na"     -> <<Eth(1, 34525, d), Ip6(2, 58, <<>>, d), Icmp6(3, 136, d), Nd("na", 4, d.var, d)>>
    [] d.fam = "rs"     -> <<Eth(1, 34525, d), Ip6(2, 58, <<>>, d), Icmp6(3, 133, d), Nd("rs", 4, d.var, d)>>
    [] d.fam = "ra"     -> <<Eth(1, 34525, d), Ip6(2, 58, <<>>, d), Icmp6(3, 134, d), Nd("ra", 4, d.var, d)>>
    [] d.fam = "unreach6" -> <<Eth(1, 34525, d), Ip6(2, 58, <<>>, d), Icmp6(3, 1, d), Mk("unreach6", 4, NoFix, d),
                               Ip6(5, 17, <<>>, d), Udp(6, d)>> \o r
    [] d.fam = "toobig" -> <<Eth(1, 34525, d), Ip6(2, 58, <<>>, d), Icmp6(3, 2, d), Mk("toobig", 4, NoFix, d)>> \o r
    [] d.fam = "timex6" -> <<Eth(1, 34525, d), Ip6(2, 58, <<>>, d), Icmp6(3, 3, d), Mk("timex6", 4, [unused4 |-> <<0, 0, 0, 0>>], d)>> \o r
    \* ---- upper-layer headers behind IPv6 extension headers (RFC 8200 8.1: the pseudo-header carries the
    \* upper-layer protocol and the upper-layer length, not what the IPv6 header says).  var = 16 * chain + rest
    [] d.fam = "tcp6x"  -> <<Eth(1, 34525, d), Ip6(2, FirstNh(Exts(d.var \div 16, 6), 6), Exts(d.var \div 16, 6), d),
                             Tcp(3, TcpOpts(d.var % 16, d, 3), d)>> \o r
    [] d.fam = "nd6x"   -> <<Eth(1, 34525, d), Ip6(2, FirstNh(Exts(d.var \div 16, 58), 58), Exts(d.var \div 16, 58), d),
                             Icmp6(3, 135, d), Nd("ns", 4, d.var % 16, d)>>
    [] d.fam = "toobig6x" -> <<Eth(1, 34525, d), Ip6(2, FirstNh(Exts(d.var \div 16, 58), 58), Exts(d.var \div 16, 58), d),
                               Icmp6(3, 2, d), Mk("toobig", 4, NoFix, d)>> \o r
    \* an ICMPv6 error quoting a TCP segment / a datagram that itself has extension headers
    [] d.fam = "unreach6t" -> <<Eth(1, 34525, d), Ip6(2, 58, <<>>, d), Icmp6(3, 1, d), Mk("unreach6", 4, NoFix, d),
                                Ip6(5, FirstNh(Exts(d.var \div 16, 6), 6), Exts(d.var \div 16, 6), d),
                                Tcp(6, TcpOpts(d.var % 16, d, 6), d)>> \o r
TailFams == {"dns", "dnsr", "mdns", "icmpcarry", "udpzero", "tcpzero", "udp6zero", "greip", "greteb", "grex", "vxlan", "vxlanip", "igmp", "igmp3", "rip", "eapol", "eapolkey", "eap", "eapend",
             "dhcp", "dhcpr", "ns", "na", "rs", "ra", "unreach6", "toobig", "timex6",
             "tcp6x", "nd6x", "toobig6x", "unreach6t", "dns6"}

Stack(d) ==
  LET r == Raw(d) IN
  CASE d.fam \in TailFams -> TailStack(d)
    [] d.fam = "eth"    -> <<Eth(1, 34997, d)>> \o r                                   \* 0x88b5
    [] d.fam = "vlan"   -> <<Eth(1, 33024, d), Vlan(2, 34997, d)>> \o r
    [] d.fam = "qinq"   -> <<Eth(1, 33024, d), Vlan(2, 33024, d), Vlan(3, 34997, d)>> \o r
    [] d.fam = "llc"    -> <<Eth(1, 3 + d.n, d), Llc(2, "u", d)>> \o r
    [] d.fam = "llci"   -> <<Eth(1, 4 + d.n, d), Llc(2, "i", d)>> \o r
    [] d.fam = "llcs"   -> <<Eth(1, 4 + d.n, d), Llc(2, "s", d)>> \o r
    [] d.fam = "snap"   -> <<Eth(1, 8 + d.n, d), Snap(2, <<0, 0, 0>>, 34997, d)>> \o r
    [] d.fam = "snapoui" -> <<Eth(1, 8 + d.n, d), Snap(2, <<0, 0, 12>>, 8192, d)>> \o r     \* Cisco CDP style
    [] d.fam = "snapip" -> <<Eth(1, 36 + d.n, d), Snap(2, <<0, 0, 0>>, 2048, d), Ip4(3, 17, <<>>, 0, d),
                             Udp(4, d)>> \o r
    [] d.fam = "arp"    -> <<Eth(1, 2054, d), Arp(2, d)>> \o r
    [] d.fam = "rarp"   -> <<Eth(1, 32821, d), Arp(2, d)>> \o r
    [] d.fam = "varp"   -> <<Eth(1, 33024, d), Vlan(2, 2054, d), Arp(3, d)>> \o r
    [] d.fam = "ip"     -> <<Eth(1, 2048, d), Ip4(2, 253, IpOpts(d.var), 0, d)>> \o r
    [] d.fam = "ipfrag" -> <<Eth(1, 2048, d), [Ip4(2, 17, <<>>, 1 + 184 * (d.var % 45), d) EXCEPT !.mf = d.var % 2]>> \o r
    [] d.fam = "ipmf"   -> <<Eth(1, 2048, d), [Ip4(2, 253, <<>>, 0, d) EXCEPT !.mf = 1]>> \o r       \* a first fragment
    [] d.fam = "udp"    -> <<Eth(1, 2048, d), Ip4(2, 17, IpOpts(d.var), 0, d), Udp(3, d)>> \o r
    [] d.fam = "vudp"   -> <<Eth(1, 33024, d), Vlan(2, 2048, d), Ip4(3, 17, <<>>, 0, d), Udp(4, d)>> \o r
    [] d.fam = "tcp"    -> <<Eth(1, 2048, d), Ip4(2, 6, <<>>, 0, d), Tcp(3, TcpOpts(d.var, d, 3), d)>> \o r
    [] d.fam = "tcpipopt" -> <<Eth(1, 2048, d), Ip4(2, 6, IpOpts(3), 0, d), Tcp(3, TcpOpts(d.var, d, 3), d)>> \o r
    [] d.fam = "echo"   -> <<Eth(1, 2048, d), Ip4(2, 1, <<>>, 0, d), Icmp(3, 8 * (d.var % 2), d),
                             Mk("echo", 4, NoFix, d)>> \o r
    [] d.fam = "icmpx"  -> <<Eth(1, 2048, d), Ip4(2, 1, <<>>, 0, d), Icmp(3, 13 + d.var, d)>> \o r
    [] d.fam = "unreach" -> <<Eth(1, 2048, d), Ip4(2, 1, <<>>, 0, d), Icmp(3, 3, d), Mk("unreach", 4, NoFix, d),
                              Ip4(5, 17, <<>>, 0, d), Udp(6, d)>> \o r
    [] d.fam = "timex"  -> <<Eth(1, 2048, d), Ip4(2, 1, <<>>, 0, d), Icmp(3, 11, d), Mk("timex", 4, NoFix, d),
                             Ip4(5, 6, IpOpts(d.var), 0, d), Tcp(6, <<>>, d)>> \o r
    [] d.fam = "unreachshort" -> <<Eth(1, 2048, d), Ip4(2, 1, <<>>, 0, d), Icmp(3, 3, d),
                                   Mk("unreach", 4, NoFix, d)>> \o r               \* n < 24: not a datagram
    [] d.fam = "lldp"   -> <<Eth(1, 35020, d), [p |-> "lldp", tlvs |-> LldpTlvs(d.var, d, 2)]>>
    [] d.fam = "mpls"   -> <<Eth(1, 34887, d), Mpls(2, 1, d)>> \o r
    [] d.fam = "mpls2"  -> <<Eth(1, 34888, d), Mpls(2, 0, d), Mpls(3, 0, d), Mpls(4, 1, d)>> \o r
    [] d.fam = "ip6"    -> <<Eth(1, 34525, d), Ip6(2, FirstNh(Exts(d.var, 253), 253), Exts(d.var, 253), d)>> \o r
    [] d.fam = "ip6none" -> <<Eth(1, 34525, d), Ip6(2, FirstNh(Exts(d.var, 59), 59), Exts(d.var, 59), d)>>
    [] d.fam = "udp6"   -> <<Eth(1, 34525, d), Ip6(2, FirstNh(Exts(d.var, 17), 17), Exts(d.var, 17), d), Udp(3, d)>> \o r
    [] d.fam = "tcp6"   -> <<Eth(1, 34525, d), Ip6(2, 6, <<>>, d), Tcp(3, TcpOpts(d.var, d, 3), d)>> \o r
    [] d.fam = "echo6"  -> <<Eth(1, 34525, d), Ip6(2, FirstNh(Exts(d.var \div 2, 58), 58), Exts(d.var \div 2, 58), d),
                             Icmp6(3, 128 + (d.var % 2), d), Mk("echo6", 4, NoFix, d)>> \o r
    [] d.fam = "icmp6x" -> <<Eth(1, 34525, d), Ip6(2, 58, <<>>, d), Icmp6(3, 200, d)>> \o r

\* protocols of the layers of a family (for enumerating single-field deviations)
FamLayers(fam) ==
  CASE fam = "eth" -> <<"eth">> [] fam = "vlan" -> <<"eth", "vlan">> [] fam = "qinq" -> <<"eth", "vlan", "vlan">>
    [] fam \in {"llc", "llci", "llcs", "snap", "snapoui"} -> <<"eth">>
    [] fam = "snapip" -> <<"eth", "-", "ipv4", "udp">>
    [] fam \in {"arp", "rarp"} -> <<"eth", "arp">> [] fam = "varp" -> <<"eth", "vlan", "arp">>
    [] fam \in {"ip", "ipfrag", "ipmf"} -> <<"eth", "ipv4">>
    [] fam = "udp" -> <<"eth", "ipv4", "udp">> [] fam = "vudp" -> <<"eth", "vlan", "ipv4", "udp">>
    [] fam \in {"tcp", "tcpipopt"} -> <<"eth", "ipv4", "tcp">>
    [] fam = "echo" -> <<"eth", "ipv4", "icmp", "echo">> [] fam = "icmpx" -> <<"eth", "ipv4", "icmp">>
    [] fam = "unreach" -> <<"eth", "ipv4", "icmp", "unreach", "ipv4", "udp">>
    [] fam = "timex" -> <<"eth", "ipv4", "icmp", "timex", "ipv4", "tcp">>
    [] fam = "unreachshort" -> <<"eth", "ipv4", "icmp", "unreach">>
    [] fam = "lldp" -> <<"eth">>
    [] fam = "mpls" -> <<"eth", "mpls">> [] fam = "mpls2" -> <<"eth", "mpls", "mpls", "mpls">>
    [] fam \in {"ip6", "ip6none"} -> <<"eth", "ipv6">>
    [] fam = "udp6" -> <<"eth", "ipv6", "udp">> [] fam = "tcp6" -> <<"eth", "ipv6", "tcp">>
    [] fam = "echo6" -> <<"eth", "ipv6", "icmp6", "echo6">> [] fam = "icmp6x" -> <<"eth", "ipv6", "icmp6">>
    [] fam = "vxlan" -> <<"eth", "ipv4", "udp", "vxlan", "eth">>
    [] fam = "igmp" -> <<"eth", "ipv4", "igmp">>
    [] fam = "rip" -> <<"eth", "ipv4", "udp", "rip">>
    [] fam = "eap" -> <<"eth", "eapol", "eap">>
    [] fam = "dhcp" -> <<"eth", "ipv4", "udp", "dhcp">>
    [] fam = "dns" -> <<"eth", "ipv4", "udp", "dns">>
    [] fam \in {"ns", "na", "rs", "ra"} -> <<"eth", "ipv6", "icmp6", fam>>
    [] fam = "toobig" -> <<"eth", "ipv6", "icmp6", "toobig">>
    [] OTHER -> <<"eth">>
Devs(fam) ==
  LET fl == FamLayers(fam)
  IN {x \in UNION {{<<li, fi>> : fi \in 1..(IF fl[li] = "-" THEN 0 ELSE Len(Layouts[fl[li]]))} : li \in 1..Len(fl)} :
        Layouts[fl[x[1]]][x[2]].r = "free"}
=============================================================================
