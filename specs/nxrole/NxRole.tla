------------------------------ MODULE NxRole ------------------------------
(* X16: Nicira role requests on the software switch (pox/datapaths/nx_switch.py,          *)
(* NXSoftwareSwitch): several controller connections to ONE switch, each in a role        *)
(* (other / master / slave); at most one master; slaves are read-only; asynchronous       *)
(* messages are distributed by role.                                                      *)
(*                                                                                        *)
(* Abstract state = what the class keeps: the registered connections (in the order they   *)
(* were added: `self.connections`), `role_by_conn`, `connection_in_action` (inAction),    *)
(* `next_other` (round-robin index), `_sent_hellos`; and the part of the inherited        *)
(* SoftwareSwitch that a controller can write: the flow table (flows), miss_send_len,     *)
(* the config of port 2 (p2down), the port set (port3).                                   *)
(*                                                                                        *)
(* One named action per OpenFlow message kind a connection can send (= one path through   *)
(* rx_message / check_rights / the _rx_ handler), per management call (add_connection,    *)
(* set_role), per dataplane / environment event (a frame arriving, flows expiring, a port *)
(* added / deleted, a transport closing).  Every action logs what an observer on EVERY    *)
(* connection sees (`out`, one message sequence per connection), the frames emitted on    *)
(* ports, and the projection of the state (`st`) - compared after every replayed step.    *)
(*                                                                                        *)
(* The INTENDED design is Dev = {} (class docstring of NXSoftwareSwitch + the brief).     *)
(* The code at HEAD deviates; every deviation is a NAMED member of Dev (see AllDev) so    *)
(* the as-built model is Dev = AsBuilt and the strict run rejects each of them.           *)
EXTENDS Naturals, Sequences, FiniteSets, TLC, Json, SequencesExt

CONSTANTS NC,         \* connections that may ever be added (ids 1..NC in order of add_connection)
          Flows,      \* flow identifiers; flow f matches frames of class f and outputs them on port 2
          MissLens,   \* values a SET_CONFIG may install
          Dev,        \* named deviations that are switched on (subset of AllDev)
          WithHello,  \* model HELLO handling (independent of the rest; off in the larger configs)
          WithPort3,  \* model the environment adding / deleting port 3
          D           \* export depth

(* Deviations of the code from its documented intent (notes/X16.md, "Defects observed").   *)
AllDev == {
  "RoleDecodeCrash",     \* _rx_vendor calls nx._unpack_nx_vendor(vendor.data) - wrong arity: TypeError on EVERY
                         \* role request: no role change, no reply, connection_in_action is left set
  "RoleReplyCrash",      \* (decoder supplied) the reply is built with of.ofp_vendor, which does not exist:
                         \* the role IS changed, then AttributeError: no reply, connection_in_action left set
  "RoleReplyNested",     \* (decoder supplied, ofp_vendor := ofp_vendor_generic) the reply is a vendor message
                         \* whose payload is a whole second OpenFlow message (own header, own xid)
  "RefuseBadVendor",     \* a slave's write is refused with BAD_REQUEST/BAD_VENDOR, a fresh xid and no data
                         \* instead of the permission error carrying the request's xid
  "SlaveSetConfig",      \* SET_CONFIG is missing from _slave_blacklist: a slave changes miss_send_len
  "SlaveBarrierRefused", \* BARRIER_REQUEST is in _slave_blacklist: a slave's barrier is refused
  "ErrorReplyCrash",     \* every inherited send_error(..., connection=c) raises TypeError (send() of the subclass
                         \* takes no `connection`): no error reply, connection_in_action left set
  "VendorCrash",         \* a vendor message of another vendor: _rx_vendor calls the inherited handler without its
                         \* `connection` argument: TypeError, no error reply, connection_in_action left set
  "AsyncToInitiator",    \* a FLOW_REMOVED caused by a connection's own delete goes to that connection
                         \* (connection_in_action), not to the master / an `other`
  "ClosedKeepsRole"      \* nothing listens for a transport closing: the connection stays registered, keeps its
                         \* role (a dead master stays master) and keeps being chosen as recipient
}
\* The crash deviations leave `connection_in_action` stale (no try/finally in rx_message): until the next message
\* from anybody completes, EVERY asynchronous message goes to that connection - also to a slave.
ASSUME Dev \subseteq AllDev

Conns == 1..NC
Roles == {"other", "master", "slave"}
RoleNum(r) == CASE r = "other" -> "0" [] r = "master" -> "1" [] r = "slave" -> "2"
ReadKinds == {"echo", "features", "getconfig", "tablestats", "flowstats"}
Classes == Flows \cup {"none"}
VendorKinds == {"foreign", "nxother"}     \* a vendor id that is not Nicira's / a Nicira subtype the switch does not know

VARIABLES nconn,      \* connections 1..nconn have been added
          role,       \* [Conns -> Roles]  (never-added / released = "other")
          closed,     \* connections whose transport has closed
          inAction,   \* connection_in_action left over between messages (0 = None)
          nextOther,  \* next_other
          flows,      \* installed flows
          missLen, p2down, port3,
          hello,      \* connections we have sent our HELLO to
          last, hist
svars == <<nconn, role, closed, inAction, nextOther, flows, missLen, p2down, port3, hello>>
vars  == <<nconn, role, closed, inAction, nextOther, flows, missLen, p2down, port3, hello, last, hist>>
view  == svars          \* every property that mentions `last` is an action property: checked on every transition
viewE == svars

----------------------------------------------------------------------------
\* registered = what the code iterates in `self.connections`, in order
Reg      == IF "ClosedKeepsRole" \in Dev THEN 1..nconn ELSE (1..nconn) \ closed
RegSeq   == SetToSortSeq(Reg, LAMBDA a, b : a < b)
Others   == SelectSeq(RegSeq, LAMBDA c : role[c] = "other")
Masters  == {c \in Reg : role[c] = "master"}
TheMaster == CHOOSE c \in Masters : \A d \in Masters : c <= d        \* masters[0]
CanSend(c) == c \in 1..nconn /\ c \notin closed                       \* c can still send us requests

Msg(m, x, v) == [m |-> m, x |-> x, v |-> v]
NoOut == [c \in Conns |-> <<>>]
Add(out, c, msg) == [out EXCEPT ![c] = Append(@, msg)]
ToAll(out, msg) == [c \in Conns |-> IF c \in Reg THEN Append(out[c], msg) ELSE out[c]]

\* NXSoftwareSwitch.send() for a message that is not a PORT_STATUS, when `stuck` is connection_in_action
AsyncOne(rt, msg, stuck) ==
  IF stuck # 0 THEN [out |-> Add(rt.out, stuck, msg), nxt |-> rt.nxt]
  ELSE IF Masters # {} THEN [out |-> Add(rt.out, TheMaster, msg), nxt |-> rt.nxt]
  ELSE IF Len(Others) = 0 THEN rt                                    \* "Could not find any connection"
  ELSE LET i == rt.nxt % Len(Others) IN [out |-> Add(rt.out, Others[i + 1], msg), nxt |-> i + 1]
RECURSIVE AsyncN(_, _, _, _)
AsyncN(n, rt, msg, stuck) == IF n = 0 THEN rt ELSE AsyncN(n - 1, AsyncOne(rt, msg, stuck), msg, stuck)
Rt0 == [out |-> NoOut, nxt |-> nextOther]

Proj == [roles |-> [c \in Conns |-> IF c <= nconn THEN role[c] ELSE "-"],
         flows |-> flows, miss |-> missLen, p2down |-> p2down, port3 |-> port3, stuck |-> inAction]
NoArgs == [c |-> 0, s |-> "-", n |-> 0]
Args(c, s, n) == [c |-> c, s |-> s, n |-> n]

Init == /\ nconn = 0 /\ role = [c \in Conns |-> "other"] /\ closed = {} /\ inAction = 0 /\ nextOther = 0
        /\ flows = {} /\ missLen = 128 /\ p2down = FALSE /\ port3 = FALSE /\ hello = {}
        /\ last = [a |-> "Init", args |-> NoArgs, exp |-> [out |-> NoOut, emitted |-> {}, st |-> Proj]]
        /\ hist = <<>>

\* must be the LAST conjunct of an action (it reads the primed state)
Log(a, args, out, em) ==
  LET e == [a |-> a, args |-> args, exp |-> [out |-> out, emitted |-> em, st |-> Proj']] IN
  /\ last' = e
  /\ hist' = Append(hist, e)

----------------------------------------------------------------------------
\* check_rights() said no
RefusalMsg == IF "RefuseBadVendor" \in Dev THEN Msg("ERROR", "other", "BAD_REQUEST/BAD_VENDOR")
                                           ELSE Msg("ERROR", "req", "BAD_REQUEST/EPERM")
Refuse(a, args) ==
  /\ inAction' = 0
  /\ UNCHANGED <<nconn, role, closed, nextOther, flows, missLen, p2down, port3, hello>>
  /\ Log(a, args, Add(NoOut, args.c, RefusalMsg), {})
\* the handler raised: nothing is sent and rx_message never reaches `self.connection_in_action = None`
Crash(a, args) ==
  /\ inAction' = args.c
  /\ UNCHANGED <<nconn, role, closed, nextOther, flows, missLen, p2down, port3, hello>>
  /\ Log(a, args, NoOut, {})

AddConnection ==
  /\ nconn < NC
  /\ nconn' = nconn + 1
  /\ UNCHANGED <<role, closed, inAction, nextOther, flows, missLen, p2down, port3, hello>>
  /\ Log("AddConnection", Args(nconn + 1, "-", 0), NoOut, {})

Hello(c) ==
  /\ WithHello /\ CanSend(c)
  /\ hello' = hello \cup {c}
  /\ inAction' = 0
  /\ UNCHANGED <<nconn, role, closed, nextOther, flows, missLen, p2down, port3>>
  /\ Log("Hello", Args(c, "-", 0), IF c \in hello THEN NoOut ELSE Add(NoOut, c, Msg("HELLO", "-", "-")), {})

\* set_role(): the requester gets the role; a new master turns EVERY other registered connection into a slave
\* (class docstring: "in which case all other controllers are downgraded to slave status")
SetRoleF(c, r) == [d \in Conns |-> IF d = c THEN r
                                   ELSE IF r = "master" /\ d \in Reg THEN "slave" ELSE role[d]]

\* NX vendor message nx_role_request on the wire
RoleRequest(c, r) ==
  /\ CanSend(c)
  /\ IF "RoleDecodeCrash" \in Dev THEN Crash("RoleRequest", Args(c, r, 0))
     ELSE /\ role' = SetRoleF(c, r)
          /\ UNCHANGED <<nconn, closed, nextOther, flows, missLen, p2down, port3, hello>>
          /\ IF "RoleReplyCrash" \in Dev
             THEN inAction' = c /\ Log("RoleRequest", Args(c, r, 0), NoOut, {})
             ELSE /\ inAction' = 0
                  /\ Log("RoleRequest", Args(c, r, 0),
                         Add(NoOut, c, Msg(IF "RoleReplyNested" \in Dev THEN "ROLE_REPLY_NESTED" ELSE "ROLE_REPLY",
                                           "req", RoleNum(r))), {})

\* the public method the role request is meant to reach, called directly (the only way to change a role at HEAD)
SetRole(c, r) ==
  /\ CanSend(c)
  /\ role' = SetRoleF(c, r)
  /\ UNCHANGED <<nconn, closed, inAction, nextOther, flows, missLen, p2down, port3, hello>>
  /\ Log("SetRole", Args(c, r, 0), NoOut, {})

FlowAdd(c, f) ==
  /\ CanSend(c)
  /\ IF role[c] = "slave" THEN Refuse("FlowAdd", Args(c, f, 0))
     ELSE /\ flows' = flows \cup {f} /\ inAction' = 0
          /\ UNCHANGED <<nconn, role, closed, nextOther, missLen, p2down, port3, hello>>
          /\ Log("FlowAdd", Args(c, f, 0), NoOut, {})

\* DELETE; the flows ask for a removal notification
FlowDel(c, f) ==
  /\ CanSend(c)
  /\ IF role[c] = "slave" THEN Refuse("FlowDel", Args(c, f, 0))
     ELSE LET rt == IF f \notin flows THEN Rt0
                    ELSE AsyncOne(Rt0, Msg("FLOW_REMOVED", "-", "delete"),
                                  IF "AsyncToInitiator" \in Dev THEN c ELSE 0) IN
          /\ flows' = flows \ {f} /\ inAction' = 0 /\ nextOther' = rt.nxt
          /\ UNCHANGED <<nconn, role, closed, missLen, p2down, port3, hello>>
          /\ Log("FlowDel", Args(c, f, 0), rt.out, {})

\* PACKET_OUT carrying a frame, action output:2
PacketOut(c) ==
  /\ CanSend(c)
  /\ IF role[c] = "slave" THEN Refuse("PacketOut", Args(c, "-", 0))
     ELSE /\ inAction' = 0
          /\ UNCHANGED <<nconn, role, closed, nextOther, flows, missLen, p2down, port3, hello>>
          /\ Log("PacketOut", Args(c, "-", 0), NoOut, IF p2down THEN {} ELSE {2})

\* PORT_MOD of port 2, bit OFPPC_PORT_DOWN := dn; a change is announced to ALL connections (slaves too)
PortMod(c, dn) ==
  /\ CanSend(c)
  /\ IF role[c] = "slave" THEN Refuse("PortMod", Args(c, "-", IF dn THEN 1 ELSE 0))
     ELSE /\ p2down' = dn /\ inAction' = 0
          /\ UNCHANGED <<nconn, role, closed, nextOther, flows, missLen, port3, hello>>
          /\ Log("PortMod", Args(c, "-", IF dn THEN 1 ELSE 0),
                 IF dn # p2down THEN ToAll(NoOut, Msg("PORT_STATUS", "-", "modify")) ELSE NoOut, {})

SetConfig(c, ml) ==
  /\ CanSend(c)
  /\ IF role[c] = "slave" /\ "SlaveSetConfig" \notin Dev THEN Refuse("SetConfig", Args(c, "-", ml))
     ELSE /\ missLen' = ml /\ inAction' = 0
          /\ UNCHANGED <<nconn, role, closed, nextOther, flows, p2down, port3, hello>>
          /\ Log("SetConfig", Args(c, "-", ml), NoOut, {})

Barrier(c) ==
  /\ CanSend(c)
  /\ IF role[c] = "slave" /\ "SlaveBarrierRefused" \in Dev THEN Refuse("Barrier", Args(c, "-", 0))
     ELSE /\ inAction' = 0
          /\ UNCHANGED <<nconn, role, closed, nextOther, flows, missLen, p2down, port3, hello>>
          /\ Log("Barrier", Args(c, "-", 0), Add(NoOut, c, Msg("BARRIER_REPLY", "req", "-")), {})

\* requests that read: served to ANY role, answered to the requester only, with its xid
ReadReply(k) ==
  CASE k = "echo"       -> Msg("ECHO_REPLY", "req", "ok")
    [] k = "features"   -> Msg("FEATURES_REPLY", "req", IF port3 THEN "3" ELSE "2")
    [] k = "getconfig"  -> Msg("GET_CONFIG_REPLY", "req", ToString(missLen))
    [] k = "tablestats" -> Msg("STATS_REPLY", "req", "active=" \o ToString(Cardinality(flows)))
    [] k = "flowstats"  -> Msg("STATS_REPLY", "req", "n=" \o ToString(Cardinality(flows)))
Read(c, k) ==
  /\ CanSend(c)
  /\ inAction' = 0
  /\ UNCHANGED <<nconn, role, closed, nextOther, flows, missLen, p2down, port3, hello>>
  /\ Log("Read", Args(c, k, 0), Add(NoOut, c, ReadReply(k)), {})

\* a statistics request of a type the switch does not have: answered with an error by the inherited send_error
BadStats(c) ==
  /\ CanSend(c)
  /\ IF "ErrorReplyCrash" \in Dev THEN Crash("BadStats", Args(c, "-", 0))
     ELSE /\ inAction' = 0
          /\ UNCHANGED <<nconn, role, closed, nextOther, flows, missLen, p2down, port3, hello>>
          /\ Log("BadStats", Args(c, "-", 0), Add(NoOut, c, Msg("ERROR", "req", "BAD_REQUEST/BAD_STAT")), {})

\* a vendor message that is not a role request: refused with BAD_REQUEST/BAD_VENDOR (quoting the request's xid)
Vendor(c, k) ==
  /\ CanSend(c)
  /\ IF (k = "foreign" /\ "VendorCrash" \in Dev) \/ (k = "nxother" /\ "RoleDecodeCrash" \in Dev)
     THEN Crash("Vendor", Args(c, k, 0))
     ELSE /\ inAction' = 0
          /\ UNCHANGED <<nconn, role, closed, nextOther, flows, missLen, p2down, port3, hello>>
          /\ Log("Vendor", Args(c, k, 0),
                 Add(NoOut, c, Msg("ERROR", IF k = "nxother" /\ "RefuseBadVendor" \in Dev THEN "other" ELSE "req",
                                   "BAD_REQUEST/BAD_VENDOR")), {})

\* a frame of class k arrives on port 1: forwarded by flow k if installed, else a table miss -> PACKET_IN, which
\* goes to ONE connection: the master if there is one, else the `other` connections in turn, never a slave
Rx(k) ==
  /\ UNCHANGED <<nconn, role, closed, inAction, flows, missLen, p2down, port3, hello>>
  /\ IF k \in flows
     THEN /\ UNCHANGED nextOther
          /\ Log("Rx", Args(0, k, 0), NoOut, IF p2down THEN {} ELSE {2})
     ELSE LET rt == AsyncOne(Rt0, Msg("PACKET_IN", "-", "miss"), inAction) IN
          /\ nextOther' = rt.nxt
          /\ Log("Rx", Args(0, k, 0), rt.out, {})

\* the hard timeout of every installed flow passes and the table is swept: one FLOW_REMOVED per flow, each routed
\* like a PACKET_IN (so two of them go to two different `other` connections)
Expire ==
  /\ LET rt == AsyncN(Cardinality(flows), Rt0, Msg("FLOW_REMOVED", "-", "hard"), inAction) IN
     /\ flows' = {} /\ nextOther' = rt.nxt
     /\ UNCHANGED <<nconn, role, closed, inAction, missLen, p2down, port3, hello>>
     /\ Log("Expire", NoArgs, rt.out, {})

\* the environment adds / deletes port 3: PORT_STATUS to ALL connections
PortEvent ==
  /\ WithPort3
  /\ port3' = ~port3
  /\ UNCHANGED <<nconn, role, closed, inAction, nextOther, flows, missLen, p2down, hello>>
  /\ Log("PortEvent", NoArgs, ToAll(NoOut, Msg("PORT_STATUS", "-", IF port3 THEN "delete" ELSE "add")), {})

\* the transport of c closes.  Intended: the connection is forgotten and its role released.
Close(c) ==
  /\ CanSend(c)
  /\ closed' = closed \cup {c}
  /\ role' = IF "ClosedKeepsRole" \in Dev THEN role ELSE [role EXCEPT ![c] = "other"]
  /\ UNCHANGED <<nconn, inAction, nextOther, flows, missLen, p2down, port3, hello>>
  /\ Log("Close", Args(c, "-", 0), NoOut, {})

Next == \/ AddConnection
        \/ \E c \in Conns : Hello(c)
        \/ \E c \in Conns, r \in Roles : RoleRequest(c, r)
        \/ \E c \in Conns, r \in Roles : SetRole(c, r)
        \/ \E c \in Conns, f \in Flows : FlowAdd(c, f)
        \/ \E c \in Conns, f \in Flows : FlowDel(c, f)
        \/ \E c \in Conns : PacketOut(c)
        \/ \E c \in Conns, dn \in BOOLEAN : PortMod(c, dn)
        \/ \E c \in Conns, ml \in MissLens : SetConfig(c, ml)
        \/ \E c \in Conns : Barrier(c)
        \/ \E c \in Conns, k \in ReadKinds : Read(c, k)
        \/ \E c \in Conns : BadStats(c)
        \/ \E c \in Conns, k \in VendorKinds : Vendor(c, k)
        \/ \E k \in Classes : Rx(k)
        \/ Expire
        \/ PortEvent
        \/ \E c \in Conns : Close(c)
Spec == Init /\ [][Next]_vars

----------------------------------------------------------------------------
(* The properties.  State invariants over the real variables; everything that talks about  *)
(* what was SENT is an action property over (state, state', last'), so it is evaluated on   *)
(* every transition although the VIEW hides `last`.                                        *)
NumOf(seq, m) == Cardinality({i \in DOMAIN seq : seq[i].m = m})
Total(out, m) == LET RECURSIVE S(_) S(c) == IF c = 0 THEN 0 ELSE NumOf(out[c], m) + S(c - 1) IN S(NC)
Async == {"PACKET_IN", "FLOW_REMOVED"}
LA == last'.a
LC == last'.args.c
LOut == last'.exp.out

TypeOK == /\ nconn \in 0..NC /\ role \in [Conns -> Roles] /\ closed \subseteq 1..nconn
          /\ inAction \in 0..NC /\ nextOther \in 0..NC /\ flows \subseteq Flows
          /\ missLen \in MissLens \cup {128} /\ p2down \in BOOLEAN /\ port3 \in BOOLEAN /\ hello \subseteq Conns
          /\ \A c \in Conns : c > nconn => role[c] = "other"

\* --- roles
AtMostOneMaster == Cardinality({c \in 1..nconn : role[c] = "master"}) <= 1
MasterDemotes ==
  [][\A c \in Conns : (role'[c] = "master" /\ role[c] # "master") =>
        \A d \in Reg' \ {c} : role'[d] = "slave"]_vars
OnlyRoleOpsChangeRoles == [][role' # role => LA \in {"RoleRequest", "SetRole", "Close"}]_vars
RoleOpsAffectOnlyRequester ==      \* a request for slave / other changes nobody else's role
  [][(LA \in {"RoleRequest", "SetRole"} /\ last'.args.s # "master") =>
        \A d \in Conns \ {LC} : role'[d] = role[d]]_vars
\* intended design: a role request takes effect and is answered to the requester only, with its xid and the role
RoleRequestAnswered ==
  [][(LA = "RoleRequest") =>
        /\ role'[LC] = last'.args.s
        /\ LOut[LC] = <<Msg("ROLE_REPLY", "req", RoleNum(last'.args.s))>>
        /\ \A d \in Conns \ {LC} : LOut[d] = <<>>]_vars
\* what survives with the decoder supplied and ofp_vendor aliased: role taken, ONE vendor reply with the request's xid
RoleRequestAnsweredNested ==
  [][(LA = "RoleRequest") =>
        /\ role'[LC] = last'.args.s
        /\ Len(LOut[LC]) = 1 /\ LOut[LC][1].x = "req" /\ LOut[LC][1].v = RoleNum(last'.args.s)
        /\ \A d \in Conns \ {LC} : LOut[d] = <<>>]_vars

\* --- slaves are read-only
TableWrites == {"FlowAdd", "FlowDel", "PacketOut", "PortMod"}
SlaveRefused(ops) ==
  [][(LA \in ops /\ role[LC] = "slave") =>
        /\ UNCHANGED <<flows, missLen, p2down, port3, role>>
        /\ last'.exp.emitted = {}
        /\ Len(LOut[LC]) = 1 /\ LOut[LC][1].m = "ERROR"
        /\ \A d \in Conns \ {LC} : LOut[d] = <<>>]_vars
SlaveWritesRefused == SlaveRefused(TableWrites)                       \* holds as built
SlaveWritesRefusedAll == SlaveRefused(TableWrites \cup {"SetConfig"}) \* intended
RefusalIsPermissionError ==                                            \* intended
  [][(LA \in TableWrites \cup {"SetConfig"} /\ role[LC] = "slave") =>
        LOut[LC] = <<Msg("ERROR", "req", "BAD_REQUEST/EPERM")>>]_vars
NonSlaveNeverRefused ==
  [][(LA \in TableWrites \cup {"SetConfig", "Barrier"} /\ role[LC] # "slave") => NumOf(LOut[LC], "ERROR") = 0]_vars
Served(ops) ==      \* exactly one reply, to the requester, carrying its xid; no state change
  [][(LA \in ops) =>
        /\ Len(LOut[LC]) = 1 /\ LOut[LC][1].x = "req" /\ LOut[LC][1].m # "ERROR"
        /\ \A d \in Conns \ {LC} : LOut[d] = <<>>
        /\ (UNCHANGED <<flows, missLen, p2down, port3, role>>)]_vars
ReadsServed == Served({"Read"})                                       \* any role, holds as built
ReadsAndBarrierServed == Served({"Read", "Barrier"})                  \* intended
ErrorsAnswered ==                                                      \* intended: a bad request gets its error reply
  [][/\ (LA = "BadStats") => LOut[LC] = <<Msg("ERROR", "req", "BAD_REQUEST/BAD_STAT")>>
     /\ (LA = "Vendor") => LOut[LC] = <<Msg("ERROR", "req", "BAD_REQUEST/BAD_VENDOR")>>]_vars

\* --- asynchronous messages
HasRecipient == Masters # {} \/ Len(Others) > 0 \/ inAction # 0
AsyncExactlyOnce ==     \* a miss yields ONE packet-in in total (none only if nobody may get it); no duplicates
  [][/\ (LA = "Rx" /\ last'.args.s \notin flows) => Total(LOut, "PACKET_IN") = IF HasRecipient THEN 1 ELSE 0
     /\ (LA = "Rx" /\ last'.args.s \in flows) => Total(LOut, "PACKET_IN") = 0
     /\ LA = "Expire" => Total(LOut, "FLOW_REMOVED") = IF HasRecipient THEN Cardinality(flows) ELSE 0
     /\ LA = "FlowDel" => Total(LOut, "FLOW_REMOVED") <= 1
     /\ LA \notin {"Rx", "Expire", "FlowDel"} => Total(LOut, "PACKET_IN") + Total(LOut, "FLOW_REMOVED") = 0]_vars
AsyncToMaster ==        \* with a master (and nothing stale) every async message goes to it
  [][(LA \in {"Rx", "Expire"} /\ Masters # {} /\ inAction = 0) =>
        \A c \in Conns \ {TheMaster} : \A m \in Async : NumOf(LOut[c], m) = 0]_vars
DeleteNotifiesMaster == \* intended: the FLOW_REMOVED of a delete is "any other message": to the master if there is one
  [][(LA = "FlowDel" /\ Masters # {}) =>
        \A c \in Conns \ {TheMaster} : NumOf(LOut[c], "FLOW_REMOVED") = 0]_vars
AsyncNeverToSlave ==    \* intended
  [][\A c \in Conns : role[c] = "slave" => \A m \in Async : NumOf(LOut[c], m) = 0]_vars
AsyncOnlyToRegistered ==
  [][\A c \in Conns : c \notin Reg => LOut[c] = <<>>]_vars
RoundRobin ==           \* without a master two notifications of one sweep go to two different `other` connections
  [][(LA = "Expire" /\ Cardinality(flows) = 2 /\ Masters = {} /\ inAction = 0 /\ Len(Others) >= 2) =>
        \A c \in Conns : NumOf(LOut[c], "FLOW_REMOVED") <= 1]_vars
PortStatusToAll ==      \* a port change is announced to every registered connection exactly once, slaves included
  [][IF LA = "PortEvent" \/ (LA = "PortMod" /\ p2down' # p2down)
     THEN \A c \in Conns : NumOf(LOut[c], "PORT_STATUS") = IF c \in Reg THEN 1 ELSE 0
     ELSE Total(LOut, "PORT_STATUS") = 0]_vars
RepliesOnlyToRequester ==
  [][(LC # 0) => \A d \in Conns \ {LC} : \A i \in DOMAIN LOut[d] : LOut[d][i].m \in {"PORT_STATUS", "FLOW_REMOVED"}]_vars
HelloOnce == [][(LA = "Hello") => NumOf(LOut[LC], "HELLO") = IF LC \in hello THEN 0 ELSE 1]_vars

\* --- intended only
NothingStale == inAction = 0
ClosedReleased == \A c \in closed : role[c] = "other"
NothingToClosed == [][\A c \in closed : LOut[c] = <<>>]_vars

\* ---- export for the replay harness
Bound   == Len(hist) <= D
Export  == (Len(hist) = D) => PrintT(<<"H", ToJson(hist)>>)
ExportT == PrintT(<<"T", ToJson(hist')>>)
\* the same, only for the transitions that concern HELLO handling and port announcements
ExportTH == IF last'.a \in {"Hello", "PortEvent", "PortMod"} \/ (last'.a = "Read" /\ last'.args.s = "features")
            THEN PrintT(<<"T", ToJson(hist')>>) ELSE TRUE
\* ... and only for the asynchronous routing (where a third connection matters)
ExportTA == IF last'.a \in {"Rx", "Expire"} THEN PrintT(<<"T", ToJson(hist')>>) ELSE TRUE
=============================================================================
