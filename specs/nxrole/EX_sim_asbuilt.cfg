CONSTANTS NC = 3
  Flows <- Flows2
  MissLens <- Miss2
  Dev <- AsBuilt
  WithHello = TRUE
  WithPort3 = TRUE
  D = 40
INIT Init
NEXT Next
INVARIANT Export
CHECK_DEADLOCK FALSE
