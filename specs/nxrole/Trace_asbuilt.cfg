CONSTANTS NC = 3
  Flows <- Flows2
  MissLens <- Miss2
  Dev <- AsBuilt
  WithHello = TRUE
  WithPort3 = TRUE
  D = 0
INIT TrInit
NEXT TrNext
CONSTRAINT Progress
POSTCONDITION Accepted
INVARIANT TypeOK
INVARIANT AtMostOneMaster
PROPERTY AsyncToMaster
PROPERTY MasterDemotes
PROPERTY OnlyRoleOpsChangeRoles
PROPERTY RoleOpsAffectOnlyRequester
PROPERTY SlaveWritesRefused
PROPERTY NonSlaveNeverRefused
PROPERTY ReadsServed
PROPERTY AsyncExactlyOnce
PROPERTY AsyncOnlyToRegistered
PROPERTY RoundRobin
PROPERTY PortStatusToAll
PROPERTY HelloOnce
CHECK_DEADLOCK FALSE
