CONSTANTS NC = 2
  Flows <- Flows1
  MissLens <- Miss1
  Dev <- Shim2
  WithHello = FALSE
  WithPort3 = FALSE
  D = 3
INIT Init
NEXT Next
VIEW viewE
ACTION_CONSTRAINT ExportT
CHECK_DEADLOCK FALSE
