CONSTANTS NC = 2
  Flows <- Flows2
  MissLens <- Miss2
  Dev <- AsBuilt
  WithHello = FALSE
  WithPort3 = FALSE
  D = 3
INIT Init
NEXT Next
VIEW viewE
ACTION_CONSTRAINT ExportT
CHECK_DEADLOCK FALSE
