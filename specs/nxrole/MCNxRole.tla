---- MODULE MCNxRole ----
EXTENDS NxRole
Flows2 == {"f1", "f2"}
Flows1 == {"f1"}
FlowsNone == {}
Miss2 == {64, 128}
Miss1 == {128}
\* state constraint of the small hello / port-3 edge cover: nobody closes
NoClose == closed = {}
Strict  == {}
AsBuilt == AllDev \ {"RoleReplyCrash", "RoleReplyNested"}      \* /repo at HEAD
Shim1   == AllDev \ {"RoleDecodeCrash", "RoleReplyNested"}     \* HEAD + the harness supplies the role-request decoder
Shim2   == AllDev \ {"RoleDecodeCrash", "RoleReplyCrash"}      \* ... and of.ofp_vendor := of.ofp_vendor_generic
\* one deviation at a time against the intended properties (notes/X16.md, strict demonstration)
Only1 == {"RoleDecodeCrash"}
Only2 == {"RoleReplyCrash"}
Only3 == {"RoleReplyNested"}
Only4 == {"RefuseBadVendor"}
Only5 == {"SlaveSetConfig"}
Only6 == {"SlaveBarrierRefused"}
Only7 == {"ErrorReplyCrash"}
Only8 == {"AsyncToInitiator"}
Only9 == {"ClosedKeepsRole"}
Only10 == {"VendorCrash"}
====
