CONSTANTS NC = 2
  Flows <- FlowsNone
  MissLens <- Miss1
  Dev <- AsBuilt
  WithHello = TRUE
  WithPort3 = TRUE
  D = 3
INIT Init
NEXT Next
VIEW viewE
ACTION_CONSTRAINT ExportTH
CHECK_DEADLOCK FALSE
CONSTRAINT NoClose
