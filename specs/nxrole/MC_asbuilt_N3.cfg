CONSTANTS NC = 3
  Flows <- Flows2
  MissLens <- Miss1
  Dev <- AsBuilt
  WithHello = FALSE
  WithPort3 = FALSE
  D = 3
INIT Init
NEXT Next
VIEW view
INVARIANT TypeOK
INVARIANT AtMostOneMaster
PROPERTY AsyncToMaster
PROPERTY MasterDemotes
PROPERTY OnlyRoleOpsChangeRoles
PROPERTY RoleOpsAffectOnlyRequester
PROPERTY SlaveWritesRefused
PROPERTY NonSlaveNeverRefused
PROPERTY ReadsServed
PROPERTY AsyncExactlyOnce
PROPERTY AsyncOnlyToRegistered
PROPERTY RoundRobin
PROPERTY PortStatusToAll
PROPERTY HelloOnce
CHECK_DEADLOCK FALSE
