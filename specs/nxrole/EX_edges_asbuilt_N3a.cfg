CONSTANTS NC = 3
  Flows <- Flows1
  MissLens <- Miss1
  Dev <- AsBuilt
  WithHello = FALSE
  WithPort3 = FALSE
  D = 3
INIT Init
NEXT Next
VIEW viewE
ACTION_CONSTRAINT ExportTA
CHECK_DEADLOCK FALSE
