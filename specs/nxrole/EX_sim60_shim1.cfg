CONSTANTS NC = 3
  Flows <- Flows2
  MissLens <- Miss2
  Dev <- Shim1
  WithHello = TRUE
  WithPort3 = TRUE
  D = 60
INIT Init
NEXT Next
INVARIANT Export
CHECK_DEADLOCK FALSE
