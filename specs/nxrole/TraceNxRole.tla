---- MODULE TraceNxRole ----
(* Code -> spec: traces recorded from the real NXSoftwareSwitch (seeded random driver, props/X16.py:drive) must  *)
(* be behaviours of NxRole.tla; every invariant is evaluated at each matched step.  An event is                 *)
(* [a, args = [c, s, n], obs = [out, emitted, st], wf]; the spec's action for (a, args) must be enabled and     *)
(* yield exactly the logged observation.                                                                       *)
EXTENDS MCNxRole, IOUtils, TLCExt

Traces == JsonDeserialize(IOEnv.TRACE_FILE)
NT == Len(Traces)
VARIABLES tid, l
tvars == <<vars, tid, l>>

TrInit == Init /\ tid \in 1..NT /\ l = 1 /\ TLCSet(tid, 0)
Ev == Traces[tid][l]
IsEvent(e) == l <= Len(Traces[tid]) /\ Ev.a = e /\ l' = l + 1 /\ UNCHANGED tid

\* the logged observation is what the spec's step yields (sets arrive as JSON arrays)
ObsOK ==
  LET e == last'.exp  o == Ev.obs IN
  /\ Ev.wf
  /\ e.out = o.out
  /\ e.emitted = ToSet(o.emitted)
  /\ e.st.roles = o.st.roles
  /\ e.st.flows = ToSet(o.st.flows)
  /\ e.st.miss = o.st.miss /\ e.st.p2down = o.st.p2down /\ e.st.port3 = o.st.port3 /\ e.st.stuck = o.st.stuck

TrAddConnection == IsEvent("AddConnection") /\ AddConnection /\ Ev.args.c = nconn' /\ ObsOK
TrHello       == IsEvent("Hello")       /\ Hello(Ev.args.c) /\ ObsOK
TrRoleRequest == IsEvent("RoleRequest") /\ RoleRequest(Ev.args.c, Ev.args.s) /\ ObsOK
TrSetRole     == IsEvent("SetRole")     /\ SetRole(Ev.args.c, Ev.args.s) /\ ObsOK
TrFlowAdd     == IsEvent("FlowAdd")     /\ FlowAdd(Ev.args.c, Ev.args.s) /\ ObsOK
TrFlowDel     == IsEvent("FlowDel")     /\ FlowDel(Ev.args.c, Ev.args.s) /\ ObsOK
TrPacketOut   == IsEvent("PacketOut")   /\ PacketOut(Ev.args.c) /\ ObsOK
TrPortMod     == IsEvent("PortMod")     /\ PortMod(Ev.args.c, Ev.args.n = 1) /\ ObsOK
TrSetConfig   == IsEvent("SetConfig")   /\ SetConfig(Ev.args.c, Ev.args.n) /\ ObsOK
TrBarrier     == IsEvent("Barrier")     /\ Barrier(Ev.args.c) /\ ObsOK
TrRead        == IsEvent("Read")        /\ Ev.args.s \in ReadKinds /\ Read(Ev.args.c, Ev.args.s) /\ ObsOK
TrBadStats    == IsEvent("BadStats")    /\ BadStats(Ev.args.c) /\ ObsOK
TrVendor      == IsEvent("Vendor")      /\ Ev.args.s \in VendorKinds /\ Vendor(Ev.args.c, Ev.args.s) /\ ObsOK
TrRx          == IsEvent("Rx")          /\ Rx(Ev.args.s) /\ ObsOK
TrExpire      == IsEvent("Expire")      /\ Expire /\ ObsOK
TrPortEvent   == IsEvent("PortEvent")   /\ PortEvent /\ ObsOK
TrClose       == IsEvent("Close")       /\ Close(Ev.args.c) /\ ObsOK

TrNext == \/ TrAddConnection \/ TrHello \/ TrRoleRequest \/ TrSetRole \/ TrFlowAdd \/ TrFlowDel \/ TrPacketOut
          \/ TrPortMod \/ TrSetConfig \/ TrBarrier \/ TrRead \/ TrBadStats \/ TrVendor \/ TrRx \/ TrExpire \/ TrPortEvent
          \/ TrClose
TrSpec == TrInit /\ [][TrNext]_tvars

Progress == TLCSet(tid, IF TLCGet(tid) < l - 1 THEN l - 1 ELSE TLCGet(tid))
Ok(t) == TLCGet(t) = Len(Traces[t]) \/ (PrintT(<<"REJECT", t, TLCGet(t)>>) /\ FALSE)
Accepted == /\ PrintT(<<"TRACES-CHECKED", NT>>)
            /\ Cardinality({t \in 1..NT : ~Ok(t)}) = 0
====
