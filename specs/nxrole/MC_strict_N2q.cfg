CONSTANTS NC = 2
  Flows <- Flows2
  MissLens <- Miss2
  Dev <- Strict
  WithHello = FALSE
  WithPort3 = FALSE
  D = 3
INIT Init
NEXT Next
VIEW view
INVARIANT TypeOK
INVARIANT AtMostOneMaster
PROPERTY DeleteNotifiesMaster
INVARIANT NothingStale
INVARIANT ClosedReleased
PROPERTY MasterDemotes
PROPERTY OnlyRoleOpsChangeRoles
PROPERTY RoleOpsAffectOnlyRequester
PROPERTY RoleRequestAnswered
PROPERTY SlaveWritesRefused
PROPERTY SlaveWritesRefusedAll
PROPERTY RefusalIsPermissionError
PROPERTY NonSlaveNeverRefused
PROPERTY ReadsServed
PROPERTY ReadsAndBarrierServed
PROPERTY ErrorsAnswered
PROPERTY AsyncExactlyOnce
PROPERTY AsyncToMaster
PROPERTY AsyncNeverToSlave
PROPERTY AsyncOnlyToRegistered
PROPERTY RoundRobin
PROPERTY PortStatusToAll
PROPERTY RepliesOnlyToRequester
PROPERTY HelloOnce
PROPERTY NothingToClosed
CHECK_DEADLOCK FALSE
