CONSTANTS NC = 3
  Flows <- Flows2
  MissLens <- Miss2
  Dev <- Strict
  WithHello = TRUE
  WithPort3 = TRUE
  D = 0
INIT TrInit
NEXT TrNext
CONSTRAINT Progress
POSTCONDITION Accepted
INVARIANT TypeOK
INVARIANT AtMostOneMaster
PROPERTY DeleteNotifiesMaster
INVARIANT NothingStale
INVARIANT ClosedReleased
PROPERTY MasterDemotes
PROPERTY OnlyRoleOpsChangeRoles
PROPERTY RoleOpsAffectOnlyRequester
PROPERTY RoleRequestAnswered
PROPERTY SlaveWritesRefused
PROPERTY SlaveWritesRefusedAll
PROPERTY RefusalIsPermissionError
PROPERTY NonSlaveNeverRefused
PROPERTY ReadsServed
PROPERTY ReadsAndBarrierServed
PROPERTY ErrorsAnswered
PROPERTY AsyncExactlyOnce
PROPERTY AsyncToMaster
PROPERTY AsyncNeverToSlave
PROPERTY AsyncOnlyToRegistered
PROPERTY RoundRobin
PROPERTY PortStatusToAll
PROPERTY RepliesOnlyToRequester
PROPERTY HelloOnce
PROPERTY NothingToClosed
CHECK_DEADLOCK FALSE
