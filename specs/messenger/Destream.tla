---------------------------- MODULE Destream ----------------------------
(* X09 (part 1): JSON de-streaming of one messenger connection -             *)
(* pox.messenger.Connection._rx_raw.                                         *)
(*                                                                          *)
(* A client writes a concatenation of JSON objects, optionally separated by *)
(* whitespace; the transport hands the byte stream to _rx_raw in chunks cut  *)
(* at ARBITRARY positions.  The code keeps the undigested rest in `_buf`,    *)
(* strips whitespace in front of it, and repeatedly asks the JSON decoder    *)
(* for one value at the start of the buffer (`raw_decode`): failure means    *)
(* "wait for more data", success removes the text of the value and           *)
(* dispatches it (`_rx_message`).                                            *)
(*                                                                          *)
(* The spec sees a character as its CLASS - "{" "}" "q" (double quote) "e"   *)
(* (backslash) "w" (whitespace) "c" (anything else) - which is all the       *)
(* framing of objects depends on, and tags every character with the message  *)
(* of the stream it belongs to (m = 1, 2, ...; 0 = separator).  The tags are *)
(* the ground truth the properties talk about; the code-shaped part (`Scan`, *)
(* `Extract`, `Rx`) never looks at them except to name what it extracted.    *)
(* So TLC checks the scanner against the ground truth, and the replay /      *)
(* trace validation check the real decoder against the scanner.              *)
EXTENDS Naturals, Sequences, FiniteSets, TLC, Json, SequencesExt

CONSTANTS Shapes,     \* [message id -> sequence of character classes]: the texts clients send
          Streams,    \* the streams explored: sequences of message ids and "_" (one whitespace character)
          MaxChunk,   \* longest chunk delivered at once
          D           \* export bound (number of chunks)

VARIABLES stream,     \* the items the client writes (fixed by Init)
          wire,       \* the same as a sequence of characters [cl, m]
          pos,        \* characters handed to _rx_raw so far
          buf,        \* Connection._buf
          out,        \* messages dispatched so far (their index in the stream; 0 = not a message of the stream)
          last, hist
vars == <<stream, wire, pos, buf, out, last, hist>>
view == <<stream, pos, buf, out, last>>
viewE == <<stream, pos, buf, out>>

RECURSIVE WireOf(_, _)
WireOf(items, k) ==
  IF items = <<>> THEN <<>>
  ELSE IF Head(items) = "_" THEN <<[cl |-> "w", m |-> 0]>> \o WireOf(Tail(items), k)
  ELSE [i \in 1..Len(Shapes[Head(items)]) |-> [cl |-> Shapes[Head(items)][i], m |-> k]] \o WireOf(Tail(items), k + 1)
MsgIds == SelectSeq(stream, LAMBDA it : it # "_")
NMsgs == Len(MsgIds)

----------------------------------------------------------------------------
(* the code *)

\* str.lstrip()
RECURSIVE LStrip(_)
LStrip(s) == IF s # <<>> /\ s[1].cl = "w" THEN LStrip(Tail(s)) ELSE s

\* json.JSONDecoder.raw_decode on a buffer: the length of the JSON object that starts at the first character,
\* 0 when there is none (the decoder raises: no value starts here, or the text ends inside the object)
RECURSIVE ScanFrom(_, _, _, _, _)
ScanFrom(s, i, depth, instr, esc) ==
  IF i > Len(s) THEN 0
  ELSE LET cl == s[i].cl IN
       IF instr
       THEN IF esc THEN ScanFrom(s, i + 1, depth, TRUE, FALSE)                  \* the character after a backslash
            ELSE IF cl = "e" THEN ScanFrom(s, i + 1, depth, TRUE, TRUE)
            ELSE IF cl = "q" THEN ScanFrom(s, i + 1, depth, FALSE, FALSE)       \* the string ends
            ELSE ScanFrom(s, i + 1, depth, TRUE, FALSE)                         \* braces in a string are text
       ELSE IF cl = "q" THEN ScanFrom(s, i + 1, depth, TRUE, FALSE)
            ELSE IF cl = "{" THEN ScanFrom(s, i + 1, depth + 1, FALSE, FALSE)
            ELSE IF cl = "}" THEN (IF depth = 1 THEN i ELSE ScanFrom(s, i + 1, depth - 1, FALSE, FALSE))
            ELSE ScanFrom(s, i + 1, depth, FALSE, FALSE)
Scan(s) == IF s = <<>> \/ s[1].cl # "{" THEN 0 ELSE ScanFrom(s, 1, 0, FALSE, FALSE)

\* which message of the stream a piece of text is: all of its characters, nothing else
MsgOf(u) == LET k == u[1].m IN
            IF k # 0 /\ u = SelectSeq(wire, LAMBDA x : x.m = k) THEN k ELSE 0

\* the `while len(self._buf) > 0:` loop
RECURSIVE Extract(_, _)
Extract(b, acc) ==
  LET L == Scan(b) IN
  IF L = 0 THEN [buf |-> b, msgs |-> acc]
  ELSE LET rest == SubSeq(b, L + 1, Len(b)) IN
       Extract(IF rest # <<>> /\ rest[1].cl = "w" THEN LStrip(rest) ELSE rest,
               Append(acc, MsgOf(SubSeq(b, 1, L))))

NoObs == [a |-> "Init", args |-> [x |-> 0], exp |-> [x |-> 0]]
Log(a, args, exp) ==
  /\ last' = [a |-> a, args |-> args, exp |-> exp]
  /\ hist' = Append(hist, [a |-> a, args |-> args, exp |-> exp])

InitWith(s) ==
  /\ stream = s /\ wire = WireOf(s, 1)
  /\ pos = 0 /\ buf = <<>> /\ out = <<>>
  /\ last = [a |-> "Stream", args |-> [items |-> s], exp |-> [x |-> 0]]
  /\ hist = <<[a |-> "Stream", args |-> [items |-> s], exp |-> [x |-> 0]]>>
Init == \E s \in Streams : InitWith(s)

Name(i) == IF i = 0 THEN "?" ELSE MsgIds[i]

\* _rx_raw(data) with the next k characters of the stream
Rx(k) ==
  /\ pos + k <= Len(wire)
  /\ LET chunk == SubSeq(wire, pos + 1, pos + k)
         b0 == IF buf = <<>> THEN (IF chunk[1].cl = "w" THEN LStrip(chunk) ELSE chunk) ELSE buf \o chunk
         r == Extract(b0, <<>>)
     IN /\ buf' = r.buf
        /\ out' = out \o r.msgs
        /\ pos' = pos + k
        /\ Log("Rx", [k |-> k, cls |-> [i \in 1..k |-> chunk[i].cl]],
               [msgs |-> [i \in 1..Len(r.msgs) |-> Name(r.msgs[i])], buf |-> Len(r.buf)])
  /\ UNCHANGED <<stream, wire>>

Next == \E k \in 1..MaxChunk : Rx(k)
Spec == Init /\ [][Next]_vars

----------------------------------------------------------------------------
(* the property, in terms of the ground truth *)

EndOf(k) == IF k = 0 THEN 0 ELSE CHOOSE i \in 1..Len(wire) : wire[i].m = k /\ \A j \in (i + 1)..Len(wire) : wire[j].m # k
TypeOK == pos \in 0..Len(wire) /\ out \in Seq(0..NMsgs)
\* exactly the objects of the stream, in order, once each ...
InOrderOnce == out = [i \in 1..Len(out) |-> i]
\* ... each one in the very step that delivers its last character: never early, never late
ExactlyTheComplete == Len(out) = Cardinality({k \in 1..NMsgs : EndOf(k) <= pos})
\* the buffer is what came after the last dispatched object, separator whitespace dropped
BufIsRest == InOrderOnce => buf = LStrip(SubSeq(wire, EndOf(Len(out)) + 1, pos))
AllDelivered == (pos = Len(wire)) => (Len(out) = NMsgs /\ buf = <<>>)

\* ---- export
Bound == Len(hist) <= D + 1
ExportT == PrintT(<<"T", ToJson(hist')>>)
\* all splits into at most D chunks: printed when the stream is used up
ExportDone == (pos = Len(wire)) => PrintT(<<"H", ToJson(hist)>>)
\* simulation: a behaviour is printed when it ends (stream used up)
=============================================================================
