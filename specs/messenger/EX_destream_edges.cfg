CONSTANTS
  Shapes <- MCShapes
  Streams <- MCAll
  MaxChunk = 100
  D = 0
INIT Init
NEXT Next
VIEW viewE
ACTION_CONSTRAINT ExportT
CHECK_DEADLOCK FALSE
