CONSTANTS
  NC = 3
  Names <- Names2
  NameSeq <- NameSeq2
  Draws <- Draws2
  Watched <- Watched2
  Kind = "tcp"
  Dev <- DevRest
  Batches <- BatchesT2
  MaxBots = 1
  SendModes <- SendModes2
  D = 0
INIT TrInit
NEXT TrNext
CONSTRAINT Progress
POSTCONDITION Accepted
INVARIANT TypeOK
INVARIANT MembersLive
INVARIANT TempNeedsMembers
INVARIANT SessionsUnique
INVARIANT TransportForgets
CHECK_DEADLOCK FALSE
