---------------------------- MODULE Messenger ----------------------------
(* X09 (part 2): pox.messenger - sessions, channels, membership, the default *)
(* channel's bot commands, ChannelBot hooks, closing; and the TCP transport  *)
(* (pox/messenger/tcp_transport.py) that carries it.                         *)
(*                                                                          *)
(* Abstract state = what the code holds: the nexus registry `_channels`      *)
(* (name -> temporary?, member connections, bots listening on it), the       *)
(* session counter, per connection `_is_connected`, `_newlines`, the set of  *)
(* connections the transport remembers, the listener.  One action per entry  *)
(* point: a client connects (Open), the transport hands the connection a     *)
(* chunk holding one or more complete JSON objects (Rx), the peer goes away  *)
(* (PeerClose), the server closes / sends (Close, ChanSend, ConSend), the    *)
(* socket starts refusing writes (SetSend).  What one entry point does is    *)
(* written as the same chain of calls as the code (Dispatch -> default bot   *)
(* command -> _add_member/_remove_member -> _destroy; send -> send_raw ->    *)
(* _close) over a machine record, because a call may re-enter (a reply that  *)
(* cannot be written closes the connection, which leaves its channels,       *)
(* which destroys a temporary channel ... in the middle of a command).       *)
(*                                                                          *)
(* Every step logs what an observer sees: the events raised (on the nexus N, *)
(* on Channel objects H, on connections C, hooks of an invited bot B) in     *)
(* order, what each connection was sent, the registry, connection states.    *)
(*                                                                          *)
(* DEVIATIONS of the pinned code from its documented intent are named and    *)
(* switched by `Dev` (see notes/X09.md "Defects observed"); Dev = {} is the  *)
(* design.  D0-D3 make the TCP transport unusable under Python 3; the        *)
(* harness can neutralise each of them so that the rest is reachable.        *)
(*   D0 TCPTransport.run: Select([listener]) raises, the listener dies       *)
(*   D1 generate_session raises TypeError: no Connection can be constructed  *)
(*   D2 TCPConnection.send_raw hands str to socket.send: the welcome fails   *)
(*      and the connection closes itself inside its constructor              *)
(*   D3 _rx_raw(bytes): data[0].isspace() raises, the connection's task dies *)
(*   D4 _gen_channel_name tests the number, not the name: no collision check *)
(*   D5 leave_channel CREATES a missing channel (permanent)                  *)
(*   D6 the nexus' ChannelDestroy is skipped unless somebody listens for     *)
(*      ChannelDestroy on the channel itself                                 *)
(*   D8 _rx_raw keeps dispatching buffered messages of a closed connection   *)
EXTENDS Naturals, Sequences, FiniteSets, TLC, Json, SequencesExt

CONSTANTS NC,         \* connections 1..NC
          Names,      \* channel names clients name in commands
          NameSeq,    \* every name that can exist, in the order Python sorts strings (concretisation order)
          Draws,      \* numbers random.randint may produce (channel "temp_<n>")
          Watched,    \* names of channels on which somebody listens for ChannelDestroy (D6)
          Kind,       \* "mem" (a stream transport without sockets) | "tcp"
          Dev,        \* deviations switched on
          Batches,    \* the chunks clients send: sequences of messages [k, n, r1, r2]
          MaxBots,    \* invitations per channel
          SendModes,  \* socket write failures that can be injected ("err", "short")
          D

Conns == 1..NC
GenName(r) == "temp_" \o ToString(r)
AllNames == {NameSeq[i] : i \in DOMAIN NameSeq}
NoChan == [ex |-> FALSE, temp |-> FALSE, mem |-> {}, virgin |-> FALSE, bots |-> 0]
Has(d) == d \in Dev

VARIABLES lsn,        \* the TCP listener: "none" | "listening" | "dead"
          cst,        \* connection: "none" | "open" | "stuck" (connected, its task dead: D3) | "closed" | "failed" (D1)
          ses,        \* session number of a connection (0 = none)
          nextSes,    \* MessengerNexus._next_ses
          nl,         \* Connection._newlines
          bad,        \* what the connection's socket does to writes: "ok" | "err" | "short"
          tmem,       \* connections the transport remembers (TCPTransport._connections)
          chan,       \* the registry: [name -> [ex, temp, mem, virgin, bots]]
          last, hist
vars == <<lsn, cst, ses, nextSes, nl, bad, tmem, chan, last, hist>>
view == <<lsn, cst, ses, nextSes, nl, bad, tmem, chan, last>>
viewE == <<lsn, cst, ses, nextSes, nl, bad, tmem, chan>>

Tag(m) == m.k \o ":" \o m.n
AddrOf(m) == IF m.k \in {"say", "odd"} THEN m.n ELSE ""        \* the CHANNEL key of the message
Ev(e, on, ch, c, m) == [e |-> e, on |-> on, ch |-> ch, c |-> c, m |-> m]
Out(ch, k, v, x) == [ch |-> ch, k |-> k, v |-> v, x |-> x]

----------------------------------------------------------------------------
(* the machine record a step works on: S.chan .cst .nl .bad .tmem, and what  *)
(* the step produced so far: .ev (events in order), .out (per connection),   *)
(* .shut (sockets shut down)                                                 *)
AddEv(S, e) == [S EXCEPT !.ev = Append(@, e)]
RECURSIVE Rep(_, _, _)
Rep(S, k, e) == IF k = 0 THEN S ELSE Rep(AddEv(S, e), k - 1, e)
Connected(S, c) == S.cst[c] \in {"open", "stuck"}

\* Channel._destroy (members are gone when it is reached from _remove_member)
DoDestroy(S, n) ==
  LET b == S.chan[n].bots
      w == n \in Watched
      S1 == IF w THEN AddEv(S, Ev("ChannelDestroy", "H", n, 0, "-")) ELSE S
      \* documented: "Fired on the channel and its Nexus right before a channel is destroyed".  D6: raiseEvent
      \* returns None when the channel has no ChannelDestroy handler, and `if e:` then skips the nexus
      S2 == IF w \/ ~Has("D6") THEN AddEv(S1, Ev("ChannelDestroy", "N", n, 0, "-")) ELSE S1
      S3 == [S2 EXCEPT !.chan[n] = NoChan]
      S4 == AddEv(S3, Ev("ChannelDestroyed", "H", n, 0, "-"))
      S5 == Rep(S4, b, Ev("bot_destroyed", "B", n, 0, "-"))
  IN AddEv(S5, Ev("ChannelDestroyed", "N", n, 0, "-"))

\* Channel._remove_member
DoRemove(S, n, c) ==
  IF ~S.chan[n].ex \/ c \notin S.chan[n].mem THEN S
  ELSE LET S1 == [S EXCEPT !.chan[n].mem = @ \ {c}]
           S2 == AddEv(S1, Ev("ChannelLeave", "H", n, c, "-"))
           S3 == Rep(S2, S2.chan[n].bots,
                     Ev("bot_leave", "B", n, c, IF S2.chan[n].mem = {} THEN "empty" ELSE "nonempty"))
       IN IF S3.chan[n].temp /\ S3.chan[n].mem = {} THEN DoDestroy(S3, n) ELSE S3

RECURSIVE RemoveFromAll(_, _, _)
RemoveFromAll(S, c, ns) ==
  IF ns = <<>> THEN S ELSE RemoveFromAll(DoRemove(S, Head(ns), c), c, Tail(ns))

\* Connection._close (TCPConnection._close also shuts the socket down)
DoClose(S, c) ==
  IF ~Connected(S, c) THEN S
  ELSE LET S1 == [S EXCEPT !.tmem = @ \ {c}, !.cst[c] = "closed", !.bad[c] = "ok", !.nl[c] = FALSE,
                           !.shut = IF Kind = "tcp" THEN @ \cup {c} ELSE @]
       IN AddEv(RemoveFromAll(S1, c, NameSeq), Ev("ConnectionClosed", "C", "-", c, "-"))

\* Connection.send -> send_raw.  TCP: a write the socket refuses or takes only part of closes the connection.
DoSend(S, c, o) ==
  IF ~Connected(S, c) THEN S
  ELSE IF S.bad[c] # "ok" THEN DoClose(S, c)
  ELSE [S EXCEPT !.out[c] = Append(@, [ch |-> o.ch, k |-> o.k, v |-> o.v, x |-> o.x, nl |-> S.nl[c]])]

\* Channel.send: every connected member (the code walks a copy of the member set)
RECURSIVE SendAll(_, _, _)
SendAll(S, cs, o) == IF cs = <<>> THEN S ELSE SendAll(DoSend(S, Head(cs), o), Tail(cs), o)
ChanSend(S, n, o) == SendAll(S, SetToSortSeq(S.chan[n].mem, <), o)

\* nexus.get_channel(name, create=True, temporary=t)
Ensure(S, n, t) ==
  IF S.chan[n].ex THEN S
  ELSE AddEv([S EXCEPT !.chan[n] = [ex |-> TRUE, temp |-> t, mem |-> {}, virgin |-> TRUE, bots |-> 0]],
             Ev("ChannelCreate", "N", n, 0, "-"))

\* an invited bot greets: ChannelBot._join -> bot.send -> Channel.send
RECURSIVE BotsJoin(_, _, _, _)
BotsJoin(S, n, c, k) ==
  IF k = 0 \/ ~S.chan[n].ex THEN S
  ELSE BotsJoin(ChanSend(AddEv(S, Ev("bot_join", "B", n, c, "-")), n, Out(n, "joined", "c" \o ToString(c), 0)),
                n, c, k - 1)

\* Channel._add_member
DoAdd(S, n, c) ==
  IF c \in S.chan[n].mem THEN S
  ELSE LET S1 == [S EXCEPT !.chan[n].mem = @ \cup {c}, !.chan[n].virgin = FALSE]
       IN BotsJoin(AddEv(S1, Ev("ChannelJoin", "H", n, c, "-")), n, c, S1.chan[n].bots)

\* DefaultChannelBot._gen_channel_name: draws until the name is free - D4: the test never fails
NewName(S, m) == IF Has("D4") \/ ~S.chan[GenName(m.r1)].ex THEN GenName(m.r1) ELSE GenName(m.r2)
\* bounds of the model, not of the code: a scripted second draw must be free; at most MaxBots invitations per channel
NameOK(S, m) == /\ (m.k \in {"new", "invite", "invitex"} /\ m.n = "-") =>
                     (Has("D4") \/ ~S.chan[GenName(m.r1)].ex \/ (m.r2 # 0 /\ ~S.chan[GenName(m.r2)].ex))
                /\ m.k = "invite" => S.chan[IF m.n = "-" THEN NewName(S, m) ELSE m.n].bots < MaxBots

\* the commands of the default channel's bot (DefaultChannelBot._exec_cmd_*, _exec_test, _exec_newlines_*)
Command(S, c, m) ==
  CASE m.k = "join"   -> DoAdd(Ensure(S, m.n, TRUE), m.n, c)
    [] m.k = "joinp"  -> DoAdd(Ensure(S, m.n, FALSE), m.n, c)                 \* "temporary": false
    [] m.k = "leave"  -> IF Has("D5") THEN DoRemove(Ensure(S, m.n, FALSE), m.n, c)   \* get_channel(name) creates
                         ELSE DoRemove(S, m.n, c)
    [] m.k = "new"    -> LET n == NewName(S, m) IN
                         DoSend(DoAdd(Ensure(S, n, TRUE), n, c), c, Out("", "new_channel", n, 9))
    [] m.k = "invite" -> LET n == IF m.n = "-" THEN NewName(S, m) ELSE m.n
                             S1 == Ensure(S, n, TRUE)
                             S2 == [S1 EXCEPT !.chan[n].bots = @ + 1]
                         IN IF m.n = "-" THEN DoSend(S2, c, Out("", "new_channel", "TRUE", 0)) ELSE S2
    [] m.k = "invitex" -> Ensure(S, IF m.n = "-" THEN NewName(S, m) ELSE m.n, TRUE)   \* unknown bot: channel made, no bot
    [] m.k = "test"   -> DoSend(S, c, Out("", "test", "ABC", 3))
    [] m.k = "nlon"   -> [S EXCEPT !.nl[c] = TRUE]
    [] m.k = "nloff"  -> [S EXCEPT !.nl[c] = FALSE]
    [] OTHER          -> S                                                    \* "bogus": logged, ignored

\* what the bots invited to channel n do with a message
RECURSIVE BotsMsg(_, _, _, _, _)
BotsMsg(S, n, c, m, k) ==
  IF k = 0 THEN S
  ELSE BotsMsg(IF m.k = "say" THEN DoSend(S, c, Out(n, "msg", "hi", 5))
               ELSE AddEv(S, Ev("bot_unhandled", "B", n, c, Tag(m))), n, c, m, k - 1)

\* Connection._rx_message -> MessengerNexus._rx_message
Dispatch(S, c, m) ==
  LET a == AddrOf(m)
      S1 == AddEv(S, Ev("MessageReceived", "C", "-", c, Tag(m)))              \* always on the connection itself
  IN IF ~S1.chan[a].ex THEN AddEv(S1, Ev("MissingChannel", "N", a, c, Tag(m)))
     ELSE IF a = "" THEN AddEv(Command(S1, c, m), Ev("MessageReceived", "H", "", c, Tag(m)))
     ELSE BotsMsg(AddEv(S1, Ev("MessageReceived", "H", a, c, Tag(m))), a, c, m, S1.chan[a].bots)

\* the loop of _rx_raw over the complete objects of one chunk.  Intent (TCPConnection.run: `while
\* self.is_connected`): a closed connection processes nothing more.  D8: the loop goes on.
RECURSIVE RxSeq(_, _, _)
RxSeq(S, c, ms) ==
  IF ms = <<>> THEN S
  ELSE IF ~Connected(S, c) /\ ~Has("D8") THEN S
  ELSE RxSeq(Dispatch(S, c, Head(ms)), c, Tail(ms))
RECURSIVE NamesOK(_, _, _)
NamesOK(S, c, ms) == IF ms = <<>> THEN TRUE
                     ELSE IF NameOK(S, Head(ms)) THEN NamesOK(Dispatch(S, c, Head(ms)), c, Tail(ms)) ELSE FALSE

----------------------------------------------------------------------------
S0 == [chan |-> chan, cst |-> cst, nl |-> nl, bad |-> bad, tmem |-> tmem,
       ev |-> <<>>, out |-> [c \in Conns |-> <<>>], shut |-> {}]
Proj(ch) == {[n |-> n, t |-> ch[n].temp, m |-> ch[n].mem] : n \in {x \in AllNames : ch[x].ex}}
NoObs == [a |-> "Init", args |-> [x |-> 0],
          exp |-> [ev |-> <<>>, out |-> [c \in Conns |-> <<>>], chans |-> {}, cst |-> [c \in Conns |-> "none"],
                   tmem |-> {}, shut |-> {}, lsn |-> "none", r |-> "-"]]
Log(a, args, exp) ==
  /\ last' = [a |-> a, args |-> args, exp |-> exp]
  /\ hist' = Append(hist, [a |-> a, args |-> args, exp |-> exp])
\* commit a machine record
Commit(a, args, S, l, r) ==
  /\ chan' = S.chan /\ cst' = S.cst /\ nl' = S.nl /\ bad' = S.bad /\ tmem' = S.tmem /\ lsn' = l
  /\ Log(a, args, [ev |-> S.ev, out |-> S.out, chans |-> Proj(S.chan), cst |-> S.cst, tmem |-> S.tmem,
                   shut |-> S.shut, lsn |-> l, r |-> r])

Init == /\ lsn = IF Kind = "tcp" THEN "none" ELSE "listening"
        /\ cst = [c \in Conns |-> "none"] /\ ses = [c \in Conns |-> 0] /\ nextSes = 1
        /\ nl = [c \in Conns |-> FALSE] /\ bad = [c \in Conns |-> "ok"] /\ tmem = {}
        /\ chan = [n \in AllNames |-> IF n = "" THEN [ex |-> TRUE, temp |-> FALSE, mem |-> {}, virgin |-> TRUE, bots |-> 0]
                                      ELSE NoChan]
        /\ last = NoObs /\ hist = <<>>

\* TCPTransport.run reaches its accept loop
Listen ==
  /\ Kind = "tcp" /\ lsn = "none"
  /\ UNCHANGED <<ses, nextSes>>
  /\ IF Has("D0") THEN Commit("Listen", [x |-> 0], S0, "dead", "IndexError")      \* DEVIATION D0
     ELSE Commit("Listen", [x |-> 0], S0, "listening", "-")

\* a client connects: the transport constructs the connection (session id; a TCPConnection sends the welcome
\* from its constructor), remembers it, registers the session with the nexus (ConnectionOpened), starts its task
Welcome == Out("", "welcome", "sid-ok", 0)
Open(c) ==
  /\ lsn = "listening" /\ cst[c] = "none"
  /\ \A d \in Conns : d < c => cst[d] # "none"         \* connections are numbered in the order they arrive
  /\ nextSes' = nextSes + 1
  /\ IF Has("D1")
     THEN \* DEVIATION D1: generate_session raises; the accept loop's `except:` ends the listener
          /\ ses' = ses
          /\ Commit("Open", [c |-> c], [S0 EXCEPT !.cst[c] = "failed"], IF Kind = "tcp" THEN "dead" ELSE lsn, "TypeError")
     ELSE /\ ses' = [ses EXCEPT ![c] = nextSes]
          /\ IF Kind = "tcp" /\ Has("D2")
             THEN \* DEVIATION D2: the welcome cannot be written: _close() inside the constructor, before anybody
                  \* can listen for ConnectionClosed and before the transport remembers the connection (so
                  \* _forget finds nothing and the dead connection stays in _connections for good)
                  Commit("Open", [c |-> c],
                         AddEv([S0 EXCEPT !.cst[c] = "closed", !.tmem = @ \cup {c}, !.shut = {c}],
                               Ev("ConnectionOpened", "N", "-", c, "-")),
                         lsn, "ses:" \o ToString(nextSes))
             ELSE Commit("Open", [c |-> c],
                         DoSend(AddEv([S0 EXCEPT !.cst[c] = "open", !.tmem = @ \cup {c}],
                                      Ev("ConnectionOpened", "N", "-", c, "-")), c, Welcome),
                         lsn, "ses:" \o ToString(nextSes))

\* the transport hands the connection a chunk in which the JSON objects ms end
RxBody(c, ms) ==
  /\ cst[c] = "open"
  /\ UNCHANGED <<ses, nextSes>>
  /\ IF Kind = "tcp" /\ Has("D3")
     THEN \* DEVIATION D3: bytes from the socket: AttributeError out of _rx_raw, the task is de-scheduled, the
          \* connection stays "connected" and is never closed
          Commit("Rx", [c |-> c, ms |-> ms], [S0 EXCEPT !.cst[c] = "stuck"], lsn, "AttributeError")
     ELSE /\ NamesOK(S0, c, ms)
          /\ Commit("Rx", [c |-> c, ms |-> ms], RxSeq(S0, c, ms), lsn, "-")

Rx(c, ms) == ms \in Batches /\ RxBody(c, ms)

\* the peer closes or the socket fails: the receive loop ends and closes the connection
PeerClose(c, how) ==
  /\ Kind = "tcp" /\ cst[c] = "open" /\ how \in {"eof", "err"}
  /\ UNCHANGED <<ses, nextSes>>
  /\ Commit("PeerClose", [c |-> c, how |-> how], DoClose(S0, c), lsn, "-")

\* the server closes a connection (Connection.close()); a second close does nothing
Close(c) ==
  /\ cst[c] \in {"open", "stuck", "closed"}
  /\ UNCHANGED <<ses, nextSes>>
  /\ Commit("Close", [c |-> c], DoClose(S0, c), lsn, "-")

\* the server sends on a channel / to one connection
ChanSendAct(n) ==
  /\ n \in AllNames
  /\ UNCHANGED <<ses, nextSes>>
  /\ IF chan[n].ex THEN Commit("ChanSend", [n |-> n], ChanSend(S0, n, Out(n, "hello", "x", 0)), lsn, "sent")
     ELSE Commit("ChanSend", [n |-> n], S0, lsn, "nochan")
ConSendAct(c) ==
  /\ cst[c] \in {"open", "stuck", "closed"}
  /\ UNCHANGED <<ses, nextSes>>
  /\ Commit("ConSend", [c |-> c], DoSend(S0, c, Out("<absent>", "note", "x", 0)), lsn,
            IF Connected(S0, c) THEN "TRUE" ELSE "FALSE")

\* the socket of a TCP connection starts / stops refusing writes (at most one at a time: the order in which
\* Channel.send walks its member SET is not fixed, so two failing members would make the event order open)
SetSend(c, mode) ==
  /\ Kind = "tcp" /\ cst[c] \in {"open", "stuck"}
  /\ \/ mode \in SendModes /\ \A d \in Conns : bad[d] = "ok"
     \/ mode = "ok" /\ bad[c] # "ok"
  /\ UNCHANGED <<ses, nextSes>>
  /\ Commit("SetSend", [c |-> c, mode |-> mode], [S0 EXCEPT !.bad[c] = mode], lsn, "-")

RxAny == \E c \in Conns, ms \in Batches : Rx(c, ms)
PeerCloseAny == \E c \in Conns, how \in {"eof", "err"} : PeerClose(c, how)
SetSendAny == \E c \in Conns, mode \in SendModes \cup {"ok"} : SetSend(c, mode)
Next == \/ Listen
        \/ \E c \in Conns : Open(c)
        \/ RxAny
        \/ PeerCloseAny
        \/ \E c \in Conns : Close(c)
        \/ \E n \in AllNames : ChanSendAct(n)
        \/ \E c \in Conns : ConSendAct(c)
        \/ SetSendAny
Spec == Init /\ [][Next]_vars

----------------------------------------------------------------------------
(* Properties, over the registry / connection variables and the observation  *)
(* of the step.  A property that a deviation breaks is stated for the design *)
(* (`~Has(..) =>`): with Dev = {} all of them are checked unconditionally.   *)

Live == {c \in Conns : cst[c] \in {"open", "stuck"}}
TypeOK == /\ cst \in [Conns -> {"none", "open", "stuck", "closed", "failed"}]
          /\ \A n \in AllNames : chan[n].mem \subseteq Conns /\ chan[n].bots \in 0..MaxBots
          /\ chan[""].ex /\ ~chan[""].temp
          /\ \A n \in AllNames : ~chan[n].ex => chan[n] = NoChan
\* closing a connection removes it from every channel
MembersLive == ~Has("D8") => \A n \in AllNames : chan[n].mem \subseteq Live
\* a temporary channel lives only as long as it has members (or nobody has joined it yet: invite)
TempNeedsMembers == \A n \in AllNames : (chan[n].ex /\ chan[n].temp /\ chan[n].mem = {}) => chan[n].virgin
\* session ids are unique among live sessions (and never reused)
SessionsUnique == /\ \A c, d \in Conns : (c # d /\ ses[c] # 0 /\ ses[d] # 0) => ses[c] # ses[d]
                  /\ \A c \in Conns : ses[c] < nextSes /\ (cst[c] \in {"open", "stuck", "closed"} => ses[c] # 0)
\* the transport remembers exactly the live connections
TransportForgets == ~Has("D2") => tmem = Live

Count(ev, e, on, n, c) == Cardinality({i \in DOMAIN ev : ev[i].e = e /\ ev[i].on = on /\ ev[i].ch = n /\ ev[i].c = c})
B2N(b) == IF b THEN 1 ELSE 0
\* join / leave change membership exactly once and raise ChannelJoin / ChannelLeave once per change
JoinLeaveOnce ==
  [][\A n \in AllNames, c \in Conns :
       LET ev == last'.exp.ev
           j == Count(ev, "ChannelJoin", "H", n, c)
           l == Count(ev, "ChannelLeave", "H", n, c) IN
       /\ j + B2N(c \in chan[n].mem) = l + B2N(c \in chan'[n].mem)
       /\ j <= 1 + l /\ l <= 1 + j]_vars
\* a channel is created / destroyed once per change of its existence; only a temporary channel without members is
\* destroyed; a permanent one stays
DestroyOnce ==
  [][\A n \in AllNames :
       LET ev == last'.exp.ev
           cr == Count(ev, "ChannelCreate", "N", n, 0)
           de == Count(ev, "ChannelDestroyed", "H", n, 0) IN
       /\ cr + B2N(chan[n].ex) = de + B2N(chan'[n].ex)
       /\ de = Count(ev, "ChannelDestroyed", "N", n, 0)
       /\ (chan[n].ex /\ ~chan[n].temp) => (chan'[n].ex /\ ~chan'[n].temp /\ de = 0)
       /\ (~Has("D6")) => Count(ev, "ChannelDestroy", "N", n, 0) = de]_vars
\* ConnectionClosed exactly once, when the connection closes; closed is final; nothing is sent to a closed connection
ClosedOnce ==
  [][\A c \in Conns :
       /\ Count(last'.exp.ev, "ConnectionClosed", "C", "-", c) = B2N(cst[c] \in {"open", "stuck"} /\ cst'[c] = "closed")
       /\ cst[c] = "closed" => (cst'[c] = "closed" /\ last'.exp.out[c] = <<>>)
       /\ cst[c] \in {"none", "failed"} /\ last'.a # "Open" => last'.exp.out[c] = <<>>]_vars
\* a message is delivered to the listeners of exactly the channel it names, once, if that channel exists - else
\* MissingChannel once; and always once on the connection itself
DeliveredToItsChannel ==
  [][(last'.a = "Rx" /\ Len(last'.args.ms) = 1 /\ last'.exp.r = "-") =>
       LET m == last'.args.ms[1]
           ev == last'.exp.ev
           c == last'.args.c
           onH == {i \in DOMAIN ev : ev[i].e = "MessageReceived" /\ ev[i].on = "H"}
           miss == {i \in DOMAIN ev : ev[i].e = "MissingChannel"} IN
       /\ Cardinality({i \in DOMAIN ev : ev[i].e = "MessageReceived" /\ ev[i].on = "C" /\ ev[i].c = c /\ ev[i].m = Tag(m)}) = 1
       /\ IF chan[AddrOf(m)].ex
          THEN miss = {} /\ Cardinality(onH) = 1 /\ \A i \in onH : ev[i].ch = AddrOf(m) /\ ev[i].c = c /\ ev[i].m = Tag(m)
          ELSE onH = {} /\ Cardinality(miss) = 1 /\ \A i \in miss : ev[i].ch = AddrOf(m)]_vars
\* only a join / new_channel / invite makes a channel: a leave never does
LeaveNeverCreates ==
  [][(~Has("D5") /\ last'.a = "Rx" /\ \A i \in DOMAIN last'.args.ms : last'.args.ms[i].k = "leave") =>
       \A n \in AllNames : chan'[n].ex => chan[n].ex]_vars
\* new_channel makes a NEW channel: its only member is the requester
NewChannelIsNew ==
  [][(~Has("D4") /\ last'.a = "Rx" /\ Len(last'.args.ms) = 1 /\ last'.args.ms[1].k = "new") =>
       \A n \in AllNames : (chan[n].ex => chan'[n].mem \subseteq chan[n].mem)]_vars
\* while the design holds, a client can always connect
ListenerStaysUp == [][lsn = "listening" /\ ~Has("D1") => lsn' = "listening"]_vars

\* ---- the same, unconditional: what the DESIGN promises.  Checked with Dev = {} (STRICT_MC_*.cfg: all hold) and
\* against the behaviour of the pinned code (ACTUAL_MC_*.cfg: TLC shows how each deviation breaks its property)
MembersLiveS == \A n \in AllNames : chan[n].mem \subseteq Live                                       \* D8
TransportForgetsS == tmem = Live                                                                     \* D2
TaskNeverDiesS == \A c \in Conns : cst[c] # "stuck"                                                  \* D3
LeaveNeverCreatesS ==                                                                                \* D5
  [][(last'.a = "Rx" /\ \A i \in DOMAIN last'.args.ms : last'.args.ms[i].k = "leave") =>
       \A n \in AllNames : chan'[n].ex => chan[n].ex]_vars
NewChannelIsNewS ==                                                                                  \* D4
  [][(last'.a = "Rx" /\ Len(last'.args.ms) = 1 /\ last'.args.ms[1].k = "new") =>
       \A n \in AllNames : (chan[n].ex => chan'[n].mem \subseteq chan[n].mem)]_vars
NexusSeesDestroyS ==                                                                                 \* D6
  [][\A n \in AllNames : Count(last'.exp.ev, "ChannelDestroy", "N", n, 0) =
                          Count(last'.exp.ev, "ChannelDestroyed", "N", n, 0)]_vars
ListenerComesUpS == [][last'.a = "Listen" => lsn' = "listening"]_vars                                \* D0
ClientsCanConnectS == [][last'.a = "Open" => (cst'[last'.args.c] = "open" /\ lsn' = "listening")]_vars  \* D1, D2

\* ---- export
Bound == Len(hist) <= D
Export == (Len(hist) = D) => PrintT(<<"H", ToJson(hist)>>)
ExportT == PrintT(<<"T", ToJson(hist')>>)
=============================================================================
