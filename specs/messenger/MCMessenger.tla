---- MODULE MCMessenger ----
EXTENDS Messenger
M(k, n) == [k |-> k, n |-> n, r1 |-> 0, r2 |-> 0]
G(k, r1, r2) == [k |-> k, n |-> "-", r1 |-> r1, r2 |-> r2]
Singles(S) == {<<m>> : m \in S}
AllDevs == {"D0", "D1", "D2", "D3", "D4", "D5", "D6", "D8"}
\* the deviations that are left once the harness has neutralised D0-D3 (the state of the pinned tree as the
\* bulk of the check sees it)
DevRest == {"D4", "D5", "D6", "D8"}
NoDev == {}

\* ---- one channel name, one random draw
Names1 == {"a"}
NameSeq1 == <<"", "a", "temp_1">>
Draws1 == {1}
Msgs1 == {M("join", "a"), M("joinp", "a"), M("leave", "a"), M("leave", "temp_1"), G("new", 1, 0),
          M("invite", "a"), G("invite", 1, 0), M("invitex", "a"), M("say", "a"), M("say", "temp_1"),
          M("odd", "a"), M("test", "-"), M("nlon", "-"), M("nloff", "-"), M("bogus", "-")}
Batches1 == Singles(Msgs1)
\* the same for the design (a colliding first draw is followed by a second one)
NameSeq1s == <<"", "a", "temp_1", "temp_2">>
Draws1s == {1, 2}
Msgs1s == (Msgs1 \ {G("new", 1, 0), G("invite", 1, 0)}) \cup {G("new", 1, 2), G("invite", 1, 2), G("new", 2, 1)}
Batches1s == Singles(Msgs1s)
Watched1 == {"a"}

\* ---- TCP: fewer commands, write failures, two objects in one chunk
MsgsT == {M("join", "a"), M("leave", "a"), G("new", 1, 0), M("invite", "a"), M("say", "a"), M("test", "-"),
          M("nlon", "-")}
BatchesT == Singles(MsgsT) \cup { <<M("test", "-"), M("join", "a")>>, <<G("new", 1, 0), M("say", "temp_1")>>,
                                  <<M("join", "a"), M("say", "a")>>, <<M("leave", "a"), M("join", "a")>> }
MsgsTs == (MsgsT \ {G("new", 1, 0)}) \cup {G("new", 1, 2)}
BatchesTs == Singles(MsgsTs) \cup { <<M("test", "-"), M("join", "a")>>, <<G("new", 1, 2), M("say", "temp_1")>>,
                                    <<M("join", "a"), M("say", "a")>>, <<M("leave", "a"), M("join", "a")>> }
SendModes2 == {"err", "short"}
SendModes1 == {"err"}
NoModes == {}

\* ---- two names, two draws (thorough)
Names2 == {"a", "b"}
NameSeq2 == <<"", "a", "b", "temp_1", "temp_2">>
NameSeq2m == <<"", "a", "b", "temp_1">>
Msgs2m == {M("join", "a"), M("leave", "a"), M("join", "b"), M("joinp", "b"), M("leave", "b"), M("leave", "temp_1"),
           G("new", 1, 0), M("invite", "a"), G("invite", 1, 0), M("say", "a"), M("say", "b"), M("test", "-")}
Batches2m == Singles(Msgs2m)
Watched2m == {"a", "temp_1"}
Draws2 == {1, 2}
Msgs2 == {M("join", "a"), M("joinp", "a"), M("leave", "a"), M("join", "b"), M("leave", "b"), M("leave", "temp_1"),
          G("new", 1, 0), G("new", 2, 0), M("invite", "a"), G("invite", 2, 0), M("invitex", "b"),
          M("say", "a"), M("say", "temp_1"), M("odd", "a"), M("test", "-"), M("nlon", "-")}
Batches2 == Singles(Msgs2)
Watched2 == {"a", "temp_2"}

MsgsT2 == {M("join", "a"), M("leave", "a"), M("join", "b"), M("leave", "b"), G("new", 1, 0), G("new", 2, 0),
           M("invite", "a"), G("invite", 2, 0), M("say", "a"), M("say", "temp_1"), M("odd", "a"), M("test", "-"),
           M("nlon", "-"), M("joinp", "b")}
BatchesT2 == Singles(MsgsT2) \cup { <<M("test", "-"), M("join", "a")>>, <<G("new", 1, 0), M("say", "temp_1")>>,
                                    <<M("join", "a"), M("say", "a")>>, <<M("leave", "a"), M("join", "a")>>,
                                    <<M("join", "b"), M("leave", "a")>>, <<M("test", "-"), G("new", 2, 0)>> }

\* ---- the deviations D0-D3 one at a time (tiny)
MsgsD == {M("join", "a"), M("test", "-")}
BatchesD == Singles(MsgsD)
DevD0 == {"D0", "D4", "D5", "D6", "D8"}
DevD1 == {"D1", "D4", "D5", "D6", "D8"}
DevD2 == {"D2", "D4", "D5", "D6", "D8"}
DevD3 == {"D3", "D4", "D5", "D6", "D8"}
====
