CONSTANTS
  NC = 2
  Names <- Names1
  NameSeq <- NameSeq1s
  Draws <- Draws1s
  Watched <- Watched1
  Kind = "tcp"
  Dev <- NoDev
  Batches <- BatchesTs
  MaxBots = 1
  SendModes <- SendModes2
  D = 0
INIT Init
NEXT Next
VIEW viewE
INVARIANT TypeOK
INVARIANT MembersLive
INVARIANT TempNeedsMembers
INVARIANT SessionsUnique
INVARIANT TransportForgets
PROPERTY JoinLeaveOnce
PROPERTY DestroyOnce
PROPERTY ClosedOnce
PROPERTY DeliveredToItsChannel
PROPERTY LeaveNeverCreates
PROPERTY NewChannelIsNew
PROPERTY ListenerStaysUp
CHECK_DEADLOCK FALSE
INVARIANT MembersLiveS
INVARIANT TransportForgetsS
INVARIANT TaskNeverDiesS
PROPERTY LeaveNeverCreatesS
PROPERTY NewChannelIsNewS
PROPERTY NexusSeesDestroyS
PROPERTY ListenerComesUpS
PROPERTY ClientsCanConnectS
