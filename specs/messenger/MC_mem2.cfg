CONSTANTS
  NC = 2
  Names <- Names2
  NameSeq <- NameSeq2m
  Draws <- Draws1
  Watched <- Watched2m
  Kind = "mem"
  Dev <- DevRest
  Batches <- Batches2m
  MaxBots = 1
  SendModes <- NoModes
  D = 0
INIT Init
NEXT Next
VIEW viewE
INVARIANT TypeOK
INVARIANT MembersLive
INVARIANT TempNeedsMembers
INVARIANT SessionsUnique
INVARIANT TransportForgets
PROPERTY JoinLeaveOnce
PROPERTY DestroyOnce
PROPERTY ClosedOnce
PROPERTY DeliveredToItsChannel
PROPERTY LeaveNeverCreates
PROPERTY NewChannelIsNew
PROPERTY ListenerStaysUp
CHECK_DEADLOCK FALSE
