CONSTANTS
  Shapes <- MCShapes
  Streams <- MCAll
  MaxChunk = 100
  D = 0
INIT Init
NEXT Next
VIEW viewE
INVARIANT TypeOK
INVARIANT InOrderOnce
INVARIANT ExactlyTheComplete
INVARIANT BufIsRest
INVARIANT AllDelivered
CHECK_DEADLOCK FALSE
