CONSTANTS
  Shapes <- MCShapes
  Streams <- MCTiny
  MaxChunk = 100
  D = 3
INIT Init
NEXT Next
CONSTRAINT Bound
INVARIANT ExportDone
CHECK_DEADLOCK FALSE
