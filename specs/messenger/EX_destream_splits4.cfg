CONSTANTS
  Shapes <- MCShapes
  Streams <- MCAll
  MaxChunk = 100
  D = 4
INIT Init
NEXT Next
CONSTRAINT Bound
INVARIANT ExportDone
CHECK_DEADLOCK FALSE
