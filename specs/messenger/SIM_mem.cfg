CONSTANTS
  NC = 3
  Names <- Names2
  NameSeq <- NameSeq2
  Draws <- Draws2
  Watched <- Watched2
  Kind = "mem"
  Dev <- DevRest
  Batches <- Batches2
  MaxBots = 1
  SendModes <- NoModes
  D = 40
INIT Init
NEXT Next
INVARIANT Export
CHECK_DEADLOCK FALSE
