CONSTANTS
  NC = 3
  Names <- Names2
  NameSeq <- NameSeq2
  Draws <- Draws2
  Watched <- Watched2
  Kind = "tcp"
  Dev <- DevRest
  Batches <- BatchesT2
  MaxBots = 1
  SendModes <- SendModes2
  D = 40
INIT Init
NEXT Next
INVARIANT Export
CHECK_DEADLOCK FALSE
