CONSTANTS
  NC = 2
  Names <- Names1
  NameSeq <- NameSeq1s
  Draws <- Draws1s
  Watched <- Watched1
  Kind = "mem"
  Dev <- NoDev
  Batches <- Batches1s
  MaxBots = 1
  SendModes <- NoModes
  D = 0
INIT Init
NEXT Next
VIEW viewE
ACTION_CONSTRAINT ExportT
CHECK_DEADLOCK FALSE
