CONSTANTS
  Shapes <- MCShapes
  Streams <- MCStreams
  MaxChunk = 3
  D = 0
INIT Init
NEXT Next
INVARIANT ExportDone
CHECK_DEADLOCK FALSE
