CONSTANTS
  NC = 3
  Names <- Names1
  NameSeq <- NameSeq1
  Draws <- Draws1
  Watched <- Watched1
  Kind = "tcp"
  Dev <- DevRest
  Batches <- BatchesT
  MaxBots = 1
  SendModes <- SendModes1
  D = 0
INIT Init
NEXT Next
VIEW viewE
INVARIANT TypeOK
INVARIANT MembersLive
INVARIANT TempNeedsMembers
INVARIANT SessionsUnique
INVARIANT TransportForgets
PROPERTY JoinLeaveOnce
PROPERTY DestroyOnce
PROPERTY ClosedOnce
PROPERTY DeliveredToItsChannel
PROPERTY LeaveNeverCreates
PROPERTY NewChannelIsNew
PROPERTY ListenerStaysUp
CHECK_DEADLOCK FALSE
