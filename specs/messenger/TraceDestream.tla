---- MODULE TraceDestream ----
(* Code -> spec: random streams cut at random places by a seeded driver (props/X09.py: drive_d); the first event of  *)
(* a trace names the stream, the others are the chunks with what the real connection dispatched and kept.           *)
EXTENDS MCDestream, IOUtils, TLCExt

Traces == JsonDeserialize(IOEnv.TRACE_FILE)
NT == Len(Traces)
VARIABLES tid, l
tvars == <<vars, tid, l>>

TrInit == /\ tid \in 1..NT /\ l = 2 /\ TLCSet(tid, 1)
          /\ InitWith(Traces[tid][1].args.items)
E == Traces[tid][l]
TrRx == /\ l <= Len(Traces[tid]) /\ E.a = "Rx" /\ l' = l + 1 /\ UNCHANGED tid
        /\ Rx(E.args.k)
        /\ E.wf
        /\ last'.exp.msgs = E.obs.msgs /\ last'.exp.buf = E.obs.buf
TrNext == TrRx
Progress == TLCSet(tid, IF TLCGet(tid) < l - 1 THEN l - 1 ELSE TLCGet(tid))
Ok(t) == TLCGet(t) = Len(Traces[t]) \/ (PrintT(<<"REJECT", t, TLCGet(t)>>) /\ FALSE)
Accepted == /\ PrintT(<<"TRACES-CHECKED", NT>>)
            /\ Cardinality({t \in 1..NT : ~Ok(t)}) = 0
====
