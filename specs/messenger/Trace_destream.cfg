CONSTANTS
  Shapes <- MCShapes
  Streams <- MCStreams
  MaxChunk = 100
  D = 0
INIT TrInit
NEXT TrNext
CONSTRAINT Progress
POSTCONDITION Accepted
INVARIANT TypeOK
INVARIANT InOrderOnce
INVARIANT ExactlyTheComplete
INVARIANT BufIsRest
INVARIANT AllDelivered
CHECK_DEADLOCK FALSE
