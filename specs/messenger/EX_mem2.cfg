CONSTANTS
  NC = 2
  Names <- Names2
  NameSeq <- NameSeq2m
  Draws <- Draws1
  Watched <- Watched2m
  Kind = "mem"
  Dev <- DevRest
  Batches <- Batches2m
  MaxBots = 1
  SendModes <- NoModes
  D = 0
INIT Init
NEXT Next
VIEW viewE
ACTION_CONSTRAINT ExportT
CHECK_DEADLOCK FALSE
