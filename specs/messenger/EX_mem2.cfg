CONSTANTS
  NC = 2
  Names <- Names2
  NameSeq <- NameSeq2
  Draws <- Draws2
  Watched <- Watched2
  Kind = "mem"
  Dev <- DevRest
  Batches <- Batches2
  MaxBots = 1
  SendModes <- NoModes
  D = 0
INIT Init
NEXT Next
VIEW viewE
ACTION_CONSTRAINT ExportT
CHECK_DEADLOCK FALSE
