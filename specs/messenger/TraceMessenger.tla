---- MODULE TraceMessenger ----
(* Code -> spec: traces recorded from the real messenger by a seeded random driver (props/X09.py: drive_m) must be  *)
(* behaviours of Messenger.tla; every invariant is evaluated at each matched step.                                 *)
EXTENDS MCMessenger, IOUtils, TLCExt

Traces == JsonDeserialize(IOEnv.TRACE_FILE)
NT == Len(Traces)
VARIABLES tid, l
tvars == <<vars, tid, l>>

TrInit == Init /\ tid \in 1..NT /\ l = 1 /\ TLCSet(tid, 0)
E == Traces[tid][l]
IsEvent(e) == l <= Len(Traces[tid]) /\ E.a = e /\ l' = l + 1 /\ UNCHANGED tid
ObsOK == /\ E.wf
         /\ last'.exp.ev = E.obs.ev
         /\ last'.exp.out = E.obs.out
         /\ last'.exp.chans = {[n |-> x.n, t |-> x.t, m |-> ToSet(x.m)] : x \in ToSet(E.obs.chans)}
         /\ last'.exp.cst = E.obs.cst
         /\ last'.exp.tmem = ToSet(E.obs.tmem)
         /\ last'.exp.shut = ToSet(E.obs.shut)
         /\ last'.exp.lsn = E.obs.lsn
         /\ last'.exp.r = E.obs.r

TrListen    == IsEvent("Listen") /\ Listen /\ ObsOK
TrOpen      == IsEvent("Open") /\ Open(E.args.c) /\ ObsOK
\* the chunks the driver sent are the alphabet (RxBody = Rx without the bound `ms \in Batches` of the model)
TrRx        == IsEvent("Rx") /\ RxBody(E.args.c, E.args.ms) /\ ObsOK
TrPeerClose == IsEvent("PeerClose") /\ PeerClose(E.args.c, E.args.how) /\ ObsOK
TrClose     == IsEvent("Close") /\ Close(E.args.c) /\ ObsOK
TrChanSend  == IsEvent("ChanSend") /\ ChanSendAct(E.args.n) /\ ObsOK
TrConSend   == IsEvent("ConSend") /\ ConSendAct(E.args.c) /\ ObsOK
TrSetSend   == IsEvent("SetSend") /\ SetSend(E.args.c, E.args.mode) /\ ObsOK
TrNext == TrListen \/ TrOpen \/ TrRx \/ TrPeerClose \/ TrClose \/ TrChanSend \/ TrConSend \/ TrSetSend
TrSpec == TrInit /\ [][TrNext]_tvars

Progress == TLCSet(tid, IF TLCGet(tid) < l - 1 THEN l - 1 ELSE TLCGet(tid))
Ok(t) == TLCGet(t) = Len(Traces[t]) \/ (PrintT(<<"REJECT", t, TLCGet(t)>>) /\ FALSE)
Accepted == /\ PrintT(<<"TRACES-CHECKED", NT>>)
            /\ Cardinality({t \in 1..NT : ~Ok(t)}) = 0
====
