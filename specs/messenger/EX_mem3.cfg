CONSTANTS
  NC = 3
  Names <- Names1
  NameSeq <- NameSeq1
  Draws <- Draws1
  Watched <- Watched1
  Kind = "mem"
  Dev <- DevRest
  Batches <- Batches1
  MaxBots = 1
  SendModes <- NoModes
  D = 0
INIT Init
NEXT Next
VIEW viewE
ACTION_CONSTRAINT ExportT
CHECK_DEADLOCK FALSE
