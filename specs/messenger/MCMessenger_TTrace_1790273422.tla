---- MODULE MCMessenger_TTrace_1790273422 ----
EXTENDS Sequences, TLCExt, MCMessenger, Toolbox, Naturals, TLC

_expression ==
    LET MCMessenger_TEExpression == INSTANCE MCMessenger_TEExpression
    IN MCMessenger_TEExpression!expression
----

_trace ==
    LET MCMessenger_TETrace == INSTANCE MCMessenger_TETrace
    IN MCMessenger_TETrace!trace
----

_inv ==
    ~(
        TLCGet("level") = Len(_TETrace)
        /\
        ses = (<<1, 0>>)
        /\
        hist = (<<[a |-> "Open", args |-> [c |-> 1], exp |-> [r |-> "ses:1", lsn |-> "listening", cst |-> <<"open", "none">>, tmem |-> {1}, ev |-> <<[m |-> "-", e |-> "ConnectionOpened", on |-> "N", ch |-> "-", c |-> 1]>>, shut |-> {}, out |-> <<<<[k |-> "welcome", nl |-> FALSE, ch |-> "", v |-> "sid-ok", x |-> 0]>>, <<>>>>, chans |-> {[n |-> "", m |-> {}, t |-> FALSE]}]]>>)
        /\
        last = ([a |-> "Open", args |-> [c |-> 1], exp |-> [r |-> "ses:1", lsn |-> "listening", cst |-> <<"open", "none">>, tmem |-> {1}, ev |-> <<[m |-> "-", e |-> "ConnectionOpened", on |-> "N", ch |-> "-", c |-> 1]>>, shut |-> {}, out |-> <<<<[k |-> "welcome", nl |-> FALSE, ch |-> "", v |-> "sid-ok", x |-> 0]>>, <<>>>>, chans |-> {[n |-> "", m |-> {}, t |-> FALSE]}]])
        /\
        bad = (<<"ok", "ok">>)
        /\
        cst = (<<"open", "none">>)
        /\
        lsn = ("listening")
        /\
        tmem = ({1})
        /\
        nextSes = (2)
        /\
        chan = (("a" :> [mem |-> {}, ex |-> FALSE, temp |-> FALSE, virgin |-> FALSE, bots |-> 0] @@ "" :> [mem |-> {}, ex |-> TRUE, temp |-> FALSE, virgin |-> TRUE, bots |-> 0] @@ "temp_1" :> [mem |-> {}, ex |-> FALSE, temp |-> FALSE, virgin |-> FALSE, bots |-> 0]))
        /\
        nl = (<<FALSE, FALSE>>)
    )
----

_init ==
    /\ nextSes = _TETrace[1].nextSes
    /\ lsn = _TETrace[1].lsn
    /\ last = _TETrace[1].last
    /\ ses = _TETrace[1].ses
    /\ tmem = _TETrace[1].tmem
    /\ nl = _TETrace[1].nl
    /\ chan = _TETrace[1].chan
    /\ hist = _TETrace[1].hist
    /\ bad = _TETrace[1].bad
    /\ cst = _TETrace[1].cst
----

_next ==
    /\ \E i,j \in DOMAIN _TETrace:
        /\ \/ /\ j = i + 1
              /\ i = TLCGet("level")
        /\ nextSes  = _TETrace[i].nextSes
        /\ nextSes' = _TETrace[j].nextSes
        /\ lsn  = _TETrace[i].lsn
        /\ lsn' = _TETrace[j].lsn
        /\ last  = _TETrace[i].last
        /\ last' = _TETrace[j].last
        /\ ses  = _TETrace[i].ses
        /\ ses' = _TETrace[j].ses
        /\ tmem  = _TETrace[i].tmem
        /\ tmem' = _TETrace[j].tmem
        /\ nl  = _TETrace[i].nl
        /\ nl' = _TETrace[j].nl
        /\ chan  = _TETrace[i].chan
        /\ chan' = _TETrace[j].chan
        /\ hist  = _TETrace[i].hist
        /\ hist' = _TETrace[j].hist
        /\ bad  = _TETrace[i].bad
        /\ bad' = _TETrace[j].bad
        /\ cst  = _TETrace[i].cst
        /\ cst' = _TETrace[j].cst

\* Uncomment the ASSUME below to write the states of the error trace
\* to the given file in Json format. Note that you can pass any tuple
\* to `JsonSerialize`. For example, a sub-sequence of _TETrace.
    \* ASSUME
    \*     LET J == INSTANCE Json
    \*         IN J!JsonSerialize("MCMessenger_TTrace_1790273422.json", _TETrace)

=============================================================================

 Note that you can extract this module `MCMessenger_TEExpression`
  to a dedicated file to reuse `expression` (the module in the 
  dedicated `MCMessenger_TEExpression.tla` file takes precedence 
  over the module `MCMessenger_TEExpression` below).

---- MODULE MCMessenger_TEExpression ----
EXTENDS Sequences, TLCExt, MCMessenger, Toolbox, Naturals, TLC

expression == 
    [
        \* To hide variables of the `MCMessenger` spec from the error trace,
        \* remove the variables below.  The trace will be written in the order
        \* of the fields of this record.
        nextSes |-> nextSes
        ,lsn |-> lsn
        ,last |-> last
        ,ses |-> ses
        ,tmem |-> tmem
        ,nl |-> nl
        ,chan |-> chan
        ,hist |-> hist
        ,bad |-> bad
        ,cst |-> cst
        
        \* Put additional constant-, state-, and action-level expressions here:
        \* ,_stateNumber |-> _TEPosition
        \* ,_nextSesUnchanged |-> nextSes = nextSes'
        
        \* Format the `nextSes` variable as Json value.
        \* ,_nextSesJson |->
        \*     LET J == INSTANCE Json
        \*     IN J!ToJson(nextSes)
        
        \* Lastly, you may build expressions over arbitrary sets of states by
        \* leveraging the _TETrace operator.  For example, this is how to
        \* count the number of times a spec variable changed up to the current
        \* state in the trace.
        \* ,_nextSesModCount |->
        \*     LET F[s \in DOMAIN _TETrace] ==
        \*         IF s = 1 THEN 0
        \*         ELSE IF _TETrace[s].nextSes # _TETrace[s-1].nextSes
        \*             THEN 1 + F[s-1] ELSE F[s-1]
        \*     IN F[_TEPosition - 1]
    ]

=============================================================================



Parsing and semantic processing can take forever if the trace below is long.
 In this case, it is advised to uncomment the module below to deserialize the
 trace from a generated binary file.

\*
\*---- MODULE MCMessenger_TETrace ----
\*EXTENDS IOUtils, MCMessenger, TLC
\*
\*trace == IODeserialize("MCMessenger_TTrace_1790273422.bin", TRUE)
\*
\*=============================================================================
\*

---- MODULE MCMessenger_TETrace ----
EXTENDS MCMessenger, TLC

trace == 
    <<
    ([ses |-> <<0, 0>>,hist |-> <<>>,last |-> [a |-> "Init", args |-> [x |-> 0], exp |-> [r |-> "-", lsn |-> "none", cst |-> <<"none", "none">>, tmem |-> {}, ev |-> <<>>, shut |-> {}, out |-> <<<<>>, <<>>>>, chans |-> {}]],bad |-> <<"ok", "ok">>,cst |-> <<"none", "none">>,lsn |-> "listening",tmem |-> {},nextSes |-> 1,chan |-> ("a" :> [mem |-> {}, ex |-> FALSE, temp |-> FALSE, virgin |-> FALSE, bots |-> 0] @@ "" :> [mem |-> {}, ex |-> TRUE, temp |-> FALSE, virgin |-> TRUE, bots |-> 0] @@ "temp_1" :> [mem |-> {}, ex |-> FALSE, temp |-> FALSE, virgin |-> FALSE, bots |-> 0]),nl |-> <<FALSE, FALSE>>]),
    ([ses |-> <<1, 0>>,hist |-> <<[a |-> "Open", args |-> [c |-> 1], exp |-> [r |-> "ses:1", lsn |-> "listening", cst |-> <<"open", "none">>, tmem |-> {1}, ev |-> <<[m |-> "-", e |-> "ConnectionOpened", on |-> "N", ch |-> "-", c |-> 1]>>, shut |-> {}, out |-> <<<<[k |-> "welcome", nl |-> FALSE, ch |-> "", v |-> "sid-ok", x |-> 0]>>, <<>>>>, chans |-> {[n |-> "", m |-> {}, t |-> FALSE]}]]>>,last |-> [a |-> "Open", args |-> [c |-> 1], exp |-> [r |-> "ses:1", lsn |-> "listening", cst |-> <<"open", "none">>, tmem |-> {1}, ev |-> <<[m |-> "-", e |-> "ConnectionOpened", on |-> "N", ch |-> "-", c |-> 1]>>, shut |-> {}, out |-> <<<<[k |-> "welcome", nl |-> FALSE, ch |-> "", v |-> "sid-ok", x |-> 0]>>, <<>>>>, chans |-> {[n |-> "", m |-> {}, t |-> FALSE]}]],bad |-> <<"ok", "ok">>,cst |-> <<"open", "none">>,lsn |-> "listening",tmem |-> {1},nextSes |-> 2,chan |-> ("a" :> [mem |-> {}, ex |-> FALSE, temp |-> FALSE, virgin |-> FALSE, bots |-> 0] @@ "" :> [mem |-> {}, ex |-> TRUE, temp |-> FALSE, virgin |-> TRUE, bots |-> 0] @@ "temp_1" :> [mem |-> {}, ex |-> FALSE, temp |-> FALSE, virgin |-> FALSE, bots |-> 0]),nl |-> <<FALSE, FALSE>>])
    >>
----


=============================================================================

---- CONFIG MCMessenger_TTrace_1790273422 ----
CONSTANTS
    NC = 2
    Names <- Names1
    NameSeq <- NameSeq1
    Draws <- Draws1
    Watched <- Watched1
    Kind = "mem"
    Dev <- DevRest
    Batches <- Batches1
    MaxBots = 1
    SendModes <- NoModes
    D = 0

INVARIANT
    _inv

CHECK_DEADLOCK
    \* CHECK_DEADLOCK off because of PROPERTY or INVARIANT above.
    FALSE

INIT
    _init

NEXT
    _next

CONSTANT
    _TETrace <- _trace

ALIAS
    _expression
=============================================================================
\* Generated on Thu Sep 24 18:10:23 UTC 2026