CONSTANTS
  NC = 2
  Names <- Names2
  NameSeq <- NameSeq2
  Draws <- Draws2
  Watched <- Watched2
  Kind = "tcp"
  Dev <- DevRest
  Batches <- BatchesT2
  MaxBots = 1
  SendModes <- SendModes2
  D = 0
INIT Init
NEXT Next
VIEW viewE
INVARIANT TypeOK
INVARIANT MembersLive
INVARIANT TempNeedsMembers
INVARIANT SessionsUnique
INVARIANT TransportForgets
PROPERTY JoinLeaveOnce
PROPERTY DestroyOnce
PROPERTY ClosedOnce
PROPERTY DeliveredToItsChannel
PROPERTY LeaveNeverCreates
PROPERTY NewChannelIsNew
PROPERTY ListenerStaysUp
CHECK_DEADLOCK FALSE
