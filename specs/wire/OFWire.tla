------------------------------- MODULE OFWire -------------------------------
(* C01: the OpenFlow 1.0 wire format as an executable oracle, and the codec   *)
(* life cycle of one object of the library.                                   *)
(*                                                                            *)
(* Part 1 - layout tables transcribed from the OpenFlow 1.0 specification     *)
(*   (openflow.h, OFP_VERSION 0x01): one entry per message, action, queue     *)
(*   property, statistics body; `Declared` repeats the OFP_ASSERT(sizeof ..)  *)
(*   of the standard and is checked against the tables when TLC starts.       *)
(* Part 2 - Enc / Dec: the generic interpretation of a layout (plus ofp_match,*)
(*   NXM entries and learn specs, whose encodings are not plain field lists). *)
(* Part 3 - the state machine: a caller constructs an object (Choose), encodes*)
(*   it, possibly changes it and encodes again, a peer decodes the bytes and  *)
(*   re-encodes the result.  Every action logs what must be observed on the   *)
(*   real library.                                                            *)
(* Part 4 - the property, as invariants over the real variables.              *)
EXTENDS NXWire, Json, Bitwise, SequencesExt

CONSTANTS Cases,       \* set of case descriptors [tag, msg, mods]; see MCOFWire.tla
          RCases,      \* set of received encodings [tag, k, wire, keep]: wire-legal bytes a peer may send, incl.
                       \* forms the library's own encoder never produces; keep = the library preserves them
          Around       \* set of <<pre, post>>: numbers of foreign bytes before / after the message in the
                       \* receiver's buffer

(* ========================================================================= *)
(* Part 1: OpenFlow 1.0 layouts                                               *)
Hdr(t) == <<Const(<<1>>), Const(<<t>>), LenF, U("xid", 4)>>             \* struct ofp_header, version 0x01
Act(t) == <<Const(BE(t, 2)), LenF>>                                     \* type, len
PortStatsFields == <<U("rx_packets", 8), U("tx_packets", 8), U("rx_bytes", 8), U("tx_bytes", 8),
                     U("rx_dropped", 8), U("tx_dropped", 8), U("rx_errors", 8), U("tx_errors", 8),
                     U("rx_frame_err", 8), U("rx_over_err", 8), U("rx_crc_err", 8), U("collisions", 8)>>
FlowStatsReq == <<Sub("match", "match"), U("table_id", 1), Pad(1), U("out_port", 2)>>
SReq(t) == Hdr(16) \o <<Const(BE(t, 2)), U("flags", 2)>>
SRep(t) == Hdr(17) \o <<Const(BE(t, 2)), U("flags", 2)>>

OFLayout == [
  \* ---- messages
  hello            |-> Hdr(0),
  hello_ext        |-> Hdr(0) \o <<Rest("body")>>,     \* a peer's HELLO may carry a body, which is to be ignored
  error            |-> Hdr(1) \o <<U("type", 2), U("code", 2), Rest("data")>>,
  echo_request     |-> Hdr(2) \o <<Rest("body")>>,
  echo_reply       |-> Hdr(3) \o <<Rest("body")>>,
  vendor           |-> Hdr(4) \o <<U("vendor", 4), Rest("data")>>,
  features_request |-> Hdr(5),
  features_reply   |-> Hdr(6) \o <<U("datapath_id", 8), U("n_buffers", 4), U("n_tables", 1), Pad(3),
                                   U("capabilities", 4), U("actions", 4), List("ports", "port")>>,
  get_config_request |-> Hdr(7),
  get_config_reply |-> Hdr(8) \o <<U("flags", 2), U("miss_send_len", 2)>>,
  set_config       |-> Hdr(9) \o <<U("flags", 2), U("miss_send_len", 2)>>,
  packet_in        |-> Hdr(10) \o <<U("buffer_id", 4), U("total_len", 2), U("in_port", 2), U("reason", 1), Pad(1),
                                    Rest("data")>>,
  flow_removed     |-> Hdr(11) \o <<Sub("match", "match"), U("cookie", 8), U("priority", 2), U("reason", 1), Pad(1),
                                    U("duration_sec", 4), U("duration_nsec", 4), U("idle_timeout", 2), Pad(2),
                                    U("packet_count", 8), U("byte_count", 8)>>,
  port_status      |-> Hdr(12) \o <<U("reason", 1), Pad(7), Sub("desc", "phy_port")>>,
  packet_out       |-> Hdr(13) \o <<U("buffer_id", 4), U("in_port", 2), LenOf("actions"), ListN("actions", "action"),
                                    Rest("data")>>,
  flow_mod         |-> Hdr(14) \o <<Sub("match", "match"), U("cookie", 8), U("command", 2), U("idle_timeout", 2),
                                    U("hard_timeout", 2), U("priority", 2), U("buffer_id", 4), U("out_port", 2),
                                    U("flags", 2), List("actions", "action")>>,
  port_mod         |-> Hdr(15) \o <<U("port_no", 2), U("hw_addr", 6), U("config", 4), U("mask", 4),
                                    U("advertise", 4), Pad(4)>>,
  barrier_request  |-> Hdr(18),
  barrier_reply    |-> Hdr(19),
  queue_get_config_request |-> Hdr(20) \o <<U("port", 2), Pad(2)>>,
  queue_get_config_reply   |-> Hdr(21) \o <<U("port", 2), Pad(6), List("queues", "queue")>>,
  \* ---- statistics: ofp_stats_request / ofp_stats_reply with each body of section 5.3.5
  sreq_desc        |-> SReq(0),
  sreq_flow        |-> SReq(1) \o FlowStatsReq,
  sreq_aggregate   |-> SReq(2) \o FlowStatsReq,
  sreq_table       |-> SReq(3),
  sreq_port        |-> SReq(4) \o <<U("port_no", 2), Pad(6)>>,
  sreq_queue       |-> SReq(5) \o <<U("port_no", 2), Pad(2), U("queue_id", 4)>>,
  sreq_vendor      |-> SReq(65535) \o <<U("vendor", 4), Rest("data")>>,
  srep_desc        |-> SRep(0) \o <<Str("mfr_desc", 256), Str("hw_desc", 256), Str("sw_desc", 256),
                                    Str("serial_num", 32), Str("dp_desc", 256)>>,
  srep_flow        |-> SRep(1) \o <<List("body", "flowstat")>>,
  srep_aggregate   |-> SRep(2) \o <<U("packet_count", 8), U("byte_count", 8), U("flow_count", 4), Pad(4)>>,
  srep_table       |-> SRep(3) \o <<List("body", "tablestat")>>,
  srep_port        |-> SRep(4) \o <<List("body", "portstat")>>,
  srep_queue       |-> SRep(5) \o <<List("body", "queuestat")>>,
  srep_vendor      |-> SRep(65535) \o <<U("vendor", 4), Rest("data")>>,
  \* statistics types the library has no structure for travel as opaque bodies
  sreq_generic     |-> Hdr(16) \o <<U("stype", 2), U("flags", 2), Rest("data")>>,
  srep_generic     |-> Hdr(17) \o <<U("stype", 2), U("flags", 2), Rest("data")>>,
  \* ---- structures
  phy_port         |-> <<U("port_no", 2), U("hw_addr", 6), Str("name", 16), U("config", 4), U("state", 4),
                         U("curr", 4), U("advertised", 4), U("supported", 4), U("peer", 4)>>,
  packet_queue     |-> <<U("queue_id", 4), LenF, Pad(2), List("properties", "prop")>>,
  qp_none          |-> <<Const(<<0, 0>>), LenF, Pad(4)>>,
  qp_min_rate      |-> <<Const(<<0, 1>>), LenF, Pad(4), U("rate", 2), Pad(6)>>,
  qp_generic       |-> <<U("property", 2), LenF, Rest("data")>>,            \* a property type the library does not know
  flow_stats       |-> <<LenF, U("table_id", 1), Pad(1), Sub("match", "match"), U("duration_sec", 4),
                         U("duration_nsec", 4), U("priority", 2), U("idle_timeout", 2), U("hard_timeout", 2),
                         Pad(6), U("cookie", 8), U("packet_count", 8), U("byte_count", 8),
                         List("actions", "action")>>,
  table_stats      |-> <<U("table_id", 1), Pad(3), Str("name", 32), U("wildcards", 4), U("max_entries", 4),
                         U("active_count", 4), U("lookup_count", 8), U("matched_count", 8)>>,
  port_stats       |-> <<U("port_no", 2), Pad(6)>> \o PortStatsFields,
  queue_stats      |-> <<U("port_no", 2), Pad(2), U("queue_id", 4), U("tx_bytes", 8), U("tx_packets", 8),
                         U("tx_errors", 8)>>,
  u16              |-> <<U("v", 2)>>,
  \* ---- actions
  a_output         |-> Act(0) \o <<U("port", 2), U("max_len", 2)>>,
  a_set_vlan_vid   |-> Act(1) \o <<U("vlan_vid", 2), Pad(2)>>,
  a_set_vlan_pcp   |-> Act(2) \o <<U("vlan_pcp", 1), Pad(3)>>,
  a_strip_vlan     |-> Act(3) \o <<Pad(4)>>,
  a_set_dl_src     |-> Act(4) \o <<U("dl_addr", 6), Pad(6)>>,
  a_set_dl_dst     |-> Act(5) \o <<U("dl_addr", 6), Pad(6)>>,
  a_set_nw_src     |-> Act(6) \o <<U("nw_addr", 4)>>,
  a_set_nw_dst     |-> Act(7) \o <<U("nw_addr", 4)>>,
  a_set_nw_tos     |-> Act(8) \o <<U("nw_tos", 1), Pad(3)>>,
  a_set_tp_src     |-> Act(9) \o <<U("tp_port", 2), Pad(2)>>,
  a_set_tp_dst     |-> Act(10) \o <<U("tp_port", 2), Pad(2)>>,
  a_enqueue        |-> Act(11) \o <<U("port", 2), Pad(6), U("queue_id", 4)>>,
  a_vendor         |-> Act(65535) \o <<U("vendor", 4), Rest("body")>>,
  a_generic        |-> <<U("type", 2), LenF, Rest("data")>>,                \* an action type the library does not know
  \* ---- bare lists, as handed to the library's list decoders
  actions          |-> <<List("actions", "action")>>,
  props            |-> <<List("props", "prop")>>,
  nxmatch          |-> <<List("match", "nxm")>> ]

Layout == OFLayout @@ NXActionLayout @@ NXMsgLayout
Kinds == DOMAIN Layout

\* sizeof() of the fixed part of each structure as asserted by the standard
Declared == [ hello |-> 8, hello_ext |-> 8, error |-> 12, echo_request |-> 8, echo_reply |-> 8, vendor |-> 12, features_request |-> 8,
  features_reply |-> 32, get_config_request |-> 8, get_config_reply |-> 12, set_config |-> 12, packet_in |-> 18,
  flow_removed |-> 88, port_status |-> 64, packet_out |-> 16, flow_mod |-> 72, port_mod |-> 32,
  barrier_request |-> 8, barrier_reply |-> 8, queue_get_config_request |-> 12, queue_get_config_reply |-> 16,
  sreq_desc |-> 12, sreq_flow |-> 56, sreq_aggregate |-> 56, sreq_table |-> 12, sreq_port |-> 20,
  sreq_queue |-> 20, sreq_vendor |-> 16, srep_desc |-> 1068, srep_flow |-> 12, srep_aggregate |-> 36,
  srep_table |-> 12, srep_port |-> 12, srep_queue |-> 12, srep_vendor |-> 16, sreq_generic |-> 12, srep_generic |-> 12,
  phy_port |-> 48, packet_queue |-> 8, qp_none |-> 8, qp_min_rate |-> 16, qp_generic |-> 4, a_generic |-> 4, flow_stats |-> 88, table_stats |-> 64,
  port_stats |-> 104, queue_stats |-> 32, u16 |-> 2,
  a_output |-> 8, a_set_vlan_vid |-> 8, a_set_vlan_pcp |-> 8, a_strip_vlan |-> 8, a_set_dl_src |-> 16,
  a_set_dl_dst |-> 16, a_set_nw_src |-> 8, a_set_nw_dst |-> 8, a_set_nw_tos |-> 8, a_set_tp_src |-> 8,
  a_set_tp_dst |-> 8, a_enqueue |-> 16, a_vendor |-> 8, actions |-> 0, props |-> 0, nxmatch |-> 0 ] @@ NXActionSize @@ NXMsgSize

MatchSize == 40
FixedW(d) == CASE d.t \in {"u", "pad", "const", "len", "lenof", "cntof", "str"} -> d.w
               [] d.t = "sub" -> IF d.k = "match" THEN MatchSize ELSE Declared[d.k]
               [] OTHER -> 0
FixedSize(k) == Sum([i \in 1..Len(Layout[k]) |-> FixedW(Layout[k][i])])
ASSUME DeclaredSizes == DOMAIN Declared = Kinds /\ \A k \in Kinds : FixedSize(k) = Declared[k]

MsgKinds == {k \in Kinds : Len(Layout[k]) >= 4 /\ Layout[k][1] = Const(<<1>>)}
IsMsg(k) == k \in MsgKinds
ActionKinds == ({k \in Kinds : Len(Layout[k]) >= 2 /\ Layout[k][2].t = "len" /\ Layout[k][1].t = "const"
                               /\ Layout[k][1].w = 2} \ {"qp_none", "qp_min_rate"}) \cup {"a_generic"}
PropKinds == {"qp_none", "qp_min_rate", "qp_generic"}

(* ---- ofp_match ----------------------------------------------------------- *)
(* Abstract value: every field is its bytes, or <<>> when wildcarded; nw_src /*)
(* nw_dst carry the number of significant bits (nw_src_bits = <<0..32>>, 0 =  *)
(* wildcarded).  The library offers matches in prerequisite-normal form       *)
(* (ofp_match.fix()): a field whose protocol prerequisite is not met is       *)
(* wildcarded.  NormalizePrereqs: for such fields the wire wildcard bit is    *)
(* FREE - OpenFlow 1.0.1 3.4 lets a sender leave ignored fields un-wildcarded *)
(* with value 0, and the library does so inside flow-mods - so an encoder may *)
(* clear any subset of the free bits; the decoder must return the same match. *)
MatchFields == <<"in_port", "dl_src", "dl_dst", "dl_vlan", "dl_vlan_pcp", "dl_type", "nw_tos", "nw_proto",
                 "nw_src", "nw_dst", "tp_src", "tp_dst">>
MatchW == [in_port |-> 2, dl_src |-> 6, dl_dst |-> 6, dl_vlan |-> 2, dl_vlan_pcp |-> 1, dl_type |-> 2,
           nw_tos |-> 1, nw_proto |-> 1, nw_src |-> 4, nw_dst |-> 4, tp_src |-> 2, tp_dst |-> 2]
\* OFPFW_* flag of each field (nw_src / nw_dst: the whole 6-bit counter)
MatchBit == [in_port |-> 1, dl_vlan |-> 2, dl_src |-> 4, dl_dst |-> 8, dl_type |-> 16, nw_proto |-> 32,
             tp_src |-> 64, tp_dst |-> 128, nw_src |-> 16128, nw_dst |-> 1032192,
             dl_vlan_pcp |-> 1048576, nw_tos |-> 2097152]
IPType == <<8, 0>>
ARPType == <<8, 6>>
\* is the protocol prerequisite of field n met, given the (effective) dl_type and nw_proto?
PrereqMet(n, dlt, proto) ==
  CASE n = "nw_tos" -> dlt = IPType
    [] n \in {"nw_proto", "nw_src", "nw_dst"} -> dlt = IPType \/ dlt = ARPType
    [] n \in {"tp_src", "tp_dst"} -> dlt = IPType /\ proto \in {<<1>>, <<6>>, <<17>>}
    [] OTHER -> TRUE
MWild(m, n) == m.f[n] = <<>>
PrereqNormal(m) == \A i \in 1..12 : LET n == MatchFields[i] IN
                      MWild(m, n) \/ PrereqMet(n, m.f.dl_type, m.f.nw_proto)
MatchOK(m) ==
  /\ DOMAIN m.f = {MatchFields[i] : i \in 1..12} \cup {"nw_src_bits", "nw_dst_bits"}
  /\ \A i \in 1..12 : LET n == MatchFields[i] IN MWild(m, n) \/ (IsBytes(m.f[n]) /\ Len(m.f[n]) = MatchW[n])
  /\ \A n \in {"nw_src", "nw_dst"} : LET bits == m.f[n \o "_bits"][1] IN
       /\ bits \in 0..32 /\ (bits = 0 <=> MWild(m, n))
       /\ (bits > 0 => \A j \in 1..4 :                      \* no bits beyond the prefix
              LET keep == IF bits >= 8 * j THEN 8 ELSE IF bits <= 8 * (j - 1) THEN 0 ELSE bits - 8 * (j - 1)
              IN m.f[n][j] % (2 ^ (8 - keep)) = 0)
  /\ PrereqNormal(m)
MVal(m, n) == IF MWild(m, n) THEN Zeros(MatchW[n]) ELSE m.f[n]
WildWord(m) ==
  Sum([i \in 1..12 |-> LET n == MatchFields[i] IN
        IF n \in {"nw_src", "nw_dst"}
        THEN (32 - m.f[n \o "_bits"][1]) * (IF n = "nw_src" THEN 256 ELSE 16384)
        ELSE IF MWild(m, n) THEN MatchBit[n] ELSE 0])
FreeWord(m) ==
  Sum([i \in 1..12 |-> LET n == MatchFields[i] IN
        IF PrereqMet(n, m.f.dl_type, m.f.nw_proto) THEN 0 ELSE MatchBit[n]])
EncMatch(m) ==
  BE(WildWord(m), 4) \o MVal(m, "in_port") \o MVal(m, "dl_src") \o MVal(m, "dl_dst") \o MVal(m, "dl_vlan")
  \o MVal(m, "dl_vlan_pcp") \o <<0>> \o MVal(m, "dl_type") \o MVal(m, "nw_tos") \o MVal(m, "nw_proto") \o <<0, 0>>
  \o MVal(m, "nw_src") \o MVal(m, "nw_dst") \o MVal(m, "tp_src") \o MVal(m, "tp_dst")
\* bits of the wire image an encoder may clear (same length as EncMatch)
FreeMatch(m) == BE(FreeWord(m), 4) \o Zeros(36)
MatchOff == [in_port |-> 4, dl_src |-> 6, dl_dst |-> 12, dl_vlan |-> 18, dl_vlan_pcp |-> 20, dl_type |-> 22,
             nw_tos |-> 24, nw_proto |-> 25, nw_src |-> 28, nw_dst |-> 32, tp_src |-> 36, tp_dst |-> 38]
DecMatch(b, o) ==                       \* the 40 bytes at b[o..]
  LET w == Num3(b, o + 1)
      flag(n) == (w \div MatchBit[n]) % 2 = 1
      cnt(n) == LET c == (w \div (IF n = "nw_src" THEN 256 ELSE 16384)) % 64 IN IF c > 32 THEN 32 ELSE c
      raw(n) == Slice(b, o + MatchOff[n], MatchW[n])
      dlt == IF flag("dl_type") THEN <<>> ELSE raw("dl_type")
      proto == IF flag("nw_proto") \/ ~PrereqMet("nw_proto", dlt, <<>>) THEN <<>> ELSE raw("nw_proto")
      wild(n) == \/ ~PrereqMet(n, dlt, proto)
                 \/ IF n \in {"nw_src", "nw_dst"} THEN cnt(n) = 32 ELSE flag(n)
      ok == b[o] = 0 /\ b[o + 21] = 0 /\ b[o + 26] = 0 /\ b[o + 27] = 0
  IN [ok |-> ok,
      v |-> SV("match", [n \in {MatchFields[i] : i \in 1..12} \cup {"nw_src_bits", "nw_dst_bits"} |->
              CASE n = "nw_src_bits" -> IF wild("nw_src") THEN <<0>> ELSE <<32 - cnt("nw_src")>>
                [] n = "nw_dst_bits" -> IF wild("nw_dst") THEN <<0>> ELSE <<32 - cnt("nw_dst")>>
                [] OTHER -> IF wild(n) THEN <<>> ELSE raw(n)])]

(* ---- NXM entries and learn specs ----------------------------------------- *)
NxmOK(e) == /\ DOMAIN e.f = {"vendor", "field", "value", "mask"}
            /\ IsBytes(e.f.vendor) /\ Len(e.f.vendor) = 2 /\ Len(e.f.field) = 1 /\ e.f.field[1] \in 0..127
            /\ IsBytes(e.f.value) /\ IsBytes(e.f.mask) /\ Len(e.f.value) \in 1..127
            /\ Len(e.f.mask) \in {0, Len(e.f.value)} /\ Len(e.f.value) + Len(e.f.mask) <= 255
EncNxm(e) == NxmHeader(e.f.vendor, e.f.field, e.f.mask # <<>>, Len(e.f.value) + Len(e.f.mask))
             \o e.f.value \o e.f.mask
NxmLen(b, o) == 4 + b[o + 3]
DecNxm(b, o, e) ==
  LET hm == b[o + 2] % 2 = 1
      pl == b[o + 3]
      vl == IF hm THEN pl \div 2 ELSE pl
  IN [ok |-> e = o + 4 + pl /\ (hm => pl % 2 = 0) /\ vl >= 1,
      v |-> SV("nxm", [vendor |-> <<b[o], b[o + 1]>>, field |-> <<b[o + 2] \div 2>>,
                       value |-> Slice(b, o + 4, vl), mask |-> IF hm THEN Slice(b, o + 4 + vl, vl) ELSE <<>>])]
FmsOK(s) == /\ DOMAIN s.f = {"src", "dst", "n_bits", "srcv", "dstv"}
            /\ s.f.src[1] \in 0..1 /\ s.f.dst[1] \in 0..2 /\ Len(s.f.n_bits) = 2 /\ Num2(s.f.n_bits, 1) \in 1..1023
            /\ IsBytes(s.f.srcv) /\ IsBytes(s.f.dstv)
            /\ Len(s.f.srcv) = FmsSrcLen(s.f.src[1], Num2(s.f.n_bits, 1)) /\ Len(s.f.dstv) = FmsDstLen(s.f.dst[1])
EncFms(s) == BE(s.f.src[1] * 8192 + s.f.dst[1] * 2048 + Num2(s.f.n_bits, 1), 2) \o s.f.srcv \o s.f.dstv
FmsLen(b, o) == LET h == Num2(b, o) IN 2 + FmsSrcLen((h \div 8192) % 2, h % 2048) + FmsDstLen((h \div 2048) % 4)
DecFms(b, o, e) ==
  LET h == Num2(b, o)
      src == (h \div 8192) % 2
      dst == (h \div 2048) % 4
      nb == h % 2048
      sl == FmsSrcLen(src, nb)
  IN [ok |-> e = o + FmsLen(b, o) /\ dst \in 0..2 /\ nb \in 1..1023 /\ h < 16384,
      v |-> SV("fms", [src |-> <<src>>, dst |-> <<dst>>, n_bits |-> BE(nb, 2), srcv |-> Slice(b, o + 2, sl),
                       dstv |-> Slice(b, o + 2 + sl, FmsDstLen(dst))])]

(* ========================================================================= *)
(* Part 2: the codec                                                          *)
Special == {"match", "nxm", "fms"}
Valued == {"u", "str", "rest", "sub", "list", "listn", "listc", "listz"}
Lists == {"list", "listn", "listc", "listz"}
FieldNames(k) == {Layout[k][i].n : i \in {j \in 1..Len(Layout[k]) : Layout[k][j].t \in Valued}}

RECURSIVE SizeOf(_)
ListBytes(sv, n) == Sum([i \in 1..Len(sv.f[n]) |-> SizeOf(sv.f[n][i])])
FieldSize(sv, d) ==
  CASE d.t \in {"u", "pad", "const", "len", "lenof", "cntof", "str"} -> d.w
    [] d.t = "rest" -> Len(sv.f[d.n])
    [] d.t = "sub" -> SizeOf(sv.f[d.n])
    [] d.t \in Lists -> ListBytes(sv, d.n)
    [] d.t = "pad8" -> PadTo8(ListBytes(sv, d.n))
SizeOf(sv) ==
  CASE sv.k = "match" -> MatchSize
    [] sv.k = "nxm" -> 4 + Len(sv.f.value) + Len(sv.f.mask)
    [] sv.k = "fms" -> 2 + Len(sv.f.srcv) + Len(sv.f.dstv)
    [] OTHER -> LET L == Layout[sv.k] IN Sum([i \in 1..Len(L) |-> FieldSize(sv, L[i])])

\* Enc(sv, free): free = FALSE the wire image; free = TRUE the image of the bits an encoder may clear
RECURSIVE Enc(_, _)
EncField(sv, d, free) ==
  CASE d.t = "u" -> IF free THEN Zeros(d.w) ELSE sv.f[d.n]
    [] d.t = "pad" -> Zeros(d.w)
    [] d.t = "const" -> IF free THEN Zeros(d.w) ELSE d.c
    [] d.t = "len" -> IF free THEN Zeros(2) ELSE BE(SizeOf(sv), 2)
    [] d.t = "lenof" -> IF free THEN Zeros(2) ELSE BE(ListBytes(sv, d.n), 2)
    [] d.t = "cntof" -> IF free THEN Zeros(2) ELSE BE(Len(sv.f[d.n]), 2)
    [] d.t = "str" -> IF free THEN Zeros(d.w) ELSE sv.f[d.n] \o Zeros(d.w - Len(sv.f[d.n]))
    [] d.t = "rest" -> IF free THEN Zeros(Len(sv.f[d.n])) ELSE sv.f[d.n]
    [] d.t = "sub" -> Enc(sv.f[d.n], free)
    [] d.t \in Lists -> Cat([i \in 1..Len(sv.f[d.n]) |-> Enc(sv.f[d.n][i], free)])
    [] d.t = "pad8" -> Zeros(PadTo8(ListBytes(sv, d.n)))
Enc(sv, free) ==
  CASE sv.k = "match" -> IF free THEN FreeMatch(sv) ELSE EncMatch(sv)
    [] sv.k = "nxm" -> IF free THEN Zeros(SizeOf(sv)) ELSE EncNxm(sv)
    [] sv.k = "fms" -> IF free THEN Zeros(SizeOf(sv)) ELSE EncFms(sv)
    [] OTHER -> LET L == Layout[sv.k] IN Cat([i \in 1..Len(L) |-> EncField(sv, L[i], free)])
Wire(sv) == Enc(sv, FALSE)
RECURSIVE HasMatch(_)
HasMatch(sv) == IF sv.k \in Special THEN sv.k = "match"
                ELSE \E i \in 1..Len(Layout[sv.k]) :
                       LET d == Layout[sv.k][i] IN
                       IF d.t = "sub" THEN HasMatch(sv.f[d.n])
                       ELSE IF d.t \in Lists THEN \E j \in 1..Len(sv.f[d.n]) : HasMatch(sv.f[d.n][j])
                       ELSE FALSE
\* sparse form of the free image: <<position (0-based), mask>> of the non-zero bytes
FreeBits(sv) == IF ~HasMatch(sv) THEN {}
                ELSE LET fr == Enc(sv, TRUE) IN {<<i - 1, fr[i]>> : i \in {j \in 1..Len(fr) : fr[j] # 0}}

\* well-formedness of an abstract value (the domain of the property)
RECURSIVE WF(_)
WFField(sv, d) ==
  CASE d.t = "u" -> IsBytes(sv.f[d.n]) /\ Len(sv.f[d.n]) = d.w
    [] d.t = "str" -> IsBytes(sv.f[d.n]) /\ Len(sv.f[d.n]) <= d.w /\ NoZero(sv.f[d.n])
    [] d.t = "rest" -> IsBytes(sv.f[d.n])
    [] d.t = "sub" -> sv.f[d.n].k = d.k /\ WF(sv.f[d.n])
    [] d.t \in Lists -> \A i \in 1..Len(sv.f[d.n]) : WF(sv.f[d.n][i])
    [] OTHER -> TRUE
WF(sv) ==
  CASE sv.k = "match" -> MatchOK(sv)
    [] sv.k = "nxm" -> NxmOK(sv)
    [] sv.k = "fms" -> FmsOK(sv)
    [] OTHER -> /\ sv.k \in Kinds /\ DOMAIN sv.f = FieldNames(sv.k)
                /\ \A i \in 1..Len(Layout[sv.k]) : WFField(sv, Layout[sv.k][i])
                /\ SizeOf(sv) <= 65535

(* ---- what the library lets a caller construct (the domain of the property) *)
(* Beyond well-formedness: the library refuses or canonicalises these on      *)
(* purpose, so the property is claimed for the canonical forms.               *)
(*  - (output action: see PackCanon / NormalizeMaxLen below)                   *)
(*  - packet-in: total_len is the length of the whole frame, never less than  *)
(*    the carried data; packet-out carries data only when it names no buffer  *)
(*  - a vendor action is a multiple of 8 bytes; the generic vendor message /  *)
(*    action is not the Nicira vendor (those have their own structures)       *)
(*  - NXM entries: a field the library names, with its width; a mask only     *)
(*    where the library accepts one, never all-ones (that IS the unmasked     *)
(*    entry), and no value bit outside the mask; one entry per field          *)
CtrlPort == <<255, 253>>
NoBuffer == <<255, 255, 255, 255>>
\* P holds for every structure directly nested in sv
AllSubs(sv, P(_)) ==
  IF sv.k \in Special THEN TRUE
  ELSE \A i \in 1..Len(Layout[sv.k]) : LET d == Layout[sv.k][i] IN
         /\ (d.t = "sub" => P(sv.f[d.n]))
         /\ (d.t \in Lists => \A j \in 1..Len(sv.f[d.n]) : P(sv.f[d.n][j]))
NxmNamed(e) == <<Num2(e.f.vendor, 1), e.f.field[1]>> \in {<<t[1], t[2]>> : t \in NxmFields}
NxmKnown(e) ==                           \* an entry a caller builds
  /\ <<Num2(e.f.vendor, 1), e.f.field[1], Len(e.f.value)>> \in NxmFields
  /\ NxmCallerMask(e.f.value, e.f.mask)
  /\ e.f.mask # <<>> =>
       /\ <<Num2(e.f.vendor, 1), e.f.field[1]>> \in NxmMaskable
       /\ (<<Num2(e.f.vendor, 1), e.f.field[1]>> = <<1, 34>> => e.f.mask[1] < 16)    \* TCP flags are 12 bits
NxmFromPeer(e) ==                        \* an entry a peer may send
  /\ NxmPeerMask(e.f.value, e.f.mask)
  /\ NxmNamed(e) => /\ <<Num2(e.f.vendor, 1), e.f.field[1], Len(e.f.value)>> \in NxmFields
                    /\ (e.f.mask # <<>> => <<Num2(e.f.vendor, 1), e.f.field[1]>> \in NxmMaskable)
IsNxmHeader(h) == \E t \in NxmFields : h = NxmHeader(BE(t[1], 2), <<t[2]>>, FALSE, t[3])
\* the header of a field the library may or may not name: no mask bit, a payload width
AnyNxmHeader(h) == h[3] % 2 = 0 /\ h[4] \in 1..127
                   /\ (<<Num2(h, 1), h[3] \div 2>> \in {<<t[1], t[2]>> : t \in NxmFields} => IsNxmHeader(h))
NxmDistinct(l) == \A i, j \in 1..Len(l) : i # j => <<l[i].f.vendor, l[i].f.field>> # <<l[j].f.vendor, l[j].f.field>>
\* rx = FALSE: what a caller constructs; rx = TRUE: what a peer may send (wider: see NXWire.tla on masks)
Hd(h, rx) == IF rx THEN AnyNxmHeader(h) ELSE IsNxmHeader(h)
FmsRule(s, rx) ==
  /\ (s.f.src[1] = 0 => Hd(Slice(s.f.srcv, 1, 4), rx))
  /\ (s.f.dst[1] \in {0, 1} => Hd(Slice(s.f.dstv, 1, 4), rx))
OwnRule(sv, rx) ==
  CASE sv.k \in {"packet_in", "nxt_packet_in"} -> sv.f.data = <<>> \/ Num2(sv.f.total_len, 1) >= Len(sv.f.data)
    [] sv.k = "packet_out" -> sv.f.buffer_id = NoBuffer \/ sv.f.data = <<>>
    [] sv.k = "a_vendor" -> Len(sv.f.body) % 8 = 0 /\ sv.f.vendor # NXVendor
    [] sv.k = "vendor" -> sv.f.vendor # NXVendor
    [] sv.k = "hello_ext" -> FALSE         \* only ever received, and read as a plain hello
    [] sv.k = "a_generic" -> Num2(sv.f.type, 1) \notin (0..11) \cup {65535} /\ (4 + Len(sv.f.data)) % 8 = 0
    [] sv.k = "qp_generic" -> Num2(sv.f.property, 1) \notin {0, 1} /\ (4 + Len(sv.f.data)) % 8 = 0
    [] sv.k \in {"sreq_generic", "srep_generic"} -> Num2(sv.f.stype, 1) \notin (0..5) \cup {65535}
    [] sv.k = "nxm" -> IF rx THEN NxmFromPeer(sv) ELSE NxmKnown(sv)
    [] sv.k = "fms" -> FmsRule(sv, rx)
    [] sv.k \in {"nx_flow_mod", "nxt_packet_in", "nxmatch"} -> NxmDistinct(sv.f.match)
    [] sv.k = "nx_flow_mod_table_id" -> sv.f.enable \in {<<0>>, <<1>>}
    [] sv.k = "nxa_reg_move" -> Hd(sv.f.src, rx) /\ Hd(sv.f.dst, rx)
    [] sv.k = "nxa_reg_load" -> Hd(sv.f.dst, rx)
    [] sv.k = "nxa_output_reg" -> Hd(sv.f.reg, rx)
    [] sv.k = "nxa_bundle" -> sv.f.slave_type = <<0, 0, 0, 2>> /\ sv.f.dst = <<0, 0, 0, 0>> /\ sv.f.ofs_nbits = <<0, 0>>
    [] sv.k = "nxa_bundle_load" -> sv.f.slave_type = <<0, 0, 0, 2>> /\ Hd(sv.f.dst, rx)
    [] OTHER -> TRUE
RECURSIVE Constructible(_), Receivable(_)
Constructible(sv) == OwnRule(sv, FALSE) /\ AllSubs(sv, Constructible)
Receivable(sv) == OwnRule(sv, TRUE) /\ AllSubs(sv, Receivable)

(* ---- what pack() does to the object itself ------------------------------- *)
(* NormalizeMaxLen: max_len of an output action is only meaningful towards the *)
(* controller; pack() sets it to 0 for every other port, in the object too, so *)
(* the object after its first encoding is the canonical one.                   *)
DescOf(k, n) == Layout[k][CHOOSE i \in 1..Len(Layout[k]) : Layout[k][i].n = n /\ Layout[k][i].t \in Valued]
RECURSIVE PackCanon(_)
PackCanon(sv) ==
  IF sv.k \in Special THEN sv
  ELSE LET g == [n \in DOMAIN sv.f |->
                  LET d == DescOf(sv.k, n) IN
                  IF d.t = "sub" THEN PackCanon(sv.f[n])
                  ELSE IF d.t \in Lists THEN [j \in 1..Len(sv.f[n]) |-> PackCanon(sv.f[n][j])]
                  ELSE sv.f[n]]
       IN IF sv.k = "a_output" /\ sv.f.port # CtrlPort THEN SV(sv.k, [g EXCEPT !.max_len = <<0, 0>>])
          ELSE SV(sv.k, g)
\* how a received structure is read when the library deliberately ignores part of it
RecvCanon(sv) == IF sv.k = "hello_ext" THEN SV("hello", [xid |-> sv.f.xid]) ELSE sv

(* ---- decoding -------------------------------------------------------------*)
\* which structure starts at b[o], for each list family
VendorActKind(b, o) ==
  IF Slice(b, o + 4, 4) # NXVendor THEN "a_vendor"
  ELSE LET st == Num2(b, o + 8)
           ks == {k \in DOMAIN NXActionSubtype : NXActionSubtype[k] = st}
       IN IF ks = {} THEN "a_vendor" ELSE CHOOSE k \in ks : TRUE
ActKind(b, o) ==
  LET t == Num2(b, o) IN
  CASE t = 0 -> "a_output" [] t = 1 -> "a_set_vlan_vid" [] t = 2 -> "a_set_vlan_pcp" [] t = 3 -> "a_strip_vlan"
    [] t = 4 -> "a_set_dl_src" [] t = 5 -> "a_set_dl_dst" [] t = 6 -> "a_set_nw_src" [] t = 7 -> "a_set_nw_dst"
    [] t = 8 -> "a_set_nw_tos" [] t = 9 -> "a_set_tp_src" [] t = 10 -> "a_set_tp_dst" [] t = 11 -> "a_enqueue"
    [] t = 65535 -> VendorActKind(b, o) [] OTHER -> "a_generic"
ElemKind(fam, b, o) ==
  CASE fam = "action" -> ActKind(b, o)
    [] fam = "port" -> "phy_port"
    [] fam = "queue" -> "packet_queue"
    [] fam = "prop" -> (IF Num2(b, o) = 0 THEN "qp_none" ELSE IF Num2(b, o) = 1 THEN "qp_min_rate" ELSE "qp_generic")
    [] fam = "flowstat" -> "flow_stats"
    [] fam = "tablestat" -> "table_stats"
    [] fam = "portstat" -> "port_stats"
    [] fam = "queuestat" -> "queue_stats"
    [] fam = "u16" -> "u16"
    [] fam = "nxm" -> "nxm"
    [] fam = "fms" -> "fms"
\* number of bytes the structure at b[o] occupies (0 = cannot tell / malformed)
ElemLen(fam, b, o, e) ==
  CASE fam \in {"action", "prop"} -> IF o + 4 <= e THEN Num2(b, o + 2) ELSE 0
    [] fam = "queue" -> IF o + 8 <= e THEN Num2(b, o + 4) ELSE 0
    [] fam = "flowstat" -> IF o + 2 <= e THEN Num2(b, o) ELSE 0
    [] fam = "port" -> 48 [] fam = "tablestat" -> 64 [] fam = "portstat" -> 104 [] fam = "queuestat" -> 32
    [] fam = "u16" -> 2
    [] fam = "nxm" -> IF o + 4 <= e THEN NxmLen(b, o) ELSE 0
    [] fam = "fms" -> IF o + 2 <= e THEN FmsLen(b, o) ELSE 0
StatsKind(dir, t) ==
  CASE t = 0 -> dir \o "_desc" [] t = 1 -> dir \o "_flow" [] t = 2 -> dir \o "_aggregate" [] t = 3 -> dir \o "_table"
    [] t = 4 -> dir \o "_port" [] t = 5 -> dir \o "_queue" [] t = 65535 -> dir \o "_vendor"
    [] OTHER -> dir \o "_generic"
VendorMsgKind(b, o) ==
  IF Slice(b, o + 8, 4) # NXVendor \/ b[o + 12] # 0 \/ b[o + 13] # 0 \/ b[o + 14] # 0 THEN "vendor"
  ELSE LET ks == {k \in DOMAIN NXMsgSubtype : NXMsgSubtype[k] = b[o + 15]}
       IN IF ks = {} THEN "vendor" ELSE CHOOSE k \in ks : TRUE
MsgKind(b, o) ==                        \* dispatch on the type byte (and stats type / vendor + subtype)
  LET t == b[o + 1] IN
  CASE t = 0 -> (IF Num2(b, o + 2) = 8 THEN "hello" ELSE "hello_ext")
    [] t = 1 -> "error" [] t = 2 -> "echo_request" [] t = 3 -> "echo_reply"
    [] t = 4 -> VendorMsgKind(b, o) [] t = 5 -> "features_request" [] t = 6 -> "features_reply"
    [] t = 7 -> "get_config_request" [] t = 8 -> "get_config_reply" [] t = 9 -> "set_config"
    [] t = 10 -> "packet_in" [] t = 11 -> "flow_removed" [] t = 12 -> "port_status" [] t = 13 -> "packet_out"
    [] t = 14 -> "flow_mod" [] t = 15 -> "port_mod" [] t = 16 -> StatsKind("sreq", Num2(b, o + 8))
    [] t = 17 -> StatsKind("srep", Num2(b, o + 8)) [] t = 18 -> "barrier_request" [] t = 19 -> "barrier_reply"
    [] t = 20 -> "queue_get_config_request" [] t = 21 -> "queue_get_config_reply" [] OTHER -> "?"

Bad == [ok |-> FALSE, v |-> SV("?", <<>>)]
AllZero(b, o, n) == \A i \in 0..(n - 1) : b[o + i] = 0
StrVal(b, o, w) ==                      \* text before the first NUL; the padding must be NUL throughout
  LET nz == {i \in 0..(w - 1) : b[o + i] = 0}
      n == IF nz = {} THEN w ELSE CHOOSE i \in nz : \A j \in nz : i <= j
  IN [ok |-> AllZero(b, o + n, w - n), v |-> Slice(b, o, n)]

RECURSIVE DecS(_, _, _, _), DecList(_, _, _, _, _), DecFields(_, _, _, _, _, _, _, _)
\* the structure of kind k occupying exactly b[o .. e-1]
DecS(k, b, o, e) ==
  CASE k = "match" -> IF e = o + MatchSize THEN DecMatch(b, o) ELSE Bad
    [] k = "nxm" -> DecNxm(b, o, e)
    [] k = "fms" -> DecFms(b, o, e)
    [] k \notin Kinds -> Bad
    [] OTHER -> IF e - o < Declared[k] THEN Bad ELSE DecFields(k, 1, b, o, o, e, <<>>, <<>>)
\* structures of family fam in b[p .. e-1].  opt.cnt >= 0: exactly cnt of them (then e is only a limit);
\* opt.z: stop at a zero 16-bit header.  First the boundaries are found by following the length fields
\* (an iteration, so that 8000 actions do not need 8000 nested evaluations), then each piece is decoded.
MinLen(fam) == CASE fam \in {"action", "prop", "queue"} -> 8 [] fam = "flowstat" -> 88 [] fam = "port" -> 48
                 [] fam = "tablestat" -> 64 [] fam = "portstat" -> 104 [] fam = "queuestat" -> 32
                 [] fam = "nxm" -> 5 [] OTHER -> 2
Scan(fam, b, p, e, opt) ==
  FoldLeft(LAMBDA acc, i :
             IF acc.stop THEN acc
             ELSE IF IF opt.cnt >= 0 THEN Len(acc.at) = opt.cnt
                     ELSE (acc.p = e \/ (opt.z /\ acc.p + 2 <= e /\ Num2(b, acc.p) = 0))
                  THEN [acc EXCEPT !.stop = TRUE]
                  ELSE LET n == IF acc.p >= e THEN 0 ELSE ElemLen(fam, b, acc.p, e) IN
                       IF n = 0 \/ acc.p + n > e THEN [acc EXCEPT !.stop = TRUE, !.ok = FALSE]
                       ELSE [acc EXCEPT !.at = Append(@, <<acc.p, n>>), !.p = acc.p + n],
           [p |-> p, at |-> <<>>, ok |-> TRUE, stop |-> FALSE],
           [i \in 1..((e - p) \div MinLen(fam) + 2) |-> i])
DecList(fam, b, p, e, opt) ==
  LET sc == Scan(fam, b, p, e, opt)
      rs == [j \in 1..Len(sc.at) |-> DecS(ElemKind(fam, b, sc.at[j][1]), b, sc.at[j][1], sc.at[j][1] + sc.at[j][2])]
  IN [ok |-> sc.ok /\ sc.stop /\ \A j \in 1..Len(rs) : rs[j].ok, v |-> [j \in 1..Len(rs) |-> rs[j].v], p |-> sc.p]
NoOpt == [cnt |-> 0 - 1, z |-> FALSE]
DecFields(k, i, b, o, p, e, acc, aux) ==
  IF i > Len(Layout[k]) THEN [ok |-> p = e, v |-> SV(k, acc)]
  ELSE
  LET d == Layout[k][i]
      next(p2, acc2, aux2) == DecFields(k, i + 1, b, o, p2, e, acc2, aux2)
  IN
  IF d.t \in {"u", "pad", "const", "len", "lenof", "cntof", "str"} /\ p + d.w > e THEN Bad
  ELSE
  CASE d.t = "u" -> next(p + d.w, acc @@ (d.n :> Slice(b, p, d.w)), aux)
    [] d.t = "pad" -> IF AllZero(b, p, d.w) THEN next(p + d.w, acc, aux) ELSE Bad
    [] d.t = "const" -> IF Slice(b, p, d.w) = d.c THEN next(p + d.w, acc, aux) ELSE Bad
    [] d.t = "len" -> IF Num2(b, p) = e - o THEN next(p + 2, acc, aux) ELSE Bad
    [] d.t \in {"lenof", "cntof"} -> next(p + 2, acc, aux @@ (d.n :> Num2(b, p)))
    [] d.t = "str" -> LET s == StrVal(b, p, d.w) IN IF s.ok THEN next(p + d.w, acc @@ (d.n :> s.v), aux) ELSE Bad
    [] d.t = "rest" -> next(e, acc @@ (d.n :> Slice(b, p, e - p)), aux)
    [] d.t = "sub" -> LET n == IF d.k = "match" THEN MatchSize ELSE Declared[d.k] IN
                      IF p + n > e THEN Bad
                      ELSE LET r == DecS(d.k, b, p, p + n) IN
                           IF r.ok THEN next(p + n, acc @@ (d.n :> r.v), aux) ELSE Bad
    [] d.t = "list" -> LET r == DecList(d.k, b, p, e, NoOpt) IN
                       IF r.ok THEN next(e, acc @@ (d.n :> r.v), aux) ELSE Bad
    [] d.t = "listn" -> IF p + aux[d.n] > e THEN Bad
                        ELSE LET r == DecList(d.k, b, p, p + aux[d.n], NoOpt) IN
                             IF r.ok THEN next(p + aux[d.n], acc @@ (d.n :> r.v), aux @@ ((d.n \o "#") :> aux[d.n]))
                             ELSE Bad
    [] d.t = "listc" -> LET r == DecList(d.k, b, p, e, [cnt |-> aux[d.n], z |-> FALSE]) IN
                        IF r.ok THEN next(r.p, acc @@ (d.n :> r.v), aux @@ ((d.n \o "#") :> r.p - p)) ELSE Bad
    [] d.t = "listz" -> LET r == DecList(d.k, b, p, e, [cnt |-> 0 - 1, z |-> TRUE]) IN
                        IF r.ok THEN next(r.p, acc @@ (d.n :> r.v), aux @@ ((d.n \o "#") :> r.p - p)) ELSE Bad
    [] d.t = "pad8" -> LET n == PadTo8(aux[d.n \o "#"]) IN   \* "#": the number of bytes the list occupied
                       IF p + n <= e /\ AllZero(b, p, n) THEN next(p + n, acc, aux) ELSE Bad

\* decode the message that starts at b[o]: its extent is the header's length field
DecMsg(b, o) ==
  IF o + 8 > Len(b) + 1 THEN [ok |-> FALSE, v |-> SV("?", <<>>), n |-> 0]
  ELSE LET n == Num2(b, o + 2) IN
       IF n < 8 \/ o + n > Len(b) + 1 THEN [ok |-> FALSE, v |-> SV("?", <<>>), n |-> 0]
       ELSE LET r == DecS(MsgKind(b, o), b, o, o + n) IN [ok |-> r.ok, v |-> r.v, n |-> n]
\* decode any top-level case: messages by dispatch, bare structures by their kind
\* (ByClass: messages whose type code belongs to another class; the receiver names the class)
ByClass == {"nx_ofp_flow_mod_table_id"}
DecTop(k, b, o, e) ==
  IF k \in ByClass THEN LET r == DecS(k, b, o, o + Num2(b, o + 2)) IN [ok |-> r.ok, v |-> r.v, n |-> Num2(b, o + 2)]
  ELSE IF IsMsg(k) THEN DecMsg(b, o)
  ELSE LET r == DecS(k, b, o, e) IN [ok |-> r.ok, v |-> r.v, n |-> e - o]

(* ========================================================================= *)
(* Part 3: the life cycle of one object                                       *)
VARIABLES phase,     \* "idle" | "chosen" | "encoded" | "decoded" | "done"
          msg,       \* the object as the caller last left it (abstract value)
          wire,      \* bytes of the last encoding
          dec,       \* what the peer decoded
          consumed,  \* how many bytes the peer's decoder consumed
          wire2,     \* re-encoding of the decoded object
          todo,      \* modifications the caller still performs (sequence of [path, v])
          rx,        \* "" the object was built here | "keep" / "canon": its bytes came from a peer and the
                     \* library preserves / deliberately canonicalises that encoding
          last, hist
vars == <<phase, msg, wire, dec, consumed, wire2, todo, rx, last, hist>>
view == <<phase, msg, wire, dec, consumed, wire2, todo, rx>>

None == SV("none", <<>>)
Init == /\ phase = "idle" /\ msg = None /\ wire = <<>> /\ dec = None /\ consumed = 0 /\ wire2 = <<>>
        /\ todo = <<>> /\ rx = ""
        /\ last = [a |-> "Init", args |-> [x |-> 0], exp |-> [x |-> 0]] /\ hist = <<>>
Log(a, args, exp) == /\ last' = [a |-> a, args |-> args, exp |-> exp]
                     /\ hist' = Append(hist, [a |-> a, args |-> args, exp |-> exp])

\* junk that surrounds the message in the receiver's buffer (a stream of other messages)
Junk(n) == [i \in 1..n |-> (i * 37 + 11) % 256]

\* the caller constructs an object
Choose(c) ==
  /\ phase = "idle"
  /\ phase' = "chosen" /\ msg' = c.msg /\ todo' = c.mods
  /\ UNCHANGED <<wire, dec, consumed, wire2, rx>>
  /\ Log("Choose", [tag |-> c.tag, msg |-> c.msg], [ok |-> TRUE])

\* bytes arrive from a peer: wire-legal, but not necessarily what the library's own encoder would produce.
\* msg becomes what a faithful decoder reads from them.
Receive(r) ==
  /\ phase = "idle"
  /\ LET d == DecTop(r.k, r.wire, 1, 1 + Len(r.wire)) IN
       msg' = IF d.ok THEN RecvCanon(d.v) ELSE Bad.v           \* (TypeOK fails if the oracle cannot read it)
  /\ wire' = r.wire /\ rx' = (IF r.keep THEN "keep" ELSE "canon")
  /\ phase' = "encoded" /\ todo' = <<>>
  /\ UNCHANGED <<dec, consumed, wire2>>
  /\ Log("Receive", [tag |-> r.tag, kind |-> r.k, wire |-> r.wire], [ok |-> TRUE])

\* is the next thing the caller does a modification of kind w ("pre": still constructing; "post")?
Pending(w) == IF todo = <<>> THEN FALSE ELSE Head(todo).when = w

\* obj.pack() and len(obj)
Encode ==
  /\ phase = "chosen" /\ ~Pending("pre")
  /\ LET m == PackCanon(msg)
         w == Wire(m)
     IN /\ msg' = m /\ wire' = w
        /\ Log("Encode", [x |-> 0], [len |-> SizeOf(m), wire |-> w, free |-> FreeBits(m)])
  /\ phase' = "encoded"
  /\ UNCHANGED <<dec, consumed, wire2, todo, rx>>

\* the caller changes the object it has already encoded once.  A path is a sequence of steps
\* [f |-> field name, i |-> 0 (the field itself) or the index of an element of that list field];
\* op = "set" replaces the value there, op = "append" appends v to the list there.
RECURSIVE Put(_, _, _, _)
Put(x, path, op, v) ==                  \* x is a structure value
  LET h == Head(path)
      old == x.f[h.f]
      new == IF Len(path) = 1
             THEN (IF h.i = 0 THEN (IF op = "set" THEN v ELSE Append(old, v))
                   ELSE [old EXCEPT ![h.i] = v])
             ELSE (IF h.i = 0 THEN Put(old, Tail(path), op, v)
                   ELSE [old EXCEPT ![h.i] = Put(old[h.i], Tail(path), op, v)])
  IN [x EXCEPT !.f = [x.f EXCEPT ![h.f] = new]]
\* op = "setf": several fields of the structure at the path are written at once (value, or <<>> = None for a
\* match field); an empty path is the object itself.  The last write wins, whatever was there before.
RECURSIVE PutF(_, _, _)
PutF(x, path, fields) ==
  IF path = <<>> THEN [x EXCEPT !.f = fields @@ x.f]
  ELSE LET h == Head(path)
           old == x.f[h.f]
           new == IF h.i = 0 THEN PutF(old, Tail(path), fields)
                  ELSE [old EXCEPT ![h.i] = PutF(old[h.i], Tail(path), fields)]
       IN [x EXCEPT !.f = [x.f EXCEPT ![h.f] = new]]
\* A modification carries `when`: "pre" = part of the construction history (before the first encoding),
\* "post" = after the object has been encoded (pack - mutate - pack); `form` names the spelling the caller
\* uses (attribute, (addr, bits) tuple, CIDR text, set_nw_* method, direct wildcards assignment): the value of
\* the object, hence its encoding, depends only on what was written last, never on the spelling or the order.
Modify ==
  /\ todo # <<>>
  /\ (IF Head(todo).when = "pre" THEN phase = "chosen" ELSE phase = "encoded")
  /\ LET m == Head(todo) IN
       /\ msg' = IF m.op = "setf" THEN PutF(msg, m.path, m.v) ELSE Put(msg, m.path, m.op, m.v)
       /\ Log("Modify", [path |-> m.path, op |-> m.op, v |-> m.v, when |-> m.when, form |-> m.form], [ok |-> TRUE])
  /\ phase' = "chosen" /\ todo' = Tail(todo)
  /\ UNCHANGED <<wire, dec, consumed, wire2, rx>>

\* the peer decodes.  src = "spec": the bytes are the canonical image computed here; src = "own": the
\* bytes the implementation itself produced in Encode (they differ only in free bits, so this choice
\* exists only when there are free bits).  The message sits at offset pre in a buffer that continues
\* with post foreign bytes.
Decode(src, pre, post) ==
  /\ phase = "encoded" /\ todo = <<>>
  /\ (IF src = "spec" THEN TRUE ELSE src = "own" /\ rx = "" /\ HasMatch(msg) /\ FreeBits(msg) # {})
  /\ <<pre, post>> \in Around
  /\ LET buf == Junk(pre) \o wire \o Junk(post)
         r == DecTop(msg.k, buf, pre + 1, pre + 1 + Len(wire))
         v == IF r.ok THEN RecvCanon(r.v) ELSE Bad.v   \* (Lossless fails if the oracle cannot decode its own image)
     IN /\ dec' = v /\ consumed' = r.n
        /\ Log("Decode", [src |-> src, pre |-> Junk(pre), post |-> Junk(post), wire |-> wire],
               [consumed |-> r.n, eq |-> v = msg, val |-> v])
  /\ phase' = "decoded"
  /\ UNCHANGED <<msg, wire, wire2, todo, rx>>

\* obj2.pack()
Reencode ==
  /\ phase = "decoded"
  /\ LET m == PackCanon(dec)
         w == Wire(m)
     IN /\ dec' = m /\ wire2' = w
        \* rt: decoding these bytes again yields the same object (Idempotent below)
        /\ Log("Reencode", [x |-> 0], [len |-> SizeOf(m), wire |-> w, free |-> FreeBits(m), rt |-> TRUE])
  /\ phase' = "done"
  /\ UNCHANGED <<msg, wire, consumed, todo, rx>>

DecodeAny == \E src \in {"spec", "own"}, pp \in Around : Decode(src, pp[1], pp[2])
ChooseAny == \E c \in Cases : Choose(c)
ReceiveAny == \E r \in RCases : Receive(r)
Next == ChooseAny \/ ReceiveAny \/ Encode \/ Modify \/ DecodeAny \/ Reencode
Spec == Init /\ [][Next]_vars

(* ========================================================================= *)
(* Part 4: the property                                                       *)
(* Each invariant is stated for the phase in which the variables it reads were last written (the later  *)
(* phases leave them UNCHANGED), which keeps TLC from re-encoding the same object in every state.       *)
TypeOK == /\ phase \in {"idle", "chosen", "encoded", "decoded", "done"}
          /\ (phase = "chosen" /\ ~Pending("pre") => WF(msg) /\ Constructible(msg))
          /\ (phase = "encoded" /\ rx # "" => WF(msg) /\ Receivable(msg))
          /\ (phase = "encoded" => IsBytes(wire))
          /\ (phase = "done" => IsBytes(wire2))
\* the header length field (or the structure's own length field / declared size) is the byte count
LenFieldOK ==
  phase = "encoded" =>
    /\ (rx # "canon" => Len(wire) = SizeOf(msg))
    /\ (IsMsg(msg.k) => Num2(wire, 3) = Len(wire) /\ wire[1] = 1)
    /\ Len(wire) <= 65535
\* decoding consumes exactly the message and loses nothing
ConsumedOK == phase = "decoded" => consumed = Len(wire)
Lossless == phase = "decoded" => dec = msg
\* re-encoding reproduces the bytes
\* (of a peer's bytes too, whenever the library claims to preserve that encoding)
Stable == phase = "done" /\ rx # "canon" => wire2 = wire
\* ... and in every case the re-encoding decodes to the very object it was made from
Idempotent == phase = "done" =>
                LET r == DecTop(dec.k, wire2, 1, 1 + Len(wire2)) IN
                r.ok /\ RecvCanon(r.v) = dec /\ r.n = Len(wire2)
\* an encoding is always that of the object as it is now (no stale image after a change)
Fresh == phase = "encoded" /\ rx # "canon" => wire = Wire(msg)
\* every action and queue property occupies a multiple of 8 bytes
RECURSIVE Aligned(_)
Aligned(sv) ==
  /\ (sv.k \in ActionKinds \cup PropKinds \cup {"packet_queue"} => SizeOf(sv) % 8 = 0)
  /\ AllSubs(sv, Aligned)
Mult8 == phase = "chosen" /\ ~Pending("pre") => Aligned(msg)

\* ---- export for the replay harness
Export == (phase = "done") => PrintT(<<"H", ToJson(hist)>>)
ExportT == PrintT(<<"T", ToJson(hist')>>)
=============================================================================
