---- MODULE MC_t_match_fm ----
EXTENDS MCOFWire
TheCases == MatchIn("flow_mod", MFlagsAll \cup MBits(BitsT) \cup MTypes \cup MVals, "t")
TheAround == AroundBoth
====
