---- MODULE MC_t_match_fm ----
EXTENDS MCOFWire
TheCases == MatchIn("flow_mod", MFlagsAll(0) \cup MBits(BitsT) \cup MTypes(0) \cup MVals(0), "t")
TheRCases == {}
TheAround == AroundBoth
====
