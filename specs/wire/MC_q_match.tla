---- MODULE MC_q_match ----
EXTENDS MCOFWire
TheCases == MatchIn("match", MFlagsAll \cup MBits(BitsQ) \cup MTypes \cup MVals, "all") \cup MatchIn("flow_mod", MFlags2 \cup MBits(BitsQ) \cup MTypes \cup MVals, "q") \cup UNION {MatchIn(k, MFlags1 \cup MTypes, "q") : k \in MatchKinds \ {"match", "flow_mod"}}
TheAround == AroundOne
====
