---- MODULE MC_q_match ----
EXTENDS MCOFWire
TheCases == MatchIn("match", MFlags2(0) \cup MFlagsCo(2) \cup MBits(BitsQ) \cup MTypes(0) \cup MVals(0), "q") \cup MatchIn("flow_mod", MFlags2(0) \cup MFlagsCo(2) \cup MBits(BitsQ) \cup MTypes(0) \cup MVals(0), "q") \cup UNION {MatchIn(k, MFlags1(0) \cup MTypes(0), "q") : k \in MatchKinds \ {"match", "flow_mod"}}
TheRCases == {}
TheAround == AroundOne
====
