------------------------------ MODULE MCOFWire ------------------------------
(* C01: the families of objects TLC enumerates for OFWire.tla.  Every value   *)
(* is built from the layout tables, so a kind or field added to the tables is *)
(* enumerated without further work.                                           *)
(*   value classes of a field: Z all-zero, M all-ones, S sign bit only,       *)
(*   Q largest positive, P a pattern that differs from field to field,        *)
(*   T octets that read as text (colons - a binary Ethernet address of five   *)
(*   0x3a octets is still an address)                                         *)
EXTENDS OFWire

Classes == {"Z", "M", "S", "Q", "P"}
DevClasses == {"M", "S", "Q", "P", "T"}
Pat(c, w, salt) ==
  CASE c = "Z" -> Zeros(w)
    [] c = "M" -> Fill(w, 255)
    [] c = "S" -> <<128>> \o Zeros(w - 1)
    [] c = "Q" -> <<127>> \o Fill(w - 1, 255)
    [] c = "P" -> [i \in 1..w |-> ((salt * 16 + i) % 255) + 1]
    [] c = "T" -> [i \in 1..w |-> IF i < w THEN 58 ELSE 1]
StrPat(c, w, salt) ==                                   \* text: no NUL inside
  CASE c = "Z" -> <<>>
    [] c = "M" -> Fill(w, 255)                          \* fills the field: no terminator on the wire
    [] c = "S" -> <<128>>
    [] c = "Q" -> [i \in 1..(w - 1) |-> 255 - (i % 7)]  \* one NUL of padding
    [] c = "P" -> [i \in 1..(w \div 2) |-> ((salt * 16 + i) % 255) + 1]
    [] c = "T" -> [i \in 1..(w \div 2) |-> 58]
RestPat(c, n) ==
  CASE c = "Z" -> Zeros(n) [] c = "M" -> Fill(n, 255) [] OTHER -> [i \in 1..n |-> (i * 7 + 3) % 256]

(* ---- shapes: how long the variable parts of a structure are -------------- *)
Wild == [n \in {MatchFields[i] : i \in 1..12} |-> <<>>] @@ [nw_src_bits |-> <<0>>, nw_dst_bits |-> <<0>>]
AllWild == SV("match", Wild)
Sh(k, n, els, m) == [k |-> k, n |-> n, els |-> els, m |-> m]
S0(k) == Sh(k, 0, <<>>, AllWild)
Sn(k, n) == Sh(k, n, <<>>, AllWild)
Sl(k, els) == Sh(k, 0, els, AllWild)
DescIndex(k, n) == CHOOSE i \in 1..Len(Layout[k]) : Layout[k][i].n = n /\ Layout[k][i].t \in Valued
RECURSIVE Build(_, _)
Build(c, sh) ==
  IF sh.k \in Special THEN sh.m
  ELSE SV(sh.k, [n \in FieldNames(sh.k) |->
         LET i == DescIndex(sh.k, n)
             d == Layout[sh.k][i]
         IN CASE d.t = "u" -> Pat(c, d.w, i)
              [] d.t = "str" -> StrPat(c, d.w, i)
              [] d.t = "rest" -> RestPat(c, sh.n)
              [] d.t = "sub" -> IF d.k = "match" THEN sh.m ELSE Build(c, Sh(d.k, 0, <<>>, sh.m))
              [] d.t \in Lists -> LET mine == SelectSeq(sh.els, LAMBDA e : (e.k = "nxm") = (d.k = "nxm"))
                                   IN [j \in 1..Len(mine) |-> Build(c, mine[j])]])

(* ---- matches -------------------------------------------------------------- *)
ExactTCP == [in_port |-> <<0, 3>>, dl_src |-> <<0, 17, 34, 51, 68, 85>>, dl_dst |-> <<2, 160, 176, 192, 208, 224>>,
             dl_vlan |-> <<0, 100>>, dl_vlan_pcp |-> <<5>>, dl_type |-> IPType, nw_tos |-> <<184>>,
             nw_proto |-> <<6>>, nw_src |-> <<10, 1, 2, 3>>, nw_dst |-> <<192, 168, 255, 129>>,
             tp_src |-> <<4, 210>>, tp_dst |-> <<0, 80>>, nw_src_bits |-> <<32>>, nw_dst_bits |-> <<32>>]
FlagFields == {"in_port", "dl_src", "dl_dst", "dl_vlan", "dl_vlan_pcp", "dl_type", "nw_tos", "nw_proto",
               "tp_src", "tp_dst"}
\* prerequisite-normal form: fields whose prerequisite is not met are wildcarded
Normal(v) ==
  LET dlt == v.dl_type
      proto == IF PrereqMet("nw_proto", dlt, <<>>) THEN v.nw_proto ELSE <<>>
  IN [n \in DOMAIN v |->
       CASE n = "nw_src_bits" -> IF PrereqMet("nw_src", dlt, proto) /\ v.nw_src # <<>> THEN v[n] ELSE <<0>>
         [] n = "nw_dst_bits" -> IF PrereqMet("nw_dst", dlt, proto) /\ v.nw_dst # <<>> THEN v[n] ELSE <<0>>
         [] OTHER -> IF PrereqMet(n, dlt, proto) THEN v[n] ELSE <<>>]
WildSet(v, W) == Normal([n \in DOMAIN v |-> IF n \in W THEN <<>> ELSE v[n]])
MaskIP(a, bits) ==
  IF bits = 0 THEN <<>>
  ELSE [j \in 1..4 |-> LET keep == IF bits >= 8 * j THEN 8 ELSE IF bits <= 8 * (j - 1) THEN 0 ELSE bits - 8 * (j - 1)
                       IN a[j] - (a[j] % (2 ^ (8 - keep)))]
WithBits(v, sb, db) == [v EXCEPT !.nw_src = MaskIP(@, sb), !.nw_src_bits = <<sb>>,
                                 !.nw_dst = MaskIP(@, db), !.nw_dst_bits = <<db>>]
ARP == Normal([ExactTCP EXCEPT !.dl_type = ARPType, !.nw_proto = <<2>>])
OtherType(t) == Normal([ExactTCP EXCEPT !.dl_type = t])
Proto(p) == Normal([ExactTCP EXCEPT !.nw_proto = p])
BitsQ == {0, 1, 8, 24, 31, 32}
BitsT == {0, 1, 7, 8, 9, 15, 16, 17, 23, 24, 25, 31, 32}
MFlags1(lazy) == {WildSet(ExactTCP, W) : W \in {X \in SUBSET FlagFields : Cardinality(X) <= 1}}
MFlags2(lazy) == {WildSet(ExactTCP, W) : W \in {X \in SUBSET FlagFields : Cardinality(X) <= 2}}
\* ... and the other end: all but at most n fields wildcarded
MFlagsCo(n) == {WildSet(ExactTCP, FlagFields \ W) : W \in {X \in SUBSET FlagFields : Cardinality(X) <= n}}
MFlagsAll(lazy) == {WildSet(ExactTCP, W) : W \in SUBSET FlagFields}
MBits(B) == {WithBits(ExactTCP, sb, db) : sb \in B, db \in B}
             \cup {WithBits(ARP, sb, db) : sb \in B, db \in {0, 32}}
MTypes(lazy) == {ExactTCP, ARP, Wild, OtherType(<<136, 204>>), OtherType(<<134, 221>>), OtherType(<<5, 255>>),
           OtherType(<<0, 0>>), Proto(<<17>>), Proto(<<1>>), Proto(<<47>>), Proto(<<132>>), Proto(<<0>>),
           WildSet(ARP, {"nw_proto"}), WildSet(ARP, {"dl_src", "in_port"}),
           Normal([Wild EXCEPT !.dl_type = IPType]), Normal([Wild EXCEPT !.dl_type = ARPType]),
           Normal([Wild EXCEPT !.dl_type = IPType, !.nw_proto = <<6>>, !.tp_dst = <<0, 22>>]),
           Normal([Wild EXCEPT !.nw_src = <<10, 0, 0, 0>>, !.nw_src_bits = <<8>>]),    \* prerequisite unmet: wildcarded
           Normal([Wild EXCEPT !.dl_type = IPType, !.nw_src = <<10, 0, 0, 0>>, !.nw_src_bits = <<8>>])}
MVals(lazy) == {Normal([ExactTCP EXCEPT ![n] = Pat(c, MatchW[n], 3)]) :
            n \in {MatchFields[i] : i \in 1..12}, c \in Classes}
Matches(S) == {SV("match", v) : v \in S}

(* ---- default shapes: some content in every variable part ------------------ *)
ActKindsOF == {"a_output", "a_set_vlan_vid", "a_set_vlan_pcp", "a_strip_vlan", "a_set_dl_src", "a_set_dl_dst",
               "a_set_nw_src", "a_set_nw_dst", "a_set_nw_tos", "a_set_tp_src", "a_set_tp_dst", "a_enqueue",
               "a_vendor"}
ActSeq == <<"a_output", "a_set_vlan_vid", "a_set_vlan_pcp", "a_strip_vlan", "a_set_dl_src", "a_set_dl_dst",
            "a_set_nw_src", "a_set_nw_dst", "a_set_nw_tos", "a_set_tp_src", "a_set_tp_dst", "a_enqueue", "a_vendor">>
ASh(k) == IF k = "a_vendor" THEN Sn(k, 8) ELSE IF k = "a_generic" THEN Sn(k, 4) ELSE S0(k)
TwoActs == <<ASh("a_set_dl_src"), ASh("a_set_tp_dst")>>
QSh(props) == Sl("packet_queue", props)
FSh(m, acts) == Sh("flow_stats", 0, acts, m)
TCPMatch == SV("match", ExactTCP)
DefShape(k) ==
  CASE k \in {"error", "echo_request", "echo_reply", "vendor", "packet_in", "packet_out", "sreq_vendor",
              "srep_vendor"} -> Sh(k, 5, IF k = "packet_out" THEN TwoActs ELSE <<>>, AllWild)
    [] k = "features_reply" -> Sl(k, <<S0("phy_port"), S0("phy_port")>>)
    [] k = "flow_mod" -> Sh(k, 0, TwoActs, TCPMatch)
    [] k \in {"flow_removed", "sreq_flow", "sreq_aggregate", "match"} -> Sh(k, 0, <<>>, TCPMatch)
    [] k = "queue_get_config_reply" -> Sl(k, <<QSh(<<S0("qp_min_rate")>>), QSh(<<>>), QSh(<<S0("qp_none"), S0("qp_min_rate")>>)>>)
    [] k = "srep_flow" -> Sl(k, <<FSh(TCPMatch, TwoActs), FSh(AllWild, <<>>)>>)
    [] k = "srep_table" -> Sl(k, <<S0("table_stats"), S0("table_stats")>>)
    [] k = "srep_port" -> Sl(k, <<S0("port_stats"), S0("port_stats")>>)
    [] k = "srep_queue" -> Sl(k, <<S0("queue_stats"), S0("queue_stats")>>)
    [] k = "actions" -> Sl(k, [i \in 1..13 |-> ASh(ActSeq[i])] \o <<Sn("a_generic", 12)>>)
    [] k = "props" -> Sl(k, <<S0("qp_min_rate"), S0("qp_none"), Sn("qp_generic", 4)>>)
    [] k \in {"sreq_generic", "srep_generic"} -> Sn(k, 5)
    [] OTHER -> S0(k)
\* base for single-field deviations: class Z must be constructible, so no payload where Z forbids it
BaseShape(k) == IF k \in {"packet_in", "packet_out"} THEN [DefShape(k) EXCEPT !.n = 0] ELSE DefShape(k)

OFMsgKinds == MsgKinds \ (DOMAIN NXMsgLayout)
StatsKinds == {k \in OFMsgKinds : Layout[k][2].c \in {<<16>>, <<17>>}}
TopKindsOF == OFMsgKinds \cup {"match", "phy_port", "actions", "props"}

C(tag, m) == [tag |-> tag, msg |-> m, mods |-> <<>>]
Good(S) == {c \in S : WF(c.msg) /\ Constructible(c.msg)}

(* ---- families ------------------------------------------------------------- *)
\* every kind, every class in every field at once
Uniform(K) == Good({C(k \o "/uniform/" \o c, Build(c, DefShape(k))) : k \in K, c \in Classes})
\* ... and with every variable part empty
Empty(K) == Good({C(k \o "/empty/" \o c, Build(c, S0(k))) : k \in K, c \in {"Z", "P"}})

\* every scalar field (at any depth) of the base value, one at a time, in every class
Step(f, i) == [f |-> f, i |-> i]
RECURSIVE ScalarPaths(_)
ScalarPaths(sv) ==
  IF sv.k \in Special THEN {}
  ELSE UNION {LET d == Layout[sv.k][i] IN
              CASE d.t \in {"u", "str"} -> {<<Step(d.n, 0)>>}
                [] d.t = "sub" -> {<<Step(d.n, 0)>> \o p : p \in ScalarPaths(sv.f[d.n])}
                [] d.t \in Lists -> UNION {{<<Step(d.n, j)>> \o p : p \in ScalarPaths(sv.f[d.n][j])} :
                                            j \in 1..Len(sv.f[d.n])}
                [] OTHER -> {} : i \in 1..Len(Layout[sv.k])}
RECURSIVE At(_, _)
At(sv, path) == LET h == Head(path)
                    x == IF h.i = 0 THEN sv.f[h.f] ELSE sv.f[h.f][h.i]
                IN IF Len(path) = 1 THEN [sv |-> sv, f |-> h.f] ELSE At(x, Tail(path))
PathTag(path) == LET h == path[Len(path)] IN h.f
DevValue(sv, path, c) ==
  LET a == At(sv, path)
      i == DescIndex(a.sv.k, a.f)
      d == Layout[a.sv.k][i]
  IN IF d.t = "str" THEN StrPat(c, d.w, i) ELSE Pat(c, d.w, i + Len(path))
Deviations(K) ==
  Good(UNION {LET b == Build("Z", BaseShape(k)) IN
              {C(k \o "/dev/" \o PathTag(p) \o "/" \o c, Put(b, p, "set", DevValue(b, p, c))) :
                 p \in ScalarPaths(b), c \in DevClasses} : k \in K})
\* two top-level fields at once
TopScalars(k) == IF k \in Special THEN {} ELSE {Layout[k][i].n : i \in {j \in 1..Len(Layout[k]) : Layout[k][j].t = "u"}}
Pairs(K) ==
  Good(UNION {LET b == Build("Z", BaseShape(k)) IN
              {C(k \o "/pair/" \o xy[1] \o "+" \o xy[2],
                 Put(Put(b, <<Step(xy[1], 0)>>, "set", DevValue(b, <<Step(xy[1], 0)>>, "P")),
                     <<Step(xy[2], 0)>>, "set", DevValue(b, <<Step(xy[2], 0)>>, "M"))) :
                 xy \in {p \in TopScalars(k) \X TopScalars(k) : p[1] # p[2]}} : k \in K})

\* output actions: max_len matters only towards the controller
Outputs(lazy) ==
  Good({C("actions/output/" \o c, SV("actions", [actions |-> <<SV("a_output", [port |-> CtrlPort, max_len |-> Pat(c, 2, 1)])>>])) :
          c \in Classes}
       \cup {C("flow_mod/output/" \o c,
               [Build("P", DefShape("flow_mod")) EXCEPT !.f.actions =
                  <<SV("a_output", [port |-> CtrlPort, max_len |-> Pat(c, 2, 1)]),
                    SV("a_output", [port |-> Pat(c, 2, 2), max_len |-> <<0, 0>>]),
                    SV("a_output", [port |-> <<0, 1>>, max_len |-> Pat(c, 2, 1)])>>]) : c \in Classes}
       \* the constructor's default max_len (0xffff) with an ordinary port: pack() sends 0 (NormalizeMaxLen)
       \cup {C("actions/output-default/" \o c, SV("actions", [actions |-> <<SV("a_output", [port |-> Pat(c, 2, 2), max_len |-> <<255, 255>>])>>])) :
               c \in Classes})

\* payload lengths
RestKinds == {"error", "echo_request", "echo_reply", "vendor", "packet_in", "packet_out", "sreq_vendor", "srep_vendor"}
Payloads(L) ==
  Good({C(k \o "/payload/" \o ToString(n), Build("P", Sh(k, n, <<>>, AllWild))) : k \in RestKinds, n \in L}
       \cup {C("packet_out/payload+actions/" \o ToString(n), Build("M", Sh("packet_out", n, TwoActs, AllWild))) : n \in L}
       \cup {C("packet_in/exact-total/" \o ToString(n),
               [Build("P", Sn("packet_in", n)) EXCEPT !.f.total_len = BE(n, 2)]) : n \in L}
       \cup {C("actions/vendor/" \o ToString(n), Build("P", Sl("actions", <<Sn("a_vendor", n)>>))) :
               n \in {0, 8, 16, 24, 1496}}
       \cup {C("actions/generic/" \o ToString(n), Build(c, Sl("actions", <<Sn("a_generic", n)>>))) :
               n \in {4, 12, 20, 1492}, c \in {"M", "S", "P"}}
       \cup {C("props/generic/" \o ToString(n), Build(c, Sl("props", <<Sn("qp_generic", n), S0("qp_min_rate")>>))) :
               n \in {4, 12, 20}, c \in {"M", "S", "P"}}
       \cup {C("queue_get_config_reply/generic/" \o ToString(n),
               Build(c, Sl("queue_get_config_reply", <<QSh(<<Sn("qp_generic", n), S0("qp_min_rate")>>)>>))) :
               n \in {4, 12}, c \in {"M", "S", "P"}}
       \cup {C(k \o "/payload/" \o ToString(n), Build(c, Sn(k, n))) :
               k \in {"sreq_generic", "srep_generic"}, n \in L, c \in {"M", "S", "P"}})

\* list shapes: every sequence of actions up to length 2 (3 in thorough), 0..3 elements elsewhere
ActLists(n) == UNION {[1..m -> ActKindsOF] : m \in 0..n}
ShapesOfActs(l) == [i \in 1..Len(l) |-> ASh(l[i])]
ListsOf(n) ==
  Good({C("flow_mod/actions", Build("P", Sh("flow_mod", 0, ShapesOfActs(l), TCPMatch))) : l \in ActLists(n)}
       \cup {C("packet_out/actions", Build("M", Sh("packet_out", 3, ShapesOfActs(l), AllWild))) : l \in ActLists(n)}
       \cup {C("actions/list", Build("S", Sl("actions", ShapesOfActs(l)))) : l \in ActLists(n)}
       \cup {C("srep_flow/actions", Build("Q", Sl("srep_flow", <<FSh(TCPMatch, ShapesOfActs(l)), FSh(AllWild, ShapesOfActs(l))>>))) :
               l \in ActLists(n)})
Rep(sh, n) == [i \in 1..n |-> sh]
Counts(N) ==
  Good(UNION {{C("features_reply/ports/" \o ToString(n), Build("P", Sl("features_reply", Rep(S0("phy_port"), n)))),
               C("srep_flow/entries/" \o ToString(n), Build("P", Sl("srep_flow", Rep(FSh(TCPMatch, TwoActs), n)))),
               C("srep_table/entries/" \o ToString(n), Build("P", Sl("srep_table", Rep(S0("table_stats"), n)))),
               C("srep_port/entries/" \o ToString(n), Build("P", Sl("srep_port", Rep(S0("port_stats"), n)))),
               C("srep_queue/entries/" \o ToString(n), Build("P", Sl("srep_queue", Rep(S0("queue_stats"), n)))),
               C("queue_get_config_reply/queues/" \o ToString(n),
                 Build("P", Sl("queue_get_config_reply", Rep(QSh(Rep(S0("qp_min_rate"), n)), n)))),
               C("props/list/" \o ToString(n), Build("P", Sl("props", Rep(S0("qp_min_rate"), n))))} : n \in N})
\* the 64 KiB limit: the longest action lists that still fit the 16-bit length fields
Longest(dummy) ==
  Good({C("flow_mod/longest", Build("P", Sh("flow_mod", 0, Rep(S0("a_set_tp_src"), 8182), TCPMatch))),
        C("packet_out/longest", Build("M", Sh("packet_out", 7, Rep(S0("a_set_vlan_vid"), 8189), AllWild))),
        C("srep_flow/longest", Build("P", Sl("srep_flow", <<FSh(TCPMatch, Rep(S0("a_set_nw_tos"), 8179))>>))),
        C("echo_request/longest", Build("P", Sn("echo_request", 65527)))})

\* matches in every structure that carries one
MatchIn(k, S, tag) ==
  Good({C(k \o "/match/" \o tag,
          IF k = "match" THEN m
          ELSE IF k = "srep_flow" THEN Build("P", Sl(k, <<FSh(m, TwoActs)>>))
          ELSE Build("P", Sh(k, 0, IF k = "flow_mod" THEN TwoActs ELSE <<>>, m))) : m \in Matches(S)})
MatchKinds == {"match", "flow_mod", "flow_removed", "sreq_flow", "sreq_aggregate", "srep_flow"}

\* an object that is changed after it has been encoded once, and encoded again
Mod(tag, m, mods) == [tag |-> tag, msg |-> m, mods |-> mods]
MD(path, op, v, when, form) == [path |-> path, op |-> op, v |-> v, when |-> when, form |-> form]
SetF(f, v) == MD(<<Step(f, 0)>>, "set", v, "post", "")
App(f, v) == MD(<<Step(f, 0)>>, "append", v, "post", "")
OneAct == Build("P", ASh("a_set_dl_dst"))
Modified(lazy) ==
  LET fm == Build("P", DefShape("flow_mod"))
      po == Build("M", DefShape("packet_out"))
      fr == Build("P", DefShape("features_reply"))
      sq(k) == Build("P", DefShape(k))
  IN Good({
    Mod("flow_mod/mod/actions+", fm, <<App("actions", OneAct)>>),
    Mod("flow_mod/mod/cookie", fm, <<SetF("cookie", Pat("M", 8, 0))>>),
    Mod("flow_mod/mod/match", fm, <<SetF("match", SV("match", ARP))>>),
    Mod("flow_mod/mod/match.tp_dst", fm, <<MD(<<Step("match", 0), Step("tp_dst", 0)>>, "set", <<31, 144>>, "post", "")>>),
    Mod("packet_out/mod/actions+", po, <<App("actions", OneAct), App("actions", OneAct)>>),
    Mod("packet_out/mod/data", po, <<SetF("data", RestPat("P", 60))>>),
    Mod("packet_in/mod/data", Build("M", DefShape("packet_in")), <<SetF("data", RestPat("P", 61))>>),
    Mod("echo_request/mod/body", sq("echo_request"), <<SetF("body", RestPat("P", 17)), SetF("body", <<>>)>>),
    Mod("error/mod/data", sq("error"), <<SetF("data", RestPat("P", 1))>>),
    Mod("vendor/mod/data", sq("vendor"), <<SetF("data", RestPat("P", 9))>>),
    Mod("features_reply/mod/ports+", fr, <<App("ports", Build("M", S0("phy_port")))>>),
    Mod("features_reply/mod/ports[1].name", fr, <<MD(<<Step("ports", 1), Step("name", 0)>>, "set", <<101, 116, 104>>, "post", "")>>),
    Mod("srep_flow/mod/body+", sq("srep_flow"), <<App("body", Build("M", FSh(AllWild, TwoActs)))>>),
    Mod("srep_flow/mod/body[1].actions+", sq("srep_flow"), <<MD(<<Step("body", 1), Step("actions", 0)>>, "append", OneAct, "post", "")>>),
    Mod("srep_table/mod/body+", sq("srep_table"), <<App("body", Build("M", S0("table_stats")))>>),
    Mod("srep_port/mod/body+", sq("srep_port"), <<App("body", Build("M", S0("port_stats")))>>),
    Mod("srep_queue/mod/body+", sq("srep_queue"), <<App("body", Build("M", S0("queue_stats")))>>),
    Mod("srep_port/mod/body[2].rx_bytes", sq("srep_port"), <<MD(<<Step("body", 2), Step("rx_bytes", 0)>>, "set", Pat("M", 8, 0), "post", "")>>),
    Mod("srep_desc/mod/sw_desc", sq("srep_desc"), <<SetF("sw_desc", <<80, 79, 88>>)>>),
    Mod("srep_aggregate/mod/flow_count", sq("srep_aggregate"), <<SetF("flow_count", <<0, 0, 0, 9>>)>>),
    Mod("srep_vendor/mod/data", sq("srep_vendor"), <<SetF("data", RestPat("P", 12))>>),
    Mod("sreq_flow/mod/out_port", sq("sreq_flow"), <<SetF("out_port", <<0, 9>>)>>),
    Mod("sreq_flow/mod/match", sq("sreq_flow"), <<SetF("match", SV("match", ARP))>>),
    Mod("sreq_aggregate/mod/table_id", sq("sreq_aggregate"), <<SetF("table_id", <<7>>)>>),
    Mod("sreq_port/mod/port_no", sq("sreq_port"), <<SetF("port_no", <<0, 9>>)>>),
    Mod("sreq_queue/mod/queue_id", sq("sreq_queue"), <<SetF("queue_id", <<0, 0, 0, 9>>)>>),
    Mod("sreq_vendor/mod/data", sq("sreq_vendor"), <<SetF("data", RestPat("P", 12))>>),
    Mod("queue_get_config_reply/mod/queues+", sq("queue_get_config_reply"), <<App("queues", Build("M", QSh(<<S0("qp_min_rate")>>)))>>),
    Mod("queue_get_config_reply/mod/queues[2].properties+", sq("queue_get_config_reply"),
        <<MD(<<Step("queues", 2), Step("properties", 0)>>, "append", Build("M", S0("qp_min_rate")), "post", "")>>),
    Mod("port_status/mod/desc.name", sq("port_status"), <<MD(<<Step("desc", 0), Step("name", 0)>>, "set", <<112, 49>>, "post", "")>>),
    Mod("port_mod/mod/hw_addr", sq("port_mod"), <<SetF("hw_addr", Pat("M", 6, 0))>>),
    Mod("set_config/mod/miss_send_len", sq("set_config"), <<SetF("miss_send_len", <<255, 255>>), SetF("flags", <<0, 1>>)>>),
    Mod("hello/mod/xid", sq("hello"), <<SetF("xid", Pat("M", 4, 0))>>) })

(* ---- Nicira ----------------------------------------------------------------- *)
NxHdr(t) == NxmHeader(BE(t[1], 2), <<t[2]>>, FALSE, t[3])
Nxm(t, v, m) == SV("nxm", [vendor |-> BE(t[1], 2), field |-> <<t[2]>>, value |-> v, mask |-> m])
AndBytes(a, b) == [i \in 1..Len(a) |-> a[i] & b[i]]
\* masks: H = leading half, L = last bit, N = first bit, T = a few low bits of each byte
MaskPat(c, w) ==
  CASE c = "H" -> [i \in 1..w |-> IF 2 * i <= w + 1 THEN 255 ELSE 0]
    [] c = "L" -> [i \in 1..w |-> IF i = w THEN 1 ELSE 0]
    [] c = "N" -> [i \in 1..w |-> IF i = 1 THEN 128 ELSE 0]
    [] c = "T" -> [i \in 1..w |-> 15]
    [] c = "0" -> Zeros(w)
NxmEntries(lazy) ==
  {Nxm(t, Pat(c, t[3], 2), <<>>) : t \in NxmFields, c \in {"Z", "M", "S", "P"}}
  \cup {Nxm(t, AndBytes(Pat(c, t[3], 2), MaskPat(m, t[3])), MaskPat(m, t[3])) :
          t \in {x \in NxmFields : <<x[1], x[2]>> \in NxmMaskable}, c \in {"M", "P"}, m \in {"H", "L", "N", "T", "0"}}
NSh(e) == Sh("nxm", 0, <<>>, e)
SomeNxm == <<Nxm(<<0, 0, 2>>, <<0, 7>>, <<>>), Nxm(<<0, 3, 2>>, <<8, 0>>, <<>>),
             Nxm(<<0, 7, 4>>, <<10, 1, 0, 0>>, <<255, 255, 0, 0>>), Nxm(<<0, 6, 1>>, <<6>>, <<>>),
             Nxm(<<0, 10, 2>>, <<0, 80>>, <<>>), Nxm(<<1, 0, 4>>, <<0, 0, 0, 5>>, <<0, 0, 0, 255>>),
             Nxm(<<1, 16, 8>>, Pat("P", 8, 1), <<>>), Nxm(<<1, 19, 16>>, Pat("P", 16, 1), <<>>),
             Nxm(<<0, 1, 6>>, <<1, 0, 0, 0, 0, 0>>, <<1, 0, 0, 0, 0, 0>>)>>
NxmPrefix(n) == [i \in 1..n |-> NSh(SomeNxm[i])]
MSh(s) == Sh("fms", 0, <<>>, s)
Fms(src, dst, nb, sv, dv) == SV("fms", [src |-> <<src>>, dst |-> <<dst>>, n_bits |-> BE(nb, 2), srcv |-> sv, dstv |-> dv])
FieldRef(t, ofs) == NxHdr(t) \o BE(ofs, 2)
SomeFms == <<Fms(0, 0, 12, FieldRef(<<0, 4, 2>>, 0), FieldRef(<<0, 4, 2>>, 0)),          \* VLAN_TCI[0..11] -> match
             Fms(0, 0, 48, FieldRef(<<0, 2, 6>>, 0), FieldRef(<<0, 1, 6>>, 0)),          \* ETH_SRC -> match ETH_DST
             Fms(0, 2, 16, FieldRef(<<0, 0, 2>>, 0), <<>>),                              \* IN_PORT -> output
             Fms(0, 1, 32, FieldRef(<<1, 1, 4>>, 0), FieldRef(<<1, 2, 4>>, 0)),          \* REG1 -> load REG2
             Fms(1, 0, 16, <<8, 0>>, FieldRef(<<0, 3, 2>>, 0)),                          \* immediate 0x0800 -> match ETH_TYPE
             Fms(1, 1, 17, <<0, 1, 255, 255>>, FieldRef(<<1, 3, 4>>, 3)),                \* immediate (17 bits) -> load REG3[3..19]
             Fms(1, 0, 8, <<0, 6>>, FieldRef(<<0, 6, 1>>, 0)),
             Fms(0, 1, 5, FieldRef(<<1, 16, 8>>, 40), FieldRef(<<1, 0, 4>>, 27))>>
FmsPrefix(n) == [i \in 1..n |-> MSh(SomeFms[i])]
NXMsgKinds == DOMAIN NXMsgLayout
NXActKinds == DOMAIN NXActionLayout
DefShapeNX(k) ==
  CASE k = "nx_flow_mod" -> Sl(k, NxmPrefix(3) \o TwoActs)
    [] k = "nxt_packet_in" -> Sh(k, 5, NxmPrefix(2), AllWild)
    [] k = "nx_ofp_flow_mod_table_id" -> Sh(k, 0, TwoActs, TCPMatch)
    [] k = "nxa_learn" -> Sl(k, FmsPrefix(3))
    [] k \in {"nxa_bundle", "nxa_bundle_load"} -> Sl(k, <<S0("u16"), S0("u16"), S0("u16")>>)
    [] k = "nxmatch" -> Sl(k, NxmPrefix(4))
    [] OTHER -> S0(k)
\* fields that are NXM headers / fixed by the library get a legal value whatever the class
FixNX(sv) ==
  LET h1 == NxHdr(<<1, 1, 4>>)
      h2 == NxHdr(<<1, 16, 8>>)
  IN CASE sv.k = "nxa_reg_move" -> [sv EXCEPT !.f.src = h1, !.f.dst = h2]
       [] sv.k = "nxa_reg_load" -> [sv EXCEPT !.f.dst = h2]
       [] sv.k = "nxa_output_reg" -> [sv EXCEPT !.f.reg = h1]
       [] sv.k = "nxa_bundle" -> [sv EXCEPT !.f.slave_type = NxHdr(<<0, 0, 2>>), !.f.dst = Zeros(4), !.f.ofs_nbits = Zeros(2)]
       [] sv.k = "nxa_bundle_load" -> [sv EXCEPT !.f.slave_type = NxHdr(<<0, 0, 2>>), !.f.dst = h1]
       [] sv.k = "nx_flow_mod_table_id" -> [sv EXCEPT !.f.enable = <<IF sv.f.enable = <<0>> THEN 0 ELSE 1>>]
       [] sv.k = "nxt_packet_in" -> IF Num2(sv.f.total_len, 1) < Len(sv.f.data)
                                    THEN [sv EXCEPT !.f.total_len = BE(Len(sv.f.data), 2)] ELSE sv
       [] OTHER -> sv
TopKindsNX == NXMsgKinds \cup NXActKinds \cup {"nxmatch"}
NXUniform(K) == Good({C(k \o "/uniform/" \o c, FixNX(Build(c, DefShapeNX(k)))) : k \in K, c \in Classes}
                     \cup {C(k \o "/empty/" \o c, FixNX(Build(c, S0(k)))) : k \in K, c \in {"Z", "P"}})
NXDeviations(K) ==
  Good(UNION {LET b == FixNX(Build("Z", DefShapeNX(k))) IN
              {C(k \o "/dev/" \o PathTag(p) \o "/" \o c, FixNX(Put(b, p, "set", DevValue(b, p, c)))) :
                 p \in ScalarPaths(b), c \in DevClasses} : k \in K})
\* every NXM field, alone in a match, with and without mask
NXEntries(lazy) == Good({C("nxmatch/entry", SV("nxmatch", [match |-> <<e>>])) : e \in NxmEntries(0)})
\* every NXM field as the register operand of the register actions
NXRegs(lazy) ==
  Good({C("nxa_reg_load/dst", [FixNX(Build("P", S0("nxa_reg_load"))) EXCEPT !.f.dst = NxHdr(t)]) : t \in NxmFields}
       \cup {C("nxa_reg_move/src+dst", [FixNX(Build("P", S0("nxa_reg_move"))) EXCEPT !.f.src = NxHdr(t), !.f.dst = NxHdr(t)]) :
               t \in NxmFields}
       \cup {C("nxa_output_reg/reg", [FixNX(Build("P", S0("nxa_output_reg"))) EXCEPT !.f.reg = NxHdr(t)]) : t \in NxmFields})
\* match lengths (padding to 8), learn spec chains, bundle slave counts, packet-in payloads
NXShapes(N) ==
  Good(UNION {{C("nx_flow_mod/match/" \o ToString(n), Build("P", Sl("nx_flow_mod", NxmPrefix(n) \o TwoActs))),
               C("nx_flow_mod/match-only/" \o ToString(n), Build("M", Sl("nx_flow_mod", NxmPrefix(n)))),
               C("nxt_packet_in/match/" \o ToString(n), FixNX(Build("P", Sh("nxt_packet_in", n, NxmPrefix(n), AllWild)))),
               C("nxmatch/entries/" \o ToString(n), Build("P", Sl("nxmatch", NxmPrefix(n))))} : n \in 0..9}
       \cup UNION {{C("nxa_learn/spec/" \o ToString(n), Build("P", Sl("nxa_learn", FmsPrefix(n)))),
                    C("nxa_learn/spec1/" \o ToString(n), Build("M", Sl("nxa_learn", IF n = 0 THEN <<>> ELSE <<MSh(SomeFms[n])>>)))} :
                     n \in 0..8}
       \cup UNION {{C("nxa_bundle/slaves/" \o ToString(n), FixNX(Build("P", Sl("nxa_bundle", Rep(S0("u16"), n))))),
                    C("nxa_bundle_load/slaves/" \o ToString(n), FixNX(Build("P", Sl("nxa_bundle_load", Rep(S0("u16"), n)))))} :
                     n \in N}
       \cup {C("nxt_packet_in/payload/" \o ToString(n), FixNX(Build("P", Sh("nxt_packet_in", n, NxmPrefix(1), AllWild)))) :
               n \in {0, 1, 2, 7, 8, 1500}})
NXPairs(K) ==
  Good(UNION {LET b == FixNX(Build("Z", DefShapeNX(k))) IN
              {C(k \o "/pair/" \o xy[1] \o "+" \o xy[2],
                 FixNX(Put(Put(b, <<Step(xy[1], 0)>>, "set", DevValue(b, <<Step(xy[1], 0)>>, "P")),
                           <<Step(xy[2], 0)>>, "set", DevValue(b, <<Step(xy[2], 0)>>, "M")))) :
                 xy \in {p \in TopScalars(k) \X TopScalars(k) : p[1] # p[2]}} : k \in K})
NXEntriesT(lazy) ==
  Good({C("nxmatch/entry", SV("nxmatch", [match |-> <<e>>])) : e \in
          {Nxm(t, Pat(c, t[3], 5), <<>>) : t \in NxmFields, c \in Classes}
          \cup {Nxm(t, AndBytes(Pat(c, t[3], 5), MaskPat(m, t[3])), MaskPat(m, t[3])) :
                  t \in {x \in NxmFields : <<x[1], x[2]>> \in NxmMaskable}, c \in {"M", "S", "Q", "P"},
                  m \in {"H", "L", "N", "T", "0"}}})
NXModified(lazy) ==
  LET fm == Build("P", DefShapeNX("nx_flow_mod"))
      le == Build("P", DefShapeNX("nxa_learn"))
  IN Good({
    Mod("nx_flow_mod/mod/actions+", fm, <<App("actions", OneAct)>>),
    Mod("nx_flow_mod/mod/match+", fm, <<App("match", SomeNxm[5])>>),
    Mod("nx_flow_mod/mod/cookie", fm, <<SetF("cookie", Pat("M", 8, 0))>>),
    Mod("nxa_learn/mod/spec+", le, <<App("spec", SomeFms[4])>>),
    Mod("nxa_learn/mod/priority", le, <<SetF("priority", <<0, 1>>)>>),
    Mod("nx_role_request/mod/role", Build("Z", S0("nx_role_request")), <<SetF("role", <<0, 0, 0, 2>>)>>),
    Mod("nxa_set_tunnel/mod/tun_id", Build("Z", S0("nxa_set_tunnel")), <<SetF("tun_id", <<0, 0, 0, 2>>)>>) })

(* ---- encodings received from a peer (Receive) ------------------------------- *)
(* Wire-legal bytes the library's own encoder never produces.  keep = TRUE: the  *)
(* library claims to preserve the encoding (re-encoding must reproduce it);     *)
(* keep = FALSE: it canonicalises on purpose (the re-encoding is the canonical  *)
(* image and must decode to the same object).                                   *)
R(tag, k, w, keep) == [tag |-> tag, k |-> k, wire |-> w, keep |-> keep]
RW(tag, sv) == R(tag, sv.k, Wire(sv), TRUE)
GoodR(S) == {r \in S : LET d == DecTop(r.k, r.wire, 1, 1 + Len(r.wire)) IN
                         d.ok /\ WF(RecvCanon(d.v)) /\ Receivable(RecvCanon(d.v))}
\* fields nicira.py has no name for (always the same width: the library learns a class per header)
U1 == <<57005, 66, 4>>
U2 == <<2, 5, 6>>
U3 == <<32767, 127, 1>>
Unknowns == {U1, U2, U3}
MaskableFields == {x \in NxmFields : <<x[1], x[2]>> \in NxmMaskable}
PeerEntries(lazy) ==
  {Nxm(t, Pat(c, t[3], 2), Fill(t[3], 255)) : t \in MaskableFields, c \in {"Z", "M", "P"}}       \* explicit all-ones mask
  \cup {Nxm(t, Zeros(t[3]), Zeros(t[3])) : t \in MaskableFields}                                   \* explicit all-zero mask
  \cup {Nxm(u, Pat(c, u[3], 2), <<>>) : u \in Unknowns, c \in {"M", "P"}}
  \cup {Nxm(u, AndBytes(Pat("P", u[3], 2), MaskPat(m, u[3])), MaskPat(m, u[3])) : u \in Unknowns, m \in {"H", "N", "0"}}
  \cup {Nxm(u, Pat("P", u[3], 2), Fill(u[3], 255)) : u \in Unknowns}
PeerMix == <<Nxm(<<0, 0, 2>>, <<0, 7>>, <<>>), Nxm(<<0, 7, 4>>, <<10, 1, 2, 3>>, Fill(4, 255)),
             Nxm(U1, <<1, 2, 3, 0>>, <<255, 255, 255, 0>>), Nxm(<<1, 16, 8>>, Pat("P", 8, 1), Fill(8, 255)),
             Nxm(U2, Pat("P", 6, 1), <<>>), Nxm(<<0, 1, 6>>, <<1, 0, 0, 0, 0, 0>>, Fill(6, 255)),
             Nxm(U3, <<9>>, <<255>>)>>
PeerPrefix(n) == [i \in 1..n |-> NSh(PeerMix[i])]
PatchBytes(w, pos, bs) == [i \in 1..Len(w) |-> IF i - 1 >= pos /\ i - 1 < pos + Len(bs) THEN bs[i - pos] ELSE w[i]]
\* a structure carrying match m at byte offset pos, with the nw_src / nw_dst counters sc / dc forced (m has both
\* addresses wildcarded) and junk under the wildcarded in_port
NoisyMatch(k, pos, sv, m, sc, dc, junk) ==
  LET w0 == Wire(sv)
      w1 == PatchBytes(w0, pos, BE(WildWord(m) - 32 * 256 - 32 * 16384 + sc * 256 + dc * 16384, 4))
      w2 == IF junk THEN PatchBytes(w1, pos + 4, <<171, 205>>) ELSE w1
  IN R(k \o "/recv-match/" \o ToString(sc) \o "-" \o ToString(dc) \o (IF junk THEN "+junk" ELSE ""), k, w2, FALSE)
NoAddr == SV("match", WildSet(WithBits(ExactTCP, 0, 0), {"in_port"}))
MatchPos == [match |-> 0, flow_mod |-> 8, flow_removed |-> 8, sreq_flow |-> 12, sreq_aggregate |-> 12, srep_flow |-> 16]
Holder(k, m) == IF k = "match" THEN m
                ELSE IF k = "srep_flow" THEN Build("P", Sl(k, <<FSh(m, TwoActs)>>))
                ELSE Build("P", Sh(k, 0, IF k = "flow_mod" THEN TwoActs ELSE <<>>, m))
OutRaw(p, ml) == SV("a_output", [port |-> p, max_len |-> ml])
Received(B) ==
  GoodR({RW("nxmatch/recv-entry", SV("nxmatch", [match |-> <<e>>])) : e \in PeerEntries(0)}
        \cup UNION {{RW("nxmatch/recv-mix/" \o ToString(n), Build("P", Sl("nxmatch", PeerPrefix(n)))),
                     RW("nx_flow_mod/recv-mix/" \o ToString(n), Build("P", Sl("nx_flow_mod", PeerPrefix(n) \o TwoActs))),
                     RW("nxt_packet_in/recv-mix/" \o ToString(n), FixNX(Build("P", Sh("nxt_packet_in", n, PeerPrefix(n), AllWild))))} :
                      n \in 1..7}
        \* operands naming a field the library has no class for (it makes one up and must keep the header)
        \cup {RW("nxa_reg_load/recv-unknown", [FixNX(Build("P", S0("nxa_reg_load"))) EXCEPT !.f.dst = NxHdr(U1)]),
              RW("nxa_reg_move/recv-unknown", [FixNX(Build("P", S0("nxa_reg_move"))) EXCEPT !.f.src = NxHdr(U1), !.f.dst = NxHdr(U2)]),
              RW("nxa_output_reg/recv-unknown", [FixNX(Build("P", S0("nxa_output_reg"))) EXCEPT !.f.reg = NxHdr(U3)]),
              RW("nxa_bundle_load/recv-unknown", [FixNX(Build("P", Sl("nxa_bundle_load", Rep(S0("u16"), 2)))) EXCEPT !.f.dst = NxHdr(U1)]),
              RW("nxa_learn/recv-unknown", Build("P", Sl("nxa_learn",
                   <<MSh(Fms(0, 0, 32, FieldRef(U1, 0), FieldRef(U1, 0))), MSh(Fms(0, 1, 8, FieldRef(U3, 0), FieldRef(<<1, 2, 4>>, 8))),
                     MSh(Fms(1, 1, 48, Pat("P", 6, 1), FieldRef(U2, 0)))>>)))}
        \* wildcard counters above 32 and junk under a wildcard: read as /0 and as nothing
        \cup {NoisyMatch(k, MatchPos[k], Holder(k, NoAddr), NoAddr, sc, dc, j) :
                k \in DOMAIN MatchPos, sc \in B, dc \in B, j \in BOOLEAN}
        \* max_len of an output to a port other than the controller: kept by the decoder, zeroed by pack()
        \cup {R("actions/recv-output/" \o c, "actions", Wire(SV("actions", [actions |-> <<OutRaw(Pat(c, 2, 3), Pat("M", 2, 1))>>])), FALSE) :
                c \in {"Z", "P", "M"}}
        \cup {R("flow_mod/recv-output", "flow_mod",
                Wire([Build("P", DefShape("flow_mod")) EXCEPT !.f.actions = <<OutRaw(<<0, 1>>, <<255, 255>>), OutRaw(CtrlPort, <<0, 128>>)>>]), FALSE),
              R("packet_out/recv-output", "packet_out",
                Wire([Build("M", DefShape("packet_out")) EXCEPT !.f.actions = <<OutRaw(<<255, 251>>, <<0, 64>>)>>]), FALSE)}
        \* a HELLO with a body
        \cup {R("hello/recv-body/" \o ToString(n), "hello", Wire(Build("P", Sn("hello_ext", n))), FALSE) : n \in {1, 8, 100}})

(* ---- construction histories -------------------------------------------------- *)
(* The same final object reached by different sequences of writes (before the    *)
(* first encoding: when = "pre"; between encodings: "post"), in the spellings    *)
(* the library offers.  Its encoding may depend only on the final value.         *)
MatchPath(k) == IF k = "match" THEN <<>>
                ELSE IF k = "srep_flow" THEN <<Step("body", 1), Step("match", 0)>> ELSE <<Step("match", 0)>>
NwSet(n, a, bits) == (n :> MaskIP(a, bits)) @@ ((n \o "_bits") :> <<bits>>)          \* bits = 0: None
HStep(fields, form) == [f |-> fields, form |-> form]
NwSteps(n) == {HStep(NwSet(n, <<172, 16, 254, 129>>, 1), "tuple"), HStep(NwSet(n, <<172, 16, 254, 129>>, 24), "cidr"),
               HStep(NwSet(n, <<172, 16, 254, 129>>, 31), "method"), HStep(NwSet(n, <<172, 16, 254, 129>>, 32), "attr"),
               HStep(NwSet(n, <<0, 0, 0, 0>>, 0), "attr"), HStep(NwSet(n, <<0, 0, 0, 0>>, 0), "method")}
NwStepsT(n) == NwSteps(n) \cup {HStep(NwSet(n, <<10, 255, 0, 77>>, b), fm) : b \in {8, 9, 16, 17, 25}, fm \in {"tuple", "cidr", "method"}}
                \cup {HStep(NwSet(n, <<10, 255, 0, 77>>, 32), "tuple"), HStep(NwSet(n, <<10, 255, 0, 77>>, 0), "tuple")}
FieldSteps == {HStep(("in_port" :> <<0, 9>>), "attr"), HStep(("in_port" :> <<>>), "attr"),
               HStep(("tp_dst" :> <<1, 187>>), "attr"), HStep(("tp_dst" :> <<>>), "attr"),
               HStep(("nw_proto" :> <<17>>), "attr"), HStep(("nw_proto" :> <<>>), "attr"),
               HStep(("dl_type" :> <<>>), "attr"), HStep(("dl_type" :> IPType), "attr"),
               HStep(Wild, "wildcards")}
FieldStepsT == FieldSteps \cup {HStep((n :> <<>>), "attr") : n \in FlagFields}
                \cup {HStep((n :> Pat("P", MatchW[n], 7)), "attr") : n \in FlagFields \ {"dl_type", "nw_proto"}}
                \cup {HStep(("dl_type" :> ARPType), "attr"), HStep(("nw_proto" :> <<1>>), "attr")}
IPOnly == Normal([Wild EXCEPT !.dl_type = IPType])
HMods(k, seq, when) == [i \in 1..Len(seq) |-> MD(MatchPath(k), "setf", seq[i].f, when[i], seq[i].form)]
ApplyAll(m, mods) == FoldLeft(LAMBDA x, md : IF md.op = "setf" THEN PutF(x, md.path, md.v) ELSE Put(x, md.path, md.op, md.v),
                              m, mods)
\* every value that gets encoded - after the last "pre" write and after each "post" write - is in the domain
GoodH(S) == {c \in S : WF(c.msg) /\ Constructible(c.msg) /\
                       \A i \in 0..Len(c.mods) :
                         (i = Len(c.mods) \/ c.mods[i + 1].when = "post") =>
                           LET x == ApplyAll(c.msg, SubSeq(c.mods, 1, i)) IN WF(x) /\ Constructible(x)}
Seqs(A, d) == UNION {[1..n -> A] : n \in 1..d}
Whens(n, w) == [i \in 1..n |-> w]
\* every sequence of up to d writes from alphabet A on the match of a structure of kind k that starts as base
Histories(k, base, A, d, w) ==
  GoodH({Mod(k \o "/history-" \o w \o "/" \o ToString(Len(sq)), Holder(k, SV("match", base)), HMods(k, sq, Whens(Len(sq), w))) :
           sq \in Seqs(A, d)})
\* one write while constructing, the object is encoded, a second write, encoded again
PrePost(k, base, A) ==
  GoodH({Mod(k \o "/history-pre+post", Holder(k, SV("match", base)), HMods(k, <<ab[1], ab[2]>>, <<"pre", "post">>)) : ab \in A \X A})
\* other structures: scalars written twice, lists grown while constructing and between encodings
Cycles(lazy) ==
  LET fm == Build("P", DefShape("flow_mod"))
      pre(m) == [m EXCEPT !.when = "pre"]
      grow(tag, b, f, e) == Mod(tag, b, <<pre(App(f, e)), App(f, e), App(f, e)>>)
  IN Good({
    Mod("flow_mod/history/cookie", fm, <<pre(SetF("cookie", Pat("M", 8, 0))), pre(SetF("cookie", Pat("S", 8, 0))), SetF("cookie", Pat("Q", 8, 0))>>),
    grow("flow_mod/cycles/actions", fm, "actions", OneAct),
    grow("packet_out/cycles/actions", Build("M", DefShape("packet_out")), "actions", OneAct),
    grow("features_reply/cycles/ports", Build("P", DefShape("features_reply")), "ports", Build("M", S0("phy_port"))),
    grow("srep_flow/cycles/body", Build("P", DefShape("srep_flow")), "body", Build("M", FSh(AllWild, TwoActs))),
    grow("srep_table/cycles/body", Build("P", DefShape("srep_table")), "body", Build("M", S0("table_stats"))),
    grow("srep_port/cycles/body", Build("P", DefShape("srep_port")), "body", Build("M", S0("port_stats"))),
    grow("srep_queue/cycles/body", Build("P", DefShape("srep_queue")), "body", Build("M", S0("queue_stats"))),
    grow("queue_get_config_reply/cycles/queues", Build("P", DefShape("queue_get_config_reply")), "queues", Build("M", QSh(<<S0("qp_min_rate")>>))),
    grow("actions/cycles", Build("P", DefShape("actions")), "actions", OneAct),
    grow("nx_flow_mod/cycles/actions", Build("P", DefShapeNX("nx_flow_mod")), "actions", OneAct),
    grow("nxa_learn/cycles/spec", Build("P", DefShapeNX("nxa_learn")), "spec", SomeFms[4]),
    Mod("srep_flow/cycles/body=", Build("P", DefShape("srep_flow")),
        <<SetF("body", <<Build("M", FSh(AllWild, TwoActs))>>), SetF("body", <<>>), App("body", Build("Q", FSh(TCPMatch, <<>>)))>>),
    Mod("sreq_port/cycles/port_no", Build("P", DefShape("sreq_port")), <<pre(SetF("port_no", <<0, 1>>)), SetF("port_no", <<0, 2>>), SetF("port_no", <<0, 3>>)>>),
    Mod("srep_desc/cycles/hw_desc", Build("P", DefShape("srep_desc")), <<pre(SetF("hw_desc", <<80>>)), SetF("hw_desc", <<81, 82>>), SetF("hw_desc", <<>>)>>) })

(* (lazy): TLC evaluates every zero-arity constant definition of the modules   *)
(* it loads when it starts; the dummy parameter keeps the big families from    *)
(* being built in runs that do not use them.                                   *)
(* The alphabets of the TLC runs are defined in the MC_<run>.tla modules      *)
(* (generated by harness/c01_gencfg.py): TLC evaluates every constant         *)
(* definition of the modules it loads, so each run loads only its own family. *)
AroundBoth == {<<0, 0>>, <<8, 24>>}
AroundOne == {<<8, 24>>}
MCNoCases == {}
=============================================================================
