---- MODULE MC_t_match_other ----
EXTENDS MCOFWire
TheCases == UNION {MatchIn(k, MFlagsAll(0) \cup MBits(BitsT) \cup MTypes(0) \cup MVals(0), "t") : k \in MatchKinds \ {"flow_mod"}}
TheRCases == {}
TheAround == AroundOne
====
