---- MODULE MC_t_match_other ----
EXTENDS MCOFWire
TheCases == UNION {MatchIn(k, MFlagsAll \cup MBits(BitsT) \cup MTypes \cup MVals, "t") : k \in MatchKinds \ {"match", "flow_mod"}}
TheAround == AroundOne
====
