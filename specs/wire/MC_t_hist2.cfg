CONSTANTS
  Cases <- TheCases
  RCases <- TheRCases
  Around <- TheAround
INIT Init
NEXT Next
INVARIANT TypeOK
INVARIANT LenFieldOK
INVARIANT ConsumedOK
INVARIANT Lossless
INVARIANT Stable
INVARIANT Idempotent
INVARIANT Fresh
INVARIANT Mult8
INVARIANT Export
CHECK_DEADLOCK FALSE
