---- MODULE MC_q_recv ----
EXTENDS MCOFWire
TheCases == {}
TheRCases == Received({33, 63})
TheAround == AroundOne
====
