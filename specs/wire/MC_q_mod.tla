---- MODULE MC_q_mod ----
EXTENDS MCOFWire
TheCases == Modified \cup NXModified
TheAround == AroundOne
====
