---- MODULE MC_q_mod ----
EXTENDS MCOFWire
TheCases == Modified(0) \cup NXModified(0)
TheRCases == {}
TheAround == AroundOne
====
