---- MODULE MC_q_mod ----
EXTENDS MCOFWire
TheCases == Modified
TheAround == AroundOne
====
