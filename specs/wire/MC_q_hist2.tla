---- MODULE MC_q_hist2 ----
EXTENDS MCOFWire
TheCases == Histories("flow_mod", ExactTCP, NwSteps("nw_dst") \cup {HStep(("nw_proto" :> <<>>), "attr"), HStep(("tp_dst" :> <<>>), "attr"), HStep(Wild, "wildcards")}, 2, "pre") \cup UNION {Histories(k, ExactTCP, NwSteps("nw_src") \cup FieldSteps, 1, "post") : k \in DOMAIN MatchPos} \cup UNION {PrePost(k, ExactTCP, NwSteps("nw_src")) : k \in {"flow_removed", "sreq_flow", "srep_flow"}} \cup Cycles(0)
TheRCases == {}
TheAround == AroundOne
====
