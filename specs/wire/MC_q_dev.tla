---- MODULE MC_q_dev ----
EXTENDS MCOFWire
TheCases == Deviations(TopKindsOF)
TheAround == AroundOne
====
