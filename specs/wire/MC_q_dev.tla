---- MODULE MC_q_dev ----
EXTENDS MCOFWire
TheCases == Deviations(TopKindsOF \ StatsKinds)
TheAround == AroundOne
====
