---- MODULE MC_q_dev ----
EXTENDS MCOFWire
TheCases == Deviations(TopKindsOF \ StatsKinds)
TheRCases == {}
TheAround == AroundOne
====
