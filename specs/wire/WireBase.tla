------------------------------ MODULE WireBase ------------------------------
(* C01: vocabulary shared by the wire-format oracle (OFWire.tla, NXWire.tla). *)
(*                                                                           *)
(* A wire image is a sequence of bytes (0..255).  A structure of the         *)
(* protocol is described by a LAYOUT: a sequence of field descriptors in     *)
(* wire order, transcribed from the structure definitions of the OpenFlow    *)
(* 1.0 specification (openflow.h 0x01) and of nicira-ext.h.  The abstract    *)
(* value of a structure is [k |-> kind, f |-> [field name |-> value]]; a     *)
(* scalar value is the big-endian byte string of the field (so no integer    *)
(* above 2^31 ever exists in TLC), a text value is the bytes before the NUL  *)
(* padding, an opaque tail is a byte string, a nested structure is such a    *)
(* record again and a list is a sequence of them.                            *)
EXTENDS Integers, Sequences, FiniteSets, TLC

Byte == 0..255
Zeros(n) == [i \in 1..n |-> 0]
Fill(n, b) == [i \in 1..n |-> b]
Pow256(i) == CASE i = 0 -> 1 [] i = 1 -> 256 [] i = 2 -> 65536 [] i = 3 -> 16777216
\* big-endian image of a small number (lengths, type codes): n < 2^31
BE(n, w) == [i \in 1..w |-> (n \div Pow256(w - i)) % 256]
\* value of the 1-, 2- or 3-byte big-endian number at b[o..]
Num1(b, o) == b[o]
Num2(b, o) == b[o] * 256 + b[o + 1]
Num3(b, o) == (b[o] * 256 + b[o + 1]) * 256 + b[o + 2]
Slice(b, o, n) == [i \in 1..n |-> b[o + i - 1]]        \* n bytes starting at (1-based) o
IsBytes(v) == /\ DOMAIN v = 1..Len(v) /\ \A i \in 1..Len(v) : v[i] \in Byte
NoZero(v) == \A i \in 1..Len(v) : v[i] # 0
PadTo8(n) == (8 - (n % 8)) % 8

\* concatenation of a sequence of byte strings, depth log(n)
RECURSIVE CatR(_, _, _)
CatR(ss, lo, hi) == IF lo > hi THEN <<>>
                    ELSE IF lo = hi THEN ss[lo]
                    ELSE LET mid == (lo + hi) \div 2 IN CatR(ss, lo, mid) \o CatR(ss, mid + 1, hi)
Cat(ss) == CatR(ss, 1, Len(ss))
RECURSIVE SumR(_, _, _)
SumR(ns, lo, hi) == IF lo > hi THEN 0
                    ELSE IF lo = hi THEN ns[lo]
                    ELSE LET mid == (lo + hi) \div 2 IN SumR(ns, lo, mid) + SumR(ns, mid + 1, hi)
Sum(ns) == SumR(ns, 1, Len(ns))

(* ---- field descriptors ------------------------------------------------- *)
(* t = "u"     unsigned integer / address of w bytes, big-endian             *)
(*     "pad"   w bytes that are zero on the wire                             *)
(*     "const" the fixed bytes c (version, type codes, vendor ids, subtypes) *)
(*     "len"   16-bit length in bytes of the whole structure                 *)
(*     "lenof" 16-bit length in bytes of the (list) field named n, which     *)
(*             follows later in the same structure                           *)
(*     "str"   w bytes: text, padded with NUL                                *)
(*     "rest"  opaque bytes up to the end of the structure                   *)
(*     "sub"   one nested structure of kind k (fixed size)                   *)
(*     "list"  structures of family k, back to back, to the end of the       *)
(*             structure                                                     *)
(*     "listn" structures of family k occupying exactly the number of bytes  *)
(*             announced by the preceding "lenof" descriptor of that name    *)
(*     "cntof" 16-bit number of elements of the list field named n           *)
(*     "listc" structures of family k, as many as the preceding "cntof"      *)
(*     "listz" structures of family k up to a zero header or the end         *)
(*     "pad8"  zero bytes bringing the list field named n to a multiple of 8 *)
FD(n, t, w, k, c) == [n |-> n, t |-> t, w |-> w, k |-> k, c |-> c]
U(n, w)     == FD(n, "u", w, "", <<>>)
Pad(w)      == FD("", "pad", w, "", <<>>)
Const(c)    == FD("", "const", Len(c), "", c)
LenF        == FD("", "len", 2, "", <<>>)
LenOf(n)    == FD(n, "lenof", 2, "", <<>>)
Str(n, w)   == FD(n, "str", w, "", <<>>)
Rest(n)     == FD(n, "rest", 0, "", <<>>)
Sub(n, k)   == FD(n, "sub", 0, k, <<>>)
List(n, k)  == FD(n, "list", 0, k, <<>>)
ListN(n, k) == FD(n, "listn", 0, k, <<>>)
ListC(n, k) == FD(n, "listc", 0, k, <<>>)
ListZ(n, k) == FD(n, "listz", 0, k, <<>>)
CntOf(n)    == FD(n, "cntof", 2, "", <<>>)
Pad8(n)     == FD(n, "pad8", 0, "", <<>>)

SV(k, f) == [k |-> k, f |-> f]
=============================================================================
