---- MODULE MC_t_long ----
EXTENDS MCOFWire
TheCases == Longest(0)
TheRCases == {}
TheAround == AroundOne
====
