---- MODULE MC_q_nx ----
EXTENDS MCOFWire
TheCases == NXDeviations(TopKindsNX) \cup NXShapes({0, 1, 2, 3, 4, 5})
TheRCases == {}
TheAround == AroundOne
====
