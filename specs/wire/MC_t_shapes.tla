---- MODULE MC_t_shapes ----
EXTENDS MCOFWire
TheCases == Payloads(0..40 \cup {63, 64, 65, 127, 128, 129, 255, 256, 257, 1023, 1024, 1498, 1499, 1500}) \cup ListsOf(2) \cup Counts(0..6)
TheRCases == {}
TheAround == AroundOne
====
