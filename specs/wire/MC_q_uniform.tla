---- MODULE MC_q_uniform ----
EXTENDS MCOFWire
TheCases == Uniform(TopKindsOF) \cup Empty(TopKindsOF) \cup Outputs(0) \cup NXUniform(TopKindsNX)
TheRCases == {}
TheAround == AroundBoth
====
