CONSTANTS
  Cases <- TheCases
  RCases <- TheRCases
  Around <- TheAround
INIT Init
NEXT Next
CHECK_DEADLOCK FALSE
