CONSTANTS
  Cases <- TheCases
  Around <- TheAround
INIT Init
NEXT Next
CHECK_DEADLOCK FALSE
