CONSTANTS
  Cases <- MCNoCases
  RCases <- MCNoCases
  Around <- AroundBoth
INIT TrInit
NEXT TrNext
CONSTRAINT Progress
POSTCONDITION Accepted
INVARIANT TypeOK
INVARIANT LenFieldOK
INVARIANT ConsumedOK
INVARIANT Lossless
INVARIANT Stable
INVARIANT Idempotent
INVARIANT Fresh
INVARIANT Mult8
CHECK_DEADLOCK FALSE
