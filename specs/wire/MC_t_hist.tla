---- MODULE MC_t_hist ----
EXTENDS MCOFWire
TheCases == UNION {Histories(k, b, NwStepsT("nw_src") \cup NwStepsT("nw_dst") \cup FieldStepsT, 2, "pre") : k \in {"match", "flow_mod", "srep_flow"}, b \in {ExactTCP, IPOnly, ARP}} \cup Histories("match", ExactTCP, NwSteps("nw_src") \cup NwSteps("nw_dst"), 3, "pre") \cup UNION {PrePost(k, ExactTCP, NwStepsT("nw_src") \cup NwStepsT("nw_dst") \cup FieldStepsT) : k \in DOMAIN MatchPos}
TheRCases == {}
TheAround == AroundOne
====
