---- MODULE MC_t_hist ----
EXTENDS MCOFWire
TheCases == UNION {Histories("match", b, NwStepsT("nw_src") \cup NwStepsT("nw_dst") \cup FieldSteps, 2, "pre") : b \in {ExactTCP, IPOnly}} \cup Histories("match", ExactTCP, NwSteps("nw_src") \cup NwSteps("nw_dst"), 3, "pre") \cup Histories("match", ARP, NwSteps("nw_src") \cup FieldStepsT, 2, "pre")
TheRCases == {}
TheAround == AroundOne
====
