---- MODULE MC_t_hist2 ----
EXTENDS MCOFWire
TheCases == UNION {Histories(k, ExactTCP, NwSteps("nw_src") \cup NwSteps("nw_dst") \cup FieldSteps, 2, "pre") : k \in {"flow_mod", "srep_flow"}} \cup UNION {PrePost(k, ExactTCP, NwSteps("nw_src") \cup FieldSteps) : k \in DOMAIN MatchPos}
TheRCases == {}
TheAround == AroundOne
====
