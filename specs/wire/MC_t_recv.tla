---- MODULE MC_t_recv ----
EXTENDS MCOFWire
TheCases == {}
TheRCases == Received({32, 33, 40, 62, 63})
TheAround == AroundBoth
====
