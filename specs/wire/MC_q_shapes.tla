---- MODULE MC_q_shapes ----
EXTENDS MCOFWire
TheCases == Payloads({0, 1, 2, 7, 8, 9, 1499, 1500}) \cup ListsOf(1) \cup Counts(0..3)
TheRCases == {}
TheAround == AroundOne
====
