---------------------------- MODULE TraceOFWire ----------------------------
(* C01, code -> spec: traces recorded from the real library (random objects  *)
(* built through its constructors, packed, decoded, re-packed, sometimes     *)
(* changed in between) must be behaviours of OFWire.tla.  TLC computes the   *)
(* wire image of every recorded object itself (Enc) and compares it with the *)
(* recorded bytes; all invariants of OFWire are evaluated at every step.     *)
EXTENDS MCOFWire, IOUtils, TLCExt

Traces == JsonDeserialize(IOEnv.TRACE_FILE)
NT == Len(Traces)
VARIABLES tid, l
tvars == <<vars, tid, l>>

TrInit == Init /\ tid \in 1..NT /\ l = 1 /\ TLCSet(tid, 0)
Ev == Traces[tid][l]
IsEvent(e) == l <= Len(Traces[tid]) /\ Ev.a = e /\ l' = l + 1 /\ UNCHANGED tid

\* the modifications a trace performs, in order (the spec's Choose announces them)
ModsOf(t) == LET ms == SelectSeq(Traces[t], LAMBDA e : e.a = "Modify")
             IN [i \in 1..Len(ms) |-> [path |-> ms[i].args.path, op |-> ms[i].args.op, v |-> ms[i].args.v,
                                        when |-> ms[i].args.when, form |-> ms[i].args.form]]
\* recorded bytes equal the image up to the free bits (NormalizePrereqs)
SameWire(obs, w, m) ==
  IF ~HasMatch(m) THEN obs = w
  ELSE LET fr == Enc(m, TRUE) IN
       Len(obs) = Len(w) /\ \A i \in 1..Len(w) : (obs[i] | fr[i]) = (w[i] | fr[i])

TrChoose ==
  /\ IsEvent("Choose") /\ Ev.wf
  /\ (WF(Ev.args.msg) /\ Constructible(Ev.args.msg)) = TRUE     \* the driver stays inside the property's domain
                                                               \* (= TRUE: evaluated as an expression, not as an action)
  /\ Choose([tag |-> "trace", msg |-> Ev.args.msg, mods |-> ModsOf(tid)])
TrEncode ==
  /\ IsEvent("Encode") /\ Ev.wf
  /\ Encode
  /\ Ev.obs.len = SizeOf(msg) /\ SameWire(Ev.obs.wire, wire', msg) = TRUE
TrModify ==
  /\ IsEvent("Modify") /\ Ev.wf
  /\ Modify
TrDecode ==
  /\ IsEvent("Decode") /\ Ev.wf
  /\ Decode("spec", Ev.args.pre, Ev.args.post)
  /\ Ev.obs.consumed = consumed' /\ Ev.obs.eq /\ Ev.obs.val = dec'
TrReencode ==
  /\ IsEvent("Reencode") /\ Ev.wf
  /\ Reencode
  /\ Ev.obs.len = SizeOf(dec) /\ SameWire(Ev.obs.wire, wire2', dec) = TRUE

TrNext == TrChoose \/ TrEncode \/ TrModify \/ TrDecode \/ TrReencode
TrSpec == TrInit /\ [][TrNext]_tvars

Progress == TLCSet(tid, IF TLCGet(tid) < l - 1 THEN l - 1 ELSE TLCGet(tid))
Ok(t) == TLCGet(t) = Len(Traces[t]) \/ (PrintT(<<"REJECT", t, TLCGet(t)>>) /\ FALSE)
Accepted == /\ PrintT(<<"TRACES-CHECKED", NT>>)
            /\ Cardinality({t \in 1..NT : ~Ok(t)}) = 0
=============================================================================
