---- MODULE MC_t_nx ----
EXTENDS MCOFWire
TheCases == NXPairs(TopKindsNX) \cup NXShapes(0..9) \cup NXEntriesT(0)
TheRCases == {}
TheAround == AroundOne
====
