---- MODULE MC_q_hist ----
EXTENDS MCOFWire
TheCases == Histories("match", ExactTCP, NwSteps("nw_src") \cup NwSteps("nw_dst") \cup FieldSteps, 2, "pre") \cup Histories("match", IPOnly, NwSteps("nw_src") \cup {HStep(Wild, "wildcards")}, 2, "pre")
TheRCases == {}
TheAround == AroundOne
====
