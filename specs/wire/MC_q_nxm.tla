---- MODULE MC_q_nxm ----
EXTENDS MCOFWire
TheCases == NXEntries \cup NXRegs
TheAround == AroundOne
====
