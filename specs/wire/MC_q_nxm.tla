---- MODULE MC_q_nxm ----
EXTENDS MCOFWire
TheCases == NXEntries(0) \cup NXRegs(0)
TheRCases == {}
TheAround == AroundOne
====
