------------------------------- MODULE NXWire -------------------------------
(* C01: layouts of the Nicira extensions that pox/openflow/nicira.py offers,  *)
(* transcribed from Open vSwitch's nicira-ext.h (struct nicira_header,        *)
(* nx_action_*, nx_flow_mod, nx_packet_in, NXM_HEADER).  Pure data: the codec *)
(* that interprets these tables is in OFWire.tla.                             *)
EXTENDS WireBase, Bitwise

NXVendor == <<0, 0, 35, 32>>                      \* NX_VENDOR_ID 0x00002320

(* ---- NXM / OXM match entries.  Header: vendor(16) field(7) hasmask(1)     *)
(* length(8); payload = value, followed by a mask of the same width when     *)
(* hasmask is set (length counts both).  Abstract value of an entry:         *)
(* [k |-> "nxm", f |-> [vendor |-> 2 bytes, field |-> 1 byte (0..127),       *)
(*                      value |-> bytes, mask |-> bytes or <<>>]]             *)
(* NxmWidth: payload width of every field the library names.                 *)
NxmFields ==
  { <<0, 0, 2>>, <<0, 1, 6>>, <<0, 2, 6>>, <<0, 3, 2>>, <<0, 4, 2>>, <<0, 5, 1>>, <<0, 6, 1>>, <<0, 7, 4>>,
    <<0, 8, 4>>, <<0, 9, 2>>, <<0, 10, 2>>, <<0, 11, 2>>, <<0, 12, 2>>, <<0, 13, 1>>, <<0, 14, 1>>,
    <<0, 15, 2>>, <<0, 16, 4>>, <<0, 17, 4>> }                                   \* NXM_OF_*
  \cup { <<1, i, 4>> : i \in 0..15 }                                             \* NXM_NX_REG0..15
  \cup { <<1, 16, 8>>, <<1, 17, 6>>, <<1, 18, 6>>, <<1, 19, 16>>, <<1, 20, 16>>, <<1, 21, 1>>, <<1, 22, 1>>,
         <<1, 23, 16>>, <<1, 24, 6>>, <<1, 25, 6>>, <<1, 26, 1>>, <<1, 27, 4>>, <<1, 28, 1>>, <<1, 29, 1>>,
         <<1, 30, 8>>, <<1, 31, 4>>, <<1, 32, 4>>, <<1, 34, 2>> }                \* NXM_NX_*
  \cup { <<32768, 34, 4>>, <<32768, 35, 1>>, <<32768, 36, 1>> }                  \* OXM_OF_MPLS_LABEL/TC/BOS
\* fields for which the library accepts a mask
NxmMaskable ==
  { <<0, 1>>, <<0, 2>>, <<0, 4>>, <<0, 5>>, <<0, 6>>, <<0, 7>>, <<0, 8>>, <<0, 9>>, <<0, 10>>, <<0, 11>>,
    <<0, 12>>, <<0, 16>>, <<0, 17>> }
  \cup { <<1, i>> : i \in 0..15 }
  \cup { <<1, 16>>, <<1, 19>>, <<1, 20>>, <<1, 23>>, <<1, 26>>, <<1, 30>>, <<1, 31>>, <<1, 32>>, <<1, 34>> }

(* Masks: canonical and preserved forms.                                      *)
(*  - An entry a CALLER builds with an all-ones mask is the unmasked entry:   *)
(*    the library sends the short form, so callers' entries are canonical     *)
(*    (no mask, or a mask that is not all-ones) and carry no value bit        *)
(*    outside the mask.                                                       *)
(*  - An entry RECEIVED with hasmask set keeps the mask it came with -         *)
(*    all-ones and all-zero included - and an entry of a field the library    *)
(*    has no name for is kept verbatim, so that re-encoding a decoded match   *)
(*    reproduces the peer's bytes (nxm_entry._force_mask, NXM_GENERIC).       *)
NxmCallerMask(value, mask) ==
  mask = <<>> \/ (/\ \E i \in 1..Len(mask) : mask[i] # 255
                  /\ \A i \in 1..Len(mask) : (value[i] & (255 - mask[i])) = 0)
NxmPeerMask(value, mask) ==
  mask = <<>> \/ \A i \in 1..Len(mask) : (value[i] & (255 - mask[i])) = 0
NxmHeader(vendor, field, hasmask, paylen) ==
  <<vendor[1], vendor[2], field[1] * 2 + (IF hasmask THEN 1 ELSE 0), paylen>>

(* ---- Nicira vendor actions: type 0xffff, len, vendor, subtype, body.      *)
NXA(subtype) == <<Const(<<255, 255>>), LenF, Const(NXVendor), Const(BE(subtype, 2))>>
NXActionLayout == [
  nxa_resubmit       |-> NXA(1)  \o <<U("in_port", 2), U("table", 1), Pad(3)>>,
  nxa_resubmit_table |-> NXA(14) \o <<U("in_port", 2), U("table", 1), Pad(3)>>,
  nxa_set_tunnel     |-> NXA(2)  \o <<Pad(2), U("tun_id", 4)>>,
  nxa_set_tunnel64   |-> NXA(9)  \o <<Pad(6), U("tun_id", 8)>>,
  nxa_reg_move       |-> NXA(6)  \o <<U("nbits", 2), U("src_ofs", 2), U("dst_ofs", 2), U("src", 4), U("dst", 4)>>,
  nxa_reg_load       |-> NXA(7)  \o <<U("ofs_nbits", 2), U("dst", 4), U("value", 8)>>,
  nxa_output_reg     |-> NXA(15) \o <<U("ofs_nbits", 2), U("reg", 4), U("max_len", 2), Pad(6)>>,
  nxa_controller     |-> NXA(20) \o <<U("max_len", 2), U("controller_id", 2), U("reason", 1), Pad(1)>>,
  nxa_fin_timeout    |-> NXA(19) \o <<U("fin_idle_timeout", 2), U("fin_hard_timeout", 2), Pad(2)>>,
  nxa_exit           |-> NXA(17) \o <<Pad(6)>>,
  nxa_dec_ttl        |-> NXA(18) \o <<Pad(6)>>,
  nxa_push_mpls      |-> NXA(23) \o <<U("ethertype", 2), Pad(4)>>,
  nxa_pop_mpls       |-> NXA(24) \o <<U("ethertype", 2), Pad(4)>>,
  nxa_mpls_label     |-> NXA(30) \o <<Pad(2), U("label", 4)>>,
  nxa_mpls_tc        |-> NXA(31) \o <<U("tc", 1), Pad(5)>>,
  nxa_learn          |-> NXA(16) \o <<U("idle_timeout", 2), U("hard_timeout", 2), U("priority", 2), U("cookie", 8),
                                      U("flags", 2), U("table_id", 1), Pad(1), U("fin_idle_timeout", 2),
                                      U("fin_hard_timeout", 2), ListZ("spec", "fms"), Pad8("spec")>>,
  nxa_bundle         |-> NXA(12) \o <<U("algorithm", 2), U("fields", 2), U("basis", 2), U("slave_type", 4),
                                      CntOf("slaves"), U("ofs_nbits", 2), U("dst", 4), Pad(4),
                                      ListC("slaves", "u16"), Pad8("slaves")>>,
  nxa_bundle_load    |-> NXA(13) \o <<U("algorithm", 2), U("fields", 2), U("basis", 2), U("slave_type", 4),
                                      CntOf("slaves"), U("ofs_nbits", 2), U("dst", 4), Pad(4),
                                      ListC("slaves", "u16"), Pad8("slaves")>> ]
NXActionSubtype == [ nxa_resubmit |-> 1, nxa_resubmit_table |-> 14, nxa_set_tunnel |-> 2, nxa_set_tunnel64 |-> 9,
  nxa_reg_move |-> 6, nxa_reg_load |-> 7, nxa_output_reg |-> 15, nxa_controller |-> 20, nxa_fin_timeout |-> 19,
  nxa_exit |-> 17, nxa_dec_ttl |-> 18, nxa_push_mpls |-> 23, nxa_pop_mpls |-> 24, nxa_mpls_label |-> 30,
  nxa_mpls_tc |-> 31, nxa_learn |-> 16, nxa_bundle |-> 12, nxa_bundle_load |-> 13 ]
\* sizeof() of the fixed part, as asserted in nicira-ext.h
NXActionSize == [ nxa_resubmit |-> 16, nxa_resubmit_table |-> 16, nxa_set_tunnel |-> 16, nxa_set_tunnel64 |-> 24,
  nxa_reg_move |-> 24, nxa_reg_load |-> 24, nxa_output_reg |-> 24, nxa_controller |-> 16, nxa_fin_timeout |-> 16,
  nxa_exit |-> 16, nxa_dec_ttl |-> 16, nxa_push_mpls |-> 16, nxa_pop_mpls |-> 16, nxa_mpls_label |-> 16,
  nxa_mpls_tc |-> 16, nxa_learn |-> 32, nxa_bundle |-> 32, nxa_bundle_load |-> 32 ]

(* ---- flow_mod_spec of NXAST_LEARN: a 16-bit header                        *)
(*   src(1 bit, <<13) | dst(2 bits, <<11) | n_bits(11 bits)                  *)
(* then the source (field: NXM header + 16-bit offset; immediate:            *)
(* ceil(n_bits/16)*2 bytes) and the destination (match / load: NXM header +  *)
(* 16-bit offset; output: nothing).  Abstract value:                         *)
(* [k |-> "fms", f |-> [src |-> <<0 or 1>>, dst |-> <<0..2>>, n_bits |-> 2 bytes (value < 2048),          *)
(*                       srcv |-> bytes, dstv |-> bytes]]                     *)
FmsSrcLen(src, nbits) == IF src = 0 THEN 6 ELSE ((nbits + 15) \div 16) * 2
FmsDstLen(dst) == IF dst = 2 THEN 0 ELSE 6

(* ---- Nicira vendor messages: ofp_header (type 4), vendor, subtype, body   *)
NXH(subtype) == <<Const(<<1>>), Const(<<4>>), LenF, U("xid", 4), Const(NXVendor), Const(BE(subtype, 4))>>
NXMsgLayout == [
  nx_role_request     |-> NXH(10) \o <<U("role", 4)>>,
  nx_role_reply       |-> NXH(11) \o <<U("role", 4)>>,
  nx_packet_in_format |-> NXH(16) \o <<U("format", 4)>>,
  nx_flow_mod_table_id |-> NXH(15) \o <<U("enable", 1), Pad(7)>>,
  nx_async_config     |-> NXH(19) \o <<U("packet_in_mask", 4), U("packet_in_mask_slave", 4),
                                       U("port_status_mask", 4), U("port_status_mask_slave", 4),
                                       U("flow_removed_mask", 4), U("flow_removed_mask_slave", 4)>>,
  nx_flow_mod         |-> NXH(13) \o <<U("cookie", 8), U("command", 2), U("idle_timeout", 2), U("hard_timeout", 2),
                                       U("priority", 2), U("buffer_id", 4), U("out_port", 2), U("flags", 2),
                                       LenOf("match"), Pad(6), ListN("match", "nxm"), Pad8("match"),
                                       List("actions", "action")>>,
  nxt_packet_in       |-> NXH(17) \o <<U("buffer_id", 4), U("total_len", 2), U("reason", 1), U("table_id", 1),
                                       U("cookie", 8), LenOf("match"), Pad(6), ListN("match", "nxm"),
                                       Pad8("match"), Pad(2), Rest("data")>>,
  \* ofp_flow_mod_table_id: an ordinary OFPT_FLOW_MOD whose command field carries the table id in its
  \* high byte (NXT_FLOW_MOD_TABLE_ID extension); same layout as ofp_flow_mod
  nx_ofp_flow_mod_table_id |-> <<Const(<<1>>), Const(<<14>>), LenF, U("xid", 4), Sub("match", "match"),
                                 U("cookie", 8), U("command", 2), U("idle_timeout", 2), U("hard_timeout", 2),
                                 U("priority", 2), U("buffer_id", 4), U("out_port", 2), U("flags", 2),
                                 List("actions", "action")>> ]
NXMsgSubtype == [ nx_role_request |-> 10, nx_role_reply |-> 11, nx_packet_in_format |-> 16,
  nx_flow_mod_table_id |-> 15, nx_async_config |-> 19, nx_flow_mod |-> 13, nxt_packet_in |-> 17 ]
NXMsgSize == [ nx_role_request |-> 20, nx_role_reply |-> 20, nx_packet_in_format |-> 20,
  nx_flow_mod_table_id |-> 24, nx_async_config |-> 40, nx_flow_mod |-> 48, nxt_packet_in |-> 42,
  nx_ofp_flow_mod_table_id |-> 72 ]
=============================================================================
