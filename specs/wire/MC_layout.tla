---- MODULE MC_layout ----
EXTENDS MCOFWire
TheCases == {}
TheRCases == {}
TheAround == {}
ASSUME PrintT(<<"L", ToJson(Layout)>>)
ASSUME PrintT(<<"N", ToJson([fields |-> NxmFields, maskable |-> NxmMaskable])>>)
====
