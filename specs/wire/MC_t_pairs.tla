---- MODULE MC_t_pairs ----
EXTENDS MCOFWire
TheCases == Pairs(TopKindsOF)
TheAround == AroundOne
====
