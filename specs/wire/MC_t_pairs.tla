---- MODULE MC_t_pairs ----
EXTENDS MCOFWire
TheCases == Pairs(TopKindsOF)
TheRCases == {}
TheAround == AroundOne
====
