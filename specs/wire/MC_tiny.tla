---- MODULE MC_tiny ----
EXTENDS MCOFWire
TheCases == Uniform({"hello", "flow_mod", "packet_out", "srep_flow", "actions"}) \cup Outputs(0)
TheRCases == {}
TheAround == AroundBoth
====
