---- MODULE MC_q_dev_stats ----
EXTENDS MCOFWire
TheCases == Deviations(StatsKinds)
TheRCases == {}
TheAround == AroundOne
====
