CONSTANTS
  DT = 1
  OT = 1
  RT = 1
  TT = 3
  Offers <- O1
  Autos <- BT
  PortKinds <- PAll
  FlowModes <- B2
  XKinds <- XCur
  ChKinds <- ChMe
  Decs <- DecAR
  Picks <- Pick0
  YaKinds <- YaReq
  JunkKinds <- J3
  MaxOffers = 1
  PreT = 1
  MaxT = 4
  Strict = FALSE
  AliasShim = TRUE
  IntClock = TRUE
  KeepHist = TRUE
  D = 0
INIT Init
NEXT Next
VIEW viewE
ACTION_CONSTRAINT ExportT
CHECK_DEADLOCK FALSE
