CONSTANTS
  DT = 1
  OT = 2
  RT = 1
  TT = 4
  Offers <- O2
  Autos <- B2
  PortKinds <- PAll
  FlowModes <- BT
  XKinds <- XAll
  ChKinds <- ChAll
  Decs <- DecAll
  Picks <- Pick2
  YaKinds <- YaAll
  JunkKinds <- J1
  MaxOffers = 2
  PreT = 0
  MaxT = 5
  Strict = FALSE
  AliasShim = TRUE
  IntClock = TRUE
  KeepHist = TRUE
  D = 0
INIT Init
NEXT Next
VIEW viewE
CHECK_DEADLOCK FALSE
PROPERTY NoFault
