CONSTANTS
  DT = 1
  OT = 1
  RT = 1
  TT = 3
  Offers <- O2
  Autos <- B2
  PortKinds <- PName
  FlowModes <- BT
  XKinds <- XCur
  ChKinds <- ChMe
  Decs <- DecAll
  Picks <- Pick2
  YaKinds <- YaReq
  JunkKinds <- J1
  MaxOffers = 2
  PreT = 0
  MaxT = 4
  Strict = FALSE
  AliasShim = TRUE
  IntClock = TRUE
  KeepHist = TRUE
  D = 0
INIT Init
NEXT Next
VIEW viewE
ACTION_CONSTRAINT ExportT
CHECK_DEADLOCK FALSE
