---- MODULE TraceDhcpClient ----
(* Code -> spec: traces recorded from the real OFDHCPClient (seeded random environment, harness/adapters_x11.py  *)
(* as recorder) must be behaviours of DhcpClient.tla; every invariant is evaluated at each matched step.        *)
(* An event is {a, args, obs, wf}: the action the environment performed with its arguments, and the             *)
(* observation {st, lst, nfl, of, tx, evs, fault, fired} made on the real system.  The spec's step operators    *)
(* decide which path (taken / ignored / deviation) the event is; the observation must be exactly what that      *)
(* path yields.                                                                                                 *)
EXTENDS MCDhcpClient, IOUtils, TLCExt, SequencesExt

Traces == JsonDeserialize(IOEnv.TRACE_FILE)
NT == Len(Traces)
VARIABLES tid, l
tvars == <<vars, tid, l>>

TrInit == Init /\ tid \in 1..NT /\ l = 1 /\ TLCSet(tid, 0)
Evt == Traces[tid][l]
IsEvent(e) == l <= Len(Traces[tid]) /\ Evt.a = e /\ l' = l + 1 /\ UNCHANGED tid
Match == Evt.wf /\ last'.exp = Evt.obs

AllStart == {"idle", "ok", "badport", "intport", "sendfault"}
AllRx == {"deaf", "broken", "noreqxid", "ignored", "foreign", "anyaddr", "taken"}

TrCreate ==
  /\ IsEvent("Create")
  /\ \/ CanConstruct /\ CreateStep(Evt.args.auto, Evt.args.port, Evt.args.fl, AllStart)
     \/ CreateFaults(Evt.args.auto, Evt.args.port, Evt.args.fl)
  /\ Match
TrSwitchUp == IsEvent("SwitchUp") /\ SwitchUpStep(AllStart) /\ Match
TrTick == IsEvent("Tick") /\ Tick /\ Match
TrRun ==
  /\ IsEvent("Run")
  /\ \/ FireDiscover \/ FireOfferRequests(Evt.args.pick) \/ FireOfferIdle(Evt.args.pick)
     \/ FireRequest \/ RequestTimeoutFaults \/ FireTotal
  /\ Match
TrRxOffer ==
  /\ IsEvent("RxOffer")
  /\ OfferStep(Evt.args.x, Evt.args.o, Evt.args.ch, Evt.args.dec, Evt.args.pick, AllRx)
  /\ Match
TrRxAck == IsEvent("RxAck") /\ AckStep(Evt.args.x, Evt.args.ch, Evt.args.ya, AllRx) /\ Match
TrRxNak == IsEvent("RxNak") /\ NakStep(Evt.args.x, Evt.args.ch, AllRx) /\ Match
TrRxJunk == IsEvent("RxJunk") /\ RxJunk(Evt.args.k) /\ Match

TrNext == TrCreate \/ TrSwitchUp \/ TrTick \/ TrRun \/ TrRxOffer \/ TrRxAck \/ TrRxNak \/ TrRxJunk
TrSpec == TrInit /\ [][TrNext]_tvars

Progress == TLCSet(tid, IF TLCGet(tid) < l - 1 THEN l - 1 ELSE TLCGet(tid))
Ok(t) == TLCGet(t) = Len(Traces[t]) \/ (PrintT(<<"REJECT", t, TLCGet(t)>>) /\ FALSE)
Accepted == /\ PrintT(<<"TRACES-CHECKED", NT>>)
            /\ Cardinality({t \in 1..NT : ~Ok(t)}) = 0
====
