---- MODULE MCDhcpClient ----
EXTENDS DhcpClient
O1 == {"o1"}
O2 == {"o1", "o2"}
O3 == {"o1", "o2", "o3"}
BF == {FALSE}
BT == {TRUE}
B2 == {FALSE, TRUE}
PName == {"name"}
PNameBad == {"name", "bad"}
PAll == {"name", "bad", "int"}
XAll == {"D", "R", "oldD", "oldR", "bogus"}
XCur == {"D", "R", "bogus"}
ChAll == {"me", "other"}
ChMe == {"me"}
DecAll == {"accept", "reject", "defer"}
DecAR == {"accept", "reject"}
Pick0 == {0}
Pick1 == {0, 1}
Pick2 == {0, 1, 2}
Pick3 == {0, 1, 2, 3}
YaAll == {"req", "other"}
YaReq == {"req"}
J1 == {"op"}
J3 == {"op", "inport", "unicast"}
JAll == {"op", "notype", "sport", "dport", "unicast", "inport", "discover", "request", "arp", "short"}
JSim == {"op", "notype", "unicast", "inport", "short"}
====
