CONSTANTS
  DT = 1
  OT = 1
  RT = 2
  TT = 4
  Offers <- O2
  Autos <- BT
  PortKinds <- PName
  FlowModes <- BT
  XKinds <- XCur
  ChKinds <- ChAll
  Decs <- DecAll
  Picks <- Pick2
  YaKinds <- YaAll
  JunkKinds <- J1
  MaxOffers = 2
  PreT = 0
  MaxT = 5
  Strict = FALSE
  AliasShim = TRUE
  IntClock = TRUE
  KeepHist = TRUE
  D = 0
INIT Init
NEXT Next
VIEW viewE
ACTION_CONSTRAINT ExportT
CHECK_DEADLOCK FALSE
