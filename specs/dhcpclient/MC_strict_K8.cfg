CONSTANTS
  DT = 2
  OT = 2
  RT = 2
  TT = 8
  Offers <- O2
  Autos <- B2
  PortKinds <- PNameBad
  FlowModes <- BT
  XKinds <- XAll
  ChKinds <- ChAll
  Decs <- DecAll
  Picks <- Pick2
  YaKinds <- YaAll
  JunkKinds <- J1
  MaxOffers = 2
  PreT = 1
  MaxT = 10
  Strict = TRUE
  AliasShim = FALSE
  IntClock = FALSE
  KeepHist = TRUE
  D = 0
INIT Init
NEXT Next
VIEW viewE
INVARIANT TypeOK
INVARIANT TimerOwner
INVARIANT TotalArmed
INVARIANT Deadline
INVARIANT TimersFuture
INVARIANT ListenOK
INVARIANT ReqOK
INVARIANT BoundOK
INVARIANT ErrorOnce
PROPERTY XidOnly
PROPERTY RequestOnce
PROPERTY DiscoverTiming
PROPERTY FiredOwner
PROPERTY LeasedOK
PROPERTY Terminal
CHECK_DEADLOCK FALSE
INVARIANT Alive
PROPERTY ChaddrOnly
PROPERTY NoFault
PROPERTY NakRestarts
