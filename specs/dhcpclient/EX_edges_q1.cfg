CONSTANTS
  DT = 1
  OT = 2
  RT = 1
  TT = 4
  Offers <- O1
  Autos <- B2
  PortKinds <- PName
  FlowModes <- BT
  XKinds <- XAll
  ChKinds <- ChAll
  Decs <- DecAll
  Picks <- Pick1
  YaKinds <- YaAll
  JunkKinds <- J1
  MaxOffers = 1
  PreT = 0
  MaxT = 5
  Strict = FALSE
  AliasShim = TRUE
  IntClock = TRUE
  KeepHist = TRUE
  D = 0
INIT Init
NEXT Next
VIEW viewE
ACTION_CONSTRAINT ExportT
CHECK_DEADLOCK FALSE
