CONSTANTS
  DT = 2
  OT = 2
  RT = 1
  TT = 5
  Offers <- O2
  Autos <- BF
  PortKinds <- PName
  FlowModes <- BT
  XKinds <- XAll
  ChKinds <- ChAll
  Decs <- DecAll
  Picks <- Pick2
  YaKinds <- YaAll
  JunkKinds <- J1
  MaxOffers = 2
  PreT = 0
  MaxT = 6
  Strict = FALSE
  AliasShim = TRUE
  IntClock = TRUE
  KeepHist = TRUE
  D = 0
INIT Init
NEXT Next
VIEW viewE
ACTION_CONSTRAINT ExportT
CHECK_DEADLOCK FALSE
