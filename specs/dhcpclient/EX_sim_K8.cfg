CONSTANTS
  DT = 2
  OT = 2
  RT = 2
  TT = 8
  Offers <- O3
  Autos <- B2
  PortKinds <- PAll
  FlowModes <- B2
  XKinds <- XAll
  ChKinds <- ChAll
  Decs <- DecAll
  Picks <- Pick3
  YaKinds <- YaAll
  JunkKinds <- JSim
  MaxOffers = 3
  PreT = 2
  MaxT = 12
  Strict = FALSE
  AliasShim = TRUE
  IntClock = TRUE
  KeepHist = TRUE
  D = 30
INIT Init
NEXT Next
INVARIANT Export
CHECK_DEADLOCK FALSE
