CONSTANTS
  DT = 1
  OT = 2
  RT = 1
  TT = 5
  Offers <- O3
  Autos <- B2
  PortKinds <- PName
  FlowModes <- B2
  XKinds <- XAll
  ChKinds <- ChAll
  Decs <- DecAll
  Picks <- Pick3
  YaKinds <- YaAll
  JunkKinds <- JSim
  MaxOffers = 3
  PreT = 1
  MaxT = 8
  Strict = FALSE
  AliasShim = TRUE
  IntClock = TRUE
  KeepHist = TRUE
  D = 30
INIT Init
NEXT Next
INVARIANT Export
CHECK_DEADLOCK FALSE
