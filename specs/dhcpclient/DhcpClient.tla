---------------------------- MODULE DhcpClient ----------------------------
(* X11: the DHCP client state machine of pox/proto/dhcp_client.py           *)
(* (DHCPClientBase + OFDHCPClient), one client on one port of one switch.   *)
(*                                                                          *)
(* Abstract state: the client's state (NEW / INIT / SELECTING / REQUESTING  *)
(* / BOUND / <ERROR> / <IDLE> as the code names them), its four timers      *)
(* (total, discover, offer, request) as absolute deadlines on a virtual     *)
(* clock, the offers collected in the current window with the consumer's    *)
(* verdict on each, the requested and the bound offer, which transaction    *)
(* ids are current, whether the PacketIn listener and the two DHCP flows    *)
(* are installed.                                                           *)
(*                                                                          *)
(* One named action per entry point / linearization point of the code:      *)
(*   Create        OFDHCPClient(...)  (__init__ / _try_start)               *)
(*   SwitchUp      the switch's handshake completes (ConnectionUp ->        *)
(*                 _handle_ConnectionUp -> _try_start)                      *)
(*   Tick          one second of virtual time passes, nothing is due        *)
(*   FireDiscover / FireOffer / FireRequest / FireTotal                     *)
(*                 ONE recoco.Timer callback runs (logged as "Run")         *)
(*   RxOffer / RxAck / RxNak / RxJunk                                       *)
(*                 a frame arrives on the switch port -> PACKET_IN ->       *)
(*                 _handle_PacketIn -> _rx                                  *)
(* The state setter of the code is a multi-step thing (kill the old state's *)
(* timer, _state_transition, store, per-state entry work); it is written    *)
(* here as the operators KillOld / Transition / ToInit / ToSelecting /      *)
(* ToRequesting / ToBound / ToError / ToIdle in the code's order, threading *)
(* an "effect" record (new client record + what an observer on the OpenFlow *)
(* channel, on the switch port, on the event bus and on the exception hooks *)
(* must see).                                                               *)
(*                                                                          *)
(* Transaction ids are symbols relative to what the client has sent:        *)
(* "D" = xid of the latest DISCOVER, "R" = xid of the latest REQUEST,       *)
(* "oldD" / "oldR" = xid of the one before, "bogus" = never used.  The code *)
(* draws a fresh xid for every message it sends (retransmissions too), so   *)
(* offer_xid is always "D" and request_xid is always "R".                   *)
(*                                                                          *)
(* Strict = TRUE is the design as documented in the code; Strict = FALSE    *)
(* replaces some steps by the NAMED DEVIATIONS the code really takes (see   *)
(* notes/X11.md, Defects observed):                                         *)
(*   CreateFaults            super(OpenFlowDHCPClient, ..): NameError       *)
(*                           (only without the harness alias, AliasShim)    *)
(*   SendFaults              secs = float -> struct.error in every send     *)
(*                           (only with the float clock, ~IntClock)         *)
(*   IntPortFaults           an integer port never sets self.portno         *)
(*   RequestTimeoutFaults    REQUESTING -> INIT trips `assert old in        *)
(*                           (NEW, INIT)` after the state was stored:       *)
(*                           "zombie" INIT without DISCOVER and timer       *)
(*   NakFaults               `self.state = INIT`: NameError, stays          *)
(*                           REQUESTING                                     *)
(*   AckBeforeRequestFaults  request_xid does not exist before the first    *)
(*                           REQUEST: AttributeError on any ACK/NAK         *)
(*   ForeignChaddrAccepted   chaddr is never looked at                      *)
(*   AckAddrNotChecked       an ACK for another address binds the requested *)
(*                           one                                            *)
EXTENDS Naturals, Sequences, FiniteSets, TLC, Json

CONSTANTS DT, OT, RT, TT,   \* discover / offer / request / total timeout (seconds)
          Offers,           \* offer ids (server, address, options are the adapter's concretisation)
          Autos,            \* values of auto_accept a Create may choose
          PortKinds,        \* how the port is named at Create: "name" | "bad" | "int"
          FlowModes,        \* values of install_flows
          XKinds,           \* transaction ids a reply may carry
          ChKinds,          \* chaddr of a reply: "me" | "other"
          Decs,             \* what the DHCPOffer handler does: "accept" | "reject" | "defer"
          Picks,            \* what the DHCPOffers handler does: 0 = nothing, i = accept(offers[i])
          YaKinds,          \* yiaddr of an ACK: "req" (the requested address) | "other"
          JunkKinds,        \* frames that are not for the client
          MaxOffers,        \* environment bound: offers per collection window
          PreT,             \* Create only up to this time
          MaxT,             \* Tick only up to this time unless a timer is armed
          Strict,           \* TRUE: documented intent; FALSE: with the code's deviations
          AliasShim,        \* harness defines the module global OpenFlowDHCPClient
          IntClock,         \* harness clock hands out python ints
          KeepHist,         \* FALSE only for the liveness run
          D                 \* export depth

States == {"NEW", "INIT", "SELECTING", "REQUESTING", "BOUND", "ERROR", "IDLE"}
TimerKinds == {"total", "discover", "offer", "request"}

VARIABLES up,        \* the switch has completed its handshake
          made,      \* "no" | "yes" | "dead" (constructor raised before anything existed)
          c,         \* the client (record below)
          now,       \* virtual time
          last,      \* observation of the last action
          hist       \* all observations (export only; hidden by VIEW)
vars == <<up, made, c, now, last, hist>>
view == <<up, made, c, now, last>>
viewE == <<up, made, c, now>>

NoClient == [st |-> "NEW", auto |-> FALSE, fl |-> TRUE, port |-> "name", broken |-> FALSE, lst |-> FALSE,
             tTot |-> 0, tDisc |-> 0, tOff |-> 0, tReq |-> 0, start |-> 0, nD |-> 0, nR |-> 0,
             offers |-> <<>>, req |-> "none", bnd |-> "none", nerr |-> 0, nleased |-> 0]

Min(S) == CHOOSE x \in S : \A y \in S : x <= y
Sat2(n) == IF n >= 2 THEN 2 ELSE n + 1

\* ---- observations
NoObs == [a |-> "Init", args |-> [x |-> 0], exp |-> [x |-> 0]]
Eff(cl) == [c |-> cl, of |-> <<>>, tx |-> <<>>, evs |-> <<>>, fault |-> "-"]
TxDiscover(secs) == [t |-> "DISCOVER", secs |-> secs, o |-> "-"]
TxRequest(secs, o) == [t |-> "REQUEST", secs |-> secs, o |-> o]
EvOffer(o) == [e |-> "Offer", o |-> o, n |-> 0, acc |-> 0, os |-> <<>>]
EvOffers(offs, pre) == [e |-> "Offers", o |-> "-", n |-> Len(offs), acc |-> pre, os |-> [i \in DOMAIN offs |-> offs[i].o]]
EvLeased(o) == [e |-> "Leased", o |-> o, n |-> 0, acc |-> 0, os |-> <<>>]
EvError == [e |-> "Error", o |-> "-", n |-> 0, acc |-> 0, os |-> <<>>]
Obs(m, e, fired) ==
  [st |-> IF m = "yes" THEN e.c.st ELSE "GONE",
   lst |-> (m = "yes" /\ e.c.lst),
   nfl |-> IF m = "yes" /\ e.c.lst /\ e.c.fl /\ ~e.c.broken THEN 2 ELSE 0,
   of |-> e.of, tx |-> e.tx, evs |-> e.evs, fault |-> e.fault, fired |-> fired]

Init == /\ up = FALSE /\ made = "no" /\ c = NoClient /\ now = 0
        /\ last = NoObs /\ hist = <<>>

Log(a, args, exp) ==
  /\ last' = [a |-> a, args |-> args, exp |-> exp]
  /\ hist' = IF KeepHist THEN Append(hist, [a |-> a, args |-> args, exp |-> exp]) ELSE hist

----------------------------------------------------------------------------
(* The state setter, in the code's order.                                   *)

\* `if old == INIT: killtimer('discover') elif old == SELECTING: ... elif old == REQUESTING: ...; requested = None`
KillOld(cl) == CASE cl.st = "INIT"       -> [cl EXCEPT !.tDisc = 0]
                 [] cl.st = "SELECTING"  -> [cl EXCEPT !.tOff = 0]
                 [] cl.st = "REQUESTING" -> [cl EXCEPT !.tReq = 0, !.req = "none"]
                 [] OTHER                -> cl

\* OFDHCPClient._state_transition: PacketIn listener and the two flows (unicast, broadcast) follow the state
Transition(e, new) ==
  IF new \notin {"IDLE", "ERROR", "BOUND"}
  THEN IF ~e.c.lst
       THEN [e EXCEPT !.c.lst = TRUE, !.of = @ \o (IF e.c.fl THEN <<"addU", "addB">> ELSE <<>>)]
       ELSE e
  ELSE IF e.c.lst
       THEN [e EXCEPT !.c.lst = FALSE, !.of = @ \o (IF e.c.fl THEN <<"delU", "delB">> ELSE <<>>)]
       ELSE e

\* _discover + the discover timer.  SendFaults: the packet cannot be packed, the exception leaves the setter
\* before the discover timer is made (offers were already cleared, no xid was recorded).  IntPortFaults (with
\* install_flows off, else the setter does not get this far): _send_data trips over the missing portno.
Discover(e) ==
  IF ~Strict /\ ~IntClock THEN [e EXCEPT !.c.offers = <<>>, !.fault = "error"]
  ELSE IF ~Strict /\ e.c.broken THEN [e EXCEPT !.c.offers = <<>>, !.fault = "AttributeError"]
  ELSE [e EXCEPT !.c.offers = <<>>, !.c.nD = Sat2(@), !.c.tDisc = now + DT,
                 !.tx = Append(@, TxDiscover(now - e.c.start)), !.of = Append(@, "po")]

\* state = INIT.  From NEW: total timer and start time.  From REQUESTING (request timeout, NAK) the documented
\* intent is "try again"; the code stores the state and then trips its own assertion (RequestTimeoutFaults).
ToInit(e) ==
  LET old == e.c.st
      e1 == Transition([e EXCEPT !.c = KillOld(@)], "INIT")
      e2 == [e1 EXCEPT !.c.st = "INIT"]
  IN IF old \notin {"NEW", "INIT"} /\ ~Strict
     THEN [e2 EXCEPT !.fault = "AssertionError"]
     ELSE Discover(IF old = "NEW" THEN [e2 EXCEPT !.c.tTot = now + TT, !.c.start = now] ELSE e2)

ToSelecting(e) ==
  LET e1 == Transition([e EXCEPT !.c = KillOld(@)], "SELECTING")
  IN [e1 EXCEPT !.c.st = "SELECTING", !.c.tOff = now + OT]

\* state = REQUESTING (requested was set by the caller): exactly one REQUEST, then the request timer
ToRequesting(e) ==
  LET e1 == Transition([e EXCEPT !.c = [KillOld(@) EXCEPT !.req = e.c.req]], "REQUESTING")
  IN [e1 EXCEPT !.c.st = "REQUESTING", !.c.nR = Sat2(@), !.c.tReq = now + RT,
                !.tx = Append(@, TxRequest(now - e.c.start, e.c.req)), !.of = Append(@, "po")]

\* bound = requested; state = BOUND: total timer killed, DHCPLeased(bound) raised once
ToBound(e) ==
  LET b == e.c.req
      e1 == Transition([e EXCEPT !.c = KillOld(@)], "BOUND")
  IN [e1 EXCEPT !.c.st = "BOUND", !.c.bnd = b, !.c.tTot = 0, !.c.nleased = @ + 1,
                !.evs = Append(@, EvLeased(b))]

ToError(e) ==
  LET e1 == Transition([e EXCEPT !.c = KillOld(@)], "ERROR")
  IN [e1 EXCEPT !.c.st = "ERROR", !.c.nerr = @ + 1, !.evs = Append(@, EvError)]

ToIdle(e) ==
  LET e1 == Transition([e EXCEPT !.c = KillOld(@)], "IDLE")
  IN [e1 EXCEPT !.c.st = "IDLE"]

\* _do_accept: first offer the consumer accepted, else first one it did not reject; the DHCPOffers handler may
\* name another one (pick); nothing acceptable -> IDLE
DoAccept(e, pick) ==
  LET offs == e.c.offers
      yes == {i \in DOMAIN offs : offs[i].acc = "yes"}
      ok == {i \in DOMAIN offs : offs[i].acc # "no"}
      pre == IF yes # {} THEN Min(yes) ELSE IF ok # {} THEN Min(ok) ELSE 0
      fin == IF pick \in DOMAIN offs THEN pick ELSE pre
      e1 == [e EXCEPT !.evs = Append(@, EvOffers(offs, pre))]
  IN IF fin = 0 THEN ToIdle(e1) ELSE ToRequesting([e1 EXCEPT !.c.req = offs[fin].o])

\* _exec_offer: remember the offer, raise DHCPOffer, with auto_accept take the first one not rejected at once
ExecOffer(e, o, dec, pick) ==
  LET acc == CASE dec = "accept" -> "yes" [] dec = "reject" -> "no" [] OTHER -> "none"
      e1 == [e EXCEPT !.c.offers = Append(@, [o |-> o, acc |-> acc]), !.evs = Append(@, EvOffer(o))]
  IN IF e.c.auto /\ acc # "no"
     THEN DoAccept([e1 EXCEPT !.c.offers[Len(e1.c.offers)].acc = "yes"], pick)
     ELSE e1

\* _try_start once the connection is there
Start(e) ==
  CASE e.c.port = "bad" -> ToError(e)
    [] e.c.port = "int" /\ ~Strict ->          \* IntPortFaults: self.portno is never set
         IF e.c.fl
         THEN \* listener registered, then AttributeError while building the first flow: still NEW, no timer
              [e EXCEPT !.c.lst = TRUE, !.c.broken = TRUE, !.fault = "AttributeError"]
         ELSE \* no flows to build: INIT is entered, the total timer runs, the DISCOVER cannot be sent
              ToInit([e EXCEPT !.c.broken = TRUE])
    [] OTHER -> ToInit(e)

----------------------------------------------------------------------------
(* Actions.  Every path through an entry point is a NAMED action (guard /\  *)
(* the entry point's step), so that TLC's coverage says which paths were    *)
(* explored and the deviations of the code are actions of their own.        *)

\* ---- construction and start
\* what _try_start will do with this client once the connection is there
StartClass(cl) ==
  CASE cl.port = "bad" -> "badport"
    [] cl.port = "int" /\ ~Strict -> "intport"
    [] ~Strict /\ ~IntClock -> "sendfault"
    [] OTHER -> "ok"

CreateStep(auto, port, fl, classes) ==
  /\ made = "no" /\ now <= PreT
  /\ UNCHANGED <<up, now>>
  /\ LET cl == [NoClient EXCEPT !.auto = auto, !.port = port, !.fl = fl]
         e == IF up THEN Start(Eff(cl)) ELSE Eff(cl)
     IN /\ (IF up THEN StartClass(cl) ELSE "idle") \in classes
        /\ made' = "yes" /\ c' = e.c
        \* events raised inside the constructor cannot have a listener yet
        /\ Log("Create", [auto |-> auto, port |-> port, fl |-> fl], Obs("yes", [e EXCEPT !.evs = <<>>], "-"))

CanConstruct == Strict \/ AliasShim
Create(auto, port, fl)              == CanConstruct /\ CreateStep(auto, port, fl, {"idle", "ok"})
CreateBadPort(auto, port, fl)       == CanConstruct /\ CreateStep(auto, port, fl, {"badport"})
CreateIntPortFaults(auto, port, fl) == CanConstruct /\ CreateStep(auto, port, fl, {"intport"})     \* deviation
CreateSendFaults(auto, port, fl)    == CanConstruct /\ CreateStep(auto, port, fl, {"sendfault"})   \* deviation
CreateFaults(auto, port, fl) ==                                                                    \* deviation
  /\ ~CanConstruct
  /\ made = "no" /\ now <= PreT
  /\ UNCHANGED <<up, now>>
  /\ made' = "dead" /\ c' = NoClient
  /\ Log("Create", [auto |-> auto, port |-> port, fl |-> fl],
         Obs("dead", [Eff(NoClient) EXCEPT !.fault = "NameError"], "-"))

SwitchUpStep(classes) ==
  /\ ~up /\ up' = TRUE
  /\ UNCHANGED <<made, now>>
  /\ LET starts == made = "yes" /\ c.st = "NEW" /\ ~c.broken
         e == IF starts THEN Start(Eff(c)) ELSE Eff(c)
     IN /\ (IF starts THEN StartClass(c) ELSE "idle") \in classes
        /\ c' = e.c
        /\ Log("SwitchUp", [x |-> 0], Obs(made, e, "-"))
SwitchUp              == ~up /\ SwitchUpStep({"idle", "ok"})
SwitchUpBadPort       == ~up /\ SwitchUpStep({"badport"})
SwitchUpIntPortFaults == ~up /\ SwitchUpStep({"intport"})      \* deviation
SwitchUpSendFaults    == ~up /\ SwitchUpStep({"sendfault"})    \* deviation

\* ---- time
Armed(k) == CASE k = "total" -> c.tTot [] k = "discover" -> c.tDisc [] k = "offer" -> c.tOff [] OTHER -> c.tReq
Due == {k \in TimerKinds : Armed(k) # 0 /\ Armed(k) <= now}
AnyArmed == \E k \in TimerKinds : Armed(k) # 0

\* time is urgent: a second passes only when every due timer has been served
Tick ==
  /\ Due = {} /\ (now < MaxT \/ AnyArmed)
  /\ now' = now + 1
  /\ UNCHANGED <<up, made, c>>
  /\ Log("Tick", [x |-> 0], Obs(made, Eff(c), "-"))

\* ONE timer callback runs; which of several due timers comes first is open (as in C06)
Fire(k, pick, e) ==
  /\ made = "yes" /\ k \in Due
  /\ UNCHANGED <<up, made, now>>
  /\ c' = e.c
  /\ Log("Run", [pick |-> pick, alts |-> Due], Obs(made, e, k))

\* discovery timed out: INIT -> INIT, a new DISCOVER (new xid), a new timer
FireDiscover == /\ "discover" \in Due
                /\ Fire("discover", 0, ToInit(Eff([c EXCEPT !.tDisc = 0])))
\* the offer window closed: REQUEST for the chosen offer / nothing acceptable: IDLE
OfferEff(pick) == DoAccept(Eff([c EXCEPT !.tOff = 0]), pick)
FireOfferRequests(pick) == /\ "offer" \in Due /\ OfferEff(pick).c.st = "REQUESTING"
                           /\ Fire("offer", pick, OfferEff(pick))
FireOfferIdle(pick) == /\ "offer" \in Due /\ OfferEff(pick).c.st = "IDLE"
                       /\ Fire("offer", pick, OfferEff(pick))
\* no ACK/NAK in time: back to discovery
RequestEff == ToInit(Eff([c EXCEPT !.tReq = 0]))
FireRequest == /\ Strict /\ "request" \in Due
               /\ Fire("request", 0, RequestEff)
RequestTimeoutFaults == /\ ~Strict /\ "request" \in Due          \* deviation (the zombie INIT is inside ToInit)
                        /\ Fire("request", 0, RequestEff)
\* total timeout: exactly one error transition, whatever the state
FireTotal == /\ "total" \in Due
             /\ Fire("total", 0, ToError(Eff([c EXCEPT !.tTot = 0])))

\* ---- frames from the network
XAvail(x) == CASE x = "D" -> c.nD >= 1 [] x = "oldD" -> c.nD >= 2
               [] x = "R" -> c.nR >= 1 [] x = "oldR" -> c.nR >= 2 [] OTHER -> TRUE
Hears == made = "yes" /\ c.lst
\* What _handle_PacketIn / _rx do with a reply of kind t ("OFFER" | "ACK" | "NAK") carrying xid x, chaddr ch and
\* (ACK) address ya:
\*   "deaf"      no listener (NEW, BOUND, ERROR, IDLE, nothing constructed)
\*   "broken"    IntPortFaults: every PACKET_IN of the switch trips over the missing portno
\*   "noreqxid"  AckBeforeRequestFaults: request_xid is an attribute only once a REQUEST has been sent
\*   "ignored"   wrong xid, wrong state (intended design: also wrong chaddr / wrong address)
\*   "foreign"   ForeignChaddrAccepted: taken although chaddr is another host's
\*   "anyaddr"   AckAddrNotChecked: taken although the ACK is for another address
\*   "taken"
Class(t, x, ch, ya) ==
  IF ~Hears THEN "deaf"
  ELSE IF c.broken THEN "broken"
  ELSE IF t # "OFFER" /\ ~Strict /\ c.nR = 0 THEN "noreqxid"
  ELSE IF t = "OFFER" /\ ~(x = "D" /\ c.st \in {"INIT", "SELECTING"}) THEN "ignored"
  ELSE IF t # "OFFER" /\ ~(x = "R" /\ c.st = "REQUESTING") THEN "ignored"
  ELSE IF ch # "me" THEN (IF Strict THEN "ignored" ELSE "foreign")
  ELSE IF t = "ACK" /\ ya # "req" THEN (IF Strict THEN "ignored" ELSE "anyaddr")
  ELSE "taken"
Acts(cls) == cls \in {"taken", "foreign", "anyaddr"}

Rx(a, args, e) ==
  /\ up /\ made # "no"
  /\ UNCHANGED <<up, made, now>>
  /\ c' = e.c
  /\ Log(a, args, Obs(made, e, "-"))
FaultEff(f) == [Eff(c) EXCEPT !.fault = f]
Passive(cls) == CASE cls = "broken" -> FaultEff("AttributeError")
                  [] cls = "noreqxid" -> FaultEff("AttributeError")
                  [] OTHER -> Eff(c)

OfferStep(x, o, ch, dec, pick, classes) ==
  LET cls == Class("OFFER", x, ch, "req") IN
  /\ XAvail(x) /\ Len(c.offers) < MaxOffers /\ cls \in classes
  /\ Rx("RxOffer", [x |-> x, o |-> o, ch |-> ch, dec |-> dec, pick |-> pick],
        IF Acts(cls) THEN ExecOffer(IF c.st = "INIT" THEN ToSelecting(Eff(c)) ELSE Eff(c), o, dec, pick)
        ELSE Passive(cls))
AckStep(x, ch, ya, classes) ==
  LET cls == Class("ACK", x, ch, ya) IN
  /\ XAvail(x) /\ cls \in classes
  /\ Rx("RxAck", [x |-> x, ch |-> ch, ya |-> ya], IF Acts(cls) THEN ToBound(Eff(c)) ELSE Passive(cls))
\* NAK for the current request: back to discovery.  The code: `self.state = INIT` (NameError), stays REQUESTING.
NakStep(x, ch, classes) ==
  LET cls == Class("NAK", x, ch, "req") IN
  /\ XAvail(x) /\ cls \in classes
  /\ Rx("RxNak", [x |-> x, ch |-> ch],
        IF Acts(cls) THEN (IF Strict THEN ToInit(Eff(c)) ELSE FaultEff("NameError")) ELSE Passive(cls))

\* The environment's alphabet for model checking / export.  Where the outcome does not depend on a parameter
\* (which offer an ignored OFFER carries, what the handlers would have said, chaddr / address of a reply that is
\* ignored for its xid or state anyway) only one canonical value is enumerated; the step operators themselves
\* take any value (the trace specification uses them with whatever the driver sent).
CanonO == CHOOSE o \in Offers : TRUE
CanonDec == CHOOSE d \in Decs : TRUE
CanonPick == CHOOSE p \in Picks : TRUE
CanonCh == CHOOSE h \in ChKinds : h = "me" \/ "me" \notin ChKinds
CanonYa == CHOOSE y \in YaKinds : y = "req" \/ "req" \notin YaKinds
PickRelevant(dec, pick) == (c.auto /\ dec # "reject") \/ pick = CanonPick
Quietly == {"deaf", "ignored"}
RxOfferFirst(x, o, ch, dec, pick)   == c.st = "INIT" /\ PickRelevant(dec, pick) /\ OfferStep(x, o, ch, dec, pick, {"taken"})
RxOfferMore(x, o, ch, dec, pick)    == c.st # "INIT" /\ PickRelevant(dec, pick) /\ OfferStep(x, o, ch, dec, pick, {"taken"})
RxOfferIgnored(x, o, ch, dec, pick) == up /\ OfferStep(x, o, ch, dec, pick, Quietly)
RxAck(x, ch, ya)                    == up /\ AckStep(x, ch, ya, {"taken"})
RxAckIgnored(x, ch, ya)             == up /\ AckStep(x, ch, ya, Quietly)
RxNak(x, ch)                        == Strict /\ NakStep(x, ch, {"taken"})
RxNakIgnored(x, ch)                 == up /\ NakStep(x, ch, Quietly)
\* a reply that only its chaddr / its address disqualifies (these are ignored in the intended design)
RxOfferWrongChaddr(x, o, ch)        == x = "D" /\ ch # CanonCh /\ OfferStep(x, o, ch, CanonDec, CanonPick, Quietly)
RxAckWrongChaddrOrAddr(x, ch, ya)   == x = "R" /\ (ch # CanonCh \/ ya # CanonYa) /\ AckStep(x, ch, ya, Quietly)
RxNakWrongChaddr(x, ch)             == x = "R" /\ ch # CanonCh /\ NakStep(x, ch, Quietly)
RxJunk(k) == up /\ Rx("RxJunk", [k |-> k], IF Hears /\ c.broken THEN FaultEff("AttributeError") ELSE Eff(c))
\* deviations
NakFaults(x, ch)                      == ~Strict /\ NakStep(x, ch, {"taken", "foreign"})
ForeignChaddrOffer(x, o, ch, dec, pick) == ~Strict /\ PickRelevant(dec, pick) /\ OfferStep(x, o, ch, dec, pick, {"foreign"})
ForeignChaddrAck(x, ch, ya)           == ~Strict /\ AckStep(x, ch, ya, {"foreign"})
AckAddrNotChecked(x, ch, ya)          == ~Strict /\ AckStep(x, ch, ya, {"anyaddr"})
AckBeforeRequestFaults(x, ch, ya)     == ~Strict /\ AckStep(x, ch, ya, {"noreqxid"})
NakBeforeRequestFaults(x, ch)         == ~Strict /\ NakStep(x, ch, {"noreqxid"})
IntPortRxFaults(x, o, ch, dec, pick)  == ~Strict /\ OfferStep(x, o, ch, dec, pick, {"broken"})
IntPortRxFaultsA(x, ch, ya)           == ~Strict /\ AckStep(x, ch, ya, {"broken"})
IntPortRxFaultsN(x, ch)               == ~Strict /\ NakStep(x, ch, {"broken"})

NextCreate == \E auto \in Autos, port \in PortKinds, fl \in FlowModes :
                \/ Create(auto, port, fl) \/ CreateBadPort(auto, port, fl) \/ CreateFaults(auto, port, fl)
                \/ CreateIntPortFaults(auto, port, fl) \/ CreateSendFaults(auto, port, fl)
NextSwitchUp == SwitchUp \/ SwitchUpBadPort \/ SwitchUpIntPortFaults \/ SwitchUpSendFaults
NextFireOffer == \E pick \in Picks : FireOfferRequests(pick) \/ FireOfferIdle(pick)
NextFire == FireDiscover \/ NextFireOffer \/ FireRequest \/ RequestTimeoutFaults \/ FireTotal
NextRx == \E x \in XKinds :
            \/ \E ch \in ChKinds, o \in Offers, dec \in Decs, pick \in Picks :
                 \/ RxOfferFirst(x, o, ch, dec, pick) \/ RxOfferMore(x, o, ch, dec, pick)
                 \/ ForeignChaddrOffer(x, o, ch, dec, pick)
            \/ RxOfferIgnored(x, CanonO, CanonCh, CanonDec, CanonPick)
            \/ IntPortRxFaults(x, CanonO, CanonCh, CanonDec, CanonPick)
            \/ \E ch \in ChKinds, ya \in YaKinds :
                 \/ RxAck(x, ch, ya) \/ AckAddrNotChecked(x, ch, ya) \/ ForeignChaddrAck(x, ch, ya)
                 \/ RxAckWrongChaddrOrAddr(x, ch, ya)
            \/ RxAckIgnored(x, CanonCh, CanonYa) \/ AckBeforeRequestFaults(x, CanonCh, CanonYa)
            \/ IntPortRxFaultsA(x, CanonCh, CanonYa)
            \/ \E ch \in ChKinds : RxNak(x, ch) \/ NakFaults(x, ch) \/ RxNakWrongChaddr(x, ch)
            \/ RxNakIgnored(x, CanonCh) \/ NakBeforeRequestFaults(x, CanonCh) \/ IntPortRxFaultsN(x, CanonCh)
            \/ \E ch \in ChKinds, o \in Offers : RxOfferWrongChaddr(x, o, ch)
NextRxJunk == \E k \in JunkKinds : RxJunk(k)

Next == NextCreate \/ NextSwitchUp \/ Tick \/ NextFire \/ NextRx \/ NextRxJunk

Spec == Init /\ [][Next]_vars
\* time passes and due timers are served; frames may or may not arrive
LiveSpec == Spec /\ WF_vars(Tick) /\ WF_vars(NextFire)

----------------------------------------------------------------------------
(* Properties, over the real variables                                      *)

OfferRec == [o : Offers, acc : {"yes", "no", "none"}]
TypeOK ==
  /\ up \in BOOLEAN /\ made \in {"no", "yes", "dead"} /\ now \in Nat
  /\ c.st \in States /\ c.auto \in BOOLEAN /\ c.fl \in BOOLEAN /\ c.port \in {"name", "bad", "int"}
  /\ c.broken \in BOOLEAN /\ c.lst \in BOOLEAN
  /\ c.tTot \in Nat /\ c.tDisc \in Nat /\ c.tOff \in Nat /\ c.tReq \in Nat /\ c.start \in Nat
  /\ c.nD \in 0..2 /\ c.nR \in 0..2
  /\ c.offers \in Seq(OfferRec) /\ Len(c.offers) <= MaxOffers
  /\ c.req \in Offers \cup {"none"} /\ c.bnd \in Offers \cup {"none"}
  /\ c.nerr \in Nat /\ c.nleased \in Nat
  /\ (made # "yes" => c = NoClient)

\* no timer of an old state is armed (so none can fire) after a transition
TimerOwner ==
  /\ c.tDisc # 0 => c.st = "INIT"
  /\ c.tOff # 0 => c.st = "SELECTING"
  /\ c.tReq # 0 => c.st = "REQUESTING"
  /\ c.tTot # 0 => c.st \in {"INIT", "SELECTING", "REQUESTING", "IDLE"}
\* the total timer runs from the start until the client is bound or failed, and always ends at start + TT
TotalArmed ==
  /\ c.st \in {"INIT", "SELECTING", "REQUESTING", "IDLE"} => c.tTot = c.start + TT
  /\ c.tTot # 0 => now <= c.tTot
\* ... so TT after the start the client is bound or has failed, nothing in between
Deadline == (made = "yes" /\ c.st # "NEW" /\ now > c.start + TT) => c.st \in {"BOUND", "ERROR"}
TimersFuture == \A k \in TimerKinds : Armed(k) # 0 => Armed(k) >= now
\* listening (PacketIn handler + flows) exactly while an answer is awaited
ListenOK == ~c.broken => (c.lst <=> c.st \in {"INIT", "SELECTING", "REQUESTING"})
ReqOK ==
  /\ c.req # "none" <=> c.st = "REQUESTING"
  /\ c.st = "REQUESTING" => c.nR >= 1 /\ c.tReq # 0
BoundOK ==
  /\ c.bnd # "none" <=> c.st = "BOUND"
  /\ c.nleased = IF c.st = "BOUND" THEN 1 ELSE 0         \* exactly one DHCPLeased, only when bound
ErrorOnce == c.nerr = IF c.st = "ERROR" THEN 1 ELSE 0   \* exactly one error transition
\* the intended design only: a client in INIT / SELECTING is alive (a DISCOVER is out and will be retransmitted,
\* the window will close); the code's zombie INIT breaks this
Alive ==
  /\ (c.st = "INIT" /\ ~c.broken) => c.tDisc # 0 /\ c.nD >= 1
  /\ c.st = "SELECTING" => c.tOff # 0 /\ Len(c.offers) >= 1

IsRx == last'.a \in {"RxOffer", "RxAck", "RxNak", "RxJunk"}
Quiet == last'.exp.of = <<>> /\ last'.exp.tx = <<>> /\ last'.exp.evs = <<>>
\* only the current transaction id (and, as documented intent, the client's own hardware address) is accepted,
\* and only in the state that waits for that kind of reply
XidOnly ==
  [][/\ (last'.a = "RxOffer" /\ (last'.args.x # "D" \/ c.st \notin {"INIT", "SELECTING"})) => (c' = c /\ Quiet)
     /\ (last'.a \in {"RxAck", "RxNak"} /\ (last'.args.x # "R" \/ c.st # "REQUESTING")) => (c' = c /\ Quiet)
     /\ last'.a = "RxJunk" => (c' = c /\ Quiet)]_vars
ChaddrOnly ==      \* intended design only
  [][(IsRx /\ last'.a # "RxJunk" /\ last'.args.ch # "me") => (c' = c /\ Quiet)]_vars
NoFault == [][last'.exp.fault = "-"]_vars      \* intended design only
\* exactly one REQUEST per entry into REQUESTING, naming the accepted offer, which the consumer did not reject
\* (or named itself in the DHCPOffers handler); no REQUEST otherwise
IsReq(m) == m.t = "REQUEST"
RequestOnce ==
  [][LET reqs == SelectSeq(last'.exp.tx, IsReq)
     IN /\ Len(reqs) = (IF c'.st = "REQUESTING" /\ c.st # "REQUESTING" THEN 1 ELSE 0)
        /\ Len(reqs) = 1 =>
             /\ reqs[1].o = c'.req
             /\ \E i \in DOMAIN c'.offers :
                  /\ c'.offers[i].o = c'.req
                  /\ (c'.offers[i].acc # "no" \/ last'.args.pick = i)]_vars
\* a DISCOVER goes out on start and then every DT seconds while in INIT - never early, never late
IsDisc(m) == m.t = "DISCOVER"
DiscoverTiming ==
  [][LET ds == SelectSeq(last'.exp.tx, IsDisc)
     IN /\ Len(ds) <= 1
        /\ Len(ds) = 1 => /\ c'.st = "INIT" /\ c'.tDisc = now + DT /\ c'.offers = <<>>
                          /\ \/ c.st = "NEW"
                             \/ last'.exp.fired = "discover" /\ c.st = "INIT" /\ c.tDisc = now
                             \/ Strict /\ c.st = "REQUESTING"
        /\ last'.exp.fired = "discover" => Len(ds) = 1]_vars
\* a timer callback runs only in the state that owns the timer, exactly at its deadline
FiredOwner ==
  [][/\ last'.exp.fired = "discover" => c.st = "INIT" /\ c.tDisc = now
     /\ last'.exp.fired = "offer" => c.st = "SELECTING" /\ c.tOff = now
     /\ last'.exp.fired = "request" => c.st = "REQUESTING" /\ c.tReq = now
     /\ last'.exp.fired = "total" => c.tTot = now /\ c'.st = "ERROR"]_vars
\* DHCPLeased: only by an ACK with the current request xid in REQUESTING, for exactly the requested offer
LeasedOK ==
  [][c'.nleased # c.nleased =>
       /\ last'.a = "RxAck" /\ last'.args.x = "R" /\ c.st = "REQUESTING" /\ c'.st = "BOUND"
       /\ c'.bnd = c.req /\ last'.exp.evs = <<EvLeased(c.req)>>
       /\ (Strict => last'.args.ya = "req" /\ last'.args.ch = "me")]_vars
\* NAK for the current request returns to discovery (intended design only)
NakRestarts ==
  [][(last'.a = "RxNak" /\ last'.args.x = "R" /\ last'.args.ch = "me" /\ c.st = "REQUESTING")
       => (c'.st = "INIT" /\ c'.tDisc = now + DT /\ c'.req = "none" /\ c'.tReq = 0)]_vars
\* BOUND and ERROR are final: nothing is sent, nothing changes
Terminal == [][c.st \in {"BOUND", "ERROR"} => (c' = c /\ Quiet)]_vars

\* liveness: once started the client ends up bound or failed
Settles == (made = "yes" /\ c.st # "NEW" /\ ~c.broken) ~> (c.st \in {"BOUND", "ERROR"})

\* ---- export for the replay harness
Bound   == Len(hist) <= D
Export  == (Len(hist) = D) => PrintT(<<"H", ToJson(hist)>>)
ExportT == PrintT(<<"T", ToJson(hist')>>)
=============================================================================
