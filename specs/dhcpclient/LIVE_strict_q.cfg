CONSTANTS
  DT = 1
  OT = 2
  RT = 1
  TT = 4
  Offers <- O1
  Autos <- B2
  PortKinds <- PName
  FlowModes <- BT
  XKinds <- XCur
  ChKinds <- ChMe
  Decs <- DecAll
  Picks <- Pick1
  YaKinds <- YaReq
  JunkKinds <- J1
  MaxOffers = 2
  PreT = 1
  MaxT = 2
  Strict = TRUE
  AliasShim = FALSE
  IntClock = FALSE
  KeepHist = FALSE
  D = 0
SPECIFICATION LiveSpec
PROPERTY Settles
INVARIANT TypeOK
CHECK_DEADLOCK FALSE
