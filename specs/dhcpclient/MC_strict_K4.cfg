CONSTANTS
  DT = 1
  OT = 2
  RT = 1
  TT = 4
  Offers <- O3
  Autos <- B2
  PortKinds <- PAll
  FlowModes <- B2
  XKinds <- XAll
  ChKinds <- ChAll
  Decs <- DecAll
  Picks <- Pick2
  YaKinds <- YaAll
  JunkKinds <- J3
  MaxOffers = 2
  PreT = 1
  MaxT = 6
  Strict = TRUE
  AliasShim = FALSE
  IntClock = FALSE
  KeepHist = TRUE
  D = 0
INIT Init
NEXT Next
VIEW viewE
INVARIANT TypeOK
INVARIANT TimerOwner
INVARIANT TotalArmed
INVARIANT Deadline
INVARIANT TimersFuture
INVARIANT ListenOK
INVARIANT ReqOK
INVARIANT BoundOK
INVARIANT ErrorOnce
PROPERTY XidOnly
PROPERTY RequestOnce
PROPERTY DiscoverTiming
PROPERTY FiredOwner
PROPERTY LeasedOK
PROPERTY Terminal
CHECK_DEADLOCK FALSE
INVARIANT Alive
PROPERTY ChaddrOnly
PROPERTY NoFault
PROPERTY NakRestarts
