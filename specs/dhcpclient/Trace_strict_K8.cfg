CONSTANTS
  DT = 2
  OT = 2
  RT = 2
  TT = 8
  Offers <- O3
  Autos <- B2
  PortKinds <- PAll
  FlowModes <- B2
  XKinds <- XAll
  ChKinds <- ChAll
  Decs <- DecAll
  Picks <- Pick3
  YaKinds <- YaAll
  JunkKinds <- JAll
  MaxOffers = 4
  PreT = 3
  MaxT = 60
  Strict = TRUE
  AliasShim = TRUE
  IntClock = TRUE
  KeepHist = FALSE
  D = 0
INIT TrInit
NEXT TrNext
CONSTRAINT Progress
POSTCONDITION Accepted
INVARIANT TypeOK
INVARIANT TimerOwner
INVARIANT TotalArmed
INVARIANT Deadline
INVARIANT TimersFuture
INVARIANT ListenOK
INVARIANT ReqOK
INVARIANT BoundOK
INVARIANT ErrorOnce
CHECK_DEADLOCK FALSE
