CONSTANTS
  DT = 2
  OT = 1
  RT = 1
  TT = 5
  Offers <- O2
  Autos <- B2
  PortKinds <- PName
  FlowModes <- BT
  XKinds <- XAll
  ChKinds <- ChAll
  Decs <- DecAll
  Picks <- Pick3
  YaKinds <- YaAll
  JunkKinds <- J1
  MaxOffers = 3
  PreT = 0
  MaxT = 6
  Strict = FALSE
  AliasShim = TRUE
  IntClock = TRUE
  KeepHist = TRUE
  D = 0
INIT Init
NEXT Next
VIEW viewE
INVARIANT TypeOK
INVARIANT TimerOwner
INVARIANT TotalArmed
INVARIANT Deadline
INVARIANT TimersFuture
INVARIANT ListenOK
INVARIANT ReqOK
INVARIANT BoundOK
INVARIANT ErrorOnce
PROPERTY XidOnly
PROPERTY RequestOnce
PROPERTY DiscoverTiming
PROPERTY FiredOwner
PROPERTY LeasedOK
PROPERTY Terminal
CHECK_DEADLOCK FALSE
