CONSTANTS
  Types <- T1
  TypeSeq <- T1s
  Owners <- O2
  SubOpts <- OptWeak3
  AutoOpts <- AutoThree
  RVs = {"none"}
  UnsubModes = {"handler", "pair"}
  BulkModes = {}
  BulkLens = {}
  WithClear = FALSE
  Forms = {"inst"}
  NoErrs = {FALSE}
  RaiseTypes <- TA
  SubTypes <- TA
  MaxSubs = 2
  MaxRaises = 1
  MaxUnsubs = 1
  MaxDepth = 2
  MaxOps = 1
  WithDrop = TRUE
  RemovedMayBeSkipped = FALSE
  Probes = 1
  D = 3
INIT Init
NEXT Next
VIEW viewE
INVARIANT TypeOK
INVARIANT WeakGone
INVARIANT FreedGone
INVARIANT InOrder
PROPERTY ExactlyOnce
PROPERTY SubscribedAtRaise
PROPERTY Complete
PROPERTY HaltStops
PROPERTY NoErrorsContained
PROPERTY RejectedUnchanged
PROPERTY NeverAgain
CHECK_DEADLOCK FALSE
