CONSTANTS
  Types <- T2
  TypeSeq <- T2s
  Owners <- O2
  SubOpts <- OptOnce
  AutoOpts <- AutoNone
  RVs <- RVremove
  UnsubModes = {"handler", "handlerT", "eid", "eidT", "pair"}
  BulkModes = {}
  BulkLens = {}
  WithClear = FALSE
  Forms = {"inst"}
  NoErrs = {FALSE}
  RaiseTypes <- TAB
  SubTypes <- TAB
  MaxSubs = 2
  MaxRaises = 2
  MaxUnsubs = 1
  MaxDepth = 2
  MaxOps = 1
  WithDrop = FALSE
  RemovedMayBeSkipped = FALSE
  Probes = 1
  D = 3
INIT Init
NEXT Next
VIEW viewE
ACTION_CONSTRAINT ExportT
CHECK_DEADLOCK FALSE
