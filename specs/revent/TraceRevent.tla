---- MODULE TraceRevent ----
(* Code -> spec: command/observation traces recorded from the real revent   *)
(* code (random driver, or the observed run of a replay that left the       *)
(* exported behaviour) must be behaviours of Revent.tla.  TLC keeps every   *)
(* spec state that is consistent with the observations so far, so hidden    *)
(* choices (which of two subscriptions of the same handler ran) are decided *)
(* exactly.  All invariants are evaluated at every matched step.            *)
EXTENDS MCRevent, IOUtils, TLCExt, SequencesExt

Traces == JsonDeserialize(IOEnv.TRACE_FILE)
NT == Len(Traces)
VARIABLES tid, l
tvars == <<vars, tid, l>>

TrInit == Init /\ tid \in 1..NT /\ l = 1 /\ TLCSet(tid, 0)
Ev == Traces[tid][l]
IsEvent(e) == l <= Len(Traces[tid]) /\ Ev.a = e /\ l' = l + 1 /\ UNCHANGED tid
Seen == Ev.wf /\ last'.exp = Ev.obs

TrSubscribe ==
  /\ IsEvent("Subscribe")
  /\ Subscribe(Ev.args.t, Ev.args.o, [prio |-> Ev.args.prio, once |-> Ev.args.once,
                                       weak |-> Ev.args.weak, byName |-> Ev.args.byName])
  /\ Seen
TrAutoBind ==
  /\ IsEvent("AutoBind")
  /\ AutoBind(Ev.args.o, [prio |-> Ev.args.prio, weak |-> Ev.args.weak,
                          \* traces recorded before the prefix dimension existed
                          prefix |-> IF "prefix" \in DOMAIN Ev.args THEN Ev.args.prefix ELSE ""])
  /\ Seen
TrUnsubscribe ==
  /\ IsEvent("Unsubscribe")
  /\ Unsubscribe(Ev.args.mode, Ev.args.o, Ev.args.m, Ev.args.t, Ev.args.id)
  /\ Seen
TrUnsubscribeMany ==
  /\ IsEvent("UnsubscribeMany")
  /\ UnsubscribeMany(Ev.args.items)
  /\ Seen
TrClearAll == IsEvent("ClearAll") /\ ClearAll /\ Seen
TrDropOwner == IsEvent("DropOwner") /\ DropOwnerAny(Ev.args.o) /\ Seen
TrRaiseBegin ==
  /\ IsEvent("RaiseBegin")
  /\ RaiseBegin(Ev.args.t, Ev.args.form, Ev.args.noerr)
  /\ Seen
TrRaiseSimple == IsEvent("RaiseSimple") /\ RaiseSimple(Ev.args.t, Ev.args.form) /\ Seen
TrReturn == IsEvent("Return") /\ Return(Ev.args.rv) /\ Seen

TrNext == TrSubscribe \/ TrAutoBind \/ TrUnsubscribe \/ TrUnsubscribeMany \/ TrClearAll \/ TrDropOwner
          \/ TrRaiseBegin \/ TrRaiseSimple \/ TrReturn
TrSpec == TrInit /\ [][TrNext]_tvars

Progress == TLCSet(tid, IF TLCGet(tid) < l - 1 THEN l - 1 ELSE TLCGet(tid))
Ok(t) == TLCGet(t) = Len(Traces[t]) \/ (PrintT(<<"REJECT", t, TLCGet(t)>>) /\ FALSE)
Accepted == /\ PrintT(<<"TRACES-CHECKED", NT>>)
            /\ Cardinality({t \in 1..NT : ~Ok(t)}) = 0
====
