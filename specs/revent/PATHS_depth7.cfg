CONSTANTS
  Types <- T1
  TypeSeq <- T1s
  Owners <- O2
  SubOpts <- OptPaths
  AutoOpts <- AutoNone
  RVs = {"none", "haltremove"}
  UnsubModes = {"eid"}
  BulkModes = {}
  BulkLens = {}
  WithClear = FALSE
  Forms = {"inst"}
  NoErrs = {FALSE}
  RaiseTypes <- TA
  SubTypes <- TA
  MaxSubs = 3
  MaxRaises = 2
  MaxUnsubs = 1
  MaxDepth = 2
  MaxOps = 1
  WithDrop = FALSE
  RemovedMayBeSkipped = FALSE
  Probes = 0
  D = 7
INIT Init
NEXT Next
CONSTRAINT Bound
INVARIANT Export
CHECK_DEADLOCK FALSE
