CONSTANTS
  Types <- T2
  TypeSeq <- T2s
  Owners <- O2
  SubOpts <- OptOnce
  AutoOpts <- AutoBulk
  RVs = {"none"}
  UnsubModes = {}
  BulkModes = {"handler", "eid", "pair"}
  BulkLens = {2}
  WithClear = TRUE
  Forms = {"inst"}
  NoErrs = {FALSE}
  RaiseTypes <- TAB
  SubTypes <- TAB
  MaxSubs = 3
  MaxRaises = 1
  MaxUnsubs = 1
  MaxDepth = 1
  MaxOps = 1
  WithDrop = FALSE
  RemovedMayBeSkipped = FALSE
  Probes = 1
  D = 3
INIT Init
NEXT Next
VIEW viewE
INVARIANT TypeOK
INVARIANT WeakGone
INVARIANT FreedGone
INVARIANT InOrder
PROPERTY ExactlyOnce
PROPERTY SubscribedAtRaise
PROPERTY Complete
PROPERTY HaltStops
PROPERTY NoErrorsContained
PROPERTY RejectedUnchanged
PROPERTY NeverAgain
CHECK_DEADLOCK FALSE
