CONSTANTS
  Types <- T1
  TypeSeq <- T1s
  Owners <- O2
  SubOpts <- OptErr
  AutoOpts <- AutoNone
  RVs <- RVerr
  UnsubModes = {"handlerT", "pair"}
  BulkModes = {}
  BulkLens = {}
  WithClear = FALSE
  Forms = {"inst", "cls"}
  NoErrs = {FALSE, TRUE}
  RaiseTypes <- TAU
  SubTypes <- TAU
  MaxSubs = 2
  MaxRaises = 1
  MaxUnsubs = 1
  MaxDepth = 2
  MaxOps = 1
  WithDrop = FALSE
  RemovedMayBeSkipped = FALSE
  Probes = 1
  D = 3
INIT Init
NEXT Next
VIEW viewE
ACTION_CONSTRAINT ExportT
CHECK_DEADLOCK FALSE
