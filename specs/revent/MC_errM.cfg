CONSTANTS
  Types <- T1
  TypeSeq <- T1s
  Owners <- O2
  SubOpts <- OptErr
  AutoOpts <- AutoNone
  RVs <- RVall
  UnsubModes = {}
  BulkModes = {}
  BulkLens = {}
  WithClear = FALSE
  Forms = {"inst", "cls"}
  NoErrs = {FALSE, TRUE}
  RaiseTypes <- TAU
  SubTypes <- TAU
  MaxSubs = 2
  MaxRaises = 2
  MaxUnsubs = 0
  MaxDepth = 2
  MaxOps = 1
  WithDrop = FALSE
  RemovedMayBeSkipped = FALSE
  Probes = 1
  D = 3
INIT Init
NEXT Next
VIEW viewE
INVARIANT TypeOK
INVARIANT WeakGone
INVARIANT FreedGone
INVARIANT InOrder
PROPERTY ExactlyOnce
PROPERTY SubscribedAtRaise
PROPERTY Complete
PROPERTY HaltStops
PROPERTY NoErrorsContained
PROPERTY RejectedUnchanged
PROPERTY NeverAgain
CHECK_DEADLOCK FALSE
