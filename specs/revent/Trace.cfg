CONSTANTS
  Types <- T2
  TypeSeq <- T2s
  Owners <- O3
  SubOpts <- OptAll
  AutoOpts <- AutoAll
  RVs <- RVall
  UnsubModes <- ModesAll
  BulkModes = {"handler", "eid", "pair"}
  BulkLens = {}
  WithClear = TRUE
  Forms = {"inst", "cls"}
  NoErrs = {FALSE, TRUE}
  RaiseTypes <- TABU
  SubTypes <- TABU
  MaxSubs = 100000
  MaxRaises = 100000
  MaxUnsubs = 100000
  MaxDepth = 1000
  MaxOps = 100000
  WithDrop = TRUE
  RemovedMayBeSkipped = FALSE
  Probes = 0
  D = 0
INIT TrInit
NEXT TrNext
CONSTRAINT Progress
POSTCONDITION Accepted
INVARIANT TypeOK
INVARIANT WeakGone
INVARIANT FreedGone
INVARIANT InOrder
CHECK_DEADLOCK FALSE
