---- MODULE MCRevent ----
EXTENDS Revent
\* priorities are ranks: the adapter maps 0,1,2 to -3, 0 (DEFAULT_PRIORITY), 5
Opt(p, o, w, b) == [prio |-> p, once |-> o, weak |-> w, byName |-> b]
T1 == {"A"}
T1s == <<"A">>
T2 == {"A", "B"}
T2s == <<"A", "B">>
O2 == {"o1", "o2"}
O3 == {"o1", "o2", "o3"}
\* option sets
OptPrio   == {Opt(p, FALSE, FALSE, FALSE) : p \in 0..2}
OptOnce   == {Opt(1, o, FALSE, FALSE) : o \in BOOLEAN}
OptWeak   == {Opt(1, FALSE, w, b) : w \in BOOLEAN, b \in BOOLEAN}
OptMix    == {Opt(p, o, FALSE, FALSE) : p \in {1, 2}, o \in BOOLEAN}
OptAll    == {Opt(p, o, w, b) : p \in 0..2, o \in BOOLEAN, w \in BOOLEAN, b \in BOOLEAN}
OptWeak3  == {Opt(1, FALSE, FALSE, FALSE), Opt(1, FALSE, TRUE, FALSE), Opt(2, FALSE, TRUE, TRUE)}
OptErr    == {Opt(1, FALSE, FALSE, FALSE), Opt(1, TRUE, FALSE, TRUE)}
AutoTwo   == {[prio |-> 1, weak |-> TRUE, prefix |-> ""], [prio |-> 2, weak |-> FALSE, prefix |-> ""]}
AutoThree == AutoTwo \cup {[prio |-> 1, weak |-> FALSE, prefix |-> "other"]}
OptPaths  == {Opt(1, FALSE, FALSE, FALSE), Opt(2, TRUE, FALSE, FALSE)}
OptPlain  == {Opt(1, FALSE, FALSE, FALSE)}
AutoNone  == {}
AutoBulk  == {[prio |-> 1, weak |-> FALSE, prefix |-> ""]}
AutoAll   == {[prio |-> p, weak |-> w, prefix |-> x] : p \in {1, 2}, w \in BOOLEAN, x \in {"", "other"}}
RVplain   == {"none", "halt"}
RVremove  == {"none", "false", "remove", "haltremove", "true"}
RVall     == {"none", "true", "false", "cont", "halt", "remove", "haltremove",
              "empty", "throw", "throwb"}
RVerr     == {"none", "throw", "throwb", "true"}
ModesAll  == {"handler", "handlerT", "eid", "eidT", "pair"}
TA  == {"A"}
TAU == {"A", "U"}
TABU == {"A", "B", "U"}
TAB == {"A", "B"}
====
