------------------------------ MODULE Revent ------------------------------
(* C05: the revent publish/subscribe core (pox/lib/revent/revent.py).       *)
(*                                                                          *)
(* One event source.  Abstract state: the live subscriptions in             *)
(* subscription order, the stack of deliveries in progress (a handler may   *)
(* subscribe, unsubscribe, raise again or let an owner die while it runs),  *)
(* the owners that have died, and the one-shot / self-removed               *)
(* subscriptions that an enclosing delivery still lists.                    *)
(*                                                                          *)
(* Granularity: a CONTROL POINT is either "idle" (stack empty) or "inside   *)
(* the handler that the top delivery is running" (Top.cur).  Every action   *)
(* is one command issued at a control point; its logged expectation is what *)
(* an observer sees next: the result of the call, or the next handler       *)
(* invocation, or the end of a delivery with raiseEvent's result.  The      *)
(* harness runs the real raiseEvent on a second thread so that it can stop  *)
(* inside each real handler invocation and issue the next command there.    *)
(*                                                                          *)
(* Where the property is silent the spec is nondeterministic (DESIGN 2.8):  *)
(*  - a handler subscribed during a delivery is invoked by it or not, at    *)
(*    most once, any time after its subscription;                           *)
(*  - a one-shot / self-removed subscription consumed by a nested delivery  *)
(*    while an enclosing delivery still lists it: invoked there or not;     *)
(*  - a handler removed by ANOTHER handler before its turn is still due;    *)
(*  - after an exception under raiseEventNoErrors the remaining handlers    *)
(*    run or not; the raiser never sees the exception;                      *)
(*  - whether a one-shot handler that raised an exception stays subscribed. *)
EXTENDS Naturals, Sequences, FiniteSets, TLC, Json

CONSTANTS Types,      \* event types the source declares
          TypeSeq,    \* the same, as a sequence (autoBind order is irrelevant across types)
          Owners,     \* objects whose bound methods are the handlers
          SubOpts,    \* allowed [prio, once, weak, byName] option records
          AutoOpts,   \* allowed [prio, weak, prefix] options of autoBindEvents ({} = off)
          RVs,        \* handler return values
          UnsubModes, \* "handler" | "handlerT" | "eid" | "eidT" | "pair"
          BulkModes,  \* item forms of removeListeners(list): subset of {"handler", "eid", "pair"}
          BulkLens,   \* lengths of the lists handed to removeListeners ({} = off)
          WithClear,  \* clearHandlers() may be issued
          Forms,      \* "inst" (raiseEvent(Ev())) | "cls" (raiseEvent(Ev))
          NoErrs,     \* subset of BOOLEAN: raiseEventNoErrors or raiseEvent
          RaiseTypes, \* types that may be raised (subset of Types \cup {"U"})
          SubTypes,   \* types that may be subscribed to
          MaxSubs, MaxRaises, MaxUnsubs, MaxDepth, MaxOps,
          WithDrop,   \* owners may die
          RemovedMayBeSkipped, \* FALSE: a handler unsubscribed by ANOTHER handler before its
                      \* turn is still due ("subscribed at that moment", DESIGN 2.8)
          Probes,     \* extra budget of RaiseSimple beyond MaxRaises
          D           \* export depth

Undeclared == "U"

\* a subscription.  m = "h" (explicit) or the type name (method _handle_<t>)
NoSub == [id |-> 0, t |-> "-", o |-> "-", m |-> "-", prio |-> 0,
          once |-> FALSE, weak |-> FALSE]

VARIABLES subs,    \* live subscriptions, in subscription order
          stack,   \* deliveries in progress, innermost last
          dead,    \* owners that have died
          freed,   \* ids consumed (one-shot / asked to be removed) that a running delivery still lists
          cnt,     \* budget counters [sub, raise, unsub]
          last,    \* observation of the last action
          hist     \* all observations (export only)
vars  == <<subs, stack, dead, freed, cnt, last, hist>>
view  == <<subs, stack, dead, freed, cnt, last>>
viewE == <<subs, stack, dead, freed, cnt>>
core  == <<subs, stack, dead, freed, cnt>>

Ids(s) == {s[i].id : i \in DOMAIN s}
Range(s) == {s[i] : i \in DOMAIN s}
Before(a, b) == a.prio > b.prio \/ (a.prio = b.prio /\ a.id < b.id)
\* delivery order of the live subscriptions of type t: priority descending,
\* subscription order among equals
OrderOf(s, t) == SortSeq(SelectSeq(s, LAMBDA r : r.t = t), Before)
Without(s, ids) == SelectSeq(s, LAMBDA r : r.id \notin ids)

Top == stack[Len(stack)]
Below == SubSeq(stack, 1, Len(stack) - 1)
OpsOK == IF stack = <<>> THEN TRUE ELSE Top.ops < MaxOps
Bump(stk) == IF stk = <<>> THEN stk
             ELSE [stk EXCEPT ![Len(stk)].ops = @ + 1]
DeadWeak(r, dd) == r.weak /\ r.o \in dd

\* ids that some delivery in progress lists (due, or subscribed meanwhile)
Listed(stk) == UNION {Ids(stk[i].due) \cup {r.id : r \in stk[i].late} : i \in DOMAIN stk}

O0 == [k |-> "-", o |-> "-", m |-> "-", res |-> "-", halt |-> FALSE,
       id |-> 0, alt |-> FALSE, n |-> 0, seq |-> <<>>]

Init == /\ subs = <<>> /\ stack = <<>> /\ dead = {} /\ freed = {}
        /\ cnt = [sub |-> 0, raise |-> 0, unsub |-> 0]
        /\ last = [a |-> "Init", args |-> [x |-> 0], exp |-> O0]
        /\ hist = <<>>

Log(a, args, exp) ==
  /\ last' = [a |-> a, args |-> args, exp |-> exp]
  /\ hist' = Append(hist, [a |-> a, args |-> args, exp |-> exp])

\* ---------------------------------------------------------------------------
\* What may happen next in delivery f (its running handler has just been
\* resolved, or it has just begun): the set of [stk, obs] outcomes.
\*   sb, fr, dd: subscriptions / freed / dead AFTER the command
Outcomes(below, f, sb, fr, dd, endOnly) ==
  LET n == Len(f.due)
      skippable(i) == \/ DeadWeak(f.due[i], dd)
                      \/ f.due[i].id \in fr
                      \/ (RemovedMayBeSkipped /\ f.due[i].id \notin Ids(sb))
      dueC == {i \in (f.pos + 1)..n :
                 /\ ~DeadWeak(f.due[i], dd)
                 /\ \A j \in (f.pos + 1)..(i - 1) : skippable(j)}
      lateC == {r \in f.late : r.id \notin f.inv /\ ~DeadWeak(r, dd)}
      canEnd == f.halted \/ f.threw \/ \A j \in (f.pos + 1)..n : skippable(j)
      results == IF ~f.threw THEN {"event"}
                 ELSE IF f.noerr THEN {"none", "event"} ELSE {"exc"}
      ends == IF canEnd
              THEN {[stk |-> below,
                     obs |-> [O0 EXCEPT !.k = "end", !.res = r,
                                        !.halt = (r = "event" /\ f.halted),
                                        !.n = Len(sb)]] : r \in results}
              ELSE {}
      Inv(r, p) == [stk |-> Append(below, [f EXCEPT !.cur = r, !.pos = p, !.ops = 0,
                                                    !.inv = @ \cup {r.id}]),
                    obs |-> [O0 EXCEPT !.k = "inv", !.o = r.o, !.m = r.m,
                                       !.n = Len(sb)]]
  IN IF f.halted \/ endOnly THEN ends
     ELSE ends \cup {Inv(f.due[i], i) : i \in dueC} \cup {Inv(r, f.pos) : r \in lateC}

Norm(fr, stk) == fr \cap Listed(stk)

\* ---------------------------------------------------------------------------
\* addListener / addListenerByName / add_listener
Subscribe(t, o, opt) ==
  LET args == [t |-> t, o |-> o, prio |-> opt.prio, once |-> opt.once,
               weak |-> opt.weak, byName |-> opt.byName] IN
  /\ OpsOK /\ o \notin dead
  /\ IF t \notin Types
     THEN /\ UNCHANGED core
          /\ Log("Subscribe", args, [O0 EXCEPT !.k = "rejected", !.n = Len(subs)])
     ELSE /\ cnt.sub < MaxSubs
          /\ LET r == [id |-> cnt.sub + 1, t |-> t, o |-> o, m |-> "h",
                       prio |-> opt.prio, once |-> opt.once, weak |-> opt.weak] IN
             /\ subs' = Append(subs, r)
             /\ stack' = Bump([i \in DOMAIN stack |->
                                IF stack[i].t = t
                                THEN [stack[i] EXCEPT !.late = @ \cup {r}]
                                ELSE stack[i]])
             /\ cnt' = [cnt EXCEPT !.sub = @ + 1]
             /\ UNCHANGED <<dead, freed>>
             /\ Log("Subscribe", args,
                    [O0 EXCEPT !.k = "sub", !.id = r.id, !.n = Len(subs) + 1])

\* autoBindEvents(sink = owner, source, prefix): one subscription per declared
\* type for which the owner has a _handle_<type> method (prefix ""), resp. a
\* _handle_<prefix>_<type> method.  The owner has both kinds for every
\* declared type and for the undeclared type (which must be ignored); a plain
\* autoBind must not bind the prefixed methods and vice versa.
\*   m = the type name (plain) or "o" \o type name (prefix "other")
AutoMethod(t, prefix) == IF prefix = "" THEN t ELSE "o" \o t
AutoBind(o, opt) ==
  LET k == Len(TypeSeq)
      new == [i \in 1..k |-> [id |-> cnt.sub + i, t |-> TypeSeq[i], o |-> o,
                              m |-> AutoMethod(TypeSeq[i], opt.prefix), prio |-> opt.prio,
                              once |-> FALSE, weak |-> opt.weak]] IN
  /\ OpsOK /\ o \notin dead /\ cnt.sub + k <= MaxSubs
  /\ subs' = subs \o new
  /\ stack' = Bump([i \in DOMAIN stack |->
                     [stack[i] EXCEPT !.late = @ \cup {r \in Range(new) : r.t = stack[i].t}]])
  /\ cnt' = [cnt EXCEPT !.sub = @ + k]
  /\ UNCHANGED <<dead, freed>>
  /\ Log("AutoBind", [o |-> o, prio |-> opt.prio, weak |-> opt.weak, prefix |-> opt.prefix],
         [O0 EXCEPT !.k = "auto", !.id = cnt.sub + 1, !.n = Len(subs) + k])

\* removeListener in its five calling conventions
Matches(r, mode, o, m, t, id) ==
  CASE mode = "handler"  -> r.o = o /\ r.m = m
    [] mode = "handlerT" -> r.o = o /\ r.m = m /\ r.t = t
    [] mode = "eid"      -> r.id = id
    [] mode = "eidT"     -> r.id = id /\ r.t = t
    [] mode = "pair"     -> r.id = id /\ r.t = t

Unsubscribe(mode, o, m, t, id) ==
  LET gone == {r \in Range(subs) : Matches(r, mode, o, m, t, id)}
      self == IF stack = <<>> THEN {}
              ELSE {r \in gone : r.o = Top.cur.o /\ r.m = Top.cur.m}
      stk  == Bump(stack) IN
  /\ OpsOK /\ cnt.unsub < MaxUnsubs
  /\ (mode \in {"handler", "handlerT"} => o \notin dead)  \* needs the object to name its method
  /\ subs' = Without(subs, {r.id : r \in gone})
  /\ stack' = stk
  /\ freed' = Norm(freed \cup {r.id : r \in self}, stk)
  /\ cnt' = [cnt EXCEPT !.unsub = @ + 1]
  /\ UNCHANGED dead
  /\ Log("Unsubscribe", [mode |-> mode, o |-> o, m |-> m, t |-> t, id |-> id],
         [O0 EXCEPT !.k = "unsub", !.alt = (gone # {}), !.n = Len(subs')])

\* removeListeners(list): the plural form, the documented way to undo
\* autoBindEvents / addListeners / listenTo (which return a list of ids).
\* Every element is a handler, an eid or a (type, eid) pair; EVERY element is
\* unsubscribed, whatever the outcome for the elements before it (live,
\* stale, never issued, duplicate); the result says whether anything changed.
\*   items: sequence of [mode, o, m, t, id]
MatchesAny(r, items) ==
  \E k \in DOMAIN items :
    Matches(r, items[k].mode, items[k].o, items[k].m, items[k].t, items[k].id)

UnsubscribeMany(items) ==
  LET gone == {r \in Range(subs) : MatchesAny(r, items)}
      self == IF stack = <<>> THEN {}
              ELSE {r \in gone : r.o = Top.cur.o /\ r.m = Top.cur.m}
      stk  == Bump(stack) IN
  /\ OpsOK /\ cnt.unsub < MaxUnsubs
  /\ \A k \in DOMAIN items :
       /\ items[k].mode \in {"handler", "eid", "pair"}
       /\ (items[k].mode = "handler" => items[k].o \notin dead)
  /\ subs' = Without(subs, {r.id : r \in gone})
  /\ stack' = stk
  /\ freed' = Norm(freed \cup {r.id : r \in self}, stk)
  /\ cnt' = [cnt EXCEPT !.unsub = @ + 1]
  /\ UNCHANGED dead
  /\ Log("UnsubscribeMany", [items |-> items],
         [O0 EXCEPT !.k = "unsub", !.alt = (gone # {}), !.n = Len(subs')])

\* clearHandlers(): "remove all handlers from this object".  Deliveries in
\* progress keep the list they froze when they were raised (like any removal
\* by another handler); the handler that issues it counts as having asked to
\* be removed (exactly as with removeListener).
ClearAll ==
  LET self == IF stack = <<>> THEN {}
              ELSE {r \in Range(subs) : r.o = Top.cur.o /\ r.m = Top.cur.m}
      stk  == Bump(stack) IN
  /\ WithClear /\ OpsOK /\ cnt.unsub < MaxUnsubs
  /\ subs' = <<>>
  /\ stack' = stk
  /\ freed' = Norm(freed \cup {r.id : r \in self}, stk)
  /\ cnt' = [cnt EXCEPT !.unsub = @ + 1]
  /\ UNCHANGED dead
  /\ Log("ClearAll", [x |-> 0], [O0 EXCEPT !.k = "clear", !.n = 0])

\* the last strong reference to owner o goes away.  Enabled only when that
\* really lets the object die: no strong subscription of o is live or held
\* by a delivery in progress, and no running handler belongs to o.
CanDie(o) ==
  /\ o \notin dead
  /\ \A r \in Range(subs) : r.o = o => r.weak
  /\ \A i \in DOMAIN stack :
       /\ stack[i].cur.o # o
       /\ \A r \in Range(stack[i].due) \cup stack[i].late : r.o = o => r.weak

\* (bounding only) the owner has something to lose
HasSub(o) ==
  \E r \in Range(subs) \cup UNION {Range(stack[i].due) \cup stack[i].late : i \in DOMAIN stack} :
    r.o = o

DropOwnerAny(o) ==
  /\ WithDrop /\ OpsOK /\ CanDie(o)
  /\ dead' = dead \cup {o}
  /\ subs' = SelectSeq(subs, LAMBDA r : r.o # o)
  /\ stack' = Bump(stack)
  /\ UNCHANGED <<freed, cnt>>
  /\ Log("DropOwner", [o |-> o], [O0 EXCEPT !.k = "drop", !.n = Len(subs')])
DropOwner(o) == HasSub(o) /\ DropOwnerAny(o)

\* raiseEvent / raiseEventNoErrors begins; the observation is the first
\* handler invocation or the immediate end
RaiseBegin(t, form, noerr) ==
  LET args == [t |-> t, form |-> form, noerr |-> noerr]
      due == OrderOf(subs, t) IN
  /\ OpsOK /\ cnt.raise < MaxRaises /\ Len(stack) < MaxDepth
  /\ IF t \notin Types
     THEN /\ UNCHANGED core
          /\ Log("RaiseBegin", args,
                 IF form = "inst"
                 THEN [O0 EXCEPT !.k = "rejected", !.n = Len(subs)]
                 ELSE [O0 EXCEPT !.k = "end", !.res = "none", !.n = Len(subs)])
     ELSE IF form = "cls" /\ due = <<>>
     THEN /\ UNCHANGED core
          /\ Log("RaiseBegin", args, [O0 EXCEPT !.k = "end", !.res = "none", !.n = Len(subs)])
     ELSE LET f == [t |-> t, form |-> form, noerr |-> noerr, due |-> due, pos |-> 0,
                    late |-> {}, inv |-> {}, cur |-> NoSub, ops |-> 0,
                    threw |-> FALSE, halted |-> FALSE] IN
          \E out \in Outcomes(Bump(stack), f, subs, freed, dead, FALSE) :
            /\ stack' = out.stk
            /\ cnt' = [cnt EXCEPT !.raise = @ + 1]
            /\ UNCHANGED <<subs, dead, freed>>
            /\ Log("RaiseBegin", args, out.obs)

\* the running handler returns rv, or raises an exception: rv = "throw" (an
\* ordinary Exception) or "throwb" (an exception that derives from
\* BaseException only - the property speaks of "a handler's exception" without
\* restriction, so error suppression has to contain both alike)
Throws(rv)  == rv \in {"throw", "throwb"}
Removes(rv) == rv \in {"false", "remove", "haltremove"}
Halts(rv)   == rv \in {"true", "halt", "haltremove", "empty"}

Return(rv) ==
  /\ stack # <<>>
  /\ LET f == Top
         c == f.cur
     IN
     IF ~Throws(rv)
     THEN LET rm  == c.once \/ Removes(rv)
              sb  == IF rm THEN Without(subs, {c.id}) ELSE subs
              f1  == [f EXCEPT !.cur = NoSub, !.halted = Halts(rv)]
              fr  == IF rm THEN freed \cup {c.id} ELSE freed IN
          \E out \in Outcomes(Below, f1, sb, fr, dead, FALSE) :
            /\ subs' = sb /\ stack' = out.stk /\ freed' = Norm(fr, out.stk)
            /\ UNCHANGED <<dead, cnt>>
            /\ Log("Return", [rv |-> rv], out.obs)
     ELSE \* exception.  A one-shot handler that threw stays or goes (silent).
          \E rm \in (IF c.once THEN BOOLEAN ELSE {FALSE}) :
            LET sb == IF rm THEN Without(subs, {c.id}) ELSE subs
                fr == IF rm THEN freed \cup {c.id} ELSE freed
                f1 == [f EXCEPT !.cur = NoSub, !.threw = TRUE] IN
            \E out \in Outcomes(Below, f1, sb, fr, dead, ~f.noerr) :
              /\ subs' = sb /\ stack' = out.stk /\ freed' = Norm(fr, out.stk)
              /\ UNCHANGED <<dead, cnt>>
              /\ Log("Return", [rv |-> rv], out.obs)

\* a whole delivery in which every handler just returns None (also the probe
\* that makes the delivery order of every reachable state observable)
RaiseSimple(t, form) ==
  LET args == [t |-> t, form |-> form]
      due == OrderOf(subs, t)
      once == {due[i].id : i \in {j \in DOMAIN due : due[j].once}}
      stk == Bump(stack) IN
  /\ OpsOK /\ cnt.raise < MaxRaises + Probes
  /\ IF t \notin Types
     THEN /\ UNCHANGED core
          /\ Log("RaiseSimple", args,
                 IF form = "inst"
                 THEN [O0 EXCEPT !.k = "rejected", !.n = Len(subs)]
                 ELSE [O0 EXCEPT !.k = "simple", !.res = "none", !.n = Len(subs)])
     ELSE IF form = "cls" /\ due = <<>>
     THEN /\ UNCHANGED core
          /\ Log("RaiseSimple", args, [O0 EXCEPT !.k = "simple", !.res = "none", !.n = Len(subs)])
     ELSE /\ subs' = Without(subs, once)
          /\ stack' = stk
          /\ freed' = Norm(freed \cup once, stk)
          /\ cnt' = [cnt EXCEPT !.raise = @ + 1]
          /\ UNCHANGED dead
          /\ Log("RaiseSimple", args,
                 [O0 EXCEPT !.k = "simple", !.res = "event", !.n = Len(subs'),
                            !.seq = [i \in DOMAIN due |-> [o |-> due[i].o, m |-> due[i].m]]])

Handlers == {<<o, "h">> : o \in Owners} \cup
            {<<o, AutoMethod(t, opt.prefix)>> : o \in Owners, t \in Types, opt \in AutoOpts}

\* the elements a removeListeners list is made of (bounded exploration only)
Item(mode, o, m, t, id) == [mode |-> mode, o |-> o, m |-> m, t |-> t, id |-> id]
BulkItems ==
  {Item("handler", h[1], h[2], "-", 0) : h \in (IF "handler" \in BulkModes THEN Handlers ELSE {})}
  \cup {Item("eid", "-", "-", "-", id) : id \in (IF "eid" \in BulkModes THEN 1..(cnt.sub + 1) ELSE {})}
  \cup {Item("pair", "-", "-", x[1], x[2]) :
          x \in (IF "pair" \in BulkModes THEN Types \X (1..(cnt.sub + 1)) ELSE {})}
BulkLists == UNION {[1..n -> BulkItems] : n \in BulkLens}
UnsubscribeManyAny == \E items \in BulkLists : UnsubscribeMany(items)

Next ==
  \/ \E t \in SubTypes, o \in Owners, opt \in SubOpts : Subscribe(t, o, opt)
  \/ \E o \in Owners, opt \in AutoOpts : AutoBind(o, opt)
  \/ \E mode \in UnsubModes \cap {"handler"}, h \in Handlers :
        Unsubscribe(mode, h[1], h[2], "-", 0)
  \* (an unsubscription may name any event type, also one the source does not declare: nothing is subscribed under
  \* it, so nothing happens - and raising an instance of that type is rejected afterwards as it was before)
  \/ \E mode \in UnsubModes \cap {"handlerT"}, h \in Handlers, t \in Types \cup (RaiseTypes \ Types) :
        Unsubscribe(mode, h[1], h[2], t, 0)
  \/ \E mode \in UnsubModes \cap {"eid"}, id \in 1..(cnt.sub + 1) :
        Unsubscribe(mode, "-", "-", "-", id)
  \/ \E mode \in UnsubModes \cap {"eidT", "pair"}, id \in 1..(cnt.sub + 1), t \in Types \cup (RaiseTypes \ Types) :
        Unsubscribe(mode, "-", "-", t, id)
  \/ UnsubscribeManyAny
  \/ ClearAll
  \/ \E o \in Owners : DropOwner(o)
  \/ \E t \in RaiseTypes, form \in Forms, ne \in NoErrs : RaiseBegin(t, form, ne)
  \/ \E t \in RaiseTypes, form \in Forms : RaiseSimple(t, form)
  \/ \E rv \in RVs : Return(rv)

Spec == Init /\ [][Next]_vars

\* ---------------------------------------------------------------------------
\* The property, over the real variables.

FrameOK(f) ==
  /\ f.t \in Types /\ f.cur # NoSub /\ f.cur.id \in f.inv
  /\ f.pos \in 0..Len(f.due)
  /\ f.inv \subseteq Ids(f.due) \cup {r.id : r \in f.late}
  /\ \A r \in Range(f.due) \cup f.late : r.t = f.t
  /\ Ids(f.due) \cap {r.id : r \in f.late} = {}

TypeOK ==
  /\ \A i \in DOMAIN subs : subs[i].t \in Types /\ subs[i].o \in Owners /\ subs[i].id \in 1..cnt.sub
  /\ \A i, j \in DOMAIN subs : i < j => subs[i].id < subs[j].id
  /\ dead \subseteq Owners /\ freed \subseteq 1..cnt.sub
  /\ Len(stack) <= MaxDepth
  /\ \A i \in DOMAIN stack : FrameOK(stack[i])
  /\ cnt.sub <= MaxSubs /\ cnt.raise <= MaxRaises + Probes /\ cnt.unsub <= MaxUnsubs

\* a weakly subscribed handler disappears with its owner
WeakGone == \A i \in DOMAIN subs : ~DeadWeak(subs[i], dead)
\* one-shot handlers / handlers that asked to be removed are not subscribed
FreedGone == freed \cap Ids(subs) = {}

\* Within every delivery in progress the due handlers were invoked in order:
\* whenever a due handler has been invoked, every due handler before it has
\* been invoked as well or is excused (owner died / consumed by a nested
\* delivery); nothing beyond the cursor has been invoked.
Excused(r) == \/ DeadWeak(r, dead)
              \/ r.id \in freed
              \/ (RemovedMayBeSkipped /\ r.id \notin Ids(subs))
InOrder ==
  \A k \in DOMAIN stack :
    LET f == stack[k] IN
    /\ \A j \in 1..Len(f.due) : (f.due[j].id \in f.inv) => j <= f.pos
    /\ \A i \in 1..f.pos : f.due[i].id \in f.inv \/ Excused(f.due[i])
    \* the frozen list is in (priority desc, subscription order)
    /\ \A i, j \in 1..Len(f.due) : i < j => Before(f.due[i], f.due[j])

\* every invocation is of a handler not yet invoked by that delivery, never a dead owner's weak handler, and a late one only
\* after its subscription
ExactlyOnce ==
  [][\A k \in DOMAIN stack' :
       (k = Len(stack') /\ last'.exp.k = "inv") =>
         LET g == stack'[k]
             old == IF k \in DOMAIN stack /\ Len(stack') <= Len(stack) THEN stack[k].inv ELSE {} IN
         /\ g.cur.id \notin old
         /\ g.inv = old \cup {g.cur.id}
         /\ ~DeadWeak(g.cur, dead')
         /\ g.cur.o = last'.exp.o /\ g.cur.m = last'.exp.m]_vars

\* a new delivery lists exactly the handlers subscribed at that moment
SubscribedAtRaise ==
  [][(last'.a = "RaiseBegin" /\ Len(stack') > Len(stack)) =>
       stack'[Len(stack')].due = OrderOf(subs, last'.args.t)]_vars

\* a delivery that ends without halt / exception has invoked every due
\* handler that is not excused
Complete ==
  [][(last'.a = "Return" /\ Len(stack') < Len(stack) /\ last'.exp.res = "event"
        /\ ~last'.exp.halt /\ ~Throws(last'.args.rv) /\ ~Top.threw) =>
       \A i \in 1..Len(Top.due) :
         Top.due[i].id \in Top.inv \/ Excused(Top.due[i])]_vars

\* halting ends the delivery at once, and the event says so
HaltStops ==
  [][(last'.a = "Return" /\ Halts(last'.args.rv)) =>
       /\ Len(stack') = Len(stack) - 1
       /\ last'.exp.k = "end" /\ (last'.exp.halt \/ last'.exp.res = "none")]_vars

\* raiseEventNoErrors never lets a handler's exception reach the raiser
NoErrorsContained ==
  [][(last'.exp.res = "exc") => (last'.a = "Return" /\ ~Top.noerr)]_vars

\* undeclared event types are rejected and nothing changes
RejectedUnchanged ==
  [][/\ (last'.exp.k = "rejected" => UNCHANGED core)
     /\ ((last'.a \in {"Subscribe"} /\ last'.args.t \notin Types) => last'.exp.k = "rejected")
     /\ ((last'.a \in {"RaiseBegin", "RaiseSimple"} /\ last'.args.t \notin Types
            /\ last'.args.form = "inst") => last'.exp.k = "rejected")]_vars

\* a subscription that is gone never comes back; one-shot and self-removed
\* handlers are gone as soon as their invocation returned normally
NeverAgain ==
  [][/\ \A id \in 1..cnt.sub : id \notin Ids(subs) => id \notin Ids(subs')
     /\ (last'.a = "Return" /\ ~Throws(last'.args.rv)
           /\ (Top.cur.once \/ Removes(last'.args.rv))) => Top.cur.id \notin Ids(subs')
     /\ (last'.a = "Unsubscribe") =>
           \A r \in Range(subs) :
             Matches(r, last'.args.mode, last'.args.o, last'.args.m, last'.args.t, last'.args.id)
               <=> r.id \notin Ids(subs')
     \* removeListeners(list) unsubscribes what ANY of its elements names, and only that
     /\ (last'.a = "UnsubscribeMany") =>
           /\ \A r \in Range(subs) :
                 MatchesAny(r, last'.args.items) <=> r.id \notin Ids(subs')
           /\ last'.exp.alt <=> (Len(subs') < Len(subs))
     /\ (last'.a = "ClearAll") => subs' = <<>>]_vars

\* ---- export for the replay harness
Bound   == Len(hist) <= D
Export  == (Len(hist) = D) => PrintT(<<"H", ToJson(hist)>>)
ExportT == PrintT(<<"T", ToJson(hist')>>)
=============================================================================
