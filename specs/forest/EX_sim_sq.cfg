CONSTANTS
  Sw <- SqSw
  Ports <- SqPorts
  InitPorts <- SqInit
  Links <- SqLinks
  Mode = "stable"
  P = 4
  W = 5
  Strict = FALSE
  StrictHeal = FALSE
  PortOps <- AllOps
  OpPorts <- AllOpPorts
  Fresh <- AnyFresh
  MaxChan = 3
  D = 80
INIT Init
NEXT SimNext
INVARIANT Export
CHECK_DEADLOCK FALSE
