CONSTANTS
  Sw <- PairSw
  Ports <- PairPorts
  InitPorts <- PairInit
  Links <- PairLinks
  Mode = "stable"
  P = 1
  W = 1
  Strict = TRUE
  StrictHeal = FALSE
  PortOps <- AllOps
  OpPorts <- AllOpPorts
  Fresh <- AnyFresh
  MaxChan = 1
  D = 0
INIT TrInit
NEXT TrNext
CONSTRAINT Progress
POSTCONDITION Accepted
INVARIANT TypeOK
INVARIANT TreeIsSpanningForest
INVARIANT SwitchHasWhatItWasTold
INVARIANT WaitingBlocked
INVARIANT Converged
INVARIANT QuietFlood
CHECK_DEADLOCK FALSE
