CONSTANTS
  Sw <- OneSw
  Ports <- OnePorts
  InitPorts <- OneInit
  Links <- OneLinks
  Mode = "stable"
  P = 1
  W = 1
  Strict = FALSE
  StrictHeal = FALSE
  PortOps <- NoOps
  OpPorts <- NoOpPorts
  Fresh <- AnyFresh
  MaxChan = 1
  D = 0
INIT Init
NEXT Next
VIEW view
CONSTRAINT ChanBound
INVARIANT TypeOK
INVARIANT TreeIsSpanningForest
INVARIANT SwitchHasWhatItWasToldStrict
INVARIANT WaitingBlocked
INVARIANT Converged
INVARIANT QuietFlood
PROPERTY StableKeeps
PROPERTY ExactBatches
CHECK_DEADLOCK FALSE
