CONSTANTS
  Sw <- OneSw
  Ports <- OnePorts
  InitPorts <- OneInit
  Links <- OneLinks
  Mode = "stable"
  P = 1
  W = 1
  Strict = FALSE
  StrictHeal = FALSE
  PortOps <- AllOps
  OpPorts <- OneOpPorts
  Fresh <- NoFresh
  MaxChan = 1
  D = 0
INIT Init
NEXT Next
VIEW view
CONSTRAINT ChanBound
INVARIANT TypeOK
INVARIANT TreeIsSpanningForest
INVARIANT SwitchHasWhatItWasTold
INVARIANT WaitingBlocked
INVARIANT Converged
INVARIANT QuietFlood
PROPERTY StableKeeps
PROPERTY ExactBatches
CHECK_DEADLOCK FALSE
ACTION_CONSTRAINT EagerFlap1
