CONSTANTS
  Sw <- LoneSw
  Ports <- LonePorts
  InitPorts <- LoneInit
  Links <- NoLinks
  Mode = "stable"
  P = 2
  W = 3
  Strict = FALSE
  StrictHeal = FALSE
  PortOps <- AllOps
  OpPorts <- LoneOpPorts
  Fresh <- AnyFresh
  MaxChan = 1
  D = 0
INIT Init
NEXT Next
VIEW view
CONSTRAINT ChanBound
INVARIANT TypeOK
INVARIANT TreeIsSpanningForest
INVARIANT SwitchHasWhatItWasTold
INVARIANT WaitingBlocked
INVARIANT Converged
INVARIANT QuietFlood
PROPERTY StableKeeps
PROPERTY ExactBatches
CHECK_DEADLOCK FALSE
