CONSTANTS
  Sw <- LoneSw
  Ports <- LonePorts
  InitPorts <- LoneInit
  Links <- NoLinks
  Mode = "stable"
  P = 2
  W = 3
  Strict = FALSE
  StrictHeal = FALSE
  PortOps <- AllOps
  OpPorts <- LoneOpPorts1
  Fresh <- NoFresh
  MaxChan = 1
  D = 0
INIT Init
NEXT Next
VIEW viewE
CONSTRAINT ChanBound
ACTION_CONSTRAINT ExportAtomic
CHECK_DEADLOCK FALSE
