CONSTANTS
  Sw <- TriSw
  Ports <- TriPorts
  InitPorts <- TriInit
  Links <- TriLinks
  Mode = "unstable"
  P = 2
  W = 3
  Strict = FALSE
  StrictHeal = FALSE
  PortOps <- AllOps
  OpPorts <- AllOpPorts
  Fresh <- AnyFresh
  MaxChan = 3
  D = 60
INIT Init
NEXT SimNext
INVARIANT Export
CHECK_DEADLOCK FALSE
