CONSTANTS
  Sw <- TriSw
  Ports <- TriPorts
  InitPorts <- TriInit
  Links <- TriLinks
  Mode = "unstable"
  P = 2
  W = 3
  Strict = FALSE
  PortOps <- AllOps
  OpPorts <- AllOpPorts
  Fresh <- AnyFresh
  MaxChan = 3
  D = 60
INIT Init
NEXT Next
ACTION_CONSTRAINT DownAtomic
INVARIANT Export
CHECK_DEADLOCK FALSE
