CONSTANTS
  Sw <- SqSw
  Ports <- SqPorts
  InitPorts <- SqInit
  Links <- SqLinks
  Mode = "stable"
  P = 2
  W = 1
  Strict = FALSE
  StrictHeal = TRUE
  PortOps <- AllOps
  OpPorts <- AllOpPorts
  Fresh <- AnyFresh
  MaxChan = 1
  D = 0
INIT TrInit
NEXT TrNext
CONSTRAINT Progress
POSTCONDITION Accepted
INVARIANT TypeOK
INVARIANT TreeIsSpanningForest
INVARIANT SwitchHasWhatItWasTold
INVARIANT WaitingBlocked
INVARIANT Converged
INVARIANT QuietFlood
CHECK_DEADLOCK FALSE
