---- MODULE MCForest ----
EXTENDS Forest
\* two switches: two parallel cables (ports 1, 2), a host port 3 each; a third candidate link that claims a
\* port of the first cable (dynamic topology: refused) and one with both ends on switch 1 (refused)
PairSw      == {1, 2}
PairPorts   == 1..3
PairInit    == [s \in {1, 2} |-> {1, 2, 3}]
PairLinks   == {<<1, 1, 2, 1>>, <<1, 2, 2, 2>>, <<1, 1, 2, 2>>, <<1, 2, 1, 3>>}
PairLinks2  == {<<1, 1, 2, 1>>, <<1, 2, 2, 2>>}
\* one cable, one host port each: the port-event universe
OneSw       == {1, 2}
OnePorts    == 1..2
OneInit     == [s \in {1, 2} |-> {1, 2}]
OneLinks    == {<<1, 1, 2, 1>>}
\* triangle (every switch: two inter-switch ports, one host port)
TriSw       == {1, 2, 3}
TriPorts    == 1..3
TriInit     == [s \in {1, 2, 3} |-> {1, 2, 3}]
TriLinks    == {<<1, 1, 2, 1>>, <<2, 2, 3, 1>>, <<1, 2, 3, 2>>}
TriPorts2   == 1..2
TriInit2    == [s \in {1, 2, 3} |-> {1, 2}]
\* square with a diagonal, for simulation
SqSw        == {1, 2, 3, 4}
SqPorts     == 1..4
SqInit      == [s \in {1, 2, 3, 4} |-> {1, 2, 3, 4}]
SqLinks     == {<<1, 1, 2, 1>>, <<2, 2, 3, 1>>, <<3, 2, 4, 1>>, <<1, 2, 4, 2>>, <<1, 3, 3, 3>>, <<2, 3, 4, 3>>,
                <<1, 3, 2, 3>>}
AllOpPorts  == Sw \X Ports
NoOps       == {}
NoOpPorts   == {}
OneOpPorts  == {<<1, 1>>, <<1, 2>>}
OneOpPorts1 == {<<1, 1>>}
PairOpPorts == {<<1, 1>>, <<2, 2>>}
AllOps      == {"add", "del", "down", "up"}
LinkOps     == {"down", "up"}
NoFresh     == {FALSE}
AnyFresh    == {FALSE, TRUE}
\* a lone switch with three ports: waiting periods, port events, reconnects (no links at all)
LoneSw      == {1}
LonePorts   == 1..2
LoneInit    == [s \in {1} |-> {1, 2}]
NoLinks     == {}
LoneOpPorts == {<<1, 1>>, <<1, 2>>}
\* restrictions of the ENVIRONMENT used by some model-checking configurations (the spec itself is unrestricted)
Eager     == (dpend = {} /\ tphase < P /\ \E s \in conn : chan[s] # <<>>) => last'.a = "Deliver"   \* the channel is drained at once
OnlyFlap1 == last'.a = "Disconnect" => last'.args.s = 1                 \* only switch 1 ever disconnects
\* what the replay adapter cannot do: a LinkEvent between Disconnect and ConnDown, or on the timer instant before the timer
DownAtomic == ((dpend # {}) => last'.a = "ConnDown") /\ ((tphase = P) => last'.a = "Tick")
EagerFlap1 == Eager /\ OnlyFlap1
SimNext == Next /\ DownAtomic            \* (TLC's simulator does not apply ACTION_CONSTRAINTs)
EagerFlap1Atomic == Eager /\ OnlyFlap1 /\ DownAtomic
ExportAtomic     == DownAtomic /\ ExportT
ExportEager      == Eager /\ DownAtomic /\ ExportT
ExportEagerFlap1 == Eager /\ OnlyFlap1 /\ DownAtomic /\ ExportT
LoneOpPorts1 == {<<1, 1>>}
====
