------------------------------- MODULE Forest -------------------------------
(* X10: pox.openflow.spanning_forest - port roles from discovery LinkEvents.  *)
(*                                                                            *)
(* The specification follows the implementation object by object:             *)
(*   Topo / LinkData   known (links a LinkData exists for - never forgotten), *)
(*                     fwd, rev (directions currently alive; liveness 1 =     *)
(*                     both, 0.5 = one, 0 = none), tree (on_tree / _prev)     *)
(*   Switch            sws (Switch objects: every datapath that ever          *)
(*                     connected), age[s][p] (Port.ts as "time since          *)
(*                     reset_wait", capped at W; `waiting` <=> age < W),      *)
(*                     cache[s] (_port_out_cache: what the switch was last    *)
(*                     told, or nothing yet)                                  *)
(*   the timer         tphase (time since the last _handle_timer; period P)   *)
(* and the environment the component talks to:                                *)
(*   conn              datapaths with an OpenFlow session                     *)
(*   sports, down      ports that exist on each switch / whose link is down   *)
(*   swcfg[s][p]       the NO_FLOOD (16) / NO_FWD (32) bits AS THEY ARE ON    *)
(*                     THE SWITCH                                             *)
(*   chan[s]           batches of port_mods written to the session of s and   *)
(*                     not yet received (the channel is asynchronous; a       *)
(*                     disconnect loses what is in flight)                    *)
(* One action per entry point of the code:                                    *)
(*   ConnUp     _handle_openflow_ConnectionUp  (Switch created, ports synced, *)
(*              SpanningForest._compute)                                      *)
(*   Disconnect the session leaves the nexus (Connection.disconnect)          *)
(*   ConnDown   _handle_openflow_ConnectionDown (raised after Disconnect;     *)
(*              listeners of higher priority - discovery withdrawing the      *)
(*              switch's links - run in between)                              *)
(*   LinkEv     _handle_openflow_discovery_LinkEvent (add = probe seen,       *)
(*              remove = discovery's link timeout), incl. the two refusals    *)
(*              of Topo.get_link / LinkData (RuntimeError, AssertionError)    *)
(*   PortEv     a port is added / deleted / its link goes down / up on the    *)
(*              switch; if connected: _handle_openflow_PortStatus             *)
(*   Tick       SpanningForest._handle_timer (every P: every Switch syncs its *)
(*              ports and runs Switch._compute, the tree is NOT recomputed)   *)
(*   Deliver    the switch receives what was written to it (port_mods applied *)
(*              in order, features request answered)                          *)
(*   Advance    one unit of time passes                                       *)
(* SpanningForest._compute = TreeChoices (the mode function) followed by      *)
(* React (Switch._compute + Switch._realize of every connected Switch).       *)
(*                                                                            *)
(* Deliberate deviations from / abstractions of the code (see notes/X10.md):  *)
(*  - Port.up and Port.never_block are not modelled (never read / never set). *)
(*  - Strict = TRUE is the documented intent "ConnectionUp forgets what the   *)
(*    switch was told" (`self._port_cache = None` in _handle_ConnectionUp is  *)
(*    a misspelling of _port_out_cache); Strict = FALSE is what the code      *)
(*    does: the stale cache survives the reconnect (deviation StaleCache,     *)
(*    recorded in `stale`).                                                   *)
(*  - StrictHeal: deviation ForgottenLink, see LivenessAtPortUp below.         *)
(*  - time is discrete (unit = 1/P s); an event falling on a timer instant    *)
(*    happens after the timer (Tick is forced when tphase = P).               *)
EXTENDS Naturals, Sequences, FiniteSets, TLC, Json

CONSTANTS Sw,        \* switch numbers, ordered like their datapath ids
          Ports,     \* port numbers, ordered like the OpenFlow port numbers
          InitPorts, \* [Sw -> SUBSET Ports]: ports the switches start with
          Links,     \* candidate links <<s1, p1, s2, p2>> with <<s1, p1>> < <<s2, p2>> (Link.uni)
          Mode,      \* "stable" | "unstable" | "randomized" (randomized also stands for nx: any forest)
          P, W,      \* timer period and waiting period (send_cycle_time / 4), in time units
          Strict,    \* see above (deviation StaleCache)
          StrictHeal,\* FALSE = the code: a link killed by a port-down is never revived by the port coming up (ForgottenLink)
          PortOps,   \* subset of {"add", "del", "down", "up"}
          OpPorts,   \* the <<switch, port>> pairs on which port events are explored
          Fresh,     \* {FALSE} or {FALSE, TRUE}: may a switch reconnect rebooted (default port config)?
          MaxChan,   \* model-checking bound on batches in flight per switch
          D          \* export depth

NOFLOOD == 16
NOFWD   == 32
BLOCKED == 48        \* NO_FLOOD | NO_FWD: what a waiting port is told
NoCache == [has |-> FALSE, m |-> <<>>]
Told(m) == [has |-> TRUE, m |-> m]

VARIABLES conn, sports, down, swcfg, chan,          \* environment
          ann,                                      \* discovery's adjacency: [f, r] = directions of links it has
                                                    \* announced (LinkEvent added) and not withdrawn (removed);
                                                    \* tracked for the links the component knows
          sws, age, cache, known, fwd, rev, tree,   \* the component
          tphase, calm, stale,                      \* clocks / deviation bookkeeping
          dpend,                                    \* session gone, ConnectionDown not yet handled by the component
          last, hist
evars == <<conn, sports, down, swcfg, chan, ann>>
cvars == <<sws, age, cache, known, fwd, rev, tree>>
vars  == <<ann, conn, sports, down, swcfg, chan, sws, age, cache, known, fwd, rev, tree, tphase, calm, stale, dpend,
           last, hist>>
view  == <<ann, conn, sports, down, swcfg, chan, sws, age, cache, known, fwd, rev, tree, tphase, calm, stale, dpend>>
\* for the edge-cover export: calm and stale only feed the properties, no action reads them
viewE == <<ann, conn, sports, down, swcfg, chan, sws, age, cache, known, fwd, rev, tree, tphase, dpend>>

----------------------------------------------------------------------------
(* links and graphs: switches are nodes, links are edges *)
EndsOf(l)      == {<<l[1], l[2]>>, <<l[3], l[4]>>}
SelfLoop(l)    == l[1] = l[3]
LinkAt(s, p, K) == {l \in K : <<s, p>> \in EndsOf(l)}
Liv(l, F, R)   == IF l \in F /\ l \in R THEN 2 ELSE IF l \in F \/ l \in R THEN 1 ELSE 0
UpLinks        == fwd \cap rev

RECURSIVE Grow(_, _)
Grow(S, E) == LET T == S \cup {l[3] : l \in {e \in E : e[1] \in S}}
                       \cup {l[1] : l \in {e \in E : e[3] \in S}}
              IN IF T = S THEN S ELSE Grow(T, E)
Connected(a, b, E) == b \in Grow({a}, E)
IsForest(T)        == \A l \in T : ~Connected(l[1], l[3], T \ {l})
Spans(T, U)        == \A l \in U : Connected(l[1], l[3], T)
IsSpanningForest(T, U) == T \subseteq U /\ IsForest(T) /\ Spans(T, U)

\* the order of `links.sort(key=lambda l:l.link)`: tuples (dpid1, port1, dpid2, port2)
LinkLess(a, b) ==
  \/ a[1] < b[1]
  \/ a[1] = b[1] /\ a[2] < b[2]
  \/ a[1] = b[1] /\ a[2] = b[2] /\ a[3] < b[3]
  \/ a[1] = b[1] /\ a[2] = b[2] /\ a[3] = b[3] /\ a[4] < b[4]
MinLink(S) == CHOOSE l \in S : \A m \in S : l = m \/ LinkLess(l, m)
\* add_links(): take the links in order, skip one whose ends are already reachable from each other
RECURSIVE Greedy(_, _)
Greedy(T, S) == IF S = {} THEN T
                ELSE LET l == MinLink(S) IN
                     Greedy(IF Connected(l[1], l[3], T) THEN T ELSE T \cup {l}, S \ {l})
\* _compute_simple: stable = previous tree links that are still up first, then the rest in sorted order
StableTree(T0, U) == Greedy(T0 \cap U, U \ T0)
TreeChoices(T0, U) ==
  IF Mode = "stable" THEN {StableTree(T0, U)}
  ELSE IF Mode = "unstable" THEN {Greedy({}, U)}
  ELSE {T \in SUBSET U : IsSpanningForest(T, U)}

----------------------------------------------------------------------------
(* Switch._sync_port_data / _compute / _realize *)
Pairs(f) == {<<p, f[p]>> : p \in DOMAIN f}
Lesser(a, b) == IF a < b THEN a ELSE b
\* a connected Switch keeps the Port objects of ports that still exist, creates fresh (waiting) ones for new ports
Sync(s, sp, ag) == [p \in sp[s] |-> IF p \in DOMAIN ag[s] THEN ag[s][p] ELSE 0]
\* what a port is told: waiting -> NO_FLOOD|NO_FWD; a port some LinkData names -> flood iff that link is on
\* the tree (whatever the link's liveness); any other port -> flood
OutOf(s, a, K, T) ==
  [p \in DOMAIN a |-> IF a[p] < W THEN BLOCKED
                      ELSE IF LinkAt(s, p, K) = {} THEN 0
                      ELSE IF LinkAt(s, p, K) \subseteq T THEN 0 ELSE NOFLOOD]
\* every Switch in `who` that has a connection computes its ports and, iff the result differs from what the
\* switch was last told, writes ONE batch (a port_mod per port + a features request) and remembers it
React(cn, sp, ag, K, T, ca, chn, who) ==
  LET act == who \cap cn
      sy  == [s \in act |-> Sync(s, sp, ag)]
      out == [s \in act |-> OutOf(s, sy[s], K, T)]
      snd == {s \in act : ~(ca[s].has /\ ca[s].m = out[s])}
  IN [age   |-> [s \in Sw |-> IF s \in act THEN sy[s] ELSE ag[s]],
      cache |-> [s \in Sw |-> IF s \in snd THEN Told(out[s]) ELSE ca[s]],
      chan  |-> [s \in Sw |-> IF s \in snd THEN Append(chn[s], out[s]) ELSE chn[s]],
      snd   |-> snd,
      sent  |-> {<<s, Pairs(out[s])>> : s \in snd}]

NoObs == [a |-> "Init", args |-> [x |-> 0], exp |-> [x |-> 0]]
Log(a, args, exp) ==
  /\ last' = [a |-> a, args |-> args, exp |-> exp]
  /\ hist' = Append(hist, [a |-> a, args |-> args, exp |-> exp])
Exp(sent, tr, err) == [sent |-> sent, tree |-> tr, err |-> err]

Init ==
  /\ conn = {} /\ sports = InitPorts /\ down = [s \in Sw |-> {}]
  /\ swcfg = [s \in Sw |-> [p \in InitPorts[s] |-> 0]]
  /\ chan = [s \in Sw |-> <<>>] /\ ann = [f |-> {}, r |-> {}]
  /\ sws = {} /\ age = [s \in Sw |-> <<>>] /\ cache = [s \in Sw |-> NoCache]
  /\ known = {} /\ fwd = {} /\ rev = {} /\ tree = {}
  /\ tphase = 0 /\ calm = 0 /\ stale = {} /\ dpend = {}
  /\ last = NoObs /\ hist = <<>>

\* the common tail of every handler that ends in SpanningForest._compute
Recompute(cn, sp, ag, K, F, R, ca, chn, who, a, args, extraStale) ==
  \E T \in TreeChoices(tree, F \cap R) :
    LET r == React(cn, sp, ag, K, T, ca, chn, who) IN
    /\ tree' = T /\ age' = r.age /\ cache' = r.cache /\ chan' = r.chan
    /\ stale' = (stale \ r.snd) \cup (extraStale \ r.snd)
    /\ Log(a, args, Exp(r.sent, T, ""))

----------------------------------------------------------------------------
\* DEVIATION StaleCache (Strict = FALSE is the code): _handle_ConnectionUp assigns `self._port_cache = None`, a
\* name nothing reads; the intended `_port_out_cache` survives the reconnect, so a switch that lost its port
\* configuration (reboot, or a batch lost with the old session) is not told again while the result is unchanged.
CacheAtConnUp(s) == IF Strict THEN [cache EXCEPT ![s] = NoCache] ELSE cache
\* DEVIATION ForgottenLink (StrictHeal = FALSE is the code): a PortStatus with the port down marks the link dead
\* in both directions; nothing marks it alive again but a LinkEvent(added), which discovery raises only for a link
\* that is not in its adjacency.  A port that comes back before discovery's link timeout therefore leaves the link
\* dead for ever although discovery still vouches for it.  StrictHeal = TRUE: the port coming up restores the
\* directions discovery has announced and not withdrawn.
LivenessAtPortUp(ls) == IF StrictHeal THEN <<fwd \cup (ls \cap ann.f), rev \cup (ls \cap ann.r)>> ELSE <<fwd, rev>>

ConnUp(s, fr) ==
  /\ tphase < P /\ dpend = {} /\ s \notin conn /\ fr \in Fresh
  /\ conn' = conn \cup {s} /\ sws' = sws \cup {s}
  /\ swcfg' = IF fr THEN [swcfg EXCEPT ![s] = [p \in sports[s] |-> 0]] ELSE swcfg
  /\ UNCHANGED <<ann, sports, down, known, fwd, rev, tphase, dpend>>
  /\ calm' = 0
  /\ LET ca == CacheAtConnUp(s)
         ag == [age EXCEPT ![s] = Sync(s, sports, age)]                      \* Switch._handle_ConnectionUp
     IN Recompute(conn \cup {s}, sports, ag, known, fwd, rev, ca, chan, sws \cup {s},
                  "ConnUp", [s |-> s, fresh |-> fr], IF ca[s].has THEN {s} ELSE {})

\* Connection.disconnect(): the session leaves the nexus (what was in flight is lost) BEFORE ConnectionDown is
\* raised; listeners with a higher priority than the component (discovery, which withdraws the switch's links
\* with LinkEvents) run in between.  Only LinkEv can happen while dpend # {}.
Disconnect(s) ==
  /\ tphase < P /\ dpend = {} /\ s \in conn
  /\ conn' = conn \ {s} /\ dpend' = {s}
  /\ chan' = [chan EXCEPT ![s] = <<>>]
  /\ UNCHANGED <<ann, sports, down, swcfg, cvars, tphase, stale>>
  /\ calm' = 0
  /\ Log("Disconnect", [s |-> s], Exp({}, tree, ""))
\* _handle_openflow_ConnectionDown: Switch._handle_ConnectionDown only touches Port.up; then SpanningForest._compute
ConnDown(s) ==
  /\ s \in dpend
  /\ dpend' = {}
  /\ UNCHANGED <<ann, conn, sports, down, swcfg, sws, known, fwd, rev, tphase>>
  /\ calm' = 0
  /\ Recompute(conn, sports, age, known, fwd, rev, cache, chan, sws, "ConnDown", [s |-> s], {})

\* dir = "uv": the event names the link as <<s1,p1,s2,p2>> (its .uni form); "vu": the flipped link
Refused(l) == l \notin known /\ (SelfLoop(l) \/ \E e \in EndsOf(l) : LinkAt(e[1], e[2], known) # {})
\* (a LinkEvent may also fall on the timer instant before the timer, and between Disconnect and ConnDown)
LinkEv(add, l, dir) ==
  /\ UNCHANGED <<conn, sports, down, swcfg, sws, tphase, dpend>>
  /\ calm' = 0
  /\ LET args == [add |-> add, l |-> l, dir |-> dir] IN
     IF Refused(l)
     THEN \* Topo.get_link: "Dynamic/hubbed/multi-access topology not supported" (a port already belongs to
          \* another link) -> RuntimeError; LinkData.__init__: both ends on one switch -> AssertionError.
          \* Nothing has been changed when they are raised.
          \* (discovery's adjacency is only tracked for links the component knows)
          /\ UNCHANGED <<ann, age, cache, chan, known, fwd, rev, tree, stale>>
          /\ Log("LinkEv", args, Exp({}, tree,
                 IF \E e \in EndsOf(l) : LinkAt(e[1], e[2], known) # {} THEN "RuntimeError" ELSE "AssertionError"))
     ELSE LET F == IF dir = "uv" THEN (IF add THEN fwd \cup {l} ELSE fwd \ {l}) ELSE fwd
              R == IF dir = "vu" THEN (IF add THEN rev \cup {l} ELSE rev \ {l}) ELSE rev
          IN /\ known' = known \cup {l} /\ fwd' = F /\ rev' = R
             /\ ann' = [f |-> IF dir = "uv" THEN (IF add THEN ann.f \cup {l} ELSE ann.f \ {l}) ELSE ann.f,
                         r |-> IF dir = "vu" THEN (IF add THEN ann.r \cup {l} ELSE ann.r \ {l}) ELSE ann.r]
             /\ IF Liv(l, F, R) # Liv(l, fwd, rev)
                THEN Recompute(conn, sports, age, known \cup {l}, F, R, cache, chan, sws, "LinkEv", args, {})
                ELSE /\ UNCHANGED <<age, cache, chan, tree, stale>>
                     /\ Log("LinkEv", args, Exp({}, tree, ""))

Ext(f, p, v) == [q \in DOMAIN f \cup {p} |-> IF q = p THEN v ELSE f[q]]
Cut(f, p)    == [q \in DOMAIN f \ {p} |-> f[q]]
PortEv(s, p, k) ==
  /\ tphase < P /\ dpend = {} /\ k \in PortOps /\ <<s, p>> \in OpPorts
  /\ CASE k = "add"  -> p \notin sports[s] /\ (s \in conn => p \notin DOMAIN cache[s].m)
       [] k = "del"  -> p \in sports[s]
       [] k = "down" -> p \in sports[s] \ down[s]
       [] k = "up"   -> p \in down[s]
  /\ sports' = [sports EXCEPT ![s] = IF k = "add" THEN @ \cup {p} ELSE IF k = "del" THEN @ \ {p} ELSE @]
  /\ down'   = [down EXCEPT ![s] = IF k = "down" THEN @ \cup {p} ELSE IF k \in {"up", "del"} THEN @ \ {p} ELSE @]
  /\ swcfg'  = [swcfg EXCEPT ![s] = IF k = "add" THEN Ext(@, p, 0) ELSE IF k = "del" THEN Cut(@, p) ELSE @]
  /\ UNCHANGED <<ann, conn, sws, tphase, dpend>>
  /\ calm' = 0
  /\ LET args == [s |-> s, p |-> p, k |-> k] IN
     IF s \notin conn
     THEN /\ UNCHANGED <<chan, age, cache, known, fwd, rev, tree, stale>>       \* nobody is told
          /\ Log("PortEv", args, Exp({}, tree, ""))
     ELSE \* Switch._handle_PortStatus: unknown port -> new Port; known port -> reset_wait unless deleted
          LET sp == [sports EXCEPT ![s] = IF k = "add" THEN @ \cup {p} ELSE IF k = "del" THEN @ \ {p} ELSE @]
              ag == [age EXCEPT ![s] = IF p \notin DOMAIN @ THEN Ext(@, p, 0)
                                       ELSE IF k = "del" THEN @ ELSE [@ EXCEPT ![p] = 0]]
              isdown == k = "down" \/ (k = "del" /\ p \in down[s])           \* is_down(e.ofp.desc)
              ls == LinkAt(s, p, known)
              F  == IF isdown THEN fwd \ ls ELSE IF k = "up" THEN LivenessAtPortUp(ls)[1] ELSE fwd   \* mark_dead():
              R  == IF isdown THEN rev \ ls ELSE IF k = "up" THEN LivenessAtPortUp(ls)[2] ELSE rev   \* both directions
          IN /\ UNCHANGED known /\ fwd' = F /\ rev' = R
             /\ IF \E l \in ls : Liv(l, F, R) # Liv(l, fwd, rev)
                THEN Recompute(conn, sp, ag, known, F, R, cache, chan, sws, "PortEv", args, {})
                ELSE /\ age' = ag /\ UNCHANGED <<cache, chan, tree, stale>>
                     /\ Log("PortEv", args, Exp({}, tree, ""))

\* the periodic timer: every Switch syncs (a Switch without connection forgets its ports) and computes;
\* the tree is not recomputed
Tick ==
  /\ tphase = P /\ dpend = {}
  /\ tphase' = 0
  /\ UNCHANGED <<ann, conn, sports, down, swcfg, sws, known, fwd, rev, tree, calm, dpend>>
  /\ LET ag == [s \in Sw |-> IF s \in sws /\ s \notin conn THEN <<>> ELSE age[s]]
         r  == React(conn, sports, ag, known, tree, cache, chan, sws)
     IN /\ age' = r.age /\ cache' = r.cache /\ chan' = r.chan /\ stale' = stale \ r.snd
        /\ Log("Tick", [x |-> 0], Exp(r.sent, tree, ""))

Apply(cfg, b) == [p \in DOMAIN cfg |-> IF p \in DOMAIN b THEN b[p] ELSE cfg[p]]
RECURSIVE ApplyAll(_, _)
ApplyAll(cfg, bs) == IF bs = <<>> THEN cfg ELSE ApplyAll(Apply(cfg, Head(bs)), Tail(bs))
Deliver(s) ==
  /\ tphase < P /\ dpend = {} /\ s \in conn /\ chan[s] # <<>>
  /\ swcfg' = [swcfg EXCEPT ![s] = ApplyAll(@, chan[s])]
  /\ chan' = [chan EXCEPT ![s] = <<>>]
  /\ UNCHANGED <<ann, conn, sports, down, cvars, tphase, calm, stale, dpend>>
  /\ Log("Deliver", [s |-> s], [cfg |-> Pairs(ApplyAll(swcfg[s], chan[s]))])

Advance ==
  /\ tphase < P /\ dpend = {}
  /\ tphase' = tphase + 1
  /\ calm' = Lesser(calm + 1, W + P)
  /\ age' = [s \in Sw |-> [p \in DOMAIN age[s] |-> Lesser(age[s][p] + 1, W)]]
  /\ UNCHANGED <<evars, sws, cache, known, fwd, rev, tree, stale, dpend>>
  /\ Log("Advance", [x |-> 0], [tick |-> (tphase + 1 = P)])

Next == \/ \E s \in Sw, fr \in BOOLEAN : ConnUp(s, fr)
        \/ \E s \in Sw : Disconnect(s)
        \/ \E s \in Sw : ConnDown(s)
        \/ \E add \in BOOLEAN, l \in Links, dir \in {"uv", "vu"} : LinkEv(add, l, dir)
        \/ \E s \in Sw, p \in Ports, k \in {"add", "del", "down", "up"} : PortEv(s, p, k)
        \/ Tick
        \/ \E s \in Sw : Deliver(s)
        \/ Advance
Spec == Init /\ [][Next]_vars

ChanBound == \A s \in Sw : Len(chan[s]) <= MaxChan

----------------------------------------------------------------------------
(* Properties (over the real variables) *)
Cfgs == {0, NOFLOOD, NOFWD, BLOCKED}
TypeOK ==
  /\ conn \subseteq sws /\ sws \subseteq Sw
  /\ \A s \in Sw : /\ sports[s] \subseteq Ports /\ down[s] \subseteq sports[s]
                   /\ DOMAIN swcfg[s] = sports[s] /\ \A p \in sports[s] : swcfg[s][p] \in Cfgs
                   /\ DOMAIN age[s] \subseteq Ports /\ \A p \in DOMAIN age[s] : age[s][p] \in 0..W
                   /\ cache[s].has \in BOOLEAN /\ \A p \in DOMAIN cache[s].m : cache[s].m[p] \in {0, NOFLOOD, BLOCKED}
                   /\ (s \notin sws => ~cache[s].has /\ age[s] = <<>>)
  /\ tree \subseteq known /\ fwd \subseteq known /\ rev \subseteq known /\ known \subseteq Links
  /\ tphase \in 0..P /\ calm \in 0..(W + P) /\ stale \subseteq Sw
  /\ dpend \subseteq sws \ conn /\ Cardinality(dpend) <= 1
  /\ fwd \subseteq ann.f /\ rev \subseteq ann.r /\ ann.f \subseteq known /\ ann.r \subseteq known
  \* no port belongs to two links, no link has both ends on one switch
  /\ \A l \in known : ~SelfLoop(l) /\ \A e \in EndsOf(l) : LinkAt(e[1], e[2], known) = {l}

\* the tree is, at every moment, a spanning forest of the links that are up in both directions
TreeIsSpanningForest == IsSpanningForest(tree, UpLinks)

\* what the component has told a switch is what the switch has (once the channel is drained)
SwitchHasWhatItWasTold ==
  \A s \in conn : (chan[s] = <<>> /\ s \notin stale) =>
     \A p \in DOMAIN cache[s].m \cap sports[s] : swcfg[s][p] = cache[s].m[p]
\* the same without the exemption of the StaleCache deviation: holds iff Strict
SwitchHasWhatItWasToldStrict ==
  \A s \in conn : (chan[s] = <<>>) =>
     \A p \in DOMAIN cache[s].m \cap sports[s] : swcfg[s][p] = cache[s].m[p]

\* a port in its waiting period is told NO_FLOOD|NO_FWD by the first timer run after the wait began
WaitingBlocked ==
  \A s \in conn : \A p \in DOMAIN age[s] \cap sports[s] :
     (tphase < P /\ P <= age[s][p] /\ age[s][p] < W) =>
        cache[s].has /\ p \in DOMAIN cache[s].m /\ cache[s].m[p] = BLOCKED

\* W + P after the last event every connected switch has been told its steady state
Steady(s) == OutOf(s, [p \in sports[s] |-> W], known, tree)
Converged == calm >= W + P => \A s \in conn : cache[s] = Told(Steady(s))

\* ... and then (channels drained) the switches themselves are in the state the property describes
Quiet == calm >= W + P /\ \A s \in conn : chan[s] = <<>> /\ s \notin stale
Flooding(s, p) == s \in conn /\ p \in sports[s] /\ swcfg[s][p] = 0
FloodLinks == {l \in known : Flooding(l[1], l[2]) /\ Flooding(l[3], l[4])}
QuietFlood ==
  Quiet =>
    /\ \A s \in conn : \A p \in sports[s] : swcfg[s][p] \in {0, NOFLOOD}          \* nothing left blocked (NO_FWD)
    /\ \A s \in conn : \A p \in sports[s] : LinkAt(s, p, known) = {} => swcfg[s][p] = 0   \* host ports flood
    /\ \A l \in known \ UpLinks : \A e \in EndsOf(l) :                              \* one-way / dead links do not
          (e[1] \in conn /\ e[2] \in sports[e[1]]) => swcfg[e[1]][e[2]] = NOFLOOD
    /\ FloodLinks \subseteq UpLinks /\ IsForest(FloodLinks)                         \* no loop
    /\ (\A l \in UpLinks : \A e \in EndsOf(l) : e[1] \in conn /\ e[2] \in sports[e[1]])
          => Spans(FloodLinks, UpLinks)                                             \* one tree per component

\* stable mode: a tree link that is still up in both directions stays on the tree
StableKeeps == [][Mode = "stable" => (tree \cap (fwd' \cap rev')) \subseteq tree']_vars

\* port_mods realise exactly the computed state: a batch is written only if it differs from what the switch was
\* last told (or, Strict, the switch has just connected), and it becomes what the switch was last told
ExactBatches ==
  [][\A s \in Sw :
       /\ Len(chan'[s]) > Len(chan[s]) =>
            /\ Len(chan'[s]) = Len(chan[s]) + 1
            /\ cache'[s] = Told(chan'[s][Len(chan'[s])])
            /\ (cache[s] # cache'[s] \/ (Strict /\ s \notin conn))
       /\ (cache'[s] # cache[s]) => Len(chan'[s]) = Len(chan[s]) + 1
     ]_vars

\* a port that comes up again makes its link usable again as far as discovery still vouches for it
\* (holds iff StrictHeal; the code violates it: deviation ForgottenLink)
HealsOnPortUp ==
  [][(last'.a = "PortEv" /\ last'.args.k = "up" /\ last'.args.s \in conn) =>
       \A l \in LinkAt(last'.args.s, last'.args.p, known) :
          (l \in ann.f => l \in fwd') /\ (l \in ann.r => l \in rev')]_vars
\* links the component has given up although discovery vouches for them and no end port is down
Forgotten == {l \in known : /\ (l \in ann.f /\ l \notin fwd) \/ (l \in ann.r /\ l \notin rev)
                            /\ \A e \in EndsOf(l) : e[2] \in sports[e[1]] \ down[e[1]]}

\* ---- export for the replay harness
Bound   == Len(hist) <= D
Export  == (Len(hist) = D) => PrintT(<<"H", ToJson(hist)>>)
ExportT == PrintT(<<"T", ToJson(hist')>>)
=============================================================================
