CONSTANTS
  Sw <- OneSw
  Ports <- OnePorts
  InitPorts <- OneInit
  Links <- OneLinks
  Mode = "stable"
  P = 1
  W = 1
  Strict = FALSE
  StrictHeal = FALSE
  PortOps <- NoOps
  OpPorts <- NoOpPorts
  Fresh <- AnyFresh
  MaxChan = 1
  D = 0
INIT Init
NEXT Next
VIEW viewE
CONSTRAINT ChanBound
ACTION_CONSTRAINT ExportEager
CHECK_DEADLOCK FALSE
