CONSTANTS
  Sw <- TriSw
  Ports <- TriPorts
  InitPorts <- TriInit
  Links <- TriLinks
  Mode = "unstable"
  P = 2
  W = 3
  Strict = FALSE
  StrictHeal = FALSE
  PortOps <- AllOps
  OpPorts <- AllOpPorts
  Fresh <- AnyFresh
  MaxChan = 1
  D = 0
INIT TrInit
NEXT TrNext
CONSTRAINT Progress
POSTCONDITION Accepted
INVARIANT TypeOK
INVARIANT TreeIsSpanningForest
INVARIANT SwitchHasWhatItWasTold
INVARIANT WaitingBlocked
INVARIANT Converged
INVARIANT QuietFlood
CHECK_DEADLOCK FALSE
