---- MODULE TraceForest ----
(* Code -> spec: histories recorded from the real spanning_forest component (random driver, and the real  *)
(* discovery component over simulated wires) must be behaviours of Forest.tla; every invariant of the     *)
(* specification is evaluated in every state the implementation history visits.                            *)
(* An event is [a, args, obs] with a fixed schema:                                                         *)
(*   args = [s, fresh, add, l, dir, p, k]   obs = [sent, tree, err, cfg, tick]                             *)
EXTENDS MCForest, IOUtils, TLCExt, SequencesExt

Traces == JsonDeserialize(IOEnv.TRACE_FILE)
NT == Len(Traces)
VARIABLES tid, l
tvars == <<vars, tid, l>>

TrInit == Init /\ tid \in 1..NT /\ l = 1 /\ TLCSet(tid, 0)
Ev == Traces[tid][l]
IsEvent(e) == l <= Len(Traces[tid]) /\ Ev.a = e /\ l' = l + 1 /\ UNCHANGED tid

ObsSent(o) == {<<x[1], ToSet(x[2])>> : x \in ToSet(o.sent)}
ObsOK == /\ last'.exp.sent = ObsSent(Ev.obs)
         /\ last'.exp.tree = ToSet(Ev.obs.tree)
         /\ last'.exp.err = Ev.obs.err

TrConnUp   == IsEvent("ConnUp") /\ ConnUp(Ev.args.s, Ev.args.fresh) /\ ObsOK
TrDisconnect == IsEvent("Disconnect") /\ Disconnect(Ev.args.s) /\ ObsOK
TrConnDown == IsEvent("ConnDown") /\ ConnDown(Ev.args.s) /\ ObsOK
TrLinkEv   == IsEvent("LinkEv") /\ LinkEv(Ev.args.add, Ev.args.l, Ev.args.dir) /\ ObsOK
TrPortEv   == IsEvent("PortEv") /\ PortEv(Ev.args.s, Ev.args.p, Ev.args.k) /\ ObsOK
TrTick     == IsEvent("Tick") /\ Tick /\ ObsOK
TrDeliver  == IsEvent("Deliver") /\ Deliver(Ev.args.s) /\ last'.exp.cfg = ToSet(Ev.obs.cfg)
TrAdvance  == IsEvent("Advance") /\ Advance /\ last'.exp.tick = Ev.obs.tick

TrNext == TrConnUp \/ TrDisconnect \/ TrConnDown \/ TrLinkEv \/ TrPortEv \/ TrTick \/ TrDeliver \/ TrAdvance
TrSpec == TrInit /\ [][TrNext]_tvars

Progress == TLCSet(tid, IF TLCGet(tid) < l - 1 THEN l - 1 ELSE TLCGet(tid))
Ok(t) == TLCGet(t) = Len(Traces[t]) \/ (PrintT(<<"REJECT", t, TLCGet(t)>>) /\ FALSE)
Accepted == /\ PrintT(<<"TRACES-CHECKED", NT>>)
            /\ Cardinality({t \in 1..NT : ~Ok(t)}) = 0
====
