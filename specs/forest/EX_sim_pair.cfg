CONSTANTS
  Sw <- PairSw
  Ports <- PairPorts
  InitPorts <- PairInit
  Links <- PairLinks
  Mode = "stable"
  P = 1
  W = 1
  Strict = FALSE
  PortOps <- AllOps
  OpPorts <- AllOpPorts
  Fresh <- AnyFresh
  MaxChan = 3
  D = 50
INIT Init
NEXT Next
ACTION_CONSTRAINT DownAtomic
INVARIANT Export
CHECK_DEADLOCK FALSE
