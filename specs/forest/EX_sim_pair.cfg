CONSTANTS
  Sw <- PairSw
  Ports <- PairPorts
  InitPorts <- PairInit
  Links <- PairLinks
  Mode = "stable"
  P = 1
  W = 1
  Strict = FALSE
  StrictHeal = FALSE
  PortOps <- AllOps
  OpPorts <- AllOpPorts
  Fresh <- AnyFresh
  MaxChan = 3
  D = 50
INIT Init
NEXT SimNext
INVARIANT Export
CHECK_DEADLOCK FALSE
